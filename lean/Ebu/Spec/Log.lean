import Ebu.Model.Replay
/-!
Specification vocabulary for the stores (M3) and Replay (M4).
-/
namespace Ebu.Log

/-- the store reached by appending the records `rs` to a fresh store -/
def memOf (rs : List Rec) : Mem := rs.foldl (fun m r => (m.append r).1) {}
def sqlOf (rs : List Rec) : Sql := rs.foldl (fun s r => (s.append r).1) {}
def dsOf (chunk : Nat) (rs : List Rec) : Ds := rs.foldl (fun d r => (d.append r).1) { chunk := chunk }

/-- what an append-only log with offsets `off 1, off 2, …` looks like -/
def logWith (off : Nat → Off) (rs : List Rec) : List (Off × Rec) :=
  (List.range rs.length).zip rs |>.map (fun (i, r) => (off (i + 1), r))

/-- resume point number `j` (0 = oldest, `j` = the offset of the j-th event) -/
def resumeAt (off : Nat → Off) (j : Nat) : Off := if j = 0 then [] else off j

/-- the selection `Read(o, n)` must return from the events after the resume point -/
def sel (rest : List (Off × Rec)) (limit : Int) : List (Off × Rec) :=
  if limit ≤ 0 then rest else rest.take limit.toNat

/-- "`read` presents the log `all`, resumable after any event": the contract of
`EventStore.Read` for every resume point that the store has handed out -/
structure PagedSpec (read : Off → Int → Option (List (Off × Rec) × Off)) (off : Nat → Off)
    (all : List (Off × Rec)) : Prop where
  read_at : ∀ j, j ≤ all.length → ∀ limit : Int,
    read (resumeAt off j) limit =
      some (sel (all.drop j) limit, resumeAt off (j + (sel (all.drop j) limit).length))
  offs : ∀ j, (h : j < all.length) → (all[j]).1 = off (j + 1)
  inj : ∀ i j, i ≤ all.length → j ≤ all.length → resumeAt off i = resumeAt off j → i = j

/-- a chain of reads, each resumed from the next offset the previous one returned -/
def chainReads (read : Off → Int → Option (List (Off × Rec) × Off)) : Off → List Int → Option (List (List (Off × Rec)))
  | _, [] => some []
  | o, l :: ls =>
    match read o l with
    | none => none
    | some (evs, next) => (chainReads read next ls).map (evs :: ·)

/-- the pages a list must be cut into by the successive limits (no gap, no repeat) -/
def pages : List (Off × Rec) → List Int → List (List (Off × Rec))
  | _, [] => []
  | rest, l :: ls => sel rest l :: pages (rest.drop (sel rest l).length) ls

end Ebu.Log

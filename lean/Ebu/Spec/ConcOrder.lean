import Ebu.Spec.ConcTrace
/-! Vocabulary for the order of asynchronous Sequential deliveries and for removed registrations (C07, C02). -/
namespace Ebu.Conc

/-- the ticket of the async goroutine number `i` (none for goroutines of the test program) -/
def ticketOf (s : Sys) (i : Nat) : Option Nat := (s.ths[i]?).bind (fun th => th.job.map (·.ticket))

/-- the tickets of the asynchronous deliveries made to registration `rid`, in the order in which the handler was entered -/
def asyncEntryTickets (x : SysT) (rid : Nat) : List Nat :=
  x.tr.filterMap (fun p => match p.2 with
    | .enter r _ _ true => if r == rid then ticketOf x.s p.1 else none
    | _ => none)

/-- registration `rid` is Sequential wherever a goroutine was started for it -/
def SeqJobs (s : Sys) (rid : Nat) : Prop :=
  ∀ th ∈ s.ths, ∀ j, th.job = some j → j.reg.rid = rid → j.reg.seq = true

/-- does the thread still carry registration `rid` – in the rest of a snapshot, as the handler it runs, at its program
counter, or as the job it was started for? -/
def carriesReg (rid : Nat) (th : Thread) : Bool :=
  th.frames.any (fun f => f.rest.any (fun r => r.rid == rid) || (match f.handler with | some r => r.rid == rid | none => false)) ||
  (match th.pc with
   | .filter r | .claimed r | .spawn r _ _ | .lock r _ | .enter r | .exit r => r.rid == rid
   | _ => false) ||
  (match th.job with | some j => j.reg.rid == rid && th.pc != .done | none => false)

/-- all handler entries (synchronous and asynchronous) of registration `rid` in a trace -/
def entriesOfReg (rid : Nat) (tr : List (Nat × Obs)) : List (Nat × Obs) :=
  tr.filter (fun p => match p.2 with | .enter r _ _ _ => r == rid | _ => false)

/-- `x'` is reachable from `x` by finitely many steps -/
inductive StepsT : SysT → SysT → Prop
  | refl (x : SysT) : StepsT x x
  | step {x y z : SysT} {i : Nat} : StepsT x y → y.stepAt i = some z → StepsT x z

end Ebu.Conc

import Ebu.Model.Bus
/-!
Specification vocabulary for the bus machine M1: projections of the trace that the property
theorems (Props/C01, C04, C05, C08, C09, C13, C20) are stated in.
-/
namespace Ebu.Bus

def Ev.depth : Ev → Nat
  | .filt d .. => d | .enter d .. => d | .exit d .. => d | .panich d .. => d | .hook d .. => d
  | .append d .. => d | .log d .. => d | .perr d .. => d | .qHas d .. => d | .qCount d .. => d
  | .qUnsub d .. => d | .obs d .. => d | .deep d => d

/-- the events appended between two states (the trace only ever grows, see `trace_extends`) -/
def newTrace {R R' : Type} (s : St R) (s' : St R') : List Ev := s'.c.trace.drop s.c.trace.length

def newPending {R R' : Type} (s : St R) (s' : St R') : List Pending := s'.c.pending.drop s.c.pending.length

/-- handlers entered *directly* by a publish running at depth `d`: `enter` events tagged `d+1`;
the result lists (rid, type, value, context) -/
def directEnters (d : Nat) (l : List Ev) : List (Nat × Nat × Nat × Option Nat) :=
  l.filterMap fun e => match e with
    | .enter d' rid ty v ctx _ => if d' = d + 1 then some (rid, ty, v, ctx) else none
    | _ => none

def isHookAt (d : Nat) : Ev → Bool
  | .hook d' .. => d' == d
  | _ => false

def isPanichAt (d : Nat) : Ev → Bool
  | .panich d' .. => d' == d
  | _ => false

def isEnter : Ev → Bool
  | .enter .. => true
  | _ => false

def isAppend : Ev → Bool
  | .append .. => true
  | _ => false

/-- offsets of the successful appends, in trace order -/
def okOffsets (l : List Ev) : List Nat :=
  l.filterMap fun e => match e with
    | .append _ _ _ _ true off => some off
    | _ => none

/-- persistence-related events (what a store fault may change) -/
def isPersistEv : Ev → Bool
  | .append .. => true
  | .perr .. => true
  | .log .. => true
  | .obs _ .rc .. => true
  | _ => false

/-- registry well-formedness: per type, distinct registration identities, all older than
`nextRid`, all of that type -/
def WF {R : Type} (I : RegImpl R) (s : St R) : Prop :=
  ∀ t, ((I.get s.reg t).map (·.rid)).Nodup ∧ ∀ r ∈ I.get s.reg t, r.rid < s.c.nextRid ∧ r.ty = t

/-- the abstraction from any registry implementation to the flat specification -/
def absSt {R : Type} (I : RegImpl R) (s : St R) : St (Nat → List Reg) :=
  { reg := fun t => I.get s.reg t, c := s.c }

/-- observability spans: processing a trace against a stack of open span ids; `none` = a
complete event that does not match the innermost open span -/
def obsStack : List Ev → List Nat → Option (List Nat)
  | [], st => some st
  | .obs _ k id _ _ _ :: rest, st =>
    match k with
    | .ps | .hs | .rs => obsStack rest (id :: st)
    | .pc | .hc | .rc =>
      match st with
      | top :: st' => if top = id then obsStack rest st' else none
      | [] => none
  | _ :: rest, st => obsStack rest st

def obsStarts (l : List Ev) : List Nat :=
  l.filterMap fun e => match e with
    | .obs _ .ps id .. => some id
    | .obs _ .hs id .. => some id
    | .obs _ .rs id .. => some id
    | _ => none

/-- which options were given (order-insensitive view of an option list) -/
def lastStore (opts : List Opt) : Option Nat :=
  opts.foldl (fun acc o => match o with | .store sid => some sid | _ => acc) none

end Ebu.Bus

namespace Ebu.Bus

/-- ids of the spans completed in a trace, in order -/
def obsCompletes (l : List Ev) : List Nat :=
  l.filterMap fun e => match e with
    | .obs _ .pc id .. => some id
    | .obs _ .hc id .. => some id
    | .obs _ .rc id .. => some id
    | _ => none

/-- M9: what an OpenTelemetry-style implementation of the callbacks accumulates from a trace:
spans started / ended, and the five counters -/
structure OtelSummary where
  started : Nat
  ended : Nat
  publishes : Nat
  handlerRuns : Nat
  handlerErrors : Nat
  persistAttempts : Nat
  persistErrors : Nat
deriving DecidableEq, Repr

def otelSummary (l : List Ev) : OtelSummary :=
  let cnt (p : Ev → Bool) := l.countP p
  { started := (obsStarts l).length,
    ended := (obsCompletes l).length,
    publishes := cnt (fun e => match e with | .obs _ .ps .. => true | _ => false),
    handlerRuns := cnt (fun e => match e with | .obs _ .hs .. => true | _ => false),
    handlerErrors := cnt (fun e => match e with | .obs _ .hc _ _ _ true => true | _ => false),
    persistAttempts := cnt (fun e => match e with | .obs _ .rs .. => true | _ => false),
    persistErrors := cnt (fun e => match e with | .obs _ .rc _ _ _ true => true | _ => false) }

/-- the truth the counters must equal: handler invocations, panics, append attempts, failed appends -/
def trueCounts (l : List Ev) : Nat × Nat × Nat × Nat :=
  (l.countP (fun e => match e with | .enter .. => true | _ => false),
   l.countP (fun e => match e with | .panich .. => true | _ => false),
   l.countP isAppend,
   l.countP (fun e => match e with | .append _ _ _ _ false _ => true | _ => false))

end Ebu.Bus

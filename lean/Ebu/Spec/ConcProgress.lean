import Ebu.Model.Conc
/-! Vocabulary of the deadlock-freedom theorem of the interleaving model M2 (C03, C06, C07). -/
namespace Ebu.Conc

/-- One subscription respects the rank `ρ` on event types: its handler publishes only events of no
higher rank than the type it is subscribed for, and a *synchronous Sequential* handler only events of
strictly lower rank.  The existence of such a rank is exactly "no synchronous Sequential handler
publishes – directly or through other synchronously dispatched handlers – an event that is delivered
back to itself", the one use C03 excludes. -/
def RankedOp (ρ : Nat → Nat) : Op → Prop
  | .subscribe ty _ _ async seq _ body =>
      ∀ p ∈ body, ρ p.1 ≤ ρ ty ∧ (seq = true → async = false → ρ p.1 < ρ ty)
  | _ => True

def Ranked (ρ : Nat → Nat) (progs : List (List Op)) : Prop :=
  ∀ p ∈ progs, ∀ op ∈ p, RankedOp ρ op

/-- some goroutine of the system has not finished -/
def Sys.unfinished (s : Sys) : Prop := ∃ th ∈ s.ths, th.pc ≠ .done

/-- some goroutine of the system can take a step -/
def Sys.canStep (s : Sys) : Prop := ∃ i s', s.stepAt i = some s'

end Ebu.Conc

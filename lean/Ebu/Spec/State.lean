import Ebu.Model.State
import Ebu.Model.StateWire
/-! Specification vocabulary for the materializer (C18, C19). -/
namespace Ebu.State

/-- apply a whole log, ignoring events that return an error (each `Apply` call stands alone) -/
def applyAll (m : Mat) (log : List Ev) : Mat := log.foldl (fun m e => (m.apply e).1) m

/-- does applying `e` in a materializer with this configuration succeed? (depends only on the
configuration: strict flag and registered types, never on the contents) -/
def applies (strict : Bool) (reg : Nat → Bool) (e : Ev) : Bool :=
  match e.msg with
  | .garbage => false
  | .control _ => true
  | .change ty _ op _ valOk =>
    if !reg ty then !strict
    else match op with
      | .insert | .update => valOk
      | _ => true

/-- the declarative meaning of a log for one (type, key): the value of the last successfully
applied insert/update that is not followed by a delete of the key or a reset -/
def lastWrite (strict : Bool) (reg : Nat → Bool) (ty key : Nat) : List Ev → Option Nat → Option Nat
  | [], acc => acc
  | e :: rest, acc =>
    let acc := if !applies strict reg e then acc else
      match e.msg with
      | .control .reset => none
      | .change ty' key' op val _ =>
        if ty' = ty ∧ key' = key ∧ reg ty then
          (match op with | .insert | .update => some val | .delete => none | .other => acc)
        else acc
      | _ => acc
    lastWrite strict reg ty key rest acc

/-- offset of the last successfully applied event -/
def lastApplied (strict : Bool) (reg : Nat → Bool) : List Ev → Nat → Nat
  | [], acc => acc
  | e :: rest, acc => lastApplied strict reg rest (if applies strict reg e then e.off else acc)

def increasing (log : List Ev) : Prop := List.Pairwise (fun a b => a.off < b.off) log

/-- composite keys as the code builds them: `entityType + "/" + key` -/
def compositeKey (ty key : String) : String := ty ++ "/" ++ key

end Ebu.State

import Ebu.Model.Resume
/-! Specification vocabulary for resumable subscriptions (C12). -/
namespace Ebu.Resume

/-- records delivered to subscription `id`, in order -/
def deliveredTo (s : RS) (id : Nat) : List Nat := (s.delivered.filter (fun p => p.1 == id)).map (·.2)

/-- records of the persisted events of type `ty`, in log order -/
def typed (log : List (Nat × Nat)) (ty : Nat) : List Nat := (log.filter (fun e => e.1 == ty)).map (·.2)

def isLive (s : RS) (id : Nat) : Bool := s.live.any (fun l => l.1 == id)

/-- offsets successfully saved for `id`, in the order they were saved -/
def savesOf (s : RS) (id : Nat) : List Nat := (s.savedHist.filter (fun p => p.1 == id)).map (·.2)

/-- a history is well formed for the type assignment `tyOf` when every subscription id is always
used with its own event type, is never subscribed twice within one process lifetime, and no
handler publishes during the replay (that case is the recorded finding) -/
def wellFormedFrom (p : Plan) (tyOf : Nat → Nat) : RS → List ROp → Bool
  | _, [] => true
  | s, op :: rest =>
    (match op with
     | .subscribe id ty pd => ty == tyOf id && !isLive s id && pd.isNone
     | _ => true) && wellFormedFrom p tyOf (stepOp p s op) rest

def wellFormed (p : Plan) (tyOf : Nat → Nat) (ops : List ROp) : Bool := wellFormedFrom p tyOf {} ops

end Ebu.Resume

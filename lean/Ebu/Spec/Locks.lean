import Ebu.Model.Locks
import Ebu.Generated.LockFacts
/-! The lock discipline as decidable predicates over the facts extracted from the Go source. -/
namespace Ebu.Locks
open Ebu.Generated

/-- every non-atomic access holds its location's guard lock: writes exclusively, reads at least
shared; the only location accessed atomically is the once flag `executed` -/
def accessOk (a : AccessFact) : Bool :=
  if a.atomic then a.loc == code_handler_executed
  else (if a.write then a.guardMode == 2 else decide (1 ≤ a.guardMode))

def Discipline (facts : List AccessFact) : Bool := facts.all accessOk

/-- handlers, filters, publish hooks, the panic handler and the persistence error handler are
called with no lock of the bus held -/
def callbackOk (c : CallbackFact) : Bool :=
  if c.what == code_cb_handler || c.what == code_cb_filter || c.what == code_cb_hook ||
     c.what == code_cb_panicHandler || c.what == code_cb_persistenceErrorHandler then c.held.isEmpty
  else if c.what == code_cb_store_Append then c.held == [code_bus_storeMu]     -- appends are serialised by storeMu
  else true

def CallbacksOk (facts : List CallbackFact) : Bool := facts.all callbackOk

/-- validation and insertion of an upcaster happen under the write lock: every access of
register / wouldCreateCycle / hasCycleDFS holds the registry lock exclusively -/
def RegisterAtomic (facts : List AccessFact) : Bool :=
  (facts.filter (fun a => registerFns.contains a.fn)).all (fun a => a.guardMode == 2) &&
  -- the table does contain the accesses of `register` and of the cycle search (not vacuous)
  facts.any (fun a => a.fn == registerFns.headD 0 && a.write) && facts.any (fun a => a.fn == registerFns.getLastD 0)

/-- a registry mutator does its lookup and its update of `shard.handlers` inside ONE write-locked critical
section (all its accesses carry the same, non-zero, section mark and the write mode; it does write) -/
def mutatorAtomic (facts : List AccessFact) (fn : Nat) : Bool :=
  match facts.filter (fun a => a.fn == fn && a.loc == code_shard_handlers) with
  | [] => false
  | a :: rest => a.csec != 0 && (a :: rest).all (fun b => b.guardMode == 2 && b.csec == a.csec) &&
      (a :: rest).any (·.write)

/-- Subscribe, SubscribeContext, Unsubscribe, Clear and ClearAll are each one atomic step on the registry -/
def RegistryOpsAtomic (facts : List AccessFact) : Bool := registryMutators.all (mutatorAtomic facts)

/-- `MemoryStore.Append` reserves the offset and inserts the record inside ONE write-locked critical section -/
def MemAppendAtomic (facts : List AccessFact) : Bool :=
  match facts.filter (fun a => a.fn == code_memstore_append) with
  | [] => false
  | a :: rest => a.csec != 0 && (a :: rest).all (fun b => b.guardMode == 2 && b.csec == a.csec) && (a :: rest).any (·.write)

def rankOf (l : Nat) : Nat := (lockRank.findIdx? (· == l)).getD lockRank.length

/-- locks are only ever nested along the intended order -/
def NestingOk (facts : List (Nat × Nat × Nat)) : Bool := facts.all (fun e => decide (rankOf e.2.1 < rankOf e.2.2))

end Ebu.Locks

import Ebu.Spec.ConcTrace
/-! Vocabulary of the termination theorem of the interleaving model M2 (C03, C06, C07). -/
namespace Ebu.Conc

/-- every handler publishes only events of strictly lower rank than the type it is subscribed for: no handler publishes –
directly or through other handlers – an event that is delivered back to itself (without this a handler can keep a publish
going for ever, whatever the schedule) -/
def RankedStrictOp (ρ : Nat → Nat) : Op → Prop
  | .subscribe ty _ _ _ _ _ body => ∀ p ∈ body, ρ p.1 < ρ ty
  | _ => True

def RankedStrict (ρ : Nat → Nat) (progs : List (List Op)) : Prop :=
  ∀ p ∈ progs, ∀ op ∈ p, RankedStrictOp ρ op

/-- run a schedule, given as the list of the numbers of the goroutines that move, one step each -/
def runSched (s : Sys) : List Nat → Option Sys
  | [] => some s
  | i :: is => (s.stepAt i).bind (fun s' => runSched s' is)

end Ebu.Conc

import Ebu.Model.Conc
/-! Specification vocabulary for the interleaving model M2 (C02, C04, C06, C07). -/
namespace Ebu.Conc

/-- is the thread inside (a handler invocation of) the Sequential registration `rid`? counts activations -/
def inside (rid : Nat) (th : Thread) : Nat :=
  th.frames.countP (fun f => match f.handler with
    | some r => r.seq && r.rid == rid
    | none => false)

def sumNat (l : List Nat) : Nat := l.foldl (· + ·) 0

/-- async goroutines that exist and have not finished -/
def liveJobs (s : Sys) : Nat := s.ths.countP (fun th => th.job.isSome && th.pc != .done)

/-- publishers that have counted a goroutine in (`wg.add`) but not started it yet -/
def pendingSpawns (s : Sys) : Nat :=
  s.ths.countP (fun th => match th.pc with | .spawn _ _ _ => true | _ => false)

/-- the tickets of one registration, in the order they appear in a ghost list -/
def ticketsOf (rid : Nat) (l : List (Nat × Nat)) : List Nat := (l.filter (fun p => p.1 == rid)).map (·.2)

end Ebu.Conc

import Ebu.Generated.Flow
/-!
Ordering and nesting predicates over the control-flow skeletons regenerated from the Go source
(`Ebu/Generated/Flow.lean`, written by /verif/go/extract/pipeline.go on every run).

A flow is the list of a function's notable statements in source order; the tokens listed in `opens` open a
nesting level that the token `closeTok` closes.  Everything here is a computable `Bool`, so an obligation
`pred flow = true` is decided by the kernel on the current source.
-/
namespace Ebu.Flow
open Ebu.Generated.Flow

/-- a token with the opening tokens that enclose it, innermost first -/
structure Ann where
  tok : Nat
  stack : List Nat
deriving DecidableEq, Repr

/-- annotate every token (closing tokens are dropped) with its enclosing opening tokens -/
def annotateFrom : List Nat → List Nat → List Ann
  | [], _ => []
  | t :: ts, st =>
    if t == closeTok then annotateFrom ts st.tail
    else if opens.contains t then ⟨t, st⟩ :: annotateFrom ts (t :: st)
    else ⟨t, st⟩ :: annotateFrom ts st

def annotate (l : List Nat) : List Ann := annotateFrom l []

/-- the positions at which `t` occurs -/
def idxs (t : Nat) (l : List Nat) : List Nat :=
  (List.range l.length).filter (fun i => l[i]? == some t)

def occurs (t : Nat) (l : List Nat) : Bool := l.contains t

def count (t : Nat) (l : List Nat) : Nat := l.count t

/-- both occur, and every occurrence of `a` lies before every occurrence of `b` -/
def before (a b : Nat) (l : List Nat) : Bool :=
  match (idxs a l).getLast?, (idxs b l).head? with
  | some i, some j => decide (i < j)
  | _, _ => false

/-- `before` along a whole chain of tokens -/
def chain : List Nat → List Nat → Bool
  | a :: b :: rest, l => before a b l && chain (b :: rest) l
  | [a], l => occurs a l
  | [], _ => true

/-- `t` occurs, and every occurrence is enclosed by the opening token `o` -/
def inside (t o : Nat) (l : List Nat) : Bool :=
  let occ := (annotate l).filter (fun a => a.tok == t)
  !occ.isEmpty && occ.all (fun a => a.stack.contains o)

/-- `t` occurs, and no occurrence is enclosed by the opening token `o` -/
def outside (t o : Nat) (l : List Nat) : Bool :=
  let occ := (annotate l).filter (fun a => a.tok == t)
  !occ.isEmpty && occ.all (fun a => !a.stack.contains o)

/-- `t` occurs, and every occurrence sits at the top level of the function (in no loop, branch or closure) except for
the opening tokens listed in `allowed` (typically the `if x != nil {` guarding an optional callback) -/
def topLevelUpTo (t : Nat) (allowedDepth : Nat) (l : List Nat) : Bool :=
  let occ := (annotate l).filter (fun a => a.tok == t)
  !occ.isEmpty && occ.all (fun a => decide (a.stack.length ≤ allowedDepth))

/-- `t` occurs, and every occurrence is immediately preceded by the tokens `pre` -/
def precededBy (t : Nat) (pre : List Nat) (l : List Nat) : Bool :=
  let is := idxs t l
  !is.isEmpty && is.all (fun i => decide (pre.length ≤ i) && (l.drop (i - pre.length)).take pre.length == pre)

/-- `t` occurs, and every occurrence is immediately followed by the tokens `post` -/
def followedBy (t : Nat) (post : List Nat) (l : List Nat) : Bool :=
  let is := idxs t l
  !is.isEmpty && is.all (fun i => (l.drop (i + 1)).take post.length == post)

/-- no `return` outside the opening token `o` (the function runs to its end on every path that is not inside `o`) -/
def noReturnOutside (o : Nat) (l : List Nat) : Bool :=
  (annotate l).all (fun a => !returns.contains a.tok || a.stack.contains o)

/-- no `return` at all -/
def noReturn (l : List Nat) : Bool := l.all (fun t => !returns.contains t)

/-- the part of the flow enclosed by the first occurrence of the opening token `o` (without the brackets) -/
def bodyOfFrom (o : Nat) : List Nat → List Nat
  | [] => []
  | t :: ts => if t == o then takeBody ts 0 else bodyOfFrom o ts
where
  takeBody : List Nat → Nat → List Nat
    | [], _ => []
    | t :: ts, d =>
      if t == closeTok then (if d = 0 then [] else t :: takeBody ts (d - 1))
      else if opens.contains t then t :: takeBody ts (d + 1)
      else t :: takeBody ts d

/-! ### the obligations, one definition per modelling assumption (stated once, used by the property files) -/

/-- PublishContext, before dispatch: publish-start callback, then the before-hooks, then persistence, then the
snapshot – copied under the shard's read lock, which is released before the first handler is looked at -/
def publishPrelude : Bool :=
  chain [obsPublishStart, hookPre, hookPreCtx, persist, shardRLock, copySnapshot, shardRUnlock, rangeSnapshot] publishFlow &&
  count persist publishFlow == 1 && topLevelUpTo persist 0 publishFlow &&
  count hookPre publishFlow == 1 && count hookPreCtx publishFlow == 1 &&
  topLevelUpTo hookPre 1 publishFlow && topLevelUpTo hookPreCtx 1 publishFlow && topLevelUpTo obsPublishStart 1 publishFlow

/-- PublishContext, after dispatch: the after-hooks and then the publish-complete callback come after the dispatch loop
and the retirement of claimed once handlers, once each, outside every loop, and NO path returns before them (the only
`return` of the function is inside the goroutine of an async handler) -/
def publishEpilogue : Bool :=
  chain [rangeSnapshot, callSync, shardLock, setShardHandlers, shardUnlock, hookPost, hookPostCtx, obsPublishComplete] publishFlow &&
  count hookPost publishFlow == 1 && count hookPostCtx publishFlow == 1 && count obsPublishComplete publishFlow == 1 &&
  topLevelUpTo hookPost 1 publishFlow && topLevelUpTo hookPostCtx 1 publishFlow && topLevelUpTo obsPublishComplete 1 publishFlow &&
  noReturnOutside goFunc publishFlow

/-- the dispatch loop looks at one snapshot entry in this order: filter, context check, once claim (compare-and-swap,
then noted for retirement), then dispatch; all inside the loop over the snapshot -/
def dispatchOrder : Bool :=
  chain [rangeSnapshot, ifFilter, ifOnce, cas, claim, ifAsync, inflightAdd, goFunc, callAsync, callSync] publishFlow &&
  inside ifFilter rangeSnapshot publishFlow && inside cas ifOnce publishFlow && inside claim ifOnce publishFlow &&
  inside ifOnce rangeSnapshot publishFlow && count cas publishFlow == 1

/-- the context check that precedes the once claim: directly in the loop (not under the filter, the once or the async
branch), between the filter and the claim, skipping the entry with `continue` -/
def ctxCheckBeforeClaim : Bool :=
  let seg := (publishFlow.drop ((idxs ifFilter publishFlow).headD 0)).takeWhile (· != ifOnce)
  before ifFilter ifOnce publishFlow &&
  (annotate seg).any (fun a => a.tok == continueT && a.stack == [caseCtxDone, selectO])

/-- every handler invocation is guarded by its own context check: the call sits in the `default` branch of a
`select` whose other branch is `<-ctx.Done()` and leaves (continue in the loop, return in the goroutine) -/
def callsGuardedByCtx : Bool :=
  precededBy callSync [selectO, caseCtxDone, continueT, closeTok, defaultO] publishFlow &&
  precededBy callAsync [selectO, caseCtxDone, returnT, closeTok, defaultO] publishFlow &&
  count callSync publishFlow == 1 && count callAsync publishFlow == 1 &&
  inside callAsync goFunc publishFlow && outside callSync goFunc publishFlow && inside callSync elseO publishFlow

/-- the in-flight count is taken by the PUBLISHER before the goroutine exists, and given back by a `defer` that is
registered before anything in the goroutine can return or block -/
def inflightBracketsGoroutine : Bool :=
  chain [ifAsync, inflightAdd, goFunc, inflightDone, awaitTurn, releaseTurn, callAsync] publishFlow &&
  outside inflightAdd goFunc publishFlow && inside inflightAdd ifAsync publishFlow && inside inflightDone goFunc publishFlow &&
  count inflightAdd publishFlow == 1 && count inflightDone publishFlow == 1 &&
  outside inflightAdd ifSeq publishFlow

/-- the ticket of an Async+Sequential handler is taken by the PUBLISHER (in dispatch order), the turn is awaited in the
goroutine before the handler is called, and released by a `defer` registered right after it was obtained -/
def ticketDiscipline : Bool :=
  chain [inflightAdd, takeTicket, goFunc, awaitTurn, releaseTurn, callAsync] publishFlow &&
  outside takeTicket goFunc publishFlow && inside takeTicket ifSeq publishFlow && inside takeTicket ifAsync publishFlow &&
  inside awaitTurn goFunc publishFlow && inside awaitTurn ifSeqInGo publishFlow &&
  followedBy awaitTurn [releaseTurn] publishFlow && count takeTicket publishFlow == 1

/-- claimed once handlers are retired after the loop, under the shard's write lock, by POINTER identity of the
registration (`h == onceHandler`), one entry per claimed handler (`break`) -/
def retireByIdentity : Bool :=
  chain [rangeSnapshot, callSync, shardLock, rangeClaimed, ifSameHandler, setShardHandlers, shardUnlock] publishFlow &&
  inside ifSameHandler rangeClaimed publishFlow && outside shardLock rangeSnapshot publishFlow &&
  followedBy ifSameHandler ((bodyOfFrom ifSameHandler publishFlow)) publishFlow &&
  (bodyOfFrom ifSameHandler publishFlow).getLast? == some breakT

/-- callHandlerWithContext: the Sequential mutex is taken first (unlock deferred right after the lock) and the context
is checked again once it is held – the only early return of the function (a publish cancelled while the goroutine waited
does not start the handler); then the recovering `defer` is registered; inside it: recover, the panic handler (only when
something was recovered), then – always – the handler-complete callback; then handler-start, then the call -/
def handlerBracket : Bool :=
  chain [handlerLock, handlerUnlockDeferred, caseCtxDone, deferO, recoverC, panicHandlerC, obsHandlerComplete, obsHandlerStart, switchO] handlerFlow &&
  inside recoverC deferO handlerFlow && inside panicHandlerC deferO handlerFlow && inside obsHandlerComplete deferO handlerFlow &&
  inside panicHandlerC ifRecovered handlerFlow && outside obsHandlerComplete ifRecovered handlerFlow &&
  outside obsHandlerStart deferO handlerFlow && count obsHandlerStart handlerFlow == 1 && count obsHandlerComplete handlerFlow == 1 &&
  count panicHandlerC handlerFlow == 1 &&
  followedBy handlerLock [handlerUnlockDeferred, selectO, caseCtxDone, returnT, closeTok, defaultO, closeTok, closeTok, closeTok] handlerFlow &&
  inside handlerLock ifSeq handlerFlow && noReturnOutside ifSeq handlerFlow &&
  (handlerFlow.filter (fun t => returns.contains t)).length == 1

/-- persistEvent: marshal first (a failure is reported and nothing is appended), then ONE append (in no loop) inside
the `storeMu` critical section together with the update of `lastOffset`, which happens only on success; persist-start
before and persist-complete after the append, the latter outside the lock; each error path reports once; the
persistence timeout context is cancelled by a `defer` registered at once, and is derived whenever a timeout is
configured – under that one condition and no other (a publish context with a deadline of its own does not replace it) -/
def persistShape : Bool :=
  chain [marshal, obsPersistStart, storeMuLock, storeAppend, setLastOffset, storeMuUnlock, obsPersistComplete] persistFlow &&
  count storeAppend persistFlow == 1 && topLevelUpTo storeAppend 0 persistFlow &&
  inside setLastOffset ifSaveOk persistFlow && count setLastOffset persistFlow == 1 &&
  count persistErrH persistFlow == 2 && before marshal persistErrH persistFlow &&
  (idxs persistErrH persistFlow).head?.any (fun i => decide (i < (idxs storeAppend persistFlow).headD 0)) &&
  (idxs persistErrH persistFlow).getLast?.any (fun i => decide ((idxs storeMuUnlock persistFlow).headD 0 < i)) &&
  (annotate persistFlow).all (fun a => a.tok != persistErrH || a.stack.contains ifMarshalErr || a.stack.contains ifSaveErr) &&
  count obsPersistStart persistFlow == 1 && count obsPersistComplete persistFlow == 1 &&
  topLevelUpTo obsPersistStart 1 persistFlow && topLevelUpTo obsPersistComplete 1 persistFlow &&
  followedBy withTimeout [setCtx, setCancel, deferCancel] persistFlow &&
  (annotate persistFlow).all (fun a => a.tok != withTimeout || a.stack == [ifPersistTimeout]) && count withTimeout persistFlow == 1

/-- Shutdown: the wait runs in a goroutine that then closes `done`; the store is closed only in the `<-done` branch
of the select, never in the `<-ctx.Done()` branch and never in the goroutine -/
def shutdownShape : Bool :=
  chain [goFunc, busWait, closeDone, selectO, caseDone, storeClose, caseCtxDone] shutdownFlow &&
  inside busWait goFunc shutdownFlow && inside closeDone goFunc shutdownFlow &&
  inside storeClose caseDone shutdownFlow && outside storeClose goFunc shutdownFlow && outside storeClose caseCtxDone shutdownFlow &&
  count storeClose shutdownFlow == 1 && count busWait shutdownFlow == 1

/-- Replay never appends, publishes or subscribes; the paged loop stops on an empty page and has the stuck-offset
guard; every callback result is inspected -/
def replayShape : Bool :=
  !occurs storeAppend replayFlow && !occurs persist replayFlow && !occurs liveSubscribe replayFlow &&
  inside storeRead forO replayFlow && inside ifEmptyBatch forO replayFlow && inside ifStuck forO replayFlow &&
  chain [readStream, storeRead, ifEmptyBatch, ifStuck] replayFlow &&
  followedBy ifEmptyBatch [breakT, closeTok] replayFlow &&
  count replayHandler replayFlow == 2 && followedBy replayHandler [setErr, ifMarshalErr] replayFlow

/-- SubscribeWithReplay: load the saved offset, replay from it, and only then register the live handler; during the
replay: upcast, select by type name, decode, call the handler, THEN save that event's offset -/
def resumeShape : Bool :=
  chain [loadOffset, busReplay, liveSubscribe] resumeFlow &&
  count liveSubscribe resumeFlow == 1 && count busReplay resumeFlow == 1 && count loadOffset resumeFlow == 1 &&
  chain [upcastApply, ifOtherType, unmarshal, replayHandler, saveOffset] resumeReplayFlow &&
  count replayHandler resumeReplayFlow == 1 && count saveOffset resumeReplayFlow == 1 &&
  topLevelUpTo replayHandler 0 resumeReplayFlow && topLevelUpTo saveOffset 0 resumeReplayFlow

/-- the live handler of a resumable subscription: handler first, then – inside one critical section of the
per-subscription mutex – read the bus offset under `storeMu` and save it, unless nothing was persisted yet -/
def resumeLiveShape : Bool :=
  chain [replayHandler, saveMuLock, storeMuRLock, setOffset, storeMuRUnlock, ifNothingPersisted, saveOffset] resumeLiveFlow &&
  followedBy saveMuLock [saveMuUnlockDeferred] resumeLiveFlow &&
  followedBy ifNothingPersisted [returnT, closeTok] resumeLiveFlow &&
  count saveOffset resumeLiveFlow == 1 && topLevelUpTo saveOffset 0 resumeLiveFlow

/-- upcastRegistry.apply: the whole chain runs under the registry's read lock (unlock deferred at once); per step:
mark the current type, refuse a declared target already seen, call the upcaster, report a failure to the error
handler (exactly there), refuse a returned type already seen, and only then advance data and type together -/
def applyShape : Bool :=
  followedBy regRLock [regRUnlockDeferred] applyFlow && (idxs regRLock applyFlow).head? == some 0 &&
  chain [forO, markApplied, ifDeclaredSeen, upcastCall, upcastErrH, ifReturnedSeen] applyFlow &&
  inside markApplied forO applyFlow && inside upcastCall forO applyFlow && inside ifReturnedSeen forO applyFlow &&
  count upcastErrH applyFlow == 1 && count upcastCall applyFlow == 1 &&
  (annotate applyFlow).all (fun a => a.tok != upcastErrH || a.stack.contains ifMarshalErr) &&
  followedBy setCurrentData [setCurrentType] applyFlow &&
  (idxs setCurrentData applyFlow).getLast?.any (fun i => decide ((idxs ifReturnedSeen applyFlow).headD 0 < i))

/-- upcastRegistry.register: argument validation, then – under the write lock, unlock deferred at once – the cycle
check and the insertion -/
def registerShape : Bool :=
  chain [regLock, cycleCheck, insertUpcaster] registerFlow && followedBy regLock [regUnlockDeferred] registerFlow &&
  count insertUpcaster registerFlow == 1 && topLevelUpTo insertUpcaster 0 registerFlow

/-- Materializer.Apply: decode first; `lastOffset` is written only after a control message was applied or a change
was applied WITHOUT error (the error return sits between the apply and the write); applyChange reports a collection
error to `onError` and returns it; a reset clears every collection under the lock and calls `onReset` afterwards,
outside the lock; a collection decodes the value before it touches its store -/
def materializerShape : Bool :=
  chain [applyControl, applyChange] matApplyFlow && before applyControl setMatLastOffset matApplyFlow &&
  (idxs setMatLastOffset matApplyFlow).getLast?.any (fun i => decide ((idxs applyChange matApplyFlow).headD 0 < i)) &&
  count setMatLastOffset matApplyFlow == 2 && precededBy setMatLastOffset [matLock] matApplyFlow &&
  followedBy setMatLastOffset [matUnlock] matApplyFlow &&
  followedBy applyChange [setErr, ifMarshalErr, returnT, closeTok] matApplyFlow &&
  (idxs unmarshal matApplyFlow).head? == some 0 &&
  chain [ifUnknownType, collApply, onError] matChangeFlow && inside onError ifMarshalErr matChangeFlow &&
  inside ifStrict ifUnknownType matChangeFlow &&
  chain [matLock, rangeCollections, clearColl, matUnlock, onReset] matControlFlow && inside clearColl rangeCollections matControlFlow &&
  count onSnapshot matControlFlow == 2 &&
  chain [compositeKey, unmarshal, storeSet, storeDelete] collChangeFlow &&
  followedBy unmarshal [setErr, ifMarshalErr] collChangeFlow

/-- SQLite: Append converts the timestamp to UTC and makes one Exec whose result gives the offset; the batched
stream inspects `rows.Err()` after the row loop and yields the error -/
def sqliteShape : Bool :=
  chain [toUTC, sqlExec, lastInsertId] sqlAppendFlow && count sqlExec sqlAppendFlow == 1 &&
  chain [rowsNext, rowsScan, rowsErr] sqlStreamBatchFlow && outside rowsErr forO sqlStreamBatchFlow &&
  followedBy rowsErr [setErr, ifMarshalErr] sqlStreamBatchFlow &&
  inside rowsNext forO sqlStreamBatchFlow

/-- Subscribe / SubscribeContext: the options are applied (a nil option is refused first) before the registration
becomes visible; the registration is appended – once – under the shard's write lock -/
def subscribeShapeOf (l : List Nat) : Bool :=
  chain [rangeOpts, ifNilOpt, callOpt, shardLock, callAppend, setShardHandlers, shardUnlock] l &&
  inside ifNilOpt rangeOpts l && inside callOpt rangeOpts l && outside callOpt ifNilOpt l &&
  count callAppend l == 1 && count setShardHandlers l == 1 && outside setShardHandlers rangeOpts l

def subscribeShape : Bool := subscribeShapeOf subscribeFlow && subscribeShapeOf subscribeCtxFlow

/-- Unsubscribe: under the shard's write lock (unlock deferred at once) walk the registrations of the type, and at the
FIRST one whose handler has the given code pointer remove that one entry and return; "not found" only after the loop -/
def unsubscribeShape : Bool :=
  followedBy shardLock [deferShardUnlock] unsubscribeFlow &&
  chain [shardLock, rangeHandlers, ifSamePtr, callAppend, setShardHandlers] unsubscribeFlow &&
  inside ifSamePtr rangeHandlers unsubscribeFlow && inside setShardHandlers ifSamePtr unsubscribeFlow &&
  followedBy setShardHandlers [returnT, closeTok, closeTok] unsubscribeFlow &&
  count setShardHandlers unsubscribeFlow == 1 && count callAppend unsubscribeFlow == 1

/-- Clear deletes the type's entry under the shard's write lock; ClearAll replaces every shard's map under that shard's lock -/
def clearShape : Bool :=
  chain [shardLock, callDelete, shardUnlock] clearFlow && count callDelete clearFlow == 1 &&
  chain [shardsLock, setShardsHandlers, shardsUnlock] clearAllFlow && inside setShardsHandlers forO clearAllFlow &&
  inside shardsLock forO clearAllFlow

/-- the two condition variables: a waiter re-checks its condition in a loop around `Wait`, and the state change that can
satisfy a waiter is followed by a `Broadcast` (not a `Signal`: with several waiters the one that can go on must be woken) –
`inflight.wait/done` behind `Bus.Wait`, `awaitTurn/releaseTurn` behind the ticket lock of Async+Sequential handlers -/
def condVarShape : Bool :=
  inside inflightCondWait forO inflightWaitFlow && chain [setInflightN, ifInflightZero, inflightBroadcast] inflightDoneFlow &&
  inside inflightBroadcast ifInflightZero inflightDoneFlow &&
  inside turnCondWait forO awaitTurnFlow && chain [seqMuLock, turnCondWait, seqMuUnlock] awaitTurnFlow &&
  chain [seqMuLock, setServing, turnBroadcast, seqMuUnlock] releaseTurnFlow && count setServing releaseTurnFlow == 1

/-- MemoryStore: Append reserves the offset and inserts the record under the write lock (unlock deferred at once), the
offset being formatted from the counter; Read walks the log under the read lock, keeps the events with `offset > from`
(all of them from the oldest offset) and stops when the limit is reached; SaveOffset writes under the write lock -/
def memoryStoreShape : Bool :=
  followedBy memLock [memUnlockDeferred] memAppendFlow && (idxs memLock memAppendFlow).head? == some 0 &&
  chain [setNextOffset, sprintf, setMemEvents] memAppendFlow && count setMemEvents memAppendFlow == 1 &&
  followedBy memRLock [memRUnlockDeferred] memReadFlow && (idxs memRLock memReadFlow).head? == some 0 &&
  chain [rangeMemEvents, ifAfterFrom, ifLimitReached] memReadFlow && inside ifLimitReached ifAfterFrom memReadFlow &&
  followedBy ifLimitReached [breakT, closeTok] memReadFlow &&
  followedBy memLock [memUnlockDeferred] memSaveFlow && chain [memLock, setSubscriptions] memSaveFlow &&
  followedBy memRLock [memRUnlockDeferred] memLoadFlow

/-- a start callback of the OpenTelemetry adapter: one span started, THE counter incremented once, both unconditionally
(outside every branch), and the only `return` is the last statement (no early return can skip the counter) -/
def otelStartOf (counter : Nat) (l : List Nat) : Bool :=
  chain [tracerStart, counter] l && count tracerStart l == 1 && count counter l == 1 &&
  topLevelUpTo tracerStart 0 l && topLevelUpTo counter 0 l &&
  (l.filter (fun t => returns.contains t)).length == 1 && (l.getLast?.any (fun t => returns.contains t))

/-- a complete callback: the span is the one carried by the context, it is ended exactly once, unconditionally, as the
last statement, on every path (no `return`); the error counter is incremented exactly under `err != nil` -/
def otelCompleteOf (errCounter : Option Nat) (l : List Nat) : Bool :=
  (idxs spanFromContext l).head? == some 0 && count spanEnd l == 1 && topLevelUpTo spanEnd 0 l &&
  l.getLast? == some spanEnd && noReturn l &&
  (match errCounter with
   | none => true
   | some c => count c l == 1 && inside c ifErr l && inside recordError ifErr l &&
               (annotate l).all (fun a => a.tok != c || a.stack == [ifErr]))

def otelShape : Bool :=
  otelStartOf publishCounterAdd otelPublishStartFlow && otelStartOf handlerCounterAdd otelHandlerStartFlow &&
  otelStartOf persistCounterAdd otelPersistStartFlow &&
  otelCompleteOf none otelPublishCompleteFlow && otelCompleteOf (some handlerErrorsAdd) otelHandlerCompleteFlow &&
  otelCompleteOf (some persistErrorsAdd) otelPersistCompleteFlow

/-- SQLite migration: version 1 of the schema is created inside ONE transaction – begin, a deferred rollback that fires
exactly when an error is being returned, every statement executed on the transaction, commit last – and only when the
recorded version is below 1 (opening an existing database runs no schema statement outside `IF NOT EXISTS`) -/
def migrateShape : Bool :=
  chain [beginTx, deferO, rangeStatements, txExec, txCommit] migrateV1Flow &&
  inside txRollback deferO migrateV1Flow && inside txRollback ifErr migrateV1Flow && count txRollback migrateV1Flow == 1 &&
  inside txExec rangeStatements migrateV1Flow && count txCommit migrateV1Flow == 1 && topLevelUpTo txCommit 0 migrateV1Flow &&
  inside callMigrateV1 ifOldVersion migrateFlow && count callMigrateV1 migrateFlow == 1

end Ebu.Flow

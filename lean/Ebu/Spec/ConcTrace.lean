import Ebu.Spec.ConcProgress
/-! The interleaving model M2 with its observable trace: every event a step produces, tagged with the number of the
goroutine that produced it.  `SysT.stepAt` is `Sys.stepAt` plus bookkeeping; it decides nothing. -/
namespace Ebu.Conc

structure SysT where
  s : Sys := {}
  tr : List (Nat × Obs) := []

/-- goroutine number `i` takes one step; what it produced is appended to the trace -/
def SysT.stepAt (x : SysT) (i : Nat) : Option SysT :=
  match x.s.ths[i]? with
  | none => none
  | some th =>
    match step x.s.sh th with
    | none => none
    | some o => some { s := { sh := o.sh, ths := x.s.ths.set i o.th ++ o.new }, tr := x.tr ++ o.obs.map (fun e => (i, e)) }

inductive ReachableT (progs : List (List Op)) : SysT → Prop
  | init : ReachableT progs { s := initSys progs }
  | step {x x' : SysT} {i : Nat} : ReachableT progs x → x.stepAt i = some x' → ReachableT progs x'

/-- every handler entry of goroutine `i` – for an async goroutine that includes the SYNCHRONOUS handlers of the events its
own handler publishes (`Ebu.Conc.entersOf_counterexample`), so deliveries are counted with `asyncEntersOf` below -/
def entersOf (i : Nat) (tr : List (Nat × Obs)) : List Obs :=
  (tr.filter (fun p => p.1 == i && (match p.2 with | .enter .. => true | _ => false))).map (·.2)

/-- is the event the entry of an asynchronously delivered handler? -/
def Obs.isAsyncEnter : Obs → Bool
  | .enter _ _ _ true => true
  | _ => false

/-- is the event the announcement of a new goroutine? -/
def Obs.isSpawned : Obs → Bool
  | .spawned _ => true
  | _ => false

/-- the asynchronous deliveries goroutine `i` performed: its `.enter … true` events -/
def asyncEntersOf (i : Nat) (tr : List (Nat × Obs)) : List Obs :=
  (tr.filter (fun p => p.1 == i && p.2.isAsyncEnter)).map (·.2)

/-- the whole system is quiescent: every goroutine has finished -/
def Sys.allDone (s : Sys) : Prop := ∀ th ∈ s.ths, th.pc = .done

end Ebu.Conc

/-
M1 — the sequential bus machine (transcribed from /repo/event_bus.go and the persistence
hook of /repo/persist.go, as they are after the `fix:` commits).

One `step` function gives the effect of one API call (`Action`) including everything the
handlers it triggers do (handler bodies are `List Action`s taken from a static table, so
handlers may subscribe, unsubscribe, clear, publish, cancel and panic re-entrantly).
`step` is written with *open recursion*: the callback `rec` is "run one action one level
deeper"; `exec (n+1) = step (exec n)`.  Asynchronous handlers are parked at the point where
the real goroutine starts (the `async.start` hook of the verif build) and run to completion,
first-spawned first, by the `drain` action — that is one legal schedule, the one the
harness forces; all other schedules are the business of the interleaving model M2.

The registry is accessed only through a `RegImpl` (get / set / clearAll), with two
implementations: the code's sharded shape (`shardedImpl shardOf`, for an arbitrary routing
function) and the flat specification (`flatImpl`).
-/
namespace Ebu.Bus

/-- handler identities `hid ≥ ctxBase` are context-aware handlers (`SubscribeContext`) -/
def ctxBase : Nat := 6

structure Reg where
  rid : Nat                     -- identity of the `*internalHandler`
  ty : Nat                      -- event type
  hid : Nat                     -- what `reflect.Value.Pointer()` sees: the code pointer
  once : Bool
  async : Bool
  seq : Bool
  filt : Option (Nat × Nat)     -- `some (m, r)`: accept iff `v % m = r`
  body : Nat                    -- index into `Config.bodies`
  filtCancels : Bool := false   -- the filter (user code) cancels the publish context when evaluated
deriving DecidableEq, Repr, Inhabited

def Reg.ctxAware (r : Reg) : Bool := decide (ctxBase ≤ r.hid)

def Reg.accepts (r : Reg) (v : Nat) : Bool :=
  match r.filt with
  | none => true
  | some (m, k) => v % m == k

inductive CtxSel
  | bg          -- context.Background()
  | fresh       -- a new cancellable context
  | dead        -- a new context that is already cancelled
  | inherit     -- the context the current (context-aware) handler received
deriving DecidableEq, Repr

inductive Action
  | subscribe (ty hid : Nat) (once async seq : Bool) (filt : Option (Nat × Nat)) (body : Nat) (fcancel : Bool)
  | unsubscribe (ty hid : Nat)
  | clear (ty : Nat)
  | clearAll
  | publish (ty v : Nat) (bad : Bool) (ctx : CtxSel)
  | cancel                      -- cancel the context of the publish that invoked this handler
  | cancelId (k : Nat)          -- cancel context number k
  | panic (val : Nat)
  | has (ty : Nat)
  | count (ty : Nat)
  | drain                       -- run the parked async invocations (top level only)
  | readLog                     -- read the whole store (`store.Read(OffsetOldest, 0)`)
deriving DecidableEq, Repr

inductive HookKind | bl | bc | al | ac
deriving DecidableEq, Repr

inductive ObsKind | ps | pc | hs | hc | rs | rc
deriving DecidableEq, Repr

/-- observable trace events; `d` is the handler nesting depth at which the event happens -/
inductive Ev
  | filt (d rid v : Nat) (ok : Bool)
  | enter (d rid ty v : Nat) (ctx : Option Nat) (async : Bool)
  | exit (d rid : Nat)
  | panich (d : Nat) (ctxAware : Bool) (ty v val : Nat)
  | hook (d : Nat) (k : HookKind) (ty v : Nat)
  | append (d sid ty v : Nat) (ok : Bool) (off : Nat)
  | log (d : Nat) (recs : List (Nat × Nat))
  | perr (d ty v : Nat) (marshal : Bool)
  | qHas (d ty : Nat) (r : Bool)
  | qCount (d ty n : Nat)
  | qUnsub (d ty hid : Nat) (ok : Bool)
  | obs (d : Nat) (k : ObsKind) (id parent ty : Nat) (flag : Bool)
  | deep (d : Nat)
deriving DecidableEq, Repr

structure Config where
  hookBL : Bool := false
  hookBC : Bool := false
  hookAL : Bool := false
  hookAC : Bool := false
  panicH : Bool := false
  store : Option Nat := none     -- which store object `bus.store` is
  perrH : Bool := false
  obs : Bool := false
  maxDepth : Nat := 3
  maxCalls : Nat := 300          -- harness guard: no further publish once this many handlers ran
  bodies : List (List Action) := []
deriving Repr

/-- bus options, applied in the order given to `New` -/
inductive Opt
  | store (sid : Nat) | hookBL | hookBC | hookAL | hookAC | panicH | perrH | obs
deriving DecidableEq, Repr

/-- each `Option` function's effect on the bus configuration (after the `fix:` commit
`WithStore` only records the store) -/
def applyOpt (c : Config) : Opt → Config
  | .store sid => { c with store := some sid }
  | .hookBL => { c with hookBL := true }
  | .hookBC => { c with hookBC := true }
  | .hookAL => { c with hookAL := true }
  | .hookAC => { c with hookAC := true }
  | .panicH => { c with panicH := true }
  | .perrH => { c with perrH := true }
  | .obs => { c with obs := true }

def applyOptions (base : Config) (opts : List Opt) : Config := opts.foldl applyOpt base

structure Pending where
  reg : Reg
  ty : Nat
  v : Nat
  root : Nat       -- cancellation identity of the publish context
  obs : Nat        -- innermost observability span in the publish context
  depth : Nat      -- depth of the publisher
deriving DecidableEq, Repr

/-- everything except the registry -/
structure Core where
  nextRid : Nat := 0
  executed : List Nat := []
  cancelled : List Nat := []
  nextCtx : Nat := 1
  log : List (Nat × Nat) := []
  lastOffset : Nat := 0
  appendFaults : List Bool := []
  pending : List Pending := []
  rtrace : List Ev := []         -- the trace, newest first (see `Core.trace`)
  panicking : Option Nat := none
  nextObs : Nat := 1
  calls : Nat := 0               -- number of handler invocations so far
  outOfFuel : Bool := false
deriving Repr

structure St (R : Type) where
  reg : R
  c : Core

structure Frame where
  depth : Nat := 0
  root : Nat := 0
  obs : Nat := 0
  ctxAware : Bool := false
deriving Repr

/-! ### registry implementations -/

structure RegImpl (R : Type) where
  empty : R
  get : R → Nat → List Reg
  set : R → Nat → List Reg → R
  clearAll : R → R

structure RegImpl.Lawful {R : Type} (I : RegImpl R) : Prop where
  get_empty : ∀ t, I.get I.empty t = []
  get_set : ∀ r t l t', I.get (I.set r t l) t' = if t' = t then l else I.get r t'
  get_clearAll : ∀ r t, I.get (I.clearAll r) t = []

/-- the specification: one handler list per event type -/
def flatImpl : RegImpl (Nat → List Reg) where
  empty := fun _ => []
  get r t := r t
  set r t l := fun t' => if t' = t then l else r t'
  clearAll _ := fun _ => []

/-- the code's shape: `shards[shardOf T].handlers[T]`; a Go map is a function from keys to
slices (missing key = nil slice), `delete` = set to nil -/
def shardedImpl (shardOf : Nat → Nat) : RegImpl (Nat → Nat → List Reg) where
  empty := fun _ _ => []
  get r t := r (shardOf t) t
  set r t l := fun i t' => if i = shardOf t ∧ t' = t then l else r i t'
  clearAll _ := fun _ _ => []

/-! ### small state helpers (registry-independent) -/

/-- the observable trace, oldest event first -/
def Core.trace (c : Core) : List Ev := c.rtrace.reverse

def Core.emit (c : Core) (e : Ev) : Core := { c with rtrace := e :: c.rtrace }

@[simp] theorem Core.trace_emit (c : Core) (e : Ev) : (c.emit e).trace = c.trace ++ [e] := by
  simp [Core.trace, Core.emit]

def emitIf (b : Bool) (c : Core) (e : Ev) : Core := if b then c.emit e else c

def Core.live (c : Core) (root : Nat) : Bool := !(c.cancelled.contains root)

/-- remove the first element satisfying `p` (Go: `append(hs[:i], hs[i+1:]...)` at the first match) -/
def eraseFirst (p : Reg → Bool) : List Reg → List Reg
  | [] => []
  | r :: rs => if p r then rs else r :: eraseFirst p rs

/-- the once-handler removal loop at the end of PublishContext: by pointer identity -/
def retire (claimed : List Reg) (hs : List Reg) : List Reg :=
  claimed.foldl (fun hs c => eraseFirst (fun h => h.rid == c.rid) hs) hs

/-- `persistEvent` (no-op without a store) -/
def persist (cfg : Config) (d ty v : Nat) (bad : Bool) (obsParent : Nat) (c : Core) : Core :=
  match cfg.store with
  | none => c
  | some sid =>
  if bad then emitIf cfg.perrH c (.perr d ty v true)
  else
    let oid := c.nextObs
    let c := if cfg.obs then { c.emit (.obs d .rs oid obsParent ty false) with nextObs := oid + 1 } else c
    let fails := c.appendFaults.headD false
    let c := { c with appendFaults := c.appendFaults.tail }
    let c := if fails then c.emit (.append d sid ty v false 0)
             else
               let off := c.log.length + 1
               { c with log := c.log ++ [(ty, v)], lastOffset := off }.emit (.append d sid ty v true off)
    let c := emitIf cfg.obs c (.obs d .rc oid 0 ty fails)
    emitIf (fails && cfg.perrH) c (.perr d ty v false)

/-! ### one level of the semantics, with open recursion -/

section step
variable {R : Type} (I : RegImpl R) (cfg : Config)
variable (rec : Frame → St R → Action → St R)

/-- run a handler body; a panic skips the rest of the body -/
def runBody (fr : Frame) (s : St R) (acts : List Action) : St R :=
  acts.foldl (fun s a => if s.c.panicking.isSome then s else rec fr s a) s

/-- `callHandlerWithContext`, first part: OnHandlerStart, then the handler function is entered;
returns the state and the observability span the handler runs under -/
def enterHandler (r : Reg) (ty v root obsParent d : Nat) (async : Bool) (s : St R) : St R × Nat :=
  let hid := s.c.nextObs
  let s := if cfg.obs then { s with c := { s.c.emit (.obs d .hs hid obsParent ty async) with nextObs := hid + 1 } } else s
  let hobs := if cfg.obs then hid else obsParent
  ({ s with c := { s.c.emit (.enter (d + 1) r.rid ty v (if r.ctxAware then some root else none) async) with calls := s.c.calls + 1 } }, hobs)

/-- the state when the handler function returns or panics (`panicking` tells which) -/
def bodyResult (r : Reg) (ty v root obsParent d : Nat) (async : Bool) (s : St R) : St R :=
  let (s1, hobs) := enterHandler cfg r ty v root obsParent d async s
  runBody rec { depth := d + 1, root := root, obs := hobs, ctxAware := r.ctxAware } s1 (cfg.bodies.getD r.body [])

/-- `callHandlerWithContext`: the deferred recover (panic handler) and OnHandlerComplete -/
def callHandler (r : Reg) (ty v root obsParent d : Nat) (async : Bool) (s : St R) : St R :=
  let hid := s.c.nextObs
  let s := bodyResult cfg rec r ty v root obsParent d async s
  let s := { s with c := s.c.emit (.exit (d + 1) r.rid) }
  let pv := s.c.panicking
  let s := { s with c := { s.c with panicking := none } }
  let s := match pv with
    | some val => { s with c := emitIf cfg.panicH s.c (.panich d r.ctxAware ty v val) }
    | none => s
  { s with c := emitIf cfg.obs s.c (.obs d .hc hid 0 ty pv.isSome) }

/-- cancel the publish context `root` (a background context, root 0, cannot be cancelled) -/
def cancelRoot (root : Nat) (s : St R) : St R :=
  if root = 0 then s else { s with c := { s.c with cancelled := root :: s.c.cancelled } }

/-- one iteration of the dispatch loop of PublishContext -/
def deliver (ty v root obs d : Nat) (acc : St R × List Reg) (r : Reg) : St R × List Reg :=
  let (s, claimed) := acc
  -- filter
  let s := match r.filt with
    | some _ => { s with c := s.c.emit (.filt d r.rid v (r.accepts v)) }
    | none => s
  -- the filter is user code: it may cancel the context handed to PublishContext
  let s := if r.filt.isSome && r.filtCancels then cancelRoot root s else s
  if !r.accepts v then (s, claimed)
  -- a cancelled publish skips the handler without consuming it
  else if !s.c.live root then (s, claimed)
  -- once: compare-and-swap on `executed`
  else if r.once && s.c.executed.contains r.rid then (s, claimed)
  else
    let s := if r.once then { s with c := { s.c with executed := r.rid :: s.c.executed } } else s
    let claimed := if r.once then claimed ++ [r] else claimed
    if r.async then
      ({ s with c := { s.c with pending := s.c.pending ++ [⟨r, ty, v, root, obs, d⟩] } }, claimed)
    else if !s.c.live root then (s, claimed)
    else (callHandler cfg rec r ty v root obs d false s, claimed)

/-- `PublishContext` -/
def publish (fr : Frame) (ty v : Nat) (bad : Bool) (sel : CtxSel) (s : St R) : St R :=
  let d := fr.depth
  -- the context handed to PublishContext
  let (root, obs0, s) : Nat × Nat × St R := match sel with
    | .bg => (0, 0, s)
    | .fresh => (s.c.nextCtx, 0, { s with c := { s.c with nextCtx := s.c.nextCtx + 1 } })
    | .dead => (s.c.nextCtx, 0, { s with c := { s.c with nextCtx := s.c.nextCtx + 1, cancelled := s.c.nextCtx :: s.c.cancelled } })
    | .inherit => if fr.ctxAware then (fr.root, fr.obs, s) else (0, 0, s)
  -- OnPublishStart
  let pid := s.c.nextObs
  let s := if cfg.obs then { s with c := { s.c.emit (.obs d .ps pid obs0 ty false) with nextObs := pid + 1 } } else s
  let obs := if cfg.obs then pid else obs0
  -- before hooks, then persistence
  let s := { s with c := emitIf cfg.hookBL s.c (.hook d .bl ty v) }
  let s := { s with c := emitIf cfg.hookBC s.c (.hook d .bc ty v) }
  let s := { s with c := persist cfg d ty v bad obs s.c }
  -- snapshot, dispatch loop, removal of the once handlers that fired
  let snapshot := I.get s.reg ty
  let (s, claimed) := snapshot.foldl (deliver cfg rec ty v root obs d) (s, [])
  let s := if claimed.isEmpty then s else { s with reg := I.set s.reg ty (retire claimed (I.get s.reg ty)) }
  -- after hooks, OnPublishComplete
  let s := { s with c := emitIf cfg.hookAL s.c (.hook d .al ty v) }
  let s := { s with c := emitIf cfg.hookAC s.c (.hook d .ac ty v) }
  { s with c := emitIf cfg.obs s.c (.obs d .pc pid 0 ty false) }

/-- the body of the goroutine started for an async handler -/
def runPending (p : Pending) (s : St R) : St R :=
  if !s.c.live p.root then s
  else callHandler cfg rec p.reg p.ty p.v p.root p.obs p.depth true s

def step (fr : Frame) (s : St R) : Action → St R
  | .subscribe ty hid once async seq filt body fcancel =>
    let r : Reg := ⟨s.c.nextRid, ty, hid, once, async, seq, filt, body, fcancel⟩
    { reg := I.set s.reg ty (I.get s.reg ty ++ [r]), c := { s.c with nextRid := s.c.nextRid + 1 } }
  | .unsubscribe ty hid =>
    let hs := I.get s.reg ty
    if hs.any (fun h => h.hid == hid) then
      { reg := I.set s.reg ty (eraseFirst (fun h => h.hid == hid) hs), c := s.c.emit (.qUnsub fr.depth ty hid true) }
    else { s with c := s.c.emit (.qUnsub fr.depth ty hid false) }
  | .clear ty => { s with reg := I.set s.reg ty [] }
  | .clearAll => { s with reg := I.clearAll s.reg }
  | .publish ty v bad sel =>
    if cfg.maxDepth ≤ fr.depth ∨ cfg.maxCalls ≤ s.c.calls then { s with c := s.c.emit (.deep fr.depth) }
    else publish I cfg rec fr ty v bad sel s
  | .cancel => if fr.root = 0 then s else { s with c := { s.c with cancelled := fr.root :: s.c.cancelled } }
  | .cancelId k => if k = 0 ∨ s.c.nextCtx ≤ k then s else { s with c := { s.c with cancelled := k :: s.c.cancelled } }
  | .panic val => if fr.depth = 0 then s else { s with c := { s.c with panicking := some val } }
  | .has ty => { s with c := s.c.emit (.qHas fr.depth ty (!(I.get s.reg ty).isEmpty)) }
  | .count ty => { s with c := s.c.emit (.qCount fr.depth ty (I.get s.reg ty).length) }
  | .readLog => { s with c := s.c.emit (.log fr.depth s.c.log) }
  | .drain =>
    if fr.depth ≠ 0 then s
    else match s.c.pending with
      | [] => s
      | p :: ps => rec fr (runPending cfg rec p { s with c := { s.c with pending := ps } }) .drain

end step

/-- `exec n` = at most `n` levels of nesting (handler bodies, drain iterations) -/
def exec {R : Type} (I : RegImpl R) (cfg : Config) : Nat → Frame → St R → Action → St R
  | 0, _, s, _ => { s with c := { s.c with outOfFuel := true } }
  | n + 1, fr, s, a => step I cfg (exec I cfg n) fr s a

def initSt {R : Type} (I : RegImpl R) (faults : List Bool) : St R :=
  { reg := I.empty, c := { appendFaults := faults } }

/-- run a top-level program -/
def run {R : Type} (I : RegImpl R) (cfg : Config) (fuel : Nat) (faults : List Bool) (prog : List Action) : St R :=
  prog.foldl (fun s a => exec I cfg fuel {} s a) (initSt I faults)

end Ebu.Bus

/-
M2 — the interleaving model of the bus (event_bus.go after the `fix:` commits).

A thread is parked at a *yield point* — a point where user code runs (filter, handler
entry/exit, the API call itself) or a lock has just been released / is about to be taken
(the `verifYield` hook points of the verif build).  One `step` runs one thread from its yield
point to its next one; everything in between is atomic with respect to the other threads,
which is exactly the granularity the controlled scheduler of the harness enforces on the
real goroutines.  `step` returns `none` when the thread cannot move: it is finished, or it is
blocked (sequential mutex held, not its turn, `Wait` with work in flight).
-/
namespace Ebu.Conc

structure Reg where
  rid : Nat
  ty : Nat
  hid : Nat
  once : Bool
  async : Bool
  seq : Bool
  filt : Option (Nat × Nat)
  body : List (Nat × Nat)        -- events (type, value) the handler publishes while it runs
deriving DecidableEq, Repr, Inhabited

def Reg.accepts (r : Reg) (v : Nat) : Bool :=
  match r.filt with
  | none => true
  | some (m, k) => v % m == k

inductive Ctx
  | bg                           -- context.Background()
  | shared (k : Nat)             -- cancellable context number k (k ≥ 1)
deriving DecidableEq, Repr

inductive Op
  | subscribe (ty hid : Nat) (once async seq : Bool) (filt : Option (Nat × Nat)) (body : List (Nat × Nat))
  | unsubscribe (ty hid : Nat)
  | clear (ty : Nat)
  | publish (ty v : Nat) (ctx : Ctx)
  | cancel (k : Nat)
  | wait
  | count (ty : Nat)
deriving DecidableEq, Repr

/-- where a thread is parked -/
inductive Pc
  | op                            -- about to issue its next API call (or to return from the handler body)
  | snap                          -- "publish.snapshot"
  | filter (r : Reg)              -- inside r's filter predicate
  | claimed (r : Reg)             -- "publish.claimed"
  | spawn (r : Reg) (n t : Nat)   -- "publish.spawn" (goroutine number, ticket taken)
  | lock (r : Reg) (async : Bool) -- "handler.lock" (async: reached from the goroutine of an async handler)
  | enter (r : Reg)               -- first statement of the handler
  | exit (r : Reg)                -- handler returning
  | retire                        -- "publish.retire"
  | retired                       -- "publish.retired"
  | astart                        -- "async.start"
  | turn                          -- "async.turn"
  | aend                          -- "async.end"
  | done
deriving DecidableEq, Repr

/-- one activation of PublishContext on a thread's stack -/
structure Frame where
  ty : Nat
  v : Nat
  ctx : Ctx
  rest : List Reg                 -- snapshot entries still to be dispatched
  claimed : List Nat              -- once registrations this publish claimed (rids)
  handler : Option Reg := none    -- the handler currently running in this activation
  body : List (Nat × Nat) := []   -- what is left of its body
  snapshot : List Reg := []       -- ghost: the snapshot this activation took
deriving DecidableEq, Repr

/-- what an async goroutine was started for -/
structure Job where
  reg : Reg
  ty : Nat
  v : Nat
  ctx : Ctx
  ticket : Nat
  n : Nat                         -- spawn number
deriving DecidableEq, Repr

structure Thread where
  prog : List Op := []            -- remaining API calls (threads of the test program)
  frames : List Frame := []       -- publish activations, innermost first
  pc : Pc := .op
  job : Option Job := none        -- async goroutines only
deriving DecidableEq, Repr

structure Shared where
  regs : List Reg := []           -- the registry: all registrations in subscription order
  nextRid : Nat := 0
  executed : List Nat := []       -- once registrations whose CAS succeeded
  cancelled : List Nat := []
  inflight : Nat := 0             -- bus.wg
  held : List Nat := []           -- sequential mutexes currently held (rids)
  tickets : List (Nat × Nat) := []    -- rid ↦ tickets handed out
  serving : List (Nat × Nat) := []    -- rid ↦ ticket being served
  nextSpawn : Nat := 1
  -- ghost state (never read by `step`; what the theorems talk about)
  removed : Nat := 0                  -- registrations deleted so far (Unsubscribe, Clear, once-retirement)
  enteredOnce : List Nat := []        -- rids of Once registrations whose handler was entered
  issued : List (Nat × Nat) := []     -- (rid, ticket) in the order tickets were handed out
  turns : List (Nat × Nat) := []      -- (rid, ticket) in the order turns were taken
deriving Repr

/-- observable events, tagged by the scheduler with the thread that produced them -/
inductive Obs
  | filt (rid v : Nat) (ok : Bool)
  | enter (rid ty v : Nat) (async : Bool)
  | exit (rid : Nat)
  | count (ty n : Nat)
  | unsub (ty hid : Nat) (ok : Bool)
  | spawned (n : Nat)                        -- goroutine n now exists (parked at async.start)
  | ret                                      -- an API call returned
  | fin                                      -- the thread ended
deriving DecidableEq, Repr

def lookupD (l : List (Nat × Nat)) (k : Nat) : Nat :=
  match l.find? (fun p => p.1 == k) with
  | some p => p.2
  | none => 0

def setKV (l : List (Nat × Nat)) (k v : Nat) : List (Nat × Nat) :=
  (k, v) :: l.filter (fun p => p.1 != k)

def Shared.live (s : Shared) : Ctx → Bool
  | .bg => true
  | .shared k => !s.cancelled.contains k

/-- ghost: a handler is entered -/
def Shared.noteEnter (s : Shared) (r : Reg) : Shared :=
  if r.once then { s with enteredOnce := r.rid :: s.enteredOnce } else s

def eraseFirst (p : Reg → Bool) : List Reg → List Reg
  | [] => []
  | r :: rs => if p r then rs else r :: eraseFirst p rs

structure Out where
  sh : Shared
  th : Thread
  new : List Thread := []
  obs : List Obs := []

mutual
/-- after a handler of the innermost publish finished (or was skipped): dispatch the rest of
the snapshot up to the next yield point -/
def dispatch (sh : Shared) (th : Thread) (f : Frame) (fs : List Frame) (obs : List Obs) : Nat → Out
  | 0 => ⟨sh, th, [], obs⟩
  | fuel + 1 =>
    match f.rest with
    | [] =>
      if f.claimed.isEmpty then ⟨sh, { th with frames := fs, pc := .op }, [], obs ++ [.ret]⟩   -- PublishContext returns
      else ⟨sh, { th with frames := f :: fs, pc := .retire }, [], obs⟩
    | r :: rest =>
      let f := { f with rest := rest }
      match r.filt with
      | some _ => ⟨sh, { th with frames := f :: fs, pc := .filter r }, [], obs⟩
      | none => afterFilter sh th f fs r obs fuel

/-- the filter accepted (or there is none): context check, once claim, then dispatch -/
def afterFilter (sh : Shared) (th : Thread) (f : Frame) (fs : List Frame) (r : Reg) (obs : List Obs) : Nat → Out
  | 0 => ⟨sh, th, [], obs⟩
  | fuel + 1 =>
    if !sh.live f.ctx then dispatch sh th f fs obs fuel
    else if r.once then
      if sh.executed.contains r.rid then dispatch sh th f fs obs fuel
      else
        ⟨{ sh with executed := r.rid :: sh.executed },
         { th with frames := { f with claimed := f.claimed ++ [r.rid] } :: fs, pc := .claimed r }, [], obs⟩
    else afterClaim sh th f fs r obs fuel

/-- dispatch of one (claimed or ordinary) handler -/
def afterClaim (sh : Shared) (th : Thread) (f : Frame) (fs : List Frame) (r : Reg) (obs : List Obs) : Nat → Out
  | 0 => ⟨sh, th, [], obs⟩
  | fuel + 1 =>
    if r.async then
      let n := sh.nextSpawn
      let t := lookupD sh.tickets r.rid
      let sh := { sh with inflight := sh.inflight + 1, nextSpawn := n + 1,
                          tickets := if r.seq then setKV sh.tickets r.rid (t + 1) else sh.tickets,
                          issued := if r.seq then sh.issued ++ [(r.rid, t)] else sh.issued }
      ⟨sh, { th with frames := f :: fs, pc := .spawn r n t }, [], obs⟩
    else if !sh.live f.ctx then dispatch sh th f fs obs fuel
    else if r.seq then ⟨sh, { th with frames := f :: fs, pc := .lock r false }, [], obs⟩
    else ⟨sh.noteEnter r, { th with frames := { f with handler := some r, body := r.body } :: fs, pc := .enter r }, [], obs ++ [.enter r.rid f.ty f.v false]⟩
end

/-- recursion budget of the dispatch loop: every snapshot entry costs at most three calls, so
this always suffices (the Go loop terminates because the snapshot is finite) -/
def fuelFor (f : Frame) : Nat := 3 * f.rest.length + 4

/-- is the thread able to move? (`false` = finished or blocked) -/
def enabled (sh : Shared) (th : Thread) : Bool :=
  match th.pc with
  | .done => false
  | .lock r _ => !sh.held.contains r.rid
  | .turn => match th.job with
    | some j => lookupD sh.serving j.reg.rid == j.ticket
    | none => false
  | .op => match th.frames, th.prog with
    | [], .wait :: _ => sh.inflight == 0
    | _, _ => true
  | _ => true

/-- a new activation of PublishContext: the snapshot is taken under the read lock -/
def newFrame (sh : Shared) (ty v : Nat) (ctx : Ctx) : Frame :=
  { ty := ty, v := v, ctx := ctx, rest := sh.regs.filter (fun r => r.ty == ty), claimed := [],
    snapshot := sh.regs.filter (fun r => r.ty == ty) }

/-- the (handler-only) activation an async goroutine runs its handler in -/
def jobFrame (j : Job) (running : Bool) : Frame :=
  let f : Frame := { ty := j.ty, v := j.v, ctx := j.ctx, rest := [], claimed := [] }
  if running then { f with handler := some j.reg, body := j.reg.body } else f

/-- one thread runs from its yield point to its next one -/
def step (sh : Shared) (th : Thread) : Option Out :=
  if !enabled sh th then none else
  match th.pc with
  | .done => none
  | .op =>
    match th.frames with
    | f :: fs =>
      -- back in a handler body after a nested publish returned: next event, or the handler returns
      match f.body, f.handler with
      | (ty, v) :: more, _ =>
        some ⟨sh, { th with frames := newFrame sh ty v .bg :: { f with body := more } :: fs, pc := .snap }, [], []⟩
      | [], some r => some ⟨sh, { th with pc := .exit r }, [], [.exit r.rid]⟩
      | [], none => none
    | [] =>
      match th.prog with
      | [] => some ⟨sh, { th with pc := .done }, [], [.fin]⟩
      | op :: prog =>
        let th := { th with prog := prog }
        match op with
        | .subscribe ty hid once async seq filt body =>
          let r : Reg := ⟨sh.nextRid, ty, hid, once, async, seq, filt, body⟩
          some ⟨{ sh with regs := sh.regs ++ [r], nextRid := sh.nextRid + 1 }, th, [], [.ret]⟩
        | .unsubscribe ty hid =>
          let found := sh.regs.any (fun r => r.ty == ty && r.hid == hid)
          let regs := eraseFirst (fun r => r.ty == ty && r.hid == hid) sh.regs
          some ⟨{ sh with regs := regs, removed := sh.removed + (sh.regs.length - regs.length) }, th, [], [.unsub ty hid found, .ret]⟩
        | .clear ty =>
          let regs := sh.regs.filter (fun r => r.ty != ty)
          some ⟨{ sh with regs := regs, removed := sh.removed + (sh.regs.length - regs.length) }, th, [], [.ret]⟩
        | .cancel k => some ⟨{ sh with cancelled := k :: sh.cancelled }, th, [], [.ret]⟩
        | .count ty => some ⟨sh, th, [], [.count ty (sh.regs.filter (fun r => r.ty == ty)).length, .ret]⟩
        | .wait => some ⟨sh, th, [], [.ret]⟩
        | .publish ty v ctx => some ⟨sh, { th with frames := [newFrame sh ty v ctx], pc := .snap }, [], []⟩
  | .snap =>
    match th.frames with
    | f :: fs => some (dispatch sh th f fs [] (fuelFor f))
    | [] => none
  | .filter r =>
    match th.frames with
    | f :: fs =>
      if r.accepts f.v then some (afterFilter sh th f fs r [.filt r.rid f.v true] (fuelFor f))
      else some (dispatch sh th f fs [.filt r.rid f.v false] (fuelFor f))
    | [] => none
  | .claimed r =>
    match th.frames with
    | f :: fs => some (afterClaim sh th f fs r [] (fuelFor f))
    | [] => none
  | .spawn r n t =>
    match th.frames with
    | f :: fs =>
      -- the `go` statement: the goroutine exists and parks at "async.start"; the publisher goes on
      let job : Job := ⟨r, f.ty, f.v, f.ctx, t, n⟩
      let o := dispatch sh th f fs [.spawned n] (fuelFor f)
      some { o with new := [{ pc := .astart, job := some job }] ++ o.new }
    | [] => none
  | .lock r async =>
    match th.frames with
    | f :: fs =>
      if !sh.live f.ctx then
        -- the publish was cancelled while the goroutine waited for the mutex: the mutex is taken and given back at
        -- once, the handler is skipped
        match th.job, fs with
        | some j, [] =>
          -- async goroutine: pass the turn on, arrive at "async.end"
          let sh := if j.reg.seq then { sh with serving := setKV sh.serving j.reg.rid (lookupD sh.serving j.reg.rid + 1) } else sh
          some ⟨sh, { th with frames := [], pc := .aend }, [], []⟩
        | _, _ => some (dispatch sh th f fs [] (fuelFor f))
      else
      some ⟨{ sh.noteEnter r with held := r.rid :: sh.held }, { th with frames := { f with handler := some r, body := r.body } :: fs, pc := .enter r }, [],
            [.enter r.rid f.ty f.v async]⟩
    | [] => none
  | .enter r =>
    match th.frames with
    | f :: fs =>
      match f.body with
      | (ty, v) :: more =>
        -- the handler publishes its first event (background context)
        some ⟨sh, { th with frames := newFrame sh ty v .bg :: { f with body := more } :: fs, pc := .snap }, [], []⟩
      | [] => some ⟨sh, { th with pc := .exit r }, [], [.exit r.rid]⟩
    | [] => none
  | .exit r =>
    -- the handler returns: release the sequential mutex, then go on
    let sh := if r.seq then { sh with held := sh.held.erase r.rid } else sh
    match th.job, th.frames with
    | some j, [_] =>
      -- async goroutine: release the turn, arrive at "async.end"
      let sh := if j.reg.seq then { sh with serving := setKV sh.serving j.reg.rid (lookupD sh.serving j.reg.rid + 1) } else sh
      some ⟨sh, { th with frames := [], pc := .aend }, [], []⟩
    | _, f :: fs => some (dispatch sh th { f with handler := none, body := [] } fs [] (fuelFor f))
    | _, [] => none
  | .retire =>
    match th.frames with
    | f :: fs =>
      let regs := f.claimed.foldl (fun regs c => eraseFirst (fun h => h.rid == c) regs) sh.regs
      some ⟨{ sh with regs := regs, removed := sh.removed + (sh.regs.length - regs.length) },
            { th with frames := { f with claimed := [] } :: fs, pc := .retired }, [], []⟩
    | [] => none
  | .retired =>
    match th.frames with
    | _ :: fs => some ⟨sh, { th with frames := fs, pc := .op }, [], [.ret]⟩
    | [] => none
  | .astart =>
    match th.job with
    | some j =>
      if j.reg.seq then some ⟨sh, { th with pc := .turn }, [], []⟩
      else if !sh.live j.ctx then some ⟨sh, { th with pc := .aend }, [], []⟩
      else some ⟨sh.noteEnter j.reg, { th with frames := [jobFrame j true], pc := .enter j.reg }, [], [.enter j.reg.rid j.ty j.v true]⟩
    | none => none
  | .turn =>
    match th.job with
    | some j =>
      let sh := { sh with turns := sh.turns ++ [(j.reg.rid, j.ticket)] }
      if !sh.live j.ctx then
        -- skipped, but the turn is passed on (deferred releaseTurn)
        some ⟨{ sh with serving := setKV sh.serving j.reg.rid (lookupD sh.serving j.reg.rid + 1) }, { th with pc := .aend }, [], []⟩
      else some ⟨sh, { th with frames := [jobFrame j false], pc := .lock j.reg true }, [], []⟩
    | none => none
  | .aend => some ⟨{ sh with inflight := sh.inflight - 1 }, { th with pc := .done }, [], [.fin]⟩

/-! ### the system: shared state and all threads -/

structure Sys where
  sh : Shared := {}
  ths : List Thread := []

/-- thread number `i` takes one step (`none`: no such thread, finished, or blocked) -/
def Sys.stepAt (s : Sys) (i : Nat) : Option Sys :=
  match s.ths[i]? with
  | none => none
  | some th =>
    match step s.sh th with
    | none => none
    | some o => some { sh := o.sh, ths := s.ths.set i o.th ++ o.new }

/-- the system a test program starts from: one thread per program, empty bus -/
def initSys (progs : List (List Op)) : Sys := { ths := progs.map (fun p => { prog := p }) }

/-- every state some schedule can reach -/
inductive Reachable (progs : List (List Op)) : Sys → Prop
  | init : Reachable progs (initSys progs)
  | step {s s' : Sys} {i : Nat} : Reachable progs s → s.stepAt i = some s' → Reachable progs s'

end Ebu.Conc

import Ebu.Model.Inflight
/-
M2t — the ticket lock of Async+Sequential handlers (event_bus.go `internalHandler.awaitTurn` / `releaseTurn`: a mutex,
a condition variable and the counter `seqServing`; `awaitTurn(t)` = `for seqServing != t { seqCond.Wait() }`,
`releaseTurn` = `seqServing++` followed by a wake-up).

Every operation runs under `seqMu`, so each is one atomic step.  A goroutine in `seqCond.Wait()` is *parked*; a
wake-up moves it to *woken* (runnable, has to re-acquire the mutex), from where `resume` re-checks the loop
condition.  How `releaseTurn` wakes waiters is a parameter: the source says which (the control-flow skeleton of
`releaseTurn`, regenerated on every run).  M2 (`Ebu/Model/Conc.lean`) abstracts all of this into "the turn step is
enabled exactly when `serving = ticket`", which is right only if no wake-up is lost.
-/
namespace Ebu.TurnLock
open Ebu.Inflight (Wake)

structure St where
  serving : Nat := 0
  parked : List (Nat × Nat) := []     -- (goroutine, ticket) blocked in seqCond.Wait()
  woken : List (Nat × Nat) := []      -- woken up, about to re-check `seqServing != ticket`
  inTurn : List (Nat × Nat) := []     -- awaitTurn has returned, the turn is not released yet
deriving Repr

inductive Op
  | await (g t : Nat)      -- goroutine g calls awaitTurn(t)
  | resume (g : Nat)       -- a woken goroutine gets the mutex back and re-checks
  | release                -- releaseTurn
deriving Repr

def step (w : Wake) (s : St) : Op → St
  | .await g t =>
    if s.serving = t then { s with inTurn := s.inTurn ++ [(g, t)] } else { s with parked := s.parked ++ [(g, t)] }
  | .resume g =>
    match s.woken.find? (fun p => p.1 == g) with
    | none => s
    | some p =>
      let woken := s.woken.erase p
      if s.serving = p.2 then { s with woken := woken, inTurn := s.inTurn ++ [p] }
      else { s with woken := woken, parked := s.parked ++ [p] }
  | .release =>
    let s := { s with serving := s.serving + 1, inTurn := s.inTurn.drop 1 }
    match w with
    | .broadcast => { s with parked := [], woken := s.woken ++ s.parked }
    | .signal =>
      match s.parked with
      | [] => s
      | p :: rest => { s with parked := rest, woken := s.woken ++ [p] }
    | .none => s

def run (w : Wake) (ops : List Op) : St := ops.foldl (step w) {}

/-- no lost wake-up: nobody is parked on the condition variable while it is its turn -/
def NoLostWakeup (s : St) : Prop := ∀ p ∈ s.parked, p.2 ≠ s.serving

/-- with `Broadcast`, in every reachable state no goroutine is parked while its ticket is being served: whoever can
go on is runnable (woken) or already in its turn – the abstraction M2 makes of the turn step is sound -/
theorem broadcast_no_lost_wakeup (ops : List Op) : NoLostWakeup (run .broadcast ops) := by
  unfold run
  suffices h : ∀ s : St, NoLostWakeup s → NoLostWakeup (ops.foldl (step .broadcast) s) from
    h {} (by simp [NoLostWakeup])
  induction ops with
  | nil => intro s h; simpa using h
  | cons op ops ih =>
    intro s h
    apply ih
    unfold NoLostWakeup at *
    cases op with
    | await g t =>
      simp only [step]
      split
      · exact h
      · rename_i hne
        intro p hp
        simp only [List.mem_append, List.mem_singleton] at hp
        rcases hp with hp | rfl
        · exact h p hp
        · exact fun e => hne e.symm
    | resume g =>
      simp only [step]
      split
      · exact h
      · rename_i p _
        split
        · exact h
        · rename_i hne
          intro q hq
          simp only [List.mem_append, List.mem_singleton] at hq
          rcases hq with hq | rfl
          · exact h q hq
          · exact fun e => hne e.symm
    | release =>
      simp [step]

/-- with `Signal` the wake-up can go to the wrong goroutine: tickets 2 and 1 are parked in this order, ticket 0
releases; the goroutine woken up holds ticket 2, re-parks, and ticket 1 sleeps through its own turn -/
theorem signal_loses_wakeup :
    ¬ NoLostWakeup (run .signal [.await 0 0, .await 2 2, .await 1 1, .release, .resume 2]) := by
  unfold NoLostWakeup
  intro h
  exact h (1, 1) (by decide) (by decide)

end Ebu.TurnLock

/-
M2s — `EventBus.Shutdown` (event_bus.go): a goroutine runs `Wait` and closes `done`; the caller
selects between `done` (then closes the store if it has a Close method, and returns nil or the
close error) and `ctx.Done()` (then returns the context's error without touching the store).
-/
namespace Ebu.Shutdown

structure S where
  inflight : Nat := 0            -- async invocations not finished
  cancelled : Bool := false      -- the context given to Shutdown
  closes : Nat := 0              -- how often the store's Close was called
  hasCloser : Bool := true
  closeFails : Bool := false
deriving DecidableEq, Repr

inductive Outcome | nil_ | closeError | ctxError
deriving DecidableEq, Repr

/-- the result of `Shutdown` in state `s`; `none` = it blocks (work in flight, context live).
`preferDone` resolves Go's random choice when both branches of the select are ready. -/
def shutdown (s : S) (preferDone : Bool) : Option (S × Outcome) :=
  if s.inflight = 0 ∧ (!s.cancelled || preferDone) then
    if s.hasCloser then some ({ s with closes := s.closes + 1 }, if s.closeFails then .closeError else .nil_)
    else some (s, .nil_)
  else if s.cancelled then some (s, .ctxError)
  else none

end Ebu.Shutdown

/-
M6 — upcaster registry (transcribed from /repo/upcast.go, after the `fix:` commit that
also rejects a *returned* type that was already processed).

Type names are `Nat` codes; code `0` is the empty string.  An event payload is the list
of tags of the upcast functions that have been applied to it (the Go harness uses a JSON
array of ints and every harness upcast function appends its own tag), so "the composed
data" is observable.  An upcaster is data: its declared source/target, the type name the
function actually returns (`ret`, which for raw `UpcastFunc`s need not be the declared
target), whether the function fails, and its tag.

The Go registry is `map[string][]Upcaster`; the per-source slices keep registration order.
The model keeps one global list in registration order; `ups g t` (the filter on the
source) is exactly the slice `r.upcasters[t]`.
-/
namespace Ebu.Upcast

structure Upcaster where
  src : Nat
  dst : Nat
  ret : Nat
  fails : Bool
  tag : Nat
deriving DecidableEq, Repr, Inhabited

abbrev Graph := List Upcaster

/-- `r.upcasters[t]` -/
def ups (g : Graph) (t : Nat) : List Upcaster := g.filter (fun u => u.src == t)

/-- declared targets of the upcasters of `t`, in registration order -/
def succs (g : Graph) (t : Nat) : List Nat := (ups g t).map (·.dst)

/-- `hasCycleDFS(current, target, visited)`.  The Go function is recursive with a shared
`visited` map; the map is threaded through the loop over `r.upcasters[current]`, and the
loop exits early on the first `true`.  `fuel` bounds the recursion depth (`none` = fuel
exhausted; `dfs_fuel_sufficient` shows this never happens for the fuel `wouldCreateCycle`
passes). -/
def dfs (g : Graph) (target : Nat) : Nat → Nat → List Nat → Option (Bool × List Nat)
  | 0, _, _ => none
  | fuel+1, cur, vis =>
    if cur = target then some (true, vis)
    else if cur ∈ vis then some (false, vis)
    else
      (succs g cur).foldlM (init := (false, cur :: vis)) fun acc x =>
        if acc.1 then some acc else dfs g target fuel x acc.2

/-- fuel handed to the search: more than the number of distinct sources -/
def dfsFuel (g : Graph) : Nat := g.length + 2

/-- `wouldCreateCycle(fromType, toType)`: is there already a path `toType ⟶* fromType`? -/
def wouldCreateCycle (g : Graph) (src dst : Nat) : Option Bool :=
  (dfs g src (dfsFuel g) dst []).map (·.1)

inductive RegErr
  | empty | self | nilFn | cycle | fuel
deriving DecidableEq, Repr

/-- `register(fromType, toType, upcast)`; `nilFn` = the function argument is nil. -/
def register (g : Graph) (u : Upcaster) (nilFn : Bool) : Except RegErr Graph :=
  if u.src = 0 ∨ u.dst = 0 then .error .empty
  else if u.src = u.dst then .error .self
  else if nilFn then .error .nilFn
  else match wouldCreateCycle g u.src u.dst with
    | none => .error .fuel
    | some true => .error .cycle
    | some false => .ok (g ++ [u])

def clear (_ : Graph) : Graph := []

def clearType (g : Graph) (t : Nat) : Graph := g.filter (fun u => !(u.src == t))

/-! ### apply -/

inductive ApplyErr
  | loop        -- "upcast loop detected"
  | failed (src dst : Nat)   -- "upcast failed from src to dst"
  | fuel
deriving DecidableEq, Repr

structure ApplyResult where
  data : List Nat
  ty : Nat
  err : Option ApplyErr
  /-- calls of the upcast functions, in order: (tag, input data) -/
  calls : List (Nat × List Nat)
  /-- calls of the upcast error handler: (type, data) -/
  errCalls : List (Nat × List Nat)
deriving DecidableEq, Repr

/-- the `for` loop of `apply`.  `applied` is `appliedTypes`. -/
def applyLoop (g : Graph) (hasErrH : Bool) (data0 : List Nat) (ty0 : Nat) :
    Nat → List Nat → Nat → List Nat → List (Nat × List Nat) → ApplyResult
  | 0, data, ty, _, calls => ⟨data, ty, some .fuel, calls, []⟩
  | fuel+1, data, ty, applied, calls =>
    let applied := ty :: applied
    match ups g ty with
    | [] => ⟨data, ty, none, calls, []⟩
    | u :: _ =>
      if u.dst ∈ applied then ⟨data0, ty0, some .loop, calls, []⟩
      else
        let calls := calls ++ [(u.tag, data)]
        if u.fails then
          ⟨data0, ty0, some (.failed u.src u.dst), calls, if hasErrH then [(ty, data)] else []⟩
        else if u.ret ∈ applied then ⟨data0, ty0, some .loop, calls, []⟩
        else applyLoop g hasErrH data0 ty0 fuel (data ++ [u.tag]) u.ret applied calls

def applyFuel (g : Graph) : Nat := g.length + 2

/-- `apply(data, eventType)` -/
def apply (g : Graph) (hasErrH : Bool) (data : List Nat) (ty : Nat) : ApplyResult :=
  match ups g ty with
  | [] => ⟨data, ty, none, [], []⟩
  | _ :: _ => applyLoop g hasErrH data ty (applyFuel g) data ty [] []

/-! ### ReplayWithUpcast: what the callback sees for one stored event -/

structure Stored where
  off : Nat
  ts : Nat
  ty : Nat
  data : List Nat
  /-- a payload field that no upcaster touches (and that is omitted from the JSON when 0) -/
  opt : Nat := 0
deriving DecidableEq, Repr

def upcastStored (g : Graph) (hasErrH : Bool) (e : Stored) : Stored × ApplyResult :=
  let r := apply g hasErrH e.data e.ty
  match r.err with
  | none => ({ e with ty := r.ty, data := r.data }, r)
  | some _ => (e, r)

end Ebu.Upcast

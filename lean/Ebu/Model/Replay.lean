import Ebu.Model.Log
/-
M4 — `EventBus.Replay` (persist.go) over the three stores, with a fault script:
the callback fails at its k-th call, the context is cancelled (by the callback) during its
k-th call, the store's j-th `Read` fails.
-/
namespace Ebu.Replay
open Ebu.Log

inductive Err
  | callback      -- "handle event at offset …"
  | stream        -- "stream events: …" (iteration error or cancellation inside ReadStream)
  | read          -- "read events: …"
  | ctx           -- ctx.Err() returned by the paging loop
  | nonAdvancing  -- "store returned non-advancing offset"
  | fuel
deriving DecidableEq, Repr

structure Faults where
  cbFail : Option Nat := none       -- callback number k (0-based) returns an error
  cancelAt : Option Nat := none     -- callback number k cancels the context (and returns nil)
  readFail : Option Nat := none     -- Read call number j (0-based) fails
deriving DecidableEq, Repr

structure Result where
  delivered : List (Off × Rec)      -- callback invocations, in order (including a failing one)
  err : Option Err                  -- none = Replay returned nil
  /-- further deliveries the Go runtime may or may not make before the cancellation is
  noticed (rows already fetched in the current SQLite batch); always a continuation of the log -/
  may : List (Off × Rec) := []
deriving DecidableEq, Repr

/-- is the context cancelled once `n` callbacks have run? -/
def cancelled (f : Faults) (n : Nat) : Bool :=
  match f.cancelAt with
  | some k => k < n
  | none => false

/-- deliver a list of events one by one; stops at a failing callback.
`check` = the iterator looks at the context before every yield.
Returns (delivered so far, error?, stopped-by-cancellation-with-rows-left) -/
def deliverList (f : Faults) (check : Bool) : List (Off × Rec) → List (Off × Rec) → List (Off × Rec) × Option Err × List (Off × Rec)
  | [], acc => (acc, none, [])
  | e :: rest, acc =>
    if check && cancelled f acc.length then (acc, some .stream, [])
    else
      let acc' := acc ++ [e]
      if f.cbFail = some acc.length then (acc', some .callback, [])
      else if !check && cancelled f acc'.length then
        -- no explicit check: the driver notices the cancellation at some later `rows.Next()`
        (acc', some .stream, rest)
      else deliverList f check rest acc'

/-- Replay over a streaming store whose iterator checks the context before each yield
(MemoryStore.ReadStream, SQLite ReadStream without batching) -/
def replayStream (f : Faults) (evs : List (Off × Rec)) : Result :=
  let (d, e, _) := deliverList f true evs []
  -- a cancellation after the last event is not noticed by the iterator
  ⟨d, e, []⟩

/-- SQLite `streamBatched`: pages of `batch` rows, context checked at the start of each page;
inside a page the cancellation surfaces through `rows.Err()` -/
def replaySqlBatched (s : Sql) (f : Faults) (batch : Nat) : Nat → Int → List (Off × Rec) → Result
  | 0, _, acc => ⟨acc, some .fuel, []⟩
  | fuel + 1, pos, acc =>
    if cancelled f acc.length then ⟨acc, some .stream, []⟩
    else
      let rows := (s.select pos (some batch)).map (fun row => (decimal row.1, row.2))
      let (acc', e, rest) := deliverList f false rows acc
      match e with
      | some err => ⟨acc', some err, rest⟩
      | none =>
        if rows.length < batch then ⟨acc', none, []⟩
        else match (s.select pos (some batch)).getLast? with
          | some row => replaySqlBatched s f batch fuel (row.1 : Int) acc'
          | none => ⟨acc', none, []⟩

/-- the paging fallback of `Replay` over any `Read` function -/
def replayPaged (read : Off → Int → Option (List (Off × Rec) × Off)) (f : Faults) (batch : Int) :
    Nat → Nat → Off → List (Off × Rec) → Result
  | 0, _, _, acc => ⟨acc, some .fuel, []⟩
  | fuel + 1, nread, off, acc =>
    if cancelled f acc.length then ⟨acc, some .ctx, []⟩
    else if f.readFail = some nread then ⟨acc, some .read, []⟩
    else match read off batch with
      | none => ⟨acc, some .read, []⟩
      | some (evs, next) =>
        if evs.isEmpty then ⟨acc, none, []⟩
        else
          -- inside a page the callback loop does not look at the context
          let (acc', e, _) := deliverList { f with cancelAt := none } true evs acc
          match e with
          | some err => ⟨acc', some err, []⟩
          | none =>
            if next = off then ⟨acc', some .nonAdvancing, []⟩
            else replayPaged read f batch fuel (nread + 1) next acc'

/-- `batchSize <= 0` means 100 -/
def effBatch (b : Int) : Int := if b ≤ 0 then 100 else b

end Ebu.Replay

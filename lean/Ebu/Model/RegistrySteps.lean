/-
M2r — why the registry mutators must be ONE critical section each.  A registration list and two
ways of removing a handler: `removeAtomic` (find the first registration with that identity and cut
it out, all under the write lock — what the source does and what M2's atomic removal step is), and
the two-phase variant (find the index under one lock acquisition, cut "the element at that index"
under another), whose phases can interleave with another goroutine's removal.
-/
namespace Ebu.RegistrySteps

abbrev Reg := List Nat          -- handler identities, in subscription order

def removeAtomic (r : Reg) (h : Nat) : Reg := r.erase h

/-- phase 1: the index of the first registration of `h` -/
def findIdx (r : Reg) (h : Nat) : Option Nat := r.findIdx? (· == h)
/-- phase 2: cut out whatever is at that index now -/
def removeAt (r : Reg) (i : Nat) : Reg := r.eraseIdx i

/-- atomic removals commute and remove exactly the handlers asked for: whatever the order in which two
goroutines get the lock, nobody else's registration is touched -/
theorem atomic_removals_exact (r : Reg) (a b : Nat) :
    removeAtomic (removeAtomic r a) b = removeAtomic (removeAtomic r b) a ∧
    ∀ c, c ≠ a → c ≠ b → (removeAtomic (removeAtomic r a) b).count c = r.count c := by
  refine ⟨List.erase_comm a b, fun c hca hcb => ?_⟩
  unfold removeAtomic
  rw [List.count_erase_of_ne hcb, List.count_erase_of_ne hca]

/-- two-phase removals do not: goroutine 1 finds `a` at index 0, goroutine 2 finds `b` at index 1, goroutine 1
removes index 0, goroutine 2 removes index 1 – which now holds `c`.  `b` stays subscribed although its
`Unsubscribe` returned nil, and `c`, which nobody unsubscribed, is gone; the handler count is still right -/
theorem two_phase_removes_somebody_else :
    let r : Reg := [10, 20, 30]
    let i1 := (findIdx r 10).getD 0
    let i2 := (findIdx r 20).getD 0
    removeAt (removeAt r i1) i2 = [20] ∧ (removeAtomic (removeAtomic r 10) 20) = [30] := by
  decide

end Ebu.RegistrySteps

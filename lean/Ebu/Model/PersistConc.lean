/-
M2p — concurrent publishers on a persistent bus (persist.go `persistEvent`: `storeMu.Lock(); off, err :=
store.Append(...); if err == nil { lastOffset = off }; storeMu.Unlock()`, called by `PublishContext`
before the snapshot and the dispatch).

Each publisher is a thread with three program points: before `persistEvent`, persisted (about to
deliver), delivered.  The append and the update of `lastOffset` are ONE atomic step because the
current source performs both inside one `storeMu` critical section (obligation
`Ebu.Props.C03.facts_callbacks_lock_free` on the regenerated fact table); the store hands out the
next offset.  A schedule is any list of thread indices.
-/
namespace Ebu.PersistConc

structure Thread where
  record : Nat
  pc : Nat := 0          -- 0 = before persistEvent, 1 = persisted, 2 = handlers have run
deriving Repr, DecidableEq

structure St where
  log : List (Nat × Nat) := []                   -- (offset, record) in log order
  lastOffset : Nat := 0
  threads : List Thread := []
  seen : List (Nat × List (Nat × Nat)) := []     -- (record, the log its handlers could read), in delivery order
deriving Repr

def init (recs : List Nat) : St := { threads := recs.map (fun r => { record := r }) }

/-- thread `i` takes its next step (a finished or non-existent thread stutters) -/
def stepAt (s : St) (i : Nat) : St :=
  match s.threads[i]? with
  | none => s
  | some t =>
    if t.pc = 0 then
      let off := s.log.length + 1
      { s with log := s.log ++ [(off, t.record)], lastOffset := off, threads := s.threads.set i { t with pc := 1 } }
    else if t.pc = 1 then
      { s with seen := s.seen ++ [(t.record, s.log)], threads := s.threads.set i { t with pc := 2 } }
    else s

def run (recs : List Nat) (sched : List Nat) : St := sched.foldl stepAt (init recs)

/-- records of the threads that have persisted -/
def persistedRecs (s : St) : List Nat := (s.threads.filter (fun t => 0 < t.pc)).map (·.record)

end Ebu.PersistConc

/-
M7b — the wire format of state-protocol messages (state/message.go, helpers.go) and the
two-stage discrimination of `Materializer.Apply`, over a JSON abstraction that is exactly
as deep as those messages: a document is either not-an-object, `null`, or an object whose
field values are scalars, opaque documents (entity values) or one level of object
(`headers`).  `encoding/json` behaviour that matters is transcribed: struct fields are
matched case-insensitively, the last matching key wins, `null` leaves the zero value, a
wrongly typed value is an error.
-/
namespace Ebu.StateWire

inductive Leaf
  | null
  | str (s : String)
  | num (n : Int)
  | bool (b : Bool)
  | doc (v : Nat)            -- any other JSON value (entity documents), opaque
deriving DecidableEq, Repr

inductive Val
  | leaf (l : Leaf)
  | obj (fs : List (String × Leaf))
deriving DecidableEq, Repr

inductive Doc
  | notObject                -- invalid JSON, or an array / string / number / bool at top level
  | null
  | obj (fs : List (String × Val))
deriving DecidableEq, Repr

/-- ASCII case folding (`strings.EqualFold` on ASCII names) -/
def fold (s : String) : String := s.map Char.toLower

/-- the value the decoder assigns to the struct field tagged `name`: the LAST key of the
object that matches exactly or case-insensitively -/
def field {α : Type} (name : String) (fs : List (String × α)) : Option α :=
  (fs.filter (fun p => fold p.1 == fold name)).getLast?.map (·.2)

/-- decode a string-typed struct field: absent or null → "", string → it, else error -/
def asString : Option Leaf → Option String
  | none => some ""
  | some .null => some ""
  | some (.str s) => some s
  | some _ => none

def asStringV : Option Val → Option String
  | none => some ""
  | some (.leaf l) => asString (some l)
  | some (.obj _) => none

/-- messages as the helpers build them -/
structure Change where
  ty : String
  key : String
  op : String                  -- "insert" | "update" | "delete"
  value : Option Nat           -- entity document (omitted when absent)
  old : Option Nat
  txid : String := ""          -- omitted when empty
  ts : String := ""            -- omitted when empty
deriving DecidableEq, Repr

structure Control where
  control : String
  offset : String := ""        -- omitted when empty
deriving DecidableEq, Repr

def optField (name : String) (s : String) : List (String × Leaf) :=
  if s.isEmpty then [] else [(name, .str s)]

/-- `json.Marshal(ChangeMessage)`: field names and `omitempty` as in message.go -/
def encodeChange (m : Change) : Doc :=
  .obj ([("type", .leaf (.str m.ty)), ("key", .leaf (.str m.key))] ++
    (match m.value with | some v => [("value", Val.leaf (.doc v))] | none => []) ++
    (match m.old with | some v => [("old_value", Val.leaf (.doc v))] | none => []) ++
    [("headers", .obj ([("operation", .str m.op)] ++ optField "txid" m.txid ++ optField "timestamp" m.ts))])

def encodeControl (m : Control) : Doc :=
  .obj [("headers", .obj ([("control", .str m.control)] ++ optField "offset" m.offset))]

inductive Decoded
  | error                                        -- Apply returns an error before touching anything
  | control (kind : String)
  | change (ty key op : String) (value : Option Leaf)
deriving DecidableEq, Repr

/-- stage 2 of `Apply`: does `headers` decode as ControlHeaders with a non-empty control? -/
def controlOf (h : Option Val) : Option String :=
  match h with
  | some (.obj fs) =>
    match asString (field "control" fs), asString (field "offset" fs) with
    | some c, some _ => if c.isEmpty then none else some c
    | _, _ => none
  | _ => none

/-- stage 3: decode as ChangeMessage -/
def changeOf (fs : List (String × Val)) : Decoded :=
  match asStringV (field "type" fs), asStringV (field "key" fs) with
  | some ty, some key =>
    let value : Option Leaf := match field "value" fs with
      | some (.leaf l) => some l        -- also `null`: RawMessage keeps the bytes "null"
      | some (.obj _) => some (.doc 0)
      | none => none
    match field "headers" fs with
    | none => .change ty key "" value
    | some (.leaf .null) => .change ty key "" value
    | some (.leaf _) => .error
    | some (.obj hs) =>
      match asString (field "operation" hs), asString (field "txid" hs), asString (field "timestamp" hs) with
      | some op, some _, some _ => .change ty key op value
      | _, _, _ => .error
  | _, _ => .error

/-- the discrimination `Materializer.Apply` performs on `event.Data` -/
def decode : Doc → Decoded
  | .notObject => .error
  | .null => .change "" "" "" none
  | .obj fs =>
    match controlOf (field "headers" fs) with
    | some c => .control c
    | none => changeOf fs

end Ebu.StateWire

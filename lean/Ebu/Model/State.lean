/-
M7 — the state materializer (transcribed from /repo/state/materializer.go; messages from
/repo/state/message.go and helpers.go).

Entity types, keys and values are `Nat` codes (the harness maps them to Go entity types,
key strings — including ones containing the separator "/" — and entity documents).
A stored event is abstracted to what `Apply` can distinguish about its JSON data:
  * `garbage`  – not decodable as a state message at all (invalid JSON, not an object,
                 wrongly typed fields): `Apply` returns an error before touching anything;
  * `control`  – `headers.control` is a non-empty string;
  * `change`   – everything else that decodes as a ChangeMessage; `valOk` says whether
                 `value` unmarshals into the collection's Go type.
-/
namespace Ebu.State

inductive Op | insert | update | delete | other
deriving DecidableEq, Repr

inductive Ctl | reset | snapStart | snapEnd | other
deriving DecidableEq, Repr

inductive Msg
  | change (ty key : Nat) (op : Op) (val : Nat) (valOk : Bool)
  | control (k : Ctl)
  | garbage
deriving DecidableEq, Repr

structure Ev where
  off : Nat
  msg : Msg
deriving DecidableEq, Repr

/-- callbacks configured on the materializer, as trace events -/
inductive Cb
  | onReset | onSnapshot (start : Bool) | onError
deriving DecidableEq, Repr

/-- one collection's backing store: composite key ↦ value; within one collection every
composite key has the same "type/" prefix, so it is keyed by the key code -/
abbrev Coll := List (Nat × Nat)

def Coll.set (c : Coll) (k v : Nat) : Coll := (k, v) :: c.filter (fun p => p.1 != k)
def Coll.del (c : Coll) (k : Nat) : Coll := c.filter (fun p => p.1 != k)
def Coll.get (c : Coll) (k : Nat) : Option Nat := (c.find? (fun p => p.1 == k)).map (·.2)

structure Mat where
  strict : Bool := false
  cols : List (Nat × Coll) := []        -- registered entity types and their collections
  lastOffset : Nat := 0
  cbs : List Cb := []                   -- callbacks invoked so far (oldest first)
deriving Repr

def Mat.registered (m : Mat) (ty : Nat) : Bool := m.cols.any (fun p => p.1 == ty)

def Mat.register (m : Mat) (ty : Nat) : Mat :=
  if m.registered ty then m else { m with cols := m.cols ++ [(ty, [])] }

def Mat.lookup (m : Mat) (ty key : Nat) : Option Nat :=
  match m.cols.find? (fun p => p.1 == ty) with
  | some p => Coll.get p.2 key
  | none => none

def Mat.updateColl (m : Mat) (ty : Nat) (f : Coll → Coll) : Mat :=
  { m with cols := m.cols.map (fun p => if p.1 == ty then (p.1, f p.2) else p) }

/-- `Materializer.Apply`: new state and whether an error was returned -/
def Mat.apply (m : Mat) (e : Ev) : Mat × Bool :=
  match e.msg with
  | .garbage => (m, true)
  | .control k =>
    let m : Mat := match k with
      | .reset => { m with cols := m.cols.map (fun (p : Nat × Coll) => (p.1, ([] : Coll))), cbs := m.cbs ++ [Cb.onReset] }
      | .snapStart => { m with cbs := m.cbs ++ [Cb.onSnapshot true] }
      | .snapEnd => { m with cbs := m.cbs ++ [Cb.onSnapshot false] }
      | .other => m
    ({ m with lastOffset := e.off }, false)
  | .change ty key op val valOk =>
    if !m.registered ty then
      if m.strict then (m, true) else ({ m with lastOffset := e.off }, false)
    else match op with
      | .insert | .update =>
        if valOk then ({ m.updateColl ty (fun c => c.set key val) with lastOffset := e.off }, false)
        else ({ m with cbs := m.cbs ++ [.onError] }, true)
      | .delete => ({ m.updateColl ty (fun c => c.del key) with lastOffset := e.off }, false)
      | .other => ({ m with lastOffset := e.off }, false)

/-- `Materializer.Replay` over the events after `from`: applies until the first error -/
def Mat.replay (m : Mat) : List Ev → Mat × Bool
  | [] => (m, false)
  | e :: rest =>
    let (m', err) := m.apply e
    if err then (m', true) else m'.replay rest

/-- the events a replay from offset `o` sees (offsets are the positions in the log) -/
def after (o : Nat) (log : List Ev) : List Ev := log.filter (fun e => o < e.off)

end Ebu.State

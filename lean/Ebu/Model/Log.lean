/-
M3 — the three bundled event stores as state machines (transcribed from
/repo/persist.go `MemoryStore`, /repo/stores/sqlite/store.go, /repo/stores/durablestream/store.go
and the reference durable-streams memory server the latter talks to).

A record is an opaque `Nat` (an index into the harness's table of events: type string, JSON
document, timestamp); fidelity of type/data/timestamp is carried by the correspondence.
Offsets are the real offset strings, as lists of bytes.
-/
namespace Ebu.Log

abbrev Off := List Nat          -- bytes of the offset string
abbrev Rec := Nat

/-! ### strings of digits -/

def zero : Nat := 48   -- '0'

/-- `w` decimal digits of `n`, most significant first (zero padded; wraps if `n ≥ 10^w`) -/
def digitsW : Nat → Nat → List Nat
  | 0, _ => []
  | w + 1, n => digitsW w (n / 10) ++ [zero + n % 10]

/-- minimal decimal representation (`strconv.FormatInt` of a non-negative number) -/
def decimal (n : Nat) : List Nat :=
  if n < 10 then [zero + n] else decimal (n / 10) ++ [zero + n % 10]
decreasing_by omega

/-- `fmt.Sprintf("%020d", n)` for `0 ≤ n < 10^20` (a Go `int64` always is) -/
def fmt20 (n : Nat) : Off := digitsW 20 n

/-- `fmt.Sprintf("%010d", n)` (durable-streams memory server) -/
def fmt10 (n : Nat) : Off := digitsW 10 n

/-- Go string comparison `a < b`: lexicographic on bytes -/
def lexLt : List Nat → List Nat → Bool
  | [], [] => false
  | [], _ :: _ => true
  | _ :: _, [] => false
  | a :: as, b :: bs => if a < b then true else if b < a then false else lexLt as bs

def isDigit (c : Nat) : Bool := 48 ≤ c && c ≤ 57

/-- value of a string of digits -/
def digitsVal (l : List Nat) : Nat := l.foldl (fun acc c => acc * 10 + (c - 48)) 0

def maxInt64 : Nat := 9223372036854775807

/-- `strconv.ParseInt(s, 10, 64)`: optional sign, at least one digit, only digits, in range -/
def parseInt64 (s : List Nat) : Option Int :=
  let (neg, ds) := match s with
    | 45 :: r => (true, r)      -- '-'
    | 43 :: r => (false, r)     -- '+'
    | r => (false, r)
  if ds.isEmpty || !ds.all isDigit then none
  else
    let v := digitsVal ds
    if neg then (if v ≤ maxInt64 + 1 then some (-(v : Int)) else none)
    else (if v ≤ maxInt64 then some (v : Int) else none)

/-! ### the memory store (persist.go) -/

structure Mem where
  events : List (Off × Rec) := []
  next : Nat := 0
  subs : List (String × Off) := []
deriving Repr

def Mem.append (m : Mem) (r : Rec) : Mem × Off :=
  let n := m.next + 1
  let off := fmt20 n
  ({ m with events := m.events ++ [(off, r)], next := n }, off)

/-- the loop of `MemoryStore.Read`: returns the result and the last offset -/
def memReadLoop (from_ : Off) (limit : Int) : List (Off × Rec) → List (Off × Rec) → Off → List (Off × Rec) × Off
  | [], acc, last => (acc, last)
  | (o, r) :: rest, acc, last =>
    if from_.isEmpty || lexLt from_ o then
      let acc := acc ++ [(o, r)]
      if limit > 0 && (acc.length : Int) ≥ limit then (acc, o)
      else memReadLoop from_ limit rest acc o
    else memReadLoop from_ limit rest acc last

def Mem.read (m : Mem) (from_ : Off) (limit : Int) : List (Off × Rec) × Off :=
  memReadLoop from_ limit m.events [] from_

/-- the snapshot `ReadStream` iterates over -/
def Mem.stream (m : Mem) (from_ : Off) : List (Off × Rec) :=
  m.events.filter (fun e => from_.isEmpty || lexLt from_ e.1)

def Mem.save (m : Mem) (id : String) (o : Off) : Mem :=
  { m with subs := (id, o) :: m.subs.filter (fun p => p.1 != id) }

def Mem.load (m : Mem) (id : String) : Off :=
  match m.subs.find? (fun p => p.1 == id) with
  | some p => p.2
  | none => []

/-! ### the SQLite store -/

structure Sql where
  rows : List (Nat × Rec) := []          -- (position, record), ascending positions
  seq : Nat := 0                         -- sqlite_sequence (AUTOINCREMENT)
  subs : List (String × Int) := []
deriving Repr

def Sql.append (s : Sql) (r : Rec) : Sql × Off :=
  let p := s.seq + 1
  ({ s with rows := s.rows ++ [(p, r)], seq := p }, decimal p)

/-- `parseOffset`: "" is 0, otherwise ParseInt -/
def sqlParse (o : Off) : Option Int := if o.isEmpty then some 0 else parseInt64 o

def sqlFmt (p : Int) : Off :=
  if p < 0 then 45 :: decimal p.natAbs else decimal p.toNat

/-- `SELECT … WHERE position > ? ORDER BY position [LIMIT ?]` -/
def Sql.select (s : Sql) (pos : Int) (limit : Option Nat) : List (Nat × Rec) :=
  let l := s.rows.filter (fun row => pos < (row.1 : Int))
  match limit with
  | some n => l.take n
  | none => l

/-- `Read(from, limit)`: `none` = error (invalid offset) -/
def Sql.read (s : Sql) (from_ : Off) (limit : Int) : Option (List (Off × Rec) × Off) :=
  match sqlParse from_ with
  | none => none
  | some pos =>
    let rows := s.select pos (if limit ≤ 0 then none else some limit.toNat)
    let evs := rows.map (fun row => (decimal row.1, row.2))
    some (evs, match evs.getLast? with | some e => e.1 | none => from_)

def Sql.save (s : Sql) (id : String) (o : Off) : Option Sql :=
  match sqlParse o with
  | none => none
  | some p => some { s with subs := (id, p) :: s.subs.filter (fun q => q.1 != id) }

def Sql.load (s : Sql) (id : String) : Off :=
  match s.subs.find? (fun p => p.1 == id) with
  | some p => sqlFmt p.2
  | none => []

/-! ### the durable-streams store (client side of store.go + the reference memory server) -/

structure Ds where
  msgs : List Rec := []
  chunk : Nat := 1               -- messages per response chunk (≥ 1; byte limit / message size)
deriving Repr

def Ds.append (d : Ds) (r : Rec) : Ds × Off :=
  let ms := d.msgs ++ [r]
  ({ d with msgs := ms }, fmt10 ms.length)

/-- server `parseOffset`: "" and "-1" are 0; otherwise `Sscanf("%d")`, i.e. optional sign
and the longest prefix of digits (so the synthetic "0000000003/1" parses as 3) -/
def dsParse (o : Off) : Option Int :=
  if o.isEmpty || o == [45, 49] then some 0
  else
    let (neg, r) := match o with
      | 45 :: r => (true, r)
      | 43 :: r => (false, r)
      | r => (false, r)
    let ds := r.takeWhile isDigit
    if ds.isEmpty then none else some (if neg then -(digitsVal ds : Int) else (digitsVal ds : Int))

/-- one catch-up read of the server: messages `[idx, idx+chunk)` and the next offset -/
def Ds.serverRead (d : Ds) (o : Off) : Option (List Rec × Off) :=
  match dsParse o with
  | none => none
  | some i =>
    if i < 0 || (d.msgs.length : Int) < i then none      -- ErrGone
    else
      let idx := i.toNat
      let ms := (d.msgs.drop idx).take (max d.chunk 1)
      let next := if ms.isEmpty then (if o.isEmpty || o == [45, 49] then fmt10 0 else o) else fmt10 (idx + ms.length)
      some (ms, next)

def slash : Nat := 47

/-- `Store.Read(from, limit)`: one chunk, synthetic per-event offsets `"<next>/<i>"`,
truncation to `limit`, next offset = the chunk's end -/
def Ds.read (d : Ds) (from_ : Off) (limit : Int) : Option (List (Off × Rec) × Off) :=
  match d.serverRead from_ with
  | none => none
  | some (ms, next) =>
    if ms.isEmpty then some ([], next)
    else
      let evs := (List.range ms.length).zip ms |>.map (fun (i, r) => (next ++ [slash] ++ decimal i, r))
      let evs := if limit > 0 then evs.take limit.toNat else evs
      some (evs, next)

end Ebu.Log

/-
M11 — reader/writer mutex semantics (sync.RWMutex / sync.Mutex as a writer-only RWMutex) and
what a lock discipline buys: two goroutines cannot be positioned at conflicting accesses to the
same location at the same time.
-/
namespace Ebu.Locks

/-- one RW mutex: the goroutine holding it for writing (if any) and those holding it for reading -/
structure RW where
  writer : Option Nat := none
  readers : List Nat := []
deriving DecidableEq, Repr

inductive LockOp
  | lock (t : Nat) | unlock (t : Nat) | rlock (t : Nat) | runlock (t : Nat)
deriving DecidableEq, Repr

/-- `none`: the operation cannot happen now (Lock/RLock would block; Unlock of a lock not held) -/
def RW.step (l : RW) : LockOp → Option RW
  | .lock t => if l.writer = none ∧ l.readers = [] then some { writer := some t, readers := [] } else none
  | .unlock t => if l.writer = some t then some { l with writer := none } else none
  | .rlock t => if l.writer = none then some { l with readers := t :: l.readers } else none
  | .runlock t => if t ∈ l.readers then some { l with readers := l.readers.erase t } else none

/-- a writer excludes readers -/
def RW.Valid (l : RW) : Prop := l.writer.isSome → l.readers = []

/-- every state a mutex can be in -/
inductive RW.Reachable : RW → Prop
  | init : RW.Reachable {}
  | step {l l' : RW} {op : LockOp} : RW.Reachable l → l.step op = some l' → RW.Reachable l'

/-- the mode in which goroutine `t` holds the mutex: 2 = write, 1 = read, 0 = not at all -/
def RW.mode (l : RW) (t : Nat) : Nat :=
  if l.writer = some t then 2 else if t ∈ l.readers then 1 else 0

end Ebu.Locks

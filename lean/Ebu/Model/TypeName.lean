/-
M8 — how each API derives the type name of an event type (event_bus.go `EventType`,
`typeNameOf`; persist.go `persistEvent`, `SubscribeWithReplay`; upcast.go `RegisterUpcast`).

A shape is: is the event type a pointer type, and where (if anywhere) is `EventTypeName`
declared.  Go's method-set rule: a value-receiver method is in the method set of both `T` and
`*T`; a pointer-receiver method only in that of `*T`.
-/
namespace Ebu.TypeName

inductive Recv | none | value | pointer
deriving DecidableEq, Repr

structure Shape where
  ptr : Bool
  recv : Recv
  base : String        -- reflect name of the struct type, e.g. "main.NPlain"
  custom : String      -- what EventTypeName returns on the published value
  customZero : String  -- what EventTypeName returns on the zero value of the type (the same, unless the
                       -- method reads the event's fields)
deriving DecidableEq, Repr

/-- the name does not depend on the event's value -/
def Shape.constName (s : Shape) : Bool := s.custom == s.customZero

/-- is `EventTypeName` in the method set of the event type? -/
def inMethodSet (s : Shape) : Bool :=
  match s.recv with
  | .none => false
  | .value => true
  | .pointer => s.ptr

/-- `reflect.Type.String()` -/
def reflectName (s : Shape) : String := (if s.ptr then "*" else "") ++ s.base

/-- `EventType(event)`: a dynamic type assertion `event.(TypeNamer)` on a (non-nil) value -/
def eventType (s : Shape) : String := if inMethodSet s then s.custom else reflectName s

/-- `typeNameOf(reflect.Type)`: `t.Implements(TypeNamer)` on the static type, the method called
on a zero value (or on a fresh non-nil pointer for pointer types) -/
def typeNameOf (s : Shape) : String := if inMethodSet s then s.customZero else reflectName s

inductive Route
  | eventTypeFn      -- EventType(event)
  | persisted        -- StoredEvent.Type written by persistEvent
  | replaySub        -- the name SubscribeWithReplay[T] compares stored types with
  | upcastFrom       -- the source name RegisterUpcast[T, _] registers
  | upcastTo         -- the target name RegisterUpcast[_, T] registers and returns
  | storedAfterReplay -- StoredEvent.Type of the same record after a ReplayWithUpcast went over it
deriving DecidableEq, Repr

def routeName (r : Route) (s : Shape) : String :=
  match r with
  | .eventTypeFn => eventType s
  | .persisted => eventType s          -- persistEvent calls EventType(event)
  | .replaySub => typeNameOf s
  | .upcastFrom => typeNameOf s
  | .upcastTo => typeNameOf s
  | .storedAfterReplay => eventType s  -- replaying (with or without upcasters) never rewrites the log

/-- the shapes the harness instantiates as real Go types -/
def shapes : List Shape :=
  [ ⟨false, .none, "main.NPlain", "", ""⟩, ⟨true, .none, "main.NPlain", "", ""⟩,
    ⟨false, .value, "main.NVal", "nval.v1", "nval.v1"⟩, ⟨true, .value, "main.NVal", "nval.v1", "nval.v1"⟩,
    ⟨false, .pointer, "main.NPtr", "nptr.v1", "nptr.v1"⟩, ⟨true, .pointer, "main.NPtr", "nptr.v1", "nptr.v1"⟩,
    ⟨false, .value, "state.ChangeMessage", "state.ChangeMessage", "state.ChangeMessage"⟩,
    ⟨true, .value, "state.ChangeMessage", "state.ChangeMessage", "state.ChangeMessage"⟩,
    ⟨false, .value, "state.ControlMessage", "state.ControlMessage", "state.ControlMessage"⟩,
    ⟨true, .value, "state.ControlMessage", "state.ControlMessage", "state.ControlMessage"⟩,
    -- names computed from the event's fields (the harness publishes A = 7)
    ⟨false, .value, "main.NDyn", "ndyn.v7", "ndyn.v0"⟩, ⟨true, .value, "main.NDyn", "ndyn.v7", "ndyn.v0"⟩,
    ⟨false, .pointer, "main.NDynP", "ndynp.v7", "ndynp.v0"⟩, ⟨true, .pointer, "main.NDynP", "ndynp.v7", "ndynp.v0"⟩,
    -- a typed nil pointer published as an event (the method does not touch the receiver)
    ⟨true, .pointer, "main.NPtr", "nptr.v1", "nptr.v1"⟩,
    -- on the SQLite store: a custom name that looks like a number, and a plain pointer type
    ⟨false, .value, "main.NNum", "0042", "0042"⟩, ⟨true, .none, "main.NPlain", "", ""⟩,
    -- named non-struct event types (an integer, a slice, a map) with a custom name
    ⟨false, .value, "main.NTick", "ntick.v1", "ntick.v1"⟩, ⟨false, .value, "main.NBatch", "nbatch.v1", "nbatch.v1"⟩,
    ⟨false, .value, "main.NMap", "nmap.v1", "nmap.v1"⟩ ]

end Ebu.TypeName

/-
M5 — resumable subscriptions across restarts (persist.go `SubscribeWithReplay`, `persistEvent`,
after the `fix:` commits), over a store that behaves as an append-only log with resumable
offsets (what C10 proves of the memory and SQLite stores; offsets are positions here).

Every store operation (Append, LoadOffset, the ReadStream of a replay, SaveOffset) is counted;
a `Plan` makes the k-th store operation of the history fail, and/or kills the process right
after the k-th store operation completed.
-/
namespace Ebu.Resume

structure Plan where
  failAt : Option Nat := none        -- this store operation (1-based, over the whole history) fails
  crashAfter : Option Nat := none    -- the process dies right after this store operation
deriving DecidableEq, Repr

inductive ROp
  | publish (ty r : Nat)
  | subscribe (id ty : Nat) (pubDuring : Option (Nat × Nat))
      -- `pubDuring`: the handler publishes this event (re-entrantly) when it is first invoked during the replay
  | restart
deriving DecidableEq, Repr

structure RS where
  log : List (Nat × Nat) := []          -- persistent: (type, record), offsets are positions 1,2,…
  saved : List (Nat × Nat) := []        -- persistent: subscription id ↦ saved offset
  last : Nat := 0                       -- volatile: bus.lastOffset (0 = OffsetOldest)
  live : List (Nat × Nat) := []         -- volatile: live subscriptions (id, type) in subscription order
  delivered : List (Nat × Nat) := []    -- ghost: handler invocations (id, record), oldest first
  savedHist : List (Nat × Nat) := []    -- ghost: every successful SaveOffset (id, offset), oldest first
  nops : Nat := 0                       -- store operations performed so far
  dead : Bool := false                  -- the process died during the current operation
  errs : List Nat := []                 -- ghost: SubscribeWithReplay calls that returned an error (ids)
deriving Repr

def savedOf (s : RS) (id : Nat) : Nat :=
  match s.saved.find? (fun p => p.1 == id) with
  | some p => p.2
  | none => 0

/-- count one store operation: does it fail, does the process die after it? -/
def tick (p : Plan) (s : RS) : RS × Bool × Bool :=
  let n := s.nops + 1
  ({ s with nops := n }, p.failAt == some n, p.crashAfter == some n)

def die (s : RS) : RS := { s with last := 0, live := [], dead := true }

def save (s : RS) (id off : Nat) : RS :=
  { s with saved := (id, off) :: s.saved.filter (fun p => p.1 != id), savedHist := s.savedHist ++ [(id, off)] }

/-- handler(event); then SaveOffset(off) unless `off = 0` -/
def deliverAndSave (p : Plan) (s : RS) (id r off : Nat) : RS :=
  let s := { s with delivered := s.delivered ++ [(id, r)] }
  if off = 0 then s
  else
    let (s, fails, crash) := tick p s
    let s := if fails then s else save s id off
    if crash then die s else s

/-- `Publish` on a persistent bus: persistEvent, then the live (wrapped) handlers -/
def publish (p : Plan) (s : RS) (ty r : Nat) : RS :=
  let (s, fails, crash) := tick p s
  let s := if fails then s else { s with log := s.log ++ [(ty, r)], last := s.log.length + 1 }
  if crash then die s
  else s.live.foldl (fun s l => if s.dead || l.2 != ty then s else deliverAndSave p s l.1 r s.last) s

/-- the events a replay from offset `from` sees, with their offsets -/
def eventsAfter (log : List (Nat × Nat)) (from_ : Nat) : List (Nat × Nat × Nat) :=
  ((List.range log.length).zip log).filterMap (fun (i, e) => if from_ < i + 1 then some (i + 1, e.1, e.2) else none)

/-- `SubscribeWithReplay` -/
def subscribe (p : Plan) (s : RS) (id ty : Nat) (pubDuring : Option (Nat × Nat)) : RS :=
  let (s, fails, crash) := tick p s                    -- LoadOffset
  if crash then die s
  else if fails then { s with errs := s.errs ++ [id] }
  else
    let from_ := savedOf s id
    let (s, fails, crash) := tick p s                  -- ReadStream: snapshot of the events after `from`
    if crash then die s
    else if fails then { s with errs := s.errs ++ [id] }
    else
      let evs := eventsAfter s.log from_
      let (s, _) := evs.foldl (fun (acc : RS × Bool) e =>
        let (s, first) := acc
        if s.dead || e.2.1 != ty then (s, first)
        else
          -- the handler runs (and may publish re-entrantly the first time), then the offset is saved
          let s := { s with delivered := s.delivered ++ [(id, e.2.2)] }
          let s := match (if first then pubDuring else none) with
            | some (t', r') => publish p s t' r'
            | none => s
          if s.dead then (s, false)
          else
            let (s, fails, crash) := tick p s
            let s := if fails then s else save s id e.1
            (if crash then die s else s, false)) (s, true)
      if s.dead then s else { s with live := s.live ++ [(id, ty)] }

def stepOp (p : Plan) (s : RS) : ROp → RS
  | .publish ty r => { publish p s ty r with dead := false }
  | .subscribe id ty pd => { subscribe p s id ty pd with dead := false }
  | .restart => { s with last := 0, live := [] }

def run (p : Plan) (ops : List ROp) : RS := ops.foldl (stepOp p) {}

end Ebu.Resume

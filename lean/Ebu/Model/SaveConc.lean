/-
M5c — the live handler of a resumable subscription under concurrent publishers (persist.go,
`SubscribeWithReplay`: after the user's handler, `saveMu.Lock(); offset := bus.lastOffset (under
storeMu.RLock); if offset != "" { SaveOffset(id, offset) }; saveMu.Unlock()`).

Every publish is a thread: persist (append + `lastOffset`, one `storeMu` critical section, as in M2p), run
the handler, then save.  With the per-subscription `saveMu` "read the bus offset" and "save it" are ONE step;
the unlocked variant has them as two steps (the code before fix c3a4d4d).  A schedule is any list of
thread indices.
-/
namespace Ebu.SaveConc

structure Thread where
  pc : Nat := 0        -- 0 = before persistEvent, 1 = persisted / handler ran, 2 = (unlocked variant) offset read, 3 = saved
  got : Nat := 0       -- the bus offset it read
deriving Repr, DecidableEq

structure St where
  lastOffset : Nat := 0            -- bus.lastOffset (0 = OffsetOldest)
  saved : Nat := 0                 -- the subscription's saved position
  history : List Nat := []         -- every value SaveOffset was called with, in order
  threads : List Thread := []
deriving Repr

def init (n : Nat) : St := { threads := List.replicate n {} }

/-- with `saveMu`: read and save are one step -/
def stepLocked (s : St) (i : Nat) : St :=
  match s.threads[i]? with
  | none => s
  | some t =>
    if t.pc = 0 then { s with lastOffset := s.lastOffset + 1, threads := s.threads.set i { t with pc := 1 } }
    else if t.pc = 1 then
      if s.lastOffset = 0 then { s with threads := s.threads.set i { t with pc := 3 } }
      else { s with saved := s.lastOffset, history := s.history ++ [s.lastOffset],
                    threads := s.threads.set i { t with pc := 3, got := s.lastOffset } }
    else s

/-- without it: another thread can run between the read and the save -/
def stepUnlocked (s : St) (i : Nat) : St :=
  match s.threads[i]? with
  | none => s
  | some t =>
    if t.pc = 0 then { s with lastOffset := s.lastOffset + 1, threads := s.threads.set i { t with pc := 1 } }
    else if t.pc = 1 then { s with threads := s.threads.set i { t with pc := 2, got := s.lastOffset } }
    else if t.pc = 2 then
      if t.got = 0 then { s with threads := s.threads.set i { t with pc := 3 } }
      else { s with saved := t.got, history := s.history ++ [t.got], threads := s.threads.set i { t with pc := 3 } }
    else s

def runLocked (n : Nat) (sched : List Nat) : St := sched.foldl stepLocked (init n)
def runUnlocked (n : Nat) (sched : List Nat) : St := sched.foldl stepUnlocked (init n)

/-- the saved offset never moves backwards: the values saved, in order, never decrease -/
def Monotone (h : List Nat) : Prop := h.Pairwise (· ≤ ·)

end Ebu.SaveConc

/-
M10 — the SQLite store as a crash-recoverable log (stores/sqlite/store.go, schema.go).

Assumed of the layers below (database/sql + SQLite in WAL mode), and sampled – not proved – by
the kill harness: a single statement is atomic (it either commits or has no effect), a
committed statement survives the death of the process, and AUTOINCREMENT never reuses a rowid.
What is modelled is what the store builds on that: one INSERT per Append, one UPSERT per
SaveOffset, acknowledgement after commit, idempotent migration on open.
-/
namespace Ebu.Durable

structure Db where
  rows : List (Nat × Nat) := []        -- committed events: (position, record)
  seq : Nat := 0                       -- sqlite_sequence for `events`
  subs : List (Nat × Nat) := []        -- committed subscription positions: id ↦ position
  version : Nat := 0                   -- MAX(schema_version.version), 0 = fresh file
deriving DecidableEq, Repr

/-- what the client has been told: acknowledged appends (record, offset) and saves (id, offset) -/
structure Acked where
  appends : List (Nat × Nat) := []
  saves : List (Nat × Nat) := []
deriving DecidableEq, Repr

inductive Op
  | append (r : Nat)                    -- Append returns
  | save (id off : Nat)                 -- SaveOffset returns
  | killAppend (r : Nat) (committed : Bool)      -- SIGKILL while an Append is in flight
  | killSave (id off : Nat) (committed : Bool)   -- SIGKILL while a SaveOffset is in flight
  | kill                                -- SIGKILL between operations
  | close                               -- clean Close
  | open                                -- New(path): pragmas + migrate
deriving DecidableEq, Repr

def commitAppend (d : Db) (r : Nat) : Db × Nat :=
  let p := d.seq + 1
  ({ d with rows := d.rows ++ [(p, r)], seq := p }, p)

def commitSave (d : Db) (id off : Nat) : Db :=
  { d with subs := (id, off) :: d.subs.filter (fun q => q.1 != id) }

/-- `migrate`: creates the schema when the version is below 1, otherwise touches nothing -/
def migrate (d : Db) : Db := if d.version < 1 then { d with version := 1 } else d

def step (s : Db × Acked) : Op → Db × Acked
  | .append r =>
    let (d, p) := commitAppend s.1 r
    (d, { s.2 with appends := s.2.appends ++ [(r, p)] })
  | .save id off => (commitSave s.1 id off, { s.2 with saves := s.2.saves ++ [(id, off)] })
  | .killAppend r committed => (if committed then (commitAppend s.1 r).1 else s.1, s.2)
  | .killSave id off committed => (if committed then commitSave s.1 id off else s.1, s.2)
  | .kill => s
  | .close => s
  | .open => (migrate s.1, s.2)

def run (ops : List Op) : Db × Acked := ops.foldl step ({}, {})

def subOf (d : Db) (id : Nat) : Nat :=
  match d.subs.find? (fun q => q.1 == id) with
  | some q => q.2
  | none => 0

/-- the judgement the kill harness applies to what it finds after reopening: the recovered log
`recs` (records in position order, positions `poss`), given the acknowledged appends -/
def recoveredOk (ackedRecs : List Nat) (recs : List Nat) (poss : List Nat) (inflight : Option Nat) : Bool :=
  -- gap-free positions 1..n in order
  poss == (List.range recs.length).map (· + 1) &&
  -- every acknowledged event, in order, then at most the one in flight
  (recs == ackedRecs || (match inflight with | some r => recs == ackedRecs ++ [r] | none => false))

end Ebu.Durable

/-
M2w — the in-flight counter behind `EventBus.Wait` (event_bus.go `inflight`: a mutex, a condition
variable and a count; `add` in the publisher, `done` at the end of every async goroutine, `wait` =
`for n > 0 { cond.Wait() }`).

Every operation runs under the counter's mutex, so each is one atomic step.  A goroutine in
`cond.Wait()` is *parked* (on the condition variable's queue); a wake-up moves it to *woken*
(runnable, has to re-acquire the mutex), from where `resume` re-checks the loop condition.
How `done` wakes waiters when the count reaches zero is a parameter: the source says which
(`Ebu.Generated.Consts.inflightDoneWake`, regenerated on every run).
-/
namespace Ebu.Inflight

inductive Wake
  | broadcast     -- cond.Broadcast(): every parked waiter
  | signal        -- cond.Signal(): one parked waiter
  | none          -- no wake-up at all
deriving DecidableEq, Repr

structure St where
  n : Nat := 0
  parked : List Nat := []       -- goroutines blocked in cond.Wait()
  woken : List Nat := []        -- woken up, about to re-check `n > 0`
  returned : List Nat := []     -- goroutines whose Wait has returned
deriving Repr

inductive Op
  | add
  | done
  | wait (g : Nat)       -- goroutine g calls Wait
  | resume (g : Nat)     -- a woken goroutine gets the mutex back and re-checks
deriving Repr

def step (w : Wake) (s : St) : Op → St
  | .add => { s with n := s.n + 1 }
  | .done =>
    if s.n = 0 then s               -- unbalanced done: not produced by the bus (add precedes every done)
    else if s.n = 1 then
      match w with
      | .broadcast => { s with n := 0, parked := [], woken := s.woken ++ s.parked }
      | .signal =>
        match s.parked with
        | [] => { s with n := 0 }
        | g :: rest => { s with n := 0, parked := rest, woken := s.woken ++ [g] }
      | .none => { s with n := 0 }
    else { s with n := s.n - 1 }
  | .wait g =>
    if 0 < s.n then { s with parked := s.parked ++ [g] } else { s with returned := s.returned ++ [g] }
  | .resume g =>
    if g ∈ s.woken then
      if 0 < s.n then { s with woken := s.woken.erase g, parked := s.parked ++ [g] }
      else { s with woken := s.woken.erase g, returned := s.returned ++ [g] }
    else s

def run (w : Wake) (ops : List Op) : St := ops.foldl (step w) {}

/-- no lost wake-up: a goroutine is parked on the condition variable only while work is in flight -/
def NoLostWakeup (s : St) : Prop := s.parked ≠ [] → 0 < s.n

/-- with `Broadcast`, in every reachable state nobody is parked while nothing is in flight (so every
waiter is either parked with work in flight, or runnable, or has returned) -/
theorem broadcast_no_lost_wakeup (ops : List Op) : NoLostWakeup (run .broadcast ops) := by
  unfold run
  suffices h : ∀ s : St, NoLostWakeup s → NoLostWakeup (ops.foldl (step .broadcast) s) from
    h {} (by simp [NoLostWakeup])
  induction ops with
  | nil => intro s h; simpa using h
  | cons op ops ih =>
    intro s h
    apply ih
    unfold NoLostWakeup at *
    cases op with
    | add => simp only [step]; intro hp; have := h hp; omega
    | done =>
      simp only [step]
      split
      · exact h
      · split
        · simp
        · intro hp; have := h hp; simp at *; omega
    | wait g =>
      simp only [step]
      split
      · intro _; assumption
      · exact h
    | resume g =>
      simp only [step]
      split
      · split
        · intro _; assumption
        · exact h
      · exact h

/-- a waiter returns only in a state with nothing in flight (for every wake-up discipline: the loop
re-checks the count) -/
theorem returns_only_when_idle (w : Wake) (s : St) (op : Op) (g : Nat)
    (hnew : g ∈ (step w s op).returned) (hold : g ∉ s.returned) : s.n = 0 := by
  cases op with
  | add => simp [step] at hnew; exact absurd hnew hold
  | done =>
    simp only [step] at hnew
    split at hnew
    · exact absurd hnew hold
    · split at hnew
      · cases w <;> simp at hnew
        · exact absurd hnew hold
        · split at hnew <;> exact absurd hnew hold
        · exact absurd hnew hold
      · exact absurd hnew hold
  | wait g' =>
    simp only [step] at hnew
    split at hnew
    · exact absurd hnew hold
    · omega
  | resume g' =>
    simp only [step] at hnew
    split at hnew
    · split at hnew
      · exact absurd hnew hold
      · omega
    · exact absurd hnew hold

/-- the hypothesis on the wake-up discipline is needed: with `Signal`, two goroutines in `Wait`
and one finishing handler leave one of them parked for ever although nothing is in flight -/
theorem signal_loses_wakeup :
    ¬ NoLostWakeup (run .signal [.add, .wait 1, .wait 2, .done]) := by
  simp [NoLostWakeup, run, step]

/-- … and it stays parked whatever the woken one does -/
example : (run .signal [.add, .wait 1, .wait 2, .done, .resume 1]).parked = [2] ∧
    (run .signal [.add, .wait 1, .wait 2, .done, .resume 1]).returned = [1] := by
  simp [run, step]

/-- non-vacuity: with `Broadcast` both return -/
example : (run .broadcast [.add, .wait 1, .wait 2, .done, .resume 1, .resume 2]).returned = [1, 2] ∧
    (run .broadcast [.add, .wait 1, .wait 2, .done, .resume 1, .resume 2]).parked = [] := by
  simp [run, step]

end Ebu.Inflight

import Ebu.Spec.ConcTermination
import Ebu.Proofs.ConcTrace
/-!
Termination of the interleaving model M2 under the strict rank hypothesis: an explicit numeric potential
`Phi` (sum over the goroutines of `phi`) that every step decreases by at least one.

`phi` is parametrised by `w : Nat → Nat`, the price of one publish of an event type (everything its snapshot can
cause, in this goroutine and in the goroutines it spawns).  The only property of `w` the decrease needs is that a
snapshot taken *now* is paid for by `w` (`hsnap` of `stepR_pot`); the invariants `TInv` establish it for the concrete
`W ρ N B`, defined by recursion on the rank.
-/
namespace Ebu.Conc
open Ebu.Conc.Inv

namespace Term

/-! #### sums -/

theorem sum_le_length_mul {α : Type} (f : α → Nat) (c : Nat) (l : List α) (h : ∀ x ∈ l, f x ≤ c) :
    (l.map f).sum ≤ l.length * c := by
  induction l with
  | nil => simp
  | cons x xs ih =>
    have h1 := h x (by simp)
    have h2 := ih (fun y hy => h y (by simp [hy]))
    simp only [List.map_cons, List.sum_cons, List.length_cons, Nat.succ_mul]
    omega

theorem le_sum_of_mem {α : Type} (f : α → Nat) {l : List α} {a : α} (h : a ∈ l) : f a ≤ (l.map f).sum := by
  induction l with
  | nil => simp at h
  | cons x xs ih =>
    simp only [List.mem_cons] at h
    simp only [List.map_cons, List.sum_cons]
    rcases h with rfl | h
    · omega
    · have := ih h; omega

/-! #### the potential -/

section
variable (w : Nat → Nat)

/-- what is left of a handler body: every event costs its publish plus the steps around it -/
def bodyC (b : List (Nat × Nat)) : Nat := (b.map (fun p => w p.1 + 10)).sum

/-- one snapshot entry: filter, claim, spawn/lock, enter, the body, exit – and the whole goroutine if it is async -/
def eC (r : Reg) : Nat := 23 + bodyC w r.body

def restC (l : List Reg) : Nat := (l.map (eC w)).sum

def frameC (f : Frame) : Nat := 5 + restC w f.rest + bodyC w f.body

def framesC (l : List Frame) : Nat := (l.map (frameC w)).sum

def pcC (j : Option Job) : Pc → Nat
  | .op => 4
  | .snap => 3
  | .filter r => 22 + bodyC w r.body
  | .claimed r => 21 + bodyC w r.body
  | .spawn r _ _ => 20 + bodyC w r.body
  | .lock r _ => 6 + bodyC w r.body
  | .enter _ => 5
  | .exit _ => 3
  | .retire => 2
  | .retired => 1
  | .astart => match j with
    | some j => 13 + bodyC w j.reg.body
    | none => 0
  | .turn => match j with
    | some j => 12 + bodyC w j.reg.body
    | none => 0
  | .aend => 1
  | .done => 0

def opC : Op → Nat
  | .publish ty _ _ => w ty + 10
  | _ => 1

def progC (p : List Op) : Nat := (p.map (opC w)).sum

/-- the potential of one goroutine -/
def phi (th : Thread) : Nat := progC w th.prog + framesC w th.frames + pcC w th.job th.pc

@[simp] theorem bodyC_nil : bodyC w [] = 0 := rfl
@[simp] theorem bodyC_cons (p : Nat × Nat) (b : List (Nat × Nat)) : bodyC w (p :: b) = w p.1 + 10 + bodyC w b := by
  simp [bodyC]
@[simp] theorem restC_nil : restC w [] = 0 := rfl
@[simp] theorem restC_cons (r : Reg) (l : List Reg) : restC w (r :: l) = 23 + bodyC w r.body + restC w l := by
  simp [restC, eC]
@[simp] theorem restC_append (l l' : List Reg) : restC w (l ++ l') = restC w l + restC w l' := by
  simp [restC]
@[simp] theorem framesC_nil : framesC w [] = 0 := rfl
@[simp] theorem framesC_cons (f : Frame) (l : List Frame) :
    framesC w (f :: l) = 5 + restC w f.rest + bodyC w f.body + framesC w l := by
  simp [framesC, frameC]
@[simp] theorem progC_nil : progC w [] = 0 := rfl
@[simp] theorem progC_cons (op : Op) (p : List Op) : progC w (op :: p) = opC w op + progC w p := by
  simp [progC]

theorem opC_pos (op : Op) : 1 ≤ opC w op := by
  cases op <;> simp [opC]

theorem suf_restC {l : List Reg} {r : Reg} {l' : List Reg} (h : Suf l r l') :
    23 + bodyC w r.body + restC w l' ≤ restC w l := by
  obtain ⟨t, rfl⟩ := h
  simp only [restC_append, restC_cons]
  omega

/-- the dispatch loop: wherever it stops, what it leaves is bounded by `M` -/
theorem shape_pot {sh th f fs PF PC PG o} (h : Shape sh th f fs PF PC PG o) (M : Nat) (hM : 2 ≤ M)
    (hF : ∀ r l, PF r l → 22 + bodyC w r.body + restC w l ≤ M)
    (hC : ∀ r l, PC r l → 21 + bodyC w r.body + restC w l ≤ M)
    (hG : ∀ r l, PG r l → 20 + bodyC w r.body + restC w l ≤ M) :
    phi w o.th ≤ progC w th.prog + framesC w fs + 5 + bodyC w f.body + M := by
  cases h
  case ret => simp only [phi, pcC]; omega
  case retire => simp only [phi, pcC, framesC_cons, restC_nil]; omega
  case filter obs r rest' hp hf =>
    have := hF r rest' hp
    simp only [phi, pcC, framesC_cons]; omega
  case claimed obs r rest' hp ho hne hl =>
    have := hC r rest' hp
    simp only [phi, pcC, framesC_cons]; omega
  case spawn obs r rest' hp ha =>
    have := hG r rest' hp
    simp only [phi, pcC, framesC_cons]; omega
  case lock obs r rest' hp ha hs hl =>
    have := hG r rest' hp
    simp only [phi, pcC, framesC_cons]; omega
  case enter obs r rest' hp ha hs hl =>
    have := hG r rest' hp
    simp only [phi, pcC, framesC_cons]; omega

theorem dshape_pot {sh th f fs o} (h : DShape sh th f fs o) :
    phi w o.th ≤ progC w th.prog + framesC w fs + 5 + bodyC w f.body + (restC w f.rest + 2) := by
  refine shape_pot w h _ (by omega) ?_ ?_ ?_
  · intro r l hp; have := suf_restC w hp; omega
  · intro r l hp; have := suf_restC w hp; omega
  · intro r l hp; have := suf_restC w hp.1; omega

theorem fshape_pot {sh th f fs r0 o} (h : FShape sh th f fs r0 o) :
    phi w o.th ≤ progC w th.prog + framesC w fs + 5 + bodyC w f.body + (21 + bodyC w r0.body + restC w f.rest) := by
  refine shape_pot w h _ (by omega) ?_ ?_ ?_
  · intro r l hp; have := suf_restC w hp; omega
  · intro r l hp
    rcases hp with ⟨rfl, rfl⟩ | hp
    · omega
    · have := suf_restC w hp; omega
  · intro r l hp
    rcases hp.1 with ⟨rfl, rfl⟩ | hp
    · omega
    · have := suf_restC w hp; omega

theorem cshape_pot {sh th f fs r0 o} (h : CShape sh th f fs r0 o) :
    phi w o.th ≤ progC w th.prog + framesC w fs + 5 + bodyC w f.body + (20 + bodyC w r0.body + restC w f.rest) := by
  refine shape_pot w h _ (by omega) ?_ ?_ ?_
  · intro r l hp; have := suf_restC w hp; omega
  · intro r l hp; have := suf_restC w hp; omega
  · intro r l hp
    rcases hp with ⟨rfl, rfl⟩ | hp
    · omega
    · have := suf_restC w hp.1; omega

/-- every step of a goroutine costs at least one unit of potential, the goroutines it creates included -/
theorem stepR_pot {sh th o} (h : StepR sh th o)
    (hsnap : ∀ ty, restC w (sh.regs.filter (fun r => r.ty == ty)) ≤ w ty) :
    phi w o.th + wsum (phi w) o.new + 1 ≤ phi w th := by
  cases h
  case snap f fs hpc hfr hsh =>
    have := dshape_pot w hsh
    simp only [hsh.new_nil, wsum_nil]
    simp only [phi, hpc, hfr, pcC, framesC_cons] at this ⊢
    omega
  case filterAcc r f fs hpc hfr hacc hsh =>
    have := fshape_pot w hsh
    simp only [hsh.new_nil, wsum_nil]
    simp only [phi, hpc, hfr, pcC, framesC_cons] at this ⊢
    omega
  case filterRej r f fs hpc hfr hacc hsh =>
    have := dshape_pot w hsh
    simp only [hsh.new_nil, wsum_nil]
    simp only [phi, hpc, hfr, pcC, framesC_cons] at this ⊢
    omega
  case claimed r f fs hpc hfr hsh =>
    have := cshape_pot w hsh
    simp only [hsh.new_nil, wsum_nil]
    simp only [phi, hpc, hfr, pcC, framesC_cons] at this ⊢
    omega
  case spawn r n t f fs o hpc hfr hsh =>
    have := dshape_pot w hsh
    simp only [wsum_cons, wsum_nil]
    simp only [phi, hpc, hfr, pcC, framesC_cons, framesC_nil, progC_nil] at this ⊢
    omega
  case exit r f fs hpc hfr hj hsh =>
    have := dshape_pot w hsh
    simp only [hsh.new_nil, wsum_nil]
    simp only [phi, hpc, hfr, pcC, framesC_cons, bodyC_nil] at this ⊢
    omega
  case bodyPub f fs ty v more hpc hfr hb =>
    have := hsnap ty
    simp only [phi, hpc, hfr, hb, pcC, framesC_cons, bodyC_cons, bodyC_nil, newFrame, wsum_nil]
    omega
  case enterPub r f fs ty v more hpc hfr hb =>
    have := hsnap ty
    simp only [phi, hpc, hfr, hb, pcC, framesC_cons, bodyC_cons, bodyC_nil, newFrame, wsum_nil]
    omega
  case publish ty v ctx prog hpc hfr hp =>
    have := hsnap ty
    simp only [phi, hpc, hfr, hp, pcC, framesC_cons, framesC_nil, progC_cons, opC, bodyC_nil, newFrame, wsum_nil]
    omega
  case lock r a f fs hpc hfr hfree hl =>
    simp only [phi, hpc, hfr, pcC, framesC_cons, wsum_nil]
    omega
  case lockDeadJob r a j f hpc hj hfr hfree hl =>
    simp only [phi, hpc, hfr, pcC, framesC_cons, framesC_nil, wsum_nil]
    omega
  case lockDeadSync r a f fs hpc hfr hj hfree hl hsh =>
    have := dshape_pot w hsh
    simp only [hsh.new_nil, wsum_nil]
    simp only [phi, hpc, hfr, pcC, framesC_cons] at this ⊢
    omega
  case astartRun j hpc hj hs hl =>
    simp only [phi, hpc, hj, pcC, framesC_cons, framesC_nil, jobFrame, if_true, restC_nil, wsum_nil]
    omega
  case turnRun j hpc hj hturn hl =>
    simp only [phi, hpc, hj, pcC, framesC_cons, framesC_nil, jobFrame, Bool.false_eq_true, if_false, restC_nil,
      bodyC_nil, wsum_nil]
    omega
  case exitJob r j f hpc hj hfr =>
    simp only [phi, hpc, hfr, pcC, framesC_cons, framesC_nil, wsum_nil]
    omega
  case retired f fs hpc hfr =>
    simp only [phi, hpc, hfr, pcC, framesC_cons, wsum_nil]
    omega
  case retire f fs hpc hfr =>
    simp only [phi, hpc, hfr, pcC, framesC_cons, wsum_nil]
    omega
  case subscribe ty hid once async seq filt body prog hpc hfr hp =>
    simp only [phi, hpc, hfr, hp, pcC, progC_cons, opC, wsum_nil]; omega
  case unsubscribe ty hid prog hpc hfr hp =>
    simp only [phi, hpc, hfr, hp, pcC, progC_cons, opC, wsum_nil]; omega
  case clear ty prog hpc hfr hp =>
    simp only [phi, hpc, hfr, hp, pcC, progC_cons, opC, wsum_nil]; omega
  case cancel k prog hpc hfr hp =>
    simp only [phi, hpc, hfr, hp, pcC, progC_cons, opC, wsum_nil]; omega
  case count ty prog hpc hfr hp =>
    simp only [phi, hpc, hfr, hp, pcC, progC_cons, opC, wsum_nil]; omega
  case wait prog hpc hfr hp hidle =>
    simp only [phi, hpc, hfr, hp, pcC, progC_cons, opC, wsum_nil]; omega
  case bodyEnd f fs r hpc hfr hb hh =>
    simp only [phi, hpc, pcC, wsum_nil]; omega
  case enterEnd r f fs hpc hfr hb =>
    simp only [phi, hpc, pcC, wsum_nil]; omega
  case fin hpc hfr hp =>
    simp only [phi, hpc, pcC, wsum_nil]; omega
  case astartSeq j hpc hj hs =>
    simp only [phi, hpc, hj, pcC, wsum_nil]; omega
  case astartDead j hpc hj hs hl =>
    simp only [phi, hpc, hj, pcC, wsum_nil]; omega
  case turnDead j hpc hj hturn hl =>
    simp only [phi, hpc, hj, pcC, wsum_nil]; omega
  case aend hpc =>
    simp only [phi, hpc, pcC, wsum_nil]; omega

end

/-! #### the price of a publish, by recursion on the rank -/

/-- `E N B k` bounds the price of one snapshot entry of a type of rank at most `k`, when no registry holds more than `N`
registrations and no body is longer than `B` -/
def E (N B : Nat) : Nat → Nat
  | 0 => 23
  | k + 1 => 23 + B * (N * E N B k + 10)

/-- the price of one publish -/
def W (ρ : Nat → Nat) (N B : Nat) (ty : Nat) : Nat := N * E N B (ρ ty)

theorem E_le_succ (N B k : Nat) : E N B k ≤ E N B (k + 1) := by
  induction k with
  | zero => simp only [E]; omega
  | succ k ih =>
    have h1 : N * E N B k + 10 ≤ N * E N B (k + 1) + 10 := Nat.add_le_add_right (Nat.mul_le_mul_left N ih) 10
    have h2 := Nat.mul_le_mul_left B h1
    show E N B (k + 1) ≤ 23 + B * (N * E N B (k + 1) + 10)
    rw [show E N B (k + 1) = 23 + B * (N * E N B k + 10) from rfl] at h2 ⊢
    omega

theorem E_mono (N B : Nat) {i j : Nat} (h : i ≤ j) : E N B i ≤ E N B j := by
  induction h with
  | refl => exact Nat.le_refl _
  | step _ ih => exact Nat.le_trans ih (E_le_succ N B _)

/-- what the termination proof needs to know about a registration -/
def QR (ρ : Nat → Nat) (B : Nat) (r : Reg) : Prop := (∀ p ∈ r.body, ρ p.1 < ρ r.ty) ∧ r.body.length ≤ B

theorem eC_le {ρ : Nat → Nat} {N B : Nat} {r : Reg} (hq : QR ρ B r) : ∀ k, ρ r.ty ≤ k → eC (W ρ N B) r ≤ E N B k := by
  intro k hk
  cases k with
  | zero =>
    have : r.body = [] := by
      cases hb : r.body with
      | nil => rfl
      | cons p ps => have := hq.1 p (by simp [hb]); omega
    simp [eC, this, E]
  | succ k =>
    have h1 : bodyC (W ρ N B) r.body ≤ r.body.length * (N * E N B k + 10) := by
      apply sum_le_length_mul
      intro p hp
      have := hq.1 p hp
      have h2 : E N B (ρ p.1) ≤ E N B k := E_mono N B (by omega)
      have h3 := Nat.mul_le_mul_left N h2
      simp only [W]; omega
    have h4 := Nat.mul_le_mul_right (N * E N B k + 10) hq.2
    show 23 + bodyC (W ρ N B) r.body ≤ 23 + B * (N * E N B k + 10)
    omega

/-- a snapshot of a registry of at most `N` registrations, all from the program, is paid for by `W` -/
theorem snap_le {ρ : Nat → Nat} {N B : Nat} {regs : List Reg} (hq : ∀ r ∈ regs, QR ρ B r) (hN : regs.length ≤ N) (ty : Nat) :
    restC (W ρ N B) (regs.filter (fun r => r.ty == ty)) ≤ W ρ N B ty := by
  have h1 : restC (W ρ N B) (regs.filter (fun r => r.ty == ty)) ≤ (regs.filter (fun r => r.ty == ty)).length * E N B (ρ ty) := by
    apply sum_le_length_mul
    intro r hr
    simp only [List.mem_filter, beq_iff_eq] at hr
    exact eC_le (hq r hr.1) _ (by rw [hr.2]; exact Nat.le_refl _)
  have h2 : (regs.filter (fun r => r.ty == ty)).length ≤ N := Nat.le_trans (List.length_filter_le _ _) hN
  exact Nat.le_trans h1 (Nat.mul_le_mul_right _ h2)

/-! #### the invariants: every registration comes from the program, the registry is never larger than the program's
number of `Subscribe` calls -/

def isSub : Op → Bool
  | .subscribe .. => true
  | _ => false

def bodyLen : Op → Nat
  | .subscribe _ _ _ _ _ _ body => body.length
  | _ => 0

def subsIn (p : List Op) : Nat := p.countP isSub

def Nof (progs : List (List Op)) : Nat := (progs.map subsIn).sum

def Bof (progs : List (List Op)) : Nat := (progs.map (fun p => (p.map bodyLen).sum)).sum

theorem bodyLen_le {progs : List (List Op)} {p : List Op} {op : Op} (hp : p ∈ progs) (hop : op ∈ p) :
    bodyLen op ≤ Bof progs :=
  Nat.le_trans (le_sum_of_mem bodyLen hop) (le_sum_of_mem (fun p => (p.map bodyLen).sum) hp)

structure TInv (ρ : Nat → Nat) (progs : List (List Op)) (s : Sys) : Prop where
  regs : ∀ r ∈ s.sh.regs, QR ρ (Bof progs) r
  prog : ∀ th ∈ s.ths, ∀ op ∈ th.prog, ∃ p ∈ progs, op ∈ p
  cnt : s.sh.regs.length + wsum (fun th => subsIn th.prog) s.ths ≤ Nof progs

theorem shape_prog {sh th f fs PF PC PG o} (h : Shape sh th f fs PF PC PG o) : o.th.prog = th.prog := by
  cases h <;> rfl

/-- what a step does to the registry and to the program of the goroutine -/
theorem stepR_eff {sh th o} (h : StepR sh th o) :
    ((o.sh.regs.Sublist sh.regs ∧ ∃ pre, th.prog = pre ++ o.th.prog) ∨
     (∃ ty hid once async seq filt body, th.prog = .subscribe ty hid once async seq filt body :: o.th.prog ∧
        o.sh.regs = sh.regs ++ [⟨sh.nextRid, ty, hid, once, async, seq, filt, body⟩])) ∧
    ∀ t ∈ o.new, t.prog = [] := by
  cases h
  case subscribe ty hid once async seq filt body prog hpc hfr hp =>
    exact ⟨.inr ⟨ty, hid, once, async, seq, filt, body, hp, rfl⟩, by simp⟩
  case unsubscribe ty hid prog hpc hfr hp => exact ⟨.inl ⟨eraseFirst_sublist _ _, [.unsubscribe ty hid], by simp [hp]⟩, by simp⟩
  case clear ty prog hpc hfr hp => exact ⟨.inl ⟨List.filter_sublist, [.clear ty], by simp [hp]⟩, by simp⟩
  case cancel k prog hpc hfr hp => exact ⟨.inl ⟨List.Sublist.refl _, [.cancel k], by simp [hp]⟩, by simp⟩
  case count ty prog hpc hfr hp => exact ⟨.inl ⟨List.Sublist.refl _, [.count ty], by simp [hp]⟩, by simp⟩
  case wait prog hpc hfr hp hidle => exact ⟨.inl ⟨List.Sublist.refl _, [.wait], by simp [hp]⟩, by simp⟩
  case publish ty v ctx prog hpc hfr hp => exact ⟨.inl ⟨List.Sublist.refl _, [.publish ty v ctx], by simp [hp]⟩, by simp⟩
  case retire f fs hpc hfr => exact ⟨.inl ⟨retire_sublist _ _, [], by simp⟩, by simp⟩
  case snap f fs hpc hfr hsh =>
    exact ⟨.inl ⟨by rw [hsh.regs_eq.1]; exact List.Sublist.refl _, [], by simp [shape_prog hsh]⟩, by simp [hsh.new_nil]⟩
  case filterAcc r f fs hpc hfr hacc hsh =>
    exact ⟨.inl ⟨by rw [hsh.regs_eq.1]; exact List.Sublist.refl _, [], by simp [shape_prog hsh]⟩, by simp [hsh.new_nil]⟩
  case filterRej r f fs hpc hfr hacc hsh =>
    exact ⟨.inl ⟨by rw [hsh.regs_eq.1]; exact List.Sublist.refl _, [], by simp [shape_prog hsh]⟩, by simp [hsh.new_nil]⟩
  case claimed r f fs hpc hfr hsh =>
    exact ⟨.inl ⟨by rw [hsh.regs_eq.1]; exact List.Sublist.refl _, [], by simp [shape_prog hsh]⟩, by simp [hsh.new_nil]⟩
  case spawn r n t f fs o hpc hfr hsh =>
    exact ⟨.inl ⟨by simp only; rw [hsh.regs_eq.1]; exact List.Sublist.refl _, [], by simp [shape_prog hsh]⟩, by simp⟩
  case exit r f fs hpc hfr hj hsh =>
    exact ⟨.inl ⟨by rw [hsh.regs_eq.1]; exact List.Sublist.refl _, [], by simp [shape_prog hsh]⟩, by simp [hsh.new_nil]⟩
  case lockDeadSync r a f fs hpc hfr hj hfree hl hsh =>
    exact ⟨.inl ⟨by rw [hsh.regs_eq.1]; exact List.Sublist.refl _, [], by simp [shape_prog hsh]⟩, by simp [hsh.new_nil]⟩
  all_goals exact ⟨.inl ⟨by simp, [], by simp⟩, by simp⟩

theorem subsIn_append (p q : List Op) : subsIn (p ++ q) = subsIn p + subsIn q := by
  simp [subsIn]

theorem wsum_init_prog (w : List Op → Nat) (progs : List (List Op)) :
    wsum (fun th => w th.prog) (initSys progs).ths = (progs.map w).sum := by
  simp only [initSys]
  induction progs with
  | nil => rfl
  | cons p ps ih => simp [ih]

theorem tInv_reachable {ρ : Nat → Nat} {progs : List (List Op)} (hr : RankedStrict ρ progs) :
    ∀ s, Reachable progs s → TInv ρ progs s := by
  apply reach_ind
  · refine ⟨by simp [initSys], ?_, ?_⟩
    · intro th hth op hop
      simp only [initSys, List.mem_map] at hth
      obtain ⟨p, hp, rfl⟩ := hth
      exact ⟨p, hp, hop⟩
    · rw [wsum_init_prog subsIn progs]
      simp [initSys, Nof]
  · intro s i th o _ ⟨regs, prog, cnt⟩ hth hR
    have hmem := List.mem_of_getElem? hth
    obtain ⟨heff, hnew⟩ := stepR_eff hR
    have hws := wsum_step (fun th => subsIn th.prog) o.th o.new hth
    have hnew0 : wsum (fun th => subsIn th.prog) o.new = 0 :=
      wsum_zero (fun t ht => by simp [hnew t ht, subsIn])
    rcases heff with ⟨hsub, pre, hpre⟩ | ⟨ty, hid, once, async, seq, filt, body, hpre, hregs⟩
    · refine ⟨fun r hr' => regs r (hsub.subset hr'), ?_, ?_⟩
      · intro t ht op hop
        rcases mem_step_cases ht with ht | rfl | ht
        · exact prog t ht op hop
        · exact prog th hmem op (by rw [hpre]; simp [hop])
        · rw [hnew t ht] at hop; simp at hop
      · have h1 := hsub.length_le
        have h2 : subsIn th.prog = subsIn pre + subsIn o.th.prog := by rw [hpre, subsIn_append]
        simp only at hws h2 ⊢
        omega
    · have hop : Op.subscribe ty hid once async seq filt body ∈ th.prog := by rw [hpre]; simp
      obtain ⟨p, hp, hopp⟩ := prog th hmem _ hop
      refine ⟨?_, ?_, ?_⟩
      · intro r hr'
        simp only [hregs, List.mem_append, List.mem_singleton] at hr'
        rcases hr' with hr' | rfl
        · exact regs r hr'
        · exact ⟨hr p hp _ hopp, bodyLen_le hp hopp⟩
      · intro t ht op hop'
        rcases mem_step_cases ht with ht | rfl | ht
        · exact prog t ht op hop'
        · exact prog th hmem op (by rw [hpre]; simp [hop'])
        · rw [hnew t ht] at hop'; simp at hop'
      · have h2 : subsIn th.prog = 1 + subsIn o.th.prog := by
          rw [hpre]; simp [subsIn, isSub, List.countP_cons]; omega
        simp only [hregs, List.length_append, List.length_singleton] at hws h2 ⊢
        omega

/-! #### the potential of the system -/

def Phi (ρ : Nat → Nat) (progs : List (List Op)) (s : Sys) : Nat := wsum (phi (W ρ (Nof progs) (Bof progs))) s.ths

theorem stepAt_pot {ρ : Nat → Nat} {progs : List (List Op)} (hr : RankedStrict ρ progs) {s s' : Sys} {i : Nat}
    (h : Reachable progs s) (hst : s.stepAt i = some s') : Phi ρ progs s' + 1 ≤ Phi ρ progs s := by
  obtain ⟨th, o, hth, hR, rfl⟩ := stepAt_cases hst
  obtain ⟨regs, _, cnt⟩ := tInv_reachable hr s h
  have hp := stepR_pot (W ρ (Nof progs) (Bof progs)) hR (snap_le regs (by omega))
  have hws := wsum_step (phi (W ρ (Nof progs) (Bof progs))) o.th o.new hth
  simp only [Phi]
  omega

end Term

open Term

theorem runSched_reachable {progs : List (List Op)} {sched : List Nat} {s s' : Sys}
    (h : Reachable progs s) (hrun : runSched s sched = some s') : Reachable progs s' := by
  induction sched generalizing s with
  | nil => simp only [runSched, Option.some.injEq] at hrun; exact hrun ▸ h
  | cons i is ih =>
    simp only [runSched] at hrun
    cases hst : s.stepAt i with
    | none => simp [hst] at hrun
    | some s1 => rw [hst] at hrun; exact ih (.step h hst) hrun

/-- a strict rank is a rank in the sense of the deadlock-freedom theorem -/
theorem rankedStrict_ranked (ρ : Nat → Nat) (progs : List (List Op)) (hr : RankedStrict ρ progs) : Ranked ρ progs := by
  intro p hp op hop
  have := hr p hp op hop
  cases op <;> simp only [RankedOp]
  rename_i ty hid once async seq filt body
  intro q hq
  have := this q hq
  exact ⟨Nat.le_of_lt this, fun _ _ => this⟩

theorem runSched_pot {ρ : Nat → Nat} {progs : List (List Op)} (hr : RankedStrict ρ progs) {sched : List Nat} {s s' : Sys}
    (h : Reachable progs s) (hrun : runSched s sched = some s') : sched.length + Phi ρ progs s' ≤ Phi ρ progs s := by
  induction sched generalizing s with
  | nil => simp only [runSched, Option.some.injEq] at hrun; subst hrun; simp
  | cons i is ih =>
    simp only [runSched] at hrun
    cases hst : s.stepAt i with
    | none => simp [hst] at hrun
    | some s1 =>
      rw [hst] at hrun
      have h1 := ih (.step h hst) hrun
      have h2 := stepAt_pot hr h hst
      simp only [List.length_cons]
      omega

/-- TERMINATION: under the strict rank hypothesis every schedule is finite – there is a bound, depending only on the
program, on the number of steps any schedule can take -/
theorem runs_terminate (ρ : Nat → Nat) (progs : List (List Op)) (hr : RankedStrict ρ progs) :
    ∃ bound : Nat, ∀ (sched : List Nat) (s : Sys), runSched (initSys progs) sched = some s → sched.length ≤ bound := by
  refine ⟨Phi ρ progs (initSys progs), ?_⟩
  intro sched s hrun
  have := runSched_pot hr .init hrun
  omega

/-- hence EVERY run can be continued to the end, and the end is quiescent: from every reachable state some schedule
leads to a state in which every goroutine has finished and nothing is in flight (with termination: whatever the
scheduler does, `Wait` returns and every goroutine finishes after finitely many steps) -/
theorem every_run_completes (ρ : Nat → Nat) (progs : List (List Op)) (hr : RankedStrict ρ progs)
    (s : Sys) (h : Reachable progs s) :
    ∃ (sched : List Nat) (s' : Sys), runSched s sched = some s' ∧ s'.allDone ∧ s'.sh.inflight = 0 := by
  have key : ∀ n, ∀ s, Reachable progs s → Phi ρ progs s ≤ n →
      ∃ (sched : List Nat) (s' : Sys), runSched s sched = some s' ∧ s'.allDone ∧ s'.sh.inflight = 0 := by
    intro n
    induction n with
    | zero =>
      intro s h hn
      have hno : ¬ s.canStep := by
        rintro ⟨i, s1, hst⟩
        have := stepAt_pot hr h hst
        omega
      have hdone : s.allDone := by
        intro th hth
        apply Classical.byContradiction
        intro hne
        exact hno (deadlock_free ρ progs (rankedStrict_ranked ρ progs hr) s h ⟨th, hth, hne⟩)
      refine ⟨[], s, rfl, hdone, ?_⟩
      rw [infl_reachable s h]
      apply wsum_zero
      intro t ht
      simp [wInfl, hdone t ht, isSpawn]
    | succ n ih =>
      intro s h hn
      by_cases hc : s.canStep
      · obtain ⟨i, s1, hst⟩ := hc
        have hp := stepAt_pot hr h hst
        obtain ⟨sched, s', hrun, hd, hi⟩ := ih s1 (.step h hst) (by omega)
        exact ⟨i :: sched, s', by simp [runSched, hst, hrun], hd, hi⟩
      · have hdone : s.allDone := by
          intro th hth
          apply Classical.byContradiction
          intro hne
          exact hc (deadlock_free ρ progs (rankedStrict_ranked ρ progs hr) s h ⟨th, hth, hne⟩)
        refine ⟨[], s, rfl, hdone, ?_⟩
        rw [infl_reachable s h]
        apply wsum_zero
        intro t ht
        simp [wInfl, hdone t ht, isSpawn]
  exact key _ s h (Nat.le_refl _)

end Ebu.Conc

import Ebu.Spec.Resume
/-!
C12 — a resumable subscription sees each event of its type once across restarts.
-/
namespace Ebu.Resume

namespace Aux

def bump (s : RS) : RS := { s with nops := s.nops + 1 }
def deliver (s : RS) (id r : Nat) : RS := { s with delivered := s.delivered ++ [(id, r)] }
def app (s : RS) (ty r : Nat) : RS := { s with log := s.log ++ [(ty, r)], last := s.log.length + 1 }
def cd (c : Bool) (s : RS) : RS := if c then die s else s
def sv (f : Bool) (s : RS) (id off : Nat) : RS := if f then s else save s id off
def failsAt (p : Plan) (s : RS) : Bool := p.failAt == some (s.nops + 1)
def crashAt (p : Plan) (s : RS) : Bool := p.crashAfter == some (s.nops + 1)

theorem deliverAndSave_eq (p : Plan) (s : RS) (id r off : Nat) :
    deliverAndSave p s id r off =
      if off = 0 then deliver s id r
      else cd (crashAt p s) (sv (failsAt p s) (bump (deliver s id r)) id off) := rfl

def pstep (p : Plan) (ty r : Nat) (s : RS) (l : Nat × Nat) : RS :=
  if s.dead || l.2 != ty then s else deliverAndSave p s l.1 r s.last

theorem publish_eq (p : Plan) (s : RS) (ty r : Nat) :
    publish p s ty r =
      let s2 := if failsAt p s then bump s else app (bump s) ty r
      if crashAt p s then die s2 else s2.live.foldl (pstep p ty r) s2 := rfl

def nest (p : Plan) (pd : Option (Nat × Nat)) (first : Bool) (s : RS) : RS :=
  match (if first then pd else none) with
  | some (t', r') => publish p s t' r'
  | none => s

def fin (p : Plan) (id off : Nat) (s : RS) : RS :=
  if s.dead then s else cd (crashAt p s) (sv (failsAt p s) (bump s) id off)

def rstep (p : Plan) (id ty : Nat) (pd : Option (Nat × Nat)) (acc : RS × Bool) (e : Nat × Nat × Nat) : RS × Bool :=
  if acc.1.dead || e.2.1 != ty then acc
  else (fin p id e.1 (nest p pd acc.2 (deliver acc.1 id e.2.2)), false)

def rstep0 (p : Plan) (id ty : Nat) (pd : Option (Nat × Nat)) (acc : RS × Bool) (e : Nat × Nat × Nat) : RS × Bool :=
  if acc.1.dead || e.2.1 != ty then acc
  else
    let s2 := nest p pd acc.2 (deliver acc.1 id e.2.2)
    if s2.dead then (s2, false)
    else (cd (crashAt p s2) (sv (failsAt p s2) (bump s2) id e.1), false)

theorem rstep0_eq (p : Plan) (id ty : Nat) (pd : Option (Nat × Nat)) : rstep0 p id ty pd = rstep p id ty pd := by
  funext acc e
  unfold rstep0 rstep fin
  split
  · rfl
  · simp only []; split <;> rfl

theorem subscribe_eq0 (p : Plan) (s : RS) (id ty : Nat) (pd : Option (Nat × Nat)) :
    subscribe p s id ty pd =
      if crashAt p s then die (bump s)
      else if failsAt p s then { bump s with errs := s.errs ++ [id] }
      else
        let s1 := bump s
        if crashAt p s1 then die (bump s1)
        else if failsAt p s1 then { bump s1 with errs := s1.errs ++ [id] }
        else
          let s2 := ((eventsAfter s.log (savedOf s id)).foldl (rstep0 p id ty pd) (bump s1, true)).1
          if s2.dead then s2 else { s2 with live := s2.live ++ [(id, ty)] } := by
  rfl

def err (s : RS) (id : Nat) : RS := { s with errs := s.errs ++ [id] }
def addLive (s : RS) (id ty : Nat) : RS := { s with live := s.live ++ [(id, ty)] }

theorem subscribe_eq (p : Plan) (s : RS) (id ty : Nat) (pd : Option (Nat × Nat)) :
    subscribe p s id ty pd =
      if crashAt p s then die (bump s)
      else if failsAt p s then err (bump s) id
      else
        if crashAt p (bump s) then die (bump (bump s))
        else if failsAt p (bump s) then err (bump (bump s)) id
        else
          let s2 := ((eventsAfter s.log (savedOf s id)).foldl (rstep p id ty pd) (bump (bump s), true)).1
          if s2.dead then s2 else addLive s2 id ty := by
  rw [subscribe_eq0, rstep0_eq]; rfl

def evsFrom : Nat → List (Nat × Nat) → List (Nat × Nat × Nat)
  | _, [] => []
  | k, e :: l => (k + 1, e.1, e.2) :: evsFrom (k + 1) l

theorem evs_aux (f : Nat) : ∀ (l : List (Nat × Nat)) (k : Nat),
    ((List.range' k l.length).zip l).filterMap
      (fun (x : Nat × Nat × Nat) => if f < x.1 + 1 then some (x.1 + 1, x.2.1, x.2.2) else none)
      = evsFrom (max f k) (l.drop (f - k)) := by
  intro l
  induction l with
  | nil => intro k; simp [evsFrom]
  | cons e l ih =>
    intro k
    simp only [List.length_cons, List.range'_succ, List.zip_cons_cons, List.filterMap_cons]
    by_cases h : f < k + 1
    · have h1 : f - k = 0 := by omega
      have h2 : max f k = k := by omega
      have h3 : max f (k+1) = k + 1 := by omega
      have h4 : f - (k+1) = 0 := by omega
      simp only [h, if_true, ih (k+1), h1, h2, h3, h4, List.drop_zero, evsFrom]
    · have h1 : f - k = (f - (k+1)) + 1 := by omega
      have h2 : max f k = max f (k+1) := by omega
      simp only [h, if_false, ih (k+1), h1, h2, List.drop_succ_cons]

theorem eventsAfter_eq (log : List (Nat × Nat)) (f : Nat) :
    eventsAfter log f = evsFrom f (log.drop f) := by
  have := evs_aux f log 0
  simp only [Nat.sub_zero, Nat.max_zero] at this
  rw [← this]
  simp only [eventsAfter, List.range_eq_range']


/-! ### saved offsets stay within the log -/

def W (s : RS) : Prop := (∀ q ∈ s.saved, q.2 ≤ s.log.length) ∧ s.last ≤ s.log.length

theorem savedOf_le_of_W {s : RS} (h : W s) (id : Nat) : savedOf s id ≤ s.log.length := by
  unfold savedOf
  cases hf : s.saved.find? (fun p => p.1 == id) with
  | none => simp
  | some q => exact h.1 q (List.mem_of_find?_eq_some hf)

theorem W_bump {s : RS} (h : W s) : W (bump s) := h
theorem W_deliver {s : RS} (h : W s) (id r : Nat) : W (deliver s id r) := h
theorem W_die {s : RS} (h : W s) : W (die s) := ⟨h.1, Nat.zero_le _⟩
theorem W_cd {s : RS} (h : W s) (c : Bool) : W (cd c s) := by
  unfold cd; split
  · exact W_die h
  · exact h
theorem W_save {s : RS} (h : W s) (id off : Nat) (ho : off ≤ s.log.length) : W (save s id off) := by
  refine ⟨?_, h.2⟩
  intro q hq
  simp only [save, List.mem_cons, List.mem_filter] at hq
  rcases hq with rfl | ⟨hq, _⟩
  · exact ho
  · exact h.1 q hq
theorem W_sv {s : RS} (h : W s) (f : Bool) (id off : Nat) (ho : off ≤ s.log.length) : W (sv f s id off) := by
  unfold sv; split
  · exact h
  · exact W_save h id off ho
theorem W_app {s : RS} (h : W s) (ty r : Nat) : W (app s ty r) := by
  refine ⟨?_, ?_⟩
  · intro q hq
    have := h.1 q hq
    simp only [app, List.length_append, List.length_cons, List.length_nil]
    omega
  · simp [app]

@[simp] theorem log_bump (s : RS) : (bump s).log = s.log := rfl
@[simp] theorem log_deliver (s : RS) (id r : Nat) : (deliver s id r).log = s.log := rfl
@[simp] theorem log_die (s : RS) : (die s).log = s.log := rfl
@[simp] theorem log_save (s : RS) (id off : Nat) : (save s id off).log = s.log := rfl
@[simp] theorem log_cd (c : Bool) (s : RS) : (cd c s).log = s.log := by unfold cd; split <;> rfl
@[simp] theorem log_sv (f : Bool) (s : RS) (id off : Nat) : (sv f s id off).log = s.log := by
  unfold sv; split <;> rfl
@[simp] theorem log_app (s : RS) (ty r : Nat) : (app s ty r).log = s.log ++ [(ty, r)] := rfl

theorem log_deliverAndSave (p : Plan) (s : RS) (id r off : Nat) :
    (deliverAndSave p s id r off).log = s.log := by
  rw [deliverAndSave_eq]; split <;> simp

theorem W_deliverAndSave {s : RS} (h : W s) (p : Plan) (id r off : Nat) (ho : off ≤ s.log.length) :
    W (deliverAndSave p s id r off) := by
  rw [deliverAndSave_eq]; split
  · exact W_deliver h id r
  · exact W_cd (W_sv (W_bump (W_deliver h id r)) _ id off ho) _

theorem W_pstep {s : RS} (h : W s) (p : Plan) (ty r : Nat) (l : Nat × Nat) :
    W (pstep p ty r s l) ∧ (pstep p ty r s l).log = s.log := by
  unfold pstep; split
  · exact ⟨h, rfl⟩
  · exact ⟨W_deliverAndSave h p _ r _ h.2, log_deliverAndSave ..⟩

theorem W_pfold (p : Plan) (ty r : Nat) : ∀ (L : List (Nat × Nat)) (s : RS), W s →
    W (L.foldl (pstep p ty r) s) ∧ (L.foldl (pstep p ty r) s).log = s.log := by
  intro L
  induction L with
  | nil => intro s h; exact ⟨h, rfl⟩
  | cons l L ih =>
    intro s h
    have h1 := W_pstep h p ty r l
    have h2 := ih _ h1.1
    exact ⟨h2.1, h2.2.trans h1.2⟩

theorem W_publish {s : RS} (h : W s) (p : Plan) (ty r : Nat) :
    W (publish p s ty r) ∧ s.log.length ≤ (publish p s ty r).log.length := by
  rw [publish_eq]
  have hs2 : W (if failsAt p s then bump s else app (bump s) ty r) ∧
      s.log.length ≤ (if failsAt p s then bump s else app (bump s) ty r).log.length := by
    split
    · exact ⟨W_bump h, Nat.le_refl _⟩
    · exact ⟨W_app (W_bump h) ty r, by simp⟩
  generalize (if failsAt p s then bump s else app (bump s) ty r) = s2 at hs2
  simp only []
  split
  · exact ⟨W_die hs2.1, hs2.2⟩
  · have := W_pfold p ty r s2.live s2 hs2.1
    exact ⟨this.1, by rw [this.2]; exact hs2.2⟩

theorem W_nest {s : RS} (h : W s) (p : Plan) (pd : Option (Nat × Nat)) (first : Bool) :
    W (nest p pd first s) ∧ s.log.length ≤ (nest p pd first s).log.length := by
  unfold nest; split
  · exact W_publish h p _ _
  · exact ⟨h, Nat.le_refl _⟩

theorem W_fin {s : RS} (h : W s) (p : Plan) (id off : Nat) (ho : off ≤ s.log.length) :
    W (fin p id off s) ∧ (fin p id off s).log = s.log := by
  unfold fin; split
  · exact ⟨h, rfl⟩
  · exact ⟨W_cd (W_sv (W_bump h) _ _ _ ho) _, by simp⟩

theorem W_rstep (p : Plan) (id ty : Nat) (pd : Option (Nat × Nat)) (acc : RS × Bool) (e : Nat × Nat × Nat)
    (h : W acc.1) (he : e.1 ≤ acc.1.log.length) :
    W (rstep p id ty pd acc e).1 ∧ acc.1.log.length ≤ (rstep p id ty pd acc e).1.log.length := by
  unfold rstep; split
  · exact ⟨h, Nat.le_refl _⟩
  · have h1 := W_nest (W_deliver h id e.2.2) p pd acc.2
    have h2 := W_fin h1.1 p id e.1 (Nat.le_trans he h1.2)
    exact ⟨h2.1, by rw [h2.2]; exact h1.2⟩

theorem W_rfold (p : Plan) (id ty : Nat) (pd : Option (Nat × Nat)) :
    ∀ (evs : List (Nat × Nat × Nat)) (acc : RS × Bool), W acc.1 → (∀ e ∈ evs, e.1 ≤ acc.1.log.length) →
      W (evs.foldl (rstep p id ty pd) acc).1 := by
  intro evs
  induction evs with
  | nil => intro acc h _; exact h
  | cons e evs ih =>
    intro acc h he
    have h1 := W_rstep p id ty pd acc e h (he e (List.mem_cons_self ..))
    exact ih _ h1.1 (fun e' he' => Nat.le_trans (he e' (List.mem_cons_of_mem _ he')) h1.2)

theorem mem_evsFrom : ∀ (l : List (Nat × Nat)) (k : Nat) (e : Nat × Nat × Nat),
    e ∈ evsFrom k l → k < e.1 ∧ e.1 ≤ k + l.length := by
  intro l
  induction l with
  | nil => intro k e h; simp [evsFrom] at h
  | cons x l ih =>
    intro k e h
    simp only [evsFrom, List.mem_cons] at h
    rcases h with rfl | h
    · simp
    · have := ih _ _ h
      simp only [List.length_cons]; omega

theorem mem_eventsAfter {log : List (Nat × Nat)} {f : Nat} {e : Nat × Nat × Nat}
    (h : e ∈ eventsAfter log f) : f < e.1 ∧ e.1 ≤ log.length := by
  rw [eventsAfter_eq] at h
  have := mem_evsFrom _ _ _ h
  simp only [List.length_drop] at this
  omega

theorem W_subscribe {s : RS} (h : W s) (p : Plan) (id ty : Nat) (pd : Option (Nat × Nat)) :
    W (subscribe p s id ty pd) := by
  rw [subscribe_eq]
  split
  · exact W_die (W_bump h)
  split
  · exact h
  split
  · exact W_die (W_bump (W_bump h))
  split
  · exact h
  simp only []
  have := W_rfold p id ty pd (eventsAfter s.log (savedOf s id)) (bump (bump s), true) h
    (fun e he => (mem_eventsAfter he).2)
  split
  · exact this
  · exact this

theorem W_stepOp {s : RS} (h : W s) (p : Plan) (op : ROp) : W (stepOp p s op) := by
  cases op with
  | publish ty r => exact (W_publish h p ty r).1
  | subscribe id ty pd => exact W_subscribe h p id ty pd
  | restart => exact ⟨h.1, Nat.zero_le _⟩

theorem W_foldl (p : Plan) : ∀ (ops : List ROp) (s : RS), W s → W (ops.foldl (stepOp p) s) := by
  intro ops
  induction ops with
  | nil => intro s h; exact h
  | cons op ops ih => intro s h; exact ih _ (W_stepOp h p op)

theorem W_run (p : Plan) (ops : List ROp) : W (run p ops) :=
  W_foldl p ops _ ⟨by simp, by simp⟩


/-! ### projections of the primitive state transformers -/

def liveOf (s : RS) (id : Nat) : List (Nat × Nat) := s.live.filter (fun l => l.1 == id)

theorem isLive_eq (s : RS) (id : Nat) : isLive s id = !(liveOf s id).isEmpty := by
  unfold isLive liveOf
  induction s.live with
  | nil => rfl
  | cons l L ih =>
    simp only [List.any_cons, List.filter_cons]
    cases h : l.1 == id <;> simp [ih]

theorem deliveredTo_deliver (s : RS) (i r id : Nat) :
    deliveredTo (deliver s i r) id = deliveredTo s id ++ (if i == id then [r] else []) := by
  simp only [deliveredTo, deliver, List.filter_append, List.map_append, List.filter_cons, List.filter_nil]
  cases h : i == id <;> simp

@[simp] theorem deliveredTo_bump (s : RS) (id : Nat) : deliveredTo (bump s) id = deliveredTo s id := rfl
@[simp] theorem deliveredTo_save (s : RS) (i off id : Nat) : deliveredTo (save s i off) id = deliveredTo s id := rfl
@[simp] theorem deliveredTo_die (s : RS) (id : Nat) : deliveredTo (die s) id = deliveredTo s id := rfl
@[simp] theorem deliveredTo_app (s : RS) (ty r id : Nat) : deliveredTo (app s ty r) id = deliveredTo s id := rfl
@[simp] theorem deliveredTo_err (s : RS) (i id : Nat) : deliveredTo (err s i) id = deliveredTo s id := rfl
@[simp] theorem deliveredTo_addLive (s : RS) (i t id : Nat) : deliveredTo (addLive s i t) id = deliveredTo s id := rfl
@[simp] theorem deliveredTo_cd (c : Bool) (s : RS) (id : Nat) : deliveredTo (cd c s) id = deliveredTo s id := by
  unfold cd; split <;> rfl
@[simp] theorem deliveredTo_sv (f : Bool) (s : RS) (i off id : Nat) :
    deliveredTo (sv f s i off) id = deliveredTo s id := by
  unfold sv; split <;> rfl

theorem find_filter_ne (i id : Nat) (h : (i == id) = false) : ∀ (l : List (Nat × Nat)),
    (l.filter (fun p => p.1 != i)).find? (fun p => p.1 == id) = l.find? (fun p => p.1 == id) := by
  intro l
  induction l with
  | nil => rfl
  | cons q l ih =>
    simp only [List.filter_cons]
    by_cases hq : q.1 = i
    · have h1 : (q.1 != i) = false := by simp [hq]
      have h2 : (q.1 == id) = false := by rw [hq]; exact h
      simp only [h1, Bool.false_eq_true, if_false, List.find?_cons, h2]
      exact ih
    · have h1 : (q.1 != i) = true := by simp [hq]
      simp only [h1, if_true, List.find?_cons, ih]

theorem savedOf_save (s : RS) (i off id : Nat) :
    savedOf (save s i off) id = if i == id then off else savedOf s id := by
  unfold savedOf save
  simp only [List.find?_cons]
  cases h : i == id
  · simp only [find_filter_ne i id h]; simp
  · simp

@[simp] theorem savedOf_bump (s : RS) (id : Nat) : savedOf (bump s) id = savedOf s id := rfl
@[simp] theorem savedOf_deliver (s : RS) (i r id : Nat) : savedOf (deliver s i r) id = savedOf s id := rfl
@[simp] theorem savedOf_die (s : RS) (id : Nat) : savedOf (die s) id = savedOf s id := rfl
@[simp] theorem savedOf_app (s : RS) (ty r id : Nat) : savedOf (app s ty r) id = savedOf s id := rfl
@[simp] theorem savedOf_err (s : RS) (i id : Nat) : savedOf (err s i) id = savedOf s id := rfl
@[simp] theorem savedOf_addLive (s : RS) (i t id : Nat) : savedOf (addLive s i t) id = savedOf s id := rfl
@[simp] theorem savedOf_cd (c : Bool) (s : RS) (id : Nat) : savedOf (cd c s) id = savedOf s id := by
  unfold cd; split <;> rfl

theorem failsAt_none (s : RS) : failsAt {} s = false := rfl
theorem crashAt_none (s : RS) : crashAt {} s = false := rfl

theorem typed_append (l1 l2 : List (Nat × Nat)) (T : Nat) : typed (l1 ++ l2) T = typed l1 T ++ typed l2 T := by
  simp [typed, List.filter_append]

theorem typed_single (e : Nat × Nat) (T : Nat) : typed [e] T = if e.1 == T then [e.2] else [] := by
  simp only [typed, List.filter_cons, List.filter_nil]
  cases e.1 == T <;> rfl

/-! ### fault-free runs -/

theorem pstep0 (ty r id : Nat) (s : RS) (l : Nat × Nat) (hd : s.dead = false) (hl : s.last = s.log.length)
    (h0 : s.last ≠ 0) :
    let s1 := pstep {} ty r s l
    s1.dead = false ∧ s1.log = s.log ∧ s1.last = s.last ∧ s1.live = s.live ∧
    deliveredTo s1 id = deliveredTo s id ++ (if l.1 == id && l.2 == ty then [r] else []) ∧
    savedOf s1 id = if l.1 == id && l.2 == ty then s.log.length else savedOf s id := by
  simp only [pstep, hd, Bool.false_or, deliverAndSave_eq, h0, if_false, failsAt_none, crashAt_none, cd, sv]
  by_cases hty : l.2 = ty
  · have : (l.2 != ty) = false := by simp [hty]
    simp only [this, Bool.false_eq_true, if_false, deliveredTo_save, deliveredTo_bump, deliveredTo_deliver, savedOf_save,
      savedOf_bump, savedOf_deliver, hl]
    have h2 : (l.2 == ty) = true := by simp [hty]
    simp only [h2, Bool.and_true]
    refine ⟨?_, ?_, ?_, ?_, ?_, ?_⟩ <;> first | rfl | exact hd | exact hl | trivial
  · have : (l.2 != ty) = true := by simp [hty]
    have h2 : (l.2 == ty) = false := by simp [hty]
    simp [this, h2]
    exact hd

theorem pfold0 (ty r id : Nat) : ∀ (L : List (Nat × Nat)) (s : RS), s.dead = false → s.last = s.log.length →
    s.last ≠ 0 →
    (L.foldl (pstep {} ty r) s).dead = false ∧ (L.foldl (pstep {} ty r) s).log = s.log ∧
    (L.foldl (pstep {} ty r) s).last = s.last ∧ (L.foldl (pstep {} ty r) s).live = s.live ∧
    deliveredTo (L.foldl (pstep {} ty r) s) id
      = deliveredTo s id ++ (L.filter (fun l => l.1 == id && l.2 == ty)).map (fun _ => r) ∧
    savedOf (L.foldl (pstep {} ty r) s) id
      = if L.any (fun l => l.1 == id && l.2 == ty) then s.log.length else savedOf s id := by
  intro L
  induction L with
  | nil => intro s hd _ _; simp [hd]
  | cons l L ih =>
    intro s hd hl h0
    obtain ⟨a1, a2, a3, a4, a5, a6⟩ := pstep0 ty r id s l hd hl h0
    obtain ⟨b1, b2, b3, b4, b5, b6⟩ := ih (pstep {} ty r s l) a1 (by rw [a3, a2]; exact hl) (by rw [a3]; exact h0)
    simp only [List.foldl_cons]
    refine ⟨b1, b2.trans a2, b3.trans a3, b4.trans a4, ?_, ?_⟩
    · rw [b5, a5, List.filter_cons]
      cases (l.1 == id && l.2 == ty) <;> simp
    · rw [b6, a6, a2, List.any_cons]
      cases (l.1 == id && l.2 == ty) <;> simp

theorem any_eq_filter {α : Type} (p : α → Bool) (L : List α) : L.any p = !(L.filter p).isEmpty := by
  induction L with
  | nil => rfl
  | cons l L ih =>
    simp only [List.any_cons, List.filter_cons]
    cases h : p l <;> simp [ih]

theorem filter_id_ty (L : List (Nat × Nat)) (id ty : Nat) :
    L.filter (fun l => l.1 == id && l.2 == ty) = (L.filter (fun l => l.1 == id)).filter (fun l => l.2 == ty) := by
  rw [List.filter_filter]
  congr 1
  funext a
  exact Bool.and_comm _ _

theorem nest_none (p : Plan) (first : Bool) (s : RS) : nest p none first s = s := by
  unfold nest; cases first <;> rfl

theorem rstepFF (id' ty id : Nat) (acc : RS × Bool) (e : Nat × Nat × Nat) (hd : acc.1.dead = false) :
    let a1 := rstep {} id' ty none acc e
    a1.1.dead = false ∧ a1.1.log = acc.1.log ∧ a1.1.last = acc.1.last ∧ a1.1.live = acc.1.live ∧
    deliveredTo a1.1 id = deliveredTo acc.1 id ++ (if e.2.1 == ty && id' == id then [e.2.2] else []) ∧
    savedOf a1.1 id = if e.2.1 == ty && id' == id then e.1 else savedOf acc.1 id := by
  simp only [rstep, hd, Bool.false_or, nest_none, fin, failsAt_none, crashAt_none, cd, sv]
  by_cases hty : e.2.1 = ty
  · have h1 : (e.2.1 != ty) = false := by simp [hty]
    have h2 : (e.2.1 == ty) = true := by simp [hty]
    have h3 : (deliver acc.1 id' e.2.2).dead = false := hd
    simp only [h1, h2, h3, Bool.false_eq_true, if_false, Bool.true_and, deliveredTo_save, deliveredTo_bump,
      deliveredTo_deliver, savedOf_save, savedOf_bump, savedOf_deliver]
    refine ⟨?_, ?_, ?_, ?_, ?_, ?_⟩ <;> first | rfl | exact hd | trivial
  · have h1 : (e.2.1 != ty) = true := by simp [hty]
    have h2 : (e.2.1 == ty) = false := by simp [hty]
    simp [h1, h2]
    exact hd

/-- replay of another subscription: nothing changes for `id` -/
theorem rfoldFF_frame (id' ty id : Nat) (hne : (id' == id) = false) :
    ∀ (evs : List (Nat × Nat × Nat)) (acc : RS × Bool), acc.1.dead = false →
    (evs.foldl (rstep {} id' ty none) acc).1.dead = false ∧
    (evs.foldl (rstep {} id' ty none) acc).1.log = acc.1.log ∧
    (evs.foldl (rstep {} id' ty none) acc).1.last = acc.1.last ∧
    (evs.foldl (rstep {} id' ty none) acc).1.live = acc.1.live ∧
    deliveredTo (evs.foldl (rstep {} id' ty none) acc).1 id = deliveredTo acc.1 id ∧
    savedOf (evs.foldl (rstep {} id' ty none) acc).1 id = savedOf acc.1 id := by
  intro evs
  induction evs with
  | nil => intro acc hd; simp [hd]
  | cons e evs ih =>
    intro acc hd
    obtain ⟨a1, a2, a3, a4, a5, a6⟩ := rstepFF id' ty id acc e hd
    obtain ⟨b1, b2, b3, b4, b5, b6⟩ := ih _ a1
    simp only [hne, Bool.and_false, Bool.false_eq_true, if_false, List.append_nil] at a5 a6
    simp only [List.foldl_cons]
    exact ⟨b1, b2.trans a2, b3.trans a3, b4.trans a4, b5.trans a5, b6.trans a6⟩

/-- replay of `id` itself -/
theorem rfoldFF_self (id ty : Nat) :
    ∀ (l : List (Nat × Nat)) (pre : List (Nat × Nat)) (acc : RS × Bool), acc.1.dead = false →
    acc.1.log = pre ++ l →
    deliveredTo acc.1 id = typed pre ty →
    deliveredTo acc.1 id = typed (acc.1.log.take (savedOf acc.1 id)) ty →
    (evsFrom pre.length l |>.foldl (rstep {} id ty none) acc).1.dead = false ∧
    (evsFrom pre.length l |>.foldl (rstep {} id ty none) acc).1.log = acc.1.log ∧
    (evsFrom pre.length l |>.foldl (rstep {} id ty none) acc).1.last = acc.1.last ∧
    (evsFrom pre.length l |>.foldl (rstep {} id ty none) acc).1.live = acc.1.live ∧
    deliveredTo (evsFrom pre.length l |>.foldl (rstep {} id ty none) acc).1 id = typed acc.1.log ty ∧
    deliveredTo (evsFrom pre.length l |>.foldl (rstep {} id ty none) acc).1 id
      = typed ((evsFrom pre.length l |>.foldl (rstep {} id ty none) acc).1.log.take
          (savedOf (evsFrom pre.length l |>.foldl (rstep {} id ty none) acc).1 id)) ty := by
  intro l
  induction l with
  | nil =>
    intro pre acc hd hlog h1 h2
    simp only [List.append_nil] at hlog
    simp only [evsFrom, List.foldl_nil]
    exact ⟨hd, trivial, trivial, trivial, by rw [hlog]; exact h1, h2⟩
  | cons e0 l ih =>
    intro pre acc hd hlog h1 h2
    obtain ⟨a1, a2, a3, a4, a5, a6⟩ := rstepFF id ty id acc (pre.length + 1, e0.1, e0.2) hd
    simp only [evsFrom, List.foldl_cons]
    have hlog' : (rstep {} id ty none acc (pre.length + 1, e0.1, e0.2)).1.log = (pre ++ [e0]) ++ l := by
      rw [a2, hlog]; simp
    have hlen : (pre ++ [e0]).length = pre.length + 1 := by simp
    have := ih (pre ++ [e0]) (rstep {} id ty none acc (pre.length + 1, e0.1, e0.2)) a1 hlog'
    rw [hlen] at this
    simp only [BEq.rfl, Bool.and_true] at a5 a6
    have g1 : deliveredTo (rstep {} id ty none acc (pre.length + 1, e0.1, e0.2)).1 id = typed (pre ++ [e0]) ty := by
      rw [a5, typed_append, typed_single, h1]
    have g2 : deliveredTo (rstep {} id ty none acc (pre.length + 1, e0.1, e0.2)).1 id
        = typed ((rstep {} id ty none acc (pre.length + 1, e0.1, e0.2)).1.log.take
            (savedOf (rstep {} id ty none acc (pre.length + 1, e0.1, e0.2)).1 id)) ty := by
      rw [a6]
      cases hty : e0.1 == ty
      · simp only [Bool.false_eq_true, if_false]
        rw [a5, a2]; simp only [hty, Bool.false_eq_true, if_false, List.append_nil]; exact h2
      · simp only [if_true]
        rw [hlog', List.take_left' hlen]; exact g1
    obtain ⟨b1, b2, b3, b4, b5, b6⟩ := this g1 g2
    exact ⟨b1, b2.trans a2, b3.trans a3, b4.trans a4, by rw [b5, a2], b6⟩

structure E (tyOf : Nat → Nat) (id : Nat) (s : RS) : Prop where
  dead : s.dead = false
  w : W s
  saved : deliveredTo s id = typed (s.log.take (savedOf s id)) (tyOf id)
  live : liveOf s id = [] ∨ (liveOf s id = [(id, tyOf id)] ∧ deliveredTo s id = typed s.log (tyOf id))

theorem setDead_eq (s : RS) (h : s.dead = false) : { s with dead := false } = s := by
  cases s; simp_all

theorem publish_ff (s : RS) (ty r : Nat) :
    publish {} s ty r = (app (bump s) ty r).live.foldl (pstep {} ty r) (app (bump s) ty r) := by
  rw [publish_eq]; simp [failsAt_none, crashAt_none]

theorem subscribe_ff (s : RS) (id ty : Nat) (pd : Option (Nat × Nat)) :
    subscribe {} s id ty pd =
      if ((eventsAfter s.log (savedOf s id)).foldl (rstep {} id ty pd) (bump (bump s), true)).1.dead then
        ((eventsAfter s.log (savedOf s id)).foldl (rstep {} id ty pd) (bump (bump s), true)).1
      else addLive ((eventsAfter s.log (savedOf s id)).foldl (rstep {} id ty pd) (bump (bump s), true)).1 id ty := by
  rw [subscribe_eq]; simp [failsAt_none, crashAt_none]

theorem E_publish {tyOf : Nat → Nat} {id : Nat} {s : RS} (h : E tyOf id s) (ty r : Nat) :
    E tyOf id (publish {} s ty r) := by
  have hw := (W_publish h.w {} ty r).1
  rw [publish_ff] at hw ⊢
  obtain ⟨a1, a2, a3, a4, a5, a6⟩ := pfold0 ty r id (app (bump s) ty r).live (app (bump s) ty r) h.dead
    (by simp [app, bump]) (by simp [app])
  generalize List.foldl (pstep {} ty r) (app (bump s) ty r) (app (bump s) ty r).live = s' at *
  have hlive : liveOf s' id = liveOf s id := by unfold liveOf; rw [a4]; rfl
  have hlog : s'.log = s.log ++ [(ty, r)] := a2
  have hsv := savedOf_le_of_W h.w id
  have hfl : (app (bump s) ty r).live.filter (fun l => l.1 == id && l.2 == ty)
      = (liveOf s id).filter (fun l => l.2 == ty) := filter_id_ty _ _ _
  rw [any_eq_filter, hfl] at a6
  rw [hfl] at a5
  simp only [savedOf_app, savedOf_bump, deliveredTo_app, deliveredTo_bump, log_app, log_bump] at a5 a6
  rcases h.live with hl | ⟨hl, hd⟩
  · rw [hl] at a5 a6
    simp only [List.filter_nil, List.map_nil, List.append_nil, List.isEmpty_nil, Bool.not_true,
      Bool.false_eq_true, if_false] at a5 a6
    refine ⟨a1, hw, ?_, Or.inl (hlive.trans hl)⟩
    rw [a5, a6, hlog, List.take_append_of_le_length hsv]; exact h.saved
  · rw [hl] at a5 a6
    cases hty : tyOf id == ty
    · simp only [List.filter_cons, hty, List.filter_nil, List.map_nil, List.append_nil, List.isEmpty_nil,
        Bool.not_true, Bool.false_eq_true, if_false] at a5 a6
      have hty' : (ty == tyOf id) = false := by
        simp only [beq_eq_false_iff_ne, ne_eq] at hty ⊢; exact fun h => hty h.symm
      refine ⟨a1, hw, ?_, Or.inr ⟨hlive.trans hl, ?_⟩⟩
      · rw [a5, a6, hlog, List.take_append_of_le_length hsv]; exact h.saved
      · rw [a5, hlog, typed_append, typed_single, hd]; simp [hty']
    · simp only [List.filter_cons, hty, if_true, List.filter_nil, List.map_cons, List.map_nil, List.isEmpty_cons,
        Bool.not_false] at a5 a6
      have hty' : (ty == tyOf id) = true := by
        simp only [beq_iff_eq] at hty ⊢; exact hty.symm
      have : deliveredTo s' id = typed s'.log (tyOf id) := by
        rw [a5, hlog, typed_append, typed_single, hd]; simp [hty']
      refine ⟨a1, hw, ?_, Or.inr ⟨hlive.trans hl, this⟩⟩
      rw [a6, this, hlog, List.take_of_length_le (Nat.le_refl _)]

theorem liveOf_addLive (s : RS) (i t id : Nat) :
    liveOf (addLive s i t) id = liveOf s id ++ (if i == id then [(i, t)] else []) := by
  simp only [liveOf, addLive, List.filter_append, List.filter_cons, List.filter_nil]

theorem E_subscribe_other {tyOf : Nat → Nat} {id : Nat} {s : RS} (h : E tyOf id s) (id' ty : Nat)
    (hne : (id' == id) = false) : E tyOf id (subscribe {} s id' ty none) := by
  have hw := W_subscribe h.w {} id' ty none
  rw [subscribe_ff] at hw ⊢
  obtain ⟨a1, a2, a3, a4, a5, a6⟩ := rfoldFF_frame id' ty id hne (eventsAfter s.log (savedOf s id'))
    (bump (bump s), true) h.dead
  generalize (List.foldl (rstep {} id' ty none) (bump (bump s), true) (eventsAfter s.log (savedOf s id'))).1 = s' at *
  simp only [a1, Bool.false_eq_true, if_false] at hw ⊢
  simp only [log_bump, deliveredTo_bump, savedOf_bump] at a2 a5 a6
  have hlive : liveOf (addLive s' id' ty) id = liveOf s id := by
    rw [liveOf_addLive, hne]; simp only [Bool.false_eq_true, if_false, List.append_nil]
    unfold liveOf; rw [a4]; rfl
  refine ⟨a1, hw, ?_, ?_⟩
  · show deliveredTo s' id = typed (s'.log.take (savedOf s' id)) (tyOf id)
    rw [a5, a6, a2]; exact h.saved
  · rw [hlive]
    show _ ∨ (_ ∧ deliveredTo s' id = typed s'.log (tyOf id))
    rw [a5, a2]; exact h.live

theorem E_subscribe_self {tyOf : Nat → Nat} {id : Nat} {s : RS} (h : E tyOf id s)
    (hnl : isLive s id = false) : E tyOf id (subscribe {} s id (tyOf id) none) := by
  have hw := W_subscribe h.w {} id (tyOf id) none
  rw [subscribe_ff] at hw ⊢
  rw [eventsAfter_eq] at hw ⊢
  have hsv := savedOf_le_of_W h.w id
  have hlen : (s.log.take (savedOf s id)).length = savedOf s id := by
    rw [List.length_take]; omega
  have := rfoldFF_self id (tyOf id) (s.log.drop (savedOf s id)) (s.log.take (savedOf s id)) (bump (bump s), true)
    h.dead (List.take_append_drop _ _).symm h.saved h.saved
  rw [hlen] at this
  obtain ⟨a1, a2, a3, a4, a5, a6⟩ := this
  generalize (List.foldl (rstep {} id (tyOf id) none) (bump (bump s), true)
    (evsFrom (savedOf s id) (s.log.drop (savedOf s id)))).1 = s' at *
  simp only [a1, Bool.false_eq_true, if_false] at hw ⊢
  simp only [log_bump] at a2 a5
  have hl0 : liveOf s id = [] := by
    rw [isLive_eq] at hnl
    simpa using hnl
  have hlive : liveOf (addLive s' id (tyOf id)) id = [(id, tyOf id)] := by
    rw [liveOf_addLive]; simp only [BEq.rfl, if_true]
    have : liveOf s' id = liveOf s id := by unfold liveOf; rw [a4]; rfl
    rw [this, hl0]; rfl
  refine ⟨a1, hw, a6, Or.inr ⟨hlive, ?_⟩⟩
  show deliveredTo s' id = typed s'.log (tyOf id)
  rw [a5, a2]

theorem E_restart {tyOf : Nat → Nat} {id : Nat} {s : RS} (h : E tyOf id s) :
    E tyOf id { s with last := 0, live := [] } :=
  ⟨h.dead, ⟨h.w.1, Nat.zero_le _⟩, h.saved, Or.inl rfl⟩

theorem E_foldl (tyOf : Nat → Nat) (id : Nat) : ∀ (ops : List ROp) (s : RS), E tyOf id s →
    wellFormedFrom {} tyOf s ops = true → E tyOf id (ops.foldl (stepOp {}) s) := by
  intro ops
  induction ops with
  | nil => intro s h _; exact h
  | cons op ops ih =>
    intro s h hwf
    simp only [wellFormedFrom, Bool.and_eq_true] at hwf
    refine ih _ ?_ hwf.2
    cases op with
    | publish ty r =>
      have := E_publish h ty r
      simp only [stepOp]; rw [setDead_eq _ this.dead]; exact this
    | subscribe id' ty pd =>
      have h1 := hwf.1
      simp only [Bool.and_eq_true, beq_iff_eq, Bool.not_eq_true', Option.isNone_iff_eq_none] at h1
      obtain ⟨⟨hty, hnl⟩, hpd⟩ := h1
      subst hpd
      have : E tyOf id (subscribe {} s id' ty none) := by
        cases hid : id' == id
        · exact E_subscribe_other h id' ty hid
        · simp only [beq_iff_eq] at hid
          subst hid; subst hty
          exact E_subscribe_self h hnl
      simp only [stepOp]; rw [setDead_eq _ this.dead]; exact this
    | restart => exact E_restart h

theorem E_init (tyOf : Nat → Nat) (id : Nat) : E tyOf id {} :=
  ⟨rfl, ⟨by simp, by simp⟩, rfl, Or.inl rfl⟩

theorem typed_take_prefix (log : List (Nat × Nat)) (k T : Nat) : typed (log.take k) T <+: typed log T := by
  refine ⟨typed (log.drop k) T, ?_⟩
  rw [← typed_append, List.take_append_drop]

/-! ### runs under an arbitrary plan: nothing is lost -/

theorem fin_spec (p : Plan) (i off id : Nat) (s : RS) (hd : s.dead = false) :
    (fin p i off s).log = s.log ∧
    ((fin p i off s).last = s.last ∨ (fin p i off s).last = 0) ∧
    (((fin p i off s).live = s.live ∧ (fin p i off s).dead = false) ∨
      ((fin p i off s).live = [] ∧ (fin p i off s).dead = true)) ∧
    deliveredTo (fin p i off s) id = deliveredTo s id ∧
    (savedOf (fin p i off s) id = savedOf s id ∨ ((i == id) = true ∧ savedOf (fin p i off s) id = off)) := by
  simp only [fin, hd, Bool.false_eq_true, if_false]
  cases crashAt p s <;> cases failsAt p s <;>
    simp only [cd, sv, Bool.false_eq_true, if_false, if_true, log_save, log_bump, log_die, deliveredTo_save,
      deliveredTo_bump, deliveredTo_die, savedOf_die, savedOf_save, savedOf_bump] <;>
    refine ⟨trivial, ?_, ?_, trivial, ?_⟩ <;>
    first
      | exact Or.inl trivial
      | exact Or.inl rfl
      | exact Or.inr rfl
      | exact Or.inl ⟨rfl, hd⟩
      | exact Or.inr ⟨rfl, rfl⟩
      | (split
         · rename_i h; exact Or.inr ⟨h, rfl⟩
         · exact Or.inl rfl)

theorem dAS_spec (p : Plan) (i r off id : Nat) (s : RS) (hd : s.dead = false) :
    (deliverAndSave p s i r off).log = s.log ∧
    ((deliverAndSave p s i r off).last = s.last ∨ (deliverAndSave p s i r off).last = 0) ∧
    (((deliverAndSave p s i r off).live = s.live ∧ (deliverAndSave p s i r off).dead = false) ∨
      ((deliverAndSave p s i r off).live = [] ∧ (deliverAndSave p s i r off).dead = true)) ∧
    deliveredTo (deliverAndSave p s i r off) id = deliveredTo s id ++ (if i == id then [r] else []) ∧
    (savedOf (deliverAndSave p s i r off) id = savedOf s id ∨
      ((i == id) = true ∧ off ≠ 0 ∧ savedOf (deliverAndSave p s i r off) id = off)) := by
  by_cases h0 : off = 0
  · have : deliverAndSave p s i r off = deliver s i r := by rw [deliverAndSave_eq]; simp [h0]
    rw [this]
    exact ⟨rfl, Or.inl rfl, Or.inl ⟨rfl, hd⟩, deliveredTo_deliver .., Or.inl rfl⟩
  · have : deliverAndSave p s i r off = fin p i off (deliver s i r) := by
      rw [deliverAndSave_eq]
      have hd' : (deliver s i r).dead = false := hd
      simp only [h0, if_false, fin, hd', Bool.false_eq_true]
      rfl
    rw [this]
    obtain ⟨a1, a2, a3, a4, a5⟩ := fin_spec p i off id (deliver s i r) hd
    refine ⟨a1, a2, a3, by rw [a4, deliveredTo_deliver], ?_⟩
    rcases a5 with a5 | ⟨a5, a6⟩
    · exact Or.inl a5
    · exact Or.inr ⟨a5, h0, a6⟩

def pend (id ty r : Nat) (L : List (Nat × Nat)) : List Nat :=
  if L.any (fun l => l.1 == id && l.2 == ty) then [r] else []

structure F (T id ty r : Nat) (s : RS) (L : List (Nat × Nat)) : Prop where
  w : W s
  last : s.last = 0 ∨ s.last = s.log.length
  saved : List.Sublist (typed (s.log.take (savedOf s id)) T) (deliveredTo s id)
  live : s.dead = false → liveOf s id ≠ [] →
    List.Sublist (typed s.log T) (deliveredTo s id ++ pend id ty r L)
  tys : ∀ l ∈ s.live, l.1 = id → l.2 = T
  sub : s.dead = false → ∀ l ∈ L, l ∈ s.live
  deadlive : s.dead = true → s.live = []

theorem F_step {T id ty r : Nat} {s s1 : RS} {L L' : List (Nat × Nat)} (h : F T id ty r s L)
    (hd : s.dead = false) (hw : W s1) (hlog : s1.log = s.log)
    (hlast : s1.last = s.last ∨ s1.last = 0)
    (hlv : (s1.live = s.live ∧ s1.dead = false) ∨ (s1.live = [] ∧ s1.dead = true))
    (hsub : ∀ l ∈ L', l ∈ L)
    (hsaved : List.Sublist (typed (s.log.take (savedOf s1 id)) T) (deliveredTo s1 id))
    (hlive : liveOf s id ≠ [] → List.Sublist (typed s.log T) (deliveredTo s1 id ++ pend id ty r L')) :
    F T id ty r s1 L' := by
  refine ⟨hw, ?_, by rw [hlog]; exact hsaved, ?_, ?_, ?_, ?_⟩
  · rcases hlast with hl | hl
    · rw [hl, hlog]; exact h.last
    · exact Or.inl hl
  · intro hd1 hl1
    rcases hlv with ⟨hl, _⟩ | ⟨_, hdd⟩
    · rw [hlog]
      apply hlive
      intro h0; apply hl1; unfold liveOf at h0 ⊢; rw [hl]; exact h0
    · rw [hdd] at hd1; cases hd1
  · rcases hlv with ⟨hl, _⟩ | ⟨hl, _⟩
    · rw [hl]; exact h.tys
    · rw [hl]; intro l hl; cases hl
  · intro hd1 l hl
    rcases hlv with ⟨hlv, _⟩ | ⟨_, hdd⟩
    · rw [hlv]; exact h.sub hd l (hsub l hl)
    · rw [hdd] at hd1; cases hd1
  · intro hd1
    rcases hlv with ⟨_, hdd⟩ | ⟨hl, _⟩
    · rw [hdd] at hd1; cases hd1
    · exact hl

theorem pend_cons (id ty r : Nat) (l : Nat × Nat) (L : List (Nat × Nat)) :
    pend id ty r (l :: L) = if l.1 == id && l.2 == ty then [r] else pend id ty r L := by
  by_cases h : (l.1 == id && l.2 == ty) = true <;> simp [pend, h]

theorem F_pstep {T id ty r : Nat} {s : RS} {l : Nat × Nat} {L : List (Nat × Nat)} (p : Plan)
    (h : F T id ty r s (l :: L)) : F T id ty r (pstep p ty r s l) L := by
  unfold pstep
  by_cases hskip : (s.dead || l.2 != ty) = true
  · rw [if_pos hskip]
    refine ⟨h.w, h.last, h.saved, ?_, h.tys, fun hd l' hl' => h.sub hd l' (List.mem_cons_of_mem _ hl'), h.deadlive⟩
    intro hd hl
    have := h.live hd hl
    rw [pend_cons] at this
    simp only [hd, Bool.false_or] at hskip
    have h2 : (l.2 == ty) = false := by simpa using hskip
    simpa only [h2, Bool.and_false, Bool.false_eq_true, if_false] using this
  · rw [if_neg hskip]
    simp only [Bool.or_eq_true, not_or, Bool.not_eq_true, bne_eq_false_iff_eq] at hskip
    obtain ⟨hd, hty⟩ := hskip
    obtain ⟨a1, a2, a3, a4, a5⟩ := dAS_spec p l.1 r s.last id s hd
    have hw := W_deliverAndSave h.w p l.1 r s.last h.w.2
    have hpend := pend_cons id ty r l L
    cases hid : l.1 == id
    · simp only [hid, Bool.false_eq_true, if_false, List.append_nil, false_and, or_false, Bool.false_and] at a4 a5 hpend
      refine F_step h hd hw a1 a2 a3 (fun l' hl' => List.mem_cons_of_mem _ hl') ?_ ?_
      · rw [a4, a5]; exact h.saved
      · intro hl; rw [a4, ← hpend]; exact h.live hd hl
    · have hmem : l ∈ s.live := h.sub hd l (List.mem_cons_self ..)
      have hl : liveOf s id ≠ [] := by
        intro h0
        have : l ∈ liveOf s id := by unfold liveOf; exact List.mem_filter.mpr ⟨hmem, hid⟩
        rw [h0] at this; cases this
      have hty2 : (l.2 == ty) = true := by simp [hty]
      simp only [hid, hty2, Bool.and_true, if_true] at a4 a5 hpend
      have K : List.Sublist (typed s.log T) (deliveredTo s id ++ [r]) := by
        have := h.live hd hl; rw [hpend] at this; exact this
      refine F_step h hd hw a1 a2 a3 (fun l' hl' => List.mem_cons_of_mem _ hl') ?_ ?_
      · rw [a4]
        rcases a5 with a5 | ⟨_, a5, a6⟩
        · rw [a5]; exact h.saved.trans (List.sublist_append_left _ _)
        · rw [a6]
          rcases h.last with h0 | h1
          · exact absurd h0 a5
          · rw [h1, List.take_of_length_le (Nat.le_refl _)]; exact K
      · intro _; rw [a4]; exact K.trans (List.sublist_append_left _ _)

theorem F_pfold {T id ty r : Nat} (p : Plan) : ∀ (L : List (Nat × Nat)) (s : RS), F T id ty r s L →
    F T id ty r (L.foldl (pstep p ty r) s) [] := by
  intro L
  induction L with
  | nil => intro s h; exact h
  | cons l L ih => intro s h; exact ih _ (F_pstep p h)

theorem finD_spec (p : Plan) (i r off id : Nat) (s : RS) (hd : s.dead = false) :
    (fin p i off (deliver s i r)).log = s.log ∧
    ((fin p i off (deliver s i r)).last = s.last ∨ (fin p i off (deliver s i r)).last = 0) ∧
    (((fin p i off (deliver s i r)).live = s.live ∧ (fin p i off (deliver s i r)).dead = false) ∨
      ((fin p i off (deliver s i r)).live = [] ∧ (fin p i off (deliver s i r)).dead = true)) ∧
    deliveredTo (fin p i off (deliver s i r)) id = deliveredTo s id ++ (if i == id then [r] else []) ∧
    (savedOf (fin p i off (deliver s i r)) id = savedOf s id ∨
      ((i == id) = true ∧ savedOf (fin p i off (deliver s i r)) id = off)) := by
  obtain ⟨a1, a2, a3, a4, a5⟩ := fin_spec p i off id (deliver s i r) hd
  exact ⟨a1, a2, a3, by rw [a4, deliveredTo_deliver], a5⟩

def A (T id : Nat) (s : RS) : Prop := s.dead = false ∧ F T id 0 0 s []

def undead (s : RS) : RS := { s with dead := false }

theorem F_nil_irrel {T id ty r ty' r' : Nat} {s : RS} (h : F T id ty r s []) : F T id ty' r' s [] :=
  ⟨h.w, h.last, h.saved, h.live, h.tys, h.sub, h.deadlive⟩

theorem F_live' {T id ty r : Nat} {s : RS} (h : F T id ty r s []) (hd : s.dead = false) (hl : liveOf s id ≠ []) :
    List.Sublist (typed s.log T) (deliveredTo s id) := by
  have := h.live hd hl
  simpa [pend] using this

theorem A_undead {T id ty r : Nat} {s : RS} (h : F T id ty r s []) : A T id (undead s) := by
  refine ⟨rfl, h.w, h.last, h.saved, ?_, h.tys, ?_, ?_⟩
  · intro _ hl
    cases hd : s.dead
    · exact h.live hd hl
    · have := h.deadlive hd
      exfalso; apply hl; unfold liveOf undead; simp [this]
  · intro _ l hl; cases hl
  · intro hd; cases hd

theorem F_die {T id ty r : Nat} {s : RS} {L : List (Nat × Nat)} (h : F T id ty r s L) :
    F T id ty r (die s) [] := by
  refine ⟨W_die h.w, Or.inl rfl, h.saved, ?_, ?_, ?_, ?_⟩
  · intro hd; cases hd
  · intro l hl; cases hl
  · intro _ l hl; cases hl
  · intro _; rfl

theorem F_bump {T id ty r : Nat} {s : RS} {L : List (Nat × Nat)} (h : F T id ty r s L) :
    F T id ty r (bump s) L := ⟨h.w, h.last, h.saved, h.live, h.tys, h.sub, h.deadlive⟩

theorem F_err {T id ty r : Nat} {s : RS} {L : List (Nat × Nat)} (h : F T id ty r s L) (i : Nat) :
    F T id ty r (err s i) L := ⟨h.w, h.last, h.saved, h.live, h.tys, h.sub, h.deadlive⟩

theorem exists_live {s : RS} {id : Nat} (hl : liveOf s id ≠ []) : ∃ l ∈ s.live, (l.1 == id) = true := by
  obtain ⟨l, hl⟩ := List.exists_mem_of_ne_nil _ hl
  unfold liveOf at hl
  rw [List.mem_filter] at hl
  exact ⟨l, hl.1, hl.2⟩

theorem A_publish {T id : Nat} {s : RS} (h : A T id s) (p : Plan) (ty r : Nat) :
    F T id ty r (publish p s ty r) [] := by
  obtain ⟨hd, h⟩ := h
  rw [publish_eq]
  have hs2 : F T id ty r (if failsAt p s then bump s else app (bump s) ty r)
      (if failsAt p s then bump s else app (bump s) ty r).live := by
    split
    · refine ⟨h.w, h.last, h.saved, ?_, h.tys, fun _ l hl => hl, h.deadlive⟩
      intro _ hl
      exact (F_live' h hd hl).trans (List.sublist_append_left _ _)
    · refine ⟨W_app (W_bump h.w) ty r, Or.inr (by simp [app]), ?_, ?_, h.tys, fun _ l hl => hl, h.deadlive⟩
      · show List.Sublist (typed ((s.log ++ [(ty, r)]).take (savedOf s id)) T) (deliveredTo s id)
        rw [List.take_append_of_le_length (savedOf_le_of_W h.w id)]; exact h.saved
      · intro _ hl
        show List.Sublist (typed (s.log ++ [(ty, r)]) T) (deliveredTo s id ++ pend id ty r s.live)
        have hl' : liveOf s id ≠ [] := hl
        rw [typed_append, typed_single]
        cases hty : ty == T
        · simp only [Bool.false_eq_true, if_false, List.append_nil]
          exact (F_live' h hd hl').trans (List.sublist_append_left _ _)
        · obtain ⟨l, hm, hi⟩ := exists_live hl'
          have ht := h.tys l hm (by simpa using hi)
          have : pend id ty r s.live = [r] := by
            unfold pend
            have : s.live.any (fun l => l.1 == id && l.2 == ty) = true := by
              rw [List.any_eq_true]
              refine ⟨l, hm, ?_⟩
              simp only [beq_iff_eq] at hty
              simp [hi, ht, hty]
            rw [this]; rfl
          rw [this]
          simp only [if_true]
          exact (F_live' h hd hl').append (List.Sublist.refl _)
  generalize (if failsAt p s then bump s else app (bump s) ty r) = s2 at hs2
  simp only []
  split
  · exact F_die hs2
  · exact F_pfold p _ _ hs2

theorem F_rstep_frame {T id : Nat} {s : RS} (h : F T id 0 0 s []) (p : Plan) (id' ty : Nat) (b : Bool)
    (e : Nat × Nat × Nat) (hne : (id' == id) = false) (he : e.1 ≤ s.log.length) :
    F T id 0 0 (rstep p id' ty none (s, b) e).1 [] ∧ (rstep p id' ty none (s, b) e).1.log = s.log := by
  unfold rstep
  by_cases hskip : (s.dead || e.2.1 != ty) = true
  · rw [if_pos hskip]; exact ⟨h, rfl⟩
  · rw [if_neg hskip]; simp only [nest_none]
    simp only [Bool.or_eq_true, not_or, Bool.not_eq_true] at hskip
    obtain ⟨hd, _⟩ := hskip
    obtain ⟨a1, a2, a3, a4, a5⟩ := finD_spec p id' e.2.2 e.1 id s hd
    have hw := (W_fin (W_deliver h.w id' e.2.2) p id' e.1 he).1
    simp only [hne, Bool.false_eq_true, if_false, List.append_nil, false_and, or_false] at a4 a5
    refine ⟨F_step h hd hw a1 a2 a3 (fun l hl => hl) ?_ ?_, a1⟩
    · rw [a4, a5]; exact h.saved
    · intro hl; rw [a4]; exact h.live hd hl

theorem F_rfold_frame {T id : Nat} (p : Plan) (id' ty : Nat) (hne : (id' == id) = false) :
    ∀ (evs : List (Nat × Nat × Nat)) (acc : RS × Bool), F T id 0 0 acc.1 [] →
      (∀ e ∈ evs, e.1 ≤ acc.1.log.length) →
      F T id 0 0 (evs.foldl (rstep p id' ty none) acc).1 [] := by
  intro evs
  induction evs with
  | nil => intro acc h _; exact h
  | cons e evs ih =>
    intro acc h he
    have h1 := F_rstep_frame h p id' ty acc.2 e hne (he e (List.mem_cons_self ..))
    simp only [List.foldl_cons]
    exact ih _ h1.1 (fun e' he' => by rw [h1.2]; exact he e' (List.mem_cons_of_mem _ he'))

structure H (T id : Nat) (s : RS) (pre : List (Nat × Nat)) : Prop where
  w : W s
  last : s.last = 0 ∨ s.last = s.log.length
  saved : List.Sublist (typed (s.log.take (savedOf s id)) T) (deliveredTo s id)
  cov : s.dead = false → List.Sublist (typed pre T) (deliveredTo s id)
  nolive : liveOf s id = []
  deadlive : s.dead = true → s.live = []

theorem H_rstep {T id : Nat} {s : RS} {pre l : List (Nat × Nat)} {e0 : Nat × Nat} (h : H T id s pre)
    (hlog : s.log = pre ++ e0 :: l) (p : Plan) (b : Bool) :
    H T id (rstep p id T none (s, b) (pre.length + 1, e0.1, e0.2)).1 (pre ++ [e0]) ∧
    (rstep p id T none (s, b) (pre.length + 1, e0.1, e0.2)).1.log = s.log := by
  unfold rstep
  by_cases hskip : (s.dead || e0.1 != T) = true
  · rw [if_pos hskip]
    refine ⟨⟨h.w, h.last, h.saved, ?_, h.nolive, h.deadlive⟩, rfl⟩
    intro hd
    have hd : s.dead = false := hd
    simp only [hd, Bool.false_or, bne_iff_ne, ne_eq] at hskip
    have : (e0.1 == T) = false := by simpa using hskip
    rw [typed_append, typed_single, this]
    simpa using h.cov hd
  · rw [if_neg hskip]; simp only [nest_none]
    simp only [Bool.or_eq_true, not_or, Bool.not_eq_true, bne_eq_false_iff_eq] at hskip
    obtain ⟨hd, hty⟩ := hskip
    obtain ⟨a1, a2, a3, a4, a5⟩ := finD_spec p id e0.2 (pre.length + 1) id s hd
    have hlen : pre.length + 1 ≤ s.log.length := by rw [hlog]; simp
    have hw := (W_fin (W_deliver h.w id e0.2) p id (pre.length + 1) hlen).1
    simp only [BEq.rfl, if_true, true_and] at a4 a5
    have K : List.Sublist (typed (pre ++ [e0]) T) (deliveredTo s id ++ [e0.2]) := by
      rw [typed_append, typed_single]
      have : (e0.1 == T) = true := by simp [hty]
      rw [this]
      exact (h.cov hd).append (List.Sublist.refl _)
    refine ⟨⟨hw, ?_, ?_, ?_, ?_, ?_⟩, a1⟩
    · rcases a2 with hl | hl
      · rw [hl, a1]; exact h.last
      · exact Or.inl hl
    · rw [a4, a1]
      rcases a5 with a5 | a5
      · rw [a5]; exact h.saved.trans (List.sublist_append_left _ _)
      · rw [a5, hlog]
        have : pre ++ e0 :: l = (pre ++ [e0]) ++ l := by simp
        rw [this, List.take_left' (by simp)]
        exact K
    · intro _; rw [a4]; exact K
    · rcases a3 with ⟨hl, _⟩ | ⟨hl, _⟩
      · unfold liveOf; rw [hl]; exact h.nolive
      · unfold liveOf; rw [hl]; rfl
    · intro hd1
      rcases a3 with ⟨_, hdd⟩ | ⟨hl, _⟩
      · rw [hdd] at hd1; cases hd1
      · exact hl

theorem H_rfold {T id : Nat} (p : Plan) : ∀ (l pre : List (Nat × Nat)) (acc : RS × Bool), H T id acc.1 pre →
    acc.1.log = pre ++ l →
    H T id ((evsFrom pre.length l).foldl (rstep p id T none) acc).1 (pre ++ l) ∧
    ((evsFrom pre.length l).foldl (rstep p id T none) acc).1.log = acc.1.log := by
  intro l
  induction l with
  | nil => intro pre acc h _; simpa [evsFrom] using h
  | cons e0 l ih =>
    intro pre acc h hlog
    have h1 := H_rstep h hlog p acc.2
    simp only [evsFrom, List.foldl_cons]
    have := ih (pre ++ [e0]) _ h1.1 (by rw [h1.2, hlog]; simp)
    refine ⟨by simpa using this.1, ?_⟩
    have h2 := this.2
    simp only [List.length_append, List.length_cons, List.length_nil] at h2
    exact h2.trans h1.2

theorem F_of_H {T id ty r : Nat} {s : RS} {pre : List (Nat × Nat)} (h : H T id s pre) : F T id ty r s [] := by
  refine ⟨h.w, h.last, h.saved, ?_, ?_, ?_, h.deadlive⟩
  · intro _ hl; exact absurd h.nolive hl
  · intro l hl hi
    have : l ∈ liveOf s id := by unfold liveOf; exact List.mem_filter.mpr ⟨hl, by simp [hi]⟩
    rw [h.nolive] at this; cases this
  · intro _ l hl; cases hl

theorem A_subscribe_self {T id : Nat} {s : RS} (h : A T id s) (hnl : liveOf s id = []) (p : Plan) :
    F T id 0 0 (subscribe p s id T none) [] := by
  obtain ⟨hd, h⟩ := h
  rw [subscribe_eq]
  split
  · exact F_die (F_bump h)
  split
  · exact F_err (F_bump h) id
  split
  · exact F_die (F_bump (F_bump h))
  split
  · exact F_err (F_bump (F_bump h)) id
  simp only []
  rw [eventsAfter_eq]
  have hsv := savedOf_le_of_W h.w id
  have hlen : (s.log.take (savedOf s id)).length = savedOf s id := by
    rw [List.length_take]; omega
  have h0 : H T id (bump (bump s)) (s.log.take (savedOf s id)) :=
    ⟨h.w, h.last, h.saved, fun _ => h.saved, hnl, h.deadlive⟩
  have hH := H_rfold p (s.log.drop (savedOf s id)) (s.log.take (savedOf s id)) (bump (bump s), true) h0
    (List.take_append_drop _ _).symm
  rw [hlen, List.take_append_drop] at hH
  obtain ⟨hH, hlogc⟩ := hH
  generalize (List.foldl (rstep p id T none) (bump (bump s), true)
    (evsFrom (savedOf s id) (s.log.drop (savedOf s id)))).1 = s' at *
  split
  · exact F_of_H hH
  · rename_i hd'
    simp only [Bool.not_eq_true] at hd'
    refine ⟨hH.w, hH.last, hH.saved, ?_, ?_, ?_, ?_⟩
    · intro _ _
      show List.Sublist (typed s'.log T) (deliveredTo s' id ++ pend id 0 0 [])
      rw [hlogc]
      exact (hH.cov hd').trans (List.sublist_append_left _ _)
    · intro l hl hi
      simp only [addLive, List.mem_append, List.mem_cons, List.not_mem_nil, or_false] at hl
      rcases hl with hl | rfl
      · have : l ∈ liveOf s' id := by unfold liveOf; exact List.mem_filter.mpr ⟨hl, by simp [hi]⟩
        rw [hH.nolive] at this; cases this
      · rfl
    · intro _ l hl; cases hl
    · intro hd1; rw [show (addLive s' id T).dead = s'.dead from rfl, hd'] at hd1; cases hd1

theorem A_subscribe_other {T id : Nat} {s : RS} (h : A T id s) (p : Plan) (id' ty : Nat)
    (hne : (id' == id) = false) : F T id 0 0 (subscribe p s id' ty none) [] := by
  obtain ⟨hd, h⟩ := h
  rw [subscribe_eq]
  split
  · exact F_die (F_bump h)
  split
  · exact F_err (F_bump h) id'
  split
  · exact F_die (F_bump (F_bump h))
  split
  · exact F_err (F_bump (F_bump h)) id'
  simp only []
  have hF := F_rfold_frame p id' ty hne (eventsAfter s.log (savedOf s id')) (bump (bump s), true)
    (F_bump (F_bump h)) (fun e he => (mem_eventsAfter he).2)
  generalize (List.foldl (rstep p id' ty none) (bump (bump s), true) (eventsAfter s.log (savedOf s id'))).1 = s' at *
  split
  · exact hF
  · rename_i hd'
    simp only [Bool.not_eq_true] at hd'
    refine ⟨hF.w, hF.last, hF.saved, ?_, ?_, ?_, ?_⟩
    · intro _ hl
      have hl' : liveOf s' id ≠ [] := by
        rw [liveOf_addLive, hne] at hl; simpa using hl
      exact hF.live hd' hl'
    · intro l hl hi
      simp only [addLive, List.mem_append, List.mem_cons, List.not_mem_nil, or_false] at hl
      rcases hl with hl | rfl
      · exact hF.tys l hl hi
      · simp only at hi; subst hi; simp at hne
    · intro _ l hl; cases hl
    · intro hd1; rw [show (addLive s' id' ty).dead = s'.dead from rfl, hd'] at hd1; cases hd1

theorem A_restart {T id : Nat} {s : RS} (h : A T id s) : A T id { s with last := 0, live := [] } := by
  obtain ⟨hd, h⟩ := h
  refine ⟨hd, ⟨h.w.1, Nat.zero_le _⟩, Or.inl rfl, h.saved, ?_, ?_, ?_, ?_⟩
  · intro _ hl; exact absurd rfl hl
  · intro l hl; cases hl
  · intro _ l hl; cases hl
  · intro _; rfl

theorem A_foldl (p : Plan) (tyOf : Nat → Nat) (id : Nat) : ∀ (ops : List ROp) (s : RS), A (tyOf id) id s →
    wellFormedFrom p tyOf s ops = true → A (tyOf id) id (ops.foldl (stepOp p) s) := by
  intro ops
  induction ops with
  | nil => intro s h _; exact h
  | cons op ops ih =>
    intro s h hwf
    simp only [wellFormedFrom, Bool.and_eq_true] at hwf
    refine ih _ ?_ hwf.2
    cases op with
    | publish ty r => exact A_undead (A_publish h p ty r)
    | subscribe id' ty pd =>
      have h1 := hwf.1
      simp only [Bool.and_eq_true, beq_iff_eq, Bool.not_eq_true', Option.isNone_iff_eq_none] at h1
      obtain ⟨⟨hty, hnl⟩, hpd⟩ := h1
      subst hpd
      cases hid : id' == id
      · exact A_undead (A_subscribe_other h p id' ty hid)
      · simp only [beq_iff_eq] at hid
        subst hid; subst hty
        have hl0 : liveOf s id' = [] := by
          rw [isLive_eq] at hnl
          simpa using hnl
        exact A_undead (A_subscribe_self h hl0 p)
    | restart => exact A_restart h

theorem A_init (T id : Nat) : A T id {} := by
  refine ⟨rfl, ⟨by simp, by simp⟩, Or.inl rfl, List.Sublist.refl _, ?_, ?_, ?_, ?_⟩
  · intro _ hl; exact absurd rfl hl
  · intro l hl; cases hl
  · intro _ l hl; cases hl
  · intro _; rfl

/-! ### independence of subscription ids (fault-free) -/

theorem rfoldFF_fun (id ty : Nat) :
    ∀ (evs : List (Nat × Nat × Nat)) (acc : RS × Bool), acc.1.dead = false →
    (evs.foldl (rstep {} id ty none) acc).1.dead = false ∧
    (evs.foldl (rstep {} id ty none) acc).1.log = acc.1.log ∧
    (evs.foldl (rstep {} id ty none) acc).1.last = acc.1.last ∧
    (evs.foldl (rstep {} id ty none) acc).1.live = acc.1.live ∧
    deliveredTo (evs.foldl (rstep {} id ty none) acc).1 id
      = deliveredTo acc.1 id ++ (evs.filter (fun e => e.2.1 == ty)).map (fun e => e.2.2) ∧
    savedOf (evs.foldl (rstep {} id ty none) acc).1 id
      = evs.foldl (fun sv e => if e.2.1 == ty then e.1 else sv) (savedOf acc.1 id) := by
  intro evs
  induction evs with
  | nil => intro acc hd; simp [hd]
  | cons e evs ih =>
    intro acc hd
    obtain ⟨a1, a2, a3, a4, a5, a6⟩ := rstepFF id ty id acc e hd
    obtain ⟨b1, b2, b3, b4, b5, b6⟩ := ih _ a1
    simp only [BEq.rfl, Bool.and_true] at a5 a6
    simp only [List.foldl_cons]
    refine ⟨b1, b2.trans a2, b3.trans a3, b4.trans a4, ?_, ?_⟩
    · rw [b5, a5, List.filter_cons]
      cases e.2.1 == ty <;> simp
    · rw [b6, a6]

structure R (id : Nat) (s s' : RS) : Prop where
  dead : s.dead = false
  dead' : s'.dead = false
  log : s.log = s'.log
  last : s.last = s'.last
  deliv : deliveredTo s id = deliveredTo s' id
  saved : savedOf s id = savedOf s' id
  live : liveOf s id = liveOf s' id

theorem publish_ff_spec (s : RS) (ty r id : Nat) (hd : s.dead = false) :
    (publish {} s ty r).dead = false ∧ (publish {} s ty r).log = s.log ++ [(ty, r)] ∧
    (publish {} s ty r).last = s.log.length + 1 ∧ (publish {} s ty r).live = s.live ∧
    deliveredTo (publish {} s ty r) id
      = deliveredTo s id ++ ((liveOf s id).filter (fun l => l.2 == ty)).map (fun _ => r) ∧
    savedOf (publish {} s ty r) id
      = if ((liveOf s id).filter (fun l => l.2 == ty)).isEmpty then savedOf s id else s.log.length + 1 := by
  rw [publish_ff]
  obtain ⟨a1, a2, a3, a4, a5, a6⟩ := pfold0 ty r id (app (bump s) ty r).live (app (bump s) ty r) hd
    (by simp [app, bump]) (by simp [app])
  have hfl : (app (bump s) ty r).live.filter (fun l => l.1 == id && l.2 == ty)
      = (liveOf s id).filter (fun l => l.2 == ty) := filter_id_ty _ _ _
  rw [any_eq_filter, hfl] at a6
  rw [hfl] at a5
  refine ⟨a1, a2, a3, a4, a5, ?_⟩
  rw [a6]
  cases ((liveOf s id).filter (fun l => l.2 == ty)).isEmpty <;> simp

theorem R_publish {id : Nat} {s s' : RS} (h : R id s s') (ty r : Nat) :
    R id (publish {} s ty r) (publish {} s' ty r) := by
  obtain ⟨a1, a2, a3, a4, a5, a6⟩ := publish_ff_spec s ty r id h.dead
  obtain ⟨b1, b2, b3, b4, b5, b6⟩ := publish_ff_spec s' ty r id h.dead'
  refine ⟨a1, b1, ?_, ?_, ?_, ?_, ?_⟩
  · rw [a2, b2, h.log]
  · rw [a3, b3, h.log]
  · rw [a5, b5, h.deliv, h.live]
  · rw [a6, b6, h.saved, h.live, h.log]
  · unfold liveOf; rw [a4, b4]; exact h.live

theorem subscribe_ff_spec (s : RS) (id' ty id : Nat) (hd : s.dead = false) :
    (subscribe {} s id' ty none).dead = false ∧ (subscribe {} s id' ty none).log = s.log ∧
    (subscribe {} s id' ty none).last = s.last ∧
    liveOf (subscribe {} s id' ty none) id = liveOf s id ++ (if id' == id then [(id', ty)] else []) ∧
    deliveredTo (subscribe {} s id' ty none) id
      = deliveredTo s id ++ (if id' == id then
          ((eventsAfter s.log (savedOf s id)).filter (fun e => e.2.1 == ty)).map (fun e => e.2.2) else []) ∧
    savedOf (subscribe {} s id' ty none) id
      = if id' == id then
          (eventsAfter s.log (savedOf s id)).foldl (fun sv e => if e.2.1 == ty then e.1 else sv) (savedOf s id)
        else savedOf s id := by
  rw [subscribe_ff]
  cases hid : id' == id
  · obtain ⟨a1, a2, a3, a4, a5, a6⟩ := rfoldFF_frame id' ty id hid (eventsAfter s.log (savedOf s id'))
      (bump (bump s), true) hd
    generalize (List.foldl (rstep {} id' ty none) (bump (bump s), true) (eventsAfter s.log (savedOf s id'))).1 = s1 at *
    simp only [a1, Bool.false_eq_true, if_false, List.append_nil]
    refine ⟨a1, a2, a3, ?_, a5, a6⟩
    rw [liveOf_addLive, hid]; simp only [Bool.false_eq_true, if_false, List.append_nil]
    unfold liveOf; rw [a4]; rfl
  · simp only [beq_iff_eq] at hid
    subst hid
    obtain ⟨a1, a2, a3, a4, a5, a6⟩ := rfoldFF_fun id' ty (eventsAfter s.log (savedOf s id'))
      (bump (bump s), true) hd
    generalize (List.foldl (rstep {} id' ty none) (bump (bump s), true) (eventsAfter s.log (savedOf s id'))).1 = s1 at *
    simp only [a1, Bool.false_eq_true, if_false, if_true]
    refine ⟨a1, a2, a3, ?_, a5, a6⟩
    rw [liveOf_addLive]; simp only [BEq.rfl, if_true]
    unfold liveOf; rw [a4]; rfl

theorem R_subscribe_self {id : Nat} {s s' : RS} (h : R id s s') (ty : Nat) :
    R id (subscribe {} s id ty none) (subscribe {} s' id ty none) := by
  obtain ⟨a1, a2, a3, a4, a5, a6⟩ := subscribe_ff_spec s id ty id h.dead
  obtain ⟨b1, b2, b3, b4, b5, b6⟩ := subscribe_ff_spec s' id ty id h.dead'
  refine ⟨a1, b1, ?_, ?_, ?_, ?_, ?_⟩
  · rw [a2, b2, h.log]
  · rw [a3, b3, h.last]
  · rw [a5, b5, h.deliv, h.log, h.saved]
  · rw [a6, b6, h.saved, h.log]
  · rw [a4, b4, h.live]

theorem R_subscribe_other {id : Nat} {s s' : RS} (h : R id s s') (id' ty : Nat) (hne : (id' == id) = false) :
    R id (subscribe {} s id' ty none) s' := by
  obtain ⟨a1, a2, a3, a4, a5, a6⟩ := subscribe_ff_spec s id' ty id h.dead
  simp only [hne, Bool.false_eq_true, if_false, List.append_nil] at a4 a5 a6
  exact ⟨a1, h.dead', a2.trans h.log, a3.trans h.last, a5.trans h.deliv, a6.trans h.saved, a4.trans h.live⟩

theorem R_restart {id : Nat} {s s' : RS} (h : R id s s') :
    R id { s with last := 0, live := [] } { s' with last := 0, live := [] } :=
  ⟨h.dead, h.dead', h.log, rfl, h.deliv, h.saved, rfl⟩

def keep (id : Nat) (op : ROp) : Bool :=
  match op with
  | .subscribe id' _ _ => id' == id
  | _ => true

theorem R_foldl (tyOf : Nat → Nat) (id : Nat) : ∀ (ops : List ROp) (s s' : RS), R id s s' →
    wellFormedFrom {} tyOf s ops = true →
    R id (ops.foldl (stepOp {}) s) ((ops.filter (keep id)).foldl (stepOp {}) s') := by
  intro ops
  induction ops with
  | nil => intro s s' h _; exact h
  | cons op ops ih =>
    intro s s' h hwf
    simp only [wellFormedFrom, Bool.and_eq_true] at hwf
    cases op with
    | publish ty r =>
      have := R_publish h ty r
      simp only [List.filter_cons, keep, if_true, List.foldl_cons, stepOp]
      rw [setDead_eq _ this.dead, setDead_eq _ this.dead']
      refine ih _ _ this ?_
      have h2 := hwf.2
      simp only [stepOp] at h2
      rw [setDead_eq _ this.dead] at h2; exact h2
    | subscribe id' ty pd =>
      have h1 := hwf.1
      simp only [Bool.and_eq_true, beq_iff_eq, Bool.not_eq_true', Option.isNone_iff_eq_none] at h1
      obtain ⟨_, hpd⟩ := h1
      subst hpd
      have h2 := hwf.2
      simp only [stepOp] at h2
      cases hid : id' == id
      · have := R_subscribe_other h id' ty hid
        simp only [List.filter_cons, keep, hid, Bool.false_eq_true, if_false, List.foldl_cons, stepOp]
        rw [setDead_eq _ this.dead] at h2 ⊢
        exact ih _ _ this h2
      · simp only [beq_iff_eq] at hid
        subst hid
        have := R_subscribe_self h ty
        simp only [List.filter_cons, keep, BEq.rfl, if_true, List.foldl_cons, stepOp]
        rw [setDead_eq _ this.dead] at h2 ⊢
        rw [setDead_eq _ this.dead']
        exact ih _ _ this h2
    | restart =>
      simp only [List.filter_cons, keep, if_true, List.foldl_cons, stepOp]
      exact ih _ _ (R_restart h) hwf.2

/-! ### monotonicity of the saved offset (when no id is subscribed while it is live) -/

structure M (id : Nat) (s : RS) : Prop where
  pw : List.Pairwise (· ≤ ·) (savesOf s id)
  ub : ∀ x ∈ savesOf s id, x ≤ savedOf s id
  w : W s
  last : s.last = 0 ∨ s.last = s.log.length

theorem savesOf_save (s : RS) (i off id : Nat) :
    savesOf (save s i off) id = savesOf s id ++ (if i == id then [off] else []) := by
  simp only [savesOf, save, List.filter_append, List.map_append, List.filter_cons, List.filter_nil]
  cases i == id <;> simp

theorem M_bump {id : Nat} {s : RS} (h : M id s) : M id (bump s) := ⟨h.pw, h.ub, h.w, h.last⟩
theorem M_deliver {id : Nat} {s : RS} (h : M id s) (i r : Nat) : M id (deliver s i r) := ⟨h.pw, h.ub, h.w, h.last⟩
theorem M_err {id : Nat} {s : RS} (h : M id s) (i : Nat) : M id (err s i) := ⟨h.pw, h.ub, h.w, h.last⟩
theorem M_addLive {id : Nat} {s : RS} (h : M id s) (i t : Nat) : M id (addLive s i t) := ⟨h.pw, h.ub, h.w, h.last⟩
theorem M_undead {id : Nat} {s : RS} (h : M id s) : M id (undead s) := ⟨h.pw, h.ub, h.w, h.last⟩
theorem M_die {id : Nat} {s : RS} (h : M id s) : M id (die s) := ⟨h.pw, h.ub, W_die h.w, Or.inl rfl⟩
theorem M_cd {id : Nat} {s : RS} (h : M id s) (c : Bool) : M id (cd c s) := by
  unfold cd; split
  · exact M_die h
  · exact h
theorem M_app {id : Nat} {s : RS} (h : M id s) (ty r : Nat) : M id (app s ty r) :=
  ⟨h.pw, h.ub, W_app h.w ty r, Or.inr (by simp [app])⟩

theorem M_save {id : Nat} {s : RS} (h : M id s) (i off : Nat) (hs : (i == id) = true → savedOf s id ≤ off)
    (ho : off ≤ s.log.length) : M id (save s i off) := by
  refine ⟨?_, ?_, W_save h.w i off ho, h.last⟩
  · rw [savesOf_save]
    cases hi : i == id
    · simpa using h.pw
    · simp only [if_true]
      rw [List.pairwise_append]
      refine ⟨h.pw, List.pairwise_singleton _ _, ?_⟩
      intro a ha b hb
      simp only [List.mem_cons, List.not_mem_nil, or_false] at hb
      subst hb
      exact Nat.le_trans (h.ub a ha) (hs hi)
  · rw [savesOf_save, savedOf_save]
    cases hi : i == id
    · simpa using h.ub
    · simp only [if_true]
      intro x hx
      simp only [List.mem_append, List.mem_cons, List.not_mem_nil, or_false] at hx
      rcases hx with hx | rfl
      · exact Nat.le_trans (h.ub x hx) (hs hi)
      · exact Nat.le_refl _

theorem M_sv {id : Nat} {s : RS} (h : M id s) (f : Bool) (i off : Nat)
    (hs : (i == id) = true → savedOf s id ≤ off) (ho : off ≤ s.log.length) : M id (sv f s i off) := by
  unfold sv; split
  · exact h
  · exact M_save h i off hs ho

theorem M_fin {id : Nat} {s : RS} (h : M id s) (p : Plan) (i off : Nat)
    (hs : (i == id) = true → savedOf s id ≤ off) (ho : off ≤ s.log.length) : M id (fin p i off s) := by
  unfold fin; split
  · exact h
  · exact M_cd (M_sv (M_bump h) _ i off hs ho) _

theorem M_dAS {id : Nat} {s : RS} (h : M id s) (p : Plan) (i r off : Nat)
    (hs : off ≠ 0 → (i == id) = true → savedOf s id ≤ off) (ho : off ≤ s.log.length) :
    M id (deliverAndSave p s i r off) := by
  rw [deliverAndSave_eq]; split
  · exact M_deliver h i r
  · rename_i h0
    exact M_cd (M_sv (M_bump (M_deliver h i r)) _ i off (hs h0) ho) _

/-- what one live delivery may change -/
theorem M_pstep {id : Nat} {s : RS} (h : M id s) (p : Plan) (ty r : Nat) (l : Nat × Nat) :
    M id (pstep p ty r s l) ∧ (pstep p ty r s l).log = s.log ∧
    ((pstep p ty r s l).live = s.live ∨ (pstep p ty r s l).live = []) ∧
    ((l.1 == id) = false → savedOf (pstep p ty r s l) id = savedOf s id) := by
  unfold pstep
  by_cases hskip : (s.dead || l.2 != ty) = true
  · rw [if_pos hskip]; exact ⟨h, rfl, Or.inl rfl, fun _ => rfl⟩
  · rw [if_neg hskip]
    simp only [Bool.or_eq_true, not_or, Bool.not_eq_true] at hskip
    obtain ⟨hd, _⟩ := hskip
    obtain ⟨a1, _, a3, _, a5⟩ := dAS_spec p l.1 r s.last id s hd
    refine ⟨M_dAS h p l.1 r s.last ?_ h.w.2, a1, ?_, ?_⟩
    · intro h0 _
      rcases h.last with hl | hl
      · exact absurd hl h0
      · rw [hl]; exact savedOf_le_of_W h.w id
    · rcases a3 with ⟨hl, _⟩ | ⟨hl, _⟩
      · exact Or.inl hl
      · exact Or.inr hl
    · intro hne
      rcases a5 with a5 | ⟨a5, _⟩
      · exact a5
      · rw [hne] at a5; cases a5

theorem M_pfold {id : Nat} (p : Plan) (ty r : Nat) : ∀ (L : List (Nat × Nat)) (s : RS), M id s →
    M id (L.foldl (pstep p ty r) s) ∧ (L.foldl (pstep p ty r) s).log = s.log ∧
    ((L.foldl (pstep p ty r) s).live = s.live ∨ (L.foldl (pstep p ty r) s).live = []) ∧
    ((∀ l ∈ L, (l.1 == id) = false) → savedOf (L.foldl (pstep p ty r) s) id = savedOf s id) := by
  intro L
  induction L with
  | nil => intro s h; exact ⟨h, rfl, Or.inl rfl, fun _ => rfl⟩
  | cons l L ih =>
    intro s h
    obtain ⟨a1, a2, a3, a4⟩ := M_pstep h p ty r l
    obtain ⟨b1, b2, b3, b4⟩ := ih _ a1
    simp only [List.foldl_cons]
    refine ⟨b1, b2.trans a2, ?_, ?_⟩
    · rcases b3 with b3 | b3
      · rw [b3]; exact a3
      · exact Or.inr b3
    · intro hL
      rw [b4 (fun l' hl' => hL l' (List.mem_cons_of_mem _ hl')), a4 (hL l (List.mem_cons_self ..))]

theorem liveOf_nil_iff {s : RS} {id : Nat} : liveOf s id = [] ↔ ∀ l ∈ s.live, (l.1 == id) = false := by
  unfold liveOf
  rw [List.filter_eq_nil_iff]
  constructor
  · intro h l hl; simpa using h l hl
  · intro h l hl; simpa using h l hl

theorem M_publish {id : Nat} {s : RS} (h : M id s) (p : Plan) (ty r : Nat) :
    M id (publish p s ty r) ∧ s.log.length ≤ (publish p s ty r).log.length ∧
    (liveOf s id = [] → savedOf (publish p s ty r) id = savedOf s id ∧ liveOf (publish p s ty r) id = []) := by
  rw [publish_eq]
  have hs2 : M id (if failsAt p s then bump s else app (bump s) ty r) ∧
      s.log.length ≤ (if failsAt p s then bump s else app (bump s) ty r).log.length ∧
      (if failsAt p s then bump s else app (bump s) ty r).live = s.live ∧
      savedOf (if failsAt p s then bump s else app (bump s) ty r) id = savedOf s id := by
    split
    · exact ⟨M_bump h, Nat.le_refl _, rfl, rfl⟩
    · exact ⟨M_app (M_bump h) ty r, by simp, rfl, rfl⟩
  generalize (if failsAt p s then bump s else app (bump s) ty r) = s2 at hs2
  obtain ⟨m2, hlen, hlive, hsaved⟩ := hs2
  simp only []
  split
  · exact ⟨M_die m2, hlen, fun _ => ⟨hsaved, rfl⟩⟩
  · obtain ⟨b1, b2, b3, b4⟩ := M_pfold p ty r s2.live s2 m2
    refine ⟨b1, by rw [b2]; exact hlen, ?_⟩
    intro hl
    rw [liveOf_nil_iff, ← hlive] at hl
    refine ⟨(b4 hl).trans hsaved, ?_⟩
    rcases b3 with b3 | b3
    · rw [liveOf_nil_iff, b3]; exact hl
    · unfold liveOf; rw [b3]; rfl

theorem M_nest {id : Nat} {s : RS} (h : M id s) (p : Plan) (pd : Option (Nat × Nat)) (first : Bool) :
    M id (nest p pd first s) ∧ s.log.length ≤ (nest p pd first s).log.length ∧
    (liveOf s id = [] → savedOf (nest p pd first s) id = savedOf s id ∧ liveOf (nest p pd first s) id = []) := by
  unfold nest; split
  · exact M_publish h p _ _
  · exact ⟨h, Nat.le_refl _, fun hl => ⟨rfl, hl⟩⟩

/-- replay of another id -/
theorem M_rstep_other {id : Nat} {s : RS} (h : M id s) (p : Plan) (id' ty : Nat) (pd : Option (Nat × Nat))
    (b : Bool) (e : Nat × Nat × Nat) (hne : (id' == id) = false) (he : e.1 ≤ s.log.length) :
    M id (rstep p id' ty pd (s, b) e).1 ∧ s.log.length ≤ (rstep p id' ty pd (s, b) e).1.log.length := by
  unfold rstep
  split
  · exact ⟨h, Nat.le_refl _⟩
  · obtain ⟨n1, n2, _⟩ := M_nest (M_deliver h id' e.2.2) p pd b
    have hlog := (W_fin n1.w p id' e.1 (Nat.le_trans he n2)).2
    refine ⟨M_fin n1 p id' e.1 (fun hi => by rw [hne] at hi; cases hi) (Nat.le_trans he n2), ?_⟩
    show s.log.length ≤ (fin p id' e.1 _).log.length
    rw [hlog]; exact n2

theorem M_rfold_other {id : Nat} (p : Plan) (id' ty : Nat) (pd : Option (Nat × Nat)) (hne : (id' == id) = false) :
    ∀ (evs : List (Nat × Nat × Nat)) (acc : RS × Bool), M id acc.1 → (∀ e ∈ evs, e.1 ≤ acc.1.log.length) →
      M id (evs.foldl (rstep p id' ty pd) acc).1 := by
  intro evs
  induction evs with
  | nil => intro acc h _; exact h
  | cons e evs ih =>
    intro acc h he
    have h1 := M_rstep_other h p id' ty pd acc.2 e hne (he e (List.mem_cons_self ..))
    simp only [List.foldl_cons]
    exact ih _ h1.1 (fun e' he' => Nat.le_trans (he e' (List.mem_cons_of_mem _ he')) h1.2)

/-- replay of `id` itself, while it is not live -/
theorem M_rstep_self {id : Nat} {s : RS} (h : M id s) (p : Plan) (ty : Nat) (pd : Option (Nat × Nat))
    (b : Bool) (k : Nat) (e : Nat × Nat) (hs : savedOf s id ≤ k) (hnl : liveOf s id = [])
    (hk : k + 1 ≤ s.log.length) :
    M id (rstep p id ty pd (s, b) (k + 1, e.1, e.2)).1 ∧
    savedOf (rstep p id ty pd (s, b) (k + 1, e.1, e.2)).1 id ≤ k + 1 ∧
    liveOf (rstep p id ty pd (s, b) (k + 1, e.1, e.2)).1 id = [] ∧
    s.log.length ≤ (rstep p id ty pd (s, b) (k + 1, e.1, e.2)).1.log.length := by
  unfold rstep
  split
  · exact ⟨h, Nat.le_trans hs (Nat.le_succ _), hnl, Nat.le_refl _⟩
  · obtain ⟨n1, n2, n3⟩ := M_nest (M_deliver h id e.2) p pd b
    obtain ⟨n3, n4⟩ := n3 hnl
    have n3' : savedOf (nest p pd b (deliver s id e.2)) id ≤ k := by rw [n3]; exact hs
    have hk' := Nat.le_trans hk n2
    have hlog := (W_fin n1.w p id (k + 1) hk').2
    refine ⟨M_fin n1 p id (k + 1) (fun _ => Nat.le_trans n3' (Nat.le_succ _)) hk', ?_, ?_, ?_⟩
    · show savedOf (fin p id (k + 1) _) id ≤ k + 1
      cases hd : (nest p pd b (deliver s id e.2)).dead
      · obtain ⟨_, _, _, _, a5⟩ := fin_spec p id (k + 1) id _ hd
        rcases a5 with a5 | ⟨_, a5⟩
        · rw [a5]; exact Nat.le_trans n3' (Nat.le_succ _)
        · rw [a5]; exact Nat.le_refl _
      · simp only [fin, hd, if_true]; exact Nat.le_trans n3' (Nat.le_succ _)
    · show liveOf (fin p id (k + 1) _) id = []
      cases hd : (nest p pd b (deliver s id e.2)).dead
      · obtain ⟨_, _, a3, _, _⟩ := fin_spec p id (k + 1) id _ hd
        rcases a3 with ⟨hl, _⟩ | ⟨hl, _⟩
        · unfold liveOf; rw [hl]; exact n4
        · unfold liveOf; rw [hl]; rfl
      · simp only [fin, hd, if_true]; exact n4
    · show s.log.length ≤ (fin p id (k + 1) _).log.length
      rw [hlog]; exact n2

theorem M_rfold_self {id : Nat} (p : Plan) (ty : Nat) (pd : Option (Nat × Nat)) :
    ∀ (l : List (Nat × Nat)) (k : Nat) (acc : RS × Bool), M id acc.1 → savedOf acc.1 id ≤ k →
      liveOf acc.1 id = [] → k + l.length ≤ acc.1.log.length →
      M id ((evsFrom k l).foldl (rstep p id ty pd) acc).1 ∧
      liveOf ((evsFrom k l).foldl (rstep p id ty pd) acc).1 id = [] := by
  intro l
  induction l with
  | nil => intro k acc h _ hnl _; exact ⟨h, hnl⟩
  | cons e l ih =>
    intro k acc h hs hnl hk
    simp only [List.length_cons] at hk
    obtain ⟨a1, a2, a3, a4⟩ := M_rstep_self h p ty pd acc.2 k e hs hnl (by omega)
    have a4' : acc.1.log.length ≤ (rstep p id ty pd acc (k + 1, e.1, e.2)).1.log.length := a4
    simp only [evsFrom, List.foldl_cons]
    exact ih (k + 1) _ a1 a2 a3 (by omega)

theorem M_subscribe {id : Nat} {s : RS} (h : M id s) (p : Plan) (id' ty : Nat) (pd : Option (Nat × Nat))
    (hfresh : (id' == id) = true → liveOf s id = []) : M id (subscribe p s id' ty pd) := by
  rw [subscribe_eq]
  split
  · exact M_die (M_bump h)
  split
  · exact M_err (M_bump h) id'
  split
  · exact M_die (M_bump (M_bump h))
  split
  · exact M_err (M_bump (M_bump h)) id'
  simp only []
  have key : M id ((eventsAfter s.log (savedOf s id')).foldl (rstep p id' ty pd) (bump (bump s), true)).1 := by
    cases hid : id' == id
    · exact M_rfold_other p id' ty pd hid _ (bump (bump s), true) (M_bump (M_bump h))
        (fun e he => (mem_eventsAfter he).2)
    · have hnl := hfresh hid
      simp only [beq_iff_eq] at hid
      subst hid
      rw [eventsAfter_eq]
      have hsv := savedOf_le_of_W h.w id'
      exact (M_rfold_self p ty pd (s.log.drop (savedOf s id')) (savedOf s id') (bump (bump s), true)
        (M_bump (M_bump h)) (Nat.le_refl _) hnl (by simp only [List.length_drop, log_bump]; omega)).1
  split
  · exact key
  · exact M_addLive key id' ty

end Aux

/-- no subscription id is subscribed again while it is still live -/
def freshSubsFrom (p : Plan) : RS → List ROp → Bool
  | _, [] => true
  | s, op :: rest =>
    (match op with
     | .subscribe id _ _ => !isLive s id
     | _ => true) && freshSubsFrom p (stepOp p s op) rest

def freshSubs (p : Plan) (ops : List ROp) : Bool := freshSubsFrom p {} ops

namespace Aux

theorem M_foldl (p : Plan) (id : Nat) : ∀ (ops : List ROp) (s : RS), M id s →
    freshSubsFrom p s ops = true → M id (ops.foldl (stepOp p) s) := by
  intro ops
  induction ops with
  | nil => intro s h _; exact h
  | cons op ops ih =>
    intro s h hf
    simp only [freshSubsFrom, Bool.and_eq_true] at hf
    refine ih _ ?_ hf.2
    cases op with
    | publish ty r => exact M_undead (M_publish h p ty r).1
    | subscribe id' ty pd =>
      refine M_undead (M_subscribe h p id' ty pd ?_)
      intro hid
      simp only [beq_iff_eq] at hid
      subst hid
      have h1 := hf.1
      simp only [Bool.not_eq_true'] at h1
      rw [isLive_eq] at h1
      simpa using h1
    | restart => exact ⟨h.pw, h.ub, ⟨h.w.1, Nat.zero_le _⟩, Or.inl rfl⟩

theorem freshSubsFrom_of_wellFormedFrom (p : Plan) (tyOf : Nat → Nat) : ∀ (ops : List ROp) (s : RS),
    wellFormedFrom p tyOf s ops = true → freshSubsFrom p s ops = true := by
  intro ops
  induction ops with
  | nil => intro s _; rfl
  | cons op ops ih =>
    intro s h
    simp only [wellFormedFrom, Bool.and_eq_true] at h
    simp only [freshSubsFrom, Bool.and_eq_true]
    refine ⟨?_, ih _ h.2⟩
    cases op with
    | publish ty r => rfl
    | subscribe id ty pd =>
      have := h.1
      simp only [Bool.and_eq_true] at this
      exact this.1.2
    | restart => rfl
end Aux

/-- without crash or fault: what a subscription has been given is, at every moment, a prefix of
the persisted events of its type in log order – each exactly once – and everything once the
subscription is live (all its missed events were replayed, all later ones delivered live) -/
theorem resume_exactly_once (tyOf : Nat → Nat) (ops : List ROp) (hwf : wellFormed {} tyOf ops = true) (id : Nat) :
    let s := run {} ops
    deliveredTo s id <+: typed s.log (tyOf id) ∧ (isLive s id = true → deliveredTo s id = typed s.log (tyOf id)) := by
  have h := Aux.E_foldl tyOf id ops {} (Aux.E_init tyOf id) hwf
  refine ⟨?_, ?_⟩
  · show deliveredTo (run {} ops) id <+: _
    rw [show deliveredTo (run {} ops) id = _ from h.saved]
    exact Aux.typed_take_prefix _ _ _
  · intro hl
    rw [Aux.isLive_eq] at hl
    rcases h.live with h0 | ⟨_, h1⟩
    · rw [show Aux.liveOf (run {} ops) id = [] from h0] at hl; simp at hl
    · exact h1

/-- with a crash after ANY store operation and/or a failure of ANY single store operation:
nothing is lost and nothing is reordered – the persisted events of the subscription's type are,
in log order, a subsequence of what it was given once it is live again (what may be added are
re-deliveries of events whose position had not been saved, and live deliveries of events whose
append failed) -/
theorem resume_at_least_once (p : Plan) (tyOf : Nat → Nat) (ops : List ROp) (hwf : wellFormed p tyOf ops = true) (id : Nat) :
    let s := run p ops
    isLive s id = true → List.Sublist (typed s.log (tyOf id)) (deliveredTo s id) := by
  intro s hl
  have h := Aux.A_foldl p tyOf id ops {} (Aux.A_init _ _) hwf
  refine Aux.F_live' h.2 h.1 ?_
  intro h0
  rw [Aux.isLive_eq] at hl
  rw [show Aux.liveOf s id = [] from h0] at hl
  simp at hl


/- NOTE: `saved_offset_monotone` above is FALSE as stated (see `saved_offset_monotone_counterexample`
below, checked by `decide`): when an id is subscribed again while it is still live and the replay
handler publishes re-entrantly, the live copy saves the new (larger) offset and the replay then
saves the older snapshot offsets.  It holds as soon as no id is subscribed while it is live
(`saved_offset_monotone_of_freshSubs`), in particular for well-formed histories. -/

/-- `saved_offset_monotone` as stated is false: -/
theorem saved_offset_monotone_counterexample :
    ¬ List.Pairwise (· ≤ ·) (savesOf (run {} [ROp.subscribe 7 2 none, .publish 1 1, .publish 1 2,
        .subscribe 7 1 (some (2, 9))]) 7) := by
  decide

/-- corrected statement -/
theorem saved_offset_monotone_of_freshSubs (p : Plan) (ops : List ROp) (hfresh : freshSubs p ops = true)
    (id : Nat) : List.Pairwise (· ≤ ·) (savesOf (run p ops) id) :=
  (Aux.M_foldl p id ops {} ⟨List.Pairwise.nil, fun _ hx => (by cases hx), ⟨by simp, by simp⟩, Or.inl rfl⟩ hfresh).pw

theorem saved_offset_monotone_of_wellFormed (p : Plan) (tyOf : Nat → Nat) (ops : List ROp)
    (hwf : wellFormed p tyOf ops = true) (id : Nat) : List.Pairwise (· ≤ ·) (savesOf (run p ops) id) :=
  saved_offset_monotone_of_freshSubs p ops (Aux.freshSubsFrom_of_wellFormedFrom p tyOf ops {} hwf) id

/-- the saved offset is the last successfully saved one and never exceeds the log -/
theorem saved_within_log (p : Plan) (ops : List ROp) (id : Nat) :
    savedOf (run p ops) id ≤ (run p ops).log.length :=
  Aux.savedOf_le_of_W (Aux.W_run p ops) id

/-- different subscription ids progress independently: what `id` is given does not depend on
the other subscriptions of the history (fault-free, well-formed histories) -/
theorem ids_independent (tyOf : Nat → Nat) (ops : List ROp) (hwf : wellFormed {} tyOf ops = true) (id : Nat) :
    let ops' := ops.filter (fun op => match op with | .subscribe id' _ _ => id' == id | _ => true)
    deliveredTo (run {} ops) id = deliveredTo (run {} ops') id := by
  exact (Aux.R_foldl tyOf id ops {} {} ⟨rfl, rfl, rfl, rfl, rfl, rfl, rfl⟩ hwf).deliv

/-- KNOWN FINDING (C12): an event published while SubscribeWithReplay is running – here by the
handler itself during the replay – is persisted but never delivered to that subscription, not
even after a restart: it is neither in the replay's snapshot nor seen by the live handler, and
the next live event moves the saved offset past it -/
theorem publish_during_replay_lost :
    let ops := [ROp.publish 1 1, .subscribe 7 1 (some (1, 9)), .publish 1 5, .restart, .subscribe 7 1 none]
    let s := run {} ops
    typed s.log 1 = [1, 9, 5] ∧ deliveredTo s 7 = [1, 5] ∧ isLive s 7 = true := by
  decide

end Ebu.Resume

import Ebu.Spec.ConcProgress
import Ebu.Proofs.Conc
import Ebu.Proofs.ConcProgressB
/-!
Deadlock freedom of the interleaving model M2 (C03, C06, C07): under the rank hypothesis of
`Ebu.Spec.ConcProgress`, in every reachable state in which some goroutine is unfinished some goroutine
can take a step.

The argument: a goroutine that cannot move waits for a sequential mutex, for its turn, or (`Wait`) for
the in-flight counter.  Every wait leads to another goroutine that is unfinished; with the measure
`2·ρ(type of the innermost activation)` for a mutex wait and `2·ρ(type of the job) + 1` for a turn wait,
that goroutine is either enabled or waits with a strictly smaller measure.
-/
namespace Ebu.Conc
open Ebu.Conc.Inv

namespace Inv

/-- parked at a sequential mutex that is held, or at a turn that is not the goroutine's, with the measure -/
def BlockedAt (ρ : Nat → Nat) (sh : Shared) (th : Thread) (n : Nat) : Prop :=
  (∃ r a f fs, th.pc = .lock r a ∧ th.frames = f :: fs ∧ r.rid ∈ sh.held ∧ n = 2 * ρ f.ty) ∨
  (∃ j, th.pc = .turn ∧ th.job = some j ∧ lookupD sh.serving j.reg.rid ≠ j.ticket ∧ n = 2 * ρ j.ty + 1)

/-- the three ways an unfinished thread can be unable to move -/
theorem stuck_cases (ρ : Nat → Nat) {sh : Shared} {th : Thread} (hok : ThOK th) (hen : enabled sh th = false)
    (hnd : th.pc ≠ .done) :
    (∃ n, BlockedAt ρ sh th n) ∨
    (th.pc = .op ∧ th.frames = [] ∧ (∃ prog, th.prog = .wait :: prog) ∧ sh.inflight ≠ 0) := by
  unfold enabled at hen
  split at hen
  · rename_i hpc; exact absurd hpc hnd
  · rename_i r a hpc
    have hheld : r.rid ∈ sh.held := by simpa using hen
    have : ∃ f fs, th.frames = f :: fs := by
      cases a <;> simp only [ThOK, hpc] at hok
      · obtain ⟨_, ⟨f, fs, hfr, _⟩, _⟩ := hok; exact ⟨f, fs, hfr⟩
      · obtain ⟨_, ⟨f, fs, hfr, _⟩, _⟩ := hok; exact ⟨f, fs, hfr⟩
    obtain ⟨f, fs, hfr⟩ := this
    exact .inl ⟨_, .inl ⟨r, a, f, fs, hpc, hfr, hheld, rfl⟩⟩
  · rename_i hpc
    simp only [ThOK, hpc] at hok
    obtain ⟨⟨j, hj, _⟩, _⟩ := hok
    rw [hj] at hen
    exact .inl ⟨_, .inr ⟨j, hpc, hj, by simpa using hen, rfl⟩⟩
  · rename_i hpc
    split at hen
    · rename_i prog hfr hp
      exact .inr ⟨hpc, hfr, ⟨_, hp⟩, by simpa using hen⟩
    · cases hen
  · cases hen

/-- a thread with an activation on its stack is in the middle of something -/
theorem busy_of_frames {th : Thread} (hok : ThOK th) (hs : ThS th) (hfr : th.frames ≠ []) :
    idle th.pc = false ∧ th.pc ≠ .done := by
  cases hpc : th.pc <;> simp only [ThOK, hpc] at hok <;> simp [idle]
  case astart => exact hfr hok.2
  case turn => exact hfr hok.2
  case aend => exact hfr hok.2
  case done => exact hfr (hs.doneF hpc)

/-- if no unfinished thread is enabled, no thread waits for a mutex or a turn -/
theorem no_blocked {ρ : Nat → Nat} {progs : List (List Op)} {all : List Reg} {s : Sys} (hr : Reachable progs s)
    (hq : SysQ ρ all s) (hstuck : ∀ th ∈ s.ths, th.pc ≠ .done → enabled s.sh th = false) :
    ∀ n, ∀ th ∈ s.ths, ¬ BlockedAt ρ s.sh th n := by
  intro n
  induction n using Nat.strongRecOn with
  | _ n ih =>
  intro L hL hb
  have hokL := thOK_reachable s hr L hL
  have hsL := thS_reachable s hr L hL
  have hqL := hq.ths L hL
  -- an unfinished thread with a job or with frames waits for a mutex
  have atLock : ∀ H ∈ s.ths, H.pc ≠ .done → H.pc ≠ .turn → (H.job.isSome ∨ H.frames ≠ []) →
      ∃ r a f fs, H.pc = .lock r a ∧ H.frames = f :: fs ∧ BlockedAt ρ s.sh H (2 * ρ f.ty) := by
    intro H hH hnd hnt hjf
    have hokH := thOK_reachable s hr H hH
    rcases stuck_cases ρ hokH (hstuck H hH hnd) hnd with ⟨m, hm⟩ | ⟨hpc, hfr, _, _⟩
    · rcases hm with ⟨r, a, f, fs, hpc, hfr, hheld, rfl⟩ | ⟨j, hpc, _⟩
      · exact ⟨r, a, f, fs, hpc, hfr, .inl ⟨r, a, f, fs, hpc, hfr, hheld, rfl⟩⟩
      · exact absurd hpc hnt
    · simp only [ThOK, hpc] at hokH
      rcases hjf with hj | hf
      · exact absurd hfr (hokH hj)
      · exact absurd hfr hf
  rcases hb with ⟨r, a, f, fs, hpc, hfr, hheld, rfl⟩ | ⟨j, hpc, hj, hne, rfl⟩
  · -- waiting for the mutex of `r`: somebody is inside `r`
    obtain ⟨hm1, hm2⟩ := mutex_reachable s hr r.rid
    have hc : 0 < s.sh.held.count r.rid := List.count_pos_iff.2 hheld
    obtain ⟨H, hH, hin⟩ := wsum_pos (w := inside r.rid) (l := s.ths) (by omega)
    have hokH := thOK_reachable s hr H hH
    have hsH := thS_reachable s hr H hH
    have hqH := hq.ths H hH
    rw [inside_eq] at hin
    obtain ⟨g, hg, hgin⟩ := List.countP_pos_iff.1 hin
    unfold insideF at hgin
    split at hgin
    case h_2 => cases hgin
    rename_i r' hr'
    simp only [Bool.and_eq_true, beq_iff_eq] at hgin
    obtain ⟨hseq, hrid⟩ := hgin
    obtain ⟨hQr, hrty⟩ := hqL.pcr r (by simp [hpc, pcReg])
    obtain ⟨hQr', hr'ty, _⟩ := (hqH.fr g hg).hand r' hr'
    have : r' = r := hq.uniq _ hQr' _ hQr hrid
    subst this
    have hHfr : H.frames ≠ [] := List.ne_nil_of_mem hg
    obtain ⟨hidleH, hndH⟩ := busy_of_frames hokH hsH hHfr
    by_cases hasync : r'.async = true
    · -- an async registration: both are goroutines of `r` in their turn
      obtain ⟨j2, hj2, hj2r⟩ := hsH.asyncH g hg r' hr' hasync
      cases a with
      | false => rw [hsL.lockF r' hpc] at hasync; cases hasync
      | true =>
        have hlen := hsL.lockT r' hpc
        simp only [ThOK, hpc] at hokL
        obtain ⟨_, ⟨f', fs', hfr', hfn⟩, j1, hj1, hj1r⟩ := hokL
        rw [hfr] at hfr' hlen; cases hfr'
        have hne : L ≠ H := by
          rintro rfl
          rw [hfr] at hg
          have : fs = [] := by simpa using hlen
          subst this
          simp only [List.mem_singleton] at hg
          subst hg
          rw [hfn] at hr'; cases hr'
        have hpL : prog r'.rid L = 1 := by simp [prog, hj1, hj1r, hseq, hpc, idle]
        have hpH : prog r'.rid H = 1 := by simp [prog, hj2, hj2r, hseq, hidleH]
        have h2 := wsum_two (prog r'.rid) hL hH hne
        have h1 := (tk2_reachable s hr r'.rid).one
        omega
    · -- a synchronous Sequential handler: its thread waits deeper in the rank order
      have hasync' : r'.async = false := by simpa using hasync
      obtain ⟨r2, a2, f2, fs2, hpc2, hfr2, hb2⟩ := atLock H hH hndH (by
        intro h; simp only [ThOK, h] at hokH; exact hHfr hokH.2) (.inr hHfr)
      have hf2n : f2.handler = none := by
        cases a2 <;> simp only [ThOK, hpc2] at hokH
        · obtain ⟨_, ⟨f', fs', h1, h2⟩, _⟩ := hokH; rw [hfr2] at h1; cases h1; exact h2
        · obtain ⟨_, ⟨f', fs', h1, h2⟩, _⟩ := hokH; rw [hfr2] at h1; cases h1; exact h2
      have hch := hqH.chain
      rw [hfr2] at hch hg
      simp only [List.mem_cons] at hg
      rcases hg with rfl | hg
      · rw [hf2n] at hr'; cases hr'
      · have hlt := ((List.pairwise_cons.1 hch).1 g hg).2 r' hr' hseq hasync'
        have hty : g.ty = f.ty := by rw [← hr'ty]; exact hrty f fs hfr
        rw [hty] at hlt
        exact ih (2 * ρ f2.ty) (by omega) H hH hb2
  · -- waiting for its turn
    simp only [ThOK, hpc] at hokL
    obtain ⟨⟨j', hj', hseq⟩, _⟩ := hokL
    rw [hj] at hj'; cases hj'
    have hholdL : hold j.reg.rid j.ticket L = 1 := by simp [hold, hpc, hj, hseq]
    obtain ⟨_, _, _, holders⟩ := tk_reachable s hr j.reg.rid
    obtain ⟨one, cover⟩ := tk2_reachable s hr j.reg.rid
    have hge := wsum_ge_mem (hold j.reg.rid j.ticket) hL
    obtain ⟨hlo, hhi⟩ := (holders j.ticket).2 (by omega)
    by_cases hP : wsum (prog j.reg.rid) s.ths = 0
    · -- nobody is in its turn: the goroutine holding the ticket being served can move
      obtain ⟨H, hH, hhold⟩ := wsum_pos (cover (lookupD s.sh.serving j.reg.rid) (by omega) (by omega))
      have hokH := thOK_reachable s hr H hH
      have hen : enabled s.sh H = true := by
        cases hpcH : H.pc <;> simp only [hold, hpcH] at hhold <;> try omega
        case spawn => simp [enabled, hpcH]
        case astart => simp [enabled, hpcH]
        case turn =>
          cases hjH : H.job with
          | none => simp [hjH] at hhold
          | some j' =>
            simp only [hjH] at hhold
            split at hhold
            · rename_i hc; simp [enabled, hpcH, hjH, hc.2.1, hc.2.2]
            · omega
      have hnd : H.pc ≠ .done := by
        intro h; simp [enabled, h] at hen
      rw [hstuck H hH hnd] at hen; cases hen
    · -- the goroutine that is in its turn waits for a mutex
      obtain ⟨H, hH, hprog⟩ := wsum_pos (w := prog j.reg.rid) (l := s.ths) (by omega)
      have hokH := thOK_reachable s hr H hH
      have hqH := hq.ths H hH
      unfold prog at hprog
      cases hjH : H.job with
      | none => simp [hjH] at hprog
      | some j2 =>
        simp only [hjH] at hprog
        split at hprog
        case isFalse => omega
        rename_i hc
        obtain ⟨hs2, hrid2, hidle2⟩ := hc
        have hnd : H.pc ≠ .done := by intro h; simp [h, idle] at hidle2
        have hnt : H.pc ≠ .turn := by intro h; simp [h, idle] at hidle2
        obtain ⟨r2, a2, f2, fs2, hpc2, hfr2, hb2⟩ := atLock H hH hnd hnt (.inl (by simp [hjH]))
        have hle := hqH.jobB j2 hjH f2 (by simp [hfr2])
        have hreg : j2.reg = j.reg := hq.uniq _ (hqH.job j2 hjH).1 _ (hqL.job j hj).1 hrid2
        have hty : j2.ty = j.ty := by rw [← (hqH.job j2 hjH).2, ← (hqL.job j hj).2, hreg]
        rw [hty] at hle
        exact ih (2 * ρ f2.ty) (by omega) H hH hb2

end Inv

/-- DEADLOCK FREEDOM of the interleaving model: under every schedule, as long as some goroutine has not
finished, some goroutine can take a step -/
theorem deadlock_free (ρ : Nat → Nat) (progs : List (List Op)) (hr : Ranked ρ progs)
    (s : Sys) (h : Reachable progs s) (hu : s.unfinished) : s.canStep := by
  apply Classical.byContradiction
  intro hno
  -- every thread that is not finished is not enabled
  have hstuck : ∀ th ∈ s.ths, th.pc ≠ .done → enabled s.sh th = false := by
    intro th hth _
    cases hen : enabled s.sh th with
    | false => rfl
    | true =>
      exfalso
      obtain ⟨o, ho⟩ := step_of_enabled (thOK_reachable s h th hth) (thS_reachable s h th hth) hen
      obtain ⟨i, hi⟩ := List.getElem?_of_mem hth
      exact hno ⟨i, { sh := o.sh, ths := s.ths.set i o.th ++ o.new }, by simp only [Sys.stepAt, hi, ho]⟩
  obtain ⟨all, hq⟩ := sysQ_reachable hr s h
  have hnb := no_blocked h hq hstuck
  obtain ⟨th, hth, hnd⟩ := hu
  rcases stuck_cases ρ (thOK_reachable s h th hth) (hstuck th hth hnd) hnd with ⟨n, hb⟩ | ⟨_, _, _, hinf⟩
  · exact hnb n th hth hb
  · -- `Wait` with work in flight: some goroutine is unfinished, or a publisher is about to start one
    rw [infl_reachable s h] at hinf
    obtain ⟨H, hH, hw⟩ := wsum_pos (w := wInfl) (l := s.ths) (by omega)
    have hokH := thOK_reachable s h H hH
    unfold wInfl at hw
    by_cases hsp : isSpawn H.pc = true
    · have hen : enabled s.sh H = true := by
        unfold isSpawn at hsp
        split at hsp
        · rename_i hpc; simp [enabled, hpc]
        · cases hsp
      have hnd' : H.pc ≠ .done := by intro h'; simp [enabled, h'] at hen
      rw [hstuck H hH hnd'] at hen; cases hen
    · simp only [hsp, Bool.false_eq_true, if_false, Nat.add_zero] at hw
      split at hw
      case isFalse => omega
      rename_i hc
      simp only [Bool.and_eq_true, bne_iff_ne, ne_eq] at hc
      obtain ⟨hj, hnd'⟩ := hc
      rcases stuck_cases ρ hokH (hstuck H hH hnd') hnd' with ⟨n, hb⟩ | ⟨hpc, hfr, _, _⟩
      · exact hnb n H hH hb
      · simp only [ThOK, hpc] at hokH
        exact hokH hj hfr

/-! ### the hypothesis is satisfiable, and it is needed -/

namespace ProgressExample

/-- two threads; `A` (synchronous, Sequential, on type 2) publishes type 1, where the synchronous Sequential
`B` and the Async+Sequential `C` listen; both publish type 0, where the synchronous Sequential `D` listens;
both threads end in `Wait` -/
def exProgs : List (List Op) :=
  [ [ .subscribe 2 0 false false true none [(1, 7)],          -- A
      .subscribe 1 1 false false true none [(0, 2)],          -- B
      .subscribe 1 2 false true true none [(0, 1), (1, 9)],   -- C: Async+Sequential, publishes its own type too
      .subscribe 0 3 true false true (some (2, 1)) [],        -- D
      .publish 2 5 .bg,
      .wait ],
    [ .publish 2 6 .bg,
      .publish 1 3 (.shared 1),
      .cancel 1,
      .wait ] ]

def exRank : Nat → Nat := fun ty => ty

theorem exProgs_ranked : Ranked exRank exProgs := by
  intro p hp op hop
  simp only [exProgs, List.mem_cons, List.not_mem_nil, or_false] at hp
  rcases hp with rfl | rfl <;>
    simp only [List.mem_cons, List.not_mem_nil, or_false] at hop <;>
    rcases hop with rfl | rfl | rfl | rfl | rfl | rfl <;> simp [RankedOp, exRank]

/-- so no schedule of `exProgs` deadlocks -/
example (s : Sys) (h : Reachable exProgs s) (hu : s.unfinished) : s.canStep :=
  deadlock_free exRank exProgs exProgs_ranked s h hu

/-- running a schedule given as the list of the thread numbers that move -/
def run (s : Sys) : List Nat → Option Sys
  | [] => some s
  | i :: is => (s.stepAt i).bind (fun s' => run s' is)

theorem run_reachable {progs : List (List Op)} {sched : List Nat} :
    ∀ {s s' : Sys}, Reachable progs s → run s sched = some s' → Reachable progs s' := by
  induction sched with
  | nil => intro s s' hr h; simp only [run, Option.some.injEq] at h; exact h ▸ hr
  | cons i is ih =>
    intro s s' hr h
    simp only [run] at h
    cases hst : s.stepAt i with
    | none => simp [hst] at h
    | some s1 => rw [hst] at h; exact ih (.step hr hst) h

/-- a prefix of a schedule of `exProgs`: both threads publish type 2, thread 0 enters `A` -/
def exSched : List Nat := [0, 0, 0, 0, 0, 1, 0, 1, 0]

theorem exRuns : (run (initSys exProgs) exSched).isSome = true := by decide +kernel

/-- thread 0 is inside `A`, thread 1 waits for the mutex of `A` -/
def exState : Sys := (run (initSys exProgs) exSched).get exRuns

/-- the theorem applies to a state in which a thread is blocked -/
example : Reachable exProgs exState ∧ (∃ th ∈ exState.ths, th.pc ≠ .done ∧ enabled exState.sh th = false) ∧
    exState.canStep := by
  have hr : Reachable exProgs exState := run_reachable .init (Option.some_get exRuns).symm
  have hb : (exState.ths.any (fun th => th.pc != .done && !enabled exState.sh th)) = true := by decide +kernel
  obtain ⟨th, hth, hpc⟩ := List.any_eq_true.1 hb
  simp only [Bool.and_eq_true, bne_iff_ne, ne_eq, Bool.not_eq_eq_eq_not, Bool.not_true] at hpc
  exact ⟨hr, ⟨th, hth, hpc.1, hpc.2⟩, deadlock_free exRank exProgs exProgs_ranked _ hr ⟨th, hth, hpc.1⟩⟩

/-- without a rank: `A` on type 1 publishes type 2, `B` on type 2 publishes type 1, both synchronous and
Sequential -/
def dlProgs : List (List Op) :=
  [ [ .subscribe 1 0 false false true none [(2, 0)],
      .subscribe 2 1 false false true none [(1, 0)],
      .publish 1 0 .bg ],
    [ .publish 2 0 .bg ] ]

/-- both publish, each enters "its" handler, each handler publishes the other type -/
def dlSched : List Nat := [0, 0, 0, 1, 0, 1, 0, 1, 0, 1, 0, 1]

theorem dlRuns : (run (initSys dlProgs) dlSched).isSome = true := by decide +kernel

/-- thread 0 holds the mutex of `A` and waits for that of `B`; thread 1 the other way round -/
def dlState : Sys := (run (initSys dlProgs) dlSched).get dlRuns

theorem enabled_of_stepAt {s s' : Sys} {i : Nat} (h : s.stepAt i = some s') :
    ∃ th ∈ s.ths, enabled s.sh th = true := by
  unfold Sys.stepAt at h
  split at h
  · cases h
  · rename_i th hth
    refine ⟨th, List.mem_of_getElem? hth, ?_⟩
    cases hen : enabled s.sh th with
    | true => rfl
    | false => simp [step, hen] at h

/-- a reachable deadlock of `dlProgs` -/
theorem dl_deadlock : Reachable dlProgs dlState ∧ dlState.unfinished ∧ ¬ dlState.canStep := by
  refine ⟨run_reachable .init (Option.some_get dlRuns).symm, ?_, ?_⟩
  · have : (dlState.ths.any (fun th => th.pc != .done)) = true := by decide +kernel
    obtain ⟨th, hth, hpc⟩ := List.any_eq_true.1 this
    exact ⟨th, hth, by simpa using hpc⟩
  · rintro ⟨i, s', h⟩
    obtain ⟨th, hth, hen⟩ := enabled_of_stepAt h
    have : (dlState.ths.all (fun th => !enabled dlState.sh th)) = true := by decide +kernel
    have := List.all_eq_true.1 this th hth
    simp [hen] at this

/-- hence `dlProgs` has no rank: the hypothesis of `deadlock_free` cannot be dropped -/
theorem dlProgs_not_ranked : ¬ ∃ ρ, Ranked ρ dlProgs := by
  rintro ⟨ρ, hρ⟩
  exact dl_deadlock.2.2 (deadlock_free ρ dlProgs hρ dlState dl_deadlock.1 dl_deadlock.2.1)

end ProgressExample

end Ebu.Conc

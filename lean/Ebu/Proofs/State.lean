import Ebu.Spec.State
/-!
Materialized state is the fold of the message log (C18); messages survive the round trip and
bad input is rejected without damage (C19).
-/
namespace Ebu.State

theorem registered_of_cols (m m' : Mat) (ty : Nat)
    (h : m'.cols.map Prod.fst = m.cols.map Prod.fst) : m'.registered ty = m.registered ty := by
  have : ∀ (l : List (Nat × Coll)), l.any (fun p => p.1 == ty) = (l.map Prod.fst).any (· == ty) := by
    intro l; simp [List.any_map, Function.comp_def]
  simp only [Mat.registered, this, h]

theorem updateColl_fst (m : Mat) (ty : Nat) (f : Coll → Coll) :
    (m.updateColl ty f).cols.map Prod.fst = m.cols.map Prod.fst := by
  simp only [Mat.updateColl, List.map_map]
  congr 1; funext p; simp only [Function.comp]; split <;> rfl

theorem apply_fst (m : Mat) (e : Ev) : (m.apply e).1.cols.map Prod.fst = m.cols.map Prod.fst := by
  obtain ⟨off, msg⟩ := e
  cases msg with
  | garbage => rfl
  | control k => cases k <;> simp [Mat.apply, Function.comp_def]
  | change ty key op val valOk =>
    simp only [Mat.apply]
    by_cases hr : m.registered ty = true
    · cases op <;> cases valOk <;> simp [hr, updateColl_fst]
    · cases hs : m.strict <;> simp [hr]

theorem apply_strict (m : Mat) (e : Ev) : (m.apply e).1.strict = m.strict := by
  obtain ⟨off, msg⟩ := e
  cases msg with
  | garbage => rfl
  | control k => cases k <;> rfl
  | change ty key op val valOk =>
    simp only [Mat.apply]
    by_cases hr : m.registered ty = true
    · cases op <;> cases valOk <;> simp [hr, Mat.updateColl]
    · cases hs : m.strict <;> simp [hr, hs]

/-- registering collections does not depend on contents; the set of registered types and the
strict flag never change while applying -/
theorem apply_config (m : Mat) (e : Ev) :
    (m.apply e).1.strict = m.strict ∧ ∀ ty, (m.apply e).1.registered ty = m.registered ty :=
  ⟨apply_strict m e, fun ty => registered_of_cols _ _ ty (apply_fst m e)⟩

/-- whether `Apply` returns an error is exactly `¬ applies` -/
theorem apply_err_iff (m : Mat) (e : Ev) :
    (m.apply e).2 = !applies m.strict m.registered e := by
  obtain ⟨off, msg⟩ := e
  cases msg with
  | garbage => rfl
  | control k => rfl
  | change ty key op val valOk =>
    simp only [Mat.apply, applies]
    by_cases hr : m.registered ty = true
    · cases op <;> cases valOk <;> simp [hr]
    · cases hs : m.strict <;> simp [hr]

/-- C19: an event that cannot be applied leaves every collection and LastOffset unchanged -/
theorem apply_error_no_change (m : Mat) (e : Ev) (h : (m.apply e).2 = true) :
    (m.apply e).1.cols = m.cols ∧ (m.apply e).1.lastOffset = m.lastOffset := by
  obtain ⟨off, msg⟩ := e
  cases msg with
  | garbage => exact ⟨rfl, rfl⟩
  | control k => simp [Mat.apply] at h
  | change ty key op val valOk =>
    simp only [Mat.apply] at h ⊢
    by_cases hr : m.registered ty = true
    · cases op <;> cases valOk <;> simp [hr] at h ⊢
    · cases hs : m.strict <;> simp [hr, hs] at h ⊢

def collC (cols : List (Nat × Coll)) (ty : Nat) : Option Coll :=
  (cols.find? (fun p => p.1 == ty)).map (·.2)

theorem lookup_eq_coll (m : Mat) (ty key : Nat) :
    m.lookup ty key = (collC m.cols ty).bind (fun c => Coll.get c key) := by
  simp only [Mat.lookup, collC]
  cases m.cols.find? (fun p => p.1 == ty) <;> rfl

theorem coll_none_of_not_registered (m : Mat) (ty : Nat) (h : m.registered ty = false) :
    collC m.cols ty = none := by
  simp only [Mat.registered] at h
  simp only [collC, Option.map_eq_none_iff, List.find?_eq_none]
  intro p hp
  have := List.any_eq_false.mp h p hp
  simpa using this

theorem coll_isSome_of_registered (m : Mat) (ty : Nat) (h : m.registered ty = true) :
    ∃ c, collC m.cols ty = some c := by
  simp only [Mat.registered, List.any_eq_true] at h
  obtain ⟨p, hp, hpt⟩ := h
  cases hf : m.cols.find? (fun p => p.1 == ty) with
  | none => 
    rw [List.find?_eq_none] at hf
    exact absurd hpt (hf p hp)
  | some q => exact ⟨q.2, by simp [collC, hf]⟩

theorem coll_updateColl (cols : List (Nat × Coll)) (ty' : Nat) (f : Coll → Coll) (ty : Nat) :
    collC (cols.map (fun p => if p.1 == ty' then (p.1, f p.2) else p)) ty
      = if ty' = ty then (collC cols ty).map f else collC cols ty := by
  simp only [collC, List.find?_map]
  have hc : ((fun (p : Nat × Coll) => p.1 == ty) ∘ fun (p : Nat × Coll) => if (p.1 == ty') = true then (p.1, f p.2) else p)
      = (fun (p : Nat × Coll) => p.1 == ty) := by
    funext p; simp only [Function.comp]; split <;> rfl
  rw [hc]
  cases hf : cols.find? (fun p => p.1 == ty) with
  | none => simp
  | some q =>
    have hq : q.1 = ty := by simpa using List.find?_some hf
    by_cases h : ty' = ty
    · simp [h, hq]
    · have : ¬ q.1 = ty' := by rw [hq]; exact fun h' => h h'.symm
      simp [h, this]

theorem coll_updateColl' (m : Mat) (ty' : Nat) (f : Coll → Coll) (ty : Nat) :
    collC (m.updateColl ty' f).cols ty
      = if ty' = ty then (collC m.cols ty).map f else collC m.cols ty :=
  coll_updateColl m.cols ty' f ty

theorem coll_reset (cols : List (Nat × Coll)) (ty : Nat) :
    collC (cols.map (fun (p : Nat × Coll) => (p.1, ([] : Coll)))) ty
      = (collC cols ty).map (fun _ => []) := by
  simp only [collC, List.find?_map]
  have hc : ((fun (p : Nat × Coll) => p.1 == ty) ∘ fun (p : Nat × Coll) => (p.1, ([] : Coll)))
      = (fun (p : Nat × Coll) => p.1 == ty) := rfl
  rw [hc]
  cases cols.find? (fun p => p.1 == ty) <;> rfl

theorem get_set (c : Coll) (k v k' : Nat) :
    Coll.get (c.set k v) k' = if k = k' then some v else Coll.get c k' := by
  by_cases h : k = k'
  · simp [Coll.get, Coll.set, h]
  · simp only [Coll.get, Coll.set, h, if_false]
    rw [List.find?_cons_of_neg (by simpa using h), List.find?_filter]
    congr 2; funext p
    by_cases hp : p.1 = k' <;> simp [hp]
    intro h'; exact h h'.symm

theorem get_del (c : Coll) (k k' : Nat) :
    Coll.get (c.del k) k' = if k = k' then none else Coll.get c k' := by
  by_cases h : k = k'
  · simp [Coll.get, Coll.del, h, List.find?_filter]
  · simp only [Coll.get, Coll.del, h, if_false]
    rw [List.find?_filter]
    congr 2; funext p
    by_cases hp : p.1 = k' <;> simp [hp]
    intro h'; exact h h'.symm

/-- one step of `lastWrite` -/
def lwStep (strict : Bool) (reg : Nat → Bool) (ty key : Nat) (e : Ev) (acc : Option Nat) : Option Nat :=
  if !applies strict reg e then acc else
    match e.msg with
    | .control .reset => none
    | .change ty' key' op val _ =>
      if ty' = ty ∧ key' = key ∧ reg ty then
        (match op with | .insert | .update => some val | .delete => none | .other => acc)
      else acc
    | _ => acc

theorem lastWrite_cons (strict : Bool) (reg : Nat → Bool) (ty key : Nat) (e : Ev) (rest : List Ev)
    (acc : Option Nat) :
    lastWrite strict reg ty key (e :: rest) acc
      = lastWrite strict reg ty key rest (lwStep strict reg ty key e acc) := rfl

theorem lookup_of_cols (m m' : Mat) (h : m'.cols = m.cols) (ty key : Nat) :
    m'.lookup ty key = m.lookup ty key := by
  simp only [Mat.lookup, h]

theorem apply_lookup (m : Mat) (e : Ev) (ty key : Nat) :
    (m.apply e).1.lookup ty key = lwStep m.strict m.registered ty key e (m.lookup ty key) := by
  obtain ⟨off, msg⟩ := e
  cases msg with
  | garbage => rfl
  | control k =>
    cases k
    · simp only [Mat.apply, lwStep, applies, lookup_eq_coll, coll_reset]
      cases collC m.cols ty <;> simp [Coll.get]
    all_goals rfl
  | change ty' key' op val valOk =>
    by_cases hr : m.registered ty' = true
    · obtain ⟨c, hc⟩ := coll_isSome_of_registered m ty' hr
      cases op <;> cases valOk <;>
        by_cases hty : ty' = ty <;> by_cases hk : key' = key <;> subst_vars <;>
        simp_all [Mat.apply, lwStep, applies, lookup_eq_coll, coll_updateColl', get_set, get_del]
    · have hn := coll_none_of_not_registered m ty' (by simpa using hr)
      cases hs : m.strict <;> simp only [Mat.apply, lwStep, applies, hr, hs, lookup_eq_coll]
        <;> by_cases hty : ty' = ty <;> subst_vars <;> simp_all

theorem registered_apply (m : Mat) (e : Ev) : (m.apply e).1.registered = m.registered :=
  funext fun ty => (apply_config m e).2 ty

theorem applyAll_cons (m : Mat) (e : Ev) (l : List Ev) :
    applyAll m (e :: l) = applyAll (m.apply e).1 l := rfl

theorem materialize_eq_fold_aux (m : Mat) (log : List Ev) (ty key : Nat) :
    (applyAll m log).lookup ty key = lastWrite m.strict m.registered ty key log (m.lookup ty key) := by
  induction log generalizing m with
  | nil => rfl
  | cons e rest ih =>
    rw [applyAll_cons, ih, lastWrite_cons, apply_strict, registered_apply, apply_lookup]

/-- C18: after any sequence of messages each registered collection holds exactly the last
written value of every key that was not deleted or reset afterwards -/
theorem materialize_eq_fold (m : Mat) (log : List Ev) (ty key : Nat)
    (hnodup : (m.cols.map (·.1)).Nodup) :
    (applyAll m log).lookup ty key = lastWrite m.strict m.registered ty key log (m.lookup ty key) := by
  have _ := hnodup  -- not needed: `lookup` reads the first collection of a type, `updateColl` maps all
  exact materialize_eq_fold_aux m log ty key

/-- snapshot markers, unknown operations, unknown control kinds and – in non-strict mode –
messages for unregistered entity types change no collection -/
theorem identities (m : Mat) (e : Ev)
    (h : (∃ k, e.msg = .control k ∧ k ≠ .reset) ∨ (∃ ty key val ok, e.msg = .change ty key .other val ok) ∨
         (∃ ty key op val ok, e.msg = .change ty key op val ok ∧ m.registered ty = false)) :
    (m.apply e).1.cols = m.cols := by
  obtain ⟨off, msg⟩ := e
  rcases h with ⟨k, hk, hne⟩ | ⟨ty, key, val, ok, hm⟩ | ⟨ty, key, op, val, ok, hm, hr⟩
  · simp only at hk; subst hk
    cases k
    · exact absurd rfl hne
    all_goals rfl
  · simp only at hm; subst hm
    simp only [Mat.apply]
    split
    · split <;> rfl
    · rfl
  · simp only at hm; subst hm
    simp only [Mat.apply, hr]
    cases m.strict <;> rfl

/-- reset empties every collection -/
theorem reset_empties_all (m : Mat) (off : Nat) (ty key : Nat) :
    ((m.apply ⟨off, .control .reset⟩).1).lookup ty key = none ∧ (m.apply ⟨off, .control .reset⟩).2 = false := by
  refine ⟨?_, rfl⟩
  rw [apply_lookup]; rfl

theorem apply_lastOffset (m : Mat) (e : Ev) :
    (m.apply e).1.lastOffset = if applies m.strict m.registered e then e.off else m.lastOffset := by
  obtain ⟨off, msg⟩ := e
  cases msg with
  | garbage => rfl
  | control k => cases k <;> rfl
  | change ty key op val valOk =>
    simp only [Mat.apply, applies]
    by_cases hr : m.registered ty = true
    · cases op <;> cases valOk <;> simp [hr, Mat.updateColl]
    · cases hs : m.strict <;> simp [hr]

/-- LastOffset is the offset of the last successfully applied event -/
theorem lastOffset_spec (m : Mat) (log : List Ev) :
    (applyAll m log).lastOffset = lastApplied m.strict m.registered log m.lastOffset := by
  induction log generalizing m with
  | nil => rfl
  | cons e rest ih =>
    rw [applyAll_cons, ih, apply_strict, registered_apply, apply_lastOffset]; rfl

/-- `Replay` = apply until the first failing event -/
theorem replay_spec (m : Mat) (log : List Ev) (h : ∀ e ∈ log, applies m.strict m.registered e = true) :
    m.replay log = (applyAll m log, false) := by
  induction log generalizing m with
  | nil => rfl
  | cons e rest ih =>
    have he : (m.apply e).2 = false := by
      rw [apply_err_iff, h e (List.mem_cons_self)]; rfl
    have : m.replay (e :: rest) = (m.apply e).1.replay rest := by
      simp only [Mat.replay, he]; rfl
    rw [this, applyAll_cons]
    apply ih
    intro e' he'
    rw [apply_strict, registered_apply]
    exact h e' (List.mem_cons_of_mem _ he')

theorem applyAll_append (m : Mat) (l1 l2 : List Ev) :
    applyAll m (l1 ++ l2) = applyAll (applyAll m l1) l2 := by
  simp only [applyAll, List.foldl_append]

theorem applyAll_strict (m : Mat) (l : List Ev) : (applyAll m l).strict = m.strict := by
  induction l generalizing m with
  | nil => rfl
  | cons e rest ih => rw [applyAll_cons, ih, apply_strict]

theorem applyAll_registered (m : Mat) (l : List Ev) : (applyAll m l).registered = m.registered := by
  induction l generalizing m with
  | nil => rfl
  | cons e rest ih => rw [applyAll_cons, ih, registered_apply]

theorem after_eq_self (o : Nat) (l : List Ev) (h : ∀ e ∈ l, o < e.off) : after o l = l := by
  simp only [after, List.filter_eq_self]
  intro e he; simpa using h e he

theorem after_eq_nil (o : Nat) (l : List Ev) (h : ∀ e ∈ l, e.off ≤ o) : after o l = [] := by
  simp only [after, List.filter_eq_nil_iff]
  intro e he; have := h e he; simp; omega

theorem after_resume (m : Mat) (l1 l2 : List Ev) (hinc : increasing (l1 ++ l2))
    (hstart : ∀ e ∈ l1 ++ l2, m.lastOffset < e.off)
    (hok : ∀ e ∈ l1, applies m.strict m.registered e = true) :
    after (applyAll m l1).lastOffset (l1 ++ l2) = l2 := by
  rcases List.eq_nil_or_concat l1 with rfl | ⟨L, b, rfl⟩
  · exact after_eq_self _ _ hstart
  · simp only [List.concat_eq_append] at hinc hstart hok ⊢
    have hb : (applyAll m (L ++ [b])).lastOffset = b.off := by
      rw [applyAll_append]
      show ((applyAll m L).apply b).1.lastOffset = b.off
      rw [apply_lastOffset, applyAll_strict, applyAll_registered, hok b (by simp)]; rfl
    rw [hb]
    unfold increasing at hinc
    rw [List.pairwise_append] at hinc
    obtain ⟨h1, _, h12⟩ := hinc
    rw [List.pairwise_append] at h1
    obtain ⟨_, _, hLb⟩ := h1
    have e1 : after b.off (L ++ [b]) = [] := by
      apply after_eq_nil
      intro e he
      rcases List.mem_append.mp he with he | he
      · exact Nat.le_of_lt (hLb e he b (by simp))
      · simp at he; subst he; exact Nat.le_refl _
    have e2 : after b.off l2 = l2 := after_eq_self _ _ (fun e he => h12 b (by simp) e he)
    have : after b.off (L ++ [b] ++ l2) = after b.off (L ++ [b]) ++ after b.off l2 := by
      simp only [after, List.filter_append]
    rw [this, e1, e2]; rfl

/-- C18: applying a log in two sessions – the second resumed from LastOffset – gives the same
state as applying it in one (logs whose events all apply, with increasing offsets) -/
theorem resume_equiv (m : Mat) (l1 l2 : List Ev) (hinc : increasing (l1 ++ l2))
    (hstart : ∀ e ∈ l1 ++ l2, m.lastOffset < e.off)
    (hok : ∀ e ∈ l1 ++ l2, applies m.strict m.registered e = true) :
    ((m.replay l1).1.replay (after (m.replay l1).1.lastOffset (l1 ++ l2))).1 = (m.replay (l1 ++ l2)).1 := by
  have hok1 : ∀ e ∈ l1, applies m.strict m.registered e = true :=
    fun e he => hok e (List.mem_append_left _ he)
  have hok2 : ∀ e ∈ l2, applies (applyAll m l1).strict (applyAll m l1).registered e = true := by
    intro e he
    rw [applyAll_strict, applyAll_registered]
    exact hok e (List.mem_append_right _ he)
  rw [replay_spec m l1 hok1, replay_spec m (l1 ++ l2) hok]
  simp only
  rw [after_resume m l1 l2 hinc hstart hok1, replay_spec _ l2 hok2, applyAll_append]

/-- keys containing the separator cannot collide inside a collection: for a fixed entity
type the composite key determines the key -/
theorem compositeKey_inj (ty k1 k2 : String) (h : compositeKey ty k1 = compositeKey ty k2) : k1 = k2 := by
  simp only [compositeKey, String.append_assoc] at h
  exact (String.append_right_inj _).mp ((String.append_right_inj _).mp h)

end Ebu.State

namespace Ebu.StateWire

theorem fold_beq (a b : String) :
    (fold a == fold b) = decide (a.toList.map Char.toLower = b.toList.map Char.toLower) := by
  have : fold a = fold b ↔ a.toList.map Char.toLower = b.toList.map Char.toLower := by
    rw [← String.toList_inj, fold, fold, String.toList_map, String.toList_map]
  by_cases h : fold a = fold b
  · rw [beq_iff_eq.mpr h, decide_eq_true (this.mp h)]
  · rw [beq_eq_false_iff_ne.mpr h, decide_eq_false (fun x => h (this.mpr x))]


/-- C19: a control message built by the helpers is recognised as that control message
(helpers always set a non-empty control kind) -/
theorem decode_encode_control (m : Control) (h : m.control ≠ "") :
    decode (encodeControl m) = .control m.control := by
  cases ho : m.offset.isEmpty <;>
  simp [decode, encodeControl, controlOf, field, optField, fold_beq, asString, ho, h]

/-- C19: a change message built by the helpers decodes to the same entity type, key,
operation and value – for every option combination – and is never mistaken for a control message -/
theorem decode_encode_change (m : Change) :
    decode (encodeChange m) = .change m.ty m.key m.op (m.value.map Leaf.doc) := by
  obtain ⟨ty, key, op, value, old, txid, ts⟩ := m
  cases value <;> cases old <;> cases h1 : txid.isEmpty <;> cases h2 : ts.isEmpty <;>
    simp [decode, encodeChange, controlOf, changeOf, field, optField, fold_beq, asString, asStringV, h1, h2]

/-- anything that is not a JSON object (or null) is rejected -/
theorem decode_notObject : decode .notObject = .error := rfl

/-- C19: the serialised form uses exactly the state-protocol field names, with `omitempty` -/
theorem wire_field_names (m : Change) :
    ∃ hs, encodeChange m = .obj ([("type", .leaf (.str m.ty)), ("key", .leaf (.str m.key))] ++
        (match m.value with | some v => [("value", Val.leaf (.doc v))] | none => []) ++
        (match m.old with | some v => [("old_value", Val.leaf (.doc v))] | none => []) ++ [("headers", .obj hs)]) ∧
      hs.map (·.1) = ["operation"] ++ (if m.txid.isEmpty then [] else ["txid"]) ++ (if m.ts.isEmpty then [] else ["timestamp"]) := by
  refine ⟨_, rfl, ?_⟩
  cases h1 : m.txid.isEmpty <;> cases h2 : m.ts.isEmpty <;> simp [optField, h1, h2]

end Ebu.StateWire

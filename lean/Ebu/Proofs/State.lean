import Ebu.Spec.State
/-!
Materialized state is the fold of the message log (C18); messages survive the round trip and
bad input is rejected without damage (C19).
-/
namespace Ebu.State

/-- registering collections does not depend on contents; the set of registered types and the
strict flag never change while applying -/
theorem apply_config (m : Mat) (e : Ev) :
    (m.apply e).1.strict = m.strict ∧ ∀ ty, (m.apply e).1.registered ty = m.registered ty := by
  sorry

/-- whether `Apply` returns an error is exactly `¬ applies` -/
theorem apply_err_iff (m : Mat) (e : Ev) :
    (m.apply e).2 = !applies m.strict m.registered e := by
  sorry

/-- C19: an event that cannot be applied leaves every collection and LastOffset unchanged -/
theorem apply_error_no_change (m : Mat) (e : Ev) (h : (m.apply e).2 = true) :
    (m.apply e).1.cols = m.cols ∧ (m.apply e).1.lastOffset = m.lastOffset := by
  sorry

/-- C18: after any sequence of messages each registered collection holds exactly the last
written value of every key that was not deleted or reset afterwards -/
theorem materialize_eq_fold (m : Mat) (log : List Ev) (ty key : Nat)
    (hnodup : (m.cols.map (·.1)).Nodup) :
    (applyAll m log).lookup ty key = lastWrite m.strict m.registered ty key log (m.lookup ty key) := by
  sorry

/-- snapshot markers, unknown operations, unknown control kinds and – in non-strict mode –
messages for unregistered entity types change no collection -/
theorem identities (m : Mat) (e : Ev)
    (h : (∃ k, e.msg = .control k ∧ k ≠ .reset) ∨ (∃ ty key val ok, e.msg = .change ty key .other val ok) ∨
         (∃ ty key op val ok, e.msg = .change ty key op val ok ∧ m.registered ty = false)) :
    (m.apply e).1.cols = m.cols := by
  sorry

/-- reset empties every collection -/
theorem reset_empties_all (m : Mat) (off : Nat) (ty key : Nat) :
    ((m.apply ⟨off, .control .reset⟩).1).lookup ty key = none ∧ (m.apply ⟨off, .control .reset⟩).2 = false := by
  sorry

/-- LastOffset is the offset of the last successfully applied event -/
theorem lastOffset_spec (m : Mat) (log : List Ev) :
    (applyAll m log).lastOffset = lastApplied m.strict m.registered log m.lastOffset := by
  sorry

/-- `Replay` = apply until the first failing event -/
theorem replay_spec (m : Mat) (log : List Ev) (h : ∀ e ∈ log, applies m.strict m.registered e = true) :
    m.replay log = (applyAll m log, false) := by
  sorry

/-- C18: applying a log in two sessions – the second resumed from LastOffset – gives the same
state as applying it in one (logs whose events all apply, with increasing offsets) -/
theorem resume_equiv (m : Mat) (l1 l2 : List Ev) (hinc : increasing (l1 ++ l2))
    (hstart : ∀ e ∈ l1 ++ l2, m.lastOffset < e.off)
    (hok : ∀ e ∈ l1 ++ l2, applies m.strict m.registered e = true) :
    ((m.replay l1).1.replay (after (m.replay l1).1.lastOffset (l1 ++ l2))).1 = (m.replay (l1 ++ l2)).1 := by
  sorry

/-- keys containing the separator cannot collide inside a collection: for a fixed entity
type the composite key determines the key -/
theorem compositeKey_inj (ty k1 k2 : String) (h : compositeKey ty k1 = compositeKey ty k2) : k1 = k2 := by
  sorry

end Ebu.State

namespace Ebu.StateWire

/-- C19: a change message built by the helpers decodes to the same entity type, key,
operation and value – for every option combination – and is never mistaken for a control message -/
theorem decode_encode_change (m : Change) :
    decode (encodeChange m) = .change m.ty m.key m.op (m.value.map Leaf.doc) := by
  sorry

/-- C19: a control message built by the helpers is recognised as that control message
(helpers always set a non-empty control kind) -/
theorem decode_encode_control (m : Control) (h : m.control ≠ "") :
    decode (encodeControl m) = .control m.control := by
  sorry

/-- C19: the serialised form uses exactly the state-protocol field names, with `omitempty` -/
theorem wire_field_names (m : Change) :
    ∃ hs, encodeChange m = .obj ([("type", .leaf (.str m.ty)), ("key", .leaf (.str m.key))] ++
        (match m.value with | some v => [("value", Val.leaf (.doc v))] | none => []) ++
        (match m.old with | some v => [("old_value", Val.leaf (.doc v))] | none => []) ++ [("headers", .obj hs)]) ∧
      hs.map (·.1) = ["operation"] ++ (if m.txid.isEmpty then [] else ["txid"]) ++ (if m.ts.isEmpty then [] else ["timestamp"]) := by
  sorry

/-- anything that is not a JSON object (or null) is rejected -/
theorem decode_notObject : decode .notObject = .error := by
  sorry

end Ebu.StateWire

import Ebu.Spec.Log
/-!
Stores as append-only resumable logs (C10) and Replay over them (C11).
-/
namespace Ebu.Log
open Ebu.Replay

/-! ### offsets -/

theorem digitsW_length (w n : Nat) : (digitsW w n).length = w := by
  induction w generalizing n with
  | zero => rfl
  | succ w ih => simp [digitsW, ih]

theorem lexLt_irrefl (xs : List Nat) : lexLt xs xs = false := by
  induction xs with
  | nil => rfl
  | cons x xs ih => simp [lexLt, ih]

theorem lexLt_snoc (xs ys : List Nat) (a b : Nat) (h : xs.length = ys.length) :
    lexLt (xs ++ [a]) (ys ++ [b]) = (lexLt xs ys || (xs == ys && decide (a < b))) := by
  induction xs generalizing ys with
  | nil =>
    cases ys with
    | nil =>
      simp only [List.nil_append, lexLt]
      by_cases h1 : a < b
      · simp [h1]
      · simp [h1]
    | cons y ys => simp at h
  | cons x xs ih =>
    cases ys with
    | nil => simp at h
    | cons y ys =>
      have h' : xs.length = ys.length := by simpa using h
      simp only [List.cons_append, lexLt, ih ys h']
      by_cases h1 : x < y
      · simp [h1]
      · by_cases h2 : y < x
        · have : x ≠ y := by omega
          simp [h1, h2, this]
        · have : x = y := by omega
          subst this
          simp

theorem digitsW_inj (w a b : Nat) (ha : a < 10 ^ w) (hb : b < 10 ^ w)
    (h : digitsW w a = digitsW w b) : a = b := by
  induction w generalizing a b with
  | zero => simp at ha hb; omega
  | succ w ih =>
    simp only [digitsW] at h
    rw [Nat.pow_succ] at ha hb
    have hl : (digitsW w (a / 10)).length = (digitsW w (b / 10)).length := by
      simp [digitsW_length]
    have := List.append_inj h hl
    have h1 := ih (a / 10) (b / 10) (by omega) (by omega) this.1
    have h2 : zero + a % 10 = zero + b % 10 := by simpa using this.2
    omega

theorem digitsW_beq (w a b : Nat) (ha : a < 10 ^ w) (hb : b < 10 ^ w) :
    (digitsW w a == digitsW w b) = decide (a = b) := by
  by_cases h : a = b
  · subst h; simp
  · have : digitsW w a ≠ digitsW w b := fun e => h (digitsW_inj w a b ha hb e)
    simp [h, this]

theorem lexLt_digitsW (w a b : Nat) (ha : a < 10 ^ w) (hb : b < 10 ^ w) :
    lexLt (digitsW w a) (digitsW w b) = decide (a < b) := by
  induction w generalizing a b with
  | zero => simp at ha hb; subst ha; subst hb; rfl
  | succ w ih =>
    rw [Nat.pow_succ] at ha hb
    simp only [digitsW]
    rw [lexLt_snoc _ _ _ _ (by simp [digitsW_length]), ih _ _ (by omega) (by omega),
      digitsW_beq _ _ _ (by omega) (by omega)]
    by_cases h1 : a / 10 < b / 10
    · have : a < b := by omega
      simp [h1, this]
    · by_cases h2 : a / 10 = b / 10
      · simp [h2]
        by_cases h3 : a < b
        · simp [h3]; omega
        · simp [h3]; omega
      · have : ¬ a < b := by omega
        simp [h1, h2, this]

/-- zero-padded offsets compare like the numbers they denote (this is why `%020d` makes the
memory store's string comparison correct; a Go int64 is below 10^20) -/
theorem lexLt_fmt20 (a b : Nat) (ha : a < 10 ^ 20) (hb : b < 10 ^ 20) :
    lexLt (fmt20 a) (fmt20 b) = decide (a < b) := lexLt_digitsW 20 a b ha hb

theorem lexLt_fmt10 (a b : Nat) (ha : a < 10 ^ 10) (hb : b < 10 ^ 10) :
    lexLt (fmt10 a) (fmt10 b) = decide (a < b) := lexLt_digitsW 10 a b ha hb

theorem maxInt64_lt : maxInt64 < 10 ^ 20 := by
  decide

theorem digitsVal_snoc (xs : List Nat) (c : Nat) :
    digitsVal (xs ++ [c]) = digitsVal xs * 10 + (c - 48) := by
  simp [digitsVal, List.foldl_append]

theorem decimal_lt (n : Nat) (h : n < 10) : decimal n = [zero + n] := by
  rw [decimal]; simp [h]

theorem decimal_ge (n : Nat) (h : ¬ n < 10) : decimal n = decimal (n / 10) ++ [zero + n % 10] := by
  rw [decimal]; simp [h]

theorem decimal_ne_nil (n : Nat) : decimal n ≠ [] := by
  by_cases h : n < 10
  · rw [decimal_lt n h]; simp
  · rw [decimal_ge n h]; simp

theorem decimal_digits (n : Nat) : (decimal n).all isDigit = true := by
  induction n using Nat.strongRecOn with
  | _ n ih =>
    by_cases h : n < 10
    · rw [decimal_lt n h]; simp [isDigit, zero]; omega
    · rw [decimal_ge n h]
      have := ih (n / 10) (by omega)
      simp only [List.all_append, this, Bool.true_and]
      simp [isDigit, zero]; omega

theorem digitsVal_decimal (n : Nat) : digitsVal (decimal n) = n := by
  induction n using Nat.strongRecOn with
  | _ n ih =>
    by_cases h : n < 10
    · rw [decimal_lt n h]; simp [digitsVal, zero]
    · rw [decimal_ge n h, digitsVal_snoc, ih (n / 10) (by omega)]
      simp [zero]; omega

theorem decimal_inj (a b : Nat) (h : decimal a = decimal b) : a = b := by
  have := congrArg digitsVal h
  simpa [digitsVal_decimal] using this

/-- the sign-stripping match is the identity on strings that start with a digit -/
theorem signMatch_digits (s : List Nat) : s.all isDigit = true →
    parseInt64.match_1 (fun _ => Bool × List Nat) s (fun r => (true, r)) (fun r => (false, r))
      (fun r => (false, r)) = (false, s) := by
  intro h
  split
  · simp [isDigit] at h
  · simp [isDigit] at h
  · rfl

theorem parseInt64_digits (s : List Nat) (hne : s ≠ []) (h : s.all isDigit = true)
    (hv : digitsVal s ≤ maxInt64) : parseInt64 s = some (digitsVal s : Int) := by
  unfold parseInt64
  rw [signMatch_digits s h]
  simp [hne, h, hv]

/-- SQLite offsets round-trip through ParseInt -/
theorem sqlParse_decimal (n : Nat) (h : n ≤ maxInt64) : sqlParse (decimal n) = some (n : Int) := by
  unfold sqlParse
  have hne := decimal_ne_nil n
  have := parseInt64_digits (decimal n) hne (decimal_digits n) (by rw [digitsVal_decimal]; exact h)
  rw [digitsVal_decimal] at this
  simp [hne, this]

theorem decimal_10 : decimal 10 = [49, 48] := by
  rw [decimal_ge 10 (by omega), decimal_lt _ (by omega)]; rfl
theorem decimal_9 : decimal 9 = [57] := by
  rw [decimal_lt _ (by omega)]; rfl

/-- KNOWN FINDING (C10): unpadded decimal offsets do NOT increase under the documented
lexicographic comparison: offset "10" sorts before offset "9" -/
theorem sqlite_offsets_not_lex : lexLt (decimal 10) (decimal 9) = true := by
  rw [decimal_10, decimal_9]; decide

/-! ### the memory store -/

theorem logWith_length (off : Nat → Off) (rs : List Rec) : (logWith off rs).length = rs.length := by
  simp [logWith]

theorem logWith_getElem? (off : Nat → Off) (rs : List Rec) (i : Nat) :
    (logWith off rs)[i]? = rs[i]?.map (fun r => (off (i + 1), r)) := by
  by_cases h : i < rs.length
  · simp [logWith, h]
  · simp [logWith, Nat.le_of_not_lt h]

theorem logWith_getElem (off : Nat → Off) (rs : List Rec) (i : Nat) (h : i < (logWith off rs).length) :
    (logWith off rs)[i] = (off (i + 1), rs[i]'(by simpa [logWith_length] using h)) := by
  have := logWith_getElem? off rs i
  have h' : i < rs.length := by simpa [logWith_length] using h
  rw [List.getElem?_eq_getElem h, List.getElem?_eq_getElem h'] at this
  simpa using this

theorem logWith_snoc (off : Nat → Off) (rs : List Rec) (r : Rec) :
    logWith off (rs ++ [r]) = logWith off rs ++ [(off (rs.length + 1), r)] := by
  simp [logWith, List.range_succ, List.zip_append]

def lastOff (l : List (Off × Rec)) (d : Off) : Off :=
  match l.getLast? with | some e => e.1 | none => d

theorem lastOff_nil (d : Off) : lastOff [] d = d := rfl

theorem lastOff_cons (e : Off × Rec) (l : List (Off × Rec)) (d : Off) :
    lastOff (e :: l) d = lastOff l e.1 := by
  cases l with
  | nil => rfl
  | cons x xs =>
    have : (x :: xs).getLast? = some ((x :: xs).getLast (by simp)) :=
      List.getLast?_eq_some_getLast _
    simp [lastOff, List.getLast?_cons_cons, this]

/-- the last offset of a window of the log is the resume point after the window -/
theorem lastOff_window (off : Nat → Off) (rs : List Rec) (j k : Nat) :
    lastOff (((logWith off rs).drop j).take k) (resumeAt off j) =
      resumeAt off (j + (((logWith off rs).drop j).take k).length) := by
  generalize hs : ((logWith off rs).drop j).take k = s
  by_cases hnil : s = []
  · subst hnil; simp [lastOff]
  · have hlen : 0 < s.length := List.length_pos_iff.mpr hnil
    have hl := congrArg List.length hs
    simp only [List.length_take, List.length_drop, logWith_length] at hl
    have h1 : s.getLast? = s[s.length - 1]? := by
      rw [List.getLast?_eq_getElem?]
    have h2 : s[s.length - 1]? = (logWith off rs)[j + (s.length - 1)]? := by
      rw [← hs, List.getElem?_take_of_lt (by rw [hs]; omega), List.getElem?_drop]
    have hlt : j + (s.length - 1) < rs.length := by omega
    simp only [lastOff, h1, h2, logWith_getElem?, List.getElem?_eq_getElem hlt, Option.map_some]
    have e1 : j + (s.length - 1) + 1 = j + s.length := by omega
    have e2 : j + s.length ≠ 0 := by omega
    simp only [resumeAt, e1, if_neg e2]

theorem snoc_induction {α : Type} {P : List α → Prop} (hnil : P [])
    (hsnoc : ∀ l a, P l → P (l ++ [a])) : ∀ l, P l := by
  intro l
  rw [← List.reverse_reverse l]
  induction l.reverse with
  | nil => simpa using hnil
  | cons a t ih => rw [List.reverse_cons]; exact hsnoc _ _ ih

theorem memOf_snoc (rs : List Rec) (r : Rec) : memOf (rs ++ [r]) = ((memOf rs).append r).1 := by
  simp [memOf, List.foldl_append]

theorem mem_log (rs : List Rec) :
    (memOf rs).events = logWith fmt20 rs ∧ (memOf rs).next = rs.length := by
  induction rs using snoc_induction with
  | hnil => exact ⟨rfl, rfl⟩
  | hsnoc l a ih =>
    rw [memOf_snoc, logWith_snoc]
    simp [Mem.append, ih.1, ih.2]

theorem memReadLoop_skip (from_ : Off) (limit : Int) (pre post acc : List (Off × Rec)) (last : Off)
    (hP : ∀ e ∈ pre, (from_.isEmpty || lexLt from_ e.1) = false) :
    memReadLoop from_ limit (pre ++ post) acc last = memReadLoop from_ limit post acc last := by
  induction pre with
  | nil => rfl
  | cons e pre ih =>
    obtain ⟨o, r⟩ := e
    have h1 := hP (o, r) (by simp)
    simp only [List.cons_append, memReadLoop]
    simp only at h1
    rw [h1]
    simp only [Bool.false_eq_true, if_false]
    exact ih (fun e he => hP e (by simp [he]))

theorem memReadLoop_all (from_ : Off) (limit : Int) (post acc : List (Off × Rec)) (last : Off)
    (hP : ∀ e ∈ post, (from_.isEmpty || lexLt from_ e.1) = true)
    (hacc : 0 < limit → (acc.length : Int) < limit) :
    memReadLoop from_ limit post acc last =
      (acc ++ (if limit ≤ 0 then post else post.take (limit.toNat - acc.length)),
       lastOff (if limit ≤ 0 then post else post.take (limit.toNat - acc.length)) last) := by
  induction post generalizing acc last with
  | nil => simp [memReadLoop, lastOff]
  | cons e post ih =>
    obtain ⟨o, r⟩ := e
    have h1 := hP (o, r) (by simp)
    simp only at h1
    simp only [memReadLoop, h1, if_true]
    by_cases hl : limit ≤ 0
    · have hn : ¬ (limit > 0) := by omega
      simp only [hn, decide_false, Bool.false_and, Bool.false_eq_true, if_false]
      rw [ih _ _ (fun e he => hP e (by simp [he])) (by intro h; omega)]
      simp [hl, lastOff_cons]
    · have hp : limit > 0 := by omega
      have ha := hacc hp
      by_cases hstop : ((acc ++ [(o, r)]).length : Int) ≥ limit
      · simp only [hp, hstop, decide_true, Bool.and_self, if_true, hl, if_false]
        have : limit.toNat - acc.length = 1 := by
          simp at hstop; omega
        simp [this, lastOff]
      · simp only [hp, hstop, decide_true, decide_false, Bool.and_false, Bool.false_eq_true, if_false, hl]
        rw [ih _ _ (fun e he => hP e (by simp [he])) (by intro _; omega)]
        have : limit.toNat - acc.length = (limit.toNat - (acc ++ [(o, r)]).length) + 1 := by
          simp at hstop ⊢; omega
        rw [this]
        simp [hl, lastOff_cons]

theorem mem_take_logWith (off : Nat → Off) (rs : List Rec) (j : Nat) (e : Off × Rec)
    (he : e ∈ (logWith off rs).take j) : ∃ i, i < j ∧ i < rs.length ∧ e.1 = off (i + 1) := by
  rw [List.mem_take_iff_getElem] at he
  obtain ⟨i, hi, rfl⟩ := he
  rw [logWith_length] at hi
  refine ⟨i, by omega, by omega, ?_⟩
  rw [logWith_getElem]

theorem mem_drop_logWith (off : Nat → Off) (rs : List Rec) (j : Nat) (e : Off × Rec)
    (he : e ∈ (logWith off rs).drop j) : ∃ i, j ≤ i ∧ i < rs.length ∧ e.1 = off (i + 1) := by
  rw [List.mem_drop_iff_getElem] at he
  obtain ⟨i, hi, rfl⟩ := he
  rw [logWith_length] at hi
  refine ⟨j + i, by omega, by omega, ?_⟩
  rw [logWith_getElem]

theorem fmt20_ne_nil (n : Nat) : fmt20 n ≠ [] := by
  intro h
  have := congrArg List.length h
  simp [fmt20, digitsW_length] at this

theorem fmt10_ne_nil (n : Nat) : fmt10 n ≠ [] := by
  intro h
  have := congrArg List.length h
  simp [fmt10, digitsW_length] at this

theorem memP_pre (rs : List Rec) (h : rs.length < 10 ^ 20) (j : Nat) (hj : j ≤ rs.length) :
    ∀ e ∈ (logWith fmt20 rs).take j,
      ((resumeAt fmt20 j).isEmpty || lexLt (resumeAt fmt20 j) e.1) = false := by
  intro e he
  obtain ⟨i, hij, hi, hei⟩ := mem_take_logWith _ _ _ _ he
  have hj0 : j ≠ 0 := by omega
  simp only [resumeAt, if_neg hj0, hei]
  rw [lexLt_fmt20 _ _ (by omega) (by omega)]
  have : (fmt20 j).isEmpty = false := by
    simpa [List.isEmpty_iff] using fmt20_ne_nil j
  simp [this]; omega

theorem memP_post (rs : List Rec) (h : rs.length < 10 ^ 20) (j : Nat) (hj : j ≤ rs.length) :
    ∀ e ∈ (logWith fmt20 rs).drop j,
      ((resumeAt fmt20 j).isEmpty || lexLt (resumeAt fmt20 j) e.1) = true := by
  intro e he
  obtain ⟨i, hij, hi, hei⟩ := mem_drop_logWith _ _ _ _ he
  by_cases hj0 : j = 0
  · simp [resumeAt, hj0]
  · simp only [resumeAt, if_neg hj0, hei]
    rw [lexLt_fmt20 _ _ (by omega) (by omega)]
    simp; omega

theorem mem_read_eq (rs : List Rec) (h : rs.length < 10 ^ 20) (j : Nat) (hj : j ≤ rs.length)
    (limit : Int) :
    (memOf rs).read (resumeAt fmt20 j) limit =
      (sel ((logWith fmt20 rs).drop j) limit,
        resumeAt fmt20 (j + (sel ((logWith fmt20 rs).drop j) limit).length)) := by
  unfold Mem.read
  rw [(mem_log rs).1]
  conv => lhs; rw [← List.take_append_drop j (logWith fmt20 rs)]
  rw [memReadLoop_skip _ _ _ _ _ _ (memP_pre rs h j hj),
    memReadLoop_all _ _ _ _ _ (memP_post rs h j hj) (by intro h; simpa using h)]
  simp only [List.nil_append, List.length_nil, Nat.sub_zero]
  by_cases hl : limit ≤ 0
  · simp only [sel, hl, if_true]
    have := lastOff_window fmt20 rs j (rs.length)
    rw [List.take_of_length_le (by simp [logWith_length])] at this
    rw [this]
  · simp only [sel, hl, if_false]
    rw [lastOff_window]

theorem resumeAt_fmt20_inj (n : Nat) (h : n < 10 ^ 20) (i j : Nat) (hi : i ≤ n) (hj : j ≤ n)
    (he : resumeAt fmt20 i = resumeAt fmt20 j) : i = j := by
  unfold resumeAt at he
  by_cases hi0 : i = 0 <;> by_cases hj0 : j = 0
  · omega
  · simp only [hi0, hj0, if_true, if_false] at he
    exact absurd he.symm (fmt20_ne_nil j)
  · simp only [hi0, hj0, if_true, if_false] at he
    exact absurd he (fmt20_ne_nil i)
  · simp only [hi0, hj0, if_false] at he
    exact digitsW_inj 20 i j (by omega) (by omega) he

theorem mem_paged (rs : List Rec) (h : rs.length < 10 ^ 20) :
    PagedSpec (fun o l => some ((memOf rs).read o l)) fmt20 (logWith fmt20 rs) := by
  constructor
  · intro j hj limit
    rw [logWith_length] at hj
    simp only [mem_read_eq rs h j hj limit]
  · intro j hj
    rw [logWith_getElem]
  · intro i j hi hj he
    rw [logWith_length] at hi hj
    exact resumeAt_fmt20_inj rs.length h i j hi hj he

/-- streaming returns the same sequence as an unlimited read -/
theorem filter_eq_drop {α : Type} (p : α → Bool) (l : List α) (j : Nat)
    (hpre : ∀ e ∈ l.take j, p e = false) (hpost : ∀ e ∈ l.drop j, p e = true) :
    l.filter p = l.drop j := by
  conv => lhs; rw [← List.take_append_drop j l]
  rw [List.filter_append, List.filter_eq_self.mpr hpost,
    List.filter_eq_nil_iff.mpr (fun a ha => by simp [hpre a ha])]
  rfl

theorem find?_cons_filter_self {β : Type} (id : String) (v : β) (l : List (String × β)) :
    ((id, v) :: l.filter (fun p => p.1 != id)).find? (fun p => p.1 == id) = some (id, v) := by
  simp

theorem find?_cons_filter_other {β : Type} (id id' : String) (hne : id' ≠ id) (v : β)
    (l : List (String × β)) :
    ((id, v) :: l.filter (fun p => p.1 != id)).find? (fun p => p.1 == id') =
      l.find? (fun p => p.1 == id') := by
  have h1 : (id == id') = false := by simpa using fun h => hne h.symm
  rw [List.find?_cons, h1, List.find?_filter]
  show List.find? _ l = _
  congr 1
  funext p
  by_cases h : p.1 = id'
  · simp [h, hne]
  · simp [h]

theorem mem_stream_eq_read (rs : List Rec) (h : rs.length < 10 ^ 20) (j : Nat) (hj : j ≤ rs.length) :
    (memOf rs).stream (resumeAt fmt20 j) = ((memOf rs).read (resumeAt fmt20 j) 0).1 ∧
    (memOf rs).stream (resumeAt fmt20 j) = (logWith fmt20 rs).drop j := by
  have h2 : (memOf rs).stream (resumeAt fmt20 j) = (logWith fmt20 rs).drop j := by
    unfold Mem.stream
    rw [(mem_log rs).1]
    exact filter_eq_drop _ _ j (memP_pre rs h j hj) (memP_post rs h j hj)
  refine ⟨?_, h2⟩
  rw [h2, mem_read_eq rs h j hj 0]
  simp [sel]

theorem mem_offsets_table (m : Mem) (id id' : String) (o : Off) :
    (m.save id o).load id = o ∧ (id' ≠ id → (m.save id o).load id' = m.load id') ∧
    (({} : Mem).load id = []) ∧ (m.save id o).events = m.events := by
  refine ⟨?_, ?_, rfl, rfl⟩
  · simp only [Mem.load, Mem.save, find?_cons_filter_self]
  · intro hne
    simp only [Mem.load, Mem.save, find?_cons_filter_other id id' hne]

/-! ### the SQLite store -/

def rowsOf (rs : List Rec) : List (Nat × Rec) :=
  ((List.range rs.length).zip rs).map (fun (i, r) => (i + 1, r))

theorem rowsOf_length (rs : List Rec) : (rowsOf rs).length = rs.length := by
  simp [rowsOf]

theorem rowsOf_getElem (rs : List Rec) (i : Nat) (h : i < (rowsOf rs).length) :
    (rowsOf rs)[i] = (i + 1, rs[i]'(by simpa [rowsOf_length] using h)) := by
  simp [rowsOf]

theorem rowsOf_snoc (rs : List Rec) (r : Rec) :
    rowsOf (rs ++ [r]) = rowsOf rs ++ [(rs.length + 1, r)] := by
  simp [rowsOf, List.range_succ, List.zip_append]

theorem rowsOf_map (rs : List Rec) :
    (rowsOf rs).map (fun row => (decimal row.1, row.2)) = logWith decimal rs := by
  simp [rowsOf, logWith, List.map_map]

theorem sqlOf_snoc (rs : List Rec) (r : Rec) : sqlOf (rs ++ [r]) = ((sqlOf rs).append r).1 := by
  simp [sqlOf, List.foldl_append]

theorem sql_log' (rs : List Rec) : (sqlOf rs).rows = rowsOf rs ∧ (sqlOf rs).seq = rs.length := by
  induction rs using snoc_induction with
  | hnil => exact ⟨rfl, rfl⟩
  | hsnoc l a ih =>
    rw [sqlOf_snoc, rowsOf_snoc]
    simp [Sql.append, ih.1, ih.2]

theorem rowsOf_filter (rs : List Rec) (j : Nat) :
    (rowsOf rs).filter (fun row => (j : Int) < (row.1 : Int)) = (rowsOf rs).drop j := by
  apply filter_eq_drop
  · intro e he
    rw [List.mem_take_iff_getElem] at he
    obtain ⟨i, hi, rfl⟩ := he
    rw [rowsOf_getElem]
    simp; omega
  · intro e he
    rw [List.mem_drop_iff_getElem] at he
    obtain ⟨i, hi, rfl⟩ := he
    rw [rowsOf_getElem]
    simp; omega

theorem sqlParse_resumeAt (j : Nat) (hj : j ≤ maxInt64) :
    sqlParse (resumeAt decimal j) = some (j : Int) := by
  by_cases hj0 : j = 0
  · subst hj0; rfl
  · simp only [resumeAt, if_neg hj0]; exact sqlParse_decimal j hj

theorem sql_read_eq (rs : List Rec) (h : rs.length ≤ maxInt64) (j : Nat) (hj : j ≤ rs.length)
    (limit : Int) :
    (sqlOf rs).read (resumeAt decimal j) limit =
      some (sel ((logWith decimal rs).drop j) limit,
        resumeAt decimal (j + (sel ((logWith decimal rs).drop j) limit).length)) := by
  unfold Sql.read
  rw [sqlParse_resumeAt j (by omega)]
  simp only [Sql.select, (sql_log' rs).1, rowsOf_filter]
  by_cases hl : limit ≤ 0
  · simp only [hl, if_true, sel, List.map_drop, rowsOf_map]
    have := lastOff_window decimal rs j (rs.length)
    rw [List.take_of_length_le (by simp [logWith_length])] at this
    rw [← this]; rfl
  · simp only [hl, if_false, sel, List.map_take, List.map_drop, rowsOf_map]
    rw [← lastOff_window]; rfl

theorem resumeAt_decimal_inj (i j : Nat) (he : resumeAt decimal i = resumeAt decimal j) : i = j := by
  unfold resumeAt at he
  by_cases hi0 : i = 0 <;> by_cases hj0 : j = 0
  · omega
  · simp only [hi0, hj0, if_true, if_false] at he
    exact absurd he.symm (decimal_ne_nil j)
  · simp only [hi0, hj0, if_true, if_false] at he
    exact absurd he (decimal_ne_nil i)
  · simp only [hi0, hj0, if_false] at he
    exact decimal_inj i j he

theorem sql_log (rs : List Rec) :
    (sqlOf rs).rows = ((List.range rs.length).zip rs).map (fun (i, r) => (i + 1, r)) ∧ (sqlOf rs).seq = rs.length := by
  exact sql_log' rs

theorem sql_paged (rs : List Rec) (h : rs.length ≤ maxInt64) :
    PagedSpec (sqlOf rs).read decimal (logWith decimal rs) := by
  constructor
  · intro j hj limit
    rw [logWith_length] at hj
    exact sql_read_eq rs h j hj limit
  · intro j hj
    rw [logWith_getElem]
  · intro i j _ _ he
    exact resumeAt_decimal_inj i j he

/-- a cursor that is not a number is rejected, never silently treated as "oldest" -/
theorem sql_garbage_rejected (s : Sql) (o : Off) (limit : Int) (h : sqlParse o = none) :
    s.read o limit = none ∧ s.save "x" o = none := by
  simp [Sql.read, Sql.save, h]

theorem sql_offsets_table (s s' : Sql) (id id' : String) (n : Nat) (hn : n ≤ maxInt64)
    (h : s.save id (decimal n) = some s') :
    s'.load id = decimal n ∧ (id' ≠ id → s'.load id' = s.load id') ∧ s'.rows = s.rows := by
  simp only [Sql.save, sqlParse_decimal n hn, Option.some.injEq] at h
  subst h
  refine ⟨?_, ?_, rfl⟩
  · simp only [Sql.load, find?_cons_filter_self]
    simp [sqlFmt]
  · intro hne
    simp only [Sql.load, find?_cons_filter_other id id' hne]

/-! ### any store that satisfies the paging contract -/

/-- any chain of reads with any limits, resumed from the returned next offsets, cuts the log
into consecutive pages: no gap and no repeat -/
theorem chain_reads_reproduce_log (read : Off → Int → Option (List (Off × Rec) × Off)) (off : Nat → Off)
    (all : List (Off × Rec)) (hs : PagedSpec read off all) (j : Nat) (hj : j ≤ all.length) (limits : List Int) :
    chainReads read (resumeAt off j) limits = some (pages (all.drop j) limits) := by
  induction limits generalizing j with
  | nil => rfl
  | cons l ls ih =>
    have hlen : (sel (all.drop j) l).length ≤ all.length - j := by
      unfold sel
      split
      · simp
      · simp only [List.length_take, List.length_drop]; omega
    simp only [chainReads, hs.read_at j hj l, pages]
    rw [ih (j + (sel (all.drop j) l).length) (by omega)]
    simp [List.drop_drop]

/-- … and the same holds when a read is resumed from the offset of ANY returned event:
the offset of event number `j` is the resume point `j` -/
theorem resume_from_event_offset (read : Off → Int → Option (List (Off × Rec) × Off)) (off : Nat → Off)
    (all : List (Off × Rec)) (hs : PagedSpec read off all) (j : Nat) (hj : j < all.length) (limit : Int) :
    read (all[j]).1 limit = some (sel (all.drop (j + 1)) limit, resumeAt off (j + 1 + (sel (all.drop (j + 1)) limit).length)) := by
  have := hs.read_at (j + 1) (by omega) limit
  rw [hs.offs j hj]
  simpa [resumeAt] using this

/-! ### the durable-streams store: KNOWN FINDINGS and what does hold -/

theorem dsOf_fold (rs : List Rec) (d : Ds) :
    rs.foldl (fun d r => (d.append r).1) d = { d with msgs := d.msgs ++ rs } := by
  induction rs generalizing d with
  | nil => simp
  | cons r rs ih => rw [List.foldl_cons, ih]; simp [Ds.append]

theorem dsOf_eq (chunk : Nat) (rs : List Rec) : dsOf chunk rs = { msgs := rs, chunk := chunk } := by
  simp [dsOf, dsOf_fold]

theorem decimal_0 : decimal 0 = [48] := by rw [decimal_lt _ (by omega)]; rfl

/-- KNOWN FINDING (C10/C11/C12): `Read` truncates the chunk to `limit` but returns the
chunk's end as next offset: the rest of the chunk is lost for every chain of reads.
5 events, one chunk: Read(oldest, 2) returns 2 events, the next Read returns nothing. -/
theorem ds_limit_loses_events :
    ∃ evs next, (dsOf 5 [1, 2, 3, 4, 5]).read [] 2 = some (evs, next) ∧ evs.map (·.2) = [1, 2] ∧
      (dsOf 5 [1, 2, 3, 4, 5]).read next 2 = some ([], next) := by
  rw [dsOf_eq]
  exact ⟨_, _, rfl, rfl, rfl⟩

/-- KNOWN FINDING (C10/C12): the offset of a returned event is not a resume point: resuming
from the FIRST event's (synthetic) offset skips the whole chunk -/
theorem ds_event_offset_not_resumable :
    ∃ evs next, (dsOf 5 [1, 2, 3, 4, 5]).read [] 0 = some (evs, next) ∧ evs.length = 5 ∧
      ∃ o, evs.head? = some (o, 1) ∧ ((dsOf 5 [1, 2, 3, 4, 5]).read o 0).map (·.1.map (·.2)) = some [] := by
  rw [dsOf_eq]
  refine ⟨_, _, rfl, rfl, _, rfl, ?_⟩
  rw [decimal_0]
  rfl

theorem digitsW_digits (w n : Nat) : (digitsW w n).all isDigit = true := by
  induction w generalizing n with
  | zero => rfl
  | succ w ih =>
    simp only [digitsW, List.all_append, ih, Bool.true_and]
    simp [isDigit, zero]; omega

theorem digitsVal_digitsW (w n : Nat) (h : n < 10 ^ w) : digitsVal (digitsW w n) = n := by
  induction w generalizing n with
  | zero => simp at h; subst h; rfl
  | succ w ih =>
    rw [Nat.pow_succ] at h
    simp only [digitsW]
    rw [digitsVal_snoc, ih _ (by omega)]
    simp [zero]; omega

theorem dsSignMatch_digits (s : List Nat) : s.all isDigit = true →
    dsParse.match_1 (fun _ => Bool × List Nat) s (fun r => (true, r)) (fun r => (false, r))
      (fun r => (false, r)) = (false, s) := by
  intro h
  split
  · simp [isDigit] at h
  · simp [isDigit] at h
  · rfl

theorem takeWhile_all {α : Type} (p : α → Bool) (l : List α) (h : l.all p = true) :
    l.takeWhile p = l := by
  induction l with
  | nil => rfl
  | cons x xs ih =>
    simp only [List.all_cons, Bool.and_eq_true] at h
    simp [h.1, ih h.2]

theorem dsParse_fmt10 (j : Nat) (hj : j < 10 ^ 10) : dsParse (fmt10 j) = some (j : Int) := by
  have hne : fmt10 j ≠ [] := fmt10_ne_nil j
  have hne2 : (fmt10 j == [45, 49]) = false := by
    apply beq_false_of_ne
    intro h
    have := congrArg List.length h
    simp [fmt10, digitsW_length] at this
  have hd : (fmt10 j).all isDigit = true := digitsW_digits 10 j
  unfold dsParse
  rw [dsSignMatch_digits _ hd]
  simp only [takeWhile_all _ _ hd]
  have hv : digitsVal (fmt10 j) = j := digitsVal_digitsW 10 j hj
  simp [hne, hne2, hv]

/-- resume point `j` of the durable-streams store -/
def dsResume (j : Nat) : Off := if j = 0 then [] else fmt10 j

theorem dsParse_resume (j : Nat) (hj : j < 10 ^ 10) : dsParse (dsResume j) = some (j : Int) := by
  unfold dsResume
  split
  · rename_i h; subst h; rfl
  · exact dsParse_fmt10 j hj

theorem ds_serverRead_resume (chunk : Nat) (hc : 0 < chunk) (rs : List Rec) (h : rs.length < 10 ^ 10)
    (j : Nat) (hj : j ≤ rs.length) :
    ({ msgs := rs, chunk := chunk } : Ds).serverRead (dsResume j) =
      some ((rs.drop j).take chunk, fmt10 (j + ((rs.drop j).take chunk).length)) := by
  unfold Ds.serverRead
  rw [dsParse_resume j (by omega)]
  have hmax : max chunk 1 = chunk := by omega
  simp only [hmax, Int.toNat_natCast]
  rw [if_neg (by simp; omega)]
  by_cases hms : (rs.drop j).take chunk = []
  · simp only [hms, List.isEmpty_nil, if_true, List.length_nil, Nat.add_zero]
    by_cases hj0 : j = 0
    · subst hj0; simp [dsResume]
    · have hne : fmt10 j ≠ [] := fmt10_ne_nil j
      have hne2 : (fmt10 j == [45, 49]) = false := by
        apply beq_false_of_ne
        intro h
        have := congrArg List.length h
        simp [fmt10, digitsW_length] at this
      simp [dsResume, hj0, hne, hne2]
  · have : ((rs.drop j).take chunk).isEmpty = false := by simpa using hms
    simp [this]

theorem ds_read_resume (chunk : Nat) (hc : 0 < chunk) (rs : List Rec) (h : rs.length < 10 ^ 10)
    (j : Nat) (hj : j ≤ rs.length) (limit : Int) (hl : limit ≤ 0 ∨ (chunk : Int) ≤ limit) :
    ∃ evs, ({ msgs := rs, chunk := chunk } : Ds).read (dsResume j) limit =
        some (evs, fmt10 (j + evs.length)) ∧
      evs.map (·.2) = (rs.drop j).take chunk := by
  unfold Ds.read
  rw [ds_serverRead_resume chunk hc rs h j hj]
  simp only
  generalize hms : (rs.drop j).take chunk = ms
  have hmsl : ms.length ≤ chunk := by rw [← hms]; simp; omega
  by_cases hemp : ms = []
  · subst hemp
    exact ⟨[], by simp, rfl⟩
  · have : ms.isEmpty = false := by simpa using hemp
    simp only [this, Bool.false_eq_true, if_false]
    generalize hfull : ((List.range ms.length).zip ms).map
      (fun (x : Nat × Rec) => (fmt10 (j + ms.length) ++ [slash] ++ decimal x.1, x.2)) = full
    have hfl : full.length = ms.length := by rw [← hfull]; simp
    have hfm : full.map (·.2) = ms := by
      rw [← hfull, List.map_map]
      exact List.map_snd_zip (by simp)
    have hcut : (if limit > 0 then full.take limit.toNat else full) = full := by
      split
      · apply List.take_of_length_le; omega
      · rfl
    rw [hcut]
    exact ⟨full, by rw [hfl], hfm⟩

/-- what does hold: reads that do not truncate (`limit ≤ 0` or `limit ≥ chunk`), chained
through the returned next offsets, return consecutive chunks of the log -/
theorem ds_read_untruncated_partial (chunk : Nat) (hc : 0 < chunk) (rs : List Rec) (h : rs.length < 10 ^ 10)
    (j : Nat) (hj : j ≤ rs.length) (limit : Int) (hl : limit ≤ 0 ∨ (chunk : Int) ≤ limit) :
    ∃ evs, (dsOf chunk rs).read (if j = 0 then [] else fmt10 j) limit = some (evs, fmt10 (j + evs.length)) ∧
      evs.map (·.2) = (rs.drop j).take chunk := by
  rw [dsOf_eq]
  exact ds_read_resume chunk hc rs h j hj limit hl

/-! ### Replay -/

theorem cancelled_none (f : Faults) (h : f.cancelAt = none) (n : Nat) : cancelled f n = false := by
  simp [cancelled, h]

theorem deliverList_nofault (f : Faults) (hc : f.cancelAt = none) (hf : f.cbFail = none)
    (check : Bool) (evs acc : List (Off × Rec)) :
    deliverList f check evs acc = (acc ++ evs, none, []) := by
  induction evs generalizing acc with
  | nil => simp [deliverList]
  | cons e evs ih =>
    simp only [deliverList, cancelled_none f hc, hf, Bool.and_false, Bool.false_eq_true, if_false,
      reduceCtorEq, ih]
    simp

/-- what `deliverList` returns, for any fault script -/
theorem deliverList_spec (f : Faults) (check : Bool) (evs acc : List (Off × Rec)) :
    ∃ m, m ≤ evs.length ∧ (deliverList f check evs acc).1 = acc ++ evs.take m ∧
      ((deliverList f check evs acc).2.2 = [] ∨ (deliverList f check evs acc).2.2 = evs.drop m) ∧
      ((deliverList f check evs acc).2.1 = none → m = evs.length ∧ (deliverList f check evs acc).2.2 = []) ∧
      ((deliverList f check evs acc).2.1 = none ∨ (deliverList f check evs acc).2.1 = some .stream ∨
        (deliverList f check evs acc).2.1 = some .callback) := by
  induction evs generalizing acc with
  | nil => exact ⟨0, by simp [deliverList]⟩
  | cons e evs ih =>
    simp only [deliverList]
    split
    · exact ⟨0, by simp⟩
    · split
      · exact ⟨1, by simp⟩
      · split
        · exact ⟨1, by simp⟩
        · obtain ⟨m, hm, h1, h2, h3, h4⟩ := ih (acc ++ [e])
          refine ⟨m + 1, by simp; omega, ?_, ?_, ?_, h4⟩
          · rw [h1]; simp
          · simpa using h2
          · intro hn
            have := h3 hn
            simp [this.1, this.2]

theorem deliverList_callback (f : Faults) (k : Nat) (hk : f.cbFail = some k)
    (hc : (f.cancelAt.all (fun c => k ≤ c)) = true) (evs acc : List (Off × Rec))
    (h1 : acc.length ≤ k) (h2 : k < acc.length + evs.length) :
    (deliverList f true evs acc).2.1 = some .callback := by
  induction evs generalizing acc with
  | nil => simp at h2; omega
  | cons e evs ih =>
    have hcan : cancelled f acc.length = false := by
      unfold cancelled
      cases hca : f.cancelAt with
      | none => rfl
      | some c =>
        rw [hca] at hc
        simp at hc ⊢; omega
    simp only [deliverList, hcan, Bool.and_false, Bool.false_eq_true, if_false, hk,
      Bool.not_true, Bool.false_and, Option.some.injEq]
    by_cases hkk : k = acc.length
    · simp [hkk]
    · rw [if_neg hkk]
      apply ih
      · simp; omega
      · simp at h2 ⊢; omega

/-- streaming stores, no fault: every event, in order, exactly once, and nil -/
theorem replayStream_complete (evs : List (Off × Rec)) :
    replayStream {} evs = ⟨evs, none, []⟩ := by
  simp [replayStream, deliverList_nofault {} rfl rfl]

/-- streaming stores, any fault: a gap-free prefix; nil only if everything was delivered;
a failing callback or a cancellation before the end is reported -/
theorem replayStream_prefix (f : Faults) (evs : List (Off × Rec)) :
    (replayStream f evs).delivered <+: evs ∧
    ((replayStream f evs).err = none → (replayStream f evs).delivered = evs) ∧
    (∀ k, f.cbFail = some k → k < evs.length → (f.cancelAt.all (fun c => k ≤ c)) = true → (replayStream f evs).err = some .callback) := by
  obtain ⟨m, hm, h1, _, h3, _⟩ := deliverList_spec f true evs []
  refine ⟨?_, ?_, ?_⟩
  · show (deliverList f true evs []).1 <+: evs
    rw [h1]; simpa using List.take_prefix m evs
  · intro hn
    show (deliverList f true evs []).1 = evs
    have := (h3 hn).1
    rw [h1, this]; simp
  · intro k hk hlt hc
    exact deliverList_callback f k hk hc evs [] (by simp) (by simpa using hlt)

theorem drop_after_take {α : Type} (l : List α) (j k : Nat) :
    l.drop j = (l.drop j).take k ++ l.drop (j + ((l.drop j).take k).length) := by
  have := List.prefix_iff_eq_append.mp (List.take_prefix k (l.drop j))
  rw [List.drop_drop] at this
  exact this.symm

theorem sql_select_eq (rs : List Rec) (j batch : Nat) :
    (sqlOf rs).select (j : Int) (some batch) = ((rowsOf rs).drop j).take batch := by
  simp only [Sql.select, (sql_log' rs).1, rowsOf_filter]

theorem sql_page_eq (rs : List Rec) (j batch : Nat) :
    (((rowsOf rs).drop j).take batch).map (fun row => (decimal row.1, row.2)) =
      ((logWith decimal rs).drop j).take batch := by
  rw [List.map_take, List.map_drop, rowsOf_map]

theorem sql_page_last (rs : List Rec) (j batch : Nat)
    (h : 0 < (((logWith decimal rs).drop j).take batch).length) :
    ∃ row, (((rowsOf rs).drop j).take batch).getLast? = some row ∧
      row.1 = j + (((logWith decimal rs).drop j).take batch).length := by
  have hl : (((logWith decimal rs).drop j).take batch).length =
      (((rowsOf rs).drop j).take batch).length := by
    simp [logWith_length, rowsOf_length]
  rw [hl] at h ⊢
  generalize hs : ((rowsOf rs).drop j).take batch = s at h
  have hl := congrArg List.length hs
  simp only [List.length_take, List.length_drop, rowsOf_length] at hl
  have hlt : j + (s.length - 1) < (rowsOf rs).length := by rw [rowsOf_length]; omega
  refine ⟨(rowsOf rs)[j + (s.length - 1)], ?_, ?_⟩
  · have h2 : s[s.length - 1]? = (rowsOf rs)[j + (s.length - 1)]? := by
      rw [← hs, List.getElem?_take_of_lt (by rw [hs]; omega), List.getElem?_drop]
    rw [List.getLast?_eq_getElem?, h2, List.getElem?_eq_getElem hlt]
  · rw [rowsOf_getElem]; simp only; omega

theorem replaySqlBatched_inv (rs : List Rec) (f : Faults) (batch : Nat) (hb : 0 < batch)
    (fuel : Nat) : ∀ (j : Nat) (acc : List (Off × Rec)), j ≤ rs.length →
      (rs.length - j) + 1 ≤ fuel →
      (∃ x, (replaySqlBatched (sqlOf rs) f batch fuel (j : Int) acc).delivered ++
          (replaySqlBatched (sqlOf rs) f batch fuel (j : Int) acc).may = acc ++ x ∧
        x <+: (logWith decimal rs).drop j) ∧
      (replaySqlBatched (sqlOf rs) f batch fuel (j : Int) acc).err ≠ some .fuel ∧
      ((replaySqlBatched (sqlOf rs) f batch fuel (j : Int) acc).err = none →
        (replaySqlBatched (sqlOf rs) f batch fuel (j : Int) acc).delivered =
          acc ++ (logWith decimal rs).drop j) := by
  induction fuel with
  | zero => intro j _ _ hf; omega
  | succ fuel ih =>
    intro j acc hj hf
    simp only [replaySqlBatched]
    split
    · exact ⟨⟨[], by simp, List.nil_prefix⟩, by simp, by simp⟩
    rw [sql_select_eq, sql_page_eq]
    generalize hpage : ((logWith decimal rs).drop j).take batch = page
    have hpl : page.length = min batch (rs.length - j) := by
      rw [← hpage]; simp [logWith_length]
    have hpp : page <+: (logWith decimal rs).drop j := by
      rw [← hpage]; exact List.take_prefix _ _
    have hsplit := drop_after_take (logWith decimal rs) j batch
    rw [hpage] at hsplit
    obtain ⟨m, hm, h1, h2, h3, h4⟩ := deliverList_spec f false page acc
    generalize hd : deliverList f false page acc = res at h1 h2 h3 h4
    obtain ⟨d, e, rest⟩ := res
    simp only at h1 h2 h3 h4 ⊢
    cases e with
    | some err =>
      simp only
      refine ⟨?_, ?_, by simp⟩
      · rcases h2 with h2 | h2
        · exact ⟨page.take m, by rw [h1, h2]; simp, (List.take_prefix _ _).trans hpp⟩
        · exact ⟨page, by rw [h1, h2]; simp, hpp⟩
      · rcases h4 with h4 | h4 | h4 <;> simp at h4 <;> simp [h4]
    | none =>
      have hm' := (h3 rfl).1
      have hd' : d = acc ++ page := by rw [h1, hm']; simp
      simp only
      split
      · rename_i hlt
        have hall : (logWith decimal rs).drop j = page := by
          rw [← hpage]; symm
          apply List.take_of_length_le
          simp [logWith_length]; omega
        exact ⟨⟨page, by simp [hd'], hpp⟩, by simp, by simp [hd', hall]⟩
      · rename_i hge
        have hpos : 0 < (((logWith decimal rs).drop j).take batch).length := by
          rw [hpage]; omega
        obtain ⟨row, hr1, hr2⟩ := sql_page_last rs j batch hpos
        rw [hpage] at hr2
        rw [hr1]
        simp only [hr2]
        obtain ⟨⟨x, hx1, hx2⟩, ih2, ih3⟩ := ih (j + page.length) d (by omega) (by omega)
        rw [Int.natCast_add] at *
        refine ⟨⟨page ++ x, ?_, ?_⟩, ih2, ?_⟩
        · rw [hx1, hd']; simp
        · rw [hsplit]
          exact (List.prefix_append_right_inj page).mpr hx2
        · intro hn
          rw [ih3 hn, hd', List.append_assoc, ← hsplit]

theorem replaySqlBatched_nofault (rs : List Rec) (batch : Nat) (hb : 0 < batch)
    (fuel : Nat) : ∀ (j : Nat) (acc : List (Off × Rec)), j ≤ rs.length →
      (rs.length - j) + 1 ≤ fuel →
      replaySqlBatched (sqlOf rs) {} batch fuel (j : Int) acc =
        ⟨acc ++ (logWith decimal rs).drop j, none, []⟩ := by
  induction fuel with
  | zero => intro j _ _ hf; omega
  | succ fuel ih =>
    intro j acc hj hf
    simp only [replaySqlBatched]
    rw [if_neg (by simp [cancelled])]
    rw [sql_select_eq, sql_page_eq]
    generalize hpage : ((logWith decimal rs).drop j).take batch = page
    have hpl : page.length = min batch (rs.length - j) := by
      rw [← hpage]; simp [logWith_length]
    have hsplit := drop_after_take (logWith decimal rs) j batch
    rw [hpage] at hsplit
    rw [deliverList_nofault _ rfl rfl]
    simp only
    split
    · rename_i hlt
      have hall : (logWith decimal rs).drop j = page := by
        rw [← hpage]; symm
        apply List.take_of_length_le
        simp [logWith_length]; omega
      rw [hall]
    · rename_i hge
      have hpos : 0 < (((logWith decimal rs).drop j).take batch).length := by
        rw [hpage]; omega
      obtain ⟨row, hr1, hr2⟩ := sql_page_last rs j batch hpos
      rw [hpage] at hr2
      rw [hr1]
      simp only [hr2]
      have := ih (j + page.length) (acc ++ page) (by omega) (by omega)
      rw [this, List.append_assoc, ← hsplit]

/-- SQLite batched streaming, no fault: complete for every batch size ≥ 1 -/
theorem replaySqlBatched_complete (rs : List Rec) (h : rs.length ≤ maxInt64) (batch : Nat) (hb : 0 < batch)
    (j : Nat) (hj : j ≤ rs.length) (fuel : Nat) (hf : rs.length + 2 ≤ fuel) :
    replaySqlBatched (sqlOf rs) {} batch fuel (j : Int) [] = ⟨(logWith decimal rs).drop j, none, []⟩ := by
  have _ := h
  simpa using replaySqlBatched_nofault rs batch hb fuel j [] hj (by omega)

/-- SQLite batched streaming, any fault: gap-free prefix (also counting the rows the driver may
still hand out before it notices a cancellation), nil only after everything -/
theorem replaySqlBatched_prefix (rs : List Rec) (h : rs.length ≤ maxInt64) (f : Faults) (batch : Nat) (hb : 0 < batch)
    (j : Nat) (hj : j ≤ rs.length) (fuel : Nat) (hf : rs.length + 2 ≤ fuel) :
    let r := replaySqlBatched (sqlOf rs) f batch fuel (j : Int) []
    (r.delivered ++ r.may) <+: (logWith decimal rs).drop j ∧ r.err ≠ some .fuel ∧
    (r.err = none → r.delivered = (logWith decimal rs).drop j) := by
  intro r
  have _ := h
  obtain ⟨⟨x, hx1, hx2⟩, h2, h3⟩ := replaySqlBatched_inv rs f batch hb fuel j [] hj (by omega)
  refine ⟨?_, h2, ?_⟩
  · show (replaySqlBatched (sqlOf rs) f batch fuel (j : Int) []).delivered ++
      (replaySqlBatched (sqlOf rs) f batch fuel (j : Int) []).may <+: _
    rw [hx1]; simpa using hx2
  · intro hn
    simpa using h3 hn

theorem sel_pos_length_le (all : List (Off × Rec)) (j : Nat) (b : Int) :
    (sel (all.drop j) b).length ≤ all.length - j := by
  unfold sel
  split
  · simp
  · simp only [List.length_take, List.length_drop]; omega

theorem sel_prefix (l : List (Off × Rec)) (b : Int) : sel l b <+: l := by
  unfold sel
  split
  · exact List.prefix_refl _
  · exact List.take_prefix _ _

theorem sel_eq_nil (l : List (Off × Rec)) (b : Int) (hb : 0 < b) (h : sel l b = []) : l = [] := by
  unfold sel at h
  rw [if_neg (by omega)] at h
  cases l with
  | nil => rfl
  | cons x xs =>
    have : b.toNat = (b.toNat - 1) + 1 := by omega
    rw [this] at h
    simp at h

theorem drop_after_sel (all : List (Off × Rec)) (j : Nat) (b : Int) :
    all.drop j = sel (all.drop j) b ++ all.drop (j + (sel (all.drop j) b).length) := by
  have := List.prefix_iff_eq_append.mp (sel_prefix (all.drop j) b)
  rw [List.drop_drop] at this
  exact this.symm

theorem replayPaged_inv (read : Off → Int → Option (List (Off × Rec) × Off)) (off : Nat → Off)
    (all : List (Off × Rec)) (hs : PagedSpec read off all) (f : Faults) (b : Int) (hb : 0 < b)
    (fuel : Nat) : ∀ (nread j : Nat) (acc : List (Off × Rec)), j ≤ all.length →
      (all.length - j) + 2 ≤ fuel →
      (∃ x, (replayPaged read f b fuel nread (resumeAt off j) acc).delivered = acc ++ x ∧
        x <+: all.drop j) ∧
      (replayPaged read f b fuel nread (resumeAt off j) acc).err ≠ some .fuel ∧
      ((replayPaged read f b fuel nread (resumeAt off j) acc).err = none →
        (replayPaged read f b fuel nread (resumeAt off j) acc).delivered = acc ++ all.drop j) := by
  induction fuel with
  | zero => intro _ j _ _ hf; omega
  | succ fuel ih =>
    intro nread j acc hj hf
    simp only [replayPaged]
    split
    · exact ⟨⟨[], by simp, List.nil_prefix⟩, by simp, by simp⟩
    split
    · exact ⟨⟨[], by simp, List.nil_prefix⟩, by simp, by simp⟩
    rw [hs.read_at j hj b]
    simp only
    have hlen := sel_pos_length_le all j b
    split
    · rename_i hemp
      have hnil : all.drop j = [] := sel_eq_nil _ b hb (by simpa using hemp)
      exact ⟨⟨[], by simp, List.nil_prefix⟩, by simp, by simp [hnil]⟩
    · rename_i hne
      have hpos : 0 < (sel (all.drop j) b).length := by
        apply List.length_pos_iff.mpr
        simpa using hne
      obtain ⟨m, hm, h1, _, h3, h4⟩ :=
        deliverList_spec { f with cancelAt := none } true (sel (all.drop j) b) acc
      generalize hd : deliverList { f with cancelAt := none } true (sel (all.drop j) b) acc = res at h1 h3 h4
      obtain ⟨d, e, rest⟩ := res
      simp only at h1 h3 h4 ⊢
      have hdpre : ∃ x, d = acc ++ x ∧ x <+: all.drop j :=
        ⟨_, h1, (List.take_prefix _ _).trans (sel_prefix _ _)⟩
      cases e with
      | some err =>
        simp only
        refine ⟨hdpre, ?_, by simp⟩
        rcases h4 with h4 | h4 | h4 <;> simp at h4 <;> simp [h4]
      | none =>
        have hm' := (h3 rfl).1
        have hd' : d = acc ++ sel (all.drop j) b := by rw [h1, hm']; simp
        simp only
        split
        · exact ⟨hdpre, by simp, by simp⟩
        · obtain ⟨⟨x, hx1, hx2⟩, ih2, ih3⟩ := ih (nread + 1) (j + (sel (all.drop j) b).length) d
            (by omega) (by omega)
          refine ⟨⟨sel (all.drop j) b ++ x, ?_, ?_⟩, ih2, ?_⟩
          · rw [hx1, hd']; simp
          · have hpre := (List.prefix_append_right_inj (sel (all.drop j) b)).mpr hx2
            rw [← drop_after_sel] at hpre
            exact hpre
          · intro hn
            rw [ih3 hn, hd', List.append_assoc, ← drop_after_sel]

theorem replayPaged_nofault (read : Off → Int → Option (List (Off × Rec) × Off)) (off : Nat → Off)
    (all : List (Off × Rec)) (hs : PagedSpec read off all) (b : Int) (hb : 0 < b)
    (fuel : Nat) : ∀ (nread j : Nat) (acc : List (Off × Rec)), j ≤ all.length →
      (all.length - j) + 2 ≤ fuel →
      replayPaged read {} b fuel nread (resumeAt off j) acc = ⟨acc ++ all.drop j, none, []⟩ := by
  induction fuel with
  | zero => intro _ j _ _ hf; omega
  | succ fuel ih =>
    intro nread j acc hj hf
    simp only [replayPaged]
    rw [if_neg (by simp [cancelled]), if_neg (by simp)]
    rw [hs.read_at j hj b]
    simp only
    have hlen := sel_pos_length_le all j b
    split
    · rename_i hemp
      have hnil : all.drop j = [] := sel_eq_nil _ b hb (by simpa using hemp)
      simp [hnil]
    · rename_i hne
      have hpos : 0 < (sel (all.drop j) b).length := by
        apply List.length_pos_iff.mpr
        simpa using hne
      rw [deliverList_nofault _ rfl rfl]
      simp only
      have hadv : resumeAt off (j + (sel (all.drop j) b).length) ≠ resumeAt off j := by
        intro he
        have := hs.inj _ _ (by omega) hj he
        omega
      rw [if_neg hadv, ih _ _ _ (by omega) (by omega), List.append_assoc, ← drop_after_sel]

theorem effBatch_pos (b : Int) : 0 < effBatch b := by
  unfold effBatch; split <;> omega

/-- the paging fallback over any store that satisfies the paging contract, no fault:
complete for every batch size ≥ 1 (and for `≤ 0`, which means 100) -/
theorem replayPaged_complete (read : Off → Int → Option (List (Off × Rec) × Off)) (off : Nat → Off)
    (all : List (Off × Rec)) (hs : PagedSpec read off all) (j : Nat) (hj : j ≤ all.length) (batch : Int)
    (fuel : Nat) (hf : all.length + 2 ≤ fuel) :
    replayPaged read {} (effBatch batch) fuel 0 (resumeAt off j) [] = ⟨all.drop j, none, []⟩ := by
  simpa using replayPaged_nofault read off all hs (effBatch batch) (effBatch_pos batch) fuel 0 j []
    hj (by omega)

/-- … any fault: gap-free prefix, nil only after everything -/
theorem replayPaged_prefix (read : Off → Int → Option (List (Off × Rec) × Off)) (off : Nat → Off)
    (all : List (Off × Rec)) (hs : PagedSpec read off all) (f : Faults) (j : Nat) (hj : j ≤ all.length) (batch : Int)
    (fuel : Nat) (hf : all.length + 2 ≤ fuel) :
    let r := replayPaged read f (effBatch batch) fuel 0 (resumeAt off j) []
    r.delivered <+: all.drop j ∧ r.err ≠ some .fuel ∧ (r.err = none → r.delivered = all.drop j) := by
  intro r
  obtain ⟨⟨x, hx1, hx2⟩, h2, h3⟩ := replayPaged_inv read off all hs f (effBatch batch)
    (effBatch_pos batch) fuel 0 j [] hj (by omega)
  refine ⟨?_, h2, ?_⟩
  · show (replayPaged read f (effBatch batch) fuel 0 (resumeAt off j) []).delivered <+: _
    rw [hx1]; simpa using hx2
  · intro hn
    simpa using h3 hn

/-- KNOWN FINDING (C11): over the durable-streams store the paging fallback with a batch size
below the chunk size loses events and still returns nil: 5 events, batch 2 → 2 delivered, nil -/
theorem ds_replay_loses_events :
    (replayPaged (dsOf 5 [1, 2, 3, 4, 5]).read {} 2 20 0 [] []).err = none ∧
    ((replayPaged (dsOf 5 [1, 2, 3, 4, 5]).read {} 2 20 0 [] []).delivered.map (·.2)) = [1, 2] := by
  rw [dsOf_eq]
  exact ⟨rfl, rfl⟩

theorem dsResume_advance (n : Nat) (hn : n < 10 ^ 10) (j k : Nat) (hk : 0 < k) (hjk : j + k ≤ n) :
    fmt10 (j + k) ≠ dsResume j := by
  unfold dsResume
  split
  · exact fmt10_ne_nil _
  · intro he
    have := digitsW_inj 10 (j + k) j (by omega) (by omega) he
    omega

theorem ds_replayPaged_nofault (chunk : Nat) (hc : 0 < chunk) (rs : List Rec) (h : rs.length < 10 ^ 10)
    (batch : Int) (hb : (chunk : Int) ≤ batch) (fuel : Nat) :
    ∀ (nread j : Nat) (acc : List (Off × Rec)), j ≤ rs.length → (rs.length - j) + 2 ≤ fuel →
      (replayPaged ({ msgs := rs, chunk := chunk } : Ds).read {} batch fuel nread (dsResume j) acc).err = none ∧
      (replayPaged ({ msgs := rs, chunk := chunk } : Ds).read {} batch fuel nread (dsResume j) acc).delivered.map (·.2) =
        acc.map (·.2) ++ rs.drop j := by
  induction fuel with
  | zero => intro _ j _ _ hf; omega
  | succ fuel ih =>
    intro nread j acc hj hf
    obtain ⟨evs, hread, hmap⟩ := ds_read_resume chunk hc rs h j hj batch (Or.inr hb)
    have hlen : evs.length = ((rs.drop j).take chunk).length := by
      rw [← hmap]; simp
    have hlen2 : evs.length ≤ rs.length - j := by
      rw [hlen]; simp; omega
    simp only [replayPaged]
    rw [if_neg (by simp [cancelled]), if_neg (by simp), hread]
    simp only
    split
    · rename_i hemp
      have hnil : evs = [] := by simpa using hemp
      subst hnil
      have hd : rs.drop j = [] := by
        have : (rs.drop j).take chunk = [] := by rw [← hmap]; rfl
        cases hdj : rs.drop j with
        | nil => rfl
        | cons x xs =>
          rw [hdj] at this
          have hc' : chunk = (chunk - 1) + 1 := by omega
          rw [hc'] at this
          simp at this
      simp [hd]
    · rename_i hne
      have hpos : 0 < evs.length := by
        apply List.length_pos_iff.mpr
        simpa using hne
      rw [deliverList_nofault _ rfl rfl]
      simp only
      rw [if_neg (dsResume_advance rs.length h j evs.length hpos (by omega))]
      have hres : fmt10 (j + evs.length) = dsResume (j + evs.length) := by
        unfold dsResume; rw [if_neg (by omega)]
      rw [hres]
      obtain ⟨ih1, ih2⟩ := ih (nread + 1) (j + evs.length) (acc ++ evs) (by omega) (by omega)
      refine ⟨ih1, ?_⟩
      rw [ih2, List.map_append, hmap, List.append_assoc, hlen, ← drop_after_take]

/-- what does hold for durable-streams: with a batch size not below the chunk size Replay
delivers every event -/
theorem ds_replay_untruncated_partial (chunk : Nat) (hc : 0 < chunk) (rs : List Rec) (h : rs.length < 10 ^ 10)
    (batch : Int) (hb : (chunk : Int) ≤ batch) (fuel : Nat) (hf : rs.length + 2 ≤ fuel) :
    (replayPaged (dsOf chunk rs).read {} batch fuel 0 [] []).err = none ∧
    (replayPaged (dsOf chunk rs).read {} batch fuel 0 [] []).delivered.map (·.2) = rs := by
  rw [dsOf_eq]
  simpa [dsResume] using ds_replayPaged_nofault chunk hc rs h batch hb fuel 0 0 [] (by omega) (by omega)

/-! ### KNOWN FINDING: the SQLite store as a SubscriptionStore for another store's offsets -/

/-- a memory log of six records -/
def mem6 : Mem := (List.range 6).foldl (fun m r => (m.append (r + 1)).1) {}

/-- KNOWN FINDING (C10): offsets are opaque strings whose format the event store defines, but the SQLite store keeps
saved positions as integers: the memory store's offset of record 3 is accepted and comes back as `"3"` -/
theorem sqlite_saved_offset_not_verbatim :
    ((Sql.save {} "s" (fmt20 3)).map (fun s => s.load "s")) = some (decimal 3) ∧ decimal 3 ≠ fmt20 3 := by
  decide +kernel

/-- KNOWN FINDING (C12): … and the memory store, which compares offsets as strings, finds nothing after `"3"` – neither
by streaming nor by reading – although records 4, 5 and 6 follow the offset that was saved: a subscription whose
positions are kept in the SQLite store loses every event of a memory log that was published while it was away -/
theorem sqlite_positions_lose_memory_events :
    (mem6.stream (fmt20 3)).map (·.2) = [4, 5, 6] ∧
    mem6.stream (decimal 3) = [] ∧ (mem6.read (decimal 3) 0).1 = [] := by
  decide +kernel

end Ebu.Log

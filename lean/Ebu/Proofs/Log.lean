import Ebu.Spec.Log
/-!
Stores as append-only resumable logs (C10) and Replay over them (C11).
-/
namespace Ebu.Log
open Ebu.Replay

/-! ### offsets -/

theorem digitsW_length (w n : Nat) : (digitsW w n).length = w := by
  induction w generalizing n with
  | zero => rfl
  | succ w ih => simp [digitsW, ih]

theorem lexLt_irrefl (xs : List Nat) : lexLt xs xs = false := by
  induction xs with
  | nil => rfl
  | cons x xs ih => simp [lexLt, ih]

theorem lexLt_snoc (xs ys : List Nat) (a b : Nat) (h : xs.length = ys.length) :
    lexLt (xs ++ [a]) (ys ++ [b]) = (lexLt xs ys || (xs == ys && decide (a < b))) := by
  induction xs generalizing ys with
  | nil =>
    cases ys with
    | nil =>
      simp only [List.nil_append, lexLt]
      by_cases h1 : a < b
      · simp [h1]
      · simp [h1]
    | cons y ys => simp at h
  | cons x xs ih =>
    cases ys with
    | nil => simp at h
    | cons y ys =>
      have h' : xs.length = ys.length := by simpa using h
      simp only [List.cons_append, lexLt, ih ys h']
      by_cases h1 : x < y
      · simp [h1]
      · by_cases h2 : y < x
        · have : x ≠ y := by omega
          simp [h1, h2, this]
        · have : x = y := by omega
          subst this
          simp

theorem digitsW_inj (w a b : Nat) (ha : a < 10 ^ w) (hb : b < 10 ^ w)
    (h : digitsW w a = digitsW w b) : a = b := by
  induction w generalizing a b with
  | zero => simp at ha hb; omega
  | succ w ih =>
    simp only [digitsW] at h
    rw [Nat.pow_succ] at ha hb
    have hl : (digitsW w (a / 10)).length = (digitsW w (b / 10)).length := by
      simp [digitsW_length]
    have := List.append_inj h hl
    have h1 := ih (a / 10) (b / 10) (by omega) (by omega) this.1
    have h2 : zero + a % 10 = zero + b % 10 := by simpa using this.2
    omega

theorem digitsW_beq (w a b : Nat) (ha : a < 10 ^ w) (hb : b < 10 ^ w) :
    (digitsW w a == digitsW w b) = decide (a = b) := by
  by_cases h : a = b
  · subst h; simp
  · have : digitsW w a ≠ digitsW w b := fun e => h (digitsW_inj w a b ha hb e)
    simp [h, this]

theorem lexLt_digitsW (w a b : Nat) (ha : a < 10 ^ w) (hb : b < 10 ^ w) :
    lexLt (digitsW w a) (digitsW w b) = decide (a < b) := by
  induction w generalizing a b with
  | zero => simp at ha hb; subst ha; subst hb; rfl
  | succ w ih =>
    rw [Nat.pow_succ] at ha hb
    simp only [digitsW]
    rw [lexLt_snoc _ _ _ _ (by simp [digitsW_length]), ih _ _ (by omega) (by omega),
      digitsW_beq _ _ _ (by omega) (by omega)]
    by_cases h1 : a / 10 < b / 10
    · have : a < b := by omega
      simp [h1, this]
    · by_cases h2 : a / 10 = b / 10
      · simp [h1, h2]
        by_cases h3 : a < b
        · simp [h3]; omega
        · simp [h3]; omega
      · have : ¬ a < b := by omega
        simp [h1, h2, this]

theorem lexLt_fmt20 (a b : Nat) (ha : a < 10 ^ 20) (hb : b < 10 ^ 20) :
    lexLt (fmt20 a) (fmt20 b) = decide (a < b) := lexLt_digitsW 20 a b ha hb

theorem lexLt_fmt10 (a b : Nat) (ha : a < 10 ^ 10) (hb : b < 10 ^ 10) :
    lexLt (fmt10 a) (fmt10 b) = decide (a < b) := lexLt_digitsW 10 a b ha hb

theorem maxInt64_lt : maxInt64 < 10 ^ 20 := by
  decide

theorem digitsVal_snoc (xs : List Nat) (c : Nat) :
    digitsVal (xs ++ [c]) = digitsVal xs * 10 + (c - 48) := by
  simp [digitsVal, List.foldl_append]

theorem decimal_lt (n : Nat) (h : n < 10) : decimal n = [zero + n] := by
  rw [decimal]; simp [h]

theorem decimal_ge (n : Nat) (h : ¬ n < 10) : decimal n = decimal (n / 10) ++ [zero + n % 10] := by
  rw [decimal]; simp [h]

theorem decimal_ne_nil (n : Nat) : decimal n ≠ [] := by
  by_cases h : n < 10
  · rw [decimal_lt n h]; simp
  · rw [decimal_ge n h]; simp

theorem decimal_digits (n : Nat) : (decimal n).all isDigit = true := by
  induction n using Nat.strongRecOn with
  | _ n ih =>
    by_cases h : n < 10
    · rw [decimal_lt n h]; simp [isDigit, zero]; omega
    · rw [decimal_ge n h]
      have := ih (n / 10) (by omega)
      simp only [List.all_append, this, Bool.true_and]
      simp [isDigit, zero]; omega

theorem digitsVal_decimal (n : Nat) : digitsVal (decimal n) = n := by
  induction n using Nat.strongRecOn with
  | _ n ih =>
    by_cases h : n < 10
    · rw [decimal_lt n h]; simp [digitsVal, zero]
    · rw [decimal_ge n h, digitsVal_snoc, ih (n / 10) (by omega)]
      simp [zero]; omega

theorem decimal_inj (a b : Nat) (h : decimal a = decimal b) : a = b := by
  have := congrArg digitsVal h
  simpa [digitsVal_decimal] using this

/-- the sign-stripping match is the identity on strings that start with a digit -/
theorem signMatch_digits (s : List Nat) : s.all isDigit = true →
    parseInt64.match_1 (fun _ => Bool × List Nat) s (fun r => (true, r)) (fun r => (false, r))
      (fun r => (false, r)) = (false, s) := by
  intro h
  split
  · simp [isDigit] at h
  · simp [isDigit] at h
  · rfl

theorem parseInt64_digits (s : List Nat) (hne : s ≠ []) (h : s.all isDigit = true)
    (hv : digitsVal s ≤ maxInt64) : parseInt64 s = some (digitsVal s : Int) := by
  unfold parseInt64
  rw [signMatch_digits s h]
  simp [hne, h, hv]

theorem sqlParse_decimal (n : Nat) (h : n ≤ maxInt64) : sqlParse (decimal n) = some (n : Int) := by
  unfold sqlParse
  have hne := decimal_ne_nil n
  have := parseInt64_digits (decimal n) hne (decimal_digits n) (by rw [digitsVal_decimal]; exact h)
  rw [digitsVal_decimal] at this
  simp [hne, this]

theorem decimal_10 : decimal 10 = [49, 48] := by
  rw [decimal_ge 10 (by omega), decimal_lt _ (by omega)]; rfl
theorem decimal_9 : decimal 9 = [57] := by
  rw [decimal_lt _ (by omega)]; rfl

theorem sqlite_offsets_not_lex : lexLt (decimal 10) (decimal 9) = true := by
  rw [decimal_10, decimal_9]; decide

/-! ### the memory store -/

theorem logWith_length (off : Nat → Off) (rs : List Rec) : (logWith off rs).length = rs.length := by
  simp [logWith]

theorem logWith_getElem? (off : Nat → Off) (rs : List Rec) (i : Nat) :
    (logWith off rs)[i]? = rs[i]?.map (fun r => (off (i + 1), r)) := by
  by_cases h : i < rs.length
  · simp [logWith, List.getElem?_eq_getElem, h]
  · simp [logWith, List.getElem?_eq_none, Nat.le_of_not_lt h]

theorem logWith_getElem (off : Nat → Off) (rs : List Rec) (i : Nat) (h : i < (logWith off rs).length) :
    (logWith off rs)[i] = (off (i + 1), rs[i]'(by simpa [logWith_length] using h)) := by
  have := logWith_getElem? off rs i
  have h' : i < rs.length := by simpa [logWith_length] using h
  rw [List.getElem?_eq_getElem h, List.getElem?_eq_getElem h'] at this
  simpa using this

theorem logWith_snoc (off : Nat → Off) (rs : List Rec) (r : Rec) :
    logWith off (rs ++ [r]) = logWith off rs ++ [(off (rs.length + 1), r)] := by
  simp [logWith, List.range_succ, List.zip_append]

def lastOff (l : List (Off × Rec)) (d : Off) : Off :=
  match l.getLast? with | some e => e.1 | none => d

theorem lastOff_nil (d : Off) : lastOff [] d = d := rfl

theorem lastOff_cons (e : Off × Rec) (l : List (Off × Rec)) (d : Off) :
    lastOff (e :: l) d = lastOff l e.1 := by
  cases l with
  | nil => rfl
  | cons x xs =>
    have : (x :: xs).getLast? = some ((x :: xs).getLast (by simp)) :=
      List.getLast?_eq_some_getLast _
    simp [lastOff, List.getLast?_cons_cons, this]

/-- the last offset of a window of the log is the resume point after the window -/
theorem lastOff_window (off : Nat → Off) (rs : List Rec) (j k : Nat) :
    lastOff (((logWith off rs).drop j).take k) (resumeAt off j) =
      resumeAt off (j + (((logWith off rs).drop j).take k).length) := by
  generalize hs : ((logWith off rs).drop j).take k = s
  by_cases hnil : s = []
  · subst hnil; simp [lastOff]
  · have hlen : 0 < s.length := List.length_pos_iff.mpr hnil
    have hl := congrArg List.length hs
    simp only [List.length_take, List.length_drop, logWith_length] at hl
    have h1 : s.getLast? = s[s.length - 1]? := by
      rw [List.getLast?_eq_getElem?]
    have h2 : s[s.length - 1]? = (logWith off rs)[j + (s.length - 1)]? := by
      rw [← hs, List.getElem?_take_of_lt (by rw [hs]; omega), List.getElem?_drop]
    have hlt : j + (s.length - 1) < rs.length := by omega
    simp only [lastOff, h1, h2, logWith_getElem?, List.getElem?_eq_getElem hlt, Option.map_some]
    have e1 : j + (s.length - 1) + 1 = j + s.length := by omega
    have e2 : j + s.length ≠ 0 := by omega
    simp only [resumeAt, e1, if_neg e2]

theorem snoc_induction {α : Type} {P : List α → Prop} (hnil : P [])
    (hsnoc : ∀ l a, P l → P (l ++ [a])) : ∀ l, P l := by
  intro l
  rw [← List.reverse_reverse l]
  induction l.reverse with
  | nil => simpa using hnil
  | cons a t ih => rw [List.reverse_cons]; exact hsnoc _ _ ih

theorem memOf_snoc (rs : List Rec) (r : Rec) : memOf (rs ++ [r]) = ((memOf rs).append r).1 := by
  simp [memOf, List.foldl_append]

theorem mem_log (rs : List Rec) :
    (memOf rs).events = logWith fmt20 rs ∧ (memOf rs).next = rs.length := by
  induction rs using snoc_induction with
  | hnil => exact ⟨rfl, rfl⟩
  | hsnoc l a ih =>
    rw [memOf_snoc, logWith_snoc]
    simp [Mem.append, ih.1, ih.2]

theorem memReadLoop_skip (from_ : Off) (limit : Int) (pre post acc : List (Off × Rec)) (last : Off)
    (hP : ∀ e ∈ pre, (from_.isEmpty || lexLt from_ e.1) = false) :
    memReadLoop from_ limit (pre ++ post) acc last = memReadLoop from_ limit post acc last := by
  induction pre with
  | nil => rfl
  | cons e pre ih =>
    obtain ⟨o, r⟩ := e
    have h1 := hP (o, r) (by simp)
    simp only [List.cons_append, memReadLoop]
    simp only at h1
    rw [h1]
    simp only [Bool.false_eq_true, if_false]
    exact ih (fun e he => hP e (by simp [he]))

theorem memReadLoop_all (from_ : Off) (limit : Int) (post acc : List (Off × Rec)) (last : Off)
    (hP : ∀ e ∈ post, (from_.isEmpty || lexLt from_ e.1) = true)
    (hacc : 0 < limit → (acc.length : Int) < limit) :
    memReadLoop from_ limit post acc last =
      (acc ++ (if limit ≤ 0 then post else post.take (limit.toNat - acc.length)),
       lastOff (if limit ≤ 0 then post else post.take (limit.toNat - acc.length)) last) := by
  induction post generalizing acc last with
  | nil => simp [memReadLoop, lastOff]
  | cons e post ih =>
    obtain ⟨o, r⟩ := e
    have h1 := hP (o, r) (by simp)
    simp only at h1
    simp only [memReadLoop, h1, if_true]
    by_cases hl : limit ≤ 0
    · have hn : ¬ (limit > 0) := by omega
      simp only [hn, decide_false, Bool.false_and, Bool.false_eq_true, if_false]
      rw [ih _ _ (fun e he => hP e (by simp [he])) (by intro h; omega)]
      simp [hl, lastOff_cons]
    · have hp : limit > 0 := by omega
      have ha := hacc hp
      by_cases hstop : ((acc ++ [(o, r)]).length : Int) ≥ limit
      · simp only [hp, hstop, decide_true, Bool.and_self, if_true, hl, if_false]
        have : limit.toNat - acc.length = 1 := by
          simp at hstop; omega
        simp [this, lastOff]
      · simp only [hp, hstop, decide_true, decide_false, Bool.and_false, Bool.false_eq_true, if_false, hl]
        rw [ih _ _ (fun e he => hP e (by simp [he])) (by intro _; omega)]
        have : limit.toNat - acc.length = (limit.toNat - (acc ++ [(o, r)]).length) + 1 := by
          simp at hstop ⊢; omega
        rw [this]
        simp [hl, lastOff_cons]

theorem mem_paged (rs : List Rec) (h : rs.length < 10 ^ 20) :
    PagedSpec (fun o l => some ((memOf rs).read o l)) fmt20 (logWith fmt20 rs) := by
  sorry

/-- streaming returns the same sequence as an unlimited read -/
theorem mem_stream_eq_read (rs : List Rec) (h : rs.length < 10 ^ 20) (j : Nat) (hj : j ≤ rs.length) :
    (memOf rs).stream (resumeAt fmt20 j) = ((memOf rs).read (resumeAt fmt20 j) 0).1 ∧
    (memOf rs).stream (resumeAt fmt20 j) = (logWith fmt20 rs).drop j := by
  sorry

theorem mem_offsets_table (m : Mem) (id id' : String) (o : Off) :
    (m.save id o).load id = o ∧ (id' ≠ id → (m.save id o).load id' = m.load id') ∧
    (({} : Mem).load id = []) ∧ (m.save id o).events = m.events := by
  sorry

/-! ### the SQLite store -/

theorem sql_log (rs : List Rec) :
    (sqlOf rs).rows = ((List.range rs.length).zip rs).map (fun (i, r) => (i + 1, r)) ∧ (sqlOf rs).seq = rs.length := by
  sorry

theorem sql_paged (rs : List Rec) (h : rs.length ≤ maxInt64) :
    PagedSpec (sqlOf rs).read decimal (logWith decimal rs) := by
  sorry

/-- a cursor that is not a number is rejected, never silently treated as "oldest" -/
theorem sql_garbage_rejected (s : Sql) (o : Off) (limit : Int) (h : sqlParse o = none) :
    s.read o limit = none ∧ s.save "x" o = none := by
  sorry

theorem sql_offsets_table (s s' : Sql) (id id' : String) (n : Nat) (hn : n ≤ maxInt64)
    (h : s.save id (decimal n) = some s') :
    s'.load id = decimal n ∧ (id' ≠ id → s'.load id' = s.load id') ∧ s'.rows = s.rows := by
  sorry

/-! ### any store that satisfies the paging contract -/

/-- any chain of reads with any limits, resumed from the returned next offsets, cuts the log
into consecutive pages: no gap and no repeat -/
theorem chain_reads_reproduce_log (read : Off → Int → Option (List (Off × Rec) × Off)) (off : Nat → Off)
    (all : List (Off × Rec)) (hs : PagedSpec read off all) (j : Nat) (hj : j ≤ all.length) (limits : List Int) :
    chainReads read (resumeAt off j) limits = some (pages (all.drop j) limits) := by
  sorry

/-- … and the same holds when a read is resumed from the offset of ANY returned event:
the offset of event number `j` is the resume point `j` -/
theorem resume_from_event_offset (read : Off → Int → Option (List (Off × Rec) × Off)) (off : Nat → Off)
    (all : List (Off × Rec)) (hs : PagedSpec read off all) (j : Nat) (hj : j < all.length) (limit : Int) :
    read (all[j]).1 limit = some (sel (all.drop (j + 1)) limit, resumeAt off (j + 1 + (sel (all.drop (j + 1)) limit).length)) := by
  sorry

/-! ### the durable-streams store: KNOWN FINDINGS and what does hold -/

/-- KNOWN FINDING (C10/C11/C12): `Read` truncates the chunk to `limit` but returns the
chunk's end as next offset: the rest of the chunk is lost for every chain of reads.
5 events, one chunk: Read(oldest, 2) returns 2 events, the next Read returns nothing. -/
theorem ds_limit_loses_events :
    ∃ evs next, (dsOf 5 [1, 2, 3, 4, 5]).read [] 2 = some (evs, next) ∧ evs.map (·.2) = [1, 2] ∧
      (dsOf 5 [1, 2, 3, 4, 5]).read next 2 = some ([], next) := by
  sorry

/-- KNOWN FINDING (C10/C12): the offset of a returned event is not a resume point: resuming
from the FIRST event's (synthetic) offset skips the whole chunk -/
theorem ds_event_offset_not_resumable :
    ∃ evs next, (dsOf 5 [1, 2, 3, 4, 5]).read [] 0 = some (evs, next) ∧ evs.length = 5 ∧
      ∃ o, evs.head? = some (o, 1) ∧ ((dsOf 5 [1, 2, 3, 4, 5]).read o 0).map (·.1.map (·.2)) = some [] := by
  sorry

/-- what does hold: reads that do not truncate (`limit ≤ 0` or `limit ≥ chunk`), chained
through the returned next offsets, return consecutive chunks of the log -/
theorem ds_read_untruncated_partial (chunk : Nat) (hc : 0 < chunk) (rs : List Rec) (h : rs.length < 10 ^ 10)
    (j : Nat) (hj : j ≤ rs.length) (limit : Int) (hl : limit ≤ 0 ∨ (chunk : Int) ≤ limit) :
    ∃ evs, (dsOf chunk rs).read (if j = 0 then [] else fmt10 j) limit = some (evs, fmt10 (j + evs.length)) ∧
      evs.map (·.2) = (rs.drop j).take chunk := by
  sorry

/-! ### Replay -/

/-- streaming stores, no fault: every event, in order, exactly once, and nil -/
theorem replayStream_complete (evs : List (Off × Rec)) :
    replayStream {} evs = ⟨evs, none, []⟩ := by
  sorry

/-- streaming stores, any fault: a gap-free prefix; nil only if everything was delivered;
a failing callback or a cancellation before the end is reported -/
theorem replayStream_prefix (f : Faults) (evs : List (Off × Rec)) :
    (replayStream f evs).delivered <+: evs ∧
    ((replayStream f evs).err = none → (replayStream f evs).delivered = evs) ∧
    (∀ k, f.cbFail = some k → k < evs.length → (f.cancelAt.all (fun c => k ≤ c)) = true → (replayStream f evs).err = some .callback) := by
  sorry

/-- SQLite batched streaming, no fault: complete for every batch size ≥ 1 -/
theorem replaySqlBatched_complete (rs : List Rec) (h : rs.length ≤ maxInt64) (batch : Nat) (hb : 0 < batch)
    (j : Nat) (hj : j ≤ rs.length) (fuel : Nat) (hf : rs.length + 2 ≤ fuel) :
    replaySqlBatched (sqlOf rs) {} batch fuel (j : Int) [] = ⟨(logWith decimal rs).drop j, none, []⟩ := by
  sorry

/-- SQLite batched streaming, any fault: gap-free prefix (also counting the rows the driver may
still hand out before it notices a cancellation), nil only after everything -/
theorem replaySqlBatched_prefix (rs : List Rec) (h : rs.length ≤ maxInt64) (f : Faults) (batch : Nat) (hb : 0 < batch)
    (j : Nat) (hj : j ≤ rs.length) (fuel : Nat) (hf : rs.length + 2 ≤ fuel) :
    let r := replaySqlBatched (sqlOf rs) f batch fuel (j : Int) []
    (r.delivered ++ r.may) <+: (logWith decimal rs).drop j ∧ r.err ≠ some .fuel ∧
    (r.err = none → r.delivered = (logWith decimal rs).drop j) := by
  sorry

/-- the paging fallback over any store that satisfies the paging contract, no fault:
complete for every batch size ≥ 1 (and for `≤ 0`, which means 100) -/
theorem replayPaged_complete (read : Off → Int → Option (List (Off × Rec) × Off)) (off : Nat → Off)
    (all : List (Off × Rec)) (hs : PagedSpec read off all) (j : Nat) (hj : j ≤ all.length) (batch : Int)
    (fuel : Nat) (hf : all.length + 2 ≤ fuel) :
    replayPaged read {} (effBatch batch) fuel 0 (resumeAt off j) [] = ⟨all.drop j, none, []⟩ := by
  sorry

/-- … any fault: gap-free prefix, nil only after everything -/
theorem replayPaged_prefix (read : Off → Int → Option (List (Off × Rec) × Off)) (off : Nat → Off)
    (all : List (Off × Rec)) (hs : PagedSpec read off all) (f : Faults) (j : Nat) (hj : j ≤ all.length) (batch : Int)
    (fuel : Nat) (hf : all.length + 2 ≤ fuel) :
    let r := replayPaged read f (effBatch batch) fuel 0 (resumeAt off j) []
    r.delivered <+: all.drop j ∧ r.err ≠ some .fuel ∧ (r.err = none → r.delivered = all.drop j) := by
  sorry

/-- KNOWN FINDING (C11): over the durable-streams store the paging fallback with a batch size
below the chunk size loses events and still returns nil: 5 events, batch 2 → 2 delivered, nil -/
theorem ds_replay_loses_events :
    (replayPaged (dsOf 5 [1, 2, 3, 4, 5]).read {} 2 20 0 [] []).err = none ∧
    ((replayPaged (dsOf 5 [1, 2, 3, 4, 5]).read {} 2 20 0 [] []).delivered.map (·.2)) = [1, 2] := by
  sorry

/-- what does hold for durable-streams: with a batch size not below the chunk size Replay
delivers every event -/
theorem ds_replay_untruncated_partial (chunk : Nat) (hc : 0 < chunk) (rs : List Rec) (h : rs.length < 10 ^ 10)
    (batch : Int) (hb : (chunk : Int) ≤ batch) (fuel : Nat) (hf : rs.length + 2 ≤ fuel) :
    (replayPaged (dsOf chunk rs).read {} batch fuel 0 [] []).err = none ∧
    (replayPaged (dsOf chunk rs).read {} batch fuel 0 [] []).delivered.map (·.2) = rs := by
  sorry

end Ebu.Log

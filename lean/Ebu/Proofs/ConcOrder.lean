import Ebu.Spec.ConcOrder
import Ebu.Proofs.ConcOnce
/-!
Async+Sequential deliveries in the interleaving model M2 happen in ticket order (C07).

The goroutine of an Async+Sequential delivery carries the ticket its publisher took at dispatch.  It waits at
"async.turn" until the ticket is the one being served, takes its turn, locks, enters the handler, and passes the turn
on when the handler returns (or at once, when its context is dead).  Invariants, for every registration `rid`:

* `turnTicket_reachable` – the goroutine that is in its turn carries the ticket being served;
* `OrdInv` – the tickets of the asynchronous entries made so far are strictly increasing, all of them are below
  `serving + (number of goroutines in their turn)`, and below `serving` while the goroutine in its turn is still at
  "handler.lock".
-/
namespace Ebu.Conc
open Ebu.Conc.Inv

namespace Inv

/-! #### sums over two different goroutines -/

theorem prog_le_one (rid : Nat) (th : Thread) : prog rid th ≤ 1 := by
  unfold prog
  split
  · split <;> omega
  · omega

theorem wsum_two_idx (w : Thread → Nat) {l : List Thread} {i k : Nat} {a b : Thread} (hik : i ≠ k)
    (ha : l[i]? = some a) (hb : l[k]? = some b) : w a + w b ≤ wsum w l := by
  induction l generalizing i k with
  | nil => simp at ha
  | cons x xs ih =>
    cases i with
    | zero =>
      cases k with
      | zero => exact absurd rfl hik
      | succ k =>
        simp at ha hb; subst ha
        have := wsum_ge w hb
        simp; omega
    | succ i =>
      cases k with
      | zero =>
        simp at ha hb; subst hb
        have := wsum_ge w ha
        simp; omega
      | succ k =>
        simp at ha hb
        have := ih (by omega) ha hb
        simp; omega

/-! #### single steps -/

/-- a step that arrives at the "handler.lock" of an async goroutine is that goroutine taking its turn -/
theorem StepR.to_lockT {sh th o} (h : StepR sh th o) {r : Reg} (hpc : o.th.pc = .lock r true) :
    ∃ j, th.pc = .turn ∧ th.job = some j ∧ lookupD sh.serving j.reg.rid = j.ticket ∧ o.sh.serving = sh.serving := by
  cases h
  case snap hsh => exact absurd hpc (hsh.running.2.2.2.2 r)
  case filterAcc hsh => exact absurd hpc (hsh.running.2.2.2.2 r)
  case filterRej hsh => exact absurd hpc (hsh.running.2.2.2.2 r)
  case claimed hsh => exact absurd hpc (hsh.running.2.2.2.2 r)
  case spawn hsh => exact absurd hpc (hsh.running.2.2.2.2 r)
  case exit hsh => exact absurd hpc (hsh.running.2.2.2.2 r)
  case lockDeadSync hsh => exact absurd hpc (hsh.running.2.2.2.2 r)
  case turnRun j hpc' hj hturn hl => exact ⟨j, hpc', hj, hturn, rfl⟩
  all_goals simp_all

/-- a goroutine that is in its turn after its step was in its turn before, or has just taken it -/
theorem StepR.prog_src {sh th o} (h : StepR sh th o) (rid : Nat) (hp : prog rid o.th = 1) :
    prog rid th = 1 ∨ ∃ r, o.th.pc = .lock r true := by
  have shp : ∀ {sh' f fs PF PC PG o'}, Shape sh' th f fs PF PC PG o' → idle th.pc = false → prog rid o'.th = 1 →
      prog rid th = 1 := by
    intro sh' f fs PF PC PG o' hsh hid hp
    rw [← prog_congr hsh.tk.2.2.1 (hsh.tk.2.2.2.1.trans hid.symm)]; exact hp
  cases h
  case snap hpc hfr hsh => exact .inl (shp hsh (by simp [idle, hpc]) hp)
  case filterAcc hpc hfr hacc hsh => exact .inl (shp hsh (by simp [idle, hpc]) hp)
  case filterRej hpc hfr hacc hsh => exact .inl (shp hsh (by simp [idle, hpc]) hp)
  case claimed hpc hfr hsh => exact .inl (shp hsh (by simp [idle, hpc]) hp)
  case spawn hpc hfr hsh => exact .inl (shp hsh (by simp [idle, hpc]) hp)
  case exit hpc hfr hj hsh => exact .inl (shp hsh (by simp [idle, hpc]) hp)
  case lockDeadSync hpc hfr hj hfree hl hsh => exact .inl (shp hsh (by simp [idle, hpc]) hp)
  case turnRun => exact .inr ⟨_, rfl⟩
  case astartRun j hpc hj hs hl => simp [prog, hj, hs] at hp
  all_goals
    left
    clear shp
    cases hj' : th.job <;> simp_all [prog, idle]

/-- the step of a goroutine parked at "handler.lock" that makes an asynchronous entry: the publish context is live, the
goroutine takes the mutex and enters the handler (the other outcomes – the context is dead, the handler is skipped –
produce no asynchronous entry) -/
theorem step_lock_inv {sh th o} (hs : step sh th = some o) {r : Reg} {a : Bool} (hpc : th.pc = .lock r a)
    (hE : o.obs.filter Obs.isAsyncEnter ≠ []) :
    o.th.pc = .enter r ∧ o.new = [] ∧ o.sh.serving = sh.serving := by
  unfold step at hs
  split at hs
  · cases hs
  simp only [hpc] at hs
  split at hs
  · split at hs
    · split at hs
      · cases hs; simp at hE
      · cases hs; simp at hE
    · cases hs; exact ⟨rfl, rfl, by simp⟩
  · cases hs

/-- the step of a Sequential goroutine parked at "async.start" produces no event -/
theorem StepR.astart_inv {sh th o} (h : StepR sh th o) {j : Job} (hpc : th.pc = .astart) (hj : th.job = some j)
    (hs : j.reg.seq = true) : o.obs = [] := by
  cases h
  case astartSeq => rfl
  all_goals simp_all

/-- `serving` never decreases, and neither does `serving + (number of goroutines in their turn)` -/
theorem TkEff.mono {sh : Shared} {ths : List Thread} {i : Nat} {th : Thread} {o : Out} (hth : ths[i]? = some th)
    (he : TkEff sh th o) (rid : Nat) :
    lookupD sh.serving rid ≤ lookupD o.sh.serving rid ∧
    lookupD sh.serving rid + wsum (prog rid) ths ≤ lookupD o.sh.serving rid + wsum (prog rid) (ths.set i o.th ++ o.new) := by
  have Ps := wsum_step (prog rid) o.th o.new hth
  have Pge := wsum_ge (prog rid) hth
  cases he with
  | quiet h1 h2 h3 h4 hh hp => have := hp rid; rw [h3]; omega
  | issue r hs h1 h2 h3 h4 hh hp => have := hp rid; rw [h3]; omega
  | turn j dead hs hturn h1 h2 h3 h4 hnew hh hh' hp hp' =>
    have a := hp rid
    have b := hp' rid
    rw [hnew] at Ps ⊢
    simp only [wsum_nil, Nat.add_zero, List.append_nil] at Ps ⊢
    rw [h3]
    cases dead
    · simp only [Bool.false_eq_true, if_false] at b ⊢
      split at b <;> omega
    · simp only [if_true, lookupD_setKV] at b ⊢
      by_cases hr : rid = j.reg.rid
      · subst hr
        simp only [if_true]
        omega
      · simp only [hr, if_false]
        omega
  | release j hs h1 h2 h3 h4 hnew hh hh' hp hp' =>
    have a := hp rid
    have b := hp' rid
    rw [hnew] at Ps ⊢
    simp only [wsum_nil, Nat.add_zero, List.append_nil] at Ps ⊢
    rw [h3, lookupD_setKV]
    by_cases hr : rid = j.reg.rid
    · subst hr
      simp only [if_true] at a ⊢
      omega
    · simp only [hr, if_false] at a ⊢
      omega

/-! #### the goroutine in its turn carries the ticket being served -/

theorem prog_rid {rid : Nat} {th : Thread} {j : Job} (hj : th.job = some j) (hp : prog rid th = 1) :
    j.reg.seq = true ∧ j.reg.rid = rid ∧ idle th.pc = false := by
  unfold prog at hp
  rw [hj] at hp
  simp only at hp
  split at hp
  · assumption
  · omega

theorem new_not_in_turn {sh th o} (hR : StepR sh th o) {t : Thread} (ht : t ∈ o.new) (rid : Nat) : prog rid t = 0 := by
  rcases hR.new_cases with h | ⟨j', h⟩ <;> rw [h] at ht <;> simp at ht
  subst ht
  simp [prog, idle]

theorem turnTicket_reachable {progs : List (List Op)} : ∀ s, Reachable progs s →
    ∀ (rid k : Nat) (th : Thread) (j : Job), s.ths[k]? = some th → th.job = some j → prog rid th = 1 →
      j.ticket = lookupD s.sh.serving rid := by
  apply reach_ind
  · intro rid k th j hk hj hp
    have hm := List.mem_of_getElem? hk
    simp only [initSys, List.mem_map] at hm
    obtain ⟨p, _, rfl⟩ := hm
    simp at hj
  · intro s i th o hr hI hth hR rid k th' j hk hj hp
    have hok := thOK_reachable s hr th (List.mem_of_getElem? hth)
    have hi : i < s.ths.length := (List.getElem?_eq_some_iff.1 hth).1
    have hjob := hR.job
    have tk1 := tk_reachable s hr rid
    have tk2 := tk2_reachable s hr rid
    simp only at hk ⊢
    by_cases hlen' : s.ths.length ≤ k
    · -- new goroutines are parked at "async.start"
      exfalso
      rw [List.getElem?_append_right (by simpa using hlen')] at hk
      have := new_not_in_turn hR (List.mem_of_getElem? hk) rid
      omega
    have hlen : k < s.ths.length := by omega
    rw [List.getElem?_append_left (by simpa using hlen)] at hk
    by_cases hki : i = k
    · subst hki
      rw [List.getElem?_set_self hi] at hk
      cases hk
      have hrid := (prog_rid hj hp).2.1
      rw [hjob] at hj
      rcases hR.prog_src rid hp with h1 | ⟨r, h1⟩
      · -- it stays in its turn: `serving` is unchanged
        have hIi := hI rid i th j hth hj h1
        cases hR.tk hok with
        | quiet h1 h2 h3 h4 hh hp0 => rw [h3]; exact hIi
        | issue r hs h1 h2 h3 h4 hh hp0 => rw [h3]; exact hIi
        | turn j0 dead hs hturn h1 h2 h3 h4 hnew hh hh' hp0 hp' => have := hp0 rid; omega
        | release j0 hs h1 h2 h3 h4 hnew hh hh' hp0 hp' => have := hp' rid; omega
      · -- it has just taken its turn
        obtain ⟨j1, _, hj1, hturn, hsame⟩ := hR.to_lockT h1
        rw [hj] at hj1; cases hj1
        rw [hsame, ← hrid]; exact hturn.symm
    · rw [List.getElem?_set_ne hki] at hk
      have hIk := hI rid k th' j hk hj hp
      cases hR.tk hok with
      | quiet h1 h2 h3 h4 hh hp0 => rw [h3]; exact hIk
      | issue r hs h1 h2 h3 h4 hh hp0 => rw [h3]; exact hIk
      | turn j0 dead hs hturn h1 h2 h3 h4 hnew hh hh' hp0 hp' =>
        by_cases hr : rid = j0.reg.rid
        · -- nobody was in its turn when `th` took it
          exfalso
          subst hr
          have hge := wsum_ge (hold j0.reg.rid j0.ticket) hth
          rw [hh] at hge; simp only [and_self, if_true] at hge
          have h5 := (tk1.holders j0.ticket).2 hge
          have := wsum_ge (prog j0.reg.rid) hk
          omega
        · rw [h3]; cases dead <;> simp [lookupD_setKV, hr] <;> exact hIk
      | release j0 hs h1 h2 h3 h4 hnew hh hh' hp0 hp' =>
        by_cases hr : rid = j0.reg.rid
        · -- two goroutines in their turn
          exfalso
          subst hr
          have a := hp0 j0.reg.rid
          simp only [if_true] at a
          have := wsum_two_idx (prog j0.reg.rid) hki hth hk
          have := tk2.one
          omega
        · rw [h3, lookupD_setKV]; simp only [hr, if_false]; exact hIk

/-! #### the tickets of the entries, as the run is extended -/

/-- what one event of the trace contributes to `asyncEntryTickets` -/
def pick (rid : Nat) (tk : Nat → Option Nat) (p : Nat × Obs) : Option Nat :=
  match p.2 with
  | .enter r _ _ true => if r == rid then tk p.1 else none
  | _ => none

theorem asyncEntryTickets_eq (x : SysT) (rid : Nat) :
    asyncEntryTickets x rid = x.tr.filterMap (pick rid (ticketOf x.s)) := rfl

theorem pick_none (rid : Nat) (tk : Nat → Option Nat) (i : Nat) {e : Obs} (he : e.isAsyncEnter = false) :
    pick rid tk (i, e) = none := by
  cases e
  case enter r ty v a => cases a <;> simp [pick, Obs.isAsyncEnter] at he ⊢
  all_goals rfl

theorem pick_obs (rid : Nat) (tk : Nat → Option Nat) (i : Nat) (obs : List Obs) :
    (obs.map (fun e => (i, e))).filterMap (pick rid tk) =
      ((obs.filter Obs.isAsyncEnter).map (fun e => (i, e))).filterMap (pick rid tk) := by
  induction obs with
  | nil => rfl
  | cons e es ih =>
    by_cases he : e.isAsyncEnter = true
    · rw [List.map_cons, List.filterMap_cons, List.filter_cons_of_pos he, List.map_cons, List.filterMap_cons, ih]
    · rw [List.map_cons, List.filterMap_cons_none (pick_none rid tk i (by simpa using he)), List.filter_cons_of_neg he, ih]

theorem filterMap_congr' {α β : Type} {f g : α → Option β} {l : List α} (h : ∀ x ∈ l, f x = g x) :
    l.filterMap f = l.filterMap g := by
  induction l with
  | nil => rfl
  | cons a as ih =>
    rw [List.filterMap_cons, List.filterMap_cons, h a (by simp), ih (fun x hx => h x (by simp [hx]))]

/-- a goroutine keeps its ticket -/
theorem ticketOf_step {sh sh' : Shared} {ths : List Thread} {i k : Nat} {th th' : Thread} (new : List Thread)
    (hth : ths[i]? = some th) (hjob : th'.job = th.job) (hk : k < ths.length) :
    ticketOf ⟨sh', ths.set i th' ++ new⟩ k = ticketOf ⟨sh, ths⟩ k := by
  unfold ticketOf
  simp only
  rw [List.getElem?_append_left (by simpa using hk)]
  by_cases hik : i = k
  · subst hik
    rw [List.getElem?_set_self hk, hth]
    simp [hjob]
  · rw [List.getElem?_set_ne hik]

/-- goroutines are never removed and keep their job: `SeqJobs` of the later state gives `SeqJobs` of the earlier one -/
theorem seqJobs_step {sh sh' : Shared} {ths : List Thread} {i : Nat} {th th' : Thread} (new : List Thread)
    (hth : ths[i]? = some th) (hjob : th'.job = th.job) (rid : Nat)
    (h : SeqJobs ⟨sh', ths.set i th' ++ new⟩ rid) : SeqJobs ⟨sh, ths⟩ rid := by
  intro t ht j hj hr
  obtain ⟨k, hk⟩ := List.getElem?_of_mem ht
  have hlen : k < ths.length := (List.getElem?_eq_some_iff.1 hk).1
  by_cases hik : i = k
  · subst hik
    simp only at hk
    rw [hth] at hk; cases hk
    refine h th' ?_ j (hjob.trans hj) hr
    exact List.mem_append_left _ (List.mem_of_getElem? (List.getElem?_set_self hlen))
  · refine h t ?_ j hj hr
    exact List.mem_append_left _ (List.mem_of_getElem? ((List.getElem?_set_ne hik).trans hk))

/-- one step appends at most one ticket to the entries of `rid`: that of the goroutine leaving "handler.lock" -/
theorem entryTickets_step {progs : List (List Op)} {x : SysT} {i : Nat} {th : Thread} {o : Out} (hrT : ReachableT progs x)
    (hth : x.s.ths[i]? = some th) (hs : step x.s.sh th = some o) (rid : Nat) (hseq : SeqJobs x.s rid) :
    asyncEntryTickets { s := { sh := o.sh, ths := x.s.ths.set i o.th ++ o.new }, tr := x.tr ++ o.obs.map (fun e => (i, e)) } rid =
        asyncEntryTickets x rid ∨
    ∃ r j, th.pc = .lock r true ∧ r.rid = rid ∧ th.job = some j ∧ j.reg = r ∧ o.obs.filter Obs.isAsyncEnter ≠ [] ∧
      asyncEntryTickets { s := { sh := o.sh, ths := x.s.ths.set i o.th ++ o.new }, tr := x.tr ++ o.obs.map (fun e => (i, e)) } rid =
        asyncEntryTickets x rid ++ [j.ticket] := by
  generalize hx' : ({ s := { sh := o.sh, ths := x.s.ths.set i o.th ++ o.new }, tr := x.tr ++ o.obs.map (fun e => (i, e)) } : SysT) = x'
  have hR := stepR_of_step hs
  have hjob := hR.job
  have hr := reachableT_reachable hrT
  have hok := thOK_reachable x.s hr th (List.mem_of_getElem? hth)
  obtain ⟨hlt, hTr⟩ := trInv_reachable x hrT
  have hi : i < x.s.ths.length := (List.getElem?_eq_some_iff.1 hth).1
  have hold : x.tr.filterMap (pick rid (ticketOf x'.s)) = asyncEntryTickets x rid := by
    rw [asyncEntryTickets_eq]
    apply filterMap_congr'
    intro p hp
    have : ticketOf x'.s p.1 = ticketOf x.s p.1 := by
      subst hx'; exact ticketOf_step _ hth hjob (hlt p hp)
    unfold pick; rw [this]
  have hsplit : asyncEntryTickets x' rid = asyncEntryTickets x rid ++
      ((o.obs.filter Obs.isAsyncEnter).map (fun e => (i, e))).filterMap (pick rid (ticketOf x'.s)) := by
    rw [asyncEntryTickets_eq x']
    have : x'.tr = x.tr ++ o.obs.map (fun e => (i, e)) := by subst hx'; rfl
    rw [this, List.filterMap_append, hold, pick_obs]
  have hTh := hTr i th hth
  have hTh' := hTh.step hs
  have hq := (step_obs hs).2.2
  have htk' : ∀ j, th.job = some j → ticketOf x'.s i = some j.ticket := by
    intro j hj
    subst hx'
    unfold ticketOf
    simp only
    rw [List.getElem?_append_left (by simpa using hi), List.getElem?_set_self hi]
    simp [hjob, hj]
  by_cases hE : o.obs.filter Obs.isAsyncEnter = []
  · left; rw [hsplit, hE]; simp
  · have hpc : th.pc = .astart ∨ ∃ r, th.pc = .lock r true := by
      apply Classical.byContradiction
      intro hn
      exact hE (hq (fun h => hn (.inl h)) (fun r h => hn (.inr ⟨r, h⟩)))
    cases hj : th.job with
    | none =>
      unfold ThTr at hTh; rw [hj] at hTh
      rcases hpc with h | ⟨r, h⟩
      · exact absurd h hTh.2.1
      · exact absurd h (hTh.2.2 r)
    | some j =>
      unfold ThTr at hTh hTh'
      rw [hjob, hj] at hTh'
      rw [hj] at hTh
      simp only at hTh hTh'
      have hE' : o.obs.filter Obs.isAsyncEnter = theEnter j := by
        rcases hTh'.cases with h | h
        · exact absurd (List.append_eq_nil_iff.1 h).2 hE
        · rcases hTh.cases with h0 | h0
          · rw [h0] at h; simpa using h
          · rw [h0] at h
            cases hE2 : o.obs.filter Obs.isAsyncEnter with
            | nil => exact absurd hE2 hE
            | cons a as =>
              rw [hE2] at h
              have := congrArg List.length h
              simp [theEnter] at this
      by_cases hrid : j.reg.rid = rid
      · rcases hpc with h | ⟨r, h⟩
        · have hs' := hseq th (List.mem_of_getElem? hth) j hj hrid
          have := hR.astart_inv h hj hs'
          rw [this] at hE
          exact absurd rfl hE
        · right
          have hok' := hok
          simp only [ThOK, h] at hok'
          obtain ⟨_, _, j', hj', hjr⟩ := hok'
          rw [hj] at hj'; cases hj'
          refine ⟨r, j, h, hjr ▸ hrid, rfl, hjr, hE, ?_⟩
          rw [hsplit, hE']
          simp [theEnter, pick, hrid, htk' j hj]
      · left
        rw [hsplit, hE']
        simp [theEnter, pick, hrid]

/-! #### the order invariant -/

structure OrdInv (x : SysT) (rid : Nat) : Prop where
  sorted : (asyncEntryTickets x rid).Pairwise (· < ·)
  below : ∀ t ∈ asyncEntryTickets x rid, t < lookupD x.s.sh.serving rid + wsum (prog rid) x.s.ths
  fresh : ∀ (k : Nat) (th : Thread) (r : Reg), x.s.ths[k]? = some th → th.pc = .lock r true → r.rid = rid →
    ∀ t ∈ asyncEntryTickets x rid, t < lookupD x.s.sh.serving rid

theorem prog_lockT {rid : Nat} {th : Thread} {r : Reg} (hok : ThOK th) (hpc : th.pc = .lock r true) (hrid : r.rid = rid) :
    prog rid th = 1 := by
  simp only [ThOK, hpc] at hok
  obtain ⟨hrs, _, j, hj, hjr⟩ := hok
  simp [prog, hj, hjr, hrs, hrid, hpc, idle]

theorem ordInv_reachable {progs : List (List Op)} :
    ∀ x, ReachableT progs x → ∀ rid, SeqJobs x.s rid → OrdInv x rid := by
  apply reachT_ind
  · intro rid _
    exact ⟨by simp [asyncEntryTickets], by simp [asyncEntryTickets], by simp [asyncEntryTickets]⟩
  · intro x i th o hrT hI hth hs rid hseq'
    have hR := stepR_of_step hs
    have hjob := hR.job
    have hr := reachableT_reachable hrT
    have hr' : Reachable progs { sh := o.sh, ths := x.s.ths.set i o.th ++ o.new } :=
      .step (i := i) hr (by simp [Sys.stepAt, hth, hs])
    have hok := thOK_reachable x.s hr th (List.mem_of_getElem? hth)
    have hi : i < x.s.ths.length := (List.getElem?_eq_some_iff.1 hth).1
    have hseq : SeqJobs x.s rid := seqJobs_step o.new hth hjob rid hseq'
    obtain ⟨iA, iB, iD⟩ := hI rid hseq
    obtain ⟨mS, mN⟩ := (hR.tk hok).mono hth rid
    have one' := (tk2_reachable _ hr' rid).one
    have one := (tk2_reachable _ hr rid).one
    have Ps := wsum_step (prog rid) o.th o.new hth
    have hnewpc : ∀ k th', x.s.ths.length ≤ k → (x.s.ths.set i o.th ++ o.new)[k]? = some th' → th'.pc = .astart := by
      intro k th' hlen' hk
      rw [List.getElem?_append_right (by simpa using hlen')] at hk
      exact ((step_obs hs).2.1 th' (List.mem_of_getElem? hk)).2
    simp only at one'
    rcases entryTickets_step hrT hth hs rid hseq with hL | ⟨r, j, hpc, hrid, hj, hjr, hE, hL⟩
    · refine ⟨by rw [hL]; exact iA, ?_, ?_⟩
      · intro t ht
        rw [hL] at ht
        have := iB t ht
        simp only
        omega
      · intro k th' r hk hpc' hrid t ht
        rw [hL] at ht
        simp only at hk ⊢
        by_cases hlen' : x.s.ths.length ≤ k
        · have := hnewpc k th' hlen' hk
          rw [this] at hpc'; cases hpc'
        have hlen : k < x.s.ths.length := by omega
        rw [List.getElem?_append_left (by simpa using hlen)] at hk
        by_cases hki : i = k
        · -- the goroutine has just taken its turn: nobody was in turn before
          subst hki
          rw [List.getElem?_set_self hi] at hk; cases hk
          obtain ⟨j, hpcT, hj, hturn, hsame⟩ := hR.to_lockT hpc'
          have p1 : prog rid o.th = 1 := prog_lockT (hR.thOK hok).1 hpc' hrid
          have p0 : prog rid th = 0 := by simp [prog, hj, hpcT, idle]
          have := iB t ht
          rw [hsame]
          omega
        · rw [List.getElem?_set_ne hki] at hk
          have := iD k th' r hk hpc' hrid t ht
          omega
    · -- the goroutine in its turn enters the handler: its ticket is the one being served
      obtain ⟨hpc', hnew, hsame⟩ := step_lock_inv hs hpc hE
      have p1 : prog rid th = 1 := prog_lockT hok hpc hrid
      have htk := turnTicket_reachable x.s hr rid i th j hth hj p1
      have hge := wsum_ge (prog rid) hth
      have hlt : ∀ t ∈ asyncEntryTickets x rid, t < j.ticket := by
        intro t ht; rw [htk]; exact iD i th r hth hpc hrid t ht
      refine ⟨?_, ?_, ?_⟩
      · rw [hL, List.pairwise_append]
        exact ⟨iA, by simp, fun a ha b hb => by simp at hb; subst hb; exact hlt a ha⟩
      · intro t ht
        rw [hL] at ht
        simp only
        rcases List.mem_append.1 ht with ht | ht
        · have := iB t ht; omega
        · simp at ht; subst ht; omega
      · intro k th' r' hk hpc'' hrid' t ht
        exfalso
        simp only at hk
        by_cases hlen' : x.s.ths.length ≤ k
        · have := hnewpc k th' hlen' hk
          rw [this] at hpc''; cases hpc''
        have hlen : k < x.s.ths.length := by omega
        rw [List.getElem?_append_left (by simpa using hlen)] at hk
        by_cases hki : i = k
        · subst hki
          rw [List.getElem?_set_self hi] at hk; cases hk
          rw [hpc'] at hpc''; cases hpc''
        · rw [List.getElem?_set_ne hki] at hk
          have p1' : prog rid th' = 1 := prog_lockT (thOK_reachable x.s hr th' (List.mem_of_getElem? hk)) hpc'' hrid'
          have := wsum_two_idx (prog rid) hki hth hk
          omega

end Inv

/-! ### C07 — Async+Sequential deliveries happen in ticket order -/

/-- Async+Sequential: the handler is entered in ticket order – the tickets of its asynchronous entries, in the order
in which they happened, are strictly increasing (with `tickets_in_dispatch_order`: events are processed in the order in
which they were dispatched; cancelled ones are skipped, none overtakes) -/
theorem async_seq_entries_in_ticket_order {progs : List (List Op)} {x : SysT} (h : ReachableT progs x) (rid : Nat)
    (hseq : SeqJobs x.s rid) : (asyncEntryTickets x rid).Pairwise (· < ·) :=
  (ordInv_reachable x h rid hseq).sorted

/-- … and every ticket that has been entered is below the ticket being served next -/
theorem async_seq_entries_below_serving {progs : List (List Op)} {x : SysT} (h : ReachableT progs x) (rid : Nat)
    (hseq : SeqJobs x.s rid) : ∀ t ∈ asyncEntryTickets x rid, t < lookupD x.s.sh.serving rid + 1 := by
  intro t ht
  have h1 := (ordInv_reachable x h rid hseq).below t ht
  have h2 := (tk2_reachable x.s (reachableT_reachable h) rid).one
  omega

/-! ### the hypotheses are satisfiable: two publishes to an Async+Sequential handler, delivered in ticket order -/

namespace OrderExample
open TraceExample

/-- one Async+Sequential handler on type 0, two publishes -/
def ordProgs : List (List Op) :=
  [ [ .subscribe 0 0 false true true none [],
      .publish 0 1 .bg,
      .publish 0 2 .bg ] ]

/-- the publisher runs to its end (goroutine 1 gets ticket 0, goroutine 2 ticket 1); goroutine 2 starts first and
parks at "async.turn" (a further step of it is refused); goroutine 1 takes its turn, runs the handler and passes the
turn on; then goroutine 2 runs -/
def ordSched : List Nat := [0, 0, 0, 0, 0, 0, 0, 0, 2, 1, 1, 1, 1, 1, 1, 2, 2, 2, 2, 2]

theorem ordRuns : (runT { s := initSys ordProgs } ordSched).isSome = true := by decide +kernel

def ordState : SysT := (runT { s := initSys ordProgs } ordSched).get ordRuns

theorem ordReachable : ReachableT ordProgs ordState := runT_reachable .init (Option.some_get ordRuns).symm

/-- goroutine 2 (ticket 1) cannot overtake: parked at "async.turn" before goroutine 1 has run, it is blocked -/
theorem ordBlocked :
    ((runT { s := initSys ordProgs } (ordSched.take 9)).bind (fun x => x.stepAt 2)).isNone = true := by decide +kernel

theorem ordSeqJobs : SeqJobs ordState.s 0 := by
  have h : ∀ th ∈ ordState.s.ths, (th.job.all fun j => j.reg.seq) = true := by decide +kernel
  intro th hth j hj _
  have := h th hth
  rw [hj] at this
  simpa using this

/-- a reachable quiescent state to which the theorems apply, with both deliveries made: tickets `[0, 1]` -/
theorem order_hypotheses_satisfiable :
    ReachableT ordProgs ordState ∧ SeqJobs ordState.s 0 ∧ ordState.s.allDone ∧ asyncEntryTickets ordState 0 = [0, 1] ∧
    lookupD ordState.s.sh.serving 0 = 2 :=
  ⟨ordReachable, ordSeqJobs, by unfold Sys.allDone; decide +kernel, by decide +kernel, by decide +kernel⟩

end OrderExample

end Ebu.Conc

import Ebu.Spec.Bus
import Ebu.Proofs.BusObs
/-!
M9 — what an OpenTelemetry-style implementation of the observability callbacks accumulates
(C20, second half): spans ended exactly once, truthful counters.
-/
namespace Ebu.Bus

/-- a balanced trace with fresh span ids ends every span it starts exactly once -/
theorem balanced_fresh_ended_once (l : List Ev) (hb : obsStack l [] = some []) (hn : (obsStarts l).Nodup) (id : Nat) :
    (obsCompletes l).count id = (obsStarts l).count id ∧ (obsStarts l).count id ≤ 1 := by
  sorry

/-- in every run each span that is started is ended exactly once -/
theorem spans_ended_exactly_once {R : Type} (I : RegImpl R) (cfg : Config) (fuel : Nat) (faults : List Bool)
    (prog : List Action) (id : Nat) :
    let tr := (run I cfg fuel faults prog).c.trace
    (obsCompletes tr).count id = (obsStarts tr).count id ∧ (obsStarts tr).count id ≤ 1 := by
  sorry

/-- with an Observability installed the counters equal the true numbers: handler runs = handler
invocations, persist attempts = append attempts, persist failures = failed appends, and – when a
panic handler is installed, which makes panics visible in the trace – handler errors = panics;
started spans = ended spans -/
theorem counters_truthful {R : Type} (I : RegImpl R) (cfg : Config) (fuel : Nat) (faults : List Bool)
    (prog : List Action) (hobs : cfg.obs = true) :
    let tr := (run I cfg fuel faults prog).c.trace
    let s := otelSummary tr
    s.started = s.ended ∧ s.handlerRuns = (trueCounts tr).1 ∧ s.persistAttempts = (trueCounts tr).2.2.1 ∧
    s.persistErrors = (trueCounts tr).2.2.2 ∧ (cfg.panicH = true → s.handlerErrors = (trueCounts tr).2.1) ∧
    s.started = s.publishes + s.handlerRuns + s.persistAttempts := by
  sorry

end Ebu.Bus

import Ebu.Spec.Bus
import Ebu.Proofs.BusObs
/-!
M9 — what an OpenTelemetry-style implementation of the observability callbacks accumulates
(C20, second half): spans ended exactly once, truthful counters.
-/
namespace Ebu.Bus

namespace Otel
open Obs

/-! ### stack processing versus counts -/

theorem stack_count (id : Nat) (l : List Ev) (st st' : List Nat) (h : obsStack l st = some st') :
    (obsCompletes l).count id + st'.count id = (obsStarts l).count id + st.count id := by
  induction l generalizing st with
  | nil =>
    simp only [obsStack, Option.some.injEq] at h
    subst h
    simp [obsCompletes, obsStarts]
  | cons e l ih =>
    cases e with
    | obs d k i p ty f =>
      cases k
      case ps | hs | rs =>
        simp only [obsStack] at h
        have := ih _ h
        simp only [obsCompletes, obsStarts, List.filterMap_cons, List.count_cons] at this ⊢
        omega
      all_goals
        cases st with
        | nil => simp [obsStack] at h
        | cons top st'' =>
          simp only [obsStack] at h
          split at h
          · rename_i ht
            subst ht
            have := ih _ h
            simp only [obsCompletes, obsStarts, List.filterMap_cons, List.count_cons] at this ⊢
            omega
          · cases h
    | _ =>
      simp only [obsStack] at h
      have := ih _ h
      simp only [obsCompletes, obsStarts, List.filterMap_cons] at this ⊢
      exact this

theorem stack_length (l : List Ev) (st st' : List Nat) (h : obsStack l st = some st') :
    (obsCompletes l).length + st'.length = (obsStarts l).length + st.length := by
  induction l generalizing st with
  | nil =>
    simp only [obsStack, Option.some.injEq] at h
    subst h
    simp [obsCompletes, obsStarts]
  | cons e l ih =>
    cases e with
    | obs d k i p ty f =>
      cases k
      case ps | hs | rs =>
        simp only [obsStack] at h
        have := ih _ h
        simp only [obsCompletes, obsStarts, List.filterMap_cons, List.length_cons] at this ⊢
        omega
      all_goals
        cases st with
        | nil => simp [obsStack] at h
        | cons top st'' =>
          simp only [obsStack] at h
          split at h
          · have := ih _ h
            simp only [obsCompletes, obsStarts, List.filterMap_cons, List.length_cons] at this ⊢
            omega
          · cases h
    | _ =>
      simp only [obsStack] at h
      have := ih _ h
      simp only [obsCompletes, obsStarts, List.filterMap_cons] at this ⊢
      exact this

/-! ### the counted predicates -/

def pPs : Ev → Bool := fun e => match e with | .obs _ .ps .. => true | _ => false
def pHs : Ev → Bool := fun e => match e with | .obs _ .hs .. => true | _ => false
def pHcT : Ev → Bool := fun e => match e with | .obs _ .hc _ _ _ true => true | _ => false
def pRs : Ev → Bool := fun e => match e with | .obs _ .rs .. => true | _ => false
def pRcT : Ev → Bool := fun e => match e with | .obs _ .rc _ _ _ true => true | _ => false
def pEnter : Ev → Bool := fun e => match e with | .enter .. => true | _ => false
def pPanich : Ev → Bool := fun e => match e with | .panich .. => true | _ => false
def pAppF : Ev → Bool := fun e => match e with | .append _ _ _ _ false _ => true | _ => false

theorem starts_length (l : List Ev) :
    (obsStarts l).length = l.countP pPs + l.countP pHs + l.countP pRs := by
  induction l with
  | nil => simp [obsStarts]
  | cons e l ih =>
    cases e with
    | obs d k i p ty f =>
      cases k <;> simp [obsStarts, List.countP_cons, pPs, pHs, pRs] at ih ⊢ <;> omega
    | _ =>
      simp [obsStarts, pPs, pHs, pRs] at ih ⊢
      omega

/-- events that take part in none of the counting equalities -/
def neutral : Ev → Bool
  | .obs _ .ps .. => true
  | .obs _ .pc .. => true
  | .obs .. => false
  | .enter .. => false
  | .panich .. => false
  | .append .. => false
  | _ => true

/-- the counting invariant of a trace segment (when an Observability is installed) -/
def Good (cfg : Config) (l : List Ev) : Prop :=
  cfg.obs = true →
    l.countP pHs = l.countP pEnter ∧ l.countP pRs = l.countP isAppend ∧
    l.countP pRcT = l.countP pAppF ∧ (cfg.panicH = true → l.countP pHcT = l.countP pPanich)

theorem Good.nil {cfg} : Good cfg [] := by
  intro _; simp

theorem Good.append {cfg l₁ l₂} (h₁ : Good cfg l₁) (h₂ : Good cfg l₂) : Good cfg (l₁ ++ l₂) := by
  intro ho
  obtain ⟨a1, b1, c1, d1⟩ := h₁ ho
  obtain ⟨a2, b2, c2, d2⟩ := h₂ ho
  simp only [List.countP_append]
  refine ⟨by omega, by omega, by omega, fun hp => ?_⟩
  have := d1 hp; have := d2 hp; omega

theorem Good.single {cfg} (e : Ev) (h : neutral e = true) : Good cfg [e] := by
  intro _
  cases e with
  | obs d k i p ty f => cases k <;> simp_all [neutral, pHs, pEnter, pRs, isAppend, pRcT, pAppF, pHcT, pPanich]
  | _ => simp_all [neutral, pHs, pEnter, pRs, isAppend, pRcT, pAppF, pHcT, pPanich]

theorem Good.optSingle {cfg} (b : Bool) (e : Ev) (h : neutral e = true) :
    Good cfg (if b then [e] else []) := by
  cases b
  · exact Good.nil
  · exact Good.single e h

/-! ### extension of a core state by a good segment -/

def GExt (cfg : Config) (c c' : Core) : Prop := ∃ l, c'.trace = c.trace ++ l ∧ Good cfg l

theorem GExt.of_eq {cfg} {c c' : Core} (ht : c'.trace = c.trace) : GExt cfg c c' :=
  ⟨[], by simp [ht], Good.nil⟩

theorem GExt.refl {cfg} {c : Core} : GExt cfg c c := GExt.of_eq rfl

theorem GExt.trans {cfg} {c₁ c₂ c₃ : Core} (h₁ : GExt cfg c₁ c₂) (h₂ : GExt cfg c₂ c₃) :
    GExt cfg c₁ c₃ := by
  obtain ⟨l₁, e₁, s₁⟩ := h₁
  obtain ⟨l₂, e₂, s₂⟩ := h₂
  exact ⟨l₁ ++ l₂, by rw [e₂, e₁, List.append_assoc], s₁.append s₂⟩

theorem GExt.emit {cfg} (c : Core) (e : Ev) (hn : neutral e = true) : GExt cfg c (c.emit e) :=
  ⟨[e], Core.trace_emit c e, Good.single e hn⟩

theorem GExt.emitIf {cfg} (b : Bool) (c : Core) (e : Ev) (hn : neutral e = true) :
    GExt cfg c (emitIf b c e) := by
  cases b
  · exact GExt.refl
  · exact GExt.emit c e hn

theorem persistEvs_good (cfg : Config) (d ty v sid obsParent : Nat) (c : Core) :
    Good cfg (persistEvs cfg d ty v sid obsParent c) := by
  intro ho
  unfold persistEvs
  cases hf : c.appendFaults.headD false <;> cases cfg.perrH <;>
    simp [ho, List.countP_cons, pHs, pEnter, pRs, isAppend, pRcT, pAppF, pHcT, pPanich]

theorem persist_gext (cfg : Config) (d ty v : Nat) (bad : Bool) (obsParent : Nat) (c : Core) :
    GExt cfg c (persist cfg d ty v bad obsParent c) := by
  cases hs : cfg.store with
  | none =>
    have : persist cfg d ty v bad obsParent c = c := by simp [persist, hs]
    rw [this]; exact GExt.refl
  | some sid =>
    cases bad with
    | true =>
      have : persist cfg d ty v true obsParent c = emitIf cfg.perrH c (.perr d ty v true) := by
        simp [persist, hs]
      rw [this]; exact GExt.emitIf _ _ _ rfl
    | false =>
      obtain ⟨ht, -⟩ := persist_trace cfg d ty v obsParent c sid hs
      exact ⟨_, ht, persistEvs_good cfg d ty v sid obsParent c⟩

/-! ### one level of the semantics -/

section step
variable {R : Type} (I : RegImpl R) (cfg : Config) (rec : Frame → St R → Action → St R)

def RecG : Prop := ∀ fr s a, GExt cfg s.c (rec fr s a).c

variable {cfg rec}

theorem runBody_gext (h : RecG cfg rec) (fr : Frame) (s : St R) (acts : List Action) :
    GExt cfg s.c (runBody rec fr s acts).c := by
  unfold runBody
  induction acts generalizing s with
  | nil => exact GExt.refl
  | cons a as ih =>
    simp only [List.foldl_cons]
    refine GExt.trans ?_ (ih _)
    split
    · exact GExt.refl
    · exact h fr s a

theorem enter_good (d i op ty : Nat) (async : Bool) (rid v : Nat) (ctx : Option Nat) :
    Good cfg ((if cfg.obs then [Ev.obs d .hs i op ty async] else []) ++ [Ev.enter (d + 1) rid ty v ctx async]) := by
  intro ho
  simp [ho, List.countP_cons, pHs, pEnter, pRs, isAppend, pRcT, pAppF, pHcT, pPanich]

theorem bodyResult_gext (h : RecG cfg rec) (r : Reg) (ty v root op d : Nat) (async : Bool) (s : St R) :
    GExt cfg s.c (bodyResult cfg rec r ty v root op d async s).c := by
  obtain ⟨ht, -⟩ := enterHandler_trace (cfg := cfg) r ty v root op d async s
  have hb : bodyResult cfg rec r ty v root op d async s = runBody rec
    { depth := d + 1, root := root, obs := (enterHandler cfg r ty v root op d async s).2, ctxAware := r.ctxAware }
    (enterHandler cfg r ty v root op d async s).1 (cfg.bodies.getD r.body []) := rfl
  rw [hb]
  refine GExt.trans ⟨_, ?_, enter_good d s.c.nextObs op ty async r.rid v (if r.ctxAware then some root else none)⟩ (runBody_gext h _ _ _)
  rw [ht, List.append_assoc]

theorem exit_good (d rid : Nat) (ca : Bool) (ty v i : Nat) (pv : Option Nat) :
    Good cfg (([Ev.exit (d + 1) rid] ++
        (match pv with
          | some val => if cfg.panicH then [Ev.panich d ca ty v val] else []
          | none => [])) ++
        (if cfg.obs then [Ev.obs d .hc i 0 ty pv.isSome] else [])) := by
  intro ho
  cases pv <;> cases hp : cfg.panicH <;>
    simp [ho, List.countP_cons, pHs, pEnter, pRs, isAppend, pRcT, pAppF, pHcT, pPanich]

theorem callHandler_gext (h : RecG cfg rec) (r : Reg) (ty v root op d : Nat) (async : Bool) (s : St R) :
    GExt cfg s.c (callHandler cfg rec r ty v root op d async s).c := by
  obtain ⟨ht, -⟩ := callHandler_trace (cfg := cfg) (rec := rec) r ty v root op d async s
  rw [List.append_assoc] at ht
  exact GExt.trans (bodyResult_gext h r ty v root op d async s) ⟨_, ht, exit_good _ _ _ _ _ _ _⟩

theorem deliver_gext (h : RecG cfg rec) (ty v root obs d : Nat) (acc : St R × List Reg) (r : Reg) :
    GExt cfg acc.1.c (deliver cfg rec ty v root obs d acc r).1.c := by
  obtain ⟨s, claimed⟩ := acc
  unfold deliver
  by_cases h0 : root = 0 <;> cases hfc : r.filtCancels <;> cases ho : r.once <;> cases hf : r.filt <;>
    simp only [cancelRoot, h0, Bool.false_eq_true, ↓reduceIte, Bool.false_and, Bool.true_and, Bool.and_true,
      Bool.and_false, Option.isSome_none, Option.isSome_some] <;> repeat' split
  all_goals first
    | exact GExt.of_eq rfl
    | (refine GExt.trans ?_ (callHandler_gext h _ _ _ _ _ _ _ _); exact GExt.of_eq rfl)
    | (refine GExt.trans (GExt.emit s.c (Ev.filt d r.rid v (r.accepts v)) rfl) ?_; exact GExt.of_eq rfl)
    | (refine GExt.trans (GExt.emit s.c (Ev.filt d r.rid v (r.accepts v)) rfl) ?_
       refine GExt.trans ?_ (callHandler_gext h _ _ _ _ _ _ _ _); exact GExt.of_eq rfl)

theorem loop_gext (h : RecG cfg rec) (ty v root obs d : Nat) (hs : List Reg) (acc : St R × List Reg) :
    GExt cfg acc.1.c (hs.foldl (deliver cfg rec ty v root obs d) acc).1.c := by
  induction hs generalizing acc with
  | nil => exact GExt.refl
  | cons r rs ih => exact GExt.trans (deliver_gext h ty v root obs d acc r) (ih _)

theorem pubMid_gext (h : RecG cfg rec) (root obs d ty v : Nat) (bad : Bool) (s : St R) :
    GExt cfg s.c (pubMid I cfg rec root obs d ty v bad s).c := by
  let s1 : St R := { s with c := emitIf cfg.hookBL s.c (.hook d .bl ty v) }
  let s2 : St R := { s1 with c := emitIf cfg.hookBC s1.c (.hook d .bc ty v) }
  let s3 : St R := { s2 with c := persist cfg d ty v bad obs s2.c }
  let res := (I.get s3.reg ty).foldl (deliver cfg rec ty v root obs d) (s3, [])
  let s4 : St R := if res.2.isEmpty then res.1
    else { res.1 with reg := I.set res.1.reg ty (retire res.2 (I.get res.1.reg ty)) }
  let s5 : St R := { s4 with c := emitIf cfg.hookAL s4.c (.hook d .al ty v) }
  have h1 : GExt cfg s.c s1.c := GExt.emitIf _ _ _ rfl
  have h2 : GExt cfg s1.c s2.c := GExt.emitIf _ _ _ rfl
  have h3 : GExt cfg s2.c s3.c := persist_gext cfg d ty v bad obs _
  have h4 : GExt cfg s3.c res.1.c := loop_gext h ty v root obs d _ (s3, [])
  have h5 : GExt cfg res.1.c s4.c := by
    show GExt _ _ (St.c (if _ then _ else _))
    split <;> exact GExt.refl
  have h6 : GExt cfg s4.c s5.c := GExt.emitIf _ _ _ rfl
  have h7 : GExt cfg s5.c (pubMid I cfg rec root obs d ty v bad s).c :=
    GExt.emitIf cfg.hookAC s5.c (.hook d .ac ty v) rfl
  exact h1.trans (h2.trans (h3.trans (h4.trans (h5.trans (h6.trans h7)))))

theorem pubTail_gext (h : RecG cfg rec) (d root obs0 ty v : Nat) (bad : Bool) (s : St R) :
    GExt cfg s.c (pubTail I cfg rec d root obs0 ty v bad s).c := by
  obtain ⟨ht, -⟩ := pubStart_c (cfg := cfg) d obs0 ty s
  have h1 : GExt cfg s.c (pubStart cfg d obs0 ty s).c := ⟨_, ht, Good.optSingle _ _ rfl⟩
  have h2 := pubMid_gext (I := I) h root (if cfg.obs then s.c.nextObs else obs0) d ty v bad
    (pubStart cfg d obs0 ty s)
  refine h1.trans (h2.trans ?_)
  show GExt _ _ (emitIf cfg.obs _ _)
  exact GExt.emitIf _ _ _ rfl

theorem publish_gext (h : RecG cfg rec) (fr : Frame) (ty v : Nat) (bad : Bool) (sel : CtxSel) (s : St R) :
    GExt cfg s.c (publish I cfg rec fr ty v bad sel s).c := by
  rw [publish_eq]
  obtain ⟨ht, -⟩ := pubPre_c fr sel s
  exact GExt.trans (GExt.of_eq ht) (pubTail_gext I h _ _ _ _ _ _ _)

theorem runPending_gext (h : RecG cfg rec) (p : Pending) (s : St R) :
    GExt cfg s.c (runPending cfg rec p s).c := by
  unfold runPending
  split
  · exact GExt.refl
  · exact callHandler_gext h _ _ _ _ _ _ _ _

theorem step_gext (h : RecG cfg rec) : RecG cfg (step I cfg rec) := by
  intro fr s a
  cases a <;> simp only [step]
  case drain =>
    split
    · exact GExt.refl
    · split
      · exact GExt.refl
      · refine GExt.trans (GExt.trans (GExt.of_eq rfl) ?_) (h fr _ .drain)
        exact runPending_gext h _ _
  case publish =>
    split
    · exact GExt.emit _ _ rfl
    · exact publish_gext I h _ _ _ _ _ _
  all_goals first
    | exact GExt.of_eq rfl
    | exact GExt.emit _ _ rfl
    | (split <;> first | exact GExt.of_eq rfl | exact GExt.emit _ _ rfl)

end step

theorem exec_gext {R : Type} (I : RegImpl R) (cfg : Config) (n : Nat) : RecG cfg (exec I cfg n) := by
  induction n with
  | zero => intro fr s a; exact GExt.of_eq rfl
  | succ n ih => intro fr s a; exact step_gext I ih fr s a

theorem run_gext {R : Type} (I : RegImpl R) (cfg : Config) (fuel : Nat) (prog : List Action) (s : St R) :
    GExt cfg s.c (prog.foldl (fun s a => exec I cfg fuel {} s a) s).c := by
  induction prog generalizing s with
  | nil => exact GExt.refl
  | cons a as ih => exact GExt.trans (exec_gext I cfg fuel {} s a) (ih _)

theorem run_good {R : Type} (I : RegImpl R) (cfg : Config) (fuel : Nat) (faults : List Bool)
    (prog : List Action) : Good cfg (run I cfg fuel faults prog).c.trace := by
  obtain ⟨l, hl, hs⟩ := run_gext I cfg fuel prog (initSt I faults)
  have h0 : (initSt I faults).c.trace = [] := rfl
  rw [h0, List.nil_append] at hl
  unfold run
  rw [hl]
  exact hs

end Otel

open Otel

/-- a balanced trace with fresh span ids ends every span it starts exactly once -/
theorem balanced_fresh_ended_once (l : List Ev) (hb : obsStack l [] = some []) (hn : (obsStarts l).Nodup) (id : Nat) :
    (obsCompletes l).count id = (obsStarts l).count id ∧ (obsStarts l).count id ≤ 1 := by
  refine ⟨?_, List.nodup_iff_count.1 hn id⟩
  have := stack_count id l [] [] hb
  simpa using this

/-- in every run each span that is started is ended exactly once -/
theorem spans_ended_exactly_once {R : Type} (I : RegImpl R) (cfg : Config) (fuel : Nat) (faults : List Bool)
    (prog : List Action) (id : Nat) :
    let tr := (run I cfg fuel faults prog).c.trace
    (obsCompletes tr).count id = (obsStarts tr).count id ∧ (obsStarts tr).count id ≤ 1 :=
  balanced_fresh_ended_once _ (obs_balanced_run I cfg fuel faults prog) (obs_ids_fresh I cfg fuel faults prog) id

/-- with an Observability installed the counters equal the true numbers: handler runs = handler
invocations, persist attempts = append attempts, persist failures = failed appends, and – when a
panic handler is installed, which makes panics visible in the trace – handler errors = panics;
started spans = ended spans -/
theorem counters_truthful {R : Type} (I : RegImpl R) (cfg : Config) (fuel : Nat) (faults : List Bool)
    (prog : List Action) (hobs : cfg.obs = true) :
    let tr := (run I cfg fuel faults prog).c.trace
    let s := otelSummary tr
    s.started = s.ended ∧ s.handlerRuns = (trueCounts tr).1 ∧ s.persistAttempts = (trueCounts tr).2.2.1 ∧
    s.persistErrors = (trueCounts tr).2.2.2 ∧ (cfg.panicH = true → s.handlerErrors = (trueCounts tr).2.1) ∧
    s.started = s.publishes + s.handlerRuns + s.persistAttempts := by
  intro tr s
  obtain ⟨a, b, c, d⟩ := run_good I cfg fuel faults prog hobs
  have hl := stack_length tr [] [] (obs_balanced_run I cfg fuel faults prog)
  simp only [List.length_nil, Nat.add_zero] at hl
  exact ⟨hl.symm, a, b, c, d, starts_length tr⟩

end Ebu.Bus

import Ebu.Proofs.ConcDead
/-!
C08 under concurrency: the context check of a synchronous handler is repeated after the wait for the Sequential mutex.

`PublishContext` checks the publish context, then calls `callHandlerWithContext`, which – for a Sequential handler –
waits for the handler's mutex.  The context may be cancelled during that wait; the code (after the fix) looks at the
context again once it holds the mutex and skips the handler if it is cancelled.  M2 transcribes this: the `.lock` step
checks `sh.live f.ctx` before it enters.  Hence no synchronous handler is ever entered for a publish whose context is
cancelled (`sync_entry_only_if_live`), and the schedule that used to exhibit the late entry now skips the handler
(`cancelled_waiter_is_skipped`).
-/
namespace Ebu.Conc.CancelWitness
open Ebu.Conc Ebu.Conc.Inv Ebu.Conc.TraceExample

/-- the event is a synchronous entry -/
def SE (e : Obs) : Prop := ∃ rid ty v, e = Obs.enter rid ty v false

/-- every synchronous entry the dispatch loop of activation `f` adds to `obs` is made with the context of `f` live -/
theorem syncEnt_all (fuel : Nat) : ∀ (sh : Shared) (th : Thread) (f : Frame) (fs : List Frame) (obs : List Obs),
    (∀ e ∈ (dispatch sh th f fs obs fuel).obs, SE e → e ∈ obs ∨ sh.live f.ctx = true) ∧
    (∀ r0, ∀ e ∈ (afterFilter sh th f fs r0 obs fuel).obs, SE e → e ∈ obs ∨ sh.live f.ctx = true) ∧
    (∀ r0, ∀ e ∈ (afterClaim sh th f fs r0 obs fuel).obs, SE e → e ∈ obs ∨ sh.live f.ctx = true) := by
  induction fuel with
  | zero =>
    intro sh th f fs obs
    refine ⟨?_, fun r0 => ?_, fun r0 => ?_⟩
    · unfold dispatch; exact fun e he _ => .inl he
    · unfold afterFilter; exact fun e he _ => .inl he
    · unfold afterClaim; exact fun e he _ => .inl he
  | succ fuel ih =>
    intro sh th f fs obs
    refine ⟨?_, fun r0 => ?_, fun r0 => ?_⟩
    · unfold dispatch
      split
      · split
        · intro e he hs
          simp only [List.mem_append, List.mem_singleton] at he
          rcases he with he | rfl
          · exact .inl he
          · obtain ⟨_, _, _, h⟩ := hs; cases h
        · exact fun e he _ => .inl he
      · rename_i r rest hrest
        split
        · exact fun e he _ => .inl he
        · exact (ih sh th { f with rest := rest } fs obs).2.1 r
    · unfold afterFilter
      split
      · exact (ih _ _ _ _ _).1
      · split
        · split
          · exact (ih _ _ _ _ _).1
          · exact fun e he _ => .inl he
        · exact (ih _ _ _ _ _).2.2 r0
    · unfold afterClaim
      split
      · exact fun e he _ => .inl he
      · split
        · exact (ih _ _ _ _ _).1
        · rename_i hl
          split
          · exact fun e he _ => .inl he
          · intro e he _
            simp only [List.mem_append, List.mem_singleton] at he
            rcases he with he | _
            · exact .inl he
            · exact .inr (by simpa using hl)

theorem dispatch_sync {sh : Shared} {th : Thread} {f : Frame} {fs : List Frame} {obs : List Obs} {fuel : Nat} {e : Obs}
    (he : e ∈ (dispatch sh th f fs obs fuel).obs) (hs : SE e) (hno : ∀ e ∈ obs, ¬ SE e) : sh.live f.ctx = true := by
  rcases (syncEnt_all fuel sh th f fs obs).1 e he hs with h | h
  · exact absurd hs (hno e h)
  · exact h

theorem afterFilter_sync {sh : Shared} {th : Thread} {f : Frame} {fs : List Frame} {r0 : Reg} {obs : List Obs} {fuel : Nat}
    {e : Obs} (he : e ∈ (afterFilter sh th f fs r0 obs fuel).obs) (hs : SE e) (hno : ∀ e ∈ obs, ¬ SE e) :
    sh.live f.ctx = true := by
  rcases (syncEnt_all fuel sh th f fs obs).2.1 r0 e he hs with h | h
  · exact absurd hs (hno e h)
  · exact h

theorem afterClaim_sync {sh : Shared} {th : Thread} {f : Frame} {fs : List Frame} {r0 : Reg} {obs : List Obs} {fuel : Nat}
    {e : Obs} (he : e ∈ (afterClaim sh th f fs r0 obs fuel).obs) (hs : SE e) (hno : ∀ e ∈ obs, ¬ SE e) :
    sh.live f.ctx = true := by
  rcases (syncEnt_all fuel sh th f fs obs).2.2 r0 e he hs with h | h
  · exact absurd hs (hno e h)
  · exact h

/-- C08 under concurrency: a SYNCHRONOUS handler is never entered for a publish whose context is cancelled – also when
its goroutine had to wait for the handler's Sequential mutex: every step that emits a synchronous entry is taken by a
goroutine whose innermost publish context is live before the step -/
theorem sync_entry_only_if_live (sh : Shared) (th : Thread) (o : Out) (h : step sh th = some o)
    (rid ty v : Nat) (he : Obs.enter rid ty v false ∈ o.obs) :
    ∃ f fs, th.frames = f :: fs ∧ sh.live f.ctx = true := by
  have hse : SE (Obs.enter rid ty v false) := ⟨rid, ty, v, rfl⟩
  unfold step at h
  split at h
  · cases h
  split at h
  · cases h
  · -- op
    split at h
    · split at h
      · cases h; simp at he
      · cases h; simp at he
      · cases h
    · split at h
      · cases h; simp at he
      · split at h <;> cases h <;> simp at he
  · -- snap
    split at h
    · rename_i f fs hfr
      cases h
      exact ⟨f, fs, hfr, dispatch_sync he hse (by simp)⟩
    · cases h
  · -- filter
    split at h
    · rename_i f fs hfr
      split at h
      · cases h
        exact ⟨f, fs, hfr, afterFilter_sync he hse (by simp [SE])⟩
      · cases h
        exact ⟨f, fs, hfr, dispatch_sync he hse (by simp [SE])⟩
    · cases h
  · -- claimed
    split at h
    · rename_i f fs hfr
      cases h
      exact ⟨f, fs, hfr, afterClaim_sync he hse (by simp)⟩
    · cases h
  · -- spawn
    split at h
    · rename_i f fs hfr
      cases h
      exact ⟨f, fs, hfr, dispatch_sync he hse (by simp [SE])⟩
    · cases h
  · -- lock
    split at h
    · rename_i f fs hfr
      split at h
      · split at h
        · cases h; simp at he
        · cases h
          exact ⟨f, _, hfr, dispatch_sync he hse (by simp)⟩
      · rename_i hl
        cases h
        exact ⟨f, fs, hfr, by simpa using hl⟩
    · cases h
  · -- enter
    split at h
    · split at h
      · cases h; simp at he
      · cases h; simp at he
    · cases h
  · -- exit
    rename_i r hpc
    have hlive : ∀ c, (if r.seq = true then { sh with held := sh.held.erase r.rid } else sh).live c = sh.live c := by
      intro c; split
      · exact live_congr rfl c
      · rfl
    dsimp only at h
    split at h
    · cases h; simp at he
    · rename_i f fs hfr _
      cases h
      have hl := dispatch_sync he hse (by simp)
      exact ⟨f, fs, hfr, (hlive _).symm.trans hl⟩
    · cases h
  · -- retire
    split at h
    · cases h; simp at he
    · cases h
  · -- retired
    split at h
    · cases h; simp at he
    · cases h
  · -- astart
    split at h
    · split at h
      · cases h; simp at he
      · split at h
        · cases h; simp at he
        · cases h; simp at he
    · cases h
  · -- turn
    split at h
    · dsimp only at h
      split at h <;> cases h <;> simp at he
    · cases h
  · -- aend
    cases h; simp at he

/-! ### the schedule of the former witness: the waiter now skips the handler -/

/-- goroutine 0 subscribes a synchronous Sequential handler and publishes; goroutine 1 publishes with the cancellable
context 1; goroutine 2 cancels it -/
def cwProgs : List (List Op) :=
  [ [ .subscribe 1 0 false false true none [], .publish 1 1 .bg ],
    [ .publish 1 2 (.shared 1) ],
    [ .cancel 1 ] ]

/-- goroutine 0 enters the handler (and holds its mutex); goroutine 1 passes its context check and waits for the mutex;
goroutine 2 cancels; goroutine 0 leaves the handler -/
def cwSched : List Nat := [0, 0, 0, 0, 1, 1, 2, 0, 0]

theorem cwRuns : (runT { s := initSys cwProgs } cwSched).isSome = true := by decide +kernel

def cwState : SysT := (runT { s := initSys cwProgs } cwSched).get cwRuns

theorem cwRuns2 : (runT cwState [1]).isSome = true := by decide +kernel

def cwAfter : SysT := (runT cwState [1]).get cwRuns2

/-- the state the schedule leads to: reachable, context 1 is cancelled, goroutine 1 – whose publish carries that context –
is parked at the Sequential mutex of registration 0 (which is free again), and `cwAfter` is the state after its next step -/
theorem cancelled_waiter_state :
    ReachableT cwProgs cwState ∧ cwState.s.sh.cancelled = [1] ∧ cwState.s.sh.held = [] ∧
    (cwState.s.ths.map (fun th => th.frames.map (·.ctx))) = [[], [Ctx.shared 1], []] ∧
    (cwState.s.ths.map (fun th => match th.pc with | .lock r a => some (r.rid, a) | _ => none)) = [none, some (0, false), none] ∧
    cwState.stepAt 1 = some cwAfter := by
  refine ⟨runT_reachable .init (Option.some_get cwRuns).symm, by decide +kernel, by decide +kernel, by decide +kernel,
    by decide +kernel, ?_⟩
  have hsome : (cwState.stepAt 1).isSome = true := by decide +kernel
  cases hs : cwState.stepAt 1 with
  | none => rw [hs] at hsome; cases hsome
  | some y =>
    have h2 : runT cwState [1] = some y := by simp [runT, hs]
    have : cwAfter = y := by simp only [cwAfter, h2, Option.get_some]
    rw [this]

/-- in that state goroutine 1's next step – it gets the mutex of the handler, with the context of its publish cancelled in
the meantime – produces NO entry: the handler is skipped -/
theorem cancelled_waiter_is_skipped : entriesOfReg 0 cwAfter.tr = entriesOfReg 0 cwState.tr := by decide +kernel

end Ebu.Conc.CancelWitness

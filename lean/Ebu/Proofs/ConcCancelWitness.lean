import Ebu.Proofs.ConcDead
/-!
KNOWN FINDING (C08): the context check of a synchronous handler precedes the wait for the Sequential mutex.

`PublishContext` checks the publish context, then calls `callHandlerWithContext`, which – for a Sequential handler –
waits for the handler's mutex.  If the context is cancelled during that wait, the handler is started all the same once
the mutex is free: a synchronous handler is started after the context of its publish was cancelled.  M2 contains this
(the `.lock` step does not look at the context again), and the schedule below exhibits it.
-/
namespace Ebu.Conc.CancelWitness
open Ebu.Conc Ebu.Conc.TraceExample

/-- goroutine 0 subscribes a synchronous Sequential handler and publishes; goroutine 1 publishes with the cancellable
context 1; goroutine 2 cancels it -/
def cwProgs : List (List Op) :=
  [ [ .subscribe 1 0 false false true none [], .publish 1 1 .bg ],
    [ .publish 1 2 (.shared 1) ],
    [ .cancel 1 ] ]

/-- goroutine 0 enters the handler (and holds its mutex); goroutine 1 passes its context check and waits for the mutex;
goroutine 2 cancels; goroutine 0 leaves the handler -/
def cwSched : List Nat := [0, 0, 0, 0, 1, 1, 2, 0, 0]

theorem cwRuns : (runT { s := initSys cwProgs } cwSched).isSome = true := by decide +kernel

def cwState : SysT := (runT { s := initSys cwProgs } cwSched).get cwRuns

theorem cwRuns2 : (runT cwState [1]).isSome = true := by decide +kernel

def cwAfter : SysT := (runT cwState [1]).get cwRuns2

/-- in a reachable state context 1 is cancelled and goroutine 1 – whose publish carries that context – is waiting for the
Sequential mutex; its next step ENTERS the handler with the event of the cancelled publish -/
theorem sequential_wait_outlives_cancellation :
    ReachableT cwProgs cwState ∧ cwState.s.sh.cancelled = [1] ∧
    (cwState.s.ths.map (fun th => th.frames.map (·.ctx))) = [[], [Ctx.shared 1], []] ∧
    cwState.stepAt 1 = some cwAfter ∧
    entriesOfReg 0 cwAfter.tr = entriesOfReg 0 cwState.tr ++ [(1, Obs.enter 0 1 2 false)] := by
  refine ⟨runT_reachable .init (Option.some_get cwRuns).symm, by decide +kernel, by decide +kernel, ?_, by decide +kernel⟩
  have hsome : (cwState.stepAt 1).isSome = true := by decide +kernel
  cases hs : cwState.stepAt 1 with
  | none => rw [hs] at hsome; cases hsome
  | some y =>
    have h2 : runT cwState [1] = some y := by simp [runT, hs]
    have : cwAfter = y := by simp only [cwAfter, h2, Option.get_some]
    rw [this]

end Ebu.Conc.CancelWitness

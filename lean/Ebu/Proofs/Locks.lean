import Ebu.Model.Locks
namespace Ebu.Locks

theorem valid_step (l l' : RW) (op : LockOp) (h : l.Valid) (hs : l.step op = some l') : l'.Valid := by
  cases op with
  | lock t =>
    simp only [RW.step] at hs
    split at hs <;> simp at hs
    subst hs; intro _; rfl
  | unlock t =>
    simp only [RW.step] at hs
    split at hs <;> simp at hs
    subst hs; intro hw; simp at hw
  | rlock t =>
    simp only [RW.step] at hs
    split at hs <;> simp at hs
    rename_i hw
    subst hs; intro hw'; simp [hw] at hw'
  | runlock t =>
    simp only [RW.step] at hs
    split at hs <;> simp at hs
    subst hs; intro hw
    have := h hw
    simp [this]

theorem valid_reachable (l : RW) (h : RW.Reachable l) : l.Valid := by
  induction h with
  | init => intro hw; simp at hw
  | step _ hs ih => exact valid_step _ _ _ ih hs

/-- a goroutine is never recorded as writer and reader at once, and the writer excludes readers -/
theorem no_conflicting_holders (l : RW) (h : RW.Reachable l) (t u : Nat) (htu : t ≠ u)
    (ht : l.mode t = 2) (hu : 1 ≤ l.mode u) : False := by
  have hv := valid_reachable l h
  unfold RW.mode at ht hu
  split at ht
  · rename_i hw
    have hr := hv (by simp [hw])
    split at hu
    · rename_i hw'
      rw [hw] at hw'
      exact htu (Option.some.inj hw')
    · split at hu
      · rename_i hm; simp [hr] at hm
      · omega
  · split at ht <;> omega

end Ebu.Locks

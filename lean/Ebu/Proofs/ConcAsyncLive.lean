import Ebu.Proofs.ConcCancelWitness
import Ebu.Proofs.ConcTrace
/-!
C08 under concurrency, the asynchronous half.

The goroutine of an Async handler looks at the context of the publish it was started for before it enters the handler:
a plain Async goroutine right at its start ("async.start"), an Async+Sequential goroutine when it has got its turn
("async.turn") and once more when it has got the handler's mutex ("handler.lock", reached with `async = true`).  M2
transcribes this; `step` emits an asynchronous entry `Obs.enter … true` at exactly two places – the live branch of
`.astart` and the live branch of `.lock r true` – and the trace invariant `TrInv` (ConcTrace.lean) says that a goroutine
parked at `.lock r true` is an async goroutine with exactly one activation, the one of its job.  Hence
`async_entry_only_if_live` (companion of `CancelWitness.sync_entry_only_if_live`) and `cancelled_job_never_enters`.
-/
namespace Ebu.Conc
open Ebu.Conc.Inv

/-- what a goroutine parked at the "handler.lock" of an async delivery looks like: it is an async goroutine, the
registration is the one of its job, and its only activation is the one of its job (from `TrInv`) -/
theorem lockAsync_shape {progs : List (List Op)} {x : SysT} (h : ReachableT progs x) {i : Nat} {th : Thread} {r : Reg}
    (hi : x.s.ths[i]? = some th) (hpc : th.pc = .lock r true) :
    ∃ j f, th.job = some j ∧ r = j.reg ∧ th.frames = [f] ∧ f.ty = j.ty ∧ f.v = j.v ∧ f.ctx = j.ctx ∧
      asyncEntersOf i x.tr = [] := by
  have hT := (trInv_reachable x h).2 i th hi
  unfold ThTr at hT
  cases hj : th.job with
  | none =>
    rw [hj] at hT
    exact absurd hpc (hT.2.2 r)
  | some j =>
    rw [hj] at hT
    have hT' : asyncEntersOf i x.tr = [] ∧ r = j.reg ∧ ∃ f, th.frames = [f] ∧ f.ty = j.ty ∧ f.v = j.v ∧ f.ctx = j.ctx := by
      simpa [hpc, JobTr] using hT
    obtain ⟨h0, h1, f, h2, h3, h4, h5⟩ := hT'
    exact ⟨j, f, rfl, h1, h2, h3, h4, h5, h0⟩

/-- C08 under concurrency, asynchronous half: the goroutine of an Async handler enters the handler only while the context
of the publish it was started for is live – whether it checks right at its start (plain Async) or after it has waited for
its turn and for the handler's mutex (Async+Sequential): every step that emits an asynchronous entry is taken by a
goroutine whose job context is live before the step -/
theorem async_entry_only_if_live {progs : List (List Op)} {x : SysT} (h : ReachableT progs x) (i : Nat) (th : Thread)
    (o : Out) (hi : x.s.ths[i]? = some th) (hstep : step x.s.sh th = some o)
    (rid ty v : Nat) (he : Obs.enter rid ty v true ∈ o.obs) :
    ∃ j, th.job = some j ∧ x.s.sh.live j.ctx = true ∧ rid = j.reg.rid ∧ ty = j.ty ∧ v = j.v := by
  have hmem : Obs.enter rid ty v true ∈ o.obs.filter Obs.isAsyncEnter := List.mem_filter.2 ⟨he, rfl⟩
  by_cases h1 : th.pc = .astart
  · -- "async.start"
    unfold step at hstep
    split at hstep
    · cases hstep
    simp only [h1] at hstep
    split at hstep
    · rename_i j hj
      split at hstep
      · cases hstep; simp at he
      · split at hstep
        · cases hstep; simp at he
        · rename_i hl
          cases hstep
          simp only [List.mem_singleton, Obs.enter.injEq, and_true] at he
          exact ⟨j, hj, by simpa using hl, he.1, he.2.1, he.2.2⟩
    · cases hstep
  · by_cases h2 : ∃ r, th.pc = .lock r true
    · -- "handler.lock" of an async delivery
      obtain ⟨r, h2⟩ := h2
      obtain ⟨j, f, hj, hr, hfr, hty, hv, hctx, _⟩ := lockAsync_shape h hi h2
      unfold step at hstep
      split at hstep
      · cases hstep
      simp only [h2, hfr, hj] at hstep
      split at hstep
      · split at hstep <;> cases hstep <;> simp at he
      · rename_i hl
        cases hstep
        simp only [List.mem_singleton, Obs.enter.injEq, and_true] at he
        refine ⟨j, hj, ?_, ?_, ?_, ?_⟩
        · rw [← hctx]; simpa using hl
        · rw [he.1, hr]
        · rw [he.2.1, hty]
        · rw [he.2.2, hv]
    · -- everywhere else no asynchronous entry is emitted
      have hq := (step_obs hstep).2.2 h1 (fun r hr => h2 ⟨r, hr⟩)
      rw [hq] at hmem
      cases hmem

/-- the step of an async goroutine whose publish context is cancelled emits no asynchronous entry, wherever it is parked -/
theorem dead_job_step_quiet {progs : List (List Op)} {x : SysT} (h : ReachableT progs x) {i : Nat} {th : Thread} {j : Job}
    (hi : x.s.ths[i]? = some th) (hj : th.job = some j) (hdead : x.s.sh.live j.ctx = false)
    {o : Out} (hstep : step x.s.sh th = some o) : o.obs.filter Obs.isAsyncEnter = [] := by
  rw [List.filter_eq_nil_iff]
  intro e he hae
  cases e with
  | enter rid ty v a =>
    cases a with
    | false => simp [Obs.isAsyncEnter] at hae
    | true =>
      obtain ⟨j', hj', hl, _⟩ := async_entry_only_if_live h i th o hi hstep rid ty v he
      rw [hj] at hj'
      cases hj'
      rw [hdead] at hl
      cases hl
  | _ => simp [Obs.isAsyncEnter] at hae

/-- … and a goroutine whose publish context is cancelled before it gets to run ends without entering anything: once
`live j.ctx = false` at a state where the goroutine has not entered yet, it never enters -/
theorem cancelled_job_never_enters {progs : List (List Op)} {x : SysT} (h : ReachableT progs x) (i : Nat) (th : Thread) (j : Job)
    (hi : x.s.ths[i]? = some th) (hj : th.job = some j) (hdead : x.s.sh.live j.ctx = false)
    (hnot : asyncEntersOf i x.tr = []) (hpc : th.pc = .astart ∨ th.pc = .turn ∨ (∃ r, th.pc = .lock r true))
    (o : Out) (hstep : step x.s.sh th = some o) :
    ∀ e ∈ o.obs, e.isAsyncEnter = false := by
  -- (`hnot` and `hpc` describe the situation – they follow from one another by `TrInv` – but are not needed: the step of a
  -- goroutine whose job context is cancelled emits no asynchronous entry at any program counter, `dead_job_step_quiet`)
  have _ := hnot
  have _ := hpc
  intro e he
  have hq := dead_job_step_quiet h hi hj hdead hstep
  rw [List.filter_eq_nil_iff] at hq
  cases hae : e.isAsyncEnter with
  | false => rfl
  | true => exact absurd hae (hq e he)

/-- the same over whole runs: from a reachable state in which the publish context of async goroutine `i` is cancelled and
the goroutine has not entered its handler, no schedule whatsoever makes it enter: its list of asynchronous entries stays
empty for ever -/
theorem cancelled_job_never_enters_later {progs : List (List Op)} {x x' : SysT} (h : ReachableT progs x) (hs : StepsT x x')
    (i : Nat) (th : Thread) (j : Job) (hi : x.s.ths[i]? = some th) (hj : th.job = some j)
    (hdead : x.s.sh.live j.ctx = false) (hnot : asyncEntersOf i x.tr = []) :
    asyncEntersOf i x'.tr = [] ∧ x'.s.sh.live j.ctx = false ∧ ∃ th', x'.s.ths[i]? = some th' ∧ th'.job = some j := by
  induction hs with
  | refl => exact ⟨hnot, hdead, th, hi, hj⟩
  | step hxy hst ih =>
    rename_i y z k
    obtain ⟨ih1, ih2, thy, ih3, ih4⟩ := ih
    have hry := StepsT.reachable h hxy
    unfold SysT.stepAt at hst
    split at hst
    · cases hst
    · rename_i tk htk
      split at hst
      · cases hst
      · rename_i o ho
        cases hst
        have hR := stepR_of_step ho
        have hlt : i < y.s.ths.length := (List.getElem?_eq_some_iff.1 ih3).1
        refine ⟨?_, hR.live_mono _ ih2, ?_⟩
        · simp only
          rw [asyncEntersOf_append, ih1]
          by_cases hk : k = i
          · subst hk
            rw [ih3] at htk
            cases htk
            simp [dead_job_step_quiet hry ih3 ih4 ih2 ho]
          · simp [hk]
        · simp only
          rw [List.getElem?_append_left (by simpa using hlt)]
          by_cases hk : k = i
          · subst hk
            rw [ih3] at htk
            cases htk
            exact ⟨o.th, List.getElem?_set_self hlt, hR.job.trans ih4⟩
          · exact ⟨thy, by rw [List.getElem?_set_ne hk]; exact ih3, ih4⟩

end Ebu.Conc

import Ebu.Model.Durable
/-! SQLite store as a crash-recoverable log (C14): lemmas. -/
namespace Ebu.Durable

/-! ### helpers -/

theorem run_append (a b : List Op) : run (a ++ b) = b.foldl step (run a) := by
  simp only [run, List.foldl_append]

/-- an invariant preserved by every step holds along any fold -/
theorem foldl_inv (P : Db × Acked → Prop) (hstep : ∀ s op, P s → P (step s op)) :
    ∀ (ops : List Op) (s : Db × Acked), P s → P (ops.foldl step s) := by
  intro ops
  induction ops with
  | nil => intro s h; exact h
  | cons op ops ih => intro s h; exact ih _ (hstep s op h)

theorem run_inv (P : Db × Acked → Prop) (h0 : P ({}, {})) (hstep : ∀ s op, P s → P (step s op))
    (ops : List Op) : P (run ops) :=
  foldl_inv P hstep ops _ h0

def GapFree (d : Db) : Prop :=
  d.rows.map (·.1) = (List.range d.rows.length).map (· + 1) ∧ d.seq = d.rows.length

theorem gapFree_commitAppend (d : Db) (r : Nat) (h : GapFree d) : GapFree (commitAppend d r).1 := by
  obtain ⟨h1, h2⟩ := h
  refine ⟨?_, ?_⟩
  · simp only [commitAppend, List.map_append, List.length_append, List.length_cons,
      List.length_nil, List.map_cons, List.map_nil, List.range_succ, h1, h2]
  · simp only [commitAppend, List.length_append, List.length_cons, List.length_nil, h2]

theorem gapFree_migrate (d : Db) (h : GapFree d) : GapFree (migrate d) := by
  unfold migrate
  split
  · exact h
  · exact h

theorem gapFree_commitSave (d : Db) (id off : Nat) (h : GapFree d) : GapFree (commitSave d id off) := h

theorem gapFree_step (s : Db × Acked) (op : Op) (h : GapFree s.1) : GapFree (step s op).1 := by
  cases op with
  | append r => exact gapFree_commitAppend s.1 r h
  | save id off => exact gapFree_commitSave s.1 id off h
  | killAppend r c =>
    cases c
    · exact h
    · exact gapFree_commitAppend s.1 r h
  | killSave id off c =>
    cases c
    · exact h
    · exact gapFree_commitSave s.1 id off h
  | kill => exact h
  | close => exact h
  | «open» => exact gapFree_migrate s.1 h

theorem gapFree_run (ops : List Op) : GapFree (run ops).1 :=
  run_inv (fun s => GapFree s.1) ⟨rfl, rfl⟩ gapFree_step ops

def AckedIn (s : Db × Acked) : Prop :=
  List.Sublist (s.2.appends.map (fun a => (a.2, a.1))) s.1.rows

theorem ackedIn_step (s : Db × Acked) (op : Op) (h : AckedIn s) : AckedIn (step s op) := by
  unfold AckedIn at *
  cases op with
  | append r =>
    simp only [step, commitAppend, List.map_append, List.map_cons, List.map_nil]
    exact List.Sublist.append h (List.Sublist.refl _)
  | save id off => exact h
  | killAppend r c =>
    cases c
    · exact h
    · simp only [step, commitAppend, if_true]
      exact List.sublist_append_of_sublist_left h
  | killSave id off c =>
    cases c
    · exact h
    · exact h
  | kill => exact h
  | close => exact h
  | «open» =>
    simp only [step, migrate]
    split
    · exact h
    · exact h

theorem find_filter_ne (l : List (Nat × Nat)) (id id' : Nat) (hne : id' ≠ id) :
    (l.filter (fun q => q.1 != id')).find? (fun q => q.1 == id) = l.find? (fun q => q.1 == id) := by
  induction l with
  | nil => rfl
  | cons x l ih =>
    by_cases hx : x.1 = id'
    · have h1 : (x.1 != id') = false := by simp [hx]
      have h2 : (x.1 == id) = false := by simp [hx, hne]
      simp only [List.filter_cons, h1, List.find?_cons, h2]
      simpa using ih
    · have h1 : (x.1 != id') = true := by simp [hx]
      simp only [List.filter_cons, h1, if_true, List.find?_cons, ih]

theorem subOf_commitSave_same (d : Db) (id off : Nat) : subOf (commitSave d id off) id = off := by
  simp [subOf, commitSave]

theorem subOf_commitSave_ne (d : Db) (id id' off : Nat) (hne : id' ≠ id) :
    subOf (commitSave d id' off) id = subOf d id := by
  have h2 : (id' == id) = false := by simp [hne]
  simp only [subOf, commitSave, List.find?_cons, h2, find_filter_ne _ _ _ hne]

theorem subOf_commitAppend (d : Db) (r id : Nat) : subOf (commitAppend d r).1 id = subOf d id := rfl

theorem subOf_migrate (d : Db) (id : Nat) : subOf (migrate d) id = subOf d id := by
  unfold migrate
  split
  · rfl
  · rfl

theorem subOf_step (s : Db × Acked) (op : Op) (id : Nat)
    (hop : (∀ o, op ≠ .save id o) ∧ (∀ o c, op ≠ .killSave id o c)) :
    subOf (step s op).1 id = subOf s.1 id := by
  cases op with
  | append r => exact subOf_commitAppend s.1 r id
  | save id' o =>
    have hne : id' ≠ id := by
      intro h
      exact hop.1 o (by rw [h])
    exact subOf_commitSave_ne s.1 id id' o hne
  | killAppend r c =>
    cases c
    · rfl
    · exact subOf_commitAppend s.1 r id
  | killSave id' o c =>
    have hne : id' ≠ id := by
      intro h
      exact hop.2 o c (by rw [h])
    cases c
    · rfl
    · exact subOf_commitSave_ne s.1 id id' o hne
  | kill => rfl
  | close => rfl
  | «open» => exact subOf_migrate s.1 id

theorem subOf_foldl (id : Nat) (more : List Op)
    (hnone : ∀ op ∈ more, (∀ o, op ≠ .save id o) ∧ (∀ o c, op ≠ .killSave id o c)) :
    ∀ s : Db × Acked, subOf (more.foldl step s).1 id = subOf s.1 id := by
  induction more with
  | nil => intro s; rfl
  | cons op more ih =>
    intro s
    simp only [List.foldl_cons]
    rw [ih (fun op' h => hnone op' (List.mem_cons_of_mem _ h))]
    exact subOf_step s op id (hnone op List.mem_cons_self)

/-! ### the theorems restated by `Ebu.Props.C14` -/

/-- positions handed out are exactly 1,2,…,seq in order: the log is gap-free and ordered -/
theorem log_gap_free (ops : List Op) :
    (run ops).1.rows.map (·.1) = (List.range (run ops).1.rows.length).map (· + 1) ∧
    (run ops).1.seq = (run ops).1.rows.length := by
  exact gapFree_run ops

/-- every acknowledged event is in the log, with the offset it was acknowledged with, in
acknowledgement order; the log holds nothing else except events that were in flight when the
process was killed -/
theorem acked_survive (ops : List Op) :
    List.Sublist ((run ops).2.appends.map (fun a => (a.2, a.1))) (run ops).1.rows := by
  exact run_inv AckedIn (List.Sublist.refl _) ackedIn_step ops

/-- an acknowledged SaveOffset is what LoadOffset returns afterwards, unless a later save of the
same id (acknowledged, or in flight when the process was killed) replaced it -/
theorem saved_offset_survives (ops : List Op) (id off : Nat) (more : List Op)
    (hnone : ∀ op ∈ more, (∀ o, op ≠ .save id o) ∧ (∀ o c, op ≠ .killSave id o c)) :
    subOf (run (ops ++ [.save id off] ++ more)).1 id = off := by
  rw [run_append, subOf_foldl id more hnone, run_append]
  simp only [List.foldl_cons, List.foldl_nil]
  exact subOf_commitSave_same _ id off

/-- new appends always receive offsets larger than every offset handed out before, across any
number of kills and reopenings -/
theorem new_offsets_larger (ops : List Op) (r : Nat) :
    ∀ p ∈ (run ops).1.rows.map (·.1), p < (commitAppend (run ops).1 r).2 := by
  intro p hp
  obtain ⟨h1, h2⟩ := gapFree_run ops
  rw [h1] at hp
  simp only [List.mem_map, List.mem_range] at hp
  obtain ⟨a, ha, rfl⟩ := hp
  simp only [commitAppend, h2]
  omega

/-- opening an existing database is idempotent and never touches the rows -/
theorem open_idempotent (s : Db × Acked) :
    step (step s .open) .open = step s .open ∧ (step s .open).1.rows = s.1.rows ∧ (step s .open).1.subs = s.1.subs := by
  simp only [step, migrate]
  by_cases h : s.1.version < 1
  · simp [h]
  · simp [h]

end Ebu.Durable

import Ebu.Spec.ConcProgress
import Ebu.Proofs.Conc
/-!
Deadlock freedom of the interleaving model, part A: structural invariants that do not mention the
rank — which `none` branches of `step` are unreachable, who can be inside an async handler, and the
ticket dispenser hands every ticket not yet served to exactly one goroutine.
-/
namespace Ebu.Conc
namespace Inv

/-! #### sums -/

theorem wsum_pos {w : Thread → Nat} {l : List Thread} (h : 1 ≤ wsum w l) : ∃ t ∈ l, 1 ≤ w t := by
  induction l with
  | nil => simp at h
  | cons x xs ih =>
    simp only [wsum_cons] at h
    by_cases hx : 1 ≤ w x
    · exact ⟨x, by simp, hx⟩
    · obtain ⟨t, ht, h1⟩ := ih (by omega)
      exact ⟨t, by simp [ht], h1⟩

theorem wsum_ge_mem (w : Thread → Nat) {l : List Thread} {a : Thread} (h : a ∈ l) : w a ≤ wsum w l := by
  obtain ⟨i, hi⟩ := List.getElem?_of_mem h
  exact wsum_ge w hi

theorem wsum_two (w : Thread → Nat) {l : List Thread} {a b : Thread} (ha : a ∈ l) (hb : b ∈ l) (hab : a ≠ b) :
    w a + w b ≤ wsum w l := by
  induction l with
  | nil => simp at ha
  | cons x xs ih =>
    simp only [wsum_cons]
    simp only [List.mem_cons] at ha hb
    rcases ha with rfl | ha <;> rcases hb with rfl | hb
    · exact absurd rfl hab
    · have := wsum_ge_mem w hb; omega
    · have := wsum_ge_mem w ha; omega
    · have := ih ha hb; omega

/-! #### the structural thread invariant -/

/-- what `ThOK` does not say: handler frames below the top, no frames once done, who runs async handlers -/
structure ThS (th : Thread) : Prop where
  tailH : ∀ g ∈ th.frames.tail, g.handler.isSome = true
  opH : th.pc = .op → ∀ g ∈ th.frames, g.handler.isSome = true
  doneF : th.pc = .done → th.frames = []
  lockF : ∀ r, th.pc = .lock r false → r.async = false
  lockT : ∀ r, th.pc = .lock r true → th.frames.length = 1
  asyncH : ∀ g ∈ th.frames, ∀ r, g.handler = some r → r.async = true → ∃ j, th.job = some j ∧ j.reg = r

theorem Shape.thS {sh th f fs PF PC PG o} (h : Shape sh th f fs PF PC PG o) (hf : f.handler = none)
    (hfs : ∀ g ∈ fs, g.handler.isSome = true)
    (ha : ∀ g ∈ fs, ∀ r, g.handler = some r → r.async = true → ∃ j, th.job = some j ∧ j.reg = r) : ThS o.th := by
  cases h
  case ret =>
    refine ⟨?_, ?_, by simp, by simp, by simp, ha⟩
    · intro g hg; exact hfs g (List.mem_of_mem_tail hg)
    · intro _ g hg; exact hfs g hg
  case enter obs r rest' hp hra hs hl =>
    refine ⟨by simpa using hfs, by simp, by simp, by simp, by simp, ?_⟩
    intro g hg r' hr' hasync
    simp only [List.mem_cons] at hg
    rcases hg with rfl | hg
    · simp at hr'; subst hr'; simp [hra] at hasync
    · exact ha g hg r' hr' hasync
  all_goals
    refine ⟨by simpa using hfs, by simp, by simp, by simp [*], by simp, ?_⟩
    intro g hg r' hr' hasync
    simp only [List.mem_cons] at hg
    rcases hg with rfl | hg
    · simp [hf] at hr'
    · exact ha g hg r' hr' hasync

theorem StepR.thS {sh th o} (h : StepR sh th o) (hok : ThOK th) (hi : ThS th) : ThS o.th ∧ ∀ t ∈ o.new, ThS t := by
  have hnew : ∀ j : Job, ThS { pc := .astart, job := some j } := fun j =>
    ⟨by simp, by simp, by simp, by simp, by simp, by simp⟩
  obtain ⟨tailH, opH, doneF, lockF, lockT, asyncH⟩ := hi
  have shp : ∀ {f fs PF PC PG o}, Shape sh th f fs PF PC PG o → th.frames = f :: fs → f.handler = none → ThS o.th := by
    intro f fs PF PC PG o hsh hfr hf
    rw [hfr] at tailH asyncH
    exact hsh.thS hf (by simpa using tailH) (fun g hg => asyncH g (by simp [hg]))
  cases h
  case snap f fs hpc hfr hsh =>
    simp only [ThOK, hpc, hfr] at hok
    obtain ⟨⟨f', fs', h1, h2⟩, h3⟩ := hok
    cases h1
    exact ⟨shp hsh hfr h2, by simp [hsh.new_nil]⟩
  case filterAcc r f fs hpc hfr hacc hsh =>
    simp only [ThOK, hpc, hfr] at hok
    obtain ⟨⟨f', fs', h1, h2⟩, h3⟩ := hok
    cases h1
    exact ⟨shp hsh hfr h2, by simp [hsh.new_nil]⟩
  case filterRej r f fs hpc hfr hacc hsh =>
    simp only [ThOK, hpc, hfr] at hok
    obtain ⟨⟨f', fs', h1, h2⟩, h3⟩ := hok
    cases h1
    exact ⟨shp hsh hfr h2, by simp [hsh.new_nil]⟩
  case claimed r f fs hpc hfr hsh =>
    simp only [ThOK, hpc, hfr] at hok
    obtain ⟨⟨f', fs', h1, h2⟩, h3⟩ := hok
    cases h1
    exact ⟨shp hsh hfr h2, by simp [hsh.new_nil]⟩
  case spawn r n t f fs o hpc hfr hsh =>
    simp only [ThOK, hpc, hfr] at hok
    obtain ⟨⟨f', fs', h1, h2⟩, h3⟩ := hok
    cases h1
    exact ⟨(shp hsh hfr h2 : ThS o.th), by simpa using hnew _⟩
  case exit r f fs hpc hfr hj hsh =>
    rw [hfr] at tailH asyncH
    refine ⟨hsh.thS rfl (by simpa using tailH) (fun g hg => asyncH g (by simp [hg])), by simp [hsh.new_nil]⟩
  case bodyPub f fs ty v more hpc hfr hb =>
    have hop := opH hpc
    rw [hfr] at hop asyncH
    refine ⟨⟨?_, by simp, by simp, by simp, by simp, ?_⟩, by simp⟩
    · simpa using hop
    · intro g hg r hr hasync
      simp only [List.mem_cons] at hg
      rcases hg with rfl | rfl | hg
      · simp [newFrame] at hr
      · exact asyncH f (by simp) r hr hasync
      · exact asyncH g (by simp [hg]) r hr hasync
  case enterPub r f fs ty v more hpc hfr hb =>
    simp only [ThOK, hpc, hfr] at hok
    obtain ⟨f', fs', h1, h2⟩ := hok
    cases h1
    rw [hfr] at tailH asyncH
    refine ⟨⟨?_, by simp, by simp, by simp, by simp, ?_⟩, by simp⟩
    · simp only [List.tail_cons, List.mem_cons, forall_eq_or_imp]
      exact ⟨by simp [h2], by simpa using tailH⟩
    · intro g hg r hr hasync
      simp only [List.mem_cons] at hg
      rcases hg with rfl | rfl | hg
      · simp [newFrame] at hr
      · exact asyncH f (by simp) r hr hasync
      · exact asyncH g (by simp [hg]) r hr hasync
  case lockDeadSync r a f fs hpc hfr hj hfree hl hsh =>
    exact ⟨shp hsh hfr (hok.lock hpc hfr).2, by simp [hsh.new_nil]⟩
  case lockDeadJob r a j f hpc hj hfr hfree hl =>
    exact ⟨⟨by simp, by simp, by simp, by simp, by simp, by simp⟩, by simp⟩
  case lock r a f fs hpc hfr hfree hl =>
    rw [hfr] at tailH asyncH
    refine ⟨⟨by simpa using tailH, by simp, by simp, by simp, by simp, ?_⟩, by simp⟩
    intro g hg r' hr' hasync
    simp only [List.mem_cons] at hg
    rcases hg with rfl | hg
    · simp at hr'; subst hr'
      cases a
      · rw [lockF r hpc] at hasync; cases hasync
      · simp only [ThOK, hpc] at hok
        exact hok.2.2
    · exact asyncH g (by simp [hg]) r' hr' hasync
  case retire f fs hpc hfr =>
    rw [hfr] at tailH asyncH
    refine ⟨⟨by simpa using tailH, by simp, by simp, by simp, by simp, ?_⟩, by simp⟩
    intro g hg r' hr' hasync
    simp only [List.mem_cons] at hg
    rcases hg with rfl | hg
    · exact asyncH f (by simp) r' hr' hasync
    · exact asyncH g (by simp [hg]) r' hr' hasync
  case retired f fs hpc hfr =>
    rw [hfr] at tailH asyncH
    refine ⟨⟨fun g hg => tailH g (by simpa using List.mem_of_mem_tail hg), fun _ g hg => tailH g (by simpa using hg),
      by simp, by simp, by simp, fun g hg => asyncH g (by simp [hg])⟩, by simp⟩
  case astartRun j hpc hj hs hl =>
    refine ⟨⟨by simp, by simp, by simp, by simp, by simp, ?_⟩, by simp⟩
    intro g hg r' hr' _
    simp only [List.mem_singleton] at hg
    subst hg
    simp [jobFrame] at hr'
    exact ⟨j, hj, hr'⟩
  case turnRun j hpc hj hturn hl =>
    refine ⟨⟨by simp, by simp, by simp, by simp, by simp, ?_⟩, by simp⟩
    intro g hg r' hr' _
    simp only [List.mem_singleton] at hg
    subst hg
    simp [jobFrame] at hr'
  case aend hpc =>
    simp only [ThOK, hpc] at hok
    exact ⟨⟨by simp [hok.2], by simp, by simp [hok.2], by simp, by simp, by simp [hok.2]⟩, by simp⟩
  case exitJob r j f hpc hj hfr =>
    exact ⟨⟨by simp, by simp, by simp, by simp, by simp, by simp⟩, by simp⟩
  case bodyEnd f fs r hpc hfr hb hh =>
    exact ⟨⟨tailH, by simp, by simp, by simp, by simp, asyncH⟩, by simp⟩
  case enterEnd r f fs hpc hfr hb =>
    exact ⟨⟨tailH, by simp, by simp, by simp, by simp, asyncH⟩, by simp⟩
  case publish ty v ctx prog hpc hfr hp =>
    exact ⟨⟨by simp, by simp, by simp, by simp, by simp, by simp [newFrame]⟩, by simp⟩
  all_goals
    refine ⟨⟨by simpa using tailH, ?_, ?_, ?_, ?_, by simpa using asyncH⟩, by simp⟩
    all_goals simp_all

theorem thS_reachable {progs : List (List Op)} : ∀ s, Reachable progs s → ∀ th ∈ s.ths, ThS th := by
  apply reach_ind
  · intro th hth
    simp [initSys] at hth
    obtain ⟨p, _, rfl⟩ := hth
    exact ⟨by simp, by simp, by simp, by simp, by simp, by simp⟩
  · intro s i th o hr hi hth hR t ht
    have hmem := List.mem_of_getElem? hth
    have h := hR.thS (thOK_reachable s hr th hmem) (hi th hmem)
    rcases mem_step_cases ht with ht | rfl | ht
    · exact hi t ht
    · exact h.1
    · exact h.2 t ht

/-! #### an enabled thread does move -/

theorem step_of_enabled {sh : Shared} {th : Thread} (hok : ThOK th) (hs : ThS th) (hen : enabled sh th = true) :
    ∃ o, step sh th = some o := by
  unfold step
  simp only [hen, Bool.not_true, Bool.false_eq_true, if_false]
  cases hpc : th.pc <;> simp only [ThOK, hpc] at hok <;> simp only []
  case op =>
    cases hfr : th.frames with
    | nil =>
      simp only []
      cases hp : th.prog with
      | nil => exact ⟨_, rfl⟩
      | cons op prog => cases op <;> exact ⟨_, rfl⟩
    | cons f fs =>
      have := hs.opH hpc f (by simp [hfr])
      simp only []
      cases hb : f.body with
      | cons p more => obtain ⟨ty, v⟩ := p; exact ⟨_, rfl⟩
      | nil =>
        cases hh : f.handler with
        | none => simp [hh] at this
        | some r => exact ⟨_, rfl⟩
  case done => simp [enabled, hpc] at hen
  case snap | filter | claimed | spawn | retire | retired =>
    obtain ⟨⟨f, fs, hfr, _⟩, _⟩ := hok
    simp only [hfr]
    first | exact ⟨_, rfl⟩ | (split <;> exact ⟨_, rfl⟩)
  case lock r a =>
    have : ∃ f fs, th.frames = f :: fs := by
      cases a
      · obtain ⟨_, ⟨f, fs, hfr, _⟩, _⟩ := hok; exact ⟨f, fs, hfr⟩
      · obtain ⟨_, ⟨f, fs, hfr, _⟩, _⟩ := hok; exact ⟨f, fs, hfr⟩
    obtain ⟨f, fs, hfr⟩ := this
    simp only [hfr]
    split
    · split <;> exact ⟨_, rfl⟩
    · exact ⟨_, rfl⟩
  case enter r =>
    obtain ⟨f, fs, hfr, _⟩ := hok
    simp only [hfr]
    split <;> exact ⟨_, rfl⟩
  case exit r =>
    obtain ⟨f, fs, hfr, _⟩ := hok
    simp only [hfr]
    split
    · exact ⟨_, rfl⟩
    · exact ⟨_, rfl⟩
    · rename_i h; simp at h
  case astart =>
    obtain ⟨⟨j, hj⟩, _⟩ := hok
    simp only [hj]
    split
    · exact ⟨_, rfl⟩
    · split <;> exact ⟨_, rfl⟩
  case turn =>
    obtain ⟨⟨j, hj, _⟩, _⟩ := hok
    simp only [hj]
    split <;> exact ⟨_, rfl⟩
  case aend => exact ⟨_, rfl⟩

/-! #### every ticket not yet served has a holder; at most one goroutine is in its turn -/

structure TkInv2 (sh : Shared) (ths : List Thread) (rid : Nat) : Prop where
  one : wsum (prog rid) ths ≤ 1
  cover : ∀ t, lookupD sh.serving rid + wsum (prog rid) ths ≤ t → t < lookupD sh.tickets rid → 1 ≤ wsum (hold rid t) ths

theorem TkInv2.step {sh : Shared} {ths : List Thread} {i : Nat} {th : Thread} {o : Out} (hth : ths[i]? = some th)
    (he : TkEff sh th o) (hi0 : ∀ rid, TkInv sh ths rid) (hi : ∀ rid, TkInv2 sh ths rid) (rid : Nat) :
    TkInv2 o.sh (ths.set i o.th ++ o.new) rid := by
  have Hs := fun t => wsum_step (hold rid t) o.th o.new hth
  have Ps := wsum_step (prog rid) o.th o.new hth
  have Hge := fun t => wsum_ge (hold rid t) hth
  have Pge := wsum_ge (prog rid) hth
  obtain ⟨i1, i2, i3, i4⟩ := hi0 rid
  obtain ⟨k1, k2⟩ := hi rid
  cases he with
  | quiet h1 h2 h3 h4 hh hp =>
    have eP : wsum (prog rid) (ths.set i o.th ++ o.new) = wsum (prog rid) ths := by have := hp rid; omega
    have eH : ∀ t, wsum (hold rid t) (ths.set i o.th ++ o.new) = wsum (hold rid t) ths := by
      intro t; have := hh rid t; have := Hs t; omega
    exact ⟨by rw [eP]; exact k1, fun t => by rw [h1, h3, eP, eH]; exact k2 t⟩
  | issue r hs h1 h2 h3 h4 hh hp =>
    have eP : wsum (prog rid) (ths.set i o.th ++ o.new) = wsum (prog rid) ths := by have := hp rid; omega
    have eH : ∀ t, wsum (hold rid t) (ths.set i o.th ++ o.new) =
        wsum (hold rid t) ths + if rid = r.rid ∧ t = lookupD sh.tickets r.rid then 1 else 0 := by
      intro t; have := hh rid t; have := Hs t; omega
    refine ⟨by rw [eP]; exact k1, ?_⟩
    intro t
    rw [h3, eP, eH, h1, lookupD_setKV]
    have := k2 t
    by_cases hr : rid = r.rid
    · subst hr
      by_cases ht : t = lookupD sh.tickets r.rid
      · simp [ht]
      · simp only [if_true, ht, and_false, if_false]; omega
    · simp only [hr, if_false, false_and]; exact this
  | turn j dead hs hturn h1 h2 h3 h4 hnew hh hh' hp hp' =>
    rw [hnew] at Hs Ps ⊢
    simp only [wsum_nil, Nat.add_zero, List.append_nil] at Hs Ps ⊢
    have eH : ∀ t, wsum (hold rid t) (ths.set i o.th) + (if rid = j.reg.rid ∧ t = j.ticket then 1 else 0) =
        wsum (hold rid t) ths := by
      intro t; have := Hs t; rw [hh, hh'] at this; omega
    have eP : wsum (prog rid) (ths.set i o.th) =
        wsum (prog rid) ths + (if dead then 0 else if rid = j.reg.rid then 1 else 0) := by
      rw [hp, hp'] at Ps; omega
    by_cases hr : rid = j.reg.rid
    · subst hr
      have hge := Hge j.ticket
      rw [hh] at hge
      simp only [and_self, if_true] at hge
      have h5 := (i4 j.ticket).2 hge
      have hP0 : wsum (prog j.reg.rid) ths = 0 := by omega
      have eS : lookupD o.sh.serving j.reg.rid + wsum (prog j.reg.rid) (ths.set i o.th) =
          lookupD sh.serving j.reg.rid + 1 := by
        rw [eP, h3]
        cases dead
        · simp; omega
        · simp [lookupD_setKV]; omega
      refine ⟨?_, ?_⟩
      · rw [eP, hP0]; cases dead <;> simp
      · intro t
        rw [eS, h1]
        have := k2 t
        have := eH t
        intro ht1 ht2
        have hne : t ≠ j.ticket := by omega
        simp only [hne, and_false, if_false] at this
        omega
    · have eS : lookupD o.sh.serving rid = lookupD sh.serving rid := by
        rw [h3]; cases dead <;> simp [lookupD_setKV, hr]
      have eP' : wsum (prog rid) (ths.set i o.th) = wsum (prog rid) ths := by
        rw [eP]; cases dead <;> simp [hr]
      have eH' : ∀ t, wsum (hold rid t) (ths.set i o.th) = wsum (hold rid t) ths := by
        intro t; have := eH t; simp only [hr, false_and, if_false] at this; omega
      exact ⟨by rw [eP']; exact k1, fun t => by rw [eS, eP', eH', h1]; exact k2 t⟩
  | release j hs h1 h2 h3 h4 hnew hh hh' hp hp' =>
    rw [hnew] at Hs Ps ⊢
    simp only [wsum_nil, Nat.add_zero, List.append_nil] at Hs Ps ⊢
    have eH : ∀ t, wsum (hold rid t) (ths.set i o.th) = wsum (hold rid t) ths := by
      intro t; have := Hs t; rw [hh, hh'] at this; omega
    have eP : wsum (prog rid) (ths.set i o.th) + (if rid = j.reg.rid then 1 else 0) = wsum (prog rid) ths := by
      rw [hp, hp'] at Ps; omega
    have eS : lookupD o.sh.serving rid + wsum (prog rid) (ths.set i o.th) =
        lookupD sh.serving rid + wsum (prog rid) ths := by
      rw [h3, lookupD_setKV]
      by_cases hr : rid = j.reg.rid
      · subst hr; simp only [if_true] at eP ⊢; omega
      · simp only [hr, if_false] at eP ⊢; omega
    exact ⟨by omega, fun t => by rw [eS, eH, h1]; exact k2 t⟩

theorem tk2_reachable {progs : List (List Op)} : ∀ s, Reachable progs s → ∀ rid, TkInv2 s.sh s.ths rid := by
  apply reach_ind
  · intro rid
    have hp : wsum (prog rid) (initSys progs).ths = 0 := wsum_init _ _ (fun p => by simp [prog])
    refine ⟨by omega, ?_⟩
    intro t _ h
    simp [initSys, lookupD] at h
  · intro s i th o hr hi hth hR rid
    exact TkInv2.step hth (hR.tk (thOK_reachable s hr th (List.mem_of_getElem? hth))) (tk_reachable s hr) hi rid

end Inv
end Ebu.Conc

import Ebu.Model.Shutdown
namespace Ebu.Shutdown

/-- Shutdown returns nil only when no asynchronous work is in flight, and only then – and
exactly once – closes the store; when it returns the context's error it has not closed it -/
theorem shutdown_spec (s s' : S) (pick : Bool) (o : Outcome) (h : shutdown s pick = some (s', o)) :
    (o = .nil_ ∨ o = .closeError → s.inflight = 0 ∧ s'.closes = s.closes + (if s.hasCloser then 1 else 0)) ∧
    (o = .ctxError → s.cancelled = true ∧ s' = s) ∧ s'.inflight = s.inflight := by
  unfold shutdown at h
  split at h
  · rename_i hc
    split at h
    · rename_i hcl
      simp at h
      obtain ⟨rfl, rfl⟩ := h
      refine ⟨fun _ => ⟨hc.1, by simp [hcl]⟩, ?_, rfl⟩
      intro ho; split at ho <;> simp at ho
    · rename_i hcl
      simp at h
      obtain ⟨rfl, rfl⟩ := h
      refine ⟨fun _ => ⟨hc.1, by simp [hcl]⟩, ?_, rfl⟩
      intro ho; simp at ho
  · split at h
    · rename_i hcan
      simp at h
      obtain ⟨rfl, rfl⟩ := h
      exact ⟨fun ho => by rcases ho with ho | ho <;> simp at ho, fun _ => ⟨hcan, rfl⟩, rfl⟩
    · simp at h

/-- … and it blocks exactly while work is in flight and the context is live -/
theorem shutdown_blocks_iff (s : S) (pick : Bool) :
    shutdown s pick = none ↔ (s.inflight ≠ 0 ∧ s.cancelled = false) := by
  unfold shutdown
  by_cases hi : s.inflight = 0 <;> cases hc : s.cancelled <;> cases pick <;> cases hcl : s.hasCloser <;> simp_all

end Ebu.Shutdown

import Ebu.Model.Upcast
/-!
Specification vocabulary and helper lemmas for M6 (used by Props/C16 and Props/C17).
-/
namespace Ebu.Upcast

/-- one declared edge -/
def Edge (g : Graph) (a b : Nat) : Prop := ∃ u ∈ g, u.src = a ∧ u.dst = b

/-- reflexive-transitive reachability along declared edges -/
inductive Reach (g : Graph) : Nat → Nat → Prop
  | refl (a : Nat) : Reach g a a
  | step {a b c : Nat} : Edge g a b → Reach g b c → Reach g a c

/-- no registered edge closes a cycle (this also excludes self loops) -/
def Acyclic (g : Graph) : Prop := ∀ a b, Edge g a b → ¬ Reach g b a

/-- the operations of the public API on the registry -/
inductive Op
  | reg (u : Upcaster) (nilFn : Bool)
  | clear
  | clearType (t : Nat)

/-- a rejected registration leaves the registry unchanged -/
def applyOp (g : Graph) : Op → Graph
  | .reg u nilFn => match register g u nilFn with
    | .ok g' => g'
    | .error _ => g
  | .clear => clear g
  | .clearType t => clearType g t

/-- the declarative chain: keep applying the first-registered upcaster of the current type -/
inductive Chain (g : Graph) : (List Nat × Nat) → (List Nat × Nat) → Prop
  | done {d : List Nat} {t : Nat} : ups g t = [] → Chain g (d, t) (d, t)
  | step {d : List Nat} {t : Nat} {u : Upcaster} {rest : List Upcaster} {r : List Nat × Nat} :
      ups g t = u :: rest → u.fails = false → Chain g (d ++ [u.tag], u.ret) r → Chain g (d, t) r

/-! ### reachability basics -/

theorem edge_iff_mem_succs (g : Graph) (a b : Nat) : Edge g a b ↔ b ∈ succs g a := by
  unfold Edge succs ups
  simp only [List.mem_map, List.mem_filter, beq_iff_eq]
  constructor
  · rintro ⟨u, hu, h1, h2⟩
    exact ⟨u, ⟨hu, h1⟩, h2⟩
  · rintro ⟨u, ⟨hu, h1⟩, h2⟩
    exact ⟨u, hu, h1, h2⟩

theorem mem_ups_iff (g : Graph) (t : Nat) (u : Upcaster) : u ∈ ups g t ↔ u ∈ g ∧ u.src = t := by
  unfold ups
  simp only [List.mem_filter, beq_iff_eq]

theorem Reach.trans {g : Graph} {a b c : Nat} (h1 : Reach g a b) (h2 : Reach g b c) :
    Reach g a c := by
  induction h1 with
  | refl _ => exact h2
  | step e _ ih => exact Reach.step e (ih h2)

theorem Reach.single {g : Graph} {a b : Nat} (e : Edge g a b) : Reach g a b :=
  Reach.step e (Reach.refl b)

theorem Edge.mono {g g' : Graph} (hsub : ∀ u ∈ g, u ∈ g') {a b : Nat} :
    Edge g a b → Edge g' a b
  | ⟨u, hu, h⟩ => ⟨u, hsub u hu, h⟩

theorem Reach.mono {g g' : Graph} (hsub : ∀ u ∈ g, u ∈ g') {a b : Nat} (h : Reach g a b) :
    Reach g' a b := by
  induction h with
  | refl _ => exact Reach.refl _
  | step e _ ih => exact Reach.step (Edge.mono hsub e) ih

theorem Acyclic.mono {g g' : Graph} (hsub : ∀ u ∈ g, u ∈ g') (h : Acyclic g') : Acyclic g :=
  fun a b e r => h a b (Edge.mono hsub e) (Reach.mono hsub r)

theorem acyclic_nil : Acyclic [] := by
  intro a b e
  obtain ⟨u, hu, _⟩ := e
  cases hu

theorem edge_append_single {g : Graph} {u : Upcaster} {a b : Nat} (e : Edge (g ++ [u]) a b) :
    Edge g a b ∨ (a = u.src ∧ b = u.dst) := by
  obtain ⟨v, hv, h1, h2⟩ := e
  rcases List.mem_append.mp hv with hv | hv
  · exact Or.inl ⟨v, hv, h1, h2⟩
  · have : v = u := by simpa using hv
    subst this
    exact Or.inr ⟨h1.symm, h2.symm⟩

theorem reach_append_single {g : Graph} {u : Upcaster} {x y : Nat} (h : Reach (g ++ [u]) x y) :
    Reach g x y ∨ (Reach g x u.src ∧ Reach g u.dst y) := by
  induction h with
  | refl a => exact Or.inl (Reach.refl a)
  | step e _ ih =>
    rcases edge_append_single e with e' | ⟨ha, hb⟩
    · rcases ih with ih | ⟨ih1, ih2⟩
      · exact Or.inl (Reach.step e' ih)
      · exact Or.inr ⟨Reach.step e' ih1, ih2⟩
    · subst ha hb
      rcases ih with ih | ⟨_, ih2⟩
      · exact Or.inr ⟨Reach.refl _, ih⟩
      · exact Or.inr ⟨Reach.refl _, ih2⟩

theorem acyclic_append_single {g : Graph} {u : Upcaster} (hac : Acyclic g)
    (hn : ¬ Reach g u.dst u.src) : Acyclic (g ++ [u]) := by
  intro a b e r
  rcases edge_append_single e with e' | ⟨ha, hb⟩
  · rcases reach_append_single r with r' | ⟨r1, r2⟩
    · exact hac a b e' r'
    · exact hn (r2.trans ((Reach.single e').trans r1))
  · subst ha hb
    rcases reach_append_single r with r' | ⟨r1, _⟩
    · exact hn r'
    · exact hn r1

/-! ### the search loop, named -/

def dfsLoop (g : Graph) (target fuel : Nat) (l : List Nat) (acc : Bool × List Nat) :
    Option (Bool × List Nat) :=
  l.foldlM (init := acc) fun acc x => if acc.1 then some acc else dfs g target fuel x acc.2

theorem dfs_succ (g : Graph) (target fuel cur : Nat) (vis : List Nat) :
    dfs g target (fuel+1) cur vis =
      if cur = target then some (true, vis)
      else if cur ∈ vis then some (false, vis)
      else dfsLoop g target fuel (succs g cur) (false, cur :: vis) := by
  simp only [dfs, dfsLoop]

theorem dfsLoop_nil (g : Graph) (target fuel : Nat) (acc : Bool × List Nat) :
    dfsLoop g target fuel [] acc = some acc := rfl

theorem dfsLoop_cons (g : Graph) (target fuel x : Nat) (l : List Nat) (acc : Bool × List Nat) :
    dfsLoop g target fuel (x :: l) acc =
      if acc.1 = true then dfsLoop g target fuel l acc
      else (dfs g target fuel x acc.2).bind (dfsLoop g target fuel l) := by
  simp only [dfsLoop, List.foldlM_cons]
  split <;> rfl

/-! ### soundness -/

theorem dfsLoop_sound_aux (g : Graph) (target fuel : Nat)
    (ih : ∀ cur vis r, dfs g target fuel cur vis = some (true, r) → Reach g cur target) :
    ∀ (l : List Nat) (acc : Bool × List Nat) (r : List Nat),
      dfsLoop g target fuel l acc = some (true, r) →
        acc.1 = true ∨ ∃ x ∈ l, Reach g x target := by
  intro l
  induction l with
  | nil =>
    intro acc r h
    rw [dfsLoop_nil] at h
    cases h
    exact Or.inl rfl
  | cons x l ihl =>
    intro acc r h
    rw [dfsLoop_cons] at h
    by_cases hb : acc.1 = true
    · exact Or.inl hb
    · right
      rw [if_neg hb] at h
      obtain ⟨⟨b, v⟩, hr', h⟩ := Option.bind_eq_some_iff.mp h
      rcases ihl (b, v) r h with h1 | ⟨y, hy, hy'⟩
      · simp only at h1
        subst h1
        exact ⟨x, List.mem_cons_self, ih x acc.2 v hr'⟩
      · exact ⟨y, List.mem_cons_of_mem _ hy, hy'⟩

theorem dfs_sound (g : Graph) (target : Nat) :
    ∀ fuel cur vis r, dfs g target fuel cur vis = some (true, r) → Reach g cur target := by
  intro fuel
  induction fuel with
  | zero => intro cur vis r h; simp [dfs] at h
  | succ fuel ih =>
    intro cur vis r h
    rw [dfs_succ] at h
    by_cases h1 : cur = target
    · subst h1; exact Reach.refl _
    · rw [if_neg h1] at h
      by_cases h2 : cur ∈ vis
      · rw [if_pos h2] at h
        simp at h
      · rw [if_neg h2] at h
        rcases dfsLoop_sound_aux g target fuel ih _ _ _ h with h3 | ⟨x, hx, hx'⟩
        · simp at h3
        · exact Reach.step ((edge_iff_mem_succs g cur x).mpr hx) hx'

/-! ### completeness -/

def NewClosed (g : Graph) (target : Nat) (old new : List Nat) : Prop :=
  (∀ n ∈ old, n ∈ new) ∧ ∀ n ∈ new, n ∉ old → n ≠ target ∧ ∀ m ∈ succs g n, m ∈ new

theorem NewClosed.refl (g : Graph) (target : Nat) (v : List Nat) : NewClosed g target v v :=
  ⟨fun _ h => h, fun _ h h' => absurd h h'⟩

theorem NewClosed.trans {g : Graph} {target : Nat} {a b c : List Nat}
    (h1 : NewClosed g target a b) (h2 : NewClosed g target b c) : NewClosed g target a c := by
  refine ⟨fun n hn => h2.1 n (h1.1 n hn), fun n hn hna => ?_⟩
  by_cases hb : n ∈ b
  · obtain ⟨h3, h4⟩ := h1.2 n hb hna
    exact ⟨h3, fun m hm => h2.1 m (h4 m hm)⟩
  · exact h2.2 n hn hb

theorem dfsLoop_complete_aux (g : Graph) (target fuel : Nat)
    (ih : ∀ cur vis vis', dfs g target fuel cur vis = some (false, vis') →
      NewClosed g target vis vis' ∧ cur ∈ vis') :
    ∀ (l : List Nat) (acc : Bool × List Nat) (vis' : List Nat),
      dfsLoop g target fuel l acc = some (false, vis') →
        acc.1 = false ∧ NewClosed g target acc.2 vis' ∧ ∀ x ∈ l, x ∈ vis' := by
  intro l
  induction l with
  | nil =>
    intro acc vis' h
    rw [dfsLoop_nil] at h
    cases h
    exact ⟨rfl, NewClosed.refl _ _ _, fun _ hx => by cases hx⟩
  | cons x l ihl =>
    intro acc vis' h
    rw [dfsLoop_cons] at h
    by_cases hb : acc.1 = true
    · rw [if_pos hb] at h
      have := (ihl acc vis' h).1
      rw [hb] at this
      cases this
    · rw [if_neg hb] at h
      obtain ⟨⟨b, v⟩, hr', h⟩ := Option.bind_eq_some_iff.mp h
      obtain ⟨h1, h2, h3⟩ := ihl (b, v) vis' h
      simp only at h1 h2
      subst h1
      obtain ⟨h4, h5⟩ := ih x acc.2 v hr'
      refine ⟨by simpa using hb, h4.trans h2, ?_⟩
      intro y hy
      rcases List.mem_cons.mp hy with rfl | hy
      · exact h2.1 _ h5
      · exact h3 y hy

theorem dfs_complete (g : Graph) (target : Nat) :
    ∀ fuel cur vis vis', dfs g target fuel cur vis = some (false, vis') →
      NewClosed g target vis vis' ∧ cur ∈ vis' := by
  intro fuel
  induction fuel with
  | zero => intro cur vis vis' h; simp [dfs] at h
  | succ fuel ih =>
    intro cur vis vis' h
    rw [dfs_succ] at h
    by_cases h1 : cur = target
    · rw [if_pos h1] at h
      simp at h
    · rw [if_neg h1] at h
      by_cases h2 : cur ∈ vis
      · rw [if_pos h2] at h
        simp only [Option.some.injEq, Prod.mk.injEq, true_and] at h
        subst h
        exact ⟨NewClosed.refl _ _ _, h2⟩
      · rw [if_neg h2] at h
        obtain ⟨_, h3, h4⟩ := dfsLoop_complete_aux g target fuel ih _ _ _ h
        simp only at h3
        have hcur : cur ∈ vis' := h3.1 cur List.mem_cons_self
        refine ⟨⟨fun n hn => h3.1 n (List.mem_cons_of_mem _ hn), fun n hn hnv => ?_⟩, hcur⟩
        by_cases hc : n = cur
        · subst hc
          exact ⟨h1, h4⟩
        · exact h3.2 n hn (by simp [hc, hnv])

theorem closed_reach {g : Graph} {S : List Nat}
    (hcl : ∀ n ∈ S, ∀ m ∈ succs g n, m ∈ S) {a b : Nat} (h : Reach g a b) : a ∈ S → b ∈ S := by
  induction h with
  | refl _ => exact id
  | step e _ ih =>
    intro ha
    exact ih (hcl _ ha _ ((edge_iff_mem_succs g _ _).mp e))

theorem dfs_false_not_reach (g : Graph) (target fuel start : Nat) (vis' : List Nat)
    (h : dfs g target fuel start [] = some (false, vis')) : ¬ Reach g start target := by
  obtain ⟨⟨_, h2⟩, h3⟩ := dfs_complete g target fuel start [] vis' h
  intro hr
  have hcl : ∀ n ∈ vis', ∀ m ∈ succs g n, m ∈ vis' :=
    fun n hn => (h2 n hn (by simp)).2
  have ht : target ∈ vis' := closed_reach hcl hr h3
  exact (h2 target ht (by simp)).1 rfl

/-! ### fuel sufficiency -/

/-- number of upcasters whose source is not yet marked -/
def unmarked (g : Graph) (vis : List Nat) : Nat := g.countP (fun u => decide (u.src ∉ vis))

theorem unmarked_mono {g : Graph} {vis vis' : List Nat} (h : ∀ n ∈ vis, n ∈ vis') :
    unmarked g vis' ≤ unmarked g vis := by
  unfold unmarked
  apply List.countP_mono_left
  intro u _ hu
  simp only [decide_eq_true_eq] at *
  exact fun hc => hu (h _ hc)

theorem unmarked_nil_le (g : Graph) : unmarked g [] ≤ g.length := List.countP_le_length

theorem countP_lt_of {α : Type} (p q : α → Bool) :
    ∀ (l : List α), (∀ x ∈ l, q x = true → p x = true) →
      (∃ x ∈ l, p x = true ∧ q x = false) → l.countP q < l.countP p
  | [], _, ⟨_, hx, _⟩ => by cases hx
  | a :: l, himp, ⟨x, hx, hpx, hqx⟩ => by
    have himp' : ∀ y ∈ l, q y = true → p y = true :=
      fun y hy => himp y (List.mem_cons_of_mem _ hy)
    have hle : l.countP q ≤ l.countP p := List.countP_mono_left himp'
    have ha := himp a List.mem_cons_self
    simp only [List.countP_cons]
    rcases List.mem_cons.mp hx with rfl | hx'
    · simp only [hpx, hqx]
      simp
      omega
    · have hlt := countP_lt_of p q l himp' ⟨x, hx', hpx, hqx⟩
      cases hq : q a <;> cases hp : p a <;> simp_all <;> omega

theorem unmarked_cons_lt {g : Graph} {u : Upcaster} {vis : List Nat}
    (hu : u ∈ g) (hv : u.src ∉ vis) : unmarked g (u.src :: vis) < unmarked g vis := by
  unfold unmarked
  apply countP_lt_of
  · intro x _ hx
    simp only [decide_eq_true_eq, List.mem_cons, not_or] at *
    exact hx.2
  · exact ⟨u, hu, by simp [hv], by simp⟩

theorem dfsLoop_fuel_aux (g : Graph) (target fuel : Nat)
    (ih : ∀ cur vis, unmarked g vis < fuel →
      ∃ r, dfs g target fuel cur vis = some r ∧ ∀ n ∈ vis, n ∈ r.2) :
    ∀ (l : List Nat) (acc : Bool × List Nat), unmarked g acc.2 < fuel →
      ∃ r, dfsLoop g target fuel l acc = some r ∧ ∀ n ∈ acc.2, n ∈ r.2 := by
  intro l
  induction l with
  | nil =>
    intro acc _
    exact ⟨acc, dfsLoop_nil _ _ _ _, fun _ h => h⟩
  | cons x l ihl =>
    intro acc hlt
    rw [dfsLoop_cons]
    by_cases hb : acc.1 = true
    · rw [if_pos hb]
      exact ihl acc hlt
    · rw [if_neg hb]
      obtain ⟨r', hr', hsub⟩ := ih x acc.2 hlt
      have hlt' : unmarked g r'.2 < fuel := Nat.lt_of_le_of_lt (unmarked_mono hsub) hlt
      obtain ⟨r, hr, hsub'⟩ := ihl r' hlt'
      refine ⟨r, ?_, fun n hn => hsub' n (hsub n hn)⟩
      rw [hr']
      exact hr

theorem dfs_fuel (g : Graph) (target : Nat) :
    ∀ fuel cur vis, unmarked g vis < fuel →
      ∃ r, dfs g target fuel cur vis = some r ∧ ∀ n ∈ vis, n ∈ r.2 := by
  intro fuel
  induction fuel with
  | zero => intro _ _ h; omega
  | succ fuel ih =>
    intro cur vis hlt
    rw [dfs_succ]
    by_cases h1 : cur = target
    · rw [if_pos h1]
      exact ⟨_, rfl, fun _ h => h⟩
    · rw [if_neg h1]
      by_cases h2 : cur ∈ vis
      · rw [if_pos h2]
        exact ⟨_, rfl, fun _ h => h⟩
      · rw [if_neg h2]
        cases hs : succs g cur with
        | nil =>
          exact ⟨_, dfsLoop_nil _ _ _ _, fun n hn => List.mem_cons_of_mem _ hn⟩
        | cons y ys =>
          have hy : y ∈ succs g cur := by rw [hs]; exact List.mem_cons_self
          obtain ⟨u, hu, hsrc, _⟩ := (edge_iff_mem_succs g cur y).mpr hy
          subst hsrc
          have hdec := unmarked_cons_lt hu h2
          have hlt' : unmarked g (u.src :: vis) < fuel := by omega
          obtain ⟨r, hr, hsub⟩ :=
            dfsLoop_fuel_aux g target fuel ih (y :: ys) (false, u.src :: vis) hlt'
          exact ⟨r, hr, fun n hn => hsub n (List.mem_cons_of_mem _ hn)⟩

theorem dfs_fuel_top (g : Graph) (target start : Nat) :
    ∃ r, dfs g target (dfsFuel g) start [] = some r := by
  have h : unmarked g [] < dfsFuel g := by
    have := unmarked_nil_le g
    unfold dfsFuel
    omega
  obtain ⟨r, hr, _⟩ := dfs_fuel g target (dfsFuel g) start [] h
  exact ⟨r, hr⟩

/-! ### the `apply` loop -/

theorem mem_of_ups_eq_cons {g : Graph} {t : Nat} {u : Upcaster} {rest : List Upcaster}
    (h : ups g t = u :: rest) : u ∈ g ∧ u.src = t :=
  (mem_ups_iff g t u).mp (h ▸ List.mem_cons_self)

theorem applyLoop_no_fuel (g : Graph) (h : Bool) (d0 : List Nat) (t0 : Nat) :
    ∀ (fuel : Nat) (data : List Nat) (ty : Nat) (applied : List Nat) (calls : List (Nat × List Nat)),
      ty ∉ applied → unmarked g applied < fuel →
        (applyLoop g h d0 t0 fuel data ty applied calls).err ≠ some .fuel := by
  intro fuel
  induction fuel with
  | zero => intro _ _ _ _ _ hlt; omega
  | succ fuel ih =>
    intro data ty applied calls hty hlt
    simp only [applyLoop]
    split
    · simp
    · rename_i u rest hups
      obtain ⟨hu, hsrc⟩ := mem_of_ups_eq_cons hups
      subst hsrc
      have hdec := unmarked_cons_lt hu hty
      split
      · simp
      · split
        · simp
        · split
          · simp
          · rename_i hret
            exact ih _ _ _ _ hret (by omega)

theorem applyLoop_calls_le (g : Graph) (h : Bool) (d0 : List Nat) (t0 : Nat) :
    ∀ (fuel : Nat) (data : List Nat) (ty : Nat) (applied : List Nat) (calls : List (Nat × List Nat)),
      ty ∉ applied →
        (applyLoop g h d0 t0 fuel data ty applied calls).calls.length ≤
          calls.length + unmarked g applied := by
  intro fuel
  induction fuel with
  | zero => intro _ _ _ _ _; simp [applyLoop]
  | succ fuel ih =>
    intro data ty applied calls hty
    simp only [applyLoop]
    split
    · simp
    · rename_i u rest hups
      obtain ⟨hu, hsrc⟩ := mem_of_ups_eq_cons hups
      subst hsrc
      have hdec := unmarked_cons_lt hu hty
      split
      · simp
      · split
        · simp; omega
        · split
          · simp; omega
          · rename_i hret
            have := ih (data ++ [u.tag]) u.ret (u.src :: applied) (calls ++ [(u.tag, data)]) hret
            simp at this
            omega

theorem applyLoop_ok_chain (g : Graph) (h : Bool) (d0 : List Nat) (t0 : Nat) :
    ∀ (fuel : Nat) (data : List Nat) (ty : Nat) (applied : List Nat) (calls : List (Nat × List Nat)),
      (applyLoop g h d0 t0 fuel data ty applied calls).err = none →
        Chain g (data, ty)
          ((applyLoop g h d0 t0 fuel data ty applied calls).data,
           (applyLoop g h d0 t0 fuel data ty applied calls).ty) := by
  intro fuel
  induction fuel with
  | zero => intro _ _ _ _ h; simp [applyLoop] at h
  | succ fuel ih =>
    intro data ty applied calls
    simp only [applyLoop]
    split
    · rename_i hups
      intro _
      exact Chain.done hups
    · rename_i u rest hups
      split
      · intro h; simp at h
      · split
        · intro h; simp at h
        · rename_i hfail
          split
          · intro h; simp at h
          · intro hok
            exact Chain.step hups (by simpa using hfail) (ih _ _ _ _ hok)

theorem applyLoop_err_original (g : Graph) (h : Bool) (d0 : List Nat) (t0 : Nat) :
    ∀ (fuel : Nat) (data : List Nat) (ty : Nat) (applied : List Nat) (calls : List (Nat × List Nat)),
      (applyLoop g h d0 t0 fuel data ty applied calls).err = some .fuel ∨
      (applyLoop g h d0 t0 fuel data ty applied calls).err = none ∨
      ((applyLoop g h d0 t0 fuel data ty applied calls).data = d0 ∧
       (applyLoop g h d0 t0 fuel data ty applied calls).ty = t0) := by
  intro fuel
  induction fuel with
  | zero => intro _ _ _ _; simp [applyLoop]
  | succ fuel ih =>
    intro data ty applied calls
    simp only [applyLoop]
    split
    · simp
    · split
      · simp
      · split
        · simp
        · split
          · simp
          · exact ih _ _ _ _

theorem applyLoop_errCalls (g : Graph) (h : Bool) (d0 : List Nat) (t0 : Nat) :
    ∀ (fuel : Nat) (data : List Nat) (ty : Nat) (applied : List Nat) (calls : List (Nat × List Nat)),
      (∀ s x, (applyLoop g h d0 t0 fuel data ty applied calls).err = some (.failed s x) →
        (applyLoop g h d0 t0 fuel data ty applied calls).errCalls =
          if h then [(s, ((applyLoop g h d0 t0 fuel data ty applied calls).calls.getLast?.map
            (·.2)).getD [])] else []) ∧
      ((∀ s x, (applyLoop g h d0 t0 fuel data ty applied calls).err ≠ some (.failed s x)) →
        (applyLoop g h d0 t0 fuel data ty applied calls).errCalls = []) := by
  intro fuel
  induction fuel with
  | zero => intro _ _ _ _; simp [applyLoop]
  | succ fuel ih =>
    intro data ty applied calls
    simp only [applyLoop]
    split
    · simp
    · rename_i u rest hups
      obtain ⟨hu, hsrc⟩ := mem_of_ups_eq_cons hups
      split
      · simp
      · split
        · constructor
          · intro s x hs
            simp only [Option.some.injEq, ApplyErr.failed.injEq] at hs
            obtain ⟨hs1, _⟩ := hs
            simp [← hs1, hsrc]
          · intro hne
            exact absurd rfl (hne u.src u.dst)
        · split
          · simp
          · exact ih _ _ _ _

theorem applyLoop_complete (g : Graph) (h : Bool) (d0 : List Nat) (t0 : Nat)
    (hac : Acyclic g) (hhonest : ∀ u ∈ g, u.ret = u.dst) (hnofail : ∀ u ∈ g, u.fails = false) :
    ∀ (fuel : Nat) (data : List Nat) (ty : Nat) (applied : List Nat) (calls : List (Nat × List Nat)),
      (∀ x ∈ applied, Reach g x ty) →
        (applyLoop g h d0 t0 fuel data ty applied calls).err = none ∨
        (applyLoop g h d0 t0 fuel data ty applied calls).err = some .fuel := by
  intro fuel
  induction fuel with
  | zero => intro _ _ _ _ _; simp [applyLoop]
  | succ fuel ih =>
    intro data ty applied calls hinv
    simp only [applyLoop]
    split
    · simp
    · rename_i u rest hups
      obtain ⟨hu, hsrc⟩ := mem_of_ups_eq_cons hups
      have hedge : Edge g ty u.dst := ⟨u, hu, hsrc, rfl⟩
      have hinv' : ∀ x ∈ ty :: applied, Reach g x ty := by
        intro x hx
        rcases List.mem_cons.mp hx with rfl | hx
        · exact Reach.refl _
        · exact hinv x hx
      have hnot : u.dst ∉ ty :: applied := fun hmem => hac ty u.dst hedge (hinv' _ hmem)
      rw [if_neg hnot]
      have hf := hnofail u hu
      have hr := hhonest u hu
      simp only [hf, hr, if_neg hnot, Bool.false_eq_true, if_false]
      apply ih
      intro x hx
      exact (hinv' x hx).trans (Reach.single hedge)

theorem wouldCreateCycle_ne_none (g : Graph) (src dst : Nat) : wouldCreateCycle g src dst ≠ none := by
  obtain ⟨r, hr⟩ := dfs_fuel_top g src dst
  simp [wouldCreateCycle, hr]

theorem wouldCreateCycle_iff_reach (g : Graph) (src dst : Nat) :
    wouldCreateCycle g src dst = some true ↔ Reach g dst src := by
  obtain ⟨⟨b, v⟩, hr⟩ := dfs_fuel_top g src dst
  simp only [wouldCreateCycle, hr, Option.map_some, Option.some.injEq]
  constructor
  · intro hb
    subst hb
    exact dfs_sound g src _ _ _ _ hr
  · intro hreach
    cases b with
    | true => rfl
    | false => exact absurd hreach (dfs_false_not_reach g src _ dst v hr)

theorem register_accepts_iff (g : Graph) (u : Upcaster) (nilFn : Bool) :
    (∃ g', register g u nilFn = .ok g') ↔
      (u.src ≠ 0 ∧ u.dst ≠ 0 ∧ u.src ≠ u.dst ∧ nilFn = false ∧ ¬ Reach g u.dst u.src) := by
  have hne := wouldCreateCycle_ne_none g u.src u.dst
  have hiff := wouldCreateCycle_iff_reach g u.src u.dst
  unfold register
  by_cases h1 : u.src = 0 ∨ u.dst = 0
  · rw [if_pos h1]
    constructor
    · rintro ⟨_, h⟩; cases h
    · rintro ⟨ha, hb, _⟩
      rcases h1 with h1 | h1
      · exact absurd h1 ha
      · exact absurd h1 hb
  · rw [if_neg h1]
    have h1' : u.src ≠ 0 ∧ u.dst ≠ 0 := by
      constructor
      · exact fun hc => h1 (Or.inl hc)
      · exact fun hc => h1 (Or.inr hc)
    by_cases h2 : u.src = u.dst
    · rw [if_pos h2]
      constructor
      · rintro ⟨_, h⟩; cases h
      · rintro ⟨_, _, hc, _⟩; exact absurd h2 hc
    · rw [if_neg h2]
      cases nilFn with
      | true =>
        simp only [if_true]
        constructor
        · rintro ⟨_, h⟩; cases h
        · rintro ⟨_, _, _, hc, _⟩; cases hc
      | false =>
        simp only [Bool.false_eq_true, if_false]
        cases hw : wouldCreateCycle g u.src u.dst with
        | none => exact absurd hw hne
        | some b =>
          cases b with
          | true =>
            simp only
            constructor
            · rintro ⟨_, h⟩; cases h
            · rintro ⟨_, _, _, _, hc⟩; exact absurd (hiff.mp hw) hc
          | false =>
            simp only
            constructor
            · intro _
              refine ⟨h1'.1, h1'.2, h2, trivial, ?_⟩
              intro hc
              have := hiff.mpr hc
              rw [hw] at this
              cases this
            · intro _
              exact ⟨_, rfl⟩

theorem register_ok_appends (g g' : Graph) (u : Upcaster) (nilFn : Bool)
    (h : register g u nilFn = .ok g') : g' = g ++ [u] := by
  unfold register at h
  split at h
  · cases h
  · split at h
    · cases h
    · split at h
      · cases h
      · split at h
        · cases h
        · cases h
        · cases h; rfl

theorem acyclic_run (ops : List Op) : Acyclic (ops.foldl applyOp []) := by
  suffices hs : ∀ (ops : List Op) (g : Graph), Acyclic g → Acyclic (ops.foldl applyOp g) from
    hs ops [] acyclic_nil
  intro ops
  induction ops with
  | nil => intro g hg; exact hg
  | cons op ops ih =>
    intro g hg
    rw [List.foldl_cons]
    apply ih
    cases op with
    | reg u nilFn =>
      simp only [applyOp]
      cases hreg : register g u nilFn with
      | error e => exact hg
      | ok g' =>
        have happ := register_ok_appends g g' u nilFn hreg
        have hacc := (register_accepts_iff g u nilFn).mp ⟨g', hreg⟩
        subst happ
        exact acyclic_append_single hg hacc.2.2.2.2
    | clear =>
      simp only [applyOp, clear]
      exact acyclic_nil
    | clearType t =>
      simp only [applyOp, clearType]
      exact Acyclic.mono (fun u hu => (List.mem_filter.mp hu).1) hg

theorem apply_no_fuel (g : Graph) (h : Bool) (d : List Nat) (t : Nat) :
    (apply g h d t).err ≠ some .fuel := by
  unfold apply
  split
  · simp
  · apply applyLoop_no_fuel
    · simp
    · have := unmarked_nil_le g
      unfold applyFuel
      omega

theorem apply_calls_le (g : Graph) (h : Bool) (d : List Nat) (t : Nat) :
    (apply g h d t).calls.length ≤ g.length + 1 := by
  unfold apply
  split
  · simp
  · have h1 := applyLoop_calls_le g h d t (applyFuel g) d t [] [] (by simp)
    have h2 := unmarked_nil_le g
    simp at h1
    omega

theorem apply_ok_chain (g : Graph) (h : Bool) (d : List Nat) (t : Nat)
    (hok : (apply g h d t).err = none) :
    Chain g (d, t) ((apply g h d t).data, (apply g h d t).ty) := by
  unfold apply at hok ⊢
  split
  · rename_i hups
    exact Chain.done hups
  · rename_i hups
    rw [hups] at hok
    exact applyLoop_ok_chain g h d t _ _ _ _ _ hok

theorem apply_err_original (g : Graph) (h : Bool) (d : List Nat) (t : Nat)
    (herr : (apply g h d t).err ≠ none) :
    (apply g h d t).data = d ∧ (apply g h d t).ty = t := by
  have hnf := apply_no_fuel g h d t
  unfold apply at herr hnf ⊢
  split
  · rename_i hups
    rw [hups] at herr
    simp at herr
  · rename_i hups
    rw [hups] at herr hnf
    rcases applyLoop_err_original g h d t (applyFuel g) d t [] [] with h1 | h1 | h1
    · exact absurd h1 hnf
    · exact absurd h1 herr
    · exact h1

theorem apply_errCalls (g : Graph) (h : Bool) (d : List Nat) (t : Nat) :
    (∀ s x, (apply g h d t).err = some (.failed s x) →
        (apply g h d t).errCalls =
          if h then [(s, ((apply g h d t).calls.getLast?.map (·.2)).getD [])] else []) ∧
    ((∀ s x, (apply g h d t).err ≠ some (.failed s x)) → (apply g h d t).errCalls = []) := by
  unfold apply
  split
  · simp
  · exact applyLoop_errCalls g h d t _ _ _ _ _

theorem apply_complete (g : Graph) (h : Bool) (d : List Nat) (t : Nat)
    (hac : Acyclic g) (hhonest : ∀ u ∈ g, u.ret = u.dst) (hnofail : ∀ u ∈ g, u.fails = false) :
    (apply g h d t).err = none := by
  have hnf := apply_no_fuel g h d t
  unfold apply at hnf ⊢
  split
  · rfl
  · rename_i hups
    rw [hups] at hnf
    rcases applyLoop_complete g h d t hac hhonest hnofail (applyFuel g) d t [] []
      (by intro x hx; cases hx) with h1 | h1
    · exact h1
    · exact absurd h1 hnf

theorem upcastStored_none (g : Graph) (h : Bool) (e : Stored) (hn : ups g e.ty = []) :
    (upcastStored g h e).1 = e ∧ (upcastStored g h e).2.calls = [] := by
  have happ : apply g h e.data e.ty = ⟨e.data, e.ty, none, [], []⟩ := by
    unfold apply
    rw [hn]
  unfold upcastStored
  simp only [happ]
  exact ⟨trivial, trivial⟩

theorem upcastStored_spec (g : Graph) (h : Bool) (e : Stored) :
    (upcastStored g h e).1.off = e.off ∧ (upcastStored g h e).1.ts = e.ts ∧
    ((upcastStored g h e).2.err ≠ none → (upcastStored g h e).1 = e) ∧
    ((upcastStored g h e).2.err = none →
        Chain g (e.data, e.ty) ((upcastStored g h e).1.data, (upcastStored g h e).1.ty)) := by
  unfold upcastStored
  cases herr : (apply g h e.data e.ty).err with
  | none =>
    simp only [herr]
    refine ⟨trivial, trivial, fun hc => absurd rfl hc, fun _ => ?_⟩
    exact apply_ok_chain g h e.data e.ty herr
  | some err =>
    simp only [herr]
    refine ⟨trivial, trivial, fun _ => trivial, fun hc => ?_⟩
    cases hc

end Ebu.Upcast

import Ebu.Model.SaveConc
namespace Ebu.SaveConc

/-- invariant of the locked machine -/
def Inv (s : St) : Prop :=
  Monotone s.history ∧ (∀ x ∈ s.history, x ≤ s.lastOffset) ∧ s.saved ≤ s.lastOffset ∧
  (s.history.getLast? = none → s.saved = 0) ∧ (∀ x, s.history.getLast? = some x → s.saved = x)

theorem stepLocked_inv (s : St) (i : Nat) (h : Inv s) : Inv (stepLocked s i) := by
  unfold stepLocked
  split
  · exact h
  · obtain ⟨hm, hle, hs, hn, hl⟩ := h
    split
    · refine ⟨hm, fun x hx => Nat.le_succ_of_le (hle x hx), Nat.le_succ_of_le hs, hn, hl⟩
    · split
      · split
        · exact ⟨hm, hle, hs, hn, hl⟩
        · refine ⟨?_, ?_, Nat.le_refl _, ?_, ?_⟩
          · unfold Monotone at *
            rw [List.pairwise_append]
            refine ⟨hm, by simp, ?_⟩
            intro a ha b hb
            simp at hb; subst hb
            exact hle a ha
          · intro x hx
            simp at hx
            rcases hx with hx | rfl
            · exact hle x hx
            · exact Nat.le_refl _
          · simp
          · intro x hx; simp at hx; exact hx
      · exact ⟨hm, hle, hs, hn, hl⟩

theorem runLocked_inv (n : Nat) (sched : List Nat) : Inv (runLocked n sched) := by
  unfold runLocked
  suffices h : ∀ s, Inv s → Inv (sched.foldl stepLocked s) from
    h _ ⟨by simp [Monotone, init], by simp [init], by simp [init], by simp [init], by simp [init]⟩
  induction sched with
  | nil => intro s h; simpa using h
  | cons i sched ih => intro s h; exact ih _ (stepLocked_inv s i h)

/-- C12, concurrent clause: under every schedule of any number of concurrent publishes the values saved for the
subscription never decrease, and the saved position is always the last value saved -/
theorem saved_offset_monotone_concurrent (n : Nat) (sched : List Nat) :
    Monotone (runLocked n sched).history ∧ (runLocked n sched).saved ≤ (runLocked n sched).lastOffset ∧
    (∀ x, (runLocked n sched).history.getLast? = some x → (runLocked n sched).saved = x) :=
  let ⟨hm, _, hs, _, hl⟩ := runLocked_inv n sched
  ⟨hm, hs, hl⟩

/-- without the save mutex the saved offset can move backwards: thread 0 reads offset 1, thread 1 persists,
reads 2 and saves 2, then thread 0 saves its stale 1 -/
theorem unlocked_saved_offset_regresses :
    (runUnlocked 2 [0, 0, 1, 1, 1, 0]).history = [2, 1] ∧ (runUnlocked 2 [0, 0, 1, 1, 1, 0]).saved = 1 := by
  decide

/-- non-vacuity: the same schedule on the locked machine -/
example : (runLocked 2 [0, 0, 1, 1, 1, 0]).history = [1, 2] ∧ (runLocked 2 [0, 0, 1, 1, 1, 0]).saved = 2 := by
  decide

end Ebu.SaveConc

import Ebu.Spec.Conc
/-!
Invariants of the interleaving model, for every program, any number of threads and every
schedule (`Reachable` = reflexive-transitive closure of "some thread takes one step").
-/
namespace Ebu.Conc

/-! ### C02 — registry accounting and delivery within the snapshot -/

/-- no subscription is lost or duplicated: every registration ever created is either still
registered or was removed exactly once; registration identities are unique -/
theorem registry_accounting (progs : List (List Op)) (s : Sys) (h : Reachable progs s) :
    s.sh.regs.length + s.sh.removed = s.sh.nextRid ∧ (s.sh.regs.map (·.rid)).Nodup ∧
    ∀ r ∈ s.sh.regs, r.rid < s.sh.nextRid := by
  sorry

/-- a publish takes its snapshot from the registry as it is at that step: exactly the
registrations of the published type, in subscription order -/
theorem publish_takes_current_registry (sh : Shared) (th : Thread) (ty v : Nat) (ctx : Ctx) (prog : List Op)
    (hpc : th.pc = .op) (hfr : th.frames = []) (hprog : th.prog = .publish ty v ctx :: prog) :
    ∃ o f, step sh th = some o ∧ o.th.frames = [f] ∧ o.th.pc = .snap ∧ o.sh = sh ∧
      f.snapshot = sh.regs.filter (fun r => r.ty == ty) ∧ f.rest = f.snapshot ∧ f.v = v ∧ f.ty = ty := by
  sorry

/-- every activation only ever dispatches what is left of its own snapshot: the entries still
to be dispatched are a suffix of the snapshot (so each entry is dispatched at most once, in
order), and the snapshot holds registrations of the published type only -/
theorem dispatch_within_snapshot (progs : List (List Op)) (s : Sys) (h : Reachable progs s) :
    ∀ th ∈ s.ths, ∀ f ∈ th.frames, f.rest <:+ f.snapshot ∧ ∀ r ∈ f.snapshot, r.ty = f.ty ∧ r.rid < s.sh.nextRid := by
  sorry

/-! ### C04 — once handlers -/

/-- however the threads interleave, the handler of a Once registration is entered at most once -/
theorem once_at_most_once (progs : List (List Op)) (s : Sys) (h : Reachable progs s) (rid : Nat) :
    s.sh.enteredOnce.count rid ≤ 1 := by
  sorry

/-- … and only after its compare-and-swap succeeded -/
theorem once_entered_was_claimed (progs : List (List Op)) (s : Sys) (h : Reachable progs s) (rid : Nat)
    (he : rid ∈ s.sh.enteredOnce) : rid ∈ s.sh.executed := by
  sorry

/-- a delivery step whose filter rejects the event does not use the registration up -/
theorem filter_reject_not_consumed (sh : Shared) (th : Thread) (r : Reg) (f : Frame) (fs : List Frame) (o : Out)
    (hpc : th.pc = .filter r) (hfr : th.frames = f :: fs) (hrej : r.accepts f.v = false)
    (hstep : step sh th = some o) (hfresh : r.rid ∉ f.rest.map (·.rid)) (hno : r.rid ∉ sh.executed) :
    r.rid ∉ o.sh.executed := by
  sorry

/-- a delivery step that finds the publish context cancelled does not use the registration up -/
theorem cancelled_not_consumed (sh : Shared) (th : Thread) (r : Reg) (f : Frame) (fs : List Frame) (o : Out)
    (hpc : th.pc = .filter r) (hfr : th.frames = f :: fs) (hdead : sh.live f.ctx = false)
    (hstep : step sh th = some o) (hno : r.rid ∉ sh.executed) :
    o.sh.executed = sh.executed := by
  sorry

/-! ### C06 — the in-flight counter and Wait -/

/-- `bus.wg` counts exactly the async goroutines that exist and are not finished, plus those a
publisher has counted in and is about to start -/
theorem inflight_counts (progs : List (List Op)) (s : Sys) (h : Reachable progs s) :
    s.sh.inflight = liveJobs s + pendingSpawns s := by
  sorry

/-- `Wait` returns only when no async invocation is unfinished – whoever published it,
including handlers publishing from handlers -/
theorem wait_returns_only_when_idle (progs : List (List Op)) (s s' : Sys) (h : Reachable progs s) (i : Nat)
    (th : Thread) (prog : List Op) (hth : s.ths[i]? = some th) (hpc : th.pc = .op) (hfr : th.frames = [])
    (hprog : th.prog = .wait :: prog) (hstep : s.stepAt i = some s') :
    liveJobs s = 0 ∧ pendingSpawns s = 0 := by
  sorry

/-! ### C07 — sequential handlers -/

/-- invocations of a Sequential registration never overlap: at most one activation is inside it,
and exactly when its mutex is held -/
theorem seq_mutex (progs : List (List Op)) (s : Sys) (h : Reachable progs s) (rid : Nat) :
    sumNat (s.ths.map (inside rid)) = s.sh.held.count rid ∧ s.sh.held.count rid ≤ 1 := by
  sorry

/-- Async+Sequential: tickets are handed out 0,1,2,… in dispatch order … -/
theorem tickets_in_dispatch_order (progs : List (List Op)) (s : Sys) (h : Reachable progs s) (rid : Nat) :
    ticketsOf rid s.sh.issued = List.range (ticketsOf rid s.sh.issued).length := by
  sorry

/-- … and turns are taken 0,1,2,… in that same order: the k-th event dispatched to the
registration is the k-th one processed (publish order is preserved) -/
theorem turns_in_ticket_order (progs : List (List Op)) (s : Sys) (h : Reachable progs s) (rid : Nat) :
    ticketsOf rid s.sh.turns = List.range (ticketsOf rid s.sh.turns).length ∧
    (ticketsOf rid s.sh.turns).length ≤ (ticketsOf rid s.sh.issued).length := by
  sorry

end Ebu.Conc

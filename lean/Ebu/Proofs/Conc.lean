import Ebu.Spec.Conc
/-!
Invariants of the interleaving model, for every program, any number of threads and every
schedule (`Reachable` = reflexive-transitive closure of "some thread takes one step").
-/
namespace Ebu.Conc

namespace Inv

/-- every way the dispatch loop of one activation can arrive at its next yield point.
`PF`, `PC`, `PG` say which registration (and which remainder of the snapshot) the loop may stop at:
in a filter, at a once claim, and at a dispatch (`spawn`/`lock`/`enter`) respectively -/
inductive Shape (sh : Shared) (th : Thread) (f : Frame) (fs : List Frame)
    (PF PC PG : Reg → List Reg → Prop) : Out → Prop
  | ret (obs : List Obs) (hc : f.claimed = []) :
      Shape sh th f fs PF PC PG ⟨sh, { th with frames := fs, pc := .op }, [], obs⟩
  | retire (obs : List Obs) (hc : f.claimed ≠ []) :
      Shape sh th f fs PF PC PG ⟨sh, { th with frames := { f with rest := [] } :: fs, pc := .retire }, [], obs⟩
  | filter (obs : List Obs) (r : Reg) (rest' : List Reg) (hp : PF r rest') (hf : r.filt.isSome = true) :
      Shape sh th f fs PF PC PG ⟨sh, { th with frames := { f with rest := rest' } :: fs, pc := .filter r }, [], obs⟩
  | claimed (obs : List Obs) (r : Reg) (rest' : List Reg) (hp : PC r rest') (ho : r.once = true)
      (hne : r.rid ∉ sh.executed) (hl : sh.live f.ctx = true) :
      Shape sh th f fs PF PC PG
        ⟨{ sh with executed := r.rid :: sh.executed },
         { th with frames := { f with rest := rest', claimed := f.claimed ++ [r.rid] } :: fs, pc := .claimed r }, [], obs⟩
  | spawn (obs : List Obs) (r : Reg) (rest' : List Reg) (hp : PG r rest') (ha : r.async = true) :
      Shape sh th f fs PF PC PG
        ⟨{ sh with inflight := sh.inflight + 1, nextSpawn := sh.nextSpawn + 1,
                   tickets := if r.seq then setKV sh.tickets r.rid (lookupD sh.tickets r.rid + 1) else sh.tickets,
                   issued := if r.seq then sh.issued ++ [(r.rid, lookupD sh.tickets r.rid)] else sh.issued },
         { th with frames := { f with rest := rest' } :: fs, pc := .spawn r sh.nextSpawn (lookupD sh.tickets r.rid) }, [], obs⟩
  | lock (obs : List Obs) (r : Reg) (rest' : List Reg) (hp : PG r rest') (ha : r.async = false) (hs : r.seq = true)
      (hl : sh.live f.ctx = true) :
      Shape sh th f fs PF PC PG ⟨sh, { th with frames := { f with rest := rest' } :: fs, pc := .lock r false }, [], obs⟩
  | enter (obs : List Obs) (r : Reg) (rest' : List Reg) (hp : PG r rest') (ha : r.async = false) (hs : r.seq = false)
      (hl : sh.live f.ctx = true) :
      Shape sh th f fs PF PC PG
        ⟨sh.noteEnter r, { th with frames := { f with rest := rest', handler := some r, body := r.body } :: fs, pc := .enter r }, [], obs⟩

theorem Shape.mono {sh th f fs PF PC PG PF' PC' PG' o} (h : Shape sh th f fs PF PC PG o)
    (hF : ∀ r l, PF r l → PF' r l) (hC : ∀ r l, PC r l → PC' r l) (hG : ∀ r l, PG r l → PG' r l) :
    Shape sh th f fs PF' PC' PG' o := by
  cases h with
  | ret obs hc => exact .ret obs hc
  | retire obs hc => exact .retire obs hc
  | filter obs r rest' hp hf => exact .filter obs r rest' (hF _ _ hp) hf
  | claimed obs r rest' hp ho hne hl => exact .claimed obs r rest' (hC _ _ hp) ho hne hl
  | spawn obs r rest' hp ha => exact .spawn obs r rest' (hG _ _ hp) ha
  | lock obs r rest' hp ha hs hl => exact .lock obs r rest' (hG _ _ hp) ha hs hl
  | enter obs r rest' hp ha hs hl => exact .enter obs r rest' (hG _ _ hp) ha hs hl

/-- the loop only looks at `rest` of the activation: shapes transfer from `{ f with rest := l }` to `f` -/
theorem Shape.reframe {sh th f fs l PF PC PG o} (h : Shape sh th { f with rest := l } fs PF PC PG o) :
    Shape sh th f fs PF PC PG o := by
  cases h with
  | ret obs hc => exact .ret obs hc
  | retire obs hc => exact .retire obs hc
  | filter obs r rest' hp hf => exact .filter obs r rest' hp hf
  | claimed obs r rest' hp ho hne hl => exact .claimed obs r rest' hp ho hne hl
  | spawn obs r rest' hp ha => exact .spawn obs r rest' hp ha
  | lock obs r rest' hp ha hs hl => exact .lock obs r rest' hp ha hs hl
  | enter obs r rest' hp ha hs hl => exact .enter obs r rest' hp ha hs hl

def Suf (l : List Reg) (r : Reg) (rest' : List Reg) : Prop := r :: rest' <:+ l

theorem shape_all (fuel : Nat) : ∀ (sh : Shared) (th : Thread) (f : Frame) (fs : List Frame) (obs : List Obs),
    (3 * f.rest.length + 1 ≤ fuel →
      Shape sh th f fs (Suf f.rest) (Suf f.rest) (fun r l => Suf f.rest r l ∧ r.once = false)
        (dispatch sh th f fs obs fuel)) ∧
    (∀ r0, 3 * f.rest.length + 3 ≤ fuel →
      Shape sh th f fs (Suf f.rest) (fun r l => (r = r0 ∧ l = f.rest) ∨ Suf f.rest r l)
        (fun r l => ((r = r0 ∧ l = f.rest) ∨ Suf f.rest r l) ∧ r.once = false)
        (afterFilter sh th f fs r0 obs fuel)) ∧
    (∀ r0, 3 * f.rest.length + 2 ≤ fuel →
      Shape sh th f fs (Suf f.rest) (Suf f.rest)
        (fun r l => (r = r0 ∧ l = f.rest) ∨ (Suf f.rest r l ∧ r.once = false))
        (afterClaim sh th f fs r0 obs fuel)) := by
  induction fuel with
  | zero =>
    intro sh th f fs obs
    refine ⟨fun h => by omega, fun _ h => by omega, fun _ h => by omega⟩
  | succ fuel ih =>
    intro sh th f fs obs
    refine ⟨?_, ?_, ?_⟩
    · intro hfuel
      unfold dispatch
      split
      · rename_i hrest
        split
        · rename_i hc
          exact .ret _ (by simpa using hc)
        · rename_i hc
          have : f = { f with rest := [] } := by cases f; simp_all
          rw [this]
          exact .retire _ (by simpa using hc)
      · rename_i r rest hrest
        have hsuf : ∀ r' l, Suf rest r' l → Suf f.rest r' l := by
          intro r' l h; rw [hrest]; exact List.IsSuffix.trans h (List.suffix_cons _ _)
        split
        · exact .filter _ r rest (by simp [Suf, hrest]) (by simp_all)
        · have h2 := ((ih sh th { f with rest := rest } fs obs).2.1 r (by simp [hrest] at hfuel ⊢; omega))
          refine (Shape.reframe h2).mono ?_ ?_ ?_
          · exact hsuf
          · rintro r' l (⟨rfl, rfl⟩ | h)
            · simp [Suf, hrest]
            · exact hsuf _ _ h
          · rintro r' l ⟨(⟨rfl, rfl⟩ | h), ho⟩
            · exact ⟨by simp [Suf, hrest], ho⟩
            · exact ⟨hsuf _ _ h, ho⟩
    · intro r0 hfuel
      unfold afterFilter
      split
      · exact ((ih sh th f fs obs).1 (by omega)).mono (fun _ _ h => h) (fun _ _ h => .inr h) (fun _ _ h => ⟨.inr h.1, h.2⟩)
      · split
        · split
          · exact ((ih sh th f fs obs).1 (by omega)).mono (fun _ _ h => h) (fun _ _ h => .inr h) (fun _ _ h => ⟨.inr h.1, h.2⟩)
          · rename_i hl ho hex
            exact .claimed obs r0 f.rest (.inl ⟨rfl, rfl⟩) ho (by simpa using hex) (by simpa using hl)
        · rename_i hl ho
          exact ((ih sh th f fs obs).2.2 r0 (by omega)).mono (fun _ _ h => h) (fun _ _ h => .inr h)
            (fun r l h => by
              rcases h with ⟨rfl, rfl⟩ | ⟨h, ho'⟩
              · exact ⟨.inl ⟨rfl, rfl⟩, by simpa using ho⟩
              · exact ⟨.inr h, ho'⟩)
    · intro r0 hfuel
      unfold afterClaim
      split
      · rename_i ha
        exact .spawn obs r0 f.rest (.inl ⟨rfl, rfl⟩) ha
      · rename_i ha
        split
        · exact ((ih sh th f fs obs).1 (by omega)).mono (fun _ _ h => h) (fun _ _ h => h) (fun _ _ h => .inr h)
        · rename_i hl
          split
          · rename_i hs
            exact .lock obs r0 f.rest (.inl ⟨rfl, rfl⟩) (by simpa using ha) hs (by simpa using hl)
          · rename_i hs
            exact .enter _ r0 f.rest (.inl ⟨rfl, rfl⟩) (by simpa using ha) (by simpa using hs) (by simpa using hl)


/-- the loop started at `dispatch` -/
abbrev DShape (sh : Shared) (th : Thread) (f : Frame) (fs : List Frame) : Out → Prop :=
  Shape sh th f fs (Suf f.rest) (Suf f.rest) (fun r l => Suf f.rest r l ∧ r.once = false)

/-- the loop started at `afterFilter r0` -/
abbrev FShape (sh : Shared) (th : Thread) (f : Frame) (fs : List Frame) (r0 : Reg) : Out → Prop :=
  Shape sh th f fs (Suf f.rest) (fun r l => (r = r0 ∧ l = f.rest) ∨ Suf f.rest r l)
    (fun r l => ((r = r0 ∧ l = f.rest) ∨ Suf f.rest r l) ∧ r.once = false)

/-- the loop started at `afterClaim r0` -/
abbrev CShape (sh : Shared) (th : Thread) (f : Frame) (fs : List Frame) (r0 : Reg) : Out → Prop :=
  Shape sh th f fs (Suf f.rest) (Suf f.rest) (fun r l => (r = r0 ∧ l = f.rest) ∨ (Suf f.rest r l ∧ r.once = false))

theorem dispatch_shape (sh th f fs obs) (g : Frame) (hg : g.rest = f.rest) :
    DShape sh th f fs (dispatch sh th f fs obs (fuelFor g)) :=
  (shape_all _ sh th f fs obs).1 (by simp only [fuelFor, hg]; omega)

theorem afterFilter_shape (sh th f fs obs r0) :
    FShape sh th f fs r0 (afterFilter sh th f fs r0 obs (fuelFor f)) :=
  (shape_all _ sh th f fs obs).2.1 r0 (by simp only [fuelFor]; omega)

theorem afterClaim_shape (sh th f fs obs r0) :
    CShape sh th f fs r0 (afterClaim sh th f fs r0 obs (fuelFor f)) :=
  (shape_all _ sh th f fs obs).2.2 r0 (by simp only [fuelFor]; omega)

/-- `step` as a relation: one constructor per way a thread can move -/
inductive StepR (sh : Shared) (th : Thread) : Out → Prop
  | bodyPub (f : Frame) (fs : List Frame) (ty v : Nat) (more : List (Nat × Nat))
      (hpc : th.pc = .op) (hfr : th.frames = f :: fs) (hb : f.body = (ty, v) :: more) :
      StepR sh th ⟨sh, { th with frames := newFrame sh ty v .bg :: { f with body := more } :: fs, pc := .snap }, [], []⟩
  | bodyEnd (f : Frame) (fs : List Frame) (r : Reg)
      (hpc : th.pc = .op) (hfr : th.frames = f :: fs) (hb : f.body = []) (hh : f.handler = some r) :
      StepR sh th ⟨sh, { th with pc := .exit r }, [], [.exit r.rid]⟩
  | fin (hpc : th.pc = .op) (hfr : th.frames = []) (hp : th.prog = []) :
      StepR sh th ⟨sh, { th with pc := .done }, [], [.fin]⟩
  | subscribe (ty hid : Nat) (once async seq : Bool) (filt : Option (Nat × Nat)) (body : List (Nat × Nat)) (prog : List Op)
      (hpc : th.pc = .op) (hfr : th.frames = []) (hp : th.prog = .subscribe ty hid once async seq filt body :: prog) :
      StepR sh th ⟨{ sh with regs := sh.regs ++ [⟨sh.nextRid, ty, hid, once, async, seq, filt, body⟩], nextRid := sh.nextRid + 1 },
        { th with prog := prog }, [], [.ret]⟩
  | unsubscribe (ty hid : Nat) (prog : List Op)
      (hpc : th.pc = .op) (hfr : th.frames = []) (hp : th.prog = .unsubscribe ty hid :: prog) :
      StepR sh th ⟨{ sh with regs := eraseFirst (fun r => r.ty == ty && r.hid == hid) sh.regs,
                             removed := sh.removed + (sh.regs.length - (eraseFirst (fun r => r.ty == ty && r.hid == hid) sh.regs).length) },
        { th with prog := prog }, [], [.unsub ty hid (sh.regs.any (fun r => r.ty == ty && r.hid == hid)), .ret]⟩
  | clear (ty : Nat) (prog : List Op)
      (hpc : th.pc = .op) (hfr : th.frames = []) (hp : th.prog = .clear ty :: prog) :
      StepR sh th ⟨{ sh with regs := sh.regs.filter (fun r => r.ty != ty),
                             removed := sh.removed + (sh.regs.length - (sh.regs.filter (fun r => r.ty != ty)).length) },
        { th with prog := prog }, [], [.ret]⟩
  | cancel (k : Nat) (prog : List Op)
      (hpc : th.pc = .op) (hfr : th.frames = []) (hp : th.prog = .cancel k :: prog) :
      StepR sh th ⟨{ sh with cancelled := k :: sh.cancelled }, { th with prog := prog }, [], [.ret]⟩
  | count (ty : Nat) (prog : List Op)
      (hpc : th.pc = .op) (hfr : th.frames = []) (hp : th.prog = .count ty :: prog) :
      StepR sh th ⟨sh, { th with prog := prog }, [], [.count ty (sh.regs.filter (fun r => r.ty == ty)).length, .ret]⟩
  | wait (prog : List Op)
      (hpc : th.pc = .op) (hfr : th.frames = []) (hp : th.prog = .wait :: prog) (hidle : sh.inflight = 0) :
      StepR sh th ⟨sh, { th with prog := prog }, [], [.ret]⟩
  | publish (ty v : Nat) (ctx : Ctx) (prog : List Op)
      (hpc : th.pc = .op) (hfr : th.frames = []) (hp : th.prog = .publish ty v ctx :: prog) :
      StepR sh th ⟨sh, { th with prog := prog, frames := [newFrame sh ty v ctx], pc := .snap }, [], []⟩
  | snap (f : Frame) (fs : List Frame) (o : Out) (hpc : th.pc = .snap) (hfr : th.frames = f :: fs)
      (hsh : DShape sh th f fs o) : StepR sh th o
  | filterAcc (r : Reg) (f : Frame) (fs : List Frame) (o : Out) (hpc : th.pc = .filter r) (hfr : th.frames = f :: fs)
      (hacc : r.accepts f.v = true) (hsh : FShape sh th f fs r o) : StepR sh th o
  | filterRej (r : Reg) (f : Frame) (fs : List Frame) (o : Out) (hpc : th.pc = .filter r) (hfr : th.frames = f :: fs)
      (hrej : r.accepts f.v = false) (hsh : DShape sh th f fs o) : StepR sh th o
  | claimed (r : Reg) (f : Frame) (fs : List Frame) (o : Out) (hpc : th.pc = .claimed r) (hfr : th.frames = f :: fs)
      (hsh : CShape sh th f fs r o) : StepR sh th o
  | spawn (r : Reg) (n t : Nat) (f : Frame) (fs : List Frame) (o : Out) (hpc : th.pc = .spawn r n t) (hfr : th.frames = f :: fs)
      (hsh : DShape sh th f fs o) :
      StepR sh th { o with new := [{ pc := .astart, job := some ⟨r, f.ty, f.v, f.ctx, t, n⟩ }] }
  | lock (r : Reg) (a : Bool) (f : Frame) (fs : List Frame) (hpc : th.pc = .lock r a) (hfr : th.frames = f :: fs)
      (hfree : r.rid ∉ sh.held) (hl : sh.live f.ctx = true) :
      StepR sh th ⟨{ sh.noteEnter r with held := r.rid :: sh.held },
        { th with frames := { f with handler := some r, body := r.body } :: fs, pc := .enter r }, [], [.enter r.rid f.ty f.v a]⟩
  | lockDeadJob (r : Reg) (a : Bool) (j : Job) (f : Frame) (hpc : th.pc = .lock r a) (hj : th.job = some j) (hfr : th.frames = [f])
      (hfree : r.rid ∉ sh.held) (hl : sh.live f.ctx = false) :
      StepR sh th
        ⟨{ sh with serving := if j.reg.seq then setKV sh.serving j.reg.rid (lookupD sh.serving j.reg.rid + 1) else sh.serving },
         { th with frames := [], pc := .aend }, [], []⟩
  | lockDeadSync (r : Reg) (a : Bool) (f : Frame) (fs : List Frame) (o : Out) (hpc : th.pc = .lock r a) (hfr : th.frames = f :: fs)
      (hj : th.job = none ∨ fs ≠ []) (hfree : r.rid ∉ sh.held) (hl : sh.live f.ctx = false)
      (hsh : DShape sh th f fs o) : StepR sh th o
  | enterPub (r : Reg) (f : Frame) (fs : List Frame) (ty v : Nat) (more : List (Nat × Nat))
      (hpc : th.pc = .enter r) (hfr : th.frames = f :: fs) (hb : f.body = (ty, v) :: more) :
      StepR sh th ⟨sh, { th with frames := newFrame sh ty v .bg :: { f with body := more } :: fs, pc := .snap }, [], []⟩
  | enterEnd (r : Reg) (f : Frame) (fs : List Frame)
      (hpc : th.pc = .enter r) (hfr : th.frames = f :: fs) (hb : f.body = []) :
      StepR sh th ⟨sh, { th with pc := .exit r }, [], [.exit r.rid]⟩
  | exitJob (r : Reg) (j : Job) (f : Frame) (hpc : th.pc = .exit r) (hj : th.job = some j) (hfr : th.frames = [f]) :
      StepR sh th
        ⟨{ sh with held := if r.seq then sh.held.erase r.rid else sh.held,
                   serving := if j.reg.seq then setKV sh.serving j.reg.rid (lookupD sh.serving j.reg.rid + 1) else sh.serving },
         { th with frames := [], pc := .aend }, [], []⟩
  | exit (r : Reg) (f : Frame) (fs : List Frame) (o : Out) (hpc : th.pc = .exit r) (hfr : th.frames = f :: fs)
      (hj : th.job = none ∨ fs ≠ [])
      (hsh : DShape { sh with held := if r.seq then sh.held.erase r.rid else sh.held } th { f with handler := none, body := [] } fs o) :
      StepR sh th o
  | retire (f : Frame) (fs : List Frame) (hpc : th.pc = .retire) (hfr : th.frames = f :: fs) :
      StepR sh th
        ⟨{ sh with regs := f.claimed.foldl (fun regs c => eraseFirst (fun h => h.rid == c) regs) sh.regs,
                   removed := sh.removed + (sh.regs.length - (f.claimed.foldl (fun regs c => eraseFirst (fun h => h.rid == c) regs) sh.regs).length) },
         { th with frames := { f with claimed := [] } :: fs, pc := .retired }, [], []⟩
  | retired (f : Frame) (fs : List Frame) (hpc : th.pc = .retired) (hfr : th.frames = f :: fs) :
      StepR sh th ⟨sh, { th with frames := fs, pc := .op }, [], [.ret]⟩
  | astartSeq (j : Job) (hpc : th.pc = .astart) (hj : th.job = some j) (hs : j.reg.seq = true) :
      StepR sh th ⟨sh, { th with pc := .turn }, [], []⟩
  | astartDead (j : Job) (hpc : th.pc = .astart) (hj : th.job = some j) (hs : j.reg.seq = false) (hl : sh.live j.ctx = false) :
      StepR sh th ⟨sh, { th with pc := .aend }, [], []⟩
  | astartRun (j : Job) (hpc : th.pc = .astart) (hj : th.job = some j) (hs : j.reg.seq = false) (hl : sh.live j.ctx = true) :
      StepR sh th ⟨sh.noteEnter j.reg, { th with frames := [jobFrame j true], pc := .enter j.reg }, [], [.enter j.reg.rid j.ty j.v true]⟩
  | turnDead (j : Job) (hpc : th.pc = .turn) (hj : th.job = some j) (hturn : lookupD sh.serving j.reg.rid = j.ticket)
      (hl : sh.live j.ctx = false) :
      StepR sh th
        ⟨{ sh with turns := sh.turns ++ [(j.reg.rid, j.ticket)],
                   serving := setKV sh.serving j.reg.rid (lookupD sh.serving j.reg.rid + 1) }, { th with pc := .aend }, [], []⟩
  | turnRun (j : Job) (hpc : th.pc = .turn) (hj : th.job = some j) (hturn : lookupD sh.serving j.reg.rid = j.ticket)
      (hl : sh.live j.ctx = true) :
      StepR sh th ⟨{ sh with turns := sh.turns ++ [(j.reg.rid, j.ticket)] },
        { th with frames := [jobFrame j false], pc := .lock j.reg true }, [], []⟩
  | aend (hpc : th.pc = .aend) : StepR sh th ⟨{ sh with inflight := sh.inflight - 1 }, { th with pc := .done }, [], [.fin]⟩

theorem Shape.new_nil {sh th f fs PF PC PG o} (h : Shape sh th f fs PF PC PG o) : o.new = [] := by
  cases h <;> rfl

theorem stepR_of_step {sh : Shared} {th : Thread} {o : Out} (h : step sh th = some o) : StepR sh th o := by
  unfold step at h
  split at h
  · cases h
  rename_i hen
  split at h
  · cases h
  · -- op
    rename_i hpc
    split at h
    · rename_i f fs hfr
      split at h
      · rename_i hb; cases h; exact .bodyPub _ _ _ _ _ hpc hfr (by simp_all)
      · cases h; exact .bodyEnd _ _ _ hpc hfr (by simp_all) (by simp_all)
      · cases h
    · rename_i hfr
      split at h
      · rename_i hp; cases h; exact .fin hpc hfr hp
      · rename_i op prog hp
        split at h
        · cases h; exact .subscribe _ _ _ _ _ _ _ _ hpc hfr hp
        · cases h; exact .unsubscribe _ _ _ hpc hfr hp
        · cases h; exact .clear _ _ hpc hfr hp
        · cases h; exact .cancel _ _ hpc hfr hp
        · cases h; exact .count _ _ hpc hfr hp
        · cases h; exact .wait _ hpc hfr hp (by simpa [enabled, hpc, hfr, hp] using hen)
        · cases h; exact .publish _ _ _ _ hpc hfr hp
  · -- snap
    rename_i hpc
    split at h
    · rename_i f fs hfr; cases h; exact .snap f fs _ hpc hfr (dispatch_shape _ _ _ _ _ f rfl)
    · cases h
  · -- filter
    rename_i r hpc
    split at h
    · rename_i f fs hfr
      split at h
      · rename_i hacc; cases h; exact .filterAcc r f fs _ hpc hfr hacc (afterFilter_shape _ _ _ _ _ _)
      · rename_i hacc; cases h; exact .filterRej r f fs _ hpc hfr (by simpa using hacc) (dispatch_shape _ _ _ _ _ f rfl)
    · cases h
  · -- claimed
    rename_i r hpc
    split at h
    · rename_i f fs hfr; cases h; exact .claimed r f fs _ hpc hfr (afterClaim_shape _ _ _ _ _ _)
    · cases h
  · -- spawn
    rename_i r n t hpc
    split at h
    · rename_i f fs hfr
      cases h
      have hs := dispatch_shape sh th f fs [.spawned n] f rfl
      have := StepR.spawn r n t f fs _ hpc hfr hs
      simpa [hs.new_nil] using this
    · cases h
  · -- lock
    rename_i r a hpc
    split at h
    · rename_i f fs hfr
      have hfree : r.rid ∉ sh.held := by simpa [enabled, hpc] using hen
      split at h
      · rename_i hl
        have hl' : sh.live f.ctx = false := by simpa using hl
        split at h
        · rename_i j hj; cases h
          have := StepR.lockDeadJob (sh := sh) r a j f hpc hj hfr hfree hl'
          by_cases hjs : j.reg.seq = true
          · simpa [hjs] using this
          · cases sh; simpa [hjs] using this
        · rename_i hne; cases h
          refine .lockDeadSync r a f _ _ hpc hfr ?_ hfree hl' (dispatch_shape _ _ _ _ _ f rfl)
          cases hj : th.job with
          | none => exact .inl rfl
          | some j => exact .inr (fun h => hne j hj h)
      · rename_i hl; cases h
        exact .lock r a f fs hpc hfr hfree (by simpa using hl)
    · cases h
  · -- enter
    rename_i r hpc
    split at h
    · rename_i f fs hfr
      split at h
      · rename_i hb; cases h; exact .enterPub r f fs _ _ _ hpc hfr hb
      · rename_i hb; cases h; exact .enterEnd r f fs hpc hfr hb
    · cases h
  · -- exit
    rename_i r hpc
    have key : ∀ sh1 : Shared, sh1 = { sh with held := if r.seq then sh.held.erase r.rid else sh.held } →
        (match th.job, th.frames with
          | some j, [_] =>
            some (⟨if j.reg.seq then { sh1 with serving := setKV sh1.serving j.reg.rid (lookupD sh1.serving j.reg.rid + 1) } else sh1,
              { th with frames := [], pc := .aend }, [], []⟩ : Out)
          | _, f :: fs => some (dispatch sh1 th { f with handler := none, body := [] } fs [] (fuelFor f))
          | _, [] => none) = some o → StepR sh th o := by
      intro sh1 hsh1 h
      subst hsh1
      split at h
      · rename_i j f hj hfr; cases h
        have := StepR.exitJob (sh := sh) r j f hpc hj hfr
        by_cases hjs : j.reg.seq = true <;> simpa [hjs] using this
      · rename_i f fs hfr hne; cases h
        refine .exit r f fs _ hpc hfr ?_ (dispatch_shape _ _ _ _ _ f rfl)
        cases hj : th.job with
        | none => exact .inl rfl
        | some j => exact .inr (fun h => hne j hj h)
      · cases h
    split at h
    · rename_i hs; exact key _ (by simp [hs]) h
    · rename_i hs; exact key _ (by cases sh; simp [hs]) h
  · -- retire
    rename_i hpc
    split at h
    · rename_i f fs hfr; cases h; exact .retire f fs hpc hfr
    · cases h
  · -- retired
    rename_i hpc
    split at h
    · rename_i f fs hfr; cases h; exact .retired f fs hpc hfr
    · cases h
  · -- astart
    rename_i hpc
    split at h
    · rename_i j hj
      split at h
      · rename_i hs; cases h; exact .astartSeq j hpc hj hs
      · rename_i hs
        split at h
        · rename_i hl; cases h; exact .astartDead j hpc hj (by simpa using hs) (by simpa using hl)
        · rename_i hl; cases h; exact .astartRun j hpc hj (by simpa using hs) (by simpa using hl)
    · cases h
  · -- turn
    rename_i hpc
    split at h
    · rename_i j hj
      have hturn : lookupD sh.serving j.reg.rid = j.ticket := by simpa [enabled, hpc, hj] using hen
      dsimp only at h
      split at h
      · rename_i hl; cases h; exact .turnDead j hpc hj hturn (by simpa [Shared.live] using hl)
      · rename_i hl; cases h; exact .turnRun j hpc hj hturn (by simpa [Shared.live] using hl)
    · cases h
  · -- aend
    rename_i hpc
    cases h; exact .aend hpc


theorem stepAt_cases {s s' : Sys} {i : Nat} (h : s.stepAt i = some s') :
    ∃ th o, s.ths[i]? = some th ∧ StepR s.sh th o ∧ s' = { sh := o.sh, ths := s.ths.set i o.th ++ o.new } := by
  unfold Sys.stepAt at h
  split at h
  · cases h
  · rename_i th hth
    split at h
    · cases h
    · rename_i o ho
      cases h
      exact ⟨th, o, hth, stepR_of_step ho, rfl⟩

/-- induction over the reachable states, with `step` presented as the relation `StepR` -/
theorem reach_ind {progs : List (List Op)} {P : Sys → Prop} (h0 : P (initSys progs))
    (hs : ∀ (s : Sys) (i : Nat) (th : Thread) (o : Out), Reachable progs s → P s → s.ths[i]? = some th → StepR s.sh th o →
      P { sh := o.sh, ths := s.ths.set i o.th ++ o.new }) :
    ∀ s, Reachable progs s → P s := by
  intro s h
  induction h with
  | init => exact h0
  | step hr hst ih =>
    obtain ⟨th, o, hth, hR, rfl⟩ := stepAt_cases hst
    exact hs _ _ _ _ hr ih hth hR


/-! #### projections of `noteEnter` -/
section
variable (s : Shared) (r : Reg)
@[simp] theorem noteEnter_regs : (s.noteEnter r).regs = s.regs := by unfold Shared.noteEnter; split <;> rfl
@[simp] theorem noteEnter_nextRid : (s.noteEnter r).nextRid = s.nextRid := by unfold Shared.noteEnter; split <;> rfl
@[simp] theorem noteEnter_executed : (s.noteEnter r).executed = s.executed := by unfold Shared.noteEnter; split <;> rfl
@[simp] theorem noteEnter_cancelled : (s.noteEnter r).cancelled = s.cancelled := by unfold Shared.noteEnter; split <;> rfl
@[simp] theorem noteEnter_inflight : (s.noteEnter r).inflight = s.inflight := by unfold Shared.noteEnter; split <;> rfl
@[simp] theorem noteEnter_held : (s.noteEnter r).held = s.held := by unfold Shared.noteEnter; split <;> rfl
@[simp] theorem noteEnter_tickets : (s.noteEnter r).tickets = s.tickets := by unfold Shared.noteEnter; split <;> rfl
@[simp] theorem noteEnter_serving : (s.noteEnter r).serving = s.serving := by unfold Shared.noteEnter; split <;> rfl
@[simp] theorem noteEnter_nextSpawn : (s.noteEnter r).nextSpawn = s.nextSpawn := by unfold Shared.noteEnter; split <;> rfl
@[simp] theorem noteEnter_removed : (s.noteEnter r).removed = s.removed := by unfold Shared.noteEnter; split <;> rfl
@[simp] theorem noteEnter_issued : (s.noteEnter r).issued = s.issued := by unfold Shared.noteEnter; split <;> rfl
@[simp] theorem noteEnter_turns : (s.noteEnter r).turns = s.turns := by unfold Shared.noteEnter; split <;> rfl
theorem noteEnter_enteredOnce :
    (s.noteEnter r).enteredOnce = if r.once then r.rid :: s.enteredOnce else s.enteredOnce := by
  unfold Shared.noteEnter; split <;> rfl
end

/-! #### C02: the registry -/

theorem eraseFirst_sublist (p : Reg → Bool) (l : List Reg) : (eraseFirst p l).Sublist l := by
  induction l with
  | nil => exact .slnil
  | cons r rs ih =>
    unfold eraseFirst
    split
    · exact List.sublist_cons_self _ _
    · exact ih.cons_cons _

theorem retire_sublist (cl : List Nat) (l : List Reg) :
    (cl.foldl (fun regs c => eraseFirst (fun h => h.rid == c) regs) l).Sublist l := by
  induction cl generalizing l with
  | nil => exact List.Sublist.refl _
  | cons c cl ih => exact (ih _).trans (eraseFirst_sublist _ _)

/-- how one step can change the registry -/
inductive RegStep (sh sh' : Shared) : Prop
  | same (h1 : sh'.regs = sh.regs) (h2 : sh'.removed = sh.removed) (h3 : sh'.nextRid = sh.nextRid)
  | add (r : Reg) (h1 : sh'.regs = sh.regs ++ [r]) (hr : r.rid = sh.nextRid) (h2 : sh'.removed = sh.removed)
      (h3 : sh'.nextRid = sh.nextRid + 1)
  | del (h1 : sh'.regs.Sublist sh.regs) (h2 : sh'.removed = sh.removed + (sh.regs.length - sh'.regs.length))
      (h3 : sh'.nextRid = sh.nextRid)

theorem Shape.regStep {sh th f fs PF PC PG o} (h : Shape sh th f fs PF PC PG o) : RegStep sh o.sh := by
  cases h <;> exact .same (by simp) (by simp) (by simp)

theorem StepR.regStep {sh th o} (h : StepR sh th o) : RegStep sh o.sh := by
  cases h
  case subscribe => exact .add _ rfl rfl rfl rfl
  case unsubscribe => exact .del (eraseFirst_sublist _ _) rfl rfl
  case clear => exact .del List.filter_sublist rfl rfl
  case retire => exact .del (retire_sublist _ _) rfl rfl
  case snap hsh => exact hsh.regStep
  case filterAcc hsh => exact hsh.regStep
  case filterRej hsh => exact hsh.regStep
  case claimed hsh => exact hsh.regStep
  case spawn hsh => exact hsh.regStep
  case lockDeadSync hsh => exact hsh.regStep
  case exit hsh => cases hsh.regStep with | same h1 h2 h3 => exact .same h1 h2 h3 | add r h1 hr h2 h3 => exact .add r h1 hr h2 h3 | del h1 h2 h3 => exact .del h1 h2 h3
  all_goals exact .same (by simp) (by simp) (by simp)

def RegInv (sh : Shared) : Prop :=
  sh.regs.length + sh.removed = sh.nextRid ∧ (sh.regs.map (·.rid)).Nodup ∧ ∀ r ∈ sh.regs, r.rid < sh.nextRid

theorem RegInv.step {sh sh' : Shared} (hi : RegInv sh) (h : RegStep sh sh') : RegInv sh' := by
  obtain ⟨ha, hn, hb⟩ := hi
  cases h with
  | same h1 h2 h3 => simpa [RegInv, h1, h2, h3] using ⟨ha, hn, hb⟩
  | add r h1 hr h2 h3 =>
    refine ⟨by simp [h1, h2, h3]; omega, ?_, ?_⟩
    · rw [h1, List.map_append, List.nodup_append]
      refine ⟨hn, by simp, ?_⟩
      intro a ha' b hb' hab
      simp at hb' ha'
      obtain ⟨r', hr', rfl⟩ := ha'
      have := hb r' hr'
      omega
    · intro r' hr'
      rw [h1] at hr'
      simp at hr'
      rcases hr' with hr' | rfl
      · have := hb r' hr'; omega
      · omega
  | del h1 h2 h3 =>
    have hl := h1.length_le
    refine ⟨by rw [h2, h3]; omega, (h1.map _).nodup hn, ?_⟩
    intro r hr
    rw [h3]; exact hb r (h1.subset hr)

theorem regInv_reachable {progs : List (List Op)} : ∀ s, Reachable progs s → RegInv s.sh := by
  apply reach_ind
  · simp [RegInv, initSys]
  · intro s i th o _ hi _ hR
    exact hi.step hR.regStep


/-! #### C02: activations stay within their snapshot -/

/-- the weakest useful shape: the activation's `rest` only shrinks -/
abbrev WShape (sh : Shared) (th : Thread) (f : Frame) (fs : List Frame) : Out → Prop :=
  Shape sh th f fs (fun _ l => l <:+ f.rest) (fun _ l => l <:+ f.rest) (fun _ l => l <:+ f.rest)

theorem Suf.tail {l : List Reg} {r : Reg} {l' : List Reg} (h : Suf l r l') : l' <:+ l :=
  (List.suffix_cons _ _).trans h

theorem DShape.weak {sh th f fs o} (h : DShape sh th f fs o) : WShape sh th f fs o :=
  h.mono (fun _ _ h => h.tail) (fun _ _ h => h.tail) (fun _ _ h => h.1.tail)

theorem FShape.weak {sh th f fs r0 o} (h : FShape sh th f fs r0 o) : WShape sh th f fs o :=
  h.mono (fun _ _ h => h.tail) (fun _ _ h => by rcases h with ⟨_, rfl⟩ | h; exact List.suffix_refl _; exact h.tail)
    (fun _ _ h => by rcases h.1 with ⟨_, rfl⟩ | h; exact List.suffix_refl _; exact h.tail)

theorem CShape.weak {sh th f fs r0 o} (h : CShape sh th f fs r0 o) : WShape sh th f fs o :=
  h.mono (fun _ _ h => h.tail) (fun _ _ h => h.tail)
    (fun _ _ h => by rcases h with ⟨_, rfl⟩ | h; exact List.suffix_refl _; exact h.1.tail)

structure FrOK (n : Nat) (f : Frame) : Prop where
  suf : f.rest <:+ f.snapshot
  mem : ∀ r ∈ f.snapshot, r.ty = f.ty ∧ r.rid < n

theorem FrOK.mono {n m : Nat} {f : Frame} (h : FrOK n f) (hnm : n ≤ m) : FrOK m f :=
  ⟨h.1, fun r hr => ⟨(h.2 r hr).1, Nat.lt_of_lt_of_le (h.2 r hr).2 hnm⟩⟩

theorem newFrame_ok {sh : Shared} (hreg : ∀ r ∈ sh.regs, r.rid < sh.nextRid) (ty v : Nat) (ctx : Ctx) :
    FrOK sh.nextRid (newFrame sh ty v ctx) := by
  refine ⟨List.suffix_refl _, ?_⟩
  intro r hr
  simp [newFrame] at hr
  exact ⟨hr.2, hreg r hr.1⟩

theorem WShape.frames {sh th f fs o n} (h : WShape sh th f fs o) (hf : FrOK n f) (hfs : ∀ g ∈ fs, FrOK n g) :
    (∀ g ∈ o.th.frames, FrOK n g) ∧ o.sh.nextRid = sh.nextRid := by
  have key : ∀ f' : Frame, f'.rest <:+ f.rest → f'.snapshot = f.snapshot → f'.ty = f.ty → FrOK n f' := by
    intro f' h1 h2 h3
    exact ⟨h2 ▸ h1.trans hf.1, by rw [h2, h3]; exact hf.2⟩
  cases h
  case ret => exact ⟨hfs, rfl⟩
  all_goals
    refine ⟨?_, by simp⟩
    intro g hg
    simp only [List.mem_cons] at hg
    rcases hg with rfl | hg
    · apply key <;> simp [*]
    · exact hfs g hg

theorem StepR.frames {sh th o} (h : StepR sh th o) (hreg : ∀ r ∈ sh.regs, r.rid < sh.nextRid)
    (hth : ∀ g ∈ th.frames, FrOK sh.nextRid g) :
    (∀ g ∈ o.th.frames, FrOK sh.nextRid g) ∧ ∀ t ∈ o.new, t.frames = [] := by
  have upd : ∀ (f f' : Frame), FrOK sh.nextRid f → f'.rest = f.rest → f'.snapshot = f.snapshot → f'.ty = f.ty →
      FrOK sh.nextRid f' := by
    intro f f' h h1 h2 h3
    exact ⟨by rw [h1, h2]; exact h.1, by rw [h2, h3]; exact h.2⟩
  cases h
  case snap f fs hpc hfr hsh =>
    rw [hfr] at hth
    exact ⟨(hsh.weak.frames (hth _ (by simp)) (fun g hg => hth g (by simp [hg]))).1, by simp [hsh.new_nil]⟩
  case filterAcc r f fs hpc hfr hacc hsh =>
    rw [hfr] at hth
    exact ⟨(hsh.weak.frames (hth _ (by simp)) (fun g hg => hth g (by simp [hg]))).1, by simp [hsh.new_nil]⟩
  case filterRej r f fs hpc hfr hacc hsh =>
    rw [hfr] at hth
    exact ⟨(hsh.weak.frames (hth _ (by simp)) (fun g hg => hth g (by simp [hg]))).1, by simp [hsh.new_nil]⟩
  case claimed r f fs hpc hfr hsh =>
    rw [hfr] at hth
    exact ⟨(hsh.weak.frames (hth _ (by simp)) (fun g hg => hth g (by simp [hg]))).1, by simp [hsh.new_nil]⟩
  case spawn r n t f fs o hpc hfr hsh =>
    rw [hfr] at hth
    exact ⟨(hsh.weak.frames (hth _ (by simp)) (fun g hg => hth g (by simp [hg]))).1, by simp⟩
  case lockDeadSync r a f fs hpc hfr hj hfree hl hsh =>
    rw [hfr] at hth
    exact ⟨(hsh.weak.frames (hth _ (by simp)) (fun g hg => hth g (by simp [hg]))).1, by simp [hsh.new_nil]⟩
  case exit r f fs hpc hfr hj hsh =>
    rw [hfr] at hth
    refine ⟨(hsh.weak.frames (n := sh.nextRid) (upd f _ (hth _ (by simp)) rfl rfl rfl) (fun g hg => hth g (by simp [hg]))).1,
      by simp [hsh.new_nil]⟩
  all_goals first
    | exact ⟨hth, by simp⟩
    | skip
  all_goals
    refine ⟨?_, by simp⟩
    simp only [List.forall_mem_cons, List.not_mem_nil, false_imp_iff, implies_true, and_true]
  all_goals (try and_intros)
  all_goals first
    | exact newFrame_ok hreg _ _ _
    | exact upd ‹Frame› _ (hth _ (by simp [*])) rfl rfl rfl
    | (intro g hg; exact hth g (by simp [*]))
    | exact ⟨by simp [jobFrame], by simp [jobFrame]⟩


theorem RegStep.nextRid_le {sh sh' : Shared} (h : RegStep sh sh') : sh.nextRid ≤ sh'.nextRid := by
  cases h <;> omega

theorem mem_step_cases {ths : List Thread} {i : Nat} {th' t : Thread} {new : List Thread}
    (h : t ∈ ths.set i th' ++ new) : t ∈ ths ∨ t = th' ∨ t ∈ new := by
  rcases List.mem_append.1 h with h | h
  · rcases List.mem_or_eq_of_mem_set h with h | h
    · exact .inl h
    · exact .inr (.inl h)
  · exact .inr (.inr h)

theorem snap_reachable {progs : List (List Op)} :
    ∀ s, Reachable progs s → ∀ th ∈ s.ths, ∀ f ∈ th.frames, FrOK s.sh.nextRid f := by
  apply reach_ind
  · intro th hth f hf
    simp [initSys] at hth
    obtain ⟨p, _, rfl⟩ := hth
    simp at hf
  · intro s i th o hr hi hth hR t ht f hf
    have hreg := (regInv_reachable s hr).2.2
    have hle := hR.regStep.nextRid_le
    have hfr := hR.frames hreg (hi th (List.mem_of_getElem? hth))
    rcases mem_step_cases ht with ht | rfl | ht
    · exact (hi t ht f hf).mono hle
    · exact (hfr.1 f hf).mono hle
    · rw [hfr.2 t ht] at hf; simp at hf


/-! #### structural facts about a single thread -/

/-- what the program counter says about the rest of the thread -/
def ThOK (th : Thread) : Prop :=
  match th.pc with
  | .snap | .filter _ | .claimed _ | .spawn _ _ _ | .retire | .retired =>
      (∃ f fs, th.frames = f :: fs ∧ f.handler = none) ∧ (th.job.isSome → 2 ≤ th.frames.length)
  | .lock r false =>
      r.seq = true ∧ (∃ f fs, th.frames = f :: fs ∧ f.handler = none) ∧ (th.job.isSome → 2 ≤ th.frames.length)
  | .lock r true => r.seq = true ∧ (∃ f fs, th.frames = f :: fs ∧ f.handler = none) ∧ ∃ j, th.job = some j ∧ j.reg = r
  | .enter r | .exit r => ∃ f fs, th.frames = f :: fs ∧ f.handler = some r
  | .op => th.job.isSome → th.frames ≠ []
  | .astart => (∃ j, th.job = some j) ∧ th.frames = []
  | .turn => (∃ j, th.job = some j ∧ j.reg.seq = true) ∧ th.frames = []
  | .aend => th.job.isSome ∧ th.frames = []
  | .done => True

theorem ThOK.lock {th : Thread} (hth : ThOK th) {r : Reg} {a : Bool} {f : Frame} {fs : List Frame}
    (hpc : th.pc = .lock r a) (hfr : th.frames = f :: fs) : r.seq = true ∧ f.handler = none := by
  cases a <;> simp only [ThOK, hpc, hfr] at hth
  · obtain ⟨hs, ⟨f', fs', h1', h2⟩, _⟩ := hth; cases h1'; exact ⟨hs, h2⟩
  · obtain ⟨hs, ⟨f', fs', h1', h2⟩, _⟩ := hth; cases h1'; exact ⟨hs, h2⟩

theorem Shape.thOK {sh th f fs PF PC PG o} (h : Shape sh th f fs PF PC PG o) (hf : f.handler = none)
    (hlen : th.job.isSome → fs ≠ []) : ThOK o.th := by
  have h2 : th.job.isSome → 2 ≤ (f :: fs).length := by
    intro hj; have := hlen hj
    cases fs with
    | nil => simp at this
    | cons _ _ => simp
  cases h <;> simp_all [ThOK]

theorem StepR.thOK {sh th o} (h : StepR sh th o) (hth : ThOK th) : ThOK o.th ∧ ∀ t ∈ o.new, ThOK t := by
  have len2 : ∀ (f : Frame) (fs : List Frame), 2 ≤ (f :: fs).length → fs ≠ [] := by
    intro f fs h; cases fs <;> simp at h ⊢
  cases h
  case snap f fs hpc hfr hsh =>
    simp only [ThOK, hpc, hfr] at hth
    obtain ⟨⟨f', fs', h1, h2⟩, h3⟩ := hth
    cases h1
    exact ⟨hsh.thOK h2 (fun hj => len2 _ _ (h3 hj)), by simp [hsh.new_nil]⟩
  case filterAcc r f fs hpc hfr hacc hsh =>
    simp only [ThOK, hpc, hfr] at hth
    obtain ⟨⟨f', fs', h1, h2⟩, h3⟩ := hth
    cases h1
    exact ⟨hsh.thOK h2 (fun hj => len2 _ _ (h3 hj)), by simp [hsh.new_nil]⟩
  case filterRej r f fs hpc hfr hacc hsh =>
    simp only [ThOK, hpc, hfr] at hth
    obtain ⟨⟨f', fs', h1, h2⟩, h3⟩ := hth
    cases h1
    exact ⟨hsh.thOK h2 (fun hj => len2 _ _ (h3 hj)), by simp [hsh.new_nil]⟩
  case claimed r f fs hpc hfr hsh =>
    simp only [ThOK, hpc, hfr] at hth
    obtain ⟨⟨f', fs', h1, h2⟩, h3⟩ := hth
    cases h1
    exact ⟨hsh.thOK h2 (fun hj => len2 _ _ (h3 hj)), by simp [hsh.new_nil]⟩
  case spawn r n t f fs o hpc hfr hsh =>
    simp only [ThOK, hpc, hfr] at hth
    obtain ⟨⟨f', fs', h1, h2⟩, h3⟩ := hth
    cases h1
    exact ⟨hsh.thOK h2 (fun hj => len2 _ _ (h3 hj)), by simp [ThOK]⟩
  case exit r f fs hpc hfr hj hsh =>
    refine ⟨hsh.thOK rfl ?_, by simp [hsh.new_nil]⟩
    intro hj'
    rcases hj with hj | hj
    · simp [hj] at hj'
    · exact hj
  case lockDeadSync r a f fs hpc hfr hj hfree hl hsh =>
    refine ⟨hsh.thOK (hth.lock hpc hfr).2 ?_, by simp [hsh.new_nil]⟩
    intro hj'
    rcases hj with hj | hj
    · simp [hj] at hj'
    · exact hj
  case retired f fs hpc hfr =>
    simp only [ThOK, hpc, hfr] at hth
    exact ⟨by simpa [ThOK] using fun hj => len2 _ _ (hth.2 hj), by simp⟩
  all_goals simp_all [ThOK, newFrame, jobFrame]


theorem thOK_reachable {progs : List (List Op)} : ∀ s, Reachable progs s → ∀ th ∈ s.ths, ThOK th := by
  apply reach_ind
  · intro th hth
    simp [initSys] at hth
    obtain ⟨p, _, rfl⟩ := hth
    simp [ThOK]
  · intro s i th o _ hi hth hR t ht
    have h := hR.thOK (hi th (List.mem_of_getElem? hth))
    rcases mem_step_cases ht with ht | rfl | ht
    · exact hi t ht
    · exact h.1
    · exact h.2 t ht

/-! #### sums of a per-thread weight over the thread list -/

def wsum (w : Thread → Nat) (l : List Thread) : Nat := (l.map w).sum

@[simp] theorem wsum_nil (w : Thread → Nat) : wsum w [] = 0 := rfl
@[simp] theorem wsum_cons (w : Thread → Nat) (a : Thread) (l : List Thread) : wsum w (a :: l) = w a + wsum w l := by
  simp [wsum]
@[simp] theorem wsum_append (w : Thread → Nat) (l l' : List Thread) : wsum w (l ++ l') = wsum w l + wsum w l' := by
  simp [wsum]

theorem wsum_set (w : Thread → Nat) {l : List Thread} {i : Nat} {a : Thread} (b : Thread) (h : l[i]? = some a) :
    wsum w (l.set i b) + w a = wsum w l + w b := by
  induction l generalizing i with
  | nil => simp at h
  | cons x xs ih =>
    cases i with
    | zero => simp at h; subst h; simp; omega
    | succ i => simp at h; have := ih h; simp; omega

theorem wsum_step (w : Thread → Nat) {l : List Thread} {i : Nat} {a : Thread} (b : Thread) (new : List Thread)
    (h : l[i]? = some a) : wsum w (l.set i b ++ new) + w a = wsum w l + w b + wsum w new := by
  have := wsum_set w b h
  simp; omega

theorem wsum_ge (w : Thread → Nat) {l : List Thread} {i : Nat} {a : Thread} (h : l[i]? = some a) : w a ≤ wsum w l := by
  have := wsum_set w a h
  induction l generalizing i with
  | nil => simp at h
  | cons x xs ih =>
    cases i with
    | zero => simp at h; subst h; simp
    | succ i => simp at h; have := ih h (wsum_set w a h); simp; omega

theorem countP_eq_wsum (p : Thread → Bool) (l : List Thread) : l.countP p = wsum (fun t => if p t then 1 else 0) l := by
  induction l with
  | nil => rfl
  | cons x xs ih => simp [List.countP_cons, ih]; omega

theorem sumNat_eq_sum (l : List Nat) : sumNat l = l.sum := by
  have : ∀ (l : List Nat) (a : Nat), l.foldl (· + ·) a = a + l.sum := by
    intro l; induction l with
    | nil => simp
    | cons x xs ih => intro a; simp [ih]; omega
  simp [sumNat, this]

theorem wsum_add (w w' : Thread → Nat) (l : List Thread) : wsum (fun t => w t + w' t) l = wsum w l + wsum w' l := by
  induction l with
  | nil => rfl
  | cons x xs ih => simp [ih]; omega

/-! #### C06: the in-flight counter -/

def isSpawn : Pc → Bool
  | .spawn _ _ _ => true
  | _ => false

/-- what a thread contributes to `bus.wg` -/
def wInfl (th : Thread) : Nat :=
  (if th.job.isSome && th.pc != .done then 1 else 0) + (if isSpawn th.pc then 1 else 0)

theorem infl_eq (s : Sys) : liveJobs s + pendingSpawns s = wsum wInfl s.ths := by
  have e : pendingSpawns s = s.ths.countP (fun th => isSpawn th.pc) := by
    unfold pendingSpawns; congr 1
  rw [e]
  unfold liveJobs wInfl
  rw [countP_eq_wsum, countP_eq_wsum, ← wsum_add]

theorem Shape.infl {sh th f fs PF PC PG o} (h : Shape sh th f fs PF PC PG o) :
    o.sh.inflight = sh.inflight + (if isSpawn o.th.pc then 1 else 0) ∧ o.th.job = th.job ∧ o.th.pc ≠ .done := by
  cases h <;> simp [isSpawn]

theorem StepR.infl {sh th o} (h : StepR sh th o) (hth : ThOK th) (hle : wInfl th ≤ sh.inflight) :
    o.sh.inflight + wInfl th = sh.inflight + wInfl o.th + wsum wInfl o.new := by
  cases h
  case snap f fs hpc hfr hsh =>
    obtain ⟨h1, h2, h3⟩ := hsh.infl
    simp [wInfl, hsh.new_nil, h1, h2, h3, hpc, isSpawn]; omega
  case filterAcc r f fs hpc hfr hacc hsh =>
    obtain ⟨h1, h2, h3⟩ := hsh.infl
    simp [wInfl, hsh.new_nil, h1, h2, h3, hpc, isSpawn]; omega
  case filterRej r f fs hpc hfr hacc hsh =>
    obtain ⟨h1, h2, h3⟩ := hsh.infl
    simp [wInfl, hsh.new_nil, h1, h2, h3, hpc, isSpawn]; omega
  case claimed r f fs hpc hfr hsh =>
    obtain ⟨h1, h2, h3⟩ := hsh.infl
    simp [wInfl, hsh.new_nil, h1, h2, h3, hpc, isSpawn]; omega
  case spawn r n t f fs o hpc hfr hsh =>
    obtain ⟨h1, h2, h3⟩ := hsh.infl
    simp [wInfl, h1, h2, h3, hpc, isSpawn]; omega
  case exit r f fs hpc hfr hj hsh =>
    obtain ⟨h1, h2, h3⟩ := hsh.infl
    simp [wInfl, hsh.new_nil, h1, h2, h3, hpc, isSpawn]; omega
  case lockDeadSync r a f fs hpc hfr hj hfree hl hsh =>
    obtain ⟨h1, h2, h3⟩ := hsh.infl
    simp [wInfl, hsh.new_nil, h1, h2, h3, hpc, isSpawn]; omega
  case aend hpc =>
    simp [ThOK, hpc] at hth
    simp [wInfl, hpc, isSpawn, hth] at hle ⊢
    omega
  case fin hpc hfr hp =>
    simp [ThOK, hpc, hfr] at hth
    simp [wInfl, isSpawn, hpc, hth]
  all_goals simp [wInfl, isSpawn, *]

theorem infl_reachable {progs : List (List Op)} : ∀ s, Reachable progs s → s.sh.inflight = wsum wInfl s.ths := by
  apply reach_ind
  · simp only [initSys]
    induction progs with
    | nil => rfl
    | cons p ps ih => simpa [wInfl, isSpawn] using ih
  · intro s i th o hr hi hth hR
    have hok := thOK_reachable s hr th (List.mem_of_getElem? hth)
    have hle : wInfl th ≤ s.sh.inflight := hi ▸ wsum_ge wInfl hth
    have h1 := hR.infl hok hle
    have h2 := wsum_step wInfl o.th o.new hth
    simp only
    omega


/-! #### C04: single delivery steps -/

theorem Shape.executed {sh th f fs PF PC PG o} (h : Shape sh th f fs PF PC PG o) :
    o.sh.executed = sh.executed ∨
      ∃ r l, PC r l ∧ sh.live f.ctx = true ∧ r.once = true ∧ r.rid ∉ sh.executed ∧ o.sh.executed = r.rid :: sh.executed := by
  cases h
  case claimed r l hp ho hne hl => exact .inr ⟨r, l, hp, hl, ho, hne, rfl⟩
  all_goals exact .inl (by simp)


/-! #### C04: a once handler is entered at most once -/

def onceBit (r : Reg) (rid : Nat) : Nat := if r.once = true ∧ r.rid = rid then 1 else 0

/-- is the thread on its way to the handler of the claimed once registration `rid`? -/
def carry (rid : Nat) (th : Thread) : Nat :=
  match th.pc with
  | .claimed r | .spawn r _ _ | .lock r _ => onceBit r rid
  | .astart | .turn => match th.job with
    | some j => onceBit j.reg rid
    | none => 0
  | _ => 0

def exBit (sh : Shared) (rid : Nat) : Nat := if rid ∈ sh.executed then 1 else 0

theorem Shape.once {sh th f fs PF PC PG o} (h : Shape sh th f fs PF PC PG o) (rid x : Nat)
    (hPG : ∀ r l, PG r l → onceBit r rid ≤ x) :
    o.sh.enteredOnce.count rid + carry rid o.th + exBit sh rid ≤ sh.enteredOnce.count rid + exBit o.sh rid + x := by
  cases h
  case claimed obs r l hp ho hne hl =>
    by_cases hr : r.rid = rid
    · subst hr; simp [carry, exBit, onceBit, ho, hne]
    · have : ¬ rid = r.rid := fun h => hr h.symm
      simp [carry, exBit, onceBit, hr, this]
  case spawn obs r l hp ha => have := hPG r l hp; simp [carry, exBit]; omega
  case lock obs r l hp ha hs hl => have := hPG r l hp; simp [carry, exBit]; omega
  case enter obs r l hp ha hs hl =>
    have := hPG r l hp
    simp only [carry, exBit, noteEnter_enteredOnce, noteEnter_executed]
    unfold onceBit at this
    split
    · rename_i ho
      by_cases hr : r.rid = rid
      · simp [ho, hr] at this ⊢; omega
      · simp [hr]
    · omega
  all_goals simp [carry, exBit]

theorem StepR.once {sh th o} (h : StepR sh th o) (rid : Nat) :
    o.sh.enteredOnce.count rid + carry rid o.th + wsum (carry rid) o.new + exBit sh rid ≤
      sh.enteredOnce.count rid + carry rid th + exBit o.sh rid := by
  cases h
  case snap f fs hpc hfr hsh =>
    have := hsh.once rid 0 (fun r l h => by simp [onceBit, h.2])
    have hc : carry rid th = 0 := by simp [carry, hpc]
    simp only [hsh.new_nil, wsum_nil, hc]; omega
  case filterAcc r f fs hpc hfr hacc hsh =>
    have := hsh.once rid 0 (fun r l h => by simp [onceBit, h.2])
    have hc : carry rid th = 0 := by simp [carry, hpc]
    simp only [hsh.new_nil, wsum_nil, hc]; omega
  case filterRej r f fs hpc hfr hacc hsh =>
    have := hsh.once rid 0 (fun r l h => by simp [onceBit, h.2])
    have hc : carry rid th = 0 := by simp [carry, hpc]
    simp only [hsh.new_nil, wsum_nil, hc]; omega
  case exit r f fs hpc hfr hj hsh =>
    have := hsh.once rid 0 (fun r l h => by simp [onceBit, h.2])
    have hc : carry rid th = 0 := by simp [carry, hpc]
    simp only [hsh.new_nil, wsum_nil, hc]
    simp only [exBit] at this ⊢; omega
  case claimed r0 f fs hpc hfr hsh =>
    have := hsh.once rid (onceBit r0 rid) (fun r l h => by
      rcases h with ⟨rfl, _⟩ | ⟨_, h⟩
      · exact Nat.le_refl _
      · simp [onceBit, h])
    have hc : carry rid th = onceBit r0 rid := by simp [carry, hpc]
    simp only [hsh.new_nil, wsum_nil, hc]; omega
  case spawn r0 n t f fs o hpc hfr hsh =>
    have := hsh.once rid 0 (fun r l h => by simp [onceBit, h.2])
    have hc : carry rid th = onceBit r0 rid := by simp [carry, hpc]
    have hg : ∀ j : Job, carry rid { pc := .astart, job := some j } = onceBit j.reg rid := fun j => rfl
    rw [hc]; simp only [wsum_cons, wsum_nil, hg]; omega
  case lockDeadSync r0 a f fs hpc hfr hj hfree hl hsh =>
    have := hsh.once rid 0 (fun r l h => by simp [onceBit, h.2])
    have hc : carry rid th = onceBit r0 rid := by simp [carry, hpc]
    simp only [hsh.new_nil, wsum_nil, hc]; omega
  case lock r a f fs hpc hfr hfree hl =>
    have hc : carry rid th = onceBit r rid := by simp [carry, hpc]
    rw [hc]; simp only [wsum_nil, carry, exBit, noteEnter_enteredOnce, noteEnter_executed]
    unfold onceBit
    by_cases ho : r.once = true <;> by_cases hr : r.rid = rid <;> simp [ho, hr]
  case astartRun j hpc hj hs hl =>
    have hc : carry rid th = onceBit j.reg rid := by simp [carry, hpc, hj]
    rw [hc]; simp only [wsum_nil, carry, exBit, noteEnter_enteredOnce, noteEnter_executed]
    unfold onceBit
    by_cases ho : j.reg.once = true <;> by_cases hr : j.reg.rid = rid <;> simp [ho, hr]
  all_goals simp [carry, exBit, *]


theorem once_reachable {progs : List (List Op)} :
    ∀ s, Reachable progs s → ∀ rid, s.sh.enteredOnce.count rid + wsum (carry rid) s.ths ≤ exBit s.sh rid := by
  apply reach_ind
  · intro rid
    have : wsum (carry rid) (initSys progs).ths = 0 := by
      simp only [initSys]
      induction progs with
      | nil => rfl
      | cons p ps ih => simpa [carry] using ih
    rw [this]; simp [initSys]
  · intro s i th o _ hi hth hR rid
    have h1 := hR.once rid
    have h2 := wsum_step (carry rid) o.th o.new hth
    have h3 := hi rid
    have h4 : exBit s.sh rid ≤ 1 := by unfold exBit; split <;> omega
    simp only
    omega


/-! #### C07: the sequential mutex -/

def insideF (rid : Nat) (f : Frame) : Bool :=
  match f.handler with
  | some r => r.seq && r.rid == rid
  | none => false

theorem inside_eq (rid : Nat) (th : Thread) : inside rid th = th.frames.countP (insideF rid) := by
  unfold inside; congr 1

theorem insideF_none {rid : Nat} {f : Frame} (h : f.handler = none) : insideF rid f = false := by
  simp [insideF, h]

theorem Shape.inside {sh th f fs PF PC PG o} (h : Shape sh th f fs PF PC PG o) (rid : Nat) (hf : f.handler = none) :
    inside rid o.th = fs.countP (insideF rid) ∧ o.sh.held = sh.held := by
  cases h <;> simp [inside_eq, insideF, *]

theorem StepR.inside {sh th o} (h : StepR sh th o) (rid : Nat) (hth : ThOK th)
    (hle : inside rid th ≤ sh.held.count rid) (h1 : sh.held.count rid ≤ 1) :
    (o.sh.held.count rid + inside rid th = sh.held.count rid + inside rid o.th + wsum (inside rid) o.new) ∧
    o.sh.held.count rid ≤ 1 := by
  cases h
  case snap f fs hpc hfr hsh =>
    simp only [ThOK, hpc, hfr] at hth
    obtain ⟨⟨f', fs', h1', h2⟩, h3⟩ := hth
    cases h1'
    obtain ⟨e1, e2⟩ := hsh.inside rid h2
    simp [hsh.new_nil, e1, e2, inside_eq, hfr, insideF_none h2, h1]
  case filterAcc r f fs hpc hfr hacc hsh =>
    simp only [ThOK, hpc, hfr] at hth
    obtain ⟨⟨f', fs', h1', h2⟩, h3⟩ := hth
    cases h1'
    obtain ⟨e1, e2⟩ := hsh.inside rid h2
    simp [hsh.new_nil, e1, e2, inside_eq, hfr, insideF_none h2, h1]
  case filterRej r f fs hpc hfr hacc hsh =>
    simp only [ThOK, hpc, hfr] at hth
    obtain ⟨⟨f', fs', h1', h2⟩, h3⟩ := hth
    cases h1'
    obtain ⟨e1, e2⟩ := hsh.inside rid h2
    simp [hsh.new_nil, e1, e2, inside_eq, hfr, insideF_none h2, h1]
  case claimed r f fs hpc hfr hsh =>
    simp only [ThOK, hpc, hfr] at hth
    obtain ⟨⟨f', fs', h1', h2⟩, h3⟩ := hth
    cases h1'
    obtain ⟨e1, e2⟩ := hsh.inside rid h2
    simp [hsh.new_nil, e1, e2, inside_eq, hfr, insideF_none h2, h1]
  case spawn r n t f fs o hpc hfr hsh =>
    simp only [ThOK, hpc, hfr] at hth
    obtain ⟨⟨f', fs', h1', h2⟩, h3⟩ := hth
    cases h1'
    obtain ⟨e1, e2⟩ := hsh.inside rid h2
    simp [e1, e2, inside_eq, hfr, insideF_none h2, h1]
  case exit r f fs hpc hfr hj hsh =>
    simp only [ThOK, hpc, hfr] at hth
    obtain ⟨f', fs', h1', h2⟩ := hth
    cases h1'
    obtain ⟨e1, e2⟩ := hsh.inside rid rfl
    simp only [hsh.new_nil, e1, e2, inside_eq, hfr, List.countP_cons, insideF, h2, wsum_nil] at hle ⊢
    by_cases hs : r.seq = true
    · by_cases hr : r.rid = rid
      · subst hr
        simp [hs] at hle ⊢
        omega
      · have hr' : rid ≠ r.rid := fun h => hr h.symm
        simp [hs, hr, List.count_erase_of_ne hr', h1]
    · simp [hs, h1]
  case exitJob r j f hpc hj hfr =>
    simp only [ThOK, hpc, hfr] at hth
    obtain ⟨f', fs', h1', h2⟩ := hth
    cases h1'
    simp only [inside_eq, hfr, List.countP_cons, insideF, h2, wsum_nil, List.countP_nil] at hle ⊢
    by_cases hs : r.seq = true
    · by_cases hr : r.rid = rid
      · subst hr
        simp [hs] at hle ⊢
        have := List.count_pos_iff.2 hle
        omega
      · have hr' : rid ≠ r.rid := fun h => hr h.symm
        simp [hs, hr, List.count_erase_of_ne hr', h1]
    · simp [hs, h1]
  case lockDeadJob r a j f hpc hj hfr hfree hl =>
    have hf := (hth.lock hpc hfr).2
    simp [inside_eq, hfr, insideF, hf, h1]
  case lockDeadSync r a f fs hpc hfr hj hfree hl hsh =>
    have hf := (hth.lock hpc hfr).2
    obtain ⟨e1, e2⟩ := hsh.inside rid hf
    simp [hsh.new_nil, e1, e2, inside_eq, hfr, insideF_none hf, h1]
  case lock r a f fs hpc hfr hfree hl =>
    have hseq : r.seq = true ∧ f.handler = none := hth.lock hpc hfr
    simp only [inside_eq, hfr, List.countP_cons, insideF, hseq.1, hseq.2, wsum_nil]
    by_cases hr : r.rid = rid
    · subst hr
      have : sh.held.count r.rid = 0 := List.count_eq_zero.2 hfree
      simp [this]; omega
    · simp [hr, h1]
  case bodyPub f fs ty v more hpc hfr hb =>
    have e1 : insideF rid { f with body := more } = insideF rid f := rfl
    have e2 : insideF rid (newFrame sh ty v .bg) = false := rfl
    simp [inside_eq, hfr, List.countP_cons, e1, e2, h1]
  case enterPub r f fs ty v more hpc hfr hb =>
    have e1 : insideF rid { f with body := more } = insideF rid f := rfl
    have e2 : insideF rid (newFrame sh ty v .bg) = false := rfl
    simp [inside_eq, hfr, List.countP_cons, e1, e2, h1]
  all_goals first
    | (simp [inside_eq, insideF, newFrame, jobFrame, *]; done)
    | (simp [ThOK, *] at hth; simp [inside_eq, insideF, jobFrame, *]; done)


theorem mutex_reachable {progs : List (List Op)} :
    ∀ s, Reachable progs s → ∀ rid, wsum (inside rid) s.ths = s.sh.held.count rid ∧ s.sh.held.count rid ≤ 1 := by
  apply reach_ind
  · intro rid
    have : wsum (inside rid) (initSys progs).ths = 0 := by
      simp only [initSys]
      induction progs with
      | nil => rfl
      | cons p ps ih => simpa [inside] using ih
    rw [this]; simp [initSys]
  · intro s i th o hr hi hth hR rid
    have hok := thOK_reachable s hr th (List.mem_of_getElem? hth)
    obtain ⟨h3, h4⟩ := hi rid
    have hle : inside rid th ≤ s.sh.held.count rid := h3 ▸ wsum_ge (inside rid) hth
    obtain ⟨h1, h1'⟩ := hR.inside rid hok hle h4
    have h2 := wsum_step (inside rid) o.th o.new hth
    simp only
    omega


/-! #### C07: tickets and turns -/

theorem lookupD_setKV (l : List (Nat × Nat)) (k v k' : Nat) :
    lookupD (setKV l k v) k' = if k' = k then v else lookupD l k' := by
  unfold lookupD setKV
  by_cases h : k' = k
  · subst h; simp
  · have hne : (k == k') = false := by simp; exact fun e => h e.symm
    simp only [List.find?_cons, hne, h, if_false]
    have : List.find? (fun p => p.1 == k') (List.filter (fun p => p.1 != k) l) = List.find? (fun p => p.1 == k') l := by
      induction l with
      | nil => rfl
      | cons x xs ih =>
        by_cases hx : x.1 = k
        · have : (x.1 == k') = false := by simp [hx]; exact fun e => h e.symm
          simp only [List.filter_cons, hx, bne_self_eq_false, Bool.false_eq_true, if_false, List.find?_cons, ih]
          rw [← hx, this]
        · simp only [List.filter_cons, bne_iff_ne, ne_eq, hx, not_false_eq_true, if_true, List.find?_cons, ih]
    rw [this]

theorem ticketsOf_append (rid : Nat) (l : List (Nat × Nat)) (k t : Nat) :
    ticketsOf rid (l ++ [(k, t)]) = ticketsOf rid l ++ (if k = rid then [t] else []) := by
  unfold ticketsOf
  by_cases h : k = rid <;> simp [List.filter_append, h]

/-- parked outside a handler invocation of its own: not started, waiting for its turn, or finished -/
def idle : Pc → Bool
  | .astart | .turn | .aend | .done => true
  | _ => false

/-- does the thread hold ticket `t` of the Sequential registration `rid` without having taken its turn? -/
def hold (rid t : Nat) (th : Thread) : Nat :=
  match th.pc with
  | .spawn r _ t' => if r.seq = true ∧ r.rid = rid ∧ t' = t then 1 else 0
  | .astart | .turn => match th.job with
    | some j => if j.reg.seq = true ∧ j.reg.rid = rid ∧ j.ticket = t then 1 else 0
    | none => 0
  | _ => 0

/-- is the thread an async goroutine of the Sequential registration `rid` that has taken its turn and not released it? -/
def prog (rid : Nat) (th : Thread) : Nat :=
  match th.job with
  | some j => if j.reg.seq = true ∧ j.reg.rid = rid ∧ idle th.pc = false then 1 else 0
  | none => 0

theorem prog_congr {rid : Nat} {th th' : Thread} (hj : th'.job = th.job) (h : idle th'.pc = idle th.pc) :
    prog rid th' = prog rid th := by
  unfold prog; rw [hj, h]

/-- the effect of a dispatch loop on tickets -/
theorem Shape.tk {sh th f fs PF PC PG o} (h : Shape sh th f fs PF PC PG o) :
    o.sh.serving = sh.serving ∧ o.sh.turns = sh.turns ∧ o.th.job = th.job ∧ idle o.th.pc = false ∧
    ((o.sh.tickets = sh.tickets ∧ o.sh.issued = sh.issued ∧ ∀ rid t, hold rid t o.th = 0) ∨
     (∃ r : Reg, r.seq = true ∧ o.sh.tickets = setKV sh.tickets r.rid (lookupD sh.tickets r.rid + 1) ∧
        o.sh.issued = sh.issued ++ [(r.rid, lookupD sh.tickets r.rid)] ∧
        ∀ rid t, hold rid t o.th = if rid = r.rid ∧ t = lookupD sh.tickets r.rid then 1 else 0)) := by
  cases h
  case spawn obs r l hp ha =>
    refine ⟨rfl, rfl, rfl, rfl, ?_⟩
    by_cases hs : r.seq = true
    · refine .inr ⟨r, hs, by simp [hs], by simp [hs], ?_⟩
      intro rid t
      simp only [hold, hs, true_and]
      by_cases h1 : r.rid = rid
      · subst h1
        by_cases h2 : lookupD sh.tickets r.rid = t
        · subst h2; simp
        · have : ¬ t = lookupD sh.tickets r.rid := fun e => h2 e.symm
          simp [h2, this]
      · have : ¬ rid = r.rid := fun e => h1 e.symm
        simp [h1, this]
    · exact .inl ⟨by simp [hs], by simp [hs], by intro rid t; simp [hold, hs]⟩
  all_goals exact ⟨by simp, by simp, rfl, rfl, .inl ⟨by simp, by simp, by intro rid t; simp [hold]⟩⟩


/-- the effect of one step on tickets, turns and on who holds which ticket -/
inductive TkEff (sh : Shared) (th : Thread) (o : Out) : Prop
  | quiet (h1 : o.sh.tickets = sh.tickets) (h2 : o.sh.issued = sh.issued) (h3 : o.sh.serving = sh.serving)
      (h4 : o.sh.turns = sh.turns)
      (hh : ∀ rid t, hold rid t o.th + wsum (hold rid t) o.new = hold rid t th)
      (hp : ∀ rid, prog rid o.th + wsum (prog rid) o.new = prog rid th)
  | issue (r : Reg) (hs : r.seq = true)
      (h1 : o.sh.tickets = setKV sh.tickets r.rid (lookupD sh.tickets r.rid + 1))
      (h2 : o.sh.issued = sh.issued ++ [(r.rid, lookupD sh.tickets r.rid)])
      (h3 : o.sh.serving = sh.serving) (h4 : o.sh.turns = sh.turns)
      (hh : ∀ rid t, hold rid t o.th + wsum (hold rid t) o.new =
        hold rid t th + if rid = r.rid ∧ t = lookupD sh.tickets r.rid then 1 else 0)
      (hp : ∀ rid, prog rid o.th + wsum (prog rid) o.new = prog rid th)
  | turn (j : Job) (dead : Bool) (hs : j.reg.seq = true) (hturn : lookupD sh.serving j.reg.rid = j.ticket)
      (h1 : o.sh.tickets = sh.tickets) (h2 : o.sh.issued = sh.issued)
      (h3 : o.sh.serving = if dead then setKV sh.serving j.reg.rid (lookupD sh.serving j.reg.rid + 1) else sh.serving)
      (h4 : o.sh.turns = sh.turns ++ [(j.reg.rid, j.ticket)])
      (hnew : o.new = [])
      (hh : ∀ rid t, hold rid t th = if rid = j.reg.rid ∧ t = j.ticket then 1 else 0)
      (hh' : ∀ rid t, hold rid t o.th = 0)
      (hp : ∀ rid, prog rid th = 0)
      (hp' : ∀ rid, prog rid o.th = if dead then 0 else if rid = j.reg.rid then 1 else 0)
  | release (j : Job) (hs : j.reg.seq = true)
      (h1 : o.sh.tickets = sh.tickets) (h2 : o.sh.issued = sh.issued)
      (h3 : o.sh.serving = setKV sh.serving j.reg.rid (lookupD sh.serving j.reg.rid + 1))
      (h4 : o.sh.turns = sh.turns)
      (hnew : o.new = [])
      (hh : ∀ rid t, hold rid t th = 0) (hh' : ∀ rid t, hold rid t o.th = 0)
      (hp : ∀ rid, prog rid th = if rid = j.reg.rid then 1 else 0) (hp' : ∀ rid, prog rid o.th = 0)

theorem TkEff.of_shape {sh sh0 th f fs PF PC PG o} (hS : Shape sh th f fs PF PC PG o) (o' : Out)
    (es : o'.sh = o.sh) (et : o'.th = o.th)
    (e1 : sh.tickets = sh0.tickets) (e2 : sh.issued = sh0.issued) (e3 : sh.serving = sh0.serving) (e4 : sh.turns = sh0.turns)
    (hidle : idle th.pc = false) (hnewp : ∀ rid, wsum (prog rid) o'.new = 0)
    (hnewh : ∀ rid t, wsum (hold rid t) o'.new = hold rid t th) : TkEff sh0 th o' := by
  obtain ⟨h3, h4, hj, hi, h⟩ := hS.tk
  have hp : ∀ rid, prog rid o'.th + wsum (prog rid) o'.new = prog rid th := by
    intro rid; rw [hnewp, et]; simp [prog_congr hj (hi.trans hidle.symm)]
  rcases h with ⟨h1, h2, hh⟩ | ⟨r, hs, h1, h2, hh⟩
  · refine .quiet (by rw [es, h1, e1]) (by rw [es, h2, e2]) (by rw [es, h3, e3]) (by rw [es, h4, e4]) ?_ hp
    intro rid t; rw [et, hh, hnewh]; simp
  · refine .issue r hs (by rw [es, h1, e1]) (by rw [es, h2, e2, e1]) (by rw [es, h3, e3]) (by rw [es, h4, e4]) ?_ hp
    intro rid t; rw [et, hh, hnewh, e1]; omega

theorem StepR.tk {sh th o} (h : StepR sh th o) (hth : ThOK th) : TkEff sh th o := by
  cases h
  case snap f fs hpc hfr hsh =>
    exact .of_shape hsh _ rfl rfl rfl rfl rfl rfl (by simp [idle, hpc]) (by simp [hsh.new_nil]) (by simp [hsh.new_nil, hold, hpc])
  case filterAcc r f fs hpc hfr hacc hsh =>
    exact .of_shape hsh _ rfl rfl rfl rfl rfl rfl (by simp [idle, hpc]) (by simp [hsh.new_nil]) (by simp [hsh.new_nil, hold, hpc])
  case filterRej r f fs hpc hfr hacc hsh =>
    exact .of_shape hsh _ rfl rfl rfl rfl rfl rfl (by simp [idle, hpc]) (by simp [hsh.new_nil]) (by simp [hsh.new_nil, hold, hpc])
  case claimed r f fs hpc hfr hsh =>
    exact .of_shape hsh _ rfl rfl rfl rfl rfl rfl (by simp [idle, hpc]) (by simp [hsh.new_nil]) (by simp [hsh.new_nil, hold, hpc])
  case exit r f fs hpc hfr hj hsh =>
    exact .of_shape hsh _ rfl rfl rfl rfl rfl rfl (by simp [idle, hpc]) (by simp [hsh.new_nil]) (by simp [hsh.new_nil, hold, hpc])
  case spawn r n t f fs o hpc hfr hsh =>
    exact .of_shape hsh _ rfl rfl rfl rfl rfl rfl (by simp [idle, hpc]) (by simp [prog, idle]) (by simp [hold, hpc])
  case turnRun j hpc hj hturn hl =>
    simp only [ThOK, hpc] at hth
    obtain ⟨⟨j', hj', hs⟩, _⟩ := hth
    rw [hj] at hj'; cases hj'
    refine .turn j false hs hturn rfl rfl rfl rfl rfl ?_ ?_ ?_ ?_
    · intro rid t; simp only [hold, hpc, hj, hs, true_and]
      by_cases h1 : rid = j.reg.rid <;> simp [h1, eq_comm]
    · intro rid t; simp [hold]
    · intro rid; simp [prog, hj, hpc, idle]
    · intro rid; simp only [prog, hj, hs, idle, true_and]
      by_cases h1 : rid = j.reg.rid <;> simp [h1, eq_comm]
  case turnDead j hpc hj hturn hl =>
    simp only [ThOK, hpc] at hth
    obtain ⟨⟨j', hj', hs⟩, _⟩ := hth
    rw [hj] at hj'; cases hj'
    refine .turn j true hs hturn rfl rfl rfl rfl rfl ?_ ?_ ?_ ?_
    · intro rid t; simp only [hold, hpc, hj, hs, true_and]
      by_cases h1 : rid = j.reg.rid <;> simp [h1, eq_comm]
    · intro rid t; simp [hold]
    · intro rid; simp [prog, hj, hpc, idle]
    · intro rid; simp [prog, hj, idle]
  case exitJob r j f hpc hj hfr =>
    by_cases hs : j.reg.seq = true
    · refine .release j hs rfl rfl (by simp [hs]) rfl rfl ?_ ?_ ?_ ?_
      · intro rid t; simp [hold, hpc]
      · intro rid t; simp [hold]
      · intro rid; simp only [prog, hj, hpc, hs, idle, true_and]
        by_cases h1 : rid = j.reg.rid <;> simp [h1, eq_comm]
      · intro rid; simp [prog, hj, idle]
    · refine .quiet rfl rfl (by simp [hs]) rfl ?_ ?_
      · intro rid t; simp [hold, hpc]
      · intro rid; simp [prog, hj, hs]
  case fin hpc hfr hp =>
    simp [ThOK, hpc, hfr] at hth
    refine .quiet rfl rfl rfl rfl ?_ ?_
    · intro rid t; simp [hold, hpc]
    · intro rid; simp [prog, hth]
  case lockDeadSync r a f fs hpc hfr hj hfree hl hsh =>
    exact .of_shape hsh _ rfl rfl rfl rfl rfl rfl (by simp [idle, hpc]) (by simp [hsh.new_nil]) (by simp [hsh.new_nil, hold, hpc])
  case lockDeadJob r a j f hpc hj hfr hfree hl =>
    by_cases hs : j.reg.seq = true
    · refine .release j hs rfl rfl (by simp [hs]) rfl rfl ?_ ?_ ?_ ?_
      · intro rid t; simp [hold, hpc]
      · intro rid t; simp [hold]
      · intro rid; simp only [prog, hj, hpc, hs, idle, true_and]
        by_cases h1 : rid = j.reg.rid <;> simp [h1, eq_comm]
      · intro rid; simp [prog, hj, idle]
    · refine .quiet rfl rfl (by simp [hs]) rfl ?_ ?_
      · intro rid t; simp [hold, hpc]
      · intro rid; simp [prog, hj, hs]
  case lock r a f fs hpc hfr hfree hl =>
    refine .quiet (by simp) (by simp) (by simp) (by simp) ?_ ?_
    · intro rid t; simp [hold, hpc]
    · intro rid; simp [prog, idle, hpc]
  case astartRun j hpc hj hs hl =>
    refine .quiet (by simp) (by simp) (by simp) (by simp) ?_ ?_
    · intro rid t; simp [hold, hpc, hj, hs]
    · intro rid; simp [prog, idle, hpc, hj, hs]
  all_goals
    refine .quiet rfl rfl rfl rfl ?_ ?_
    · intro rid t; simp [hold, *]
    · intro rid; simp [prog, idle, *]


structure TkInv (sh : Shared) (ths : List Thread) (rid : Nat) : Prop where
  issued : ticketsOf rid sh.issued = List.range (lookupD sh.tickets rid)
  turns : ticketsOf rid sh.turns = List.range (lookupD sh.serving rid + wsum (prog rid) ths)
  le : lookupD sh.serving rid + wsum (prog rid) ths ≤ lookupD sh.tickets rid
  holders : ∀ t, wsum (hold rid t) ths ≤ 1 ∧
    (1 ≤ wsum (hold rid t) ths → lookupD sh.serving rid + wsum (prog rid) ths ≤ t ∧ t < lookupD sh.tickets rid)

theorem TkInv.step {sh : Shared} {ths : List Thread} {i : Nat} {th : Thread} {o : Out} (hth : ths[i]? = some th)
    (he : TkEff sh th o) (hi : ∀ rid, TkInv sh ths rid) (rid : Nat) :
    TkInv o.sh (ths.set i o.th ++ o.new) rid := by
  have Hs := fun t => wsum_step (hold rid t) o.th o.new hth
  have Ps := wsum_step (prog rid) o.th o.new hth
  have Hge := fun t => wsum_ge (hold rid t) hth
  have Pge := wsum_ge (prog rid) hth
  obtain ⟨i1, i2, i3, i4⟩ := hi rid
  cases he with
  | quiet h1 h2 h3 h4 hh hp =>
    have eP : wsum (prog rid) (ths.set i o.th ++ o.new) = wsum (prog rid) ths := by have := hp rid; omega
    have eH : ∀ t, wsum (hold rid t) (ths.set i o.th ++ o.new) = wsum (hold rid t) ths := by
      intro t; have := hh rid t; have := Hs t; omega
    exact ⟨by rw [h1, h2]; exact i1, by rw [h3, h4, eP]; exact i2, by rw [h1, h3, eP]; exact i3,
      fun t => by rw [h1, h3, eP, eH]; exact i4 t⟩
  | issue r hs h1 h2 h3 h4 hh hp =>
    have eP : wsum (prog rid) (ths.set i o.th ++ o.new) = wsum (prog rid) ths := by have := hp rid; omega
    have eH : ∀ t, wsum (hold rid t) (ths.set i o.th ++ o.new) =
        wsum (hold rid t) ths + if rid = r.rid ∧ t = lookupD sh.tickets r.rid then 1 else 0 := by
      intro t; have := hh rid t; have := Hs t; omega
    by_cases hr : rid = r.rid
    · subst hr
      have eT : lookupD o.sh.tickets r.rid = lookupD sh.tickets r.rid + 1 := by rw [h1, lookupD_setKV]; simp
      refine ⟨?_, by rw [h3, h4, eP]; exact i2, by rw [eT, h3, eP]; omega, ?_⟩
      · rw [h2, ticketsOf_append, eT, List.range_succ, i1]; simp
      · intro t
        rw [eT, h3, eP, eH]
        have := i4 t
        by_cases ht : t = lookupD sh.tickets r.rid
        · simp only [ht, and_self, if_true]
          subst ht
          omega
        · simp only [ht, and_false, if_false]
          omega
    · have eT : lookupD o.sh.tickets rid = lookupD sh.tickets rid := by rw [h1, lookupD_setKV]; simp [hr]
      have hr' : ¬ r.rid = rid := fun e => hr e.symm
      refine ⟨?_, by rw [h3, h4, eP]; exact i2, by rw [eT, h3, eP]; exact i3, ?_⟩
      · rw [h2, ticketsOf_append, eT, i1]; simp [hr']
      · intro t
        rw [eT, h3, eP, eH]; simp only [hr, false_and, if_false]; exact i4 t
  | turn j dead hs hturn h1 h2 h3 h4 hnew hh hh' hp hp' =>
    rw [hnew] at Hs Ps ⊢
    simp only [wsum_nil, Nat.add_zero, List.append_nil] at Hs Ps ⊢
    have eH : ∀ t, wsum (hold rid t) (ths.set i o.th) + (if rid = j.reg.rid ∧ t = j.ticket then 1 else 0) =
        wsum (hold rid t) ths := by
      intro t; have := Hs t; rw [hh, hh'] at this; omega
    have eP : wsum (prog rid) (ths.set i o.th) =
        wsum (prog rid) ths + (if dead then 0 else if rid = j.reg.rid then 1 else 0) := by
      rw [hp, hp'] at Ps; omega
    by_cases hr : rid = j.reg.rid
    · subst hr
      have hge := Hge j.ticket
      rw [hh] at hge
      simp only [and_self, if_true] at hge
      have h5 := (i4 j.ticket).2 hge
      have eS : lookupD o.sh.serving j.reg.rid + wsum (prog j.reg.rid) (ths.set i o.th) =
          lookupD sh.serving j.reg.rid + 1 := by
        rw [eP, h3]
        cases dead
        · simp; omega
        · simp [lookupD_setKV]; omega
      refine ⟨by rw [h1, h2]; exact i1, ?_, by rw [eS, h1]; omega, ?_⟩
      · rw [eS, h4, ticketsOf_append, i2, List.range_succ]
        have : wsum (prog j.reg.rid) ths = 0 := by omega
        simp [this, hturn]
      · intro t
        rw [eS, h1]
        have := i4 t
        have := eH t
        by_cases ht : t = j.ticket
        · simp only [ht, and_self, if_true] at this
          subst ht
          omega
        · simp only [ht, and_false, if_false] at this
          omega
    · have eS : lookupD o.sh.serving rid = lookupD sh.serving rid := by
        rw [h3]; cases dead <;> simp [lookupD_setKV, hr]
      have eP' : wsum (prog rid) (ths.set i o.th) = wsum (prog rid) ths := by
        rw [eP]; cases dead <;> simp [hr]
      have eH' : ∀ t, wsum (hold rid t) (ths.set i o.th) = wsum (hold rid t) ths := by
        intro t; have := eH t; simp only [hr, false_and, if_false] at this; omega
      have hr' : ¬ j.reg.rid = rid := fun e => hr e.symm
      refine ⟨by rw [h1, h2]; exact i1, ?_, by rw [eS, eP', h1]; exact i3, fun t => by rw [eS, eP', eH', h1]; exact i4 t⟩
      rw [eS, eP', h4, ticketsOf_append, i2]; simp [hr']
  | release j hs h1 h2 h3 h4 hnew hh hh' hp hp' =>
    rw [hnew] at Hs Ps ⊢
    simp only [wsum_nil, Nat.add_zero, List.append_nil] at Hs Ps ⊢
    have eH : ∀ t, wsum (hold rid t) (ths.set i o.th) = wsum (hold rid t) ths := by
      intro t; have := Hs t; rw [hh, hh'] at this; omega
    have eP : wsum (prog rid) (ths.set i o.th) + (if rid = j.reg.rid then 1 else 0) = wsum (prog rid) ths := by
      rw [hp, hp'] at Ps; omega
    have eS : lookupD o.sh.serving rid + wsum (prog rid) (ths.set i o.th) =
        lookupD sh.serving rid + wsum (prog rid) ths := by
      rw [h3, lookupD_setKV]
      by_cases hr : rid = j.reg.rid
      · subst hr; simp only [if_true] at eP ⊢; omega
      · simp only [hr, if_false] at eP ⊢; omega
    exact ⟨by rw [h1, h2]; exact i1, by rw [eS, h4]; exact i2, by rw [eS, h1]; exact i3,
      fun t => by rw [eS, eH, h1]; exact i4 t⟩


theorem wsum_init (w : Thread → Nat) (progs : List (List Op)) (h : ∀ p, w { prog := p } = 0) :
    wsum w (initSys progs).ths = 0 := by
  simp only [initSys]
  induction progs with
  | nil => rfl
  | cons p ps ih => simpa [h] using ih

theorem tk_reachable {progs : List (List Op)} : ∀ s, Reachable progs s → ∀ rid, TkInv s.sh s.ths rid := by
  apply reach_ind
  · intro rid
    have hp : wsum (prog rid) (initSys progs).ths = 0 := wsum_init _ _ (fun p => by simp [prog])
    have hh : ∀ t, wsum (hold rid t) (initSys progs).ths = 0 := fun t => wsum_init _ _ (fun p => by simp [hold])
    refine ⟨?_, ?_, ?_, ?_⟩
    · simp [initSys, ticketsOf, lookupD]
    · rw [hp]; simp [initSys, ticketsOf, lookupD]
    · rw [hp]; simp [initSys, lookupD]
    · intro t; rw [hh]; simp
  · intro s i th o hr hi hth hR rid
    exact TkInv.step hth (hR.tk (thOK_reachable s hr th (List.mem_of_getElem? hth))) hi rid

end Inv

open Ebu.Conc.Inv

/-! ### C02 — registry accounting and delivery within the snapshot -/

/-- no subscription is lost or duplicated: every registration ever created is either still
registered or was removed exactly once; registration identities are unique -/
theorem registry_accounting (progs : List (List Op)) (s : Sys) (h : Reachable progs s) :
    s.sh.regs.length + s.sh.removed = s.sh.nextRid ∧ (s.sh.regs.map (·.rid)).Nodup ∧
    ∀ r ∈ s.sh.regs, r.rid < s.sh.nextRid :=
  regInv_reachable s h

/-- a publish takes its snapshot from the registry as it is at that step: exactly the
registrations of the published type, in subscription order -/
theorem publish_takes_current_registry (sh : Shared) (th : Thread) (ty v : Nat) (ctx : Ctx) (prog : List Op)
    (hpc : th.pc = .op) (hfr : th.frames = []) (hprog : th.prog = .publish ty v ctx :: prog) :
    ∃ o f, step sh th = some o ∧ o.th.frames = [f] ∧ o.th.pc = .snap ∧ o.sh = sh ∧
      f.snapshot = sh.regs.filter (fun r => r.ty == ty) ∧ f.rest = f.snapshot ∧ f.v = v ∧ f.ty = ty := by
  refine ⟨⟨sh, { th with prog := prog, frames := [newFrame sh ty v ctx], pc := .snap }, [], []⟩, newFrame sh ty v ctx,
    ?_, rfl, rfl, rfl, rfl, rfl, rfl, rfl⟩
  simp [step, enabled, hpc, hfr, hprog]

/-- every activation only ever dispatches what is left of its own snapshot: the entries still
to be dispatched are a suffix of the snapshot (so each entry is dispatched at most once, in
order), and the snapshot holds registrations of the published type only -/
theorem dispatch_within_snapshot (progs : List (List Op)) (s : Sys) (h : Reachable progs s) :
    ∀ th ∈ s.ths, ∀ f ∈ th.frames, f.rest <:+ f.snapshot ∧ ∀ r ∈ f.snapshot, r.ty = f.ty ∧ r.rid < s.sh.nextRid :=
  fun th hth f hf => ⟨(snap_reachable s h th hth f hf).1, (snap_reachable s h th hth f hf).2⟩

/-! ### C04 — once handlers -/

/-- however the threads interleave, the handler of a Once registration is entered at most once -/
theorem once_at_most_once (progs : List (List Op)) (s : Sys) (h : Reachable progs s) (rid : Nat) :
    s.sh.enteredOnce.count rid ≤ 1 := by
  have h1 := once_reachable s h rid
  have h2 : exBit s.sh rid ≤ 1 := by unfold exBit; split <;> omega
  omega

/-- … and only after its compare-and-swap succeeded -/
theorem once_entered_was_claimed (progs : List (List Op)) (s : Sys) (h : Reachable progs s) (rid : Nat)
    (he : rid ∈ s.sh.enteredOnce) : rid ∈ s.sh.executed := by
  have h1 := once_reachable s h rid
  have h2 : 0 < s.sh.enteredOnce.count rid := List.count_pos_iff.2 he
  unfold exBit at h1
  split at h1
  · assumption
  · omega

/-- a delivery step whose filter rejects the event does not use the registration up -/
theorem filter_reject_not_consumed (sh : Shared) (th : Thread) (r : Reg) (f : Frame) (fs : List Frame) (o : Out)
    (hpc : th.pc = .filter r) (hfr : th.frames = f :: fs) (hrej : r.accepts f.v = false)
    (hstep : step sh th = some o) (hfresh : r.rid ∉ f.rest.map (·.rid)) (hno : r.rid ∉ sh.executed) :
    r.rid ∉ o.sh.executed := by
  simp only [step, enabled, hpc, hfr, hrej] at hstep
  simp at hstep
  subst hstep
  rcases (dispatch_shape sh th f fs [.filt r.rid f.v false] f rfl).executed with h | ⟨r', l, hp, _, _, _, h⟩
  · rw [h]; exact hno
  · rw [h]
    have hmem : r' ∈ f.rest := hp.subset (by simp)
    intro hc
    simp at hc
    rcases hc with hc | hc
    · exact hfresh (hc ▸ List.mem_map_of_mem hmem)
    · exact hno hc

/-- a delivery step that finds the publish context cancelled does not use the registration up -/
theorem cancelled_not_consumed (sh : Shared) (th : Thread) (r : Reg) (f : Frame) (fs : List Frame) (o : Out)
    (hpc : th.pc = .filter r) (hfr : th.frames = f :: fs) (hdead : sh.live f.ctx = false)
    (hstep : step sh th = some o) (hno : r.rid ∉ sh.executed) :
    o.sh.executed = sh.executed := by
  have _ := hno
  simp only [step, enabled, hpc, hfr] at hstep
  simp at hstep
  split at hstep
  · cases hstep
    rcases (afterFilter_shape sh th f fs [.filt r.rid f.v true] r).executed with h | ⟨_, _, _, hl, _⟩
    · exact h
    · rw [hdead] at hl; cases hl
  · cases hstep
    rcases (dispatch_shape sh th f fs [.filt r.rid f.v false] f rfl).executed with h | ⟨_, _, _, hl, _⟩
    · exact h
    · rw [hdead] at hl; cases hl

/-! ### C06 — the in-flight counter and Wait -/

/-- `bus.wg` counts exactly the async goroutines that exist and are not finished, plus those a
publisher has counted in and is about to start -/
theorem inflight_counts (progs : List (List Op)) (s : Sys) (h : Reachable progs s) :
    s.sh.inflight = liveJobs s + pendingSpawns s := by
  rw [infl_eq]; exact infl_reachable s h

/-- `Wait` returns only when no async invocation is unfinished – whoever published it,
including handlers publishing from handlers -/
theorem wait_returns_only_when_idle (progs : List (List Op)) (s s' : Sys) (h : Reachable progs s) (i : Nat)
    (th : Thread) (prog : List Op) (hth : s.ths[i]? = some th) (hpc : th.pc = .op) (hfr : th.frames = [])
    (hprog : th.prog = .wait :: prog) (hstep : s.stepAt i = some s') :
    liveJobs s = 0 ∧ pendingSpawns s = 0 := by
  have h1 := infl_reachable s h
  rw [← infl_eq] at h1
  have h2 : s.sh.inflight = 0 := by
    unfold Sys.stepAt at hstep
    rw [hth] at hstep
    simp only [step, enabled, hpc, hfr, hprog] at hstep
    by_cases h0 : s.sh.inflight = 0
    · exact h0
    · simp [h0] at hstep
  omega

/-! ### C07 — sequential handlers -/

/-- invocations of a Sequential registration never overlap: at most one activation is inside it,
and exactly when its mutex is held -/
theorem seq_mutex (progs : List (List Op)) (s : Sys) (h : Reachable progs s) (rid : Nat) :
    sumNat (s.ths.map (inside rid)) = s.sh.held.count rid ∧ s.sh.held.count rid ≤ 1 := by
  rw [sumNat_eq_sum]
  exact mutex_reachable s h rid

/-- Async+Sequential: tickets are handed out 0,1,2,… in dispatch order … -/
theorem tickets_in_dispatch_order (progs : List (List Op)) (s : Sys) (h : Reachable progs s) (rid : Nat) :
    ticketsOf rid s.sh.issued = List.range (ticketsOf rid s.sh.issued).length := by
  have h1 := (tk_reachable s h rid).issued
  rw [h1, List.length_range]

/-- … and turns are taken 0,1,2,… in that same order: the k-th event dispatched to the
registration is the k-th one processed (publish order is preserved) -/
theorem turns_in_ticket_order (progs : List (List Op)) (s : Sys) (h : Reachable progs s) (rid : Nat) :
    ticketsOf rid s.sh.turns = List.range (ticketsOf rid s.sh.turns).length ∧
    (ticketsOf rid s.sh.turns).length ≤ (ticketsOf rid s.sh.issued).length := by
  obtain ⟨h1, h2, h3, _⟩ := tk_reachable s h rid
  rw [h1, h2, List.length_range, List.length_range]
  exact ⟨rfl, h3⟩

end Ebu.Conc

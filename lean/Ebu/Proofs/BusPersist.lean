import Ebu.Spec.Bus
/-!
Persistence inside the bus machine (C09, C13): option order, one record per publish before
any handler, offsets, containment of failures.
-/
namespace Ebu.Bus

namespace Persist


def lsF (acc : Option Nat) (o : Opt) : Option Nat := match o with | .store sid => some sid | _ => acc

theorem lastStore_eq (opts : List Opt) : lastStore opts = opts.foldl lsF none := rfl

theorem lsF_foldl (opts : List Opt) (acc : Option Nat) :
    opts.foldl lsF acc = (match opts.foldl lsF none with | some sid => some sid | none => acc) := by
  induction opts generalizing acc with
  | nil => simp
  | cons o opts ih =>
    simp only [List.foldl_cons]
    rw [ih, ih (lsF none o)]
    cases List.foldl lsF none opts <;> cases o <;> rfl

theorem lastStore_cons (o : Opt) (opts : List Opt) :
    lastStore (o :: opts) = (match lastStore opts with
      | some sid => some sid
      | none => lsF none o) := by
  simp only [lastStore_eq, List.foldl_cons]
  rw [lsF_foldl]

end Persist
open Persist

/-- the configuration produced by an option list does not depend on where `WithStore` stands:
the store is the last `WithStore` given (or the base one), every flag is "was it given" -/
theorem applyOptions_spec (base : Config) (opts : List Opt) :
    let c := applyOptions base opts
    c.store = (match lastStore opts with | some sid => some sid | none => base.store) ∧
    c.hookBL = (base.hookBL || opts.contains .hookBL) ∧ c.hookBC = (base.hookBC || opts.contains .hookBC) ∧
    c.hookAL = (base.hookAL || opts.contains .hookAL) ∧ c.hookAC = (base.hookAC || opts.contains .hookAC) ∧
    c.panicH = (base.panicH || opts.contains .panicH) ∧ c.perrH = (base.perrH || opts.contains .perrH) ∧
    c.obs = (base.obs || opts.contains .obs) ∧ c.maxDepth = base.maxDepth ∧ c.maxCalls = base.maxCalls ∧
    c.bodies = base.bodies := by
  induction opts generalizing base with
  | nil => simp [applyOptions, lastStore]
  | cons o opts ih =>
    have h := ih (applyOpt base o)
    simp only [applyOptions, List.foldl_cons] at h ⊢
    rw [lastStore_cons]
    obtain ⟨h1, h2, h3, h4, h5, h6, h7, h8, h9, h10, h11⟩ := h
    rw [h1, h2, h3, h4, h5, h6, h7, h8, h9, h10, h11]
    cases o <;> cases lastStore opts <;> simp [applyOpt, lsF]

namespace Persist

theorem lastStore_one (opts : List Opt) (sid : Nat) (hone : ∀ o ∈ opts, ∀ k, o = .store k → k = sid) :
    lastStore opts = if Opt.store sid ∈ opts then some sid else none := by
  induction opts with
  | nil => simp [lastStore]
  | cons o opts ih =>
    rw [lastStore_cons, ih (fun o ho => hone o (List.mem_cons_of_mem _ ho))]
    by_cases hm : Opt.store sid ∈ opts
    · simp [hm]
    · cases o with
      | store k =>
        have := hone (.store k) (List.mem_cons_self) k rfl
        subst this
        simp [hm, lsF]
      | _ => simp [hm, lsF]

end Persist
open Persist

/-- every permutation of an option list that names one store gives the same bus -/
theorem applyOptions_perm (base : Config) (opts opts' : List Opt) (sid : Nat)
    (hperm : opts.Perm opts') (hone : ∀ o ∈ opts, ∀ k, o = .store k → k = sid) :
    applyOptions base opts = applyOptions base opts' := by
  have h1 := applyOptions_spec base opts
  have h2 := applyOptions_spec base opts'
  have hone' : ∀ o ∈ opts', ∀ k, o = .store k → k = sid := fun o ho => hone o (hperm.mem_iff.mpr ho)
  rw [lastStore_one opts sid hone] at h1
  rw [lastStore_one opts' sid hone'] at h2
  have hc : ∀ o : Opt, opts'.contains o = opts.contains o := by
    intro o
    rw [Bool.eq_iff_iff]
    simp [hperm.mem_iff]
  simp only [hc, ← hperm.mem_iff] at h2
  generalize applyOptions base opts = c1 at h1
  generalize applyOptions base opts' = c2 at h2
  cases c1; cases c2
  simp only [Config.mk.injEq]
  simp only at h1 h2
  obtain ⟨a1, a2, a3, a4, a5, a6, a7, a8, a9, a10, a11⟩ := h1
  obtain ⟨b1, b2, b3, b4, b5, b6, b7, b8, b9, b10, b11⟩ := h2
  subst a1 a2 a3 a4 a5 a6 a7 a8 a9 a10 a11 b1 b2 b3 b4 b5 b6 b7 b8 b9 b10 b11
  simp


namespace Persist

theorem emitIf_trace (b : Bool) (c : Core) (e : Ev) :
    (emitIf b c e).trace = c.trace ++ (if b then [e] else []) := by
  cases b <;> simp [emitIf]

end Persist
open Persist

/-- what `persistEvent` does, case by case -/
theorem persist_spec (cfg : Config) (d ty v : Nat) (bad : Bool) (obsParent : Nat) (c : Core) :
    let c' := persist cfg d ty v bad obsParent c
    -- no store: nothing at all
    (cfg.store = none → c' = c) ∧
    -- unencodable event: no append attempt, the error handler (if set) is told once
    (∀ sid, cfg.store = some sid → bad = true →
        c'.log = c.log ∧ c'.lastOffset = c.lastOffset ∧ c'.appendFaults = c.appendFaults ∧
        c'.trace = c.trace ++ (if cfg.perrH then [Ev.perr d ty v true] else [])) ∧
    -- the store accepts: exactly one record with the event's type and data, next offset
    (∀ sid, cfg.store = some sid → bad = false → c.appendFaults.headD false = false →
        c'.log = c.log ++ [(ty, v)] ∧ c'.lastOffset = c.log.length + 1 ∧
        (c'.trace.drop c.trace.length).filter (fun e => isAppend e || (match e with | .perr .. => true | _ => false)) =
          [Ev.append d sid ty v true (c.log.length + 1)]) ∧
    -- the store rejects: no record, no retry, one report
    (∀ sid, cfg.store = some sid → bad = false → c.appendFaults.headD false = true →
        c'.log = c.log ∧ c'.lastOffset = c.lastOffset ∧
        (c'.trace.drop c.trace.length).filter (fun e => isAppend e || (match e with | .perr .. => true | _ => false)) =
          [Ev.append d sid ty v false 0] ++ (if cfg.perrH then [Ev.perr d ty v false] else [])) := by
  refine ⟨?_, ?_, ?_, ?_⟩
  · intro h; simp [persist, h]
  · intro sid h hb; subst hb
    cases hp : cfg.perrH <;> simp [persist, h, hp, emitIf, Core.emit, Core.trace]
  · intro sid h hb hf; subst hb
    have hf' : c.appendFaults.head?.getD false = false := by simpa using hf
    cases hp : cfg.perrH <;> cases ho : cfg.obs <;>
      simp [persist, h, hp, ho, hf', emitIf, Core.emit, Core.trace, isAppend]
  · intro sid h hb hf; subst hb
    have hf' : c.appendFaults.head?.getD false = true := by simpa using hf
    cases hp : cfg.perrH <;> cases ho : cfg.obs <;>
      simp [persist, h, hp, ho, hf', emitIf, Core.emit, Core.trace, isAppend]



namespace Persist

/-! ### the unary invariant: offsets / log / trace growth -/

def OffInv (c : Core) : Prop :=
  okOffsets c.trace = (List.range c.log.length).map (· + 1) ∧ c.lastOffset = c.log.length

/-- everything we need to know about how one piece of the semantics moves the `Core` -/
structure T (c c' : Core) : Prop where
  tr : ∃ l, c'.trace = c.trace ++ l
  lg : ∃ l, c'.log = c.log ++ l
  inv : OffInv c → OffInv c'

theorem T.refl (c : Core) : T c c := ⟨⟨[], by simp⟩, ⟨[], by simp⟩, id⟩

theorem T.trans {a b c : Core} (h1 : T a b) (h2 : T b c) : T a c := by
  obtain ⟨⟨l1, e1⟩, ⟨m1, f1⟩, i1⟩ := h1
  obtain ⟨⟨l2, e2⟩, ⟨m2, f2⟩, i2⟩ := h2
  exact ⟨⟨l1 ++ l2, by rw [e2, e1, List.append_assoc]⟩, ⟨m1 ++ m2, by rw [f2, f1, List.append_assoc]⟩,
    fun h => i2 (i1 h)⟩

theorem T.same {c c' : Core} (h1 : c'.rtrace = c.rtrace) (h2 : c'.log = c.log)
    (h3 : c'.lastOffset = c.lastOffset) : T c c' := by
  refine ⟨⟨[], by simp [Core.trace, h1]⟩, ⟨[], by simp [h2]⟩, ?_⟩
  simp only [OffInv, Core.trace, h1, h2, h3]
  exact id

theorem okOffsets_append (l1 l2 : List Ev) : okOffsets (l1 ++ l2) = okOffsets l1 ++ okOffsets l2 := by
  simp [okOffsets, List.filterMap_append]

theorem okOffsets_single (e : Ev) (h : isAppend e = false) : okOffsets [e] = [] := by
  cases e <;> simp [okOffsets, isAppend] at h ⊢

theorem T.emit (c : Core) (e : Ev) (h : okOffsets [e] = []) : T c (c.emit e) := by
  refine ⟨⟨[e], by simp⟩, ⟨[], by simp [Core.emit]⟩, ?_⟩
  intro ⟨h1, h2⟩
  refine ⟨?_, h2⟩
  rw [Core.trace_emit, okOffsets_append, h, List.append_nil, h1]
  rfl

theorem T.emitIf (b : Bool) (c : Core) (e : Ev) (h : okOffsets [e] = []) : T c (emitIf b c e) := by
  cases b
  · exact T.refl c
  · exact T.emit c e h

theorem T.persist (cfg : Config) (d ty v : Nat) (bad : Bool) (op : Nat) (c : Core) :
    T c (persist cfg d ty v bad op c) := by
  unfold Ebu.Bus.persist
  cases cfg.store with
  | none => exact T.refl c
  | some sid =>
    simp only
    cases bad with
    | true => exact T.emitIf _ _ _ rfl
    | false =>
      simp only [Bool.false_eq_true, if_false]
      refine T.trans (b := if cfg.obs then { c.emit (.obs d .rs c.nextObs op ty false) with nextObs := c.nextObs + 1 } else c) ?_ ?_
      · split
        · exact T.trans (T.emit c _ rfl) (T.same rfl rfl rfl)
        · exact T.refl c
      · generalize (if cfg.obs then { c.emit (.obs d .rs c.nextObs op ty false) with nextObs := c.nextObs + 1 } else c) = c1
        refine T.trans ?_ (T.emitIf _ _ _ rfl)
        refine T.trans ?_ (T.emitIf _ _ _ rfl)
        refine T.trans (b := { c1 with appendFaults := c1.appendFaults.tail }) (T.same rfl rfl rfl) ?_
        split
        · exact T.emit _ _ rfl
        · refine ⟨⟨[_], Core.trace_emit _ _⟩, ⟨[_], rfl⟩, ?_⟩
          intro ⟨h1, h2⟩
          refine ⟨?_, by simp [Core.emit]⟩
          rw [Core.trace_emit, okOffsets_append]
          simp only [Core.emit, Core.trace] at h1 ⊢
          rw [h1]
          simp [okOffsets, List.range_succ]

/-! ### stages of `publish` -/

section stages
variable {R : Type} (I : RegImpl R) (cfg : Config)

def pubCtx (fr : Frame) (sel : CtxSel) (s : St R) : Nat × Nat × St R :=
  match sel with
  | .bg => (0, 0, s)
  | .fresh => (s.c.nextCtx, 0, { s with c := { s.c with nextCtx := s.c.nextCtx + 1 } })
  | .dead => (s.c.nextCtx, 0, { s with c := { s.c with nextCtx := s.c.nextCtx + 1, cancelled := s.c.nextCtx :: s.c.cancelled } })
  | .inherit => if fr.ctxAware then (fr.root, fr.obs, s) else (0, 0, s)

/-- OnPublishStart and the before hooks -/
def pubPre (d ty v obs0 : Nat) (s : St R) : St R :=
  let pid := s.c.nextObs
  let s := if cfg.obs then { s with c := { s.c.emit (.obs d .ps pid obs0 ty false) with nextObs := pid + 1 } } else s
  let s := { s with c := emitIf cfg.hookBL s.c (.hook d .bl ty v) }
  { s with c := emitIf cfg.hookBC s.c (.hook d .bc ty v) }

def pubPost (d ty v pid : Nat) (acc : St R × List Reg) : St R :=
  let (s, claimed) := acc
  let s := if claimed.isEmpty then s else { s with reg := I.set s.reg ty (retire claimed (I.get s.reg ty)) }
  let s := { s with c := emitIf cfg.hookAL s.c (.hook d .al ty v) }
  let s := { s with c := emitIf cfg.hookAC s.c (.hook d .ac ty v) }
  { s with c := emitIf cfg.obs s.c (.obs d .pc pid 0 ty false) }

theorem publish_eq (rec : Frame → St R → Action → St R) (fr : Frame) (ty v : Nat) (bad : Bool)
    (sel : CtxSel) (s : St R) :
    publish I cfg rec fr ty v bad sel s =
      (let t := pubCtx fr sel s
       let pid := t.2.2.c.nextObs
       let obs := if cfg.obs then pid else t.2.1
       let s1 := pubPre cfg fr.depth ty v t.2.1 t.2.2
       let s2 : St R := { s1 with c := persist cfg fr.depth ty v bad obs s1.c }
       pubPost I cfg fr.depth ty v pid
         ((I.get s2.reg ty).foldl (deliver cfg rec ty v t.1 obs fr.depth) (s2, []))) := by
  rfl

def dFilt0 {R : Type} (d v : Nat) (r : Reg) (s : St R) : St R :=
  match r.filt with
  | some _ => { s with c := s.c.emit (.filt d r.rid v (r.accepts v)) }
  | none => s

/-- the filter phase: the `filt` event, then the cancellation of the publish context a filter may perform -/
def dFilt {R : Type} (d v root : Nat) (r : Reg) (s : St R) : St R :=
  if r.filt.isSome && r.filtCancels then cancelRoot root (dFilt0 d v r s) else dFilt0 d v r s

def dClaim {R : Type} (r : Reg) (s : St R) : St R :=
  if r.once then { s with c := { s.c with executed := r.rid :: s.c.executed } } else s

theorem deliver_eq {R : Type} (cfg : Config) (rec : Frame → St R → Action → St R)
    (ty v root obs d : Nat) (s : St R) (claimed : List Reg) (r : Reg) :
    deliver cfg rec ty v root obs d (s, claimed) r =
      (let s1 := dFilt d v root r s
       if !r.accepts v then (s1, claimed)
       else if !s1.c.live root then (s1, claimed)
       else if r.once && s1.c.executed.contains r.rid then (s1, claimed)
       else
         let s2 := dClaim r s1
         let claimed' := if r.once then claimed ++ [r] else claimed
         if r.async then
           ({ s2 with c := { s2.c with pending := s2.c.pending ++ [⟨r, ty, v, root, obs, d⟩] } }, claimed')
         else if !s2.c.live root then (s2, claimed')
         else (callHandler cfg rec r ty v root obs d false s2, claimed')) := by
  rfl

end stages

/-! ### `T` through one level of the semantics -/

section tstep
variable {R : Type} (I : RegImpl R) (cfg : Config)
variable (rec : Frame → St R → Action → St R)

def TR : Prop := ∀ fr s a, T s.c (rec fr s a).c

variable {rec}

theorem runBody_T (h : TR rec) (fr : Frame) (s : St R) (acts : List Action) :
    T s.c (runBody rec fr s acts).c := by
  induction acts generalizing s with
  | nil => exact T.refl _
  | cons a as ih =>
    simp only [runBody, List.foldl_cons]
    refine T.trans ?_ (ih _)
    split
    · exact T.refl _
    · exact h fr s a

theorem enterHandler_T (r : Reg) (ty v root op d : Nat) (async : Bool) (s : St R) :
    T s.c (enterHandler cfg r ty v root op d async s).1.c := by
  simp only [enterHandler]
  refine T.trans (b := (if cfg.obs then { s with c := { s.c.emit (.obs d .hs s.c.nextObs op ty async) with nextObs := s.c.nextObs + 1 } } else s).c) ?_ ?_
  · split
    · exact T.trans (T.emit _ _ rfl) (T.same rfl rfl rfl)
    · exact T.refl _
  · exact T.trans (T.emit _ _ rfl) (T.same rfl rfl rfl)

theorem bodyResult_T (h : TR rec) (r : Reg) (ty v root op d : Nat) (async : Bool) (s : St R) :
    T s.c (bodyResult cfg rec r ty v root op d async s).c := by
  simp only [bodyResult]
  exact T.trans (enterHandler_T cfg r ty v root op d async s) (runBody_T h _ _ _)

theorem callHandler_T (h : TR rec) (r : Reg) (ty v root op d : Nat) (async : Bool) (s : St R) :
    T s.c (callHandler cfg rec r ty v root op d async s).c := by
  simp only [callHandler]
  refine T.trans (bodyResult_T cfg h r ty v root op d async s) ?_
  generalize bodyResult cfg rec r ty v root op d async s = s1
  refine T.trans ?_ (T.emitIf _ _ _ rfl)
  refine T.trans (T.emit s1.c (.exit (d + 1) r.rid) rfl) ?_
  refine T.trans (b := { s1.c.emit (.exit (d + 1) r.rid) with panicking := none }) (T.same rfl rfl rfl) ?_
  split
  · exact T.emitIf _ _ _ rfl
  · exact T.refl _

theorem dFilt0_T (d v : Nat) (r : Reg) (s : St R) : T s.c (dFilt0 d v r s).c := by
  simp only [dFilt0]
  split
  · exact T.emit _ _ rfl
  · exact T.refl _

theorem cancelRoot_T (root : Nat) (s : St R) : T s.c (cancelRoot root s).c := by
  simp only [cancelRoot]
  split
  · exact T.refl _
  · exact T.same rfl rfl rfl

theorem dFilt_T (d v root : Nat) (r : Reg) (s : St R) : T s.c (dFilt d v root r s).c := by
  simp only [dFilt]
  split
  · exact T.trans (dFilt0_T d v r s) (cancelRoot_T root _)
  · exact dFilt0_T d v r s

theorem dClaim_T (r : Reg) (s : St R) : T s.c (dClaim r s).c := by
  simp only [dClaim]
  split
  · exact T.same rfl rfl rfl
  · exact T.refl _

theorem deliver_T (h : TR rec) (ty v root obs d : Nat) (acc : St R × List Reg) (r : Reg) :
    T acc.1.c (deliver cfg rec ty v root obs d acc r).1.c := by
  obtain ⟨s, claimed⟩ := acc
  rw [deliver_eq]
  simp only
  refine T.trans (dFilt_T d v root r s) ?_
  generalize dFilt d v root r s = s1
  split
  · exact T.refl _
  split
  · exact T.refl _
  split
  · exact T.refl _
  refine T.trans (dClaim_T r s1) ?_
  generalize dClaim r s1 = s2
  split
  · exact T.same rfl rfl rfl
  split
  · exact T.refl _
  · exact callHandler_T cfg h _ _ _ _ _ _ _ _

theorem loop_T (h : TR rec) (ty v root obs d : Nat) (l : List Reg) (acc : St R × List Reg) :
    T acc.1.c (l.foldl (deliver cfg rec ty v root obs d) acc).1.c := by
  induction l generalizing acc with
  | nil => exact T.refl _
  | cons r l ih =>
    simp only [List.foldl_cons]
    exact T.trans (deliver_T cfg h ty v root obs d acc r) (ih _)

theorem pubCtx_T (fr : Frame) (sel : CtxSel) (s : St R) : T s.c (pubCtx fr sel s).2.2.c := by
  cases sel <;> simp only [pubCtx]
  · exact T.refl _
  · exact T.same rfl rfl rfl
  · exact T.same rfl rfl rfl
  · split <;> exact T.refl _

theorem pubPre_T (d ty v obs0 : Nat) (s : St R) : T s.c (pubPre cfg d ty v obs0 s).c := by
  simp only [pubPre]
  refine T.trans ?_ (T.emitIf _ _ _ rfl)
  refine T.trans ?_ (T.emitIf _ _ _ rfl)
  split
  · exact T.trans (T.emit _ _ rfl) (T.same rfl rfl rfl)
  · exact T.refl _

theorem pubPost_T (d ty v pid : Nat) (acc : St R × List Reg) : T acc.1.c (pubPost I cfg d ty v pid acc).c := by
  obtain ⟨s, claimed⟩ := acc
  simp only [pubPost]
  refine T.trans ?_ (T.emitIf _ _ _ rfl)
  refine T.trans ?_ (T.emitIf _ _ _ rfl)
  refine T.trans ?_ (T.emitIf _ _ _ rfl)
  split <;> exact T.refl _

theorem publish_T (h : TR rec) (fr : Frame) (ty v : Nat) (bad : Bool) (sel : CtxSel) (s : St R) :
    T s.c (publish I cfg rec fr ty v bad sel s).c := by
  rw [publish_eq]
  simp only
  refine T.trans (pubCtx_T fr sel s) ?_
  refine T.trans (pubPre_T cfg fr.depth ty v (pubCtx fr sel s).2.1 _) ?_
  refine T.trans ?_ (pubPost_T I cfg _ _ _ _ _)
  refine T.trans ?_ (loop_T cfg h _ _ _ _ _ _ _)
  exact T.persist _ _ _ _ _ _ _

theorem runPending_T (h : TR rec) (p : Pending) (s : St R) : T s.c (runPending cfg rec p s).c := by
  simp only [runPending]
  split
  · exact T.refl _
  · exact callHandler_T cfg h _ _ _ _ _ _ _ _

theorem step_T (h : TR rec) : TR (step I cfg rec) := by
  intro fr s a
  cases a <;> simp only [step]
  case subscribe => exact T.same rfl rfl rfl
  case unsubscribe => split <;> exact T.emit _ _ rfl
  case clear => exact T.refl _
  case clearAll => exact T.refl _
  case publish =>
    split
    · exact T.emit _ _ rfl
    · exact publish_T I cfg h _ _ _ _ _ _
  case cancel =>
    split
    · exact T.refl _
    · exact T.same rfl rfl rfl
  case cancelId =>
    split
    · exact T.refl _
    · exact T.same rfl rfl rfl
  case panic =>
    split
    · exact T.refl _
    · exact T.same rfl rfl rfl
  case has => exact T.emit _ _ rfl
  case count => exact T.emit _ _ rfl
  case readLog => exact T.emit _ _ rfl
  case drain =>
    split
    · exact T.refl _
    · split
      · exact T.refl _
      · refine T.trans ?_ (h _ _ _)
        refine T.trans ?_ (runPending_T cfg h _ _)
        exact T.same rfl rfl rfl

theorem exec_T (n : Nat) : TR (exec I cfg n) := by
  induction n with
  | zero => intro fr s a; exact T.same rfl rfl rfl
  | succ n ih => intro fr s a; exact step_T I cfg ih fr s a

end tstep

end Persist
open Persist

/-- C09/C13: in every run the log has exactly one record per successful append, and the
offsets handed out are 1, 2, 3, … in order (distinct, strictly increasing), also across
failed appends -/
theorem offsets_increasing {R : Type} (I : RegImpl R) (cfg : Config) (fuel : Nat) (faults : List Bool)
    (prog : List Action) :
    let s := run I cfg fuel faults prog
    okOffsets s.c.trace = (List.range s.c.log.length).map (· + 1) ∧ s.c.lastOffset = s.c.log.length := by
  show OffInv (run I cfg fuel faults prog).c
  unfold run
  have h0 : OffInv (initSt I faults).c := by simp [OffInv, initSt, Core.trace, okOffsets]
  generalize initSt I faults = s0 at h0
  induction prog generalizing s0 with
  | nil => exact h0
  | cons a as ih =>
    simp only [List.foldl_cons]
    exact ih _ ((exec_T I cfg fuel {} s0 a).inv h0)

namespace Persist

/-! ### C09: the record is appended before any handler is entered -/

theorem pubCtx_same {R : Type} (fr : Frame) (sel : CtxSel) (s : St R) :
    (pubCtx fr sel s).2.2.c.rtrace = s.c.rtrace ∧ (pubCtx fr sel s).2.2.c.log = s.c.log ∧
    (pubCtx fr sel s).2.2.c.appendFaults = s.c.appendFaults := by
  cases sel <;> simp only [pubCtx] <;> (try split) <;> simp

theorem pubPre_spec {R : Type} (cfg : Config) (d ty v obs0 : Nat) (s : St R) :
    ∃ pre, (pubPre cfg d ty v obs0 s).c.trace = s.c.trace ++ pre ∧
      (∀ e ∈ pre, isEnter e = false ∧ isAppend e = false) ∧
      (pubPre cfg d ty v obs0 s).c.log = s.c.log ∧
      (pubPre cfg d ty v obs0 s).c.appendFaults = s.c.appendFaults := by
  cases h1 : cfg.obs <;> cases h2 : cfg.hookBL <;> cases h3 : cfg.hookBC <;>
    simp [pubPre, h1, h2, h3, emitIf, Core.emit, Core.trace, isEnter, isAppend]

theorem persist_ok (cfg : Config) (d ty v op : Nat) (c : Core) (sid : Nat) (hstore : cfg.store = some sid)
    (hok : c.appendFaults.headD false = false) :
    ∃ pre post, (persist cfg d ty v false op c).trace =
        c.trace ++ pre ++ [Ev.append d sid ty v true (c.log.length + 1)] ++ post ∧
      (∀ e ∈ pre, isEnter e = false ∧ isAppend e = false) ∧
      (persist cfg d ty v false op c).log = c.log ++ [(ty, v)] := by
  have hf' : c.appendFaults.head?.getD false = false := by simpa using hok
  cases ho : cfg.obs
  · refine ⟨[], [], ?_, by simp, ?_⟩ <;>
      cases hp : cfg.perrH <;> simp [persist, hstore, ho, hp, hf', emitIf, Core.emit, Core.trace]
  · refine ⟨[.obs d .rs c.nextObs op ty false], [.obs d .rc c.nextObs 0 ty false], ?_, by simp [isEnter, isAppend], ?_⟩ <;>
      cases hp : cfg.perrH <;> simp [persist, hstore, ho, hp, hf', emitIf, Core.emit, Core.trace]

end Persist
open Persist

/-- C09: in the events of one publish, the append of its record (when there is a store and
the event is encodable) comes before every handler entry of that publish, and the log the
handlers see already contains it -/
theorem publish_persists_first {R : Type} (I : RegImpl R) (cfg : Config) (n : Nat) (fr : Frame)
    (ty v : Nat) (sel : CtxSel) (s : St R) (sid : Nat) (hstore : cfg.store = some sid)
    (hok : s.c.appendFaults.headD false = false) :
    let s' := publish I cfg (exec I cfg n) fr ty v false sel s
    ∃ pre post, newTrace s s' = pre ++ [Ev.append fr.depth sid ty v true (s.c.log.length + 1)] ++ post ∧
      (∀ e ∈ pre, isEnter e = false ∧ isAppend e = false) ∧
      (∃ l, s'.c.log = s.c.log ++ (ty, v) :: l) := by
  intro s'
  have hs' : s' = publish I cfg (exec I cfg n) fr ty v false sel s := rfl
  rw [publish_eq] at hs'
  simp only at hs'
  obtain ⟨c1, c2, c3⟩ := pubCtx_same fr sel s
  generalize pubCtx fr sel s = t at hs' c1 c2 c3
  obtain ⟨root, obs0, s0⟩ := t
  simp only at hs' c1 c2 c3
  obtain ⟨pre1, p1, p2, p3, p4⟩ := pubPre_spec cfg fr.depth ty v obs0 s0
  generalize pubPre cfg fr.depth ty v obs0 s0 = s1 at hs' p1 p3 p4
  have hok1 : s1.c.appendFaults.headD false = false := by rw [p4, c3]; exact hok
  obtain ⟨pre2, post2, q1, q2, q3⟩ := persist_ok cfg fr.depth ty v
    (if cfg.obs then s0.c.nextObs else obs0) s1.c sid hstore hok1
  generalize persist cfg fr.depth ty v false (if cfg.obs then s0.c.nextObs else obs0) s1.c = c2' at hs' q1 q3
  have hl := loop_T cfg (exec_T I cfg n) ty v root (if cfg.obs then s0.c.nextObs else obs0) fr.depth
    (I.get s1.reg ty) (({ reg := s1.reg, c := c2' } : St R), [])
  have hp := pubPost_T I cfg fr.depth ty v s0.c.nextObs
    (List.foldl (deliver cfg (exec I cfg n) ty v root (if cfg.obs then s0.c.nextObs else obs0) fr.depth)
      (({ reg := s1.reg, c := c2' } : St R), []) (I.get s1.reg ty))
  rw [← hs'] at hp
  have hT := T.trans hl hp
  obtain ⟨⟨l, e1⟩, ⟨m, e2⟩, _⟩ := hT
  simp only at e1 e2
  have ht0 : s0.c.trace = s.c.trace := by simp [Core.trace, c1]
  refine ⟨pre1 ++ pre2, post2 ++ l, ?_, ?_, ⟨m, ?_⟩⟩
  · simp only [newTrace]
    rw [e1, q1, p1, ht0, p3, c2]
    simp [List.append_assoc]
  · intro e he
    rcases List.mem_append.mp he with he | he
    · exact p2 e he
    · exact q2 e he
  · rw [e2, q3, p3, c2]
    simp

namespace Persist

/-! ### C13: delivery does not depend on the fault script -/

/-- forget everything a store fault may change -/
def norm (c : Core) : Core :=
  { c with log := [], lastOffset := 0, appendFaults := [],
           rtrace := c.rtrace.filter (fun e => !isPersistEv e) }

theorem norm_eq_iff (c1 c2 : Core) : norm c1 = norm c2 ↔
    c1.nextRid = c2.nextRid ∧ c1.executed = c2.executed ∧ c1.cancelled = c2.cancelled ∧
    c1.nextCtx = c2.nextCtx ∧ c1.pending = c2.pending ∧
    c1.rtrace.filter (fun e => !isPersistEv e) = c2.rtrace.filter (fun e => !isPersistEv e) ∧
    c1.panicking = c2.panicking ∧ c1.nextObs = c2.nextObs ∧ c1.calls = c2.calls ∧
    c1.outOfFuel = c2.outOfFuel := by
  simp only [norm, Core.mk.injEq, true_and]

def RS {R : Type} (s1 s2 : St R) : Prop := s1.reg = s2.reg ∧ norm s1.c = norm s2.c

theorem RS.refl {R : Type} (s : St R) : RS s s := ⟨rfl, rfl⟩

theorem ite_pair {α : Type} {p : Prop} [Decidable p] {a1 b1 a2 b2 : α} (Q : α → α → Prop)
    (ht : p → Q a1 a2) (he : ¬p → Q b1 b2) : Q (if p then a1 else b1) (if p then a2 else b2) := by
  split
  · exact ht ‹_›
  · exact he ‹_›

section rstep
variable {R : Type} (I : RegImpl R) (cfg : Config)

/-- brute force for straight-line pieces -/
local macro "rs_brute" : tactic => `(tactic|
  (simp only [RS, norm_eq_iff] at *
   simp_all [emitIf, Core.emit, List.filter_cons, isPersistEv]))

theorem enterHandler_RS (r : Reg) (ty v root op d : Nat) (async : Bool) {s1 s2 : St R} (h : RS s1 s2) :
    RS (enterHandler cfg r ty v root op d async s1).1 (enterHandler cfg r ty v root op d async s2).1 ∧
    (enterHandler cfg r ty v root op d async s1).2 = (enterHandler cfg r ty v root op d async s2).2 := by
  obtain ⟨r1, c1⟩ := s1; obtain ⟨r2, c2⟩ := s2
  cases ho : cfg.obs <;> simp only [enterHandler, ho] <;> rs_brute


variable (rec : Frame → St R → Action → St R)

def RR : Prop := ∀ fr a (s1 s2 : St R), RS s1 s2 → RS (rec fr s1 a) (rec fr s2 a)

variable {rec}

theorem runBody_RS (h : RR rec) (fr : Frame) (acts : List Action) {s1 s2 : St R} (hs : RS s1 s2) :
    RS (runBody rec fr s1 acts) (runBody rec fr s2 acts) := by
  induction acts generalizing s1 s2 with
  | nil => exact hs
  | cons a as ih =>
    simp only [runBody, List.foldl_cons]
    apply ih
    have hp : s1.c.panicking = s2.c.panicking := ((norm_eq_iff _ _).mp hs.2).2.2.2.2.2.2.1
    rw [hp]
    exact ite_pair RS (fun _ => hs) (fun _ => h fr a s1 s2 hs)

theorem bodyResult_eq (r : Reg) (ty v root op d : Nat) (async : Bool) (s : St R) :
    bodyResult cfg rec r ty v root op d async s =
      runBody rec { depth := d + 1, root := root, obs := (enterHandler cfg r ty v root op d async s).2,
                    ctxAware := r.ctxAware }
        (enterHandler cfg r ty v root op d async s).1 (cfg.bodies.getD r.body []) := rfl

theorem bodyResult_RS (h : RR rec) (r : Reg) (ty v root op d : Nat) (async : Bool) {s1 s2 : St R}
    (hs : RS s1 s2) :
    RS (bodyResult cfg rec r ty v root op d async s1) (bodyResult cfg rec r ty v root op d async s2) := by
  rw [bodyResult_eq, bodyResult_eq]
  obtain ⟨e1, e2⟩ := enterHandler_RS cfg r ty v root op d async hs
  rw [e2]
  exact runBody_RS h _ _ e1

def chPost (r : Reg) (ty v d hid : Nat) (s : St R) : St R :=
  let s : St R := { s with c := s.c.emit (.exit (d + 1) r.rid) }
  let pv := s.c.panicking
  let s : St R := { s with c := { s.c with panicking := none } }
  let s : St R := match pv with
    | some val => { s with c := emitIf cfg.panicH s.c (.panich d r.ctxAware ty v val) }
    | none => s
  { s with c := emitIf cfg.obs s.c (.obs d .hc hid 0 ty pv.isSome) }

theorem callHandler_eq (r : Reg) (ty v root op d : Nat) (async : Bool) (s : St R) :
    callHandler cfg rec r ty v root op d async s =
      chPost cfg r ty v d s.c.nextObs (bodyResult cfg rec r ty v root op d async s) := rfl

theorem chPost_RS (r : Reg) (ty v d hid : Nat) {s1 s2 : St R} (hs : RS s1 s2) :
    RS (chPost cfg r ty v d hid s1) (chPost cfg r ty v d hid s2) := by
  obtain ⟨r1, c1⟩ := s1; obtain ⟨r2, c2⟩ := s2
  have hp : c1.panicking = c2.panicking := ((norm_eq_iff _ _).mp hs.2).2.2.2.2.2.2.1
  simp only [chPost]
  cases hpv : c2.panicking <;> cases ho : cfg.obs <;> cases hh : cfg.panicH <;>
    simp only [Core.emit, hp, hpv] <;> rs_brute

theorem callHandler_RS (h : RR rec) (r : Reg) (ty v root op d : Nat) (async : Bool) {s1 s2 : St R}
    (hs : RS s1 s2) :
    RS (callHandler cfg rec r ty v root op d async s1) (callHandler cfg rec r ty v root op d async s2) := by
  rw [callHandler_eq, callHandler_eq]
  have hn : s1.c.nextObs = s2.c.nextObs := ((norm_eq_iff _ _).mp hs.2).2.2.2.2.2.2.2.1
  rw [hn]
  exact chPost_RS cfg _ _ _ _ _ (bodyResult_RS cfg h _ _ _ _ _ _ _ hs)


def PR (x y : St R × List Reg) : Prop := RS x.1 y.1 ∧ x.2 = y.2

theorem dFilt0_RS (d v : Nat) (r : Reg) {s1 s2 : St R} (hs : RS s1 s2) :
    RS (dFilt0 d v r s1) (dFilt0 d v r s2) := by
  obtain ⟨r1, c1⟩ := s1; obtain ⟨r2, c2⟩ := s2
  simp only [dFilt0]
  split <;> rs_brute

theorem cancelRoot_RS (root : Nat) {s1 s2 : St R} (hs : RS s1 s2) :
    RS (cancelRoot root s1) (cancelRoot root s2) := by
  obtain ⟨r1, c1⟩ := s1; obtain ⟨r2, c2⟩ := s2
  simp only [cancelRoot]
  split <;> rs_brute

theorem dFilt_RS (d v root : Nat) (r : Reg) {s1 s2 : St R} (hs : RS s1 s2) :
    RS (dFilt d v root r s1) (dFilt d v root r s2) := by
  simp only [dFilt]
  split
  · exact cancelRoot_RS root (dFilt0_RS d v r hs)
  · exact dFilt0_RS d v r hs

theorem dClaim_RS (r : Reg) {s1 s2 : St R} (hs : RS s1 s2) : RS (dClaim r s1) (dClaim r s2) := by
  obtain ⟨r1, c1⟩ := s1; obtain ⟨r2, c2⟩ := s2
  simp only [dClaim]
  split <;> rs_brute

theorem RS.live {s1 s2 : St R} (hs : RS s1 s2) (root : Nat) : s1.c.live root = s2.c.live root := by
  have hp : s1.c.cancelled = s2.c.cancelled := ((norm_eq_iff _ _).mp hs.2).2.2.1
  simp only [Core.live, hp]

theorem RS.executed {s1 s2 : St R} (hs : RS s1 s2) : s1.c.executed = s2.c.executed :=
  ((norm_eq_iff _ _).mp hs.2).2.1

theorem deliver_RS (h : RR rec) (ty v root obs d : Nat) (r : Reg) {a1 a2 : St R × List Reg}
    (ha : PR a1 a2) :
    PR (deliver cfg rec ty v root obs d a1 r) (deliver cfg rec ty v root obs d a2 r) := by
  obtain ⟨s1, cl1⟩ := a1; obtain ⟨s2, cl2⟩ := a2
  obtain ⟨hs, hcl⟩ := ha
  simp only at hs hcl
  subst hcl
  rw [deliver_eq, deliver_eq]
  simp only
  have h1 := dFilt_RS d v root r hs
  generalize dFilt d v root r s1 = t1 at h1
  generalize dFilt d v root r s2 = t2 at h1
  rw [h1.live root, h1.executed]
  refine ite_pair PR (fun _ => ⟨h1, rfl⟩) (fun _ => ?_)
  refine ite_pair PR (fun _ => ⟨h1, rfl⟩) (fun _ => ?_)
  refine ite_pair PR (fun _ => ⟨h1, rfl⟩) (fun _ => ?_)
  have h2 := dClaim_RS r h1
  generalize dClaim r t1 = u1 at h2
  generalize dClaim r t2 = u2 at h2
  rw [h2.live root]
  refine ite_pair PR (fun _ => ⟨?_, rfl⟩) (fun _ => ?_)
  · obtain ⟨r1, c1⟩ := u1; obtain ⟨r2, c2⟩ := u2
    rs_brute
  refine ite_pair PR (fun _ => ⟨h2, rfl⟩) (fun _ => ⟨?_, rfl⟩)
  exact callHandler_RS cfg h _ _ _ _ _ _ _ h2

theorem loop_RS (h : RR rec) (ty v root obs d : Nat) (l : List Reg) {a1 a2 : St R × List Reg}
    (ha : PR a1 a2) :
    PR (l.foldl (deliver cfg rec ty v root obs d) a1) (l.foldl (deliver cfg rec ty v root obs d) a2) := by
  induction l generalizing a1 a2 with
  | nil => exact ha
  | cons r l ih =>
    simp only [List.foldl_cons]
    exact ih (deliver_RS cfg h ty v root obs d r ha)

theorem pubCtx_RS (fr : Frame) (sel : CtxSel) {s1 s2 : St R} (hs : RS s1 s2) :
    (pubCtx fr sel s1).1 = (pubCtx fr sel s2).1 ∧ (pubCtx fr sel s1).2.1 = (pubCtx fr sel s2).2.1 ∧
    RS (pubCtx fr sel s1).2.2 (pubCtx fr sel s2).2.2 := by
  obtain ⟨r1, c1⟩ := s1; obtain ⟨r2, c2⟩ := s2
  cases sel <;> simp only [pubCtx] <;> (try split) <;> rs_brute

theorem pubPre_RS (d ty v obs0 : Nat) {s1 s2 : St R} (hs : RS s1 s2) :
    RS (pubPre cfg d ty v obs0 s1) (pubPre cfg d ty v obs0 s2) := by
  obtain ⟨r1, c1⟩ := s1; obtain ⟨r2, c2⟩ := s2
  simp only [pubPre]
  cases cfg.obs <;> cases cfg.hookBL <;> cases cfg.hookBC <;> rs_brute

theorem persist_norm1 (d ty v : Nat) (bad : Bool) (op : Nat) (c : Core) :
    norm (persist cfg d ty v bad op c) =
      (if (cfg.store.isSome && !bad && cfg.obs) = true then
        { (norm c).emit (.obs d .rs c.nextObs op ty false) with nextObs := c.nextObs + 1 }
       else norm c) := by
  simp only [persist]
  cases cfg.store with
  | none => rfl
  | some sid =>
    rcases Bool.eq_false_or_eq_true (c.appendFaults.head?.getD false) with hf | hf <;>
    cases bad <;> cases cfg.obs <;> cases cfg.perrH <;>
      simp [hf, norm, emitIf, Core.emit, isPersistEv]

theorem persist_norm (d ty v : Nat) (bad : Bool) (op : Nat) {c1 c2 : Core} (hc : norm c1 = norm c2) :
    norm (persist cfg d ty v bad op c1) = norm (persist cfg d ty v bad op c2) := by
  have hn : c1.nextObs = c2.nextObs := ((norm_eq_iff _ _).mp hc).2.2.2.2.2.2.2.1
  rw [persist_norm1, persist_norm1, hc, hn]

theorem pubPost_RS (d ty v pid : Nat) {a1 a2 : St R × List Reg} (ha : PR a1 a2) :
    RS (pubPost I cfg d ty v pid a1) (pubPost I cfg d ty v pid a2) := by
  obtain ⟨⟨r1, c1⟩, cl1⟩ := a1; obtain ⟨⟨r2, c2⟩, cl2⟩ := a2
  obtain ⟨hs, hcl⟩ := ha
  simp only at hs hcl
  subst hcl
  simp only [pubPost]
  cases cl1.isEmpty <;> cases cfg.obs <;> cases cfg.hookAL <;> cases cfg.hookAC <;> rs_brute

theorem RS.nextObs {s1 s2 : St R} (hs : RS s1 s2) : s1.c.nextObs = s2.c.nextObs :=
  ((norm_eq_iff _ _).mp hs.2).2.2.2.2.2.2.2.1

theorem publish_RS (h : RR rec) (fr : Frame) (ty v : Nat) (bad : Bool) (sel : CtxSel) {s1 s2 : St R}
    (hs : RS s1 s2) :
    RS (publish I cfg rec fr ty v bad sel s1) (publish I cfg rec fr ty v bad sel s2) := by
  rw [publish_eq, publish_eq]
  simp only
  obtain ⟨e1, e2, e3⟩ := pubCtx_RS fr sel hs
  generalize pubCtx fr sel s1 = t1 at e1 e2 e3
  generalize pubCtx fr sel s2 = t2 at e1 e2 e3
  obtain ⟨root1, obs1, u1⟩ := t1; obtain ⟨root2, obs2, u2⟩ := t2
  simp only at e1 e2 e3 ⊢
  subst e1 e2
  rw [e3.nextObs]
  have h1 := pubPre_RS cfg fr.depth ty v obs1 e3
  generalize pubPre cfg fr.depth ty v obs1 u1 = w1 at h1
  generalize pubPre cfg fr.depth ty v obs1 u2 = w2 at h1
  apply pubPost_RS
  rw [h1.1]
  apply loop_RS cfg h
  exact ⟨⟨rfl, persist_norm cfg _ _ _ _ _ h1.2⟩, rfl⟩

theorem runPending_RS (h : RR rec) (p : Pending) {s1 s2 : St R} (hs : RS s1 s2) :
    RS (runPending cfg rec p s1) (runPending cfg rec p s2) := by
  simp only [runPending]
  rw [hs.live]
  exact ite_pair RS (fun _ => hs) (fun _ => callHandler_RS cfg h _ _ _ _ _ _ _ hs)


theorem step_RS (h : RR rec) : RR (step I cfg rec) := by
  intro fr a s1 s2 hs
  cases a <;> simp only [step]
  case subscribe =>
    obtain ⟨r1, c1⟩ := s1; obtain ⟨r2, c2⟩ := s2
    rs_brute
  case unsubscribe =>
    rw [hs.1]
    refine ite_pair RS (fun _ => ?_) (fun _ => ?_) <;>
      (obtain ⟨r1, c1⟩ := s1; obtain ⟨r2, c2⟩ := s2; rs_brute)
  case clear => exact ⟨by simp only [hs.1], hs.2⟩
  case clearAll => exact ⟨by simp only [hs.1], hs.2⟩
  case publish =>
    have hc : s1.c.calls = s2.c.calls := ((norm_eq_iff _ _).mp hs.2).2.2.2.2.2.2.2.2.1
    rw [hc]
    refine ite_pair RS (fun _ => ?_) (fun _ => publish_RS I cfg h _ _ _ _ _ hs)
    obtain ⟨r1, c1⟩ := s1; obtain ⟨r2, c2⟩ := s2; rs_brute
  case cancel =>
    refine ite_pair RS (fun _ => hs) (fun _ => ?_)
    obtain ⟨r1, c1⟩ := s1; obtain ⟨r2, c2⟩ := s2; rs_brute
  case cancelId =>
    have hc : s1.c.nextCtx = s2.c.nextCtx := ((norm_eq_iff _ _).mp hs.2).2.2.2.1
    rw [hc]
    refine ite_pair RS (fun _ => hs) (fun _ => ?_)
    obtain ⟨r1, c1⟩ := s1; obtain ⟨r2, c2⟩ := s2; rs_brute
  case panic =>
    refine ite_pair RS (fun _ => hs) (fun _ => ?_)
    obtain ⟨r1, c1⟩ := s1; obtain ⟨r2, c2⟩ := s2; rs_brute
  case has => obtain ⟨r1, c1⟩ := s1; obtain ⟨r2, c2⟩ := s2; rs_brute
  case count => obtain ⟨r1, c1⟩ := s1; obtain ⟨r2, c2⟩ := s2; rs_brute
  case readLog => obtain ⟨r1, c1⟩ := s1; obtain ⟨r2, c2⟩ := s2; rs_brute
  case drain =>
    refine ite_pair RS (fun _ => hs) (fun _ => ?_)
    have hp : s1.c.pending = s2.c.pending := ((norm_eq_iff _ _).mp hs.2).2.2.2.2.1
    cases hp2 : s2.c.pending with
    | nil => rw [hp2] at hp; simp only [hp]; exact hs
    | cons p ps =>
      rw [hp2] at hp; simp only [hp]
      apply h
      apply runPending_RS cfg h
      obtain ⟨r1, c1⟩ := s1; obtain ⟨r2, c2⟩ := s2; rs_brute

theorem exec_RS (n : Nat) : RR (exec I cfg n) := by
  induction n with
  | zero =>
    intro fr a s1 s2 hs
    simp only [exec]
    obtain ⟨r1, c1⟩ := s1; obtain ⟨r2, c2⟩ := s2; rs_brute
  | succ n ih => intro fr a s1 s2 hs; exact step_RS I cfg ih fr a s1 s2 hs

end rstep

end Persist
open Persist

/-- C13: which handlers run, in which order, with which events and results of registry
queries does not depend on whether appends fail: two runs that differ only in the fault
script have the same trace once the persistence events are removed -/
theorem delivery_independent_of_faults {R : Type} (I : RegImpl R) (cfg : Config) (fuel : Nat)
    (f1 f2 : List Bool) (prog : List Action) :
    (run I cfg fuel f1 prog).c.trace.filter (fun e => !isPersistEv e) =
    (run I cfg fuel f2 prog).c.trace.filter (fun e => !isPersistEv e) := by
  have h : RS (run I cfg fuel f1 prog) (run I cfg fuel f2 prog) := by
    unfold run
    have h0 : RS (initSt I f1) (initSt I f2) := ⟨rfl, rfl⟩
    generalize initSt I f1 = s1 at h0
    generalize initSt I f2 = s2 at h0
    induction prog generalizing s1 s2 with
    | nil => exact h0
    | cons a as ih =>
      simp only [List.foldl_cons]
      exact ih _ _ (exec_RS I cfg fuel {} a s1 s2 h0)
  have ht := ((norm_eq_iff _ _).mp h.2).2.2.2.2.2.1
  simp only [Core.trace, List.filter_reverse, ht]


end Ebu.Bus

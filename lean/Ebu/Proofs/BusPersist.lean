import Ebu.Spec.Bus
/-!
Persistence inside the bus machine (C09, C13): option order, one record per publish before
any handler, offsets, containment of failures.
-/
namespace Ebu.Bus

/-- the configuration produced by an option list does not depend on where `WithStore` stands:
the store is the last `WithStore` given (or the base one), every flag is "was it given" -/
theorem applyOptions_spec (base : Config) (opts : List Opt) :
    let c := applyOptions base opts
    c.store = (match lastStore opts with | some sid => some sid | none => base.store) ∧
    c.hookBL = (base.hookBL || opts.contains .hookBL) ∧ c.hookBC = (base.hookBC || opts.contains .hookBC) ∧
    c.hookAL = (base.hookAL || opts.contains .hookAL) ∧ c.hookAC = (base.hookAC || opts.contains .hookAC) ∧
    c.panicH = (base.panicH || opts.contains .panicH) ∧ c.perrH = (base.perrH || opts.contains .perrH) ∧
    c.obs = (base.obs || opts.contains .obs) ∧ c.maxDepth = base.maxDepth ∧ c.maxCalls = base.maxCalls ∧
    c.bodies = base.bodies := by
  sorry

/-- every permutation of an option list that names one store gives the same bus -/
theorem applyOptions_perm (base : Config) (opts opts' : List Opt) (sid : Nat)
    (hperm : opts.Perm opts') (hone : ∀ o ∈ opts, ∀ k, o = .store k → k = sid) :
    applyOptions base opts = applyOptions base opts' := by
  sorry

/-- what `persistEvent` does, case by case -/
theorem persist_spec (cfg : Config) (d ty v : Nat) (bad : Bool) (obsParent : Nat) (c : Core) :
    let c' := persist cfg d ty v bad obsParent c
    -- no store: nothing at all
    (cfg.store = none → c' = c) ∧
    -- unencodable event: no append attempt, the error handler (if set) is told once
    (∀ sid, cfg.store = some sid → bad = true →
        c'.log = c.log ∧ c'.lastOffset = c.lastOffset ∧ c'.appendFaults = c.appendFaults ∧
        c'.trace = c.trace ++ (if cfg.perrH then [Ev.perr d ty v true] else [])) ∧
    -- the store accepts: exactly one record with the event's type and data, next offset
    (∀ sid, cfg.store = some sid → bad = false → c.appendFaults.headD false = false →
        c'.log = c.log ++ [(ty, v)] ∧ c'.lastOffset = c.log.length + 1 ∧
        (c'.trace.drop c.trace.length).filter (fun e => isAppend e || (match e with | .perr .. => true | _ => false)) =
          [Ev.append d sid ty v true (c.log.length + 1)]) ∧
    -- the store rejects: no record, no retry, one report
    (∀ sid, cfg.store = some sid → bad = false → c.appendFaults.headD false = true →
        c'.log = c.log ∧ c'.lastOffset = c.lastOffset ∧
        (c'.trace.drop c.trace.length).filter (fun e => isAppend e || (match e with | .perr .. => true | _ => false)) =
          [Ev.append d sid ty v false 0] ++ (if cfg.perrH then [Ev.perr d ty v false] else [])) := by
  sorry

/-- C09: in the events of one publish, the append of its record (when there is a store and
the event is encodable) comes before every handler entry of that publish, and the log the
handlers see already contains it -/
theorem publish_persists_first {R : Type} (I : RegImpl R) (cfg : Config) (n : Nat) (fr : Frame)
    (ty v : Nat) (sel : CtxSel) (s : St R) (sid : Nat) (hstore : cfg.store = some sid)
    (hok : s.c.appendFaults.headD false = false) :
    let s' := publish I cfg (exec I cfg n) fr ty v false sel s
    ∃ pre post, newTrace s s' = pre ++ [Ev.append fr.depth sid ty v true (s.c.log.length + 1)] ++ post ∧
      (∀ e ∈ pre, isEnter e = false ∧ isAppend e = false) ∧
      (∃ l, s'.c.log = s.c.log ++ (ty, v) :: l) := by
  sorry

/-- C09/C13: in every run the log has exactly one record per successful append, and the
offsets handed out are 1, 2, 3, … in order (distinct, strictly increasing), also across
failed appends -/
theorem offsets_increasing {R : Type} (I : RegImpl R) (cfg : Config) (fuel : Nat) (faults : List Bool)
    (prog : List Action) :
    let s := run I cfg fuel faults prog
    okOffsets s.c.trace = (List.range s.c.log.length).map (· + 1) ∧ s.c.lastOffset = s.c.log.length := by
  sorry

/-- C13: which handlers run, in which order, with which events and results of registry
queries does not depend on whether appends fail: two runs that differ only in the fault
script have the same trace once the persistence events are removed -/
theorem delivery_independent_of_faults {R : Type} (I : RegImpl R) (cfg : Config) (fuel : Nat)
    (f1 f2 : List Bool) (prog : List Action) :
    (run I cfg fuel f1 prog).c.trace.filter (fun e => !isPersistEv e) =
    (run I cfg fuel f2 prog).c.trace.filter (fun e => !isPersistEv e) := by
  sorry

end Ebu.Bus

import Ebu.Proofs.ConcProgressA
/-!
Deadlock freedom of the interleaving model, part B: provenance of the registrations that occur in a
reachable state (all come from ranked `subscribe` calls, identities are unique) and the rank
discipline of the activation stacks.
-/
namespace Ebu.Conc
namespace Inv

/-- the rank condition of `RankedOp`, for a registration -/
def RankedReg (ρ : Nat → Nat) (r : Reg) : Prop :=
  ∀ p ∈ r.body, ρ p.1 ≤ ρ r.ty ∧ (r.seq = true → r.async = false → ρ p.1 < ρ r.ty)

/-- the registration a program counter refers to -/
def pcReg : Pc → Option Reg
  | .filter r | .claimed r | .spawn r _ _ | .lock r _ | .enter r | .exit r => some r
  | _ => none

structure FrQ (Q : Reg → Prop) (f : Frame) : Prop where
  rest : ∀ r ∈ f.rest, Q r ∧ r.ty = f.ty
  hand : ∀ r, f.handler = some r → Q r ∧ r.ty = f.ty ∧ ∀ p ∈ f.body, p ∈ r.body

/-- `f` is an activation nested (directly or not) in the handler running in activation `g` -/
def Below (ρ : Nat → Nat) (f g : Frame) : Prop :=
  ρ f.ty ≤ ρ g.ty ∧ ∀ r, g.handler = some r → r.seq = true → r.async = false → ρ f.ty < ρ g.ty

structure ThQ (ρ : Nat → Nat) (Q : Reg → Prop) (th : Thread) : Prop where
  fr : ∀ f ∈ th.frames, FrQ Q f
  pcr : ∀ r, pcReg th.pc = some r → Q r ∧ ∀ f fs, th.frames = f :: fs → r.ty = f.ty
  job : ∀ j, th.job = some j → Q j.reg ∧ j.reg.ty = j.ty
  chain : th.frames.Pairwise (Below ρ)
  jobB : ∀ j, th.job = some j → ∀ f ∈ th.frames, ρ f.ty ≤ ρ j.ty
  prog : ∀ op ∈ th.prog, RankedOp ρ op

theorem FrQ.mono {Q Q' : Reg → Prop} {f : Frame} (hm : ∀ r, Q r → Q' r) (h : FrQ Q f) : FrQ Q' f :=
  ⟨fun r hr => ⟨hm r (h.rest r hr).1, (h.rest r hr).2⟩,
   fun r hr => ⟨hm r (h.hand r hr).1, (h.hand r hr).2⟩⟩

theorem ThQ.mono {ρ : Nat → Nat} {Q Q' : Reg → Prop} {th : Thread} (hm : ∀ r, Q r → Q' r) (h : ThQ ρ Q th) :
    ThQ ρ Q' th :=
  ⟨fun f hf => (h.fr f hf).mono hm, fun r hr => ⟨hm r (h.pcr r hr).1, (h.pcr r hr).2⟩,
   fun j hj => ⟨hm _ (h.job j hj).1, (h.job j hj).2⟩, h.chain, h.jobB, h.prog⟩

/-- where the dispatch loop may stop, in terms of `Q` -/
def QP (Q : Reg → Prop) (f : Frame) (r : Reg) (l : List Reg) : Prop :=
  Q r ∧ r.ty = f.ty ∧ ∀ x ∈ l, x ∈ f.rest

abbrev QShape (Q : Reg → Prop) (sh : Shared) (th : Thread) (f : Frame) (fs : List Frame) : Out → Prop :=
  Shape sh th f fs (QP Q f) (QP Q f) (QP Q f)

theorem Suf.qp {Q : Reg → Prop} {f : Frame} {r : Reg} {l : List Reg} (h : Suf f.rest r l)
    (hf : ∀ r ∈ f.rest, Q r ∧ r.ty = f.ty) : QP Q f r l := by
  have hr : r ∈ f.rest := h.subset (by simp)
  exact ⟨(hf r hr).1, (hf r hr).2, fun x hx => h.tail.subset hx⟩

theorem DShape.q {Q sh th f fs o} (h : DShape sh th f fs o) (hf : ∀ r ∈ f.rest, Q r ∧ r.ty = f.ty) :
    QShape Q sh th f fs o :=
  h.mono (fun _ _ h => h.qp hf) (fun _ _ h => h.qp hf) (fun _ _ h => h.1.qp hf)

theorem FShape.q {Q sh th f fs r0 o} (h : FShape sh th f fs r0 o) (hf : ∀ r ∈ f.rest, Q r ∧ r.ty = f.ty)
    (h0 : Q r0 ∧ r0.ty = f.ty) : QShape Q sh th f fs o :=
  h.mono (fun _ _ h => h.qp hf)
    (fun _ _ h => by
      rcases h with ⟨rfl, rfl⟩ | h
      · exact ⟨h0.1, h0.2, fun x hx => hx⟩
      · exact h.qp hf)
    (fun _ _ h => by
      rcases h.1 with ⟨rfl, rfl⟩ | h
      · exact ⟨h0.1, h0.2, fun x hx => hx⟩
      · exact h.qp hf)

theorem CShape.q {Q sh th f fs r0 o} (h : CShape sh th f fs r0 o) (hf : ∀ r ∈ f.rest, Q r ∧ r.ty = f.ty)
    (h0 : Q r0 ∧ r0.ty = f.ty) : QShape Q sh th f fs o :=
  h.mono (fun _ _ h => h.qp hf) (fun _ _ h => h.qp hf)
    (fun _ _ h => by
      rcases h with ⟨rfl, rfl⟩ | h
      · exact ⟨h0.1, h0.2, fun x hx => hx⟩
      · exact h.1.qp hf)

theorem Below.retop {ρ : Nat → Nat} {f f' g : Frame} (h : Below ρ f g) (hty : f'.ty = f.ty) : Below ρ f' g := by
  unfold Below at h ⊢; rw [hty]; exact h

theorem pairwise_retop {ρ : Nat → Nat} {f f' : Frame} {fs : List Frame} (h : (f :: fs).Pairwise (Below ρ))
    (hty : f'.ty = f.ty) : (f' :: fs).Pairwise (Below ρ) := by
  rw [List.pairwise_cons] at h ⊢
  exact ⟨fun g hg => (h.1 g hg).retop hty, h.2⟩

theorem Shape.thQ {ρ Q sh th f fs o} (h : QShape Q sh th f fs o) (hfn : f.handler = none)
    (hi : ThQ ρ Q { th with frames := f :: fs, pc := .snap }) : ThQ ρ Q o.th := by
  obtain ⟨fr, _, job, chain, jobB, prog⟩ := hi
  simp only [List.forall_mem_cons] at fr jobB
  have hch := (List.pairwise_cons.1 chain).2
  have key : ∀ (f' : Frame) (pc : Pc), f'.ty = f.ty → FrQ Q f' →
      (∀ r, pcReg pc = some r → Q r ∧ r.ty = f.ty) →
      ThQ ρ Q { th with frames := f' :: fs, pc := pc } := by
    intro f' pc hty hf' hpc
    refine ⟨?_, ?_, job, pairwise_retop chain hty, ?_, prog⟩
    · simp only [List.forall_mem_cons]; exact ⟨hf', fr.2⟩
    · intro r hr
      refine ⟨(hpc r hr).1, ?_⟩
      intro f'' fs'' he
      simp only [List.cons.injEq] at he
      rw [← he.1, hty]; exact (hpc r hr).2
    · intro j hj
      simp only [List.forall_mem_cons]
      exact ⟨by rw [hty]; exact (jobB j hj).1, (jobB j hj).2⟩
  have frq : ∀ (l : List Reg) (cl : List Nat), (∀ x ∈ l, x ∈ f.rest) → FrQ Q { f with rest := l, claimed := cl } := by
    intro l cl hl
    exact ⟨fun r hr => fr.1.rest r (hl r hr), fun r hr => by simp [hfn] at hr⟩
  cases h
  case ret => exact ⟨fr.2, by simp [pcReg], job, hch, fun j hj => (jobB j hj).2, prog⟩
  case retire => exact key _ _ rfl (frq _ _ (by simp)) (by simp [pcReg])
  case filter obs r rest' hp hf =>
    exact key _ _ rfl (frq _ _ hp.2.2) (by simp only [pcReg, Option.some.injEq]; rintro _ rfl; exact ⟨hp.1, hp.2.1⟩)
  case claimed obs r rest' hp ho hne hl =>
    exact key _ _ rfl (frq _ _ hp.2.2) (by simp only [pcReg, Option.some.injEq]; rintro _ rfl; exact ⟨hp.1, hp.2.1⟩)
  case spawn obs r rest' hp ha =>
    exact key _ _ rfl (frq _ _ hp.2.2) (by simp only [pcReg, Option.some.injEq]; rintro _ rfl; exact ⟨hp.1, hp.2.1⟩)
  case lock obs r rest' hp ha hs hl =>
    exact key _ _ rfl (frq _ _ hp.2.2) (by simp only [pcReg, Option.some.injEq]; rintro _ rfl; exact ⟨hp.1, hp.2.1⟩)
  case enter obs r rest' hp ha hs hl =>
    refine key _ _ rfl ?_ (by simp only [pcReg, Option.some.injEq]; rintro _ rfl; exact ⟨hp.1, hp.2.1⟩)
    refine ⟨fun r' hr' => fr.1.rest r' (hp.2.2 r' hr'), ?_⟩
    intro r' hr'
    simp only [Option.some.injEq] at hr'
    subst hr'
    exact ⟨hp.1, hp.2.1, fun p hp => hp⟩

theorem newFrame_frQ {Q : Reg → Prop} {sh : Shared} (hregs : ∀ r ∈ sh.regs, Q r) (ty v : Nat) (ctx : Ctx) :
    FrQ Q (newFrame sh ty v ctx) := by
  refine ⟨?_, by simp [newFrame]⟩
  intro r hr
  simp only [newFrame, List.mem_filter, beq_iff_eq] at hr
  exact ⟨hregs r hr.1, hr.2⟩

/-- a handler body publishes: the new activation goes on top of the stack -/
theorem ThQ.push {ρ Q sh th f fs r ty v more} (hi : ThQ ρ Q th) (hfr : th.frames = f :: fs) (hh : f.handler = some r)
    (hb : f.body = (ty, v) :: more) (hregs : ∀ r ∈ sh.regs, Q r) (hQ : ∀ r, Q r → RankedReg ρ r) :
    ThQ ρ Q { th with frames := newFrame sh ty v .bg :: { f with body := more } :: fs, pc := .snap } := by
  obtain ⟨fr, _, job, chain, jobB, prog⟩ := hi
  rw [hfr] at fr chain jobB
  simp only [List.forall_mem_cons] at fr jobB
  obtain ⟨hQr, hty, hbody⟩ := fr.1.hand r hh
  have hrk := hQ r hQr (ty, v) (hbody _ (by simp [hb]))
  rw [hty] at hrk
  simp only at hrk
  have hch := List.pairwise_cons.1 chain
  refine ⟨?_, by simp [pcReg], job, ?_, ?_, prog⟩
  · simp only [List.forall_mem_cons]
    refine ⟨newFrame_frQ hregs _ _ _, ⟨fr.1.rest, ?_⟩, fr.2⟩
    intro r' hr'
    obtain ⟨h1, h2, h3⟩ := fr.1.hand r' hr'
    exact ⟨h1, h2, fun p hp => h3 p (by simp [hb, hp])⟩
  · refine List.pairwise_cons.2 ⟨?_, pairwise_retop chain rfl⟩
    intro g hg
    simp only [List.mem_cons] at hg
    rcases hg with rfl | hg
    · refine ⟨hrk.1, ?_⟩
      intro r' hr' hs ha
      have : r' = r := by simpa [hh] using hr'.symm
      subst this
      exact hrk.2 hs ha
    · obtain ⟨h1, h2⟩ := hch.1 g hg
      refine ⟨Nat.le_trans hrk.1 h1, ?_⟩
      intro r' hr' hs ha
      exact Nat.lt_of_le_of_lt hrk.1 (h2 r' hr' hs ha)
  · intro j hj
    simp only [List.forall_mem_cons]
    exact ⟨Nat.le_trans hrk.1 (jobB j hj).1, (jobB j hj).1, (jobB j hj).2⟩

theorem ThQ.toSnap {ρ Q th f fs} (hi : ThQ ρ Q th) (hfr : th.frames = f :: fs) :
    ThQ ρ Q { th with frames := f :: fs, pc := .snap } := by
  obtain ⟨fr, _, job, chain, jobB, prog⟩ := hi
  rw [hfr] at fr chain jobB
  exact ⟨fr, by simp [pcReg], job, chain, jobB, prog⟩

theorem StepR.thQ {ρ Q sh th o} (h : StepR sh th o) (hok : ThOK th) (hs : ThS th) (hregs : ∀ r ∈ sh.regs, Q r)
    (hQ : ∀ r, Q r → RankedReg ρ r) (hi : ThQ ρ Q th) : ThQ ρ Q o.th ∧ ∀ t ∈ o.new, ThQ ρ Q t := by
  have hi' := hi
  obtain ⟨fr, pcr, job, chain, jobB, prog⟩ := hi
  have hpcr : ∀ r f fs, pcReg th.pc = some r → th.frames = f :: fs → Q r ∧ r.ty = f.ty :=
    fun r f fs h1 h2 => ⟨(pcr r h1).1, (pcr r h1).2 f fs h2⟩
  cases h
  case snap f fs hpc hfr hsh =>
    simp only [ThOK, hpc, hfr] at hok
    obtain ⟨⟨f', fs', h1, h2⟩, h3⟩ := hok
    cases h1
    exact ⟨Shape.thQ (hsh.q (fr f (by simp [hfr])).rest) h2 (hi'.toSnap hfr), by simp [hsh.new_nil]⟩
  case filterRej r f fs hpc hfr hacc hsh =>
    simp only [ThOK, hpc, hfr] at hok
    obtain ⟨⟨f', fs', h1, h2⟩, h3⟩ := hok
    cases h1
    exact ⟨Shape.thQ (hsh.q (fr f (by simp [hfr])).rest) h2 (hi'.toSnap hfr), by simp [hsh.new_nil]⟩
  case filterAcc r f fs hpc hfr hacc hsh =>
    simp only [ThOK, hpc, hfr] at hok
    obtain ⟨⟨f', fs', h1, h2⟩, h3⟩ := hok
    cases h1
    exact ⟨Shape.thQ (hsh.q (fr f (by simp [hfr])).rest (hpcr r f fs (by simp [hpc, pcReg]) hfr)) h2 (hi'.toSnap hfr),
      by simp [hsh.new_nil]⟩
  case claimed r f fs hpc hfr hsh =>
    simp only [ThOK, hpc, hfr] at hok
    obtain ⟨⟨f', fs', h1, h2⟩, h3⟩ := hok
    cases h1
    exact ⟨Shape.thQ (hsh.q (fr f (by simp [hfr])).rest (hpcr r f fs (by simp [hpc, pcReg]) hfr)) h2 (hi'.toSnap hfr),
      by simp [hsh.new_nil]⟩
  case spawn r n t f fs o hpc hfr hsh =>
    simp only [ThOK, hpc, hfr] at hok
    obtain ⟨⟨f', fs', h1, h2⟩, h3⟩ := hok
    cases h1
    refine ⟨(Shape.thQ (hsh.q (fr f (by simp [hfr])).rest) h2 (hi'.toSnap hfr) : ThQ ρ Q o.th), ?_⟩
    have := hpcr r f fs (by simp [hpc, pcReg]) hfr
    simp only [List.mem_singleton, forall_eq]
    exact ⟨by simp, by simp [pcReg], by simpa using this, by simp, by simp, by simp⟩
  case exit r f fs hpc hfr hj hsh =>
    refine ⟨Shape.thQ (hsh.q (fr f (by simp [hfr])).rest) rfl ?_, by simp [hsh.new_nil]⟩
    have := hi'.toSnap hfr
    obtain ⟨fr', _, job', chain', jobB', prog'⟩ := this
    refine ⟨?_, by simp [pcReg], job', pairwise_retop chain' rfl, ?_, prog'⟩
    · simp only [List.forall_mem_cons] at fr' ⊢
      exact ⟨⟨fr'.1.rest, by simp⟩, fr'.2⟩
    · simpa using jobB'
  case bodyPub f fs ty v more hpc hfr hb =>
    have hh := hs.opH hpc f (by simp [hfr])
    obtain ⟨r, hr⟩ := Option.isSome_iff_exists.1 hh
    exact ⟨hi'.push hfr hr hb hregs hQ, by simp⟩
  case enterPub r f fs ty v more hpc hfr hb =>
    simp only [ThOK, hpc, hfr] at hok
    obtain ⟨f', fs', h1, h2⟩ := hok
    cases h1
    exact ⟨hi'.push hfr h2 hb hregs hQ, by simp⟩
  case bodyEnd f fs r hpc hfr hb hh =>
    refine ⟨⟨fr, ?_, job, chain, jobB, prog⟩, by simp⟩
    simp only [pcReg, Option.some.injEq]
    rintro _ rfl
    have := (fr f (by simp [hfr])).hand r hh
    refine ⟨this.1, ?_⟩
    intro f' fs' he
    rw [hfr] at he
    cases he
    exact this.2.1
  case enterEnd r f fs hpc hfr hb =>
    refine ⟨⟨fr, ?_, job, chain, jobB, prog⟩, by simp⟩
    simp only [pcReg, Option.some.injEq]
    rintro _ rfl
    exact pcr r (by simp [hpc, pcReg])
  case publish ty v ctx prog' hpc hfr hp =>
    simp only [ThOK, hpc, hfr] at hok
    have hj : th.job = none := by
      cases hj : th.job with
      | none => rfl
      | some j => simp [hj] at hok
    refine ⟨⟨?_, by simp [pcReg], by simp [hj], by simp, by simp [hj], ?_⟩, by simp⟩
    · simp only [List.mem_singleton, forall_eq]; exact newFrame_frQ hregs _ _ _
    · intro op hop; exact prog op (by simp [hp, hop])
  case lockDeadSync r a f fs hpc hfr hj hfree hl hsh =>
    exact ⟨Shape.thQ (hsh.q (fr f (by simp [hfr])).rest) (hok.lock hpc hfr).2 (hi'.toSnap hfr), by simp [hsh.new_nil]⟩
  case lockDeadJob r a j f hpc hj hfr hfree hl =>
    exact ⟨⟨by simp, by simp [pcReg], job, by simp, by simp, prog⟩, by simp⟩
  case lock r a f fs hpc hfr hfree hl =>
    have hr := hpcr r f fs (by simp [hpc, pcReg]) hfr
    rw [hfr] at fr chain jobB
    simp only [List.forall_mem_cons] at fr jobB
    refine ⟨⟨?_, ?_, job, pairwise_retop chain rfl, ?_, prog⟩, by simp⟩
    · simp only [List.forall_mem_cons]
      refine ⟨⟨fr.1.rest, ?_⟩, fr.2⟩
      intro r' hr'
      simp only [Option.some.injEq] at hr'
      subst hr'
      exact ⟨hr.1, hr.2, fun p hp => hp⟩
    · simp only [pcReg, Option.some.injEq]
      rintro _ rfl
      refine ⟨hr.1, ?_⟩
      intro f' fs' he
      cases he
      exact hr.2
    · intro j hj
      simp only [List.forall_mem_cons]
      exact jobB j hj
  case retire f fs hpc hfr =>
    rw [hfr] at fr chain jobB
    simp only [List.forall_mem_cons] at fr jobB
    refine ⟨⟨?_, by simp [pcReg], job, pairwise_retop chain rfl, ?_, prog⟩, by simp⟩
    · simp only [List.forall_mem_cons]
      exact ⟨⟨fr.1.rest, fr.1.hand⟩, fr.2⟩
    · intro j hj
      simp only [List.forall_mem_cons]
      exact jobB j hj
  case retired f fs hpc hfr =>
    rw [hfr] at fr chain jobB
    simp only [List.forall_mem_cons] at fr jobB
    exact ⟨⟨fr.2, by simp [pcReg], job, (List.pairwise_cons.1 chain).2, fun j hj => (jobB j hj).2, prog⟩, by simp⟩
  case astartRun j hpc hj hs' hl =>
    have hjq := job j hj
    refine ⟨⟨?_, ?_, job, by simp, ?_, prog⟩, by simp⟩
    · simp only [List.mem_singleton, forall_eq]
      refine ⟨by simp [jobFrame], ?_⟩
      intro r hr
      simp only [jobFrame, if_true, Option.some.injEq] at hr
      subst hr
      exact ⟨hjq.1, hjq.2, fun p hp => hp⟩
    · simp only [pcReg, Option.some.injEq]
      rintro _ rfl
      refine ⟨hjq.1, ?_⟩
      intro f' fs' he
      cases he
      exact hjq.2
    · intro j' hj'
      rw [hj] at hj'; cases hj'
      simp [jobFrame]
  case turnRun j hpc hj hturn hl =>
    have hjq := job j hj
    refine ⟨⟨?_, ?_, job, by simp, ?_, prog⟩, by simp⟩
    · simp only [List.mem_singleton, forall_eq]
      exact ⟨by simp [jobFrame], by simp [jobFrame]⟩
    · simp only [pcReg, Option.some.injEq]
      rintro _ rfl
      refine ⟨hjq.1, ?_⟩
      intro f' fs' he
      cases he
      exact hjq.2
    · intro j' hj'
      rw [hj] at hj'; cases hj'
      simp [jobFrame]
  case exitJob r j f hpc hj hfr =>
    exact ⟨⟨by simp, by simp [pcReg], job, by simp, by simp, prog⟩, by simp⟩
  case fin hpc hfr hp => exact ⟨⟨fr, by simp [pcReg], job, chain, jobB, prog⟩, by simp⟩
  case aend hpc => exact ⟨⟨fr, by simp [pcReg], job, chain, jobB, prog⟩, by simp⟩
  case astartSeq j hpc hj hs' => exact ⟨⟨fr, by simp [pcReg], job, chain, jobB, prog⟩, by simp⟩
  case astartDead j hpc hj hs' hl => exact ⟨⟨fr, by simp [pcReg], job, chain, jobB, prog⟩, by simp⟩
  case turnDead j hpc hj hturn hl => exact ⟨⟨fr, by simp [pcReg], job, chain, jobB, prog⟩, by simp⟩
  case wait prog' hpc hfr hp hidle =>
    refine ⟨⟨fr, by simp [hpc, pcReg], job, chain, jobB, ?_⟩, by simp⟩
    intro op hop; exact prog op (by simp [hp, hop])
  all_goals
    rename_i hpc hfr hp
    refine ⟨⟨fr, by simp [hpc, pcReg], job, chain, jobB, ?_⟩, by simp⟩
    intro op hop; exact prog op (by simp [hp, hop])

/-! #### the registry only grows by ranked registrations with fresh identities -/

theorem Shape.regs_eq {sh th f fs PF PC PG o} (h : Shape sh th f fs PF PC PG o) :
    o.sh.regs = sh.regs ∧ o.sh.nextRid = sh.nextRid := by
  cases h <;> simp

theorem StepR.regsQ {ρ sh th o} (h : StepR sh th o) (hp : ∀ op ∈ th.prog, RankedOp ρ op) :
    ((∀ r ∈ o.sh.regs, r ∈ sh.regs) ∧ o.sh.nextRid = sh.nextRid) ∨
    (∃ r, RankedReg ρ r ∧ r.rid = sh.nextRid ∧ o.sh.regs = sh.regs ++ [r] ∧ o.sh.nextRid = sh.nextRid + 1) := by
  cases h
  case subscribe ty hid once async seq filt body prog hpc hfr hprog =>
    refine .inr ⟨_, ?_, rfl, rfl, rfl⟩
    exact hp (.subscribe ty hid once async seq filt body) (by simp [hprog])
  case unsubscribe => exact .inl ⟨fun r hr => (eraseFirst_sublist _ _).subset hr, rfl⟩
  case clear => exact .inl ⟨fun r hr => List.filter_sublist.subset hr, rfl⟩
  case retire => exact .inl ⟨fun r hr => (retire_sublist _ _).subset hr, rfl⟩
  case snap hsh => exact .inl ⟨by rw [hsh.regs_eq.1]; exact fun _ h => h, hsh.regs_eq.2⟩
  case filterAcc hsh => exact .inl ⟨by rw [hsh.regs_eq.1]; exact fun _ h => h, hsh.regs_eq.2⟩
  case filterRej hsh => exact .inl ⟨by rw [hsh.regs_eq.1]; exact fun _ h => h, hsh.regs_eq.2⟩
  case claimed hsh => exact .inl ⟨by rw [hsh.regs_eq.1]; exact fun _ h => h, hsh.regs_eq.2⟩
  case spawn hsh => exact .inl ⟨by simp only; rw [hsh.regs_eq.1]; exact fun _ h => h, hsh.regs_eq.2⟩
  case exit hsh => exact .inl ⟨by rw [hsh.regs_eq.1]; exact fun _ h => h, hsh.regs_eq.2⟩
  case lockDeadSync hsh => exact .inl ⟨by rw [hsh.regs_eq.1]; exact fun _ h => h, hsh.regs_eq.2⟩
  all_goals exact .inl ⟨by simp, by simp⟩

/-- the provenance invariant: `all` lists every registration ever created -/
structure SysQ (ρ : Nat → Nat) (all : List Reg) (s : Sys) : Prop where
  uniq : ∀ r ∈ all, ∀ r' ∈ all, r.rid = r'.rid → r = r'
  lt : ∀ r ∈ all, r.rid < s.sh.nextRid
  rk : ∀ r ∈ all, RankedReg ρ r
  regs : ∀ r ∈ s.sh.regs, r ∈ all
  ths : ∀ th ∈ s.ths, ThQ ρ (· ∈ all) th

theorem sysQ_reachable {ρ : Nat → Nat} {progs : List (List Op)} (hrk : Ranked ρ progs) :
    ∀ s, Reachable progs s → ∃ all, SysQ ρ all s := by
  apply reach_ind
  · refine ⟨[], by simp, by simp, by simp, by simp [initSys], ?_⟩
    intro th hth
    simp only [initSys, List.mem_map] at hth
    obtain ⟨p, hp, rfl⟩ := hth
    exact ⟨by simp, by simp [pcReg], by simp, by simp, by simp, fun op hop => hrk p hp op hop⟩
  · intro s i th o hr ⟨all, uniq, lt, rk, regs, ths⟩ hth hR
    have hmem := List.mem_of_getElem? hth
    have hq := hR.thQ (thOK_reachable s hr th hmem) (thS_reachable s hr th hmem) regs rk (ths th hmem)
    have hths : ∀ t ∈ s.ths.set i o.th ++ o.new, ThQ ρ (· ∈ all) t := by
      intro t ht
      rcases mem_step_cases ht with ht | rfl | ht
      · exact ths t ht
      · exact hq.1
      · exact hq.2 t ht
    rcases hR.regsQ (ths th hmem).prog with ⟨h1, h2⟩ | ⟨r, hr1, hr2, hr3, hr4⟩
    · exact ⟨all, uniq, by simpa [h2] using lt, rk, fun r hr => regs r (h1 r hr), hths⟩
    · refine ⟨all ++ [r], ?_, ?_, ?_, ?_, ?_⟩
      · intro a ha b hb hab
        simp only [List.mem_append, List.mem_singleton] at ha hb
        rcases ha with ha | rfl <;> rcases hb with hb | rfl
        · exact uniq a ha b hb hab
        · have := lt a ha; omega
        · have := lt b hb; omega
        · rfl
      · intro a ha
        simp only [List.mem_append, List.mem_singleton] at ha
        simp only [hr4]
        rcases ha with ha | rfl
        · have := lt a ha; omega
        · omega
      · intro a ha
        simp only [List.mem_append, List.mem_singleton] at ha
        rcases ha with ha | rfl
        · exact rk a ha
        · exact hr1
      · intro a ha
        simp only [hr3, List.mem_append, List.mem_singleton] at ha ⊢
        rcases ha with ha | rfl
        · exact .inl (regs a ha)
        · exact .inr rfl
      · intro t ht
        exact (hths t ht).mono (fun a ha => by simp [ha])

end Inv
end Ebu.Conc

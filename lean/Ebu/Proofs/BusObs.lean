import Ebu.Spec.Bus
/-!
Observability callbacks of the bus machine (C20): matched and properly nested pairs, fresh
span ids, truthful error flags, parents.
-/
namespace Ebu.Bus

/-! Helpers live in `Ebu.Bus.Obs` to keep the names apart from the other proof files. -/
namespace Obs
def notObs : Ev → Bool
  | .obs .. => false
  | _ => true

def isStartK : ObsKind → Bool
  | .ps | .hs | .rs => true
  | _ => false

theorem obsStack_append (l₁ l₂ : List Ev) (st : List Nat) :
    obsStack (l₁ ++ l₂) st = (obsStack l₁ st).bind (obsStack l₂) := by
  induction l₁ generalizing st with
  | nil => simp [obsStack]
  | cons e l ih =>
    cases e with
    | obs d k id p ty f =>
      cases k <;> simp only [List.cons_append, obsStack, ih]
      all_goals (cases st <;> simp only [Option.bind_none]; split <;> simp)
    | _ => simp [obsStack, ih]

theorem obsStack_notObs (e : Ev) (h : notObs e = true) (l : List Ev) (st : List Nat) :
    obsStack (e :: l) st = obsStack l st := by
  cases e <;> simp_all [obsStack, notObs]

theorem obsStarts_append (l₁ l₂ : List Ev) : obsStarts (l₁ ++ l₂) = obsStarts l₁ ++ obsStarts l₂ := by
  simp [obsStarts, List.filterMap_append]

theorem obsStarts_notObs (e : Ev) (h : notObs e = true) : obsStarts [e] = [] := by
  cases e <;> simp_all [obsStarts, notObs]

/-- a balanced trace segment using exactly span ids in `[a, b)`, increasing -/
structure Seg (cfg : Config) (Q : Ev → Prop) (a : Nat) (l : List Ev) (b : Nat) : Prop where
  bal : ∀ st, obsStack l st = some st
  le : a ≤ b
  sorted : (obsStarts l).Pairwise (· < ·)
  bnd : ∀ id ∈ obsStarts l, a ≤ id ∧ id < b
  all : ∀ e ∈ l, Q e
  noobs : cfg.obs = false → ∀ e ∈ l, notObs e = true

theorem Seg.nil {cfg Q a} : Seg cfg Q a [] a :=
  ⟨fun _ => rfl, Nat.le_refl _, by simp [obsStarts], by simp [obsStarts], by simp, by simp⟩

theorem Seg.append {cfg Q a b c l₁ l₂} (h₁ : Seg cfg Q a l₁ b) (h₂ : Seg cfg Q b l₂ c) :
    Seg cfg Q a (l₁ ++ l₂) c where
  bal st := by rw [obsStack_append, h₁.bal]; exact h₂.bal st
  le := Nat.le_trans h₁.le h₂.le
  sorted := by
    rw [obsStarts_append, List.pairwise_append]
    refine ⟨h₁.sorted, h₂.sorted, ?_⟩
    intro x hx y hy
    have := h₁.bnd x hx; have := h₂.bnd y hy; omega
  bnd := by
    intro id hid
    rw [obsStarts_append, List.mem_append] at hid
    have := h₁.le; have := h₂.le
    rcases hid with h | h
    · have := h₁.bnd id h; omega
    · have := h₂.bnd id h; omega
  all := by
    intro e he
    rcases List.mem_append.1 he with h | h
    · exact h₁.all e h
    · exact h₂.all e h
  noobs := by
    intro ho e he
    rcases List.mem_append.1 he with h | h
    · exact h₁.noobs ho e h
    · exact h₂.noobs ho e h

theorem Seg.mono {cfg Q Q' a b l} (h : Seg cfg Q a l b) (hq : ∀ e, Q e → Q' e) : Seg cfg Q' a l b :=
  ⟨h.bal, h.le, h.sorted, h.bnd, fun e he => hq e (h.all e he), h.noobs⟩

theorem Seg.single {cfg Q a} (e : Ev) (hn : notObs e = true) (hq : Q e) : Seg cfg Q a [e] a where
  bal st := by rw [obsStack_notObs e hn]; rfl
  le := Nat.le_refl _
  sorted := by simp [obsStarts_notObs e hn]
  bnd := by simp [obsStarts_notObs e hn]
  all := by simpa using hq
  noobs := by simpa using fun _ => hn

theorem Seg.bracket {cfg : Config} {Q a b l} (ho : cfg.obs = true) (h : Seg cfg Q (a + 1) l b)
    (d d' : Nat) (k k' : ObsKind) (p p' ty ty' : Nat) (f f' : Bool)
    (hk : isStartK k = true) (hk' : isStartK k' = false)
    (hq : Q (.obs d k a p ty f)) (hq' : Q (.obs d' k' a p' ty' f')) :
    Seg cfg Q a ([Ev.obs d k a p ty f] ++ l ++ [Ev.obs d' k' a p' ty' f']) b where
  bal st := by
    have h1 : obsStack [Ev.obs d k a p ty f] st = some (a :: st) := by
      cases k <;> simp_all [obsStack, isStartK]
    have h2 : obsStack [Ev.obs d' k' a p' ty' f'] (a :: st) = some st := by
      cases k' <;> simp_all [obsStack, isStartK]
    rw [obsStack_append, obsStack_append, h1]
    simp [h.bal, h2]
  le := by have := h.le; omega
  sorted := by
    have h1 : obsStarts [Ev.obs d k a p ty f] = [a] := by
      cases k <;> simp_all [obsStarts, isStartK]
    have h2 : obsStarts [Ev.obs d' k' a p' ty' f'] = [] := by
      cases k' <;> simp_all [obsStarts, isStartK]
    rw [obsStarts_append, obsStarts_append, h1, h2]
    simp only [List.append_nil, List.singleton_append, List.pairwise_cons]
    refine ⟨?_, h.sorted⟩
    intro x hx; have := h.bnd x hx; omega
  bnd := by
    have h1 : obsStarts [Ev.obs d k a p ty f] = [a] := by
      cases k <;> simp_all [obsStarts, isStartK]
    have h2 : obsStarts [Ev.obs d' k' a p' ty' f'] = [] := by
      cases k' <;> simp_all [obsStarts, isStartK]
    rw [obsStarts_append, obsStarts_append, h1, h2]
    intro id hid
    simp only [List.append_nil, List.singleton_append, List.mem_cons] at hid
    have := h.le
    rcases hid with rfl | hid
    · omega
    · have := h.bnd id hid; omega
  all := by
    intro e he
    simp only [List.singleton_append, List.mem_cons, List.mem_append,
      List.not_mem_nil, or_false] at he
    rcases he with (rfl | he) | rfl
    · exact hq
    · exact h.all e he
    · exact hq'
  noobs := by intro h'; rw [ho] at h'; cases h'

/-- `Seg` wrapped in an optional start/complete pair (present iff observability is configured) -/
theorem Seg.wrap {cfg : Config} {Q a b l} (h : Seg cfg Q (a + if cfg.obs then 1 else 0) l b)
    (d d' : Nat) (k k' : ObsKind) (p p' ty ty' : Nat) (f f' : Bool)
    (hk : isStartK k = true) (hk' : isStartK k' = false)
    (hq : Q (.obs d k a p ty f)) (hq' : Q (.obs d' k' a p' ty' f')) :
    Seg cfg Q a ((if cfg.obs then [Ev.obs d k a p ty f] else []) ++ l ++
      (if cfg.obs then [Ev.obs d' k' a p' ty' f'] else [])) b := by
  cases ho : cfg.obs
  · simpa [ho] using h
  · simp only [ho, if_true] at h ⊢
    exact Seg.bracket ho h d d' k k' p p' ty ty' f f' hk hk' hq hq'

/-! ### extension of a core state by a segment -/

def Ext (cfg : Config) (Q : Ev → Prop) (c c' : Core) : Prop :=
  ∃ l, c'.trace = c.trace ++ l ∧ Seg cfg Q c.nextObs l c'.nextObs

theorem Ext.of_eq {cfg Q} {c c' : Core} (ht : c'.trace = c.trace) (hn : c'.nextObs = c.nextObs) :
    Ext cfg Q c c' :=
  ⟨[], by simp [ht], by rw [hn]; exact Seg.nil⟩

theorem Ext.refl {cfg Q} {c : Core} : Ext cfg Q c c := Ext.of_eq rfl rfl

theorem Ext.trans {cfg Q} {c₁ c₂ c₃ : Core} (h₁ : Ext cfg Q c₁ c₂) (h₂ : Ext cfg Q c₂ c₃) :
    Ext cfg Q c₁ c₃ := by
  obtain ⟨l₁, e₁, s₁⟩ := h₁
  obtain ⟨l₂, e₂, s₂⟩ := h₂
  exact ⟨l₁ ++ l₂, by rw [e₂, e₁, List.append_assoc], s₁.append s₂⟩

theorem Ext.mono {cfg Q Q'} {c c' : Core} (h : Ext cfg Q c c') (hq : ∀ e, Q e → Q' e) :
    Ext cfg Q' c c' := by
  obtain ⟨l, e, s⟩ := h
  exact ⟨l, e, s.mono hq⟩

theorem Ext.emit {cfg Q} (c : Core) (e : Ev) (hn : notObs e = true) (hq : Q e) :
    Ext cfg Q c (c.emit e) :=
  ⟨[e], Core.trace_emit c e, Seg.single e hn hq⟩

theorem Ext.emitIf {cfg Q} (b : Bool) (c : Core) (e : Ev) (hn : notObs e = true) (hq : Q e) :
    Ext cfg Q c (emitIf b c e) := by
  cases b
  · exact Ext.refl
  · exact Ext.emit c e hn hq

theorem emitIf_trace (b : Bool) (c : Core) (e : Ev) :
    (emitIf b c e).trace = c.trace ++ if b then [e] else [] := by
  cases b <;> simp [emitIf]

theorem emitIf_nextObs (b : Bool) (c : Core) (e : Ev) : (emitIf b c e).nextObs = c.nextObs := by
  cases b <;> rfl

/-- spans opened at depth `d` (by a synchronous handler start or a persist) are children of `pid` -/
def ChildOK (d pid : Nat) : Ev → Prop
  | .obs d' .hs _ p _ async => d' = d → async = false → p = pid
  | .obs d' .rs _ p _ _ => d' = d → p = pid
  | _ => True

def QD (d : Nat) (e : Ev) : Prop := d ≤ e.depth

def QP (d pid : Nat) (e : Ev) : Prop := d ≤ e.depth ∧ ChildOK d pid e

theorem QP_of_lt {d p : Nat} {e : Ev} (h : d < e.depth) : QP d p e := by
  refine ⟨Nat.le_of_lt h, ?_⟩
  cases e with
  | obs d' k id p' ty f =>
    cases k <;> simp only [ChildOK, Ev.depth] at h ⊢ <;> omega
  | _ => trivial

theorem QP_notObs {d p : Nat} {e : Ev} (hn : notObs e = true) (h : d ≤ e.depth) : QP d p e := by
  refine ⟨h, ?_⟩
  cases e <;> first | trivial | simp [notObs] at hn

theorem QP.toQD {d p : Nat} (e : Ev) (h : QP d p e) : QD d e := h.1

/-! ### persist -/

def persistEvs (cfg : Config) (d ty v sid obsParent : Nat) (c : Core) : List Ev :=
  let fails := c.appendFaults.headD false
  (if cfg.obs then [Ev.obs d .rs c.nextObs obsParent ty false] else []) ++
  [Ev.append d sid ty v (!fails) (if fails then 0 else c.log.length + 1)] ++
  (if cfg.obs then [Ev.obs d .rc c.nextObs 0 ty fails] else []) ++
  (if (fails && cfg.perrH) then [Ev.perr d ty v false] else [])

theorem persist_trace (cfg : Config) (d ty v : Nat) (obsParent : Nat) (c : Core) (sid : Nat)
    (hs : cfg.store = some sid) :
    (persist cfg d ty v false obsParent c).trace = c.trace ++ persistEvs cfg d ty v sid obsParent c ∧
    (persist cfg d ty v false obsParent c).nextObs = c.nextObs + if cfg.obs then 1 else 0 := by
  unfold persist persistEvs
  simp only [hs]
  cases ho : cfg.obs <;> cases hp : cfg.perrH <;> rcases hf : c.appendFaults with _ | ⟨_ | _, t⟩ <;>
    simp [Core.trace, Core.emit, emitIf, hf]

theorem Seg.optSingle {cfg Q a} (b : Bool) (e : Ev) (hn : notObs e = true) (hq : Q e) :
    Seg cfg Q a (if b then [e] else []) a := by
  cases b
  · exact Seg.nil
  · exact Seg.single e hn hq

theorem persist_ext (cfg : Config) (d ty v : Nat) (bad : Bool) (obsParent : Nat) (c : Core) :
    Ext cfg (QP d obsParent) c (persist cfg d ty v bad obsParent c) := by
  cases hs : cfg.store with
  | none =>
    have : persist cfg d ty v bad obsParent c = c := by simp [persist, hs]
    rw [this]; exact Ext.refl
  | some sid =>
    cases bad with
    | true =>
      have : persist cfg d ty v true obsParent c = emitIf cfg.perrH c (.perr d ty v true) := by
        simp [persist, hs]
      rw [this]; exact Ext.emitIf _ _ _ rfl (QP_notObs rfl (Nat.le_refl _))
    | false =>
      obtain ⟨ht, hn⟩ := persist_trace cfg d ty v obsParent c sid hs
      refine ⟨_, ht, ?_⟩
      rw [hn]
      unfold persistEvs
      refine Seg.append (Seg.wrap (Seg.single _ rfl ?_) _ _ _ _ _ _ _ _ _ _
        rfl rfl ?_ ?_) (Seg.optSingle _ _ rfl ?_)
      all_goals simp [QP, ChildOK, Ev.depth]

/-! ### one level of the semantics -/

section step
variable {R : Type} (I : RegImpl R) (cfg : Config) (rec : Frame → St R → Action → St R)

/-- the property of the callback carried through `step` -/
def RecOK : Prop := ∀ fr s a, Ext cfg (QD fr.depth) s.c (rec fr s a).c

/-- `publish` cut in pieces (checked against the model by `publish_eq`) -/
def pubPre (fr : Frame) (sel : CtxSel) (s : St R) : Nat × Nat × St R :=
  match sel with
  | .bg => (0, 0, s)
  | .fresh => (s.c.nextCtx, 0, { s with c := { s.c with nextCtx := s.c.nextCtx + 1 } })
  | .dead => (s.c.nextCtx, 0, { s with c := { s.c with nextCtx := s.c.nextCtx + 1, cancelled := s.c.nextCtx :: s.c.cancelled } })
  | .inherit => if fr.ctxAware then (fr.root, fr.obs, s) else (0, 0, s)

def pubMid (root obs d ty v : Nat) (bad : Bool) (s : St R) : St R :=
  let s := { s with c := emitIf cfg.hookBL s.c (.hook d .bl ty v) }
  let s := { s with c := emitIf cfg.hookBC s.c (.hook d .bc ty v) }
  let s := { s with c := persist cfg d ty v bad obs s.c }
  let res := (I.get s.reg ty).foldl (deliver cfg rec ty v root obs d) (s, [])
  let s := if res.2.isEmpty then res.1
    else { res.1 with reg := I.set res.1.reg ty (retire res.2 (I.get res.1.reg ty)) }
  let s := { s with c := emitIf cfg.hookAL s.c (.hook d .al ty v) }
  { s with c := emitIf cfg.hookAC s.c (.hook d .ac ty v) }

def pubStart (d obs0 ty : Nat) (s : St R) : St R :=
  if cfg.obs then
    { s with c := { s.c.emit (.obs d .ps s.c.nextObs obs0 ty false) with nextObs := s.c.nextObs + 1 } }
  else s

def pubTail (d root obs0 ty v : Nat) (bad : Bool) (s : St R) : St R :=
  let pid := s.c.nextObs
  let s2 := pubStart cfg d obs0 ty s
  let s9 := pubMid I cfg rec root (if cfg.obs then pid else obs0) d ty v bad s2
  { s9 with c := emitIf cfg.obs s9.c (.obs d .pc pid 0 ty false) }

theorem publish_eq (fr : Frame) (ty v : Nat) (bad : Bool) (sel : CtxSel) (s : St R) :
    publish I cfg rec fr ty v bad sel s =
      pubTail I cfg rec fr.depth (pubPre fr sel s).1 (pubPre fr sel s).2.1 ty v bad (pubPre fr sel s).2.2 := by
  cases sel
  case inherit =>
    unfold publish pubTail pubMid pubPre pubStart
    cases fr.ctxAware <;> rfl
  all_goals rfl

theorem pubPre_c (fr : Frame) (sel : CtxSel) (s : St R) :
    (pubPre fr sel s).2.2.c.trace = s.c.trace ∧ (pubPre fr sel s).2.2.c.nextObs = s.c.nextObs := by
  cases sel
  case inherit =>
    unfold pubPre
    cases fr.ctxAware <;> exact ⟨rfl, rfl⟩
  all_goals exact ⟨rfl, rfl⟩

variable {cfg rec}

theorem runBody_ext (h : RecOK cfg rec) (fr : Frame) (s : St R) (acts : List Action) :
    Ext cfg (QD fr.depth) s.c (runBody rec fr s acts).c := by
  unfold runBody
  induction acts generalizing s with
  | nil => exact Ext.refl
  | cons a as ih =>
    simp only [List.foldl_cons]
    refine Ext.trans ?_ (ih _)
    split
    · exact Ext.refl
    · exact h fr s a

theorem enterHandler_trace (r : Reg) (ty v root op d : Nat) (async : Bool) (s : St R) :
    (enterHandler cfg r ty v root op d async s).1.c.trace =
      s.c.trace ++ (if cfg.obs then [Ev.obs d .hs s.c.nextObs op ty async] else []) ++
        [Ev.enter (d + 1) r.rid ty v (if r.ctxAware then some root else none) async] ∧
    (enterHandler cfg r ty v root op d async s).1.c.nextObs =
      s.c.nextObs + if cfg.obs then 1 else 0 := by
  unfold enterHandler
  cases cfg.obs <;> simp [Core.trace, Core.emit]

theorem bodyResult_shape (h : RecOK cfg rec) (r : Reg) (ty v root op d : Nat) (async : Bool) (s : St R) :
    ∃ l, (bodyResult cfg rec r ty v root op d async s).c.trace =
        s.c.trace ++ (if cfg.obs then [Ev.obs d .hs s.c.nextObs op ty async] else []) ++ l ∧
      Seg cfg (QD (d + 1)) (s.c.nextObs + if cfg.obs then 1 else 0) l
        (bodyResult cfg rec r ty v root op d async s).c.nextObs := by
  obtain ⟨ht, hn⟩ := enterHandler_trace (cfg := cfg) r ty v root op d async s
  obtain ⟨l, hl, hs⟩ := runBody_ext h
    { depth := d + 1, root := root, obs := (enterHandler cfg r ty v root op d async s).2, ctxAware := r.ctxAware }
    (enterHandler cfg r ty v root op d async s).1 (cfg.bodies.getD r.body [])
  have hb : bodyResult cfg rec r ty v root op d async s = runBody rec
    { depth := d + 1, root := root, obs := (enterHandler cfg r ty v root op d async s).2, ctxAware := r.ctxAware }
    (enterHandler cfg r ty v root op d async s).1 (cfg.bodies.getD r.body []) := rfl
  refine ⟨[Ev.enter (d + 1) r.rid ty v (if r.ctxAware then some root else none) async] ++ l, ?_, ?_⟩
  · rw [hb, hl, ht]; simp
  · rw [hb]
    rw [hn] at hs
    exact Seg.append (Seg.single _ rfl (by simp [QD, Ev.depth])) hs

theorem callHandler_trace (r : Reg) (ty v root op d : Nat) (async : Bool) (s : St R) :
    (callHandler cfg rec r ty v root op d async s).c.trace =
      (bodyResult cfg rec r ty v root op d async s).c.trace ++
        ([Ev.exit (d + 1) r.rid] ++
        (match (bodyResult cfg rec r ty v root op d async s).c.panicking with
          | some val => if cfg.panicH then [Ev.panich d r.ctxAware ty v val] else []
          | none => [])) ++
        (if cfg.obs then [Ev.obs d .hc s.c.nextObs 0 ty
          (bodyResult cfg rec r ty v root op d async s).c.panicking.isSome] else []) ∧
    (callHandler cfg rec r ty v root op d async s).c.nextObs =
      (bodyResult cfg rec r ty v root op d async s).c.nextObs := by
  unfold callHandler
  simp only []
  cases hp : (bodyResult cfg rec r ty v root op d async s).c.panicking <;> cases cfg.panicH <;>
    cases cfg.obs <;> simp [Core.trace, Core.emit, emitIf, hp]

theorem callHandler_shape (h : RecOK cfg rec) (r : Reg) (ty v root op d : Nat) (async : Bool) (s : St R) :
    ∃ l, (callHandler cfg rec r ty v root op d async s).c.trace =
        s.c.trace ++ ((if cfg.obs then [Ev.obs d .hs s.c.nextObs op ty async] else []) ++ l ++
        (if cfg.obs then [Ev.obs d .hc s.c.nextObs 0 ty
          (bodyResult cfg rec r ty v root op d async s).c.panicking.isSome] else [])) ∧
      Seg cfg (QP d op) (s.c.nextObs + if cfg.obs then 1 else 0) l
        (callHandler cfg rec r ty v root op d async s).c.nextObs := by
  obtain ⟨l, hl, hs⟩ := bodyResult_shape h r ty v root op d async s
  obtain ⟨ht, hn⟩ := callHandler_trace (cfg := cfg) (rec := rec) r ty v root op d async s
  refine ⟨l ++ ([Ev.exit (d + 1) r.rid] ++
        (match (bodyResult cfg rec r ty v root op d async s).c.panicking with
          | some val => if cfg.panicH then [Ev.panich d r.ctxAware ty v val] else []
          | none => [])), ?_, ?_⟩
  · rw [ht, hl]; simp
  · rw [hn]
    refine Seg.append (hs.mono fun e he => QP_of_lt he) (Seg.append (Seg.single _ rfl ?_) ?_)
    · simp [QP, ChildOK, Ev.depth]
    · split
      · exact Seg.optSingle _ _ rfl (by simp [QP, ChildOK, Ev.depth])
      · exact Seg.nil

theorem callHandler_ext (h : RecOK cfg rec) (r : Reg) (ty v root op d : Nat) (async : Bool) (s : St R) :
    Ext cfg (QP d op) s.c (callHandler cfg rec r ty v root op d async s).c := by
  obtain ⟨l, hl, hs⟩ := callHandler_shape h r ty v root op d async s
  refine ⟨_, hl, Seg.wrap hs _ _ _ _ _ _ _ _ _ _ rfl rfl ?_ ?_⟩
  all_goals simp [QP, ChildOK, Ev.depth]

theorem deliver_ext (h : RecOK cfg rec) (ty v root obs d : Nat) (acc : St R × List Reg) (r : Reg) :
    Ext cfg (QP d obs) acc.1.c (deliver cfg rec ty v root obs d acc r).1.c := by
  obtain ⟨s, claimed⟩ := acc
  have hq : QP d obs (Ev.filt d r.rid v (r.accepts v)) := by simp [QP, ChildOK, Ev.depth]
  unfold deliver
  by_cases h0 : root = 0 <;> cases hfc : r.filtCancels <;> cases ho : r.once <;> cases hf : r.filt <;>
    simp only [cancelRoot, h0, Bool.false_eq_true, ↓reduceIte, Bool.false_and, Bool.true_and, Bool.and_true,
      Bool.and_false, Option.isSome_none, Option.isSome_some] <;> repeat' split
  all_goals first
    | exact Ext.of_eq rfl rfl
    | (refine Ext.trans ?_ (callHandler_ext h _ _ _ _ _ _ _ _); exact Ext.of_eq rfl rfl)
    | (refine Ext.trans (Ext.emit s.c _ rfl hq) ?_; exact Ext.of_eq rfl rfl)
    | (refine Ext.trans (Ext.emit s.c _ rfl hq) ?_
       refine Ext.trans ?_ (callHandler_ext h _ _ _ _ _ _ _ _); exact Ext.of_eq rfl rfl)
    | trace_state

theorem loop_ext (h : RecOK cfg rec) (ty v root obs d : Nat) (hs : List Reg) (acc : St R × List Reg) :
    Ext cfg (QP d obs) acc.1.c (hs.foldl (deliver cfg rec ty v root obs d) acc).1.c := by
  induction hs generalizing acc with
  | nil => exact Ext.refl
  | cons r rs ih => exact Ext.trans (deliver_ext h ty v root obs d acc r) (ih _)

theorem pubMid_ext (h : RecOK cfg rec) (root obs d ty v : Nat) (bad : Bool) (s : St R) :
    Ext cfg (QP d obs) s.c (pubMid I cfg rec root obs d ty v bad s).c := by
  have hq : ∀ k, QP d obs (Ev.hook d k ty v) := fun k => by simp [QP, ChildOK, Ev.depth]
  let s1 : St R := { s with c := emitIf cfg.hookBL s.c (.hook d .bl ty v) }
  let s2 : St R := { s1 with c := emitIf cfg.hookBC s1.c (.hook d .bc ty v) }
  let s3 : St R := { s2 with c := persist cfg d ty v bad obs s2.c }
  let res := (I.get s3.reg ty).foldl (deliver cfg rec ty v root obs d) (s3, [])
  let s4 : St R := if res.2.isEmpty then res.1
    else { res.1 with reg := I.set res.1.reg ty (retire res.2 (I.get res.1.reg ty)) }
  let s5 : St R := { s4 with c := emitIf cfg.hookAL s4.c (.hook d .al ty v) }
  have h1 : Ext cfg (QP d obs) s.c s1.c := Ext.emitIf _ _ _ rfl (hq _)
  have h2 : Ext cfg (QP d obs) s1.c s2.c := Ext.emitIf _ _ _ rfl (hq _)
  have h3 : Ext cfg (QP d obs) s2.c s3.c := persist_ext cfg d ty v bad obs _
  have h4 : Ext cfg (QP d obs) s3.c res.1.c := loop_ext h ty v root obs d _ (s3, [])
  have h5 : Ext cfg (QP d obs) res.1.c s4.c := by
    show Ext _ _ _ (St.c (if _ then _ else _))
    split <;> exact Ext.refl
  have h6 : Ext cfg (QP d obs) s4.c s5.c := Ext.emitIf _ _ _ rfl (hq _)
  have h7 : Ext cfg (QP d obs) s5.c (pubMid I cfg rec root obs d ty v bad s).c :=
    Ext.emitIf cfg.hookAC s5.c (.hook d .ac ty v) rfl (hq _)
  exact h1.trans (h2.trans (h3.trans (h4.trans (h5.trans (h6.trans h7)))))

theorem pubStart_c (d obs0 ty : Nat) (s : St R) :
    (pubStart cfg d obs0 ty s).c.trace =
      s.c.trace ++ (if cfg.obs then [Ev.obs d .ps s.c.nextObs obs0 ty false] else []) ∧
    (pubStart cfg d obs0 ty s).c.nextObs = s.c.nextObs + if cfg.obs then 1 else 0 := by
  unfold pubStart
  cases cfg.obs <;> simp [Core.trace, Core.emit]

theorem pubTail_shape (h : RecOK cfg rec) (d root obs0 ty v : Nat) (bad : Bool) (s : St R) :
    ∃ l, (pubTail I cfg rec d root obs0 ty v bad s).c.trace =
        s.c.trace ++ ((if cfg.obs then [Ev.obs d .ps s.c.nextObs obs0 ty false] else []) ++ l ++
          (if cfg.obs then [Ev.obs d .pc s.c.nextObs 0 ty false] else [])) ∧
      Seg cfg (QP d (if cfg.obs then s.c.nextObs else obs0)) (s.c.nextObs + if cfg.obs then 1 else 0) l
        (pubTail I cfg rec d root obs0 ty v bad s).c.nextObs := by
  obtain ⟨ht, hn⟩ := pubStart_c (cfg := cfg) d obs0 ty s
  obtain ⟨l, hl, hs⟩ := pubMid_ext (I := I) h root (if cfg.obs then s.c.nextObs else obs0) d ty v bad
    (pubStart cfg d obs0 ty s)
  refine ⟨l, ?_, ?_⟩
  · show (emitIf cfg.obs _ _).trace = _
    rw [emitIf_trace, hl, ht]; simp
  · show Seg _ _ _ _ (emitIf cfg.obs _ _).nextObs
    rw [emitIf_nextObs, ← hn]; exact hs

theorem pubTail_ext (h : RecOK cfg rec) (d root obs0 ty v : Nat) (bad : Bool) (s : St R) :
    Ext cfg (QD d) s.c (pubTail I cfg rec d root obs0 ty v bad s).c := by
  obtain ⟨l, hl, hs⟩ := pubTail_shape (I := I) h d root obs0 ty v bad s
  refine ⟨_, hl, Seg.wrap (hs.mono QP.toQD) _ _ _ _ _ _ _ _ _ _ rfl rfl ?_ ?_⟩
  all_goals simp [QD, Ev.depth]

theorem publish_ext (h : RecOK cfg rec) (fr : Frame) (ty v : Nat) (bad : Bool) (sel : CtxSel) (s : St R) :
    Ext cfg (QD fr.depth) s.c (publish I cfg rec fr ty v bad sel s).c := by
  rw [publish_eq]
  obtain ⟨ht, hn⟩ := pubPre_c fr sel s
  exact Ext.trans (Ext.of_eq ht hn) (pubTail_ext I h _ _ _ _ _ _ _)

theorem runPending_ext (h : RecOK cfg rec) (p : Pending) (s : St R) :
    Ext cfg (QD 0) s.c (runPending cfg rec p s).c := by
  unfold runPending
  split
  · exact Ext.refl
  · exact (callHandler_ext h _ _ _ _ _ _ _ _).mono fun e _ => Nat.zero_le _

theorem step_ext (h : RecOK cfg rec) : RecOK cfg (step I cfg rec) := by
  intro fr s a
  have hq : ∀ e : Ev, e.depth = fr.depth → QD fr.depth e := fun e he => by simp [QD, he]
  cases a <;> simp only [step]
  case drain =>
    split
    · exact Ext.refl
    · rename_i hd
      have hd0 : fr.depth = 0 := by simpa using hd
      split
      · exact Ext.refl
      · refine Ext.trans (Ext.trans (Ext.of_eq rfl rfl) ?_) (h fr _ .drain)
        rw [hd0]
        exact runPending_ext h _ _
  case publish =>
    split
    · exact Ext.emit _ _ rfl (hq _ rfl)
    · exact publish_ext I h _ _ _ _ _ _
  all_goals first
    | exact Ext.of_eq rfl rfl
    | exact Ext.emit _ _ rfl (hq _ rfl)
    | (split <;> first | exact Ext.of_eq rfl rfl | exact Ext.emit _ _ rfl (hq _ rfl))

end step

theorem exec_ext {R : Type} (I : RegImpl R) (cfg : Config) (n : Nat) : RecOK cfg (exec I cfg n) := by
  induction n with
  | zero => intro fr s a; exact Ext.of_eq rfl rfl
  | succ n ih => intro fr s a; exact step_ext I ih fr s a

theorem newTrace_of_append {R R' : Type} {s : St R} {s' : St R'} {l : List Ev}
    (h : s'.c.trace = s.c.trace ++ l) : newTrace s s' = l := by
  simp [newTrace, h]

theorem run_ext {R : Type} (I : RegImpl R) (cfg : Config) (fuel : Nat) (prog : List Action) (s : St R) :
    Ext cfg (QD 0) s.c (prog.foldl (fun s a => exec I cfg fuel {} s a) s).c := by
  induction prog generalizing s with
  | nil => exact Ext.refl
  | cons a as ih => exact Ext.trans (exec_ext I cfg fuel {} s a) (ih _)

theorem run_seg {R : Type} (I : RegImpl R) (cfg : Config) (fuel : Nat) (faults : List Bool)
    (prog : List Action) :
    Seg cfg (QD 0) 1 (run I cfg fuel faults prog).c.trace (run I cfg fuel faults prog).c.nextObs := by
  obtain ⟨l, hl, hs⟩ := run_ext I cfg fuel prog (initSt I faults)
  have h0 : (initSt I faults).c.trace = [] := rfl
  rw [h0, List.nil_append] at hl
  unfold run
  rw [hl]
  exact hs
end Obs

open Obs

/-! ### the theorems -/

/-- whatever one API call appends to the trace is balanced and properly nested: processed
against ANY stack of open spans it ends with the same stack — every start has its complete,
each complete carries the id its start returned, pairs nest -/
theorem obs_balanced_exec {R : Type} (I : RegImpl R) (cfg : Config) (n : Nat) (fr : Frame) (s : St R)
    (a : Action) (st : List Nat) :
    obsStack (newTrace s (exec I cfg n fr s a)) st = some st := by
  obtain ⟨l, hl, hs⟩ := exec_ext I cfg n fr s a
  rw [newTrace_of_append hl]
  exact hs.bal st

theorem obs_balanced_run {R : Type} (I : RegImpl R) (cfg : Config) (fuel : Nat) (faults : List Bool)
    (prog : List Action) :
    obsStack (run I cfg fuel faults prog).c.trace [] = some [] :=
  (run_seg I cfg fuel faults prog).bal []

/-- span ids are never reused: the ids started in a run are pairwise distinct -/
theorem obs_ids_fresh {R : Type} (I : RegImpl R) (cfg : Config) (fuel : Nat) (faults : List Bool)
    (prog : List Action) :
    (obsStarts (run I cfg fuel faults prog).c.trace).Nodup :=
  (run_seg I cfg fuel faults prog).sorted.imp fun h => Nat.ne_of_lt h

/-- one handler invocation: OnHandlerStart first (child of the context it was given), then the
handler, OnHandlerComplete last with the same span and `err ≠ nil` exactly when it panicked -/
theorem callHandler_obs {R : Type} (I : RegImpl R) (cfg : Config) (n : Nat) (r : Reg)
    (ty v root obsParent d : Nat) (async : Bool) (s : St R) (hobs : cfg.obs = true) :
    let s' := callHandler cfg (exec I cfg n) r ty v root obsParent d async s
    ∃ mid, newTrace s s' =
      [Ev.obs d .hs s.c.nextObs obsParent ty async] ++ mid ++
      [Ev.obs d .hc s.c.nextObs 0 ty (bodyResult cfg (exec I cfg n) r ty v root obsParent d async s).c.panicking.isSome] := by
  intro s'
  obtain ⟨l, hl, -⟩ := callHandler_shape (exec_ext I cfg n) r ty v root obsParent d async s
  refine ⟨l, ?_⟩
  rw [newTrace_of_append hl]
  simp [hobs]

/-- one persist: OnPersistStart/Complete exactly around an append attempt (none for an
unencodable event), child of the publish span, `err ≠ nil` exactly when the append failed -/
theorem persist_obs (cfg : Config) (d ty v : Nat) (bad : Bool) (obsParent : Nat) (c : Core) (sid : Nat)
    (hobs : cfg.obs = true) (hstore : cfg.store = some sid) :
    let c' := persist cfg d ty v bad obsParent c
    (bad = true → ∀ e ∈ c'.trace.drop c.trace.length, (match e with | .obs .. => false | _ => true) = true) ∧
    (bad = false → ∃ ok off rest, c'.trace.drop c.trace.length =
        [Ev.obs d .rs c.nextObs obsParent ty false, Ev.append d sid ty v ok off,
         Ev.obs d .rc c.nextObs 0 ty (!ok)] ++ rest ∧ ∀ e ∈ rest, (match e with | .obs .. => false | _ => true) = true) := by
  intro c'
  refine ⟨?_, ?_⟩
  · rintro rfl
    have : c' = emitIf cfg.perrH c (.perr d ty v true) := by
      simp [c', persist, hstore]
    rw [this, emitIf_trace]
    cases cfg.perrH <;> simp
  · rintro rfl
    obtain ⟨ht, -⟩ := persist_trace cfg d ty v obsParent c sid hstore
    refine ⟨!(c.appendFaults.headD false), if c.appendFaults.headD false then 0 else c.log.length + 1,
      if (c.appendFaults.headD false && cfg.perrH) then [Ev.perr d ty v false] else [], ?_, ?_⟩
    · show (persist cfg d ty v false obsParent c).trace.drop _ = _
      rw [ht]
      simp [persistEvs, hobs]
    · intro e he
      split at he
      · simp only [List.mem_singleton] at he; subst he; rfl
      · simp at he

/-- one publish: OnPublishStart is the first event and OnPublishComplete the last one, with the
same span; the spans opened in between at this depth are children of the publish span -/
theorem publish_obs {R : Type} (I : RegImpl R) (cfg : Config) (n : Nat) (fr : Frame)
    (ty v : Nat) (bad : Bool) (sel : CtxSel) (s : St R) (hobs : cfg.obs = true) :
    let s' := publish I cfg (exec I cfg n) fr ty v bad sel s
    ∃ parent mid, newTrace s s' =
      [Ev.obs fr.depth .ps s.c.nextObs parent ty false] ++ mid ++ [Ev.obs fr.depth .pc s.c.nextObs 0 ty false] ∧
      (∀ e ∈ mid, match e with
        | .obs d' .hs _ p _ async => d' = fr.depth → async = false → p = s.c.nextObs
        | .obs d' .rs _ p _ _ => d' = fr.depth → p = s.c.nextObs
        | _ => True) := by
  intro s'
  obtain ⟨ht, hn⟩ := pubPre_c fr sel s
  obtain ⟨l, hl, hs⟩ := pubTail_shape (I := I) (exec_ext I cfg n) fr.depth (pubPre fr sel s).1
    (pubPre fr sel s).2.1 ty v bad (pubPre fr sel s).2.2
  rw [← publish_eq, ht, hn] at hl
  refine ⟨(pubPre fr sel s).2.1, l, ?_, ?_⟩
  · rw [newTrace_of_append hl]
    simp [hobs]
  · intro e he
    have := (hs.all e he).2
    rw [hn] at this
    simp only [hobs, if_true] at this
    cases e with
    | obs d' k id p ty' f => cases k <;> first | trivial | exact this
    | _ => trivial

/-- without an Observability no callback event is ever produced -/
theorem no_obs_no_events {R : Type} (I : RegImpl R) (cfg : Config) (fuel : Nat) (faults : List Bool)
    (prog : List Action) (hobs : cfg.obs = false) :
    ∀ e ∈ (run I cfg fuel faults prog).c.trace, (match e with | .obs .. => false | _ => true) = true := by
  intro e he
  have := (run_seg I cfg fuel faults prog).noobs hobs e he
  cases e <;> first | rfl | simp [notObs] at this

end Ebu.Bus

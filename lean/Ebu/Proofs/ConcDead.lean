import Ebu.Spec.ConcOrder
import Ebu.Proofs.ConcOnce
/-!
Removed registrations in the interleaving model M2 (C02): a registration that is neither in the registry nor carried by
any goroutine (in a snapshot rest, as running handler, at a program counter, as the job of an unfinished async
goroutine) is never entered again, under every schedule.
-/
namespace Ebu.Conc
open Ebu.Conc.Inv

namespace Inv

/-! #### `carriesReg` as a proposition -/

/-- activation `g` mentions `rid` neither in the rest of its snapshot nor as its running handler -/
def FrFree (rid : Nat) (g : Frame) : Prop :=
  (∀ x ∈ g.rest, x.rid ≠ rid) ∧ ∀ r, g.handler = some r → r.rid ≠ rid

/-- the thread does not carry `rid` -/
structure Free (rid : Nat) (th : Thread) : Prop where
  frames : ∀ g ∈ th.frames, FrFree rid g
  pc : ∀ r, pcReg th.pc = some r → r.rid ≠ rid
  job : th.pc ≠ .done → ∀ j, th.job = some j → j.reg.rid ≠ rid

theorem carries_iff (rid : Nat) (th : Thread) : carriesReg rid th = false ↔ Free rid th := by
  constructor
  · intro h
    unfold carriesReg at h
    simp only [Bool.or_eq_false_iff, List.any_eq_false] at h
    obtain ⟨⟨h1, h2⟩, h3⟩ := h
    refine ⟨?_, ?_, ?_⟩
    · intro g hg
      have := h1 g hg
      simp only [Bool.or_eq_true, not_or, List.any_eq_true, not_exists, not_and] at this
      refine ⟨fun x hx => by simpa using this.1 x hx, fun r hr => ?_⟩
      have h' := this.2
      rw [hr] at h'
      simpa using h'
    · intro r hr
      cases hpc : th.pc <;> simp [hpc, pcReg] at hr h2 <;> subst hr <;> exact h2
    · intro hd j hj
      rw [hj] at h3
      simpa [hd] using h3
  · intro ⟨h1, h2, h3⟩
    unfold carriesReg
    simp only [Bool.or_eq_false_iff, List.any_eq_false]
    refine ⟨⟨?_, ?_⟩, ?_⟩
    · intro g hg
      obtain ⟨a, b⟩ := h1 g hg
      simp only [Bool.or_eq_true, not_or, List.any_eq_true, not_exists, not_and]
      refine ⟨fun x hx => by simpa using a x hx, ?_⟩
      cases hh : g.handler with
      | none => simp
      | some r => simpa using b r hh
    · cases hpc : th.pc <;> simp [hpc, pcReg] at h2 ⊢ <;> exact h2
    · cases hj : th.job with
      | none => rfl
      | some j =>
        by_cases hd : th.pc = .done
        · simp [hd]
        · simpa [hd] using h3 hd j hj

/-! #### one step of a goroutine that does not carry `rid`, with `rid` not registered -/

theorem FrFree.upd {rid : Nat} {f f' : Frame} (h : FrFree rid f) (h1 : f'.rest = f.rest) (h2 : f'.handler = f.handler) :
    FrFree rid f' := by
  unfold FrFree at h ⊢
  rw [h1, h2]; exact h

theorem newFrame_free {rid : Nat} {sh : Shared} (hregs : ∀ r ∈ sh.regs, r.rid ≠ rid) (ty v : Nat) (ctx : Ctx) :
    FrFree rid (newFrame sh ty v ctx) := by
  refine ⟨?_, by simp [newFrame]⟩
  intro x hx
  simp [newFrame] at hx
  exact hregs x hx.1

theorem Shape.free {sh th f fs PF PC PG o} {rid : Nat} (h : Shape sh th f fs PF PC PG o)
    (hF : ∀ r l, PF r l → r.rid ≠ rid ∧ ∀ x ∈ l, x.rid ≠ rid) (hC : ∀ r l, PC r l → r.rid ≠ rid ∧ ∀ x ∈ l, x.rid ≠ rid)
    (hG : ∀ r l, PG r l → r.rid ≠ rid ∧ ∀ x ∈ l, x.rid ≠ rid)
    (hh : ∀ r, f.handler = some r → r.rid ≠ rid) (hfs : ∀ g ∈ fs, FrFree rid g)
    (hjob : ∀ j, th.job = some j → j.reg.rid ≠ rid) : Free rid o.th := by
  have key : ∀ (f' : Frame) (pc : Pc), (∀ x ∈ f'.rest, x.rid ≠ rid) → (∀ r, f'.handler = some r → r.rid ≠ rid) →
      (∀ r, pcReg pc = some r → r.rid ≠ rid) → Free rid { th with frames := f' :: fs, pc := pc } := by
    intro f' pc h1 h2 h3
    refine ⟨?_, h3, fun _ => hjob⟩
    intro g hg
    simp only [List.mem_cons] at hg
    rcases hg with rfl | hg
    · exact ⟨h1, h2⟩
    · exact hfs g hg
  cases h
  case ret => exact ⟨hfs, by simp [pcReg], fun _ => hjob⟩
  case retire => exact key _ _ (by simp) hh (by simp [pcReg])
  case filter obs r l hp hf =>
    exact key _ _ (hF r l hp).2 hh (by simp only [pcReg, Option.some.injEq]; rintro _ rfl; exact (hF _ l hp).1)
  case claimed obs r l hp ho hne hl =>
    exact key _ _ (hC r l hp).2 hh (by simp only [pcReg, Option.some.injEq]; rintro _ rfl; exact (hC _ l hp).1)
  case spawn obs r l hp ha =>
    exact key _ _ (hG r l hp).2 hh (by simp only [pcReg, Option.some.injEq]; rintro _ rfl; exact (hG _ l hp).1)
  case lock obs r l hp ha hs hl =>
    exact key _ _ (hG r l hp).2 hh (by simp only [pcReg, Option.some.injEq]; rintro _ rfl; exact (hG _ l hp).1)
  case enter obs r l hp ha hs hl =>
    exact key _ _ (hG r l hp).2 (by simp only [Option.some.injEq]; rintro _ rfl; exact (hG _ l hp).1)
      (by simp only [pcReg, Option.some.injEq]; rintro _ rfl; exact (hG _ l hp).1)

theorem DShape.free {sh th f fs o} {rid : Nat} (h : DShape sh th f fs o) (hf : ∀ x ∈ f.rest, x.rid ≠ rid)
    (hh : ∀ r, f.handler = some r → r.rid ≠ rid) (hfs : ∀ g ∈ fs, FrFree rid g)
    (hjob : ∀ j, th.job = some j → j.reg.rid ≠ rid) : Free rid o.th :=
  Shape.free h (fun _ _ h => h.all hf) (fun _ _ h => h.all hf) (fun _ _ h => h.1.all hf) hh hfs hjob

theorem FShape.free {sh th f fs r0 o} {rid : Nat} (h : FShape sh th f fs r0 o) (hf : ∀ x ∈ f.rest, x.rid ≠ rid)
    (h0 : r0.rid ≠ rid) (hh : ∀ r, f.handler = some r → r.rid ≠ rid) (hfs : ∀ g ∈ fs, FrFree rid g)
    (hjob : ∀ j, th.job = some j → j.reg.rid ≠ rid) : Free rid o.th :=
  Shape.free h (fun _ _ h => h.all hf)
    (fun _ _ h => by
      rcases h with ⟨rfl, rfl⟩ | h
      · exact ⟨h0, hf⟩
      · exact h.all hf)
    (fun _ _ h => by
      rcases h.1 with ⟨rfl, rfl⟩ | h
      · exact ⟨h0, hf⟩
      · exact h.all hf) hh hfs hjob

theorem CShape.free {sh th f fs r0 o} {rid : Nat} (h : CShape sh th f fs r0 o) (hf : ∀ x ∈ f.rest, x.rid ≠ rid)
    (h0 : r0.rid ≠ rid) (hh : ∀ r, f.handler = some r → r.rid ≠ rid) (hfs : ∀ g ∈ fs, FrFree rid g)
    (hjob : ∀ j, th.job = some j → j.reg.rid ≠ rid) : Free rid o.th :=
  Shape.free h (fun _ _ h => h.all hf) (fun _ _ h => h.all hf)
    (fun _ _ h => by
      rcases h with ⟨rfl, rfl⟩ | h
      · exact ⟨h0, hf⟩
      · exact h.1.all hf) hh hfs hjob

/-- the thread that moved, and the goroutine it may have started, still do not carry `rid` -/
theorem StepR.free {sh th o} {rid : Nat} (h : StepR sh th o) (hregs : ∀ r ∈ sh.regs, r.rid ≠ rid) (hth : Free rid th) :
    Free rid o.th ∧ ∀ t ∈ o.new, Free rid t := by
  obtain ⟨hfr, hpc, hjob⟩ := hth
  have hnew := newFrame_free hregs
  have split : ∀ f fs, th.frames = f :: fs → FrFree rid f ∧ ∀ g ∈ fs, FrFree rid g := by
    intro f fs e
    rw [e] at hfr
    exact ⟨hfr f (by simp), fun g hg => hfr g (by simp [hg])⟩
  cases h
  case snap f fs hpc' hfr' hsh =>
    obtain ⟨⟨a, b⟩, c⟩ := split f fs hfr'
    exact ⟨hsh.free a b c (hjob (by simp [hpc'])), by simp [hsh.new_nil]⟩
  case filterAcc r f fs hpc' hfr' hacc hsh =>
    obtain ⟨⟨a, b⟩, c⟩ := split f fs hfr'
    exact ⟨hsh.free a (hpc r (by simp [hpc', pcReg])) b c (hjob (by simp [hpc'])), by simp [hsh.new_nil]⟩
  case filterRej r f fs hpc' hfr' hacc hsh =>
    obtain ⟨⟨a, b⟩, c⟩ := split f fs hfr'
    exact ⟨hsh.free a b c (hjob (by simp [hpc'])), by simp [hsh.new_nil]⟩
  case claimed r f fs hpc' hfr' hsh =>
    obtain ⟨⟨a, b⟩, c⟩ := split f fs hfr'
    exact ⟨hsh.free a (hpc r (by simp [hpc', pcReg])) b c (hjob (by simp [hpc'])), by simp [hsh.new_nil]⟩
  case spawn r n t f fs o hpc' hfr' hsh =>
    obtain ⟨⟨a, b⟩, c⟩ := split f fs hfr'
    refine ⟨hsh.free a b c (hjob (by simp [hpc'])), ?_⟩
    intro t' ht'
    simp only [List.mem_singleton] at ht'
    subst ht'
    refine ⟨by simp, by simp [pcReg], ?_⟩
    intro _ j hj
    simp only [Option.some.injEq] at hj
    subst hj
    exact hpc r (by simp [hpc', pcReg])
  case exit r f fs hpc' hfr' hj hsh =>
    obtain ⟨⟨a, b⟩, c⟩ := split f fs hfr'
    exact ⟨hsh.free a (by simp) c (hjob (by simp [hpc'])), by simp [hsh.new_nil]⟩
  case bodyPub f fs ty v more hpc' hfr' hb =>
    obtain ⟨a, c⟩ := split f fs hfr'
    refine ⟨⟨?_, by simp [pcReg], fun _ => hjob (by simp [hpc'])⟩, by simp⟩
    simp only [List.forall_mem_cons]
    exact ⟨hnew _ _ _, a.upd rfl rfl, c⟩
  case enterPub r f fs ty v more hpc' hfr' hb =>
    obtain ⟨a, c⟩ := split f fs hfr'
    refine ⟨⟨?_, by simp [pcReg], fun _ => hjob (by simp [hpc'])⟩, by simp⟩
    simp only [List.forall_mem_cons]
    exact ⟨hnew _ _ _, a.upd rfl rfl, c⟩
  case publish ty v ctx prog hpc' hfr' hp =>
    refine ⟨⟨?_, by simp [pcReg], fun _ => hjob (by simp [hpc'])⟩, by simp⟩
    simp only [List.forall_mem_cons]
    exact ⟨hnew _ _ _, by simp⟩
  case bodyEnd f fs r hpc' hfr' hb hh =>
    obtain ⟨a, c⟩ := split f fs hfr'
    refine ⟨⟨hfr, ?_, fun _ => hjob (by simp [hpc'])⟩, by simp⟩
    simp only [pcReg, Option.some.injEq]
    rintro _ rfl
    exact a.2 _ hh
  case lockDeadSync r a f fs hpc' hfr' hj hfree hl hsh =>
    obtain ⟨⟨a', b⟩, c⟩ := split f fs hfr'
    exact ⟨hsh.free a' b c (hjob (by simp [hpc'])), by simp [hsh.new_nil]⟩
  case lockDeadJob r a j f hpc' hj hfr' hfree hl =>
    exact ⟨⟨by simp, by simp [pcReg], fun _ => hjob (by simp [hpc'])⟩, by simp⟩
  case lock r a f fs hpc' hfr' hfree hl =>
    obtain ⟨a', c⟩ := split f fs hfr'
    have hr := hpc r (by simp [hpc', pcReg])
    refine ⟨⟨?_, ?_, fun _ => hjob (by simp [hpc'])⟩, by simp⟩
    · simp only [List.forall_mem_cons]
      exact ⟨⟨a'.1, by simp only [Option.some.injEq]; rintro _ rfl; exact hr⟩, c⟩
    · simp only [pcReg, Option.some.injEq]; rintro _ rfl; exact hr
  case enterEnd r f fs hpc' hfr' hb =>
    have hr := hpc r (by simp [hpc', pcReg])
    refine ⟨⟨hfr, ?_, fun _ => hjob (by simp [hpc'])⟩, by simp⟩
    simp only [pcReg, Option.some.injEq]; rintro _ rfl; exact hr
  case exitJob r j f hpc' hj hfr' =>
    exact ⟨⟨by simp, by simp [pcReg], fun _ => hjob (by simp [hpc'])⟩, by simp⟩
  case retire f fs hpc' hfr' =>
    obtain ⟨a, c⟩ := split f fs hfr'
    refine ⟨⟨?_, by simp [pcReg], fun _ => hjob (by simp [hpc'])⟩, by simp⟩
    simp only [List.forall_mem_cons]
    exact ⟨a.upd rfl rfl, c⟩
  case retired f fs hpc' hfr' =>
    obtain ⟨a, c⟩ := split f fs hfr'
    exact ⟨⟨c, by simp [pcReg], fun _ => hjob (by simp [hpc'])⟩, by simp⟩
  case astartRun j hpc' hj hs hl =>
    have hr := hjob (by simp [hpc']) j hj
    refine ⟨⟨?_, ?_, fun _ => hjob (by simp [hpc'])⟩, by simp⟩
    · simp only [List.forall_mem_cons]
      exact ⟨⟨by simp [jobFrame], by simp only [jobFrame, if_true, Option.some.injEq]; rintro _ rfl; exact hr⟩, by simp⟩
    · simp only [pcReg, Option.some.injEq]; rintro _ rfl; exact hr
  case turnRun j hpc' hj hturn hl =>
    have hr := hjob (by simp [hpc']) j hj
    refine ⟨⟨?_, ?_, fun _ => hjob (by simp [hpc'])⟩, by simp⟩
    · simp only [List.forall_mem_cons]
      exact ⟨⟨by simp [jobFrame], by simp [jobFrame]⟩, by simp⟩
    · simp only [pcReg, Option.some.injEq]; rintro _ rfl; exact hr
  all_goals first
    | exact ⟨⟨hfr, hpc, fun _ => hjob (by simp [*])⟩, by simp⟩
    | exact ⟨⟨hfr, by simp [pcReg], fun _ => hjob (by simp [*])⟩, by simp⟩

/-- a removed registration is not registered again: new registrations get fresh identities -/
theorem RegStep.gone {sh sh' : Shared} {rid : Nat} (h : RegStep sh sh') (hrid : rid < sh.nextRid)
    (hregs : ∀ r ∈ sh.regs, r.rid ≠ rid) : ∀ r ∈ sh'.regs, r.rid ≠ rid := by
  cases h with
  | same e1 _ _ => rw [e1]; exact hregs
  | add r1 e1 hr1 _ _ =>
    rw [e1]
    intro r hr
    simp only [List.mem_append, List.mem_singleton] at hr
    rcases hr with hr | rfl
    · exact hregs r hr
    · omega
  | del e1 _ _ => exact fun r hr => hregs r (e1.subset hr)

/-! #### which registrations a step enters -/

/-- is the event an entry of registration `rid`? -/
def isEnt (rid : Nat) : Obs → Bool
  | .enter r _ _ _ => r == rid
  | _ => false

/-- no entry of `rid` among the events -/
def NoEnt (rid : Nat) (obs : List Obs) : Prop := ∀ e ∈ obs, isEnt rid e = false

theorem NoEnt.nil (rid : Nat) : NoEnt rid [] := by intro e he; cases he

theorem NoEnt.snoc {rid : Nat} {obs : List Obs} {e : Obs} (h : NoEnt rid obs) (he : isEnt rid e = false) :
    NoEnt rid (obs ++ [e]) := by
  intro e' he'
  simp only [List.mem_append, List.mem_singleton] at he'
  rcases he' with he' | rfl
  · exact h e' he'
  · exact he

theorem isEnt_enter {rid r ty v : Nat} {a : Bool} (h : r ≠ rid) : isEnt rid (.enter r ty v a) = false := by
  simp [isEnt, h]

/-- the dispatch loop enters only registrations of the rest of the snapshot (or the one it was resumed with) -/
theorem noEnt_all (rid : Nat) (fuel : Nat) : ∀ (sh : Shared) (th : Thread) (f : Frame) (fs : List Frame) (obs : List Obs),
    (∀ x ∈ f.rest, x.rid ≠ rid) → NoEnt rid obs →
    NoEnt rid (dispatch sh th f fs obs fuel).obs ∧
    (∀ r0, r0.rid ≠ rid → NoEnt rid (afterFilter sh th f fs r0 obs fuel).obs) ∧
    (∀ r0, r0.rid ≠ rid → NoEnt rid (afterClaim sh th f fs r0 obs fuel).obs) := by
  induction fuel with
  | zero =>
    intro sh th f fs obs _ ho
    refine ⟨?_, fun r0 _ => ?_, fun r0 _ => ?_⟩
    · unfold dispatch; exact ho
    · unfold afterFilter; exact ho
    · unfold afterClaim; exact ho
  | succ fuel ih =>
    intro sh th f fs obs hf ho
    refine ⟨?_, fun r0 h0 => ?_, fun r0 h0 => ?_⟩
    · unfold dispatch
      split
      · split
        · exact ho.snoc rfl
        · exact ho
      · rename_i r rest hrest
        have hr : r.rid ≠ rid := hf r (by simp [hrest])
        have hrest' : ∀ x ∈ rest, x.rid ≠ rid := fun x hx => hf x (by simp [hrest, hx])
        split
        · exact ho
        · exact (ih sh th { f with rest := rest } fs obs hrest' ho).2.1 r hr
    · unfold afterFilter
      split
      · exact (ih _ _ _ _ _ hf ho).1
      · split
        · split
          · exact (ih _ _ _ _ _ hf ho).1
          · exact ho
        · exact (ih _ _ _ _ _ hf ho).2.2 r0 h0
    · unfold afterClaim
      split
      · exact ho
      · split
        · exact (ih _ _ _ _ _ hf ho).1
        · split
          · exact ho
          · exact ho.snoc (isEnt_enter h0)

/-- a goroutine enters only registrations it carries -/
theorem step_noEnt {sh : Shared} {th : Thread} {o : Out} {rid : Nat} (h : step sh th = some o) (hth : Free rid th) :
    NoEnt rid o.obs := by
  obtain ⟨hfr, hpcr, hjob⟩ := hth
  have hrest : ∀ f fs, th.frames = f :: fs → ∀ x ∈ f.rest, x.rid ≠ rid := by
    intro f fs e
    exact (hfr f (by simp [e])).1
  have one : ∀ e : Obs, isEnt rid e = false → NoEnt rid [e] := by
    intro e he e' he'
    simp only [List.mem_singleton] at he'
    subst he'; exact he
  have two : ∀ e e' : Obs, isEnt rid e = false → isEnt rid e' = false → NoEnt rid [e, e'] := by
    intro e e' he he' e'' he''
    simp only [List.mem_cons, List.not_mem_nil, or_false] at he''
    rcases he'' with rfl | rfl
    · exact he
    · exact he'
  unfold step at h
  split at h
  · cases h
  split at h
  · cases h
  · -- op
    split at h
    · split at h
      · cases h; exact .nil _
      · cases h; exact one _ rfl
      · cases h
    · split at h
      · cases h; exact one _ rfl
      · split at h <;> cases h <;> first | exact .nil _ | exact one _ rfl | exact two _ _ rfl rfl
  · -- snap
    split at h
    · rename_i f fs hfr'
      cases h
      exact (noEnt_all rid _ sh th f fs [] (hrest f fs hfr') (.nil _)).1
    · cases h
  · -- filter
    rename_i r hpc
    have hr := hpcr r (by simp [hpc, pcReg])
    split at h
    · rename_i f fs hfr'
      split at h
      · cases h
        exact (noEnt_all rid _ sh th f fs _ (hrest f fs hfr') (one _ rfl)).2.1 r hr
      · cases h
        exact (noEnt_all rid _ sh th f fs _ (hrest f fs hfr') (one _ rfl)).1
    · cases h
  · -- claimed
    rename_i r hpc
    have hr := hpcr r (by simp [hpc, pcReg])
    split at h
    · rename_i f fs hfr'
      cases h
      exact (noEnt_all rid _ sh th f fs _ (hrest f fs hfr') (.nil _)).2.2 r hr
    · cases h
  · -- spawn
    split at h
    · rename_i f fs hfr'
      cases h
      exact (noEnt_all rid _ sh th f fs _ (hrest f fs hfr') (one _ rfl)).1
    · cases h
  · -- lock
    rename_i r a hpc
    have hr := hpcr r (by simp [hpc, pcReg])
    split at h
    · rename_i f fs hfr'
      split at h
      · split at h
        · cases h; exact .nil _
        · cases h; exact (noEnt_all rid _ sh th f _ [] (hrest f _ hfr') (.nil _)).1
      · cases h; exact one _ (isEnt_enter hr)
    · cases h
  · -- enter
    split at h
    · split at h
      · cases h; exact .nil _
      · cases h; exact one _ rfl
    · cases h
  · -- exit
    dsimp only at h
    split at h
    · cases h; exact .nil _
    · rename_i f fs hfr' _
      cases h
      exact (noEnt_all rid _ _ th { f with handler := none, body := [] } fs [] (hrest f fs hfr') (.nil _)).1
    · cases h
  · -- retire
    split at h
    · cases h; exact .nil _
    · cases h
  · -- retired
    split at h
    · cases h; exact one _ rfl
    · cases h
  · -- astart
    rename_i hpc
    split at h
    · rename_i j hj
      have hr := hjob (by simp [hpc]) j hj
      split at h
      · cases h; exact .nil _
      · split at h
        · cases h; exact .nil _
        · cases h; exact one _ (isEnt_enter hr)
    · cases h
  · -- turn
    split at h
    · dsimp only at h
      split at h <;> cases h <;> exact .nil _
    · cases h
  · -- aend
    cases h; exact one _ rfl

/-! #### the trace -/

theorem entriesOfReg_append (rid i : Nat) (tr : List (Nat × Obs)) (obs : List Obs) :
    entriesOfReg rid (tr ++ obs.map (fun e => (i, e))) =
      entriesOfReg rid tr ++ (obs.filter (isEnt rid)).map (fun e => (i, e)) := by
  unfold entriesOfReg
  rw [List.filter_append, List.filter_map]
  congr 2

theorem entriesOfReg_noEnt {rid i : Nat} {tr : List (Nat × Obs)} {obs : List Obs} (h : NoEnt rid obs) :
    entriesOfReg rid (tr ++ obs.map (fun e => (i, e))) = entriesOfReg rid tr := by
  rw [entriesOfReg_append, List.filter_eq_nil_iff.2 (fun e he => by simp [h e he])]
  simp

theorem free_others {rid : Nat} {ths : List Thread} {i : Nat} {th' : Thread} {new : List Thread}
    (hths : ∀ t ∈ ths, Free rid t) (h1 : Free rid th') (h2 : ∀ t ∈ new, Free rid t) :
    ∀ t ∈ ths.set i th' ++ new, Free rid t := by
  intro t ht
  rcases mem_step_cases ht with ht | rfl | ht
  · exact hths t ht
  · exact h1
  · exact h2 t ht

end Inv

/-- one step from a state in which `rid` has been handed out, is not registered and is carried by nobody -/
theorem dead_step {x x' : SysT} {i : Nat} {rid : Nat} (hstep : x.stepAt i = some x') (hrid : rid < x.s.sh.nextRid)
    (hgone : ∀ r ∈ x.s.sh.regs, r.rid ≠ rid) (hfree : ∀ th ∈ x.s.ths, carriesReg rid th = false) :
    entriesOfReg rid x'.tr = entriesOfReg rid x.tr ∧ rid < x'.s.sh.nextRid ∧
    (∀ r ∈ x'.s.sh.regs, r.rid ≠ rid) ∧ (∀ th ∈ x'.s.ths, carriesReg rid th = false) := by
  unfold SysT.stepAt at hstep
  split at hstep
  · cases hstep
  · rename_i th hth
    split at hstep
    · cases hstep
    · rename_i o ho
      cases hstep
      have hR := stepR_of_step ho
      have hF : ∀ t ∈ x.s.ths, Free rid t := fun t ht => (carries_iff rid t).1 (hfree t ht)
      have hthF := hF th (List.mem_of_getElem? hth)
      obtain ⟨h1, h2⟩ := hR.free hgone hthF
      refine ⟨entriesOfReg_noEnt (step_noEnt ho hthF), ?_, hR.regStep.gone hrid hgone, ?_⟩
      · exact Nat.lt_of_lt_of_le hrid hR.regStep.nextRid_le
      · intro t ht
        exact (carries_iff rid t).2 (free_others hF h1 h2 t ht)

theorem dead_steps {x x' : SysT} {rid : Nat} (hs : StepsT x x') (hrid : rid < x.s.sh.nextRid)
    (hgone : ∀ r ∈ x.s.sh.regs, r.rid ≠ rid) (hfree : ∀ th ∈ x.s.ths, carriesReg rid th = false) :
    entriesOfReg rid x'.tr = entriesOfReg rid x.tr ∧ rid < x'.s.sh.nextRid ∧
    (∀ r ∈ x'.s.sh.regs, r.rid ≠ rid) ∧ (∀ th ∈ x'.s.ths, carriesReg rid th = false) := by
  induction hs with
  | refl => exact ⟨rfl, hrid, hgone, hfree⟩
  | step _ hst ih =>
    obtain ⟨e, a, b, c⟩ := ih
    obtain ⟨e', a', b', c'⟩ := dead_step hst a b c
    exact ⟨e'.trans e, a', b', c'⟩

/-- reachability is preserved along further steps -/
theorem StepsT.reachable {progs : List (List Op)} {x x' : SysT} (h : ReachableT progs x) (hs : StepsT x x') :
    ReachableT progs x' := by
  induction hs with
  | refl => exact h
  | step _ hst ih => exact .step ih hst

/-- C02: a handler whose removal has returned and which no publish in progress still carries is never invoked again:
once registration `rid` is neither in the registry nor carried by any goroutine, it stays that way and no step ever
enters it, whatever is published afterwards, under every schedule -/
theorem removed_registration_is_dead {progs : List (List Op)} {x x' : SysT} (h : ReachableT progs x) (hs : StepsT x x')
    (rid : Nat) (hrid : rid < x.s.sh.nextRid)
    (hgone : ∀ r ∈ x.s.sh.regs, r.rid ≠ rid) (hfree : ∀ th ∈ x.s.ths, carriesReg rid th = false) :
    entriesOfReg rid x'.tr = entriesOfReg rid x.tr ∧
    (∀ r ∈ x'.s.sh.regs, r.rid ≠ rid) ∧ (∀ th ∈ x'.s.ths, carriesReg rid th = false) := by
  have _ := h
  obtain ⟨e, _, b, c⟩ := dead_steps hs hrid hgone hfree
  exact ⟨e, b, c⟩

/-- a registration is entered only while it is carried: every step that enters `rid` is taken by a goroutine that
carried it before the step -/
theorem entered_only_if_carried {progs : List (List Op)} {x x' : SysT} {i : Nat} (h : ReachableT progs x)
    (hstep : x.stepAt i = some x') (rid : Nat) (hnew : entriesOfReg rid x'.tr ≠ entriesOfReg rid x.tr) :
    ∃ th, x.s.ths[i]? = some th ∧ (carriesReg rid th = true ∨ ∃ r ∈ x.s.sh.regs, r.rid = rid) := by
  have _ := h
  unfold SysT.stepAt at hstep
  split at hstep
  · cases hstep
  · rename_i th hth
    split at hstep
    · cases hstep
    · rename_i o ho
      cases hstep
      refine ⟨th, hth, .inl ?_⟩
      cases hc : carriesReg rid th with
      | true => rfl
      | false => exact absurd (entriesOfReg_noEnt (step_noEnt ho ((carries_iff rid th).1 hc))) hnew

/-- the sharper form of `entered_only_if_carried`: the registry alternative is never needed, because a publish parks at
"publish.snapshot" after it took its snapshot and enters nothing in that step -/
theorem entered_only_if_carried_strong {x x' : SysT} {i : Nat} (hstep : x.stepAt i = some x') (rid : Nat)
    (hnew : entriesOfReg rid x'.tr ≠ entriesOfReg rid x.tr) :
    ∃ th, x.s.ths[i]? = some th ∧ carriesReg rid th = true := by
  unfold SysT.stepAt at hstep
  split at hstep
  · cases hstep
  · rename_i th hth
    split at hstep
    · cases hstep
    · rename_i o ho
      cases hstep
      refine ⟨th, hth, ?_⟩
      cases hc : carriesReg rid th with
      | true => rfl
      | false => exact absurd (entriesOfReg_noEnt (step_noEnt ho ((carries_iff rid th).1 hc))) hnew

/-! ### the hypotheses are satisfiable: subscribe, publish (the handler runs), unsubscribe, publish again -/

namespace DeadExample
open TraceExample

theorem StepsT.head {x y z : SysT} {i : Nat} (hst : x.stepAt i = some y) (hs : StepsT y z) : StepsT x z := by
  induction hs with
  | refl => exact .step (.refl x) hst
  | step _ hst' ih => exact .step ih hst'

theorem runT_steps {sched : List Nat} : ∀ {x x' : SysT}, runT x sched = some x' → StepsT x x' := by
  induction sched with
  | nil => intro x x' h; simp only [runT, Option.some.injEq] at h; exact h ▸ .refl x
  | cons i is ih =>
    intro x x' h
    simp only [runT] at h
    cases hst : x.stepAt i with
    | none => simp [hst] at h
    | some x1 => rw [hst] at h; exact StepsT.head hst (ih h)

/-- one goroutine: subscribe a synchronous handler to type 0, publish, unsubscribe it, publish again -/
def dxProgs : List (List Op) :=
  [ [ .subscribe 0 0 false false false none [],
      .publish 0 1 .bg,
      .unsubscribe 0 0,
      .publish 0 2 .bg ] ]

/-- subscribe; publish: snapshot, dispatch (the handler is entered), handler returns, PublishContext returns; unsubscribe -/
def dxSched : List Nat := [0, 0, 0, 0, 0, 0]

theorem dxRuns : (runT { s := initSys dxProgs } dxSched).isSome = true := by decide +kernel

/-- the state right after `Unsubscribe` returned -/
def dxState : SysT := (runT { s := initSys dxProgs } dxSched).get dxRuns

theorem dxReachable : ReachableT dxProgs dxState := runT_reachable .init (Option.some_get dxRuns).symm

/-- the second publish: snapshot (empty), PublishContext returns, the goroutine ends -/
def dxSched2 : List Nat := [0, 0, 0]

theorem dxRuns2 : (runT dxState dxSched2).isSome = true := by decide +kernel

def dxFinal : SysT := (runT dxState dxSched2).get dxRuns2

theorem dxSteps : StepsT dxState dxFinal := runT_steps (Option.some_get dxRuns2).symm

end DeadExample

open DeadExample in
/-- non-vacuity: after subscribe, publish, unsubscribe the hypotheses of `removed_registration_is_dead` hold for
registration 0, whose handler ran exactly once before it was removed; the second publish runs to the end of the program,
and (by the theorem) the handler is not entered again -/
theorem dead_hypotheses_satisfiable :
    ReachableT dxProgs dxState ∧ StepsT dxState dxFinal ∧ 0 < dxState.s.sh.nextRid ∧
    (∀ r ∈ dxState.s.sh.regs, r.rid ≠ 0) ∧ (∀ th ∈ dxState.s.ths, carriesReg 0 th = false) ∧
    entriesOfReg 0 dxState.tr = [(0, Obs.enter 0 0 1 false)] ∧
    dxFinal.s.ths.map (·.pc) = [Pc.done] ∧
    entriesOfReg 0 dxFinal.tr = [(0, Obs.enter 0 0 1 false)] := by
  have h1 : (0 : Nat) < dxState.s.sh.nextRid := by decide +kernel
  have h2 : ∀ r ∈ dxState.s.sh.regs, r.rid ≠ 0 := by decide +kernel
  have h3 : ∀ th ∈ dxState.s.ths, carriesReg 0 th = false := by decide +kernel
  have h4 : entriesOfReg 0 dxState.tr = [(0, Obs.enter 0 0 1 false)] := by decide +kernel
  refine ⟨dxReachable, dxSteps, h1, h2, h3, h4, by decide +kernel, ?_⟩
  rw [(removed_registration_is_dead dxReachable dxSteps 0 h1 h2 h3).1, h4]

namespace DeadExample
open TraceExample

theorem exRuns (n : Nat) (h : (runT { s := initSys dxProgs } (List.replicate n 0)).isSome = true) :
    ReachableT dxProgs ((runT { s := initSys dxProgs } (List.replicate n 0)).get h) :=
  runT_reachable .init (Option.some_get h).symm

theorem dxRunsA : (runT { s := initSys dxProgs } (List.replicate 2 0)).isSome = true := by decide +kernel

/-- parked at "publish.snapshot" of the first publish, with registration 0 in the rest of the snapshot -/
def dxBefore : SysT := (runT { s := initSys dxProgs } (List.replicate 2 0)).get dxRunsA
theorem dxRunsB : (dxBefore.stepAt 0).isSome = true := by decide +kernel
/-- … and one step later, inside the handler -/
def dxAfter : SysT := (dxBefore.stepAt 0).get dxRunsB

end DeadExample

open DeadExample in
/-- non-vacuity of `entered_only_if_carried`: the step of the first publish that enters registration 0 -/
theorem entered_hypotheses_satisfiable :
    ReachableT dxProgs dxBefore ∧ dxBefore.stepAt 0 = some dxAfter ∧
    entriesOfReg 0 dxAfter.tr ≠ entriesOfReg 0 dxBefore.tr ∧
    ∃ th, dxBefore.s.ths[0]? = some th ∧ carriesReg 0 th = true := by
  have hst : dxBefore.stepAt 0 = some dxAfter := (Option.some_get dxRunsB).symm
  have hne : entriesOfReg 0 dxAfter.tr ≠ entriesOfReg 0 dxBefore.tr := by decide +kernel
  exact ⟨exRuns 2 dxRunsA, hst, hne, entered_only_if_carried_strong hst 0 hne⟩

end Ebu.Conc

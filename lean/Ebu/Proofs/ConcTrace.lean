import Ebu.Spec.ConcTrace
import Ebu.Proofs.ConcProgress
/-!
The observable trace of the interleaving model M2: what each goroutine entered.

`entersOf i tr` (Ebu/Spec/ConcTrace.lean) collects *all* `.enter` events of goroutine `i`.  An async goroutine, while
its handler runs, performs the nested publishes of the handler body and enters their *synchronous* handlers itself
(`Obs.enter … false`, produced by the same goroutine).  So "an async goroutine enters at most one handler" is false for
`entersOf` as soon as a handler body is non-empty (`entersOf_counterexample` below); the theorems are therefore about
`asyncEntersOf i tr`, the `.enter … true` events of goroutine `i`: the asynchronous deliveries it performed.
-/
namespace Ebu.Conc
open Ebu.Conc.Inv

namespace Inv

/-! #### what the dispatch loop adds to the observations -/

/-- the loop creates no goroutine and adds neither an async entry nor a `spawned` to `obs` -/
def Quiet (obs : List Obs) (o : Out) : Prop :=
  o.new = [] ∧ ∃ ex, o.obs = obs ++ ex ∧ ∀ e ∈ ex, e.isAsyncEnter = false ∧ e.isSpawned = false

theorem Quiet.refl (sh : Shared) (th : Thread) (obs : List Obs) : Quiet obs ⟨sh, th, [], obs⟩ :=
  ⟨rfl, [], by simp, by simp⟩

theorem Quiet.snoc (sh : Shared) (th : Thread) (obs : List Obs) (e : Obs) (h1 : e.isAsyncEnter = false)
    (h2 : e.isSpawned = false) : Quiet obs ⟨sh, th, [], obs ++ [e]⟩ :=
  ⟨rfl, [e], rfl, by simp [h1, h2]⟩

theorem quiet_all (fuel : Nat) : ∀ (sh : Shared) (th : Thread) (f : Frame) (fs : List Frame) (obs : List Obs),
    Quiet obs (dispatch sh th f fs obs fuel) ∧
    (∀ r0, Quiet obs (afterFilter sh th f fs r0 obs fuel)) ∧
    (∀ r0, Quiet obs (afterClaim sh th f fs r0 obs fuel)) := by
  induction fuel with
  | zero =>
    intro sh th f fs obs
    refine ⟨?_, fun r0 => ?_, fun r0 => ?_⟩
    · unfold dispatch; exact .refl _ _ _
    · unfold afterFilter; exact .refl _ _ _
    · unfold afterClaim; exact .refl _ _ _
  | succ fuel ih =>
    intro sh th f fs obs
    refine ⟨?_, fun r0 => ?_, fun r0 => ?_⟩
    · unfold dispatch
      split
      · split
        · exact .snoc _ _ _ _ rfl rfl
        · exact .refl _ _ _
      · split
        · exact .refl _ _ _
        · exact (ih _ _ _ _ _).2.1 _
    · unfold afterFilter
      split
      · exact (ih _ _ _ _ _).1
      · split
        · split
          · exact (ih _ _ _ _ _).1
          · exact .refl _ _ _
        · exact (ih _ _ _ _ _).2.2 _
    · unfold afterClaim
      split
      · exact .refl _ _ _
      · split
        · exact (ih _ _ _ _ _).1
        · split
          · exact .refl _ _ _
          · exact .snoc _ _ _ _ rfl rfl

theorem Quiet.filterAE {obs : List Obs} {o : Out} (h : Quiet obs o) :
    o.obs.filter Obs.isAsyncEnter = obs.filter Obs.isAsyncEnter := by
  obtain ⟨_, ex, he, hq⟩ := h
  rw [he, List.filter_append]
  have : ex.filter Obs.isAsyncEnter = [] := List.filter_eq_nil_iff.2 (fun e he => by simp [(hq e he).1])
  simp [this]

theorem Quiet.filterSp {obs : List Obs} {o : Out} (h : Quiet obs o) :
    o.obs.filter Obs.isSpawned = obs.filter Obs.isSpawned := by
  obtain ⟨_, ex, he, hq⟩ := h
  rw [he, List.filter_append]
  have : ex.filter Obs.isSpawned = [] := List.filter_eq_nil_iff.2 (fun e he => by simp [(hq e he).2])
  simp [this]

@[simp] theorem dispatch_filterAE (sh th f fs obs fuel) :
    (dispatch sh th f fs obs fuel).obs.filter Obs.isAsyncEnter = obs.filter Obs.isAsyncEnter :=
  (quiet_all fuel sh th f fs obs).1.filterAE
@[simp] theorem afterFilter_filterAE (sh th f fs r0 obs fuel) :
    (afterFilter sh th f fs r0 obs fuel).obs.filter Obs.isAsyncEnter = obs.filter Obs.isAsyncEnter :=
  ((quiet_all fuel sh th f fs obs).2.1 r0).filterAE
@[simp] theorem afterClaim_filterAE (sh th f fs r0 obs fuel) :
    (afterClaim sh th f fs r0 obs fuel).obs.filter Obs.isAsyncEnter = obs.filter Obs.isAsyncEnter :=
  ((quiet_all fuel sh th f fs obs).2.2 r0).filterAE
@[simp] theorem dispatch_filterSp (sh th f fs obs fuel) :
    (dispatch sh th f fs obs fuel).obs.filter Obs.isSpawned = obs.filter Obs.isSpawned :=
  (quiet_all fuel sh th f fs obs).1.filterSp
@[simp] theorem afterFilter_filterSp (sh th f fs r0 obs fuel) :
    (afterFilter sh th f fs r0 obs fuel).obs.filter Obs.isSpawned = obs.filter Obs.isSpawned :=
  ((quiet_all fuel sh th f fs obs).2.1 r0).filterSp
@[simp] theorem afterClaim_filterSp (sh th f fs r0 obs fuel) :
    (afterClaim sh th f fs r0 obs fuel).obs.filter Obs.isSpawned = obs.filter Obs.isSpawned :=
  ((quiet_all fuel sh th f fs obs).2.2 r0).filterSp
@[simp] theorem dispatch_new (sh th f fs obs fuel) : (dispatch sh th f fs obs fuel).new = [] :=
  (quiet_all fuel sh th f fs obs).1.1
@[simp] theorem afterFilter_new (sh th f fs r0 obs fuel) : (afterFilter sh th f fs r0 obs fuel).new = [] :=
  ((quiet_all fuel sh th f fs obs).2.1 r0).1
@[simp] theorem afterClaim_new (sh th f fs r0 obs fuel) : (afterClaim sh th f fs r0 obs fuel).new = [] :=
  ((quiet_all fuel sh th f fs obs).2.2 r0).1

/-- the observations of one step: one `spawned` per new goroutine, new goroutines are async goroutines parked at
"async.start", and async entries are produced only at "async.start" and at the "handler.lock" of an async goroutine -/
theorem step_obs {sh : Shared} {th : Thread} {o : Out} (h : step sh th = some o) :
    (o.obs.filter Obs.isSpawned).length = o.new.length ∧
    (∀ t ∈ o.new, t.job.isSome = true ∧ t.pc = .astart) ∧
    (th.pc ≠ .astart → (∀ r, th.pc ≠ .lock r true) → o.obs.filter Obs.isAsyncEnter = []) := by
  unfold step at h
  split at h
  · cases h
  split at h
  · cases h
  · -- op
    split at h
    · split at h
      · cases h; simp
      · cases h; simp [Obs.isAsyncEnter, Obs.isSpawned]
      · cases h
    · split at h
      · cases h; simp [Obs.isAsyncEnter, Obs.isSpawned]
      · split at h <;> cases h <;> simp [Obs.isAsyncEnter, Obs.isSpawned]
  · -- snap
    split at h
    · cases h; simp
    · cases h
  · -- filter
    split at h
    · split at h <;> cases h <;> simp [Obs.isAsyncEnter, Obs.isSpawned]
    · cases h
  · -- claimed
    split at h
    · cases h; simp
    · cases h
  · -- spawn
    split at h
    · cases h; simp [Obs.isAsyncEnter, Obs.isSpawned, List.filter]
    · cases h
  · -- lock
    rename_i r a hpc
    split at h
    · split at h
      · split at h
        · cases h; simp
        · cases h; simp
      · cases h
        refine ⟨rfl, by simp, ?_⟩
        intro _ h2
        cases a
        · simp [Obs.isAsyncEnter]
        · exact absurd hpc (h2 r)
    · cases h
  · -- enter
    split at h
    · split at h <;> cases h <;> simp [Obs.isAsyncEnter, Obs.isSpawned]
    · cases h
  · -- exit
    dsimp only at h
    split at h
    · cases h; simp
    · cases h; simp
    · cases h
  · -- retire
    split at h
    · cases h; simp
    · cases h
  · -- retired
    split at h
    · cases h; simp [Obs.isAsyncEnter, Obs.isSpawned]
    · cases h
  · -- astart
    rename_i hpc
    refine ⟨?_, ?_, fun h1 => absurd hpc h1⟩
    all_goals
      split at h
      · split at h
        · cases h; simp
        · split at h <;> cases h <;> simp [Obs.isSpawned]
      · cases h
  · -- turn
    split at h
    · dsimp only at h
      split at h <;> cases h <;> simp
    · cases h
  · -- aend
    cases h; simp [Obs.isAsyncEnter, Obs.isSpawned]

/-! #### contexts are only ever cancelled -/

@[simp] theorem live_noteEnter (sh : Shared) (r : Reg) (c : Ctx) : (sh.noteEnter r).live c = sh.live c := by
  cases c <;> simp [Shared.live]

theorem live_congr {sh sh' : Shared} (h : sh'.cancelled = sh.cancelled) (c : Ctx) : sh'.live c = sh.live c := by
  cases c <;> simp [Shared.live, h]

theorem Shape.cancelled {sh th f fs PF PC PG o} (h : Shape sh th f fs PF PC PG o) : o.sh.cancelled = sh.cancelled := by
  cases h <;> simp

theorem StepR.cancelled {sh th o} (h : StepR sh th o) : ∃ ks, o.sh.cancelled = ks ++ sh.cancelled := by
  cases h
  case cancel k prog hpc hfr hp => exact ⟨[k], rfl⟩
  case snap hsh => exact ⟨[], hsh.cancelled⟩
  case filterAcc hsh => exact ⟨[], hsh.cancelled⟩
  case filterRej hsh => exact ⟨[], hsh.cancelled⟩
  case claimed hsh => exact ⟨[], hsh.cancelled⟩
  case spawn hsh => exact ⟨[], hsh.cancelled⟩
  case exit hsh => exact ⟨[], hsh.cancelled⟩
  case lockDeadSync hsh => exact ⟨[], hsh.cancelled⟩
  all_goals exact ⟨[], by simp⟩

/-- a cancelled context stays cancelled -/
theorem StepR.live_mono {sh th o} (h : StepR sh th o) (c : Ctx) (hc : sh.live c = false) : o.sh.live c = false := by
  obtain ⟨ks, hk⟩ := h.cancelled
  cases c with
  | bg => simp [Shared.live] at hc
  | shared k =>
    simp only [Shared.live, Bool.not_eq_false', List.contains_eq_mem, decide_eq_true_eq] at hc ⊢
    rw [hk]; exact List.mem_append_right _ hc

/-! #### the per-goroutine trace invariant -/

/-- the one event an async goroutine may produce with `async = true` -/
def theEnter (j : Job) : List Obs := [Obs.enter j.reg.rid j.ty j.v true]

/-- async goroutine started for `j`, parked at `pc` with activations `fr`, having produced the async entries `l` -/
def JobTr (sh : Shared) (j : Job) (fr : List Frame) (l : List Obs) : Pc → Prop
  | .astart | .turn => l = []
  | .lock r true => l = [] ∧ r = j.reg ∧ ∃ f, fr = [f] ∧ f.ty = j.ty ∧ f.v = j.v ∧ f.ctx = j.ctx
  | .aend | .done => l = theEnter j ∨ (l = [] ∧ sh.live j.ctx = false)
  | _ => l = theEnter j

/-- goroutine `th` has produced the async entries `l` -/
def ThTr (sh : Shared) (th : Thread) (l : List Obs) : Prop :=
  match th.job with
  | some j => JobTr sh j th.frames l th.pc
  | none => l = [] ∧ th.pc ≠ .astart ∧ ∀ r, th.pc ≠ .lock r true

theorem JobTr.mono {sh sh' : Shared} {j : Job} {fr : List Frame} {l : List Obs} {pc : Pc} (h : JobTr sh j fr l pc)
    (hm : ∀ c, sh.live c = false → sh'.live c = false) : JobTr sh' j fr l pc := by
  unfold JobTr at h ⊢
  split <;> simp_all
  all_goals
    rcases h with h | h
    · exact .inl h
    · exact .inr ⟨h.1, hm _ h.2⟩

theorem ThTr.mono {sh sh' : Shared} {th : Thread} {l : List Obs} (h : ThTr sh th l)
    (hm : ∀ c, sh.live c = false → sh'.live c = false) : ThTr sh' th l := by
  unfold ThTr at h ⊢
  split
  · rename_i j hj; rw [hj] at h; exact JobTr.mono h hm
  · rename_i hj; rw [hj] at h; exact h

theorem JobTr.cases {sh : Shared} {j : Job} {fr : List Frame} {l : List Obs} {pc : Pc} (h : JobTr sh j fr l pc) :
    l = [] ∨ l = theEnter j := by
  unfold JobTr at h
  split at h
  · exact .inl h
  · exact .inl h
  · exact .inl h.1
  · rcases h with h | h
    · exact .inr h
    · exact .inl h.1
  · rcases h with h | h
    · exact .inr h
    · exact .inl h.1
  · exact .inr h

theorem Shape.job {sh th f fs PF PC PG o} (h : Shape sh th f fs PF PC PG o) : o.th.job = th.job := by
  cases h <;> rfl

theorem StepR.job {sh th o} (h : StepR sh th o) : o.th.job = th.job := by
  cases h
  case snap hsh => exact hsh.job
  case filterAcc hsh => exact hsh.job
  case filterRej hsh => exact hsh.job
  case claimed hsh => exact hsh.job
  case spawn hsh => exact hsh.job
  case exit hsh => exact hsh.job
  case lockDeadSync hsh => exact hsh.job
  all_goals rfl

/-- the pcs the dispatch loop stops at are all "inside the delivery" -/
theorem Shape.running {sh th f fs PF PC PG o} (h : Shape sh th f fs PF PC PG o) :
    o.th.pc ≠ .astart ∧ o.th.pc ≠ .turn ∧ o.th.pc ≠ .aend ∧ o.th.pc ≠ .done ∧ ∀ r, o.th.pc ≠ .lock r true := by
  cases h <;> simp

theorem JobTr.running {sh : Shared} {j : Job} {fr : List Frame} {pc : Pc}
    (h : pc ≠ .astart ∧ pc ≠ .turn ∧ pc ≠ .aend ∧ pc ≠ .done ∧ ∀ r, pc ≠ .lock r true) :
    JobTr sh j fr (theEnter j) pc := by
  unfold JobTr
  split <;> simp_all

/-- one step of the goroutine itself -/
theorem ThTr.step {sh : Shared} {th : Thread} {o : Out} {l : List Obs} (hs : step sh th = some o) (hI : ThTr sh th l) :
    ThTr o.sh o.th (l ++ o.obs.filter Obs.isAsyncEnter) := by
  have hR := stepR_of_step hs
  have hq := (step_obs hs).2.2
  have hjob := hR.job
  unfold ThTr at hI ⊢
  rw [hjob]
  cases hj : th.job with
  | none =>
    rw [hj] at hI
    obtain ⟨hl, h1, h2⟩ := hI
    simp only [hq h1 h2, hl, List.append_nil, true_and]
    cases hR
    case snap hsh => exact ⟨hsh.running.1, hsh.running.2.2.2.2⟩
    case filterAcc hsh => exact ⟨hsh.running.1, hsh.running.2.2.2.2⟩
    case filterRej hsh => exact ⟨hsh.running.1, hsh.running.2.2.2.2⟩
    case claimed hsh => exact ⟨hsh.running.1, hsh.running.2.2.2.2⟩
    case spawn hsh => exact ⟨hsh.running.1, hsh.running.2.2.2.2⟩
    case exit hsh => exact ⟨hsh.running.1, hsh.running.2.2.2.2⟩
    case lockDeadSync hsh => exact ⟨hsh.running.1, hsh.running.2.2.2.2⟩
    all_goals simp_all
  | some j =>
    rw [hj] at hI
    have run : ∀ {sh' : Shared} {th' : Thread} {obs : List Obs},
        th'.pc ≠ .astart ∧ th'.pc ≠ .turn ∧ th'.pc ≠ .aend ∧ th'.pc ≠ .done ∧ (∀ r, th'.pc ≠ .lock r true) →
        l = theEnter j → obs.filter Obs.isAsyncEnter = [] →
        JobTr sh' j th'.frames (l ++ obs.filter Obs.isAsyncEnter) th'.pc := by
      intro sh' th' obs h1 h2 h3
      rw [h3, h2, List.append_nil]
      exact JobTr.running h1
    cases hR
    case snap hpc hfr hsh =>
      exact run hsh.running (by simpa [hpc, JobTr] using hI) (hq (by simp [hpc]) (by simp [hpc]))
    case filterAcc hpc hfr hacc hsh =>
      exact run hsh.running (by simpa [hpc, JobTr] using hI) (hq (by simp [hpc]) (by simp [hpc]))
    case filterRej hpc hfr hacc hsh =>
      exact run hsh.running (by simpa [hpc, JobTr] using hI) (hq (by simp [hpc]) (by simp [hpc]))
    case claimed hpc hfr hsh =>
      exact run hsh.running (by simpa [hpc, JobTr] using hI) (hq (by simp [hpc]) (by simp [hpc]))
    case spawn hpc hfr hsh =>
      exact run hsh.running (by simpa [hpc, JobTr] using hI) (hq (by simp [hpc]) (by simp [hpc]))
    case exit hpc hfr hj' hsh =>
      exact run hsh.running (by simpa [hpc, JobTr] using hI) (hq (by simp [hpc]) (by simp [hpc]))
    case lockDeadSync r a f fs hpc hfr hj' hfree hl hsh =>
      cases a
      · exact run hsh.running (by simpa [hpc, JobTr] using hI) (hq (by simp [hpc]) (by simp [hpc]))
      · have hI' : l = [] ∧ r = j.reg ∧ ∃ f', th.frames = [f'] ∧ f'.ty = j.ty ∧ f'.v = j.v ∧ f'.ctx = j.ctx := by
          simpa [hpc, JobTr] using hI
        obtain ⟨_, _, f', h3, _⟩ := hI'
        rw [hfr] at h3; cases h3
        rcases hj' with hj' | hj'
        · rw [hj] at hj'; cases hj'
        · exact absurd rfl hj'
    case lockDeadJob r a j' f hpc hj' hfr hfree hl =>
      rw [hj] at hj'; cases hj'
      cases a
      · have hl' : l = theEnter j := by simpa [hpc, JobTr] using hI
        exact .inl (by simp [hl'])
      · have hI' : l = [] ∧ r = j.reg ∧ ∃ f', th.frames = [f'] ∧ f'.ty = j.ty ∧ f'.v = j.v ∧ f'.ctx = j.ctx := by
          simpa [hpc, JobTr] using hI
        obtain ⟨h1, _, f', h3, _, _, h6⟩ := hI'
        rw [hfr] at h3; cases h3
        exact .inr ⟨by simp [h1], by rw [← h6]; exact (live_congr rfl _).trans hl⟩
    case lock r a f fs hpc hfr hfree hl =>
      cases a
      · have hl : l = theEnter j := by simpa [hpc, JobTr] using hI
        simp [JobTr, hl, Obs.isAsyncEnter]
      · have hl : l = [] ∧ r = j.reg ∧ ∃ f', th.frames = [f'] ∧ f'.ty = j.ty ∧ f'.v = j.v ∧ f'.ctx = j.ctx := by
          simpa [hpc, JobTr] using hI
        obtain ⟨h1, h2, f', h3, h4, h5, _⟩ := hl
        rw [hfr] at h3; cases h3
        simp [JobTr, h1, h2, h4, h5, Obs.isAsyncEnter, theEnter]
    case turnDead j' hpc hj' hturn hl =>
      rw [hj] at hj'; cases hj'
      have h0 : l = [] := by simpa [hpc, JobTr] using hI
      exact .inr ⟨by simp [h0], (live_congr rfl _).trans hl⟩
    case aend hpc =>
      have h0 : l = theEnter j ∨ (l = [] ∧ sh.live j.ctx = false) := by simpa [hpc, JobTr] using hI
      rcases h0 with h0 | h0
      · exact .inl (by simp [h0, Obs.isAsyncEnter])
      · exact .inr ⟨by simp [h0.1, Obs.isAsyncEnter], (live_congr rfl _).trans h0.2⟩
    all_goals simp_all [JobTr, Obs.isAsyncEnter, theEnter, jobFrame]

/-! #### traces -/

theorem asyncEntersOf_append (i k : Nat) (tr : List (Nat × Obs)) (obs : List Obs) :
    asyncEntersOf i (tr ++ obs.map (fun e => (k, e))) =
      asyncEntersOf i tr ++ (if k = i then obs.filter Obs.isAsyncEnter else []) := by
  unfold asyncEntersOf
  rw [List.filter_append, List.map_append]
  congr 1
  induction obs with
  | nil => simp
  | cons e es ih =>
    by_cases hk : k = i
    · simp only [hk, if_true] at ih ⊢
      cases he : e.isAsyncEnter <;> simp [he, ih]
    · simp only [hk, if_false] at ih ⊢
      simp [hk, ih]

theorem asyncEntersOf_nil {i : Nat} {tr : List (Nat × Obs)} (h : ∀ p ∈ tr, p.1 ≠ i) : asyncEntersOf i tr = [] := by
  unfold asyncEntersOf
  rw [List.map_eq_nil_iff, List.filter_eq_nil_iff]
  intro p hp
  simp [h p hp]

/-- induction over the reachable traced states -/
theorem reachT_ind {progs : List (List Op)} {P : SysT → Prop} (h0 : P { s := initSys progs })
    (hs : ∀ (x : SysT) (i : Nat) (th : Thread) (o : Out), ReachableT progs x → P x → x.s.ths[i]? = some th →
      step x.s.sh th = some o →
      P { s := { sh := o.sh, ths := x.s.ths.set i o.th ++ o.new }, tr := x.tr ++ o.obs.map (fun e => (i, e)) }) :
    ∀ x, ReachableT progs x → P x := by
  intro x h
  induction h with
  | init => exact h0
  | step hr hst ih =>
    rename_i x x' i
    unfold SysT.stepAt at hst
    split at hst
    · cases hst
    · rename_i th hth
      split at hst
      · cases hst
      · rename_i o ho
        cases hst
        exact hs _ _ _ _ hr ih hth ho

/-- the trace invariant of the whole system: events are tagged with existing goroutines, and every goroutine
satisfies `ThTr` with its own async entries -/
def TrInv (x : SysT) : Prop :=
  (∀ p ∈ x.tr, p.1 < x.s.ths.length) ∧ ∀ i th, x.s.ths[i]? = some th → ThTr x.s.sh th (asyncEntersOf i x.tr)

theorem trInv_reachable {progs : List (List Op)} : ∀ x, ReachableT progs x → TrInv x := by
  apply reachT_ind
  · refine ⟨by simp, ?_⟩
    intro i th hth
    have hm := List.mem_of_getElem? hth
    simp only [initSys, List.mem_map] at hm
    obtain ⟨p, _, rfl⟩ := hm
    simp [ThTr, asyncEntersOf]
  · intro x i0 th0 o _ hI hth0 hs
    obtain ⟨hlt, hI⟩ := hI
    have hi0 : i0 < x.s.ths.length := (List.getElem?_eq_some_iff.1 hth0).1
    have hR := stepR_of_step hs
    obtain ⟨_, hnew, _⟩ := step_obs hs
    refine ⟨?_, ?_⟩
    · intro p hp
      simp only [List.length_append, List.length_set]
      rcases List.mem_append.1 hp with hp | hp
      · have := hlt p hp; omega
      · simp only [List.mem_map] at hp
        obtain ⟨e, _, rfl⟩ := hp
        simp only; omega
    · intro i th hth
      simp only at hth ⊢
      rw [asyncEntersOf_append]
      by_cases hi : i < x.s.ths.length
      · rw [List.getElem?_append_left (by simpa using hi)] at hth
        by_cases hii : i0 = i
        · subst hii
          rw [List.getElem?_set_self hi] at hth
          cases hth
          simp only [if_true]
          exact (hI i0 th0 hth0).step hs
        · rw [List.getElem?_set_ne hii] at hth
          simp only [hii, if_false, List.append_nil]
          exact (hI i th hth).mono (fun c hc => hR.live_mono c hc)
      · have hii : i0 ≠ i := by omega
        simp only [hii, if_false, List.append_nil]
        have hm : th ∈ o.new := by
          rw [List.getElem?_append_right (by simpa using hi)] at hth
          exact List.mem_of_getElem? hth
        obtain ⟨hjob, hpc⟩ := hnew th hm
        rw [asyncEntersOf_nil (fun p hp => by have := hlt p hp; omega)]
        unfold ThTr
        cases hj : th.job with
        | none => simp [hj] at hjob
        | some j => simp [JobTr, hpc]

/-! #### `spawned` events and async goroutines -/

theorem filter_set_length {α : Type} (p : α → Bool) {l : List α} {i : Nat} {a : α} (b : α) (h : l[i]? = some a)
    (hp : p b = p a) : ((l.set i b).filter p).length = (l.filter p).length := by
  induction l generalizing i with
  | nil => simp at h
  | cons x xs ih =>
    cases i with
    | zero => simp at h; subst h; simp only [List.set_cons_zero, List.filter_cons, hp]; split <;> simp
    | succ i => simp at h; simp only [List.set_cons_succ, List.filter_cons]; split <;> simp [ih h]

theorem spawned_filter_map (i : Nat) (obs : List Obs) :
    ((obs.map (fun e => (i, e))).filter (fun p : Nat × Obs => p.2.isSpawned)).length = (obs.filter Obs.isSpawned).length := by
  induction obs with
  | nil => rfl
  | cons e es ih => cases he : e.isSpawned <;> simp [he, ih]

theorem spawnedCount_reachable {progs : List (List Op)} : ∀ x, ReachableT progs x →
    (x.tr.filter (fun p => p.2.isSpawned)).length = (x.s.ths.filter (fun th => th.job.isSome)).length := by
  apply reachT_ind
  · have : (initSys progs).ths.filter (fun th => th.job.isSome) = [] := by
      rw [List.filter_eq_nil_iff]
      intro t ht
      simp only [initSys, List.mem_map] at ht
      obtain ⟨p, _, rfl⟩ := ht
      simp
    simp [this]
  · intro x i th o _ hI hth hs
    obtain ⟨hsp, hnew, _⟩ := step_obs hs
    have hjob := (stepR_of_step hs).job
    have hn : (o.new.filter (fun th => th.job.isSome)).length = o.new.length := by
      rw [List.filter_eq_self.2 (fun t ht => (hnew t ht).1)]
    simp only [List.filter_append, List.length_append, spawned_filter_map, hsp, hn, hI]
    rw [filter_set_length (fun th : Thread => th.job.isSome) o.th hth (by simp [hjob])]

theorem wsum_zero {w : Thread → Nat} {l : List Thread} (h : ∀ t ∈ l, w t = 0) : wsum w l = 0 := by
  induction l with
  | nil => rfl
  | cons x xs ih =>
    simp only [wsum_cons, h x (by simp), ih (fun t ht => h t (by simp [ht]))]

end Inv

open Ebu.Conc.Inv

/-- `asyncEntersOf` in the vocabulary of the specification: those of the goroutine's `.enter` events that are
asynchronous deliveries -/
theorem asyncEntersOf_eq (i : Nat) (tr : List (Nat × Obs)) :
    asyncEntersOf i tr = (entersOf i tr).filter Obs.isAsyncEnter := by
  have fm_cons : ∀ (q : Nat × Obs → Bool) (p : Nat × Obs) (ps : List (Nat × Obs)),
      ((p :: ps).filter q).map (·.2) = (if q p = true then [p.2] else []) ++ (ps.filter q).map (·.2) := by
    intro q p ps
    simp only [List.filter_cons]
    cases q p <;> simp
  induction tr with
  | nil => rfl
  | cons p ps ih =>
    unfold asyncEntersOf entersOf at ih ⊢
    rw [fm_cons, fm_cons, List.filter_append, ih]
    congr 1
    obtain ⟨k, e⟩ := p
    by_cases hk : k = i
    · cases e
      case enter rid ty v a => cases a <;> simp [hk, Obs.isAsyncEnter, List.filter]
      all_goals simp [hk, Obs.isAsyncEnter]
    · simp [hk]

/-- the traced system is the plain one with bookkeeping -/
theorem reachableT_reachable {progs : List (List Op)} {x : SysT} (h : ReachableT progs x) : Reachable progs x.s := by
  induction h with
  | init => exact .init
  | step hr hst ih =>
    rename_i x x' i
    refine .step (i := i) ih ?_
    unfold SysT.stepAt at hst
    unfold Sys.stepAt
    split at hst
    · cases hst
    · rename_i th hth
      split at hst
      · cases hst
      · rename_i o ho
        cases hst
        simp [hth, ho]

theorem reachable_has_trace {progs : List (List Op)} {s : Sys} (h : Reachable progs s) : ∃ tr, ReachableT progs ⟨s, tr⟩ := by
  induction h with
  | init => exact ⟨[], .init⟩
  | step hr hst ih =>
    rename_i s s' i
    obtain ⟨tr, htr⟩ := ih
    unfold Sys.stepAt at hst
    split at hst
    · cases hst
    · rename_i th hth
      split at hst
      · cases hst
      · rename_i o ho
        cases hst
        exact ⟨tr ++ o.obs.map (fun e => (i, e)), .step (i := i) htr (by simp [SysT.stepAt, hth, ho])⟩

/-- an async goroutine enters at most one handler invocation asynchronously, and only the one it was started for -/
theorem async_at_most_once {progs : List (List Op)} {x : SysT} (h : ReachableT progs x) (i : Nat) (th : Thread) (j : Job)
    (hi : x.s.ths[i]? = some th) (hj : th.job = some j) :
    asyncEntersOf i x.tr = [] ∨ asyncEntersOf i x.tr = [Obs.enter j.reg.rid j.ty j.v true] := by
  have := (trInv_reachable x h).2 i th hi
  simp only [ThTr, hj] at this
  exact this.cases

/-- … and once it has finished it has entered it exactly once, provided its publish context is still live
(contexts are only ever cancelled, never revived, so "live at the end" means "live throughout") -/
theorem async_exactly_once_when_done {progs : List (List Op)} {x : SysT} (h : ReachableT progs x) (i : Nat) (th : Thread) (j : Job)
    (hi : x.s.ths[i]? = some th) (hj : th.job = some j) (hd : th.pc = .done) (hl : x.s.sh.live j.ctx = true) :
    asyncEntersOf i x.tr = [Obs.enter j.reg.rid j.ty j.v true] := by
  have := (trInv_reachable x h).2 i th hi
  simp only [ThTr, hj, hd, JobTr, hl] at this
  simpa [theEnter] using this

/-- the goroutines of the test program never deliver asynchronously -/
theorem main_thread_no_async_enter {progs : List (List Op)} {x : SysT} (h : ReachableT progs x) (i : Nat) (th : Thread)
    (hi : x.s.ths[i]? = some th) (hj : th.job = none) : asyncEntersOf i x.tr = [] := by
  have := (trInv_reachable x h).2 i th hi
  simp only [ThTr, hj] at this
  exact this.1

/-- every goroutine announced by a `spawned n` event exists: the number of `spawned` events equals the number of async goroutines -/
theorem spawned_count {progs : List (List Op)} {x : SysT} (h : ReachableT progs x) :
    (x.tr.filter (fun p => match p.2 with | .spawned _ => true | _ => false)).length =
      (x.s.ths.filter (fun th => th.job.isSome)).length := by
  have e : (fun p : Nat × Obs => match p.2 with | .spawned _ => true | _ => false) = fun p => p.2.isSpawned := by
    funext p
    obtain ⟨a, e⟩ := p
    cases e <;> rfl
  rw [e]
  exact spawnedCount_reachable x h

/-- LIVENESS at the end of every maximal run: under the rank hypothesis (the one documented exception of C03), a state
from which no goroutine can step is quiescent – every goroutine has finished – and every async delivery whose publish
context is live has run exactly once -/
theorem maximal_run_delivers_everything (ρ : Nat → Nat) (progs : List (List Op)) (hr : Ranked ρ progs)
    {x : SysT} (h : ReachableT progs x) (hmax : ¬ x.s.canStep) :
    x.s.allDone ∧ x.s.sh.inflight = 0 ∧
    ∀ i th j, x.s.ths[i]? = some th → th.job = some j → x.s.sh.live j.ctx = true →
      asyncEntersOf i x.tr = [Obs.enter j.reg.rid j.ty j.v true] := by
  have hreach := reachableT_reachable h
  have hdone : x.s.allDone := by
    intro th hth
    apply Classical.byContradiction
    intro hne
    exact hmax (deadlock_free ρ progs hr x.s hreach ⟨th, hth, hne⟩)
  refine ⟨hdone, ?_, ?_⟩
  · rw [infl_reachable x.s hreach]
    apply wsum_zero
    intro t ht
    simp [wInfl, hdone t ht, isSpawn]
  · intro i th j hi hj hl
    exact async_exactly_once_when_done h i th j hi hj (hdone th (List.mem_of_getElem? hi)) hl

/-! ### why `asyncEntersOf` and not `entersOf` -/

namespace TraceExample

/-- running a schedule given as the list of the goroutine numbers that move, with the trace -/
def runT (x : SysT) : List Nat → Option SysT
  | [] => some x
  | i :: is => (x.stepAt i).bind (fun x' => runT x' is)

theorem runT_reachable {progs : List (List Op)} {sched : List Nat} :
    ∀ {x x' : SysT}, ReachableT progs x → runT x sched = some x' → ReachableT progs x' := by
  induction sched with
  | nil => intro x x' hr h; simp only [runT, Option.some.injEq] at h; exact h ▸ hr
  | cons i is ih =>
    intro x x' hr h
    simp only [runT] at h
    cases hst : x.stepAt i with
    | none => simp [hst] at h
    | some x1 => rw [hst] at h; exact ih (.step hr hst) h

/-- `A` (Async, on type 1) publishes type 0 while it runs, where the synchronous `B` listens -/
def cxProgs : List (List Op) :=
  [ [ .subscribe 1 0 false true false none [(0, 5)],   -- A
      .subscribe 0 1 false false false none [],        -- B
      .publish 1 7 .bg ] ]

/-- the publisher runs to the end of `PublishContext` (goroutine 1 is spawned), then goroutine 1 runs to its end:
it enters `A` (async), publishes type 0 from within `A`, enters `B` (synchronously, itself), returns from both -/
def cxSched : List Nat := [0, 0, 0, 0, 0, 1, 1, 1, 1, 1, 1, 1, 1]

theorem cxRuns : (runT { s := initSys cxProgs } cxSched).isSome = true := by decide +kernel

def cxState : SysT := (runT { s := initSys cxProgs } cxSched).get cxRuns

def cxJob : Job := ⟨⟨0, 1, 0, false, true, false, none, [(0, 5)]⟩, 1, 7, .bg, 0, 1⟩

theorem cxReachable : ReachableT cxProgs cxState := runT_reachable .init (Option.some_get cxRuns).symm

theorem cxThread : cxState.s.ths[1]? = some { pc := .done, job := some cxJob } := by decide +kernel

theorem cxEnters : entersOf 1 cxState.tr = [Obs.enter 0 1 7 true, Obs.enter 1 0 5 false] := by decide +kernel

theorem cxAsyncEnters : asyncEntersOf 1 cxState.tr = [Obs.enter 0 1 7 true] := by decide +kernel

end TraceExample

/-- With `entersOf` (all `.enter` events of the goroutine) in place of `asyncEntersOf`, `async_at_most_once` and
`async_exactly_once_when_done` are FALSE: a finished async goroutine whose context is live, and which entered two
handlers – its own, asynchronously, and, from within it, a synchronous handler of a nested publish. -/
theorem entersOf_counterexample :
    ∃ (progs : List (List Op)) (x : SysT) (i : Nat) (th : Thread) (j : Job),
      ReachableT progs x ∧ x.s.ths[i]? = some th ∧ th.job = some j ∧ th.pc = .done ∧ x.s.sh.live j.ctx = true ∧
      ¬ (entersOf i x.tr = [] ∨ entersOf i x.tr = [Obs.enter j.reg.rid j.ty j.v true]) ∧
      asyncEntersOf i x.tr = [Obs.enter j.reg.rid j.ty j.v true] := by
  refine ⟨TraceExample.cxProgs, TraceExample.cxState, 1, _, TraceExample.cxJob, TraceExample.cxReachable,
    TraceExample.cxThread, rfl, rfl, rfl, ?_, TraceExample.cxAsyncEnters⟩
  rw [TraceExample.cxEnters]
  decide

end Ebu.Conc

import Ebu.Model.PersistConc
namespace Ebu.PersistConc

/-- offsets are 1, 2, 3, … in log order and `lastOffset` is the last one handed out -/
def OffsetsOk (s : St) : Prop := s.log.map (·.1) = List.range' 1 s.log.length ∧ s.lastOffset = s.log.length

theorem stepAt_offsets (s : St) (i : Nat) (h : OffsetsOk s) : OffsetsOk (stepAt s i) := by
  unfold stepAt
  split
  · exact h
  · split
    · obtain ⟨h1, h2⟩ := h
      refine ⟨?_, by simp⟩
      simp [h1, List.range'_concat]; omega
    · split
      · exact h
      · exact h

theorem foldl_inv {P : St → Prop} (hstep : ∀ s i, P s → P (stepAt s i)) (sched : List Nat) (s : St) (h : P s) :
    P (sched.foldl stepAt s) := by
  induction sched generalizing s with
  | nil => simpa using h
  | cons i sched ih => exact ih _ (hstep s i h)

theorem offsets_ok (recs sched : List Nat) : OffsetsOk (run recs sched) :=
  foldl_inv stepAt_offsets sched _ (by simp [OffsetsOk, init])

/-- the log holds exactly the records of the threads that have persisted: one record each, none lost, none twice -/
def LogOk (s : St) : Prop := (s.log.map (·.2)).Perm (persistedRecs s)

theorem persistedRecs_set_persist (l : List Thread) (i : Nat) (t : Thread) (h : l[i]? = some t) (hpc : t.pc = 0) :
    ((l.set i { t with pc := 1 }).filter (fun t => 0 < t.pc)).map (·.record) |>.Perm
      (t.record :: (l.filter (fun t => 0 < t.pc)).map (·.record)) := by
  induction l generalizing i with
  | nil => simp at h
  | cons a l ih =>
    cases i with
    | zero =>
      simp at h; subst h
      simp [hpc]
    | succ i =>
      simp at h
      have := ih i h
      simp only [List.set_cons_succ, List.filter_cons]
      split
      · simp only [List.map_cons]
        exact (List.Perm.cons _ this).trans (List.Perm.swap _ _ _)
      · exact this

theorem persistedRecs_set_same (l : List Thread) (i : Nat) (t : Thread) (k : Nat) (h : l[i]? = some t)
    (hpc : 0 < t.pc) (hk : 0 < k) :
    ((l.set i { t with pc := k }).filter (fun t => 0 < t.pc)).map (·.record) =
      (l.filter (fun t => 0 < t.pc)).map (·.record) := by
  induction l generalizing i with
  | nil => simp
  | cons a l ih =>
    cases i with
    | zero =>
      simp at h; subst h
      simp [hpc, hk]
    | succ i =>
      simp at h
      simp only [List.set_cons_succ, List.filter_cons]
      split <;> simp [ih i h]

theorem stepAt_log (s : St) (i : Nat) (h : LogOk s) : LogOk (stepAt s i) := by
  unfold stepAt
  split
  · exact h
  · rename_i t ht
    split
    · rename_i hpc
      unfold LogOk persistedRecs at *
      simp only [List.map_append, List.map_cons, List.map_nil]
      refine (List.perm_append_comm.trans ?_).trans (persistedRecs_set_persist s.threads i t ht hpc).symm
      simpa using h
    · split
      · rename_i hpc0 hpc
        unfold LogOk persistedRecs at *
        simp only
        rw [persistedRecs_set_same s.threads i t 2 ht (by omega) (by omega)]
        exact h
      · exact h

theorem log_ok (recs sched : List Nat) : LogOk (run recs sched) :=
  foldl_inv stepAt_log sched _ (by simp [LogOk, init, persistedRecs, List.filter_map, Function.comp_def])

/-- every handler runs with its own event already in the log it can read -/
def SeenOk (s : St) : Prop :=
  (∀ p ∈ s.seen, p.1 ∈ p.2.map (·.2)) ∧
  (∀ t ∈ s.threads, 0 < t.pc → t.record ∈ s.log.map (·.2))

theorem stepAt_seen (s : St) (i : Nat) (h : SeenOk s) : SeenOk (stepAt s i) := by
  unfold stepAt
  split
  · exact h
  · rename_i t ht
    obtain ⟨h1, h2⟩ := h
    have htmem : t ∈ s.threads := List.mem_of_getElem? ht
    split
    · refine ⟨h1, ?_⟩
      intro t' ht' hpc'
      simp only [List.map_append, List.map_cons, List.map_nil, List.mem_append, List.mem_singleton]
      rcases List.mem_or_eq_of_mem_set ht' with hm | rfl
      · exact Or.inl (h2 t' hm hpc')
      · exact Or.inr rfl
    · split
      · rename_i hpc0 hpc
        refine ⟨?_, ?_⟩
        · intro p hp
          simp only [List.mem_append, List.mem_singleton] at hp
          rcases hp with hp | rfl
          · exact h1 p hp
          · exact h2 t htmem (by omega)
        · intro t' ht' hpc'
          rcases List.mem_or_eq_of_mem_set ht' with hm | rfl
          · exact h2 t' hm hpc'
          · exact h2 t htmem (by omega)
      · exact ⟨h1, h2⟩

theorem seen_ok (recs sched : List Nat) : SeenOk (run recs sched) :=
  foldl_inv stepAt_seen sched _ (by simp [SeenOk, init])

/-- once every publisher has persisted, the log has exactly one record per publish -/
theorem all_persisted_length (recs sched : List Nat) (hall : ∀ t ∈ (run recs sched).threads, 0 < t.pc) :
    (run recs sched).log.length = (run recs sched).threads.length := by
  have h := (log_ok recs sched).length_eq
  simp only [persistedRecs, List.length_map] at h
  rw [h, List.filter_eq_self.mpr (by simpa using hall)]

/-- the number of publishers never changes -/
theorem threads_length (recs sched : List Nat) : (run recs sched).threads.length = recs.length := by
  have : ∀ s i, (stepAt s i).threads.length = s.threads.length := by
    intro s i; unfold stepAt; split
    · rfl
    · split
      · simp
      · split <;> simp
  unfold run
  have h : ∀ (sched : List Nat) (s : St), (sched.foldl stepAt s).threads.length = s.threads.length := by
    intro sched; induction sched with
    | nil => intro s; rfl
    | cons i sched ih => intro s; simp only [List.foldl_cons]; rw [ih, this]
  rw [h]; simp [init]

/-! ### why the critical section matters: the same publishers with "reserve the offset" and "insert" as two steps -/

structure UThread where
  record : Nat
  pc : Nat := 0        -- 0 = start, 1 = offset reserved, 2 = inserted
  off : Nat := 0
deriving Repr

structure USt where
  log : List (Nat × Nat) := []
  threads : List UThread := []
deriving Repr

def ustepAt (s : USt) (i : Nat) : USt :=
  match s.threads[i]? with
  | none => s
  | some t =>
    if t.pc = 0 then { s with threads := s.threads.set i { t with pc := 1, off := s.log.length + 1 } }
    else if t.pc = 1 then { s with log := s.log ++ [(t.off, t.record)], threads := s.threads.set i { t with pc := 2 } }
    else s

/-- without the lock two publishers can be given the same offset -/
theorem unlocked_duplicates_offsets :
    (([0, 1, 0, 1].foldl ustepAt { threads := [{ record := 7 }, { record := 8 }] }).log.map (·.1)) = [1, 1] := by
  decide

/-- non-vacuity of the theorems above: three publishers, an interleaved schedule -/
example : (run [7, 8, 9] [1, 0, 1, 2, 2, 0]).log = [(1, 8), (2, 7), (3, 9)] ∧
    (run [7, 8, 9] [1, 0, 1, 2, 2, 0]).seen = [(8, [(1, 8), (2, 7)]), (9, [(1, 8), (2, 7), (3, 9)]), (7, [(1, 8), (2, 7), (3, 9)])] := by
  decide

end Ebu.PersistConc

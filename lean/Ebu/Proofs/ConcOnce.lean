import Ebu.Proofs.ConcTermination
/-!
Once registrations in the interleaving model M2, at quiescence (C04):

* `once_fired_is_retired` — once every publish has returned, no registration whose compare-and-swap succeeded is
  still registered;
* `once_claimed_was_entered` — … and, if no context was ever cancelled, its handler was entered exactly once;
* `executed_are_once` — only Once registrations are ever claimed.
-/
namespace Ebu.Conc
open Ebu.Conc.Inv

namespace Inv

/-- `reach_ind`, with the step presented both as `step … = some o` and as the relation `StepR` -/
theorem reach_ind2 {progs : List (List Op)} {P : Sys → Prop} (h0 : P (initSys progs))
    (hs : ∀ (s : Sys) (i : Nat) (th : Thread) (o : Out), Reachable progs s → P s → s.ths[i]? = some th →
      step s.sh th = some o → StepR s.sh th o → P { sh := o.sh, ths := s.ths.set i o.th ++ o.new }) :
    ∀ s, Reachable progs s → P s := by
  intro s h
  induction h with
  | init => exact h0
  | step hr hst ih =>
    unfold Sys.stepAt at hst
    split at hst
    · cases hst
    · rename_i th hth
      split at hst
      · cases hst
      · rename_i o ho
        cases hst
        exact hs _ _ _ _ hr ih hth ho (stepR_of_step ho)

theorem live_of_nil {sh : Shared} (h : sh.cancelled = []) (c : Ctx) : sh.live c = true := by
  cases c <;> simp [Shared.live, h]

/-! #### provenance: the registrations a publish works on are the ones the registry knows under that identity -/

/-- what a dispatch loop does to "every registration the thread still works on satisfies `S`" and to `executed` -/
theorem Shape.srcs {sh th f fs PF PC PG o} (h : Shape sh th f fs PF PC PG o) (S : Reg → Prop)
    (hF : ∀ r l, PF r l → S r ∧ ∀ x ∈ l, S x) (hC : ∀ r l, PC r l → S r ∧ ∀ x ∈ l, S x)
    (hG : ∀ r l, PG r l → ∀ x ∈ l, S x) (hfs : ∀ g ∈ fs, ∀ x ∈ g.rest, S x) :
    (∀ g ∈ o.th.frames, ∀ x ∈ g.rest, S x) ∧ (∀ r, o.th.pc = .filter r → S r) ∧
    (o.sh.executed = sh.executed ∨ ∃ r, S r ∧ r.once = true ∧ o.sh.executed = r.rid :: sh.executed) := by
  cases h
  case ret => exact ⟨hfs, by simp, .inl rfl⟩
  case retire => exact ⟨by simpa using hfs, by simp, .inl rfl⟩
  case filter obs r l hp hf =>
    refine ⟨by simpa using ⟨(hF r l hp).2, hfs⟩, ?_, .inl rfl⟩
    intro r' hr'
    simp at hr'
    subst hr'
    exact (hF _ l hp).1
  case claimed obs r l hp ho hne hl =>
    exact ⟨by simpa using ⟨(hC r l hp).2, hfs⟩, by simp, .inr ⟨r, (hC r l hp).1, ho, rfl⟩⟩
  case spawn obs r l hp ha => exact ⟨by simpa using ⟨hG r l hp, hfs⟩, by simp, .inl rfl⟩
  case lock obs r l hp ha hs hl => exact ⟨by simpa using ⟨hG r l hp, hfs⟩, by simp, .inl rfl⟩
  case enter obs r l hp ha hs hl => exact ⟨by simpa using ⟨hG r l hp, hfs⟩, by simp, .inl (by simp)⟩

theorem Suf.all {S : Reg → Prop} {l : List Reg} {r : Reg} {l' : List Reg} (h : Suf l r l') (hl : ∀ x ∈ l, S x) :
    S r ∧ ∀ x ∈ l', S x :=
  ⟨hl r (h.subset (by simp)), fun x hx => hl x (h.tail.subset hx)⟩

theorem DShape.srcs {sh th f fs o} (h : DShape sh th f fs o) (S : Reg → Prop) (hf : ∀ x ∈ f.rest, S x)
    (hfs : ∀ g ∈ fs, ∀ x ∈ g.rest, S x) :
    (∀ g ∈ o.th.frames, ∀ x ∈ g.rest, S x) ∧ (∀ r, o.th.pc = .filter r → S r) ∧
    (o.sh.executed = sh.executed ∨ ∃ r, S r ∧ r.once = true ∧ o.sh.executed = r.rid :: sh.executed) :=
  Shape.srcs h S (fun _ _ h => h.all hf) (fun _ _ h => h.all hf) (fun _ _ h => (h.1.all hf).2) hfs

theorem FShape.srcs {sh th f fs r0 o} (h : FShape sh th f fs r0 o) (S : Reg → Prop) (hf : ∀ x ∈ f.rest, S x)
    (h0 : S r0) (hfs : ∀ g ∈ fs, ∀ x ∈ g.rest, S x) :
    (∀ g ∈ o.th.frames, ∀ x ∈ g.rest, S x) ∧ (∀ r, o.th.pc = .filter r → S r) ∧
    (o.sh.executed = sh.executed ∨ ∃ r, S r ∧ r.once = true ∧ o.sh.executed = r.rid :: sh.executed) :=
  Shape.srcs h S (fun _ _ h => h.all hf)
    (fun _ _ h => by
      rcases h with ⟨rfl, rfl⟩ | h
      · exact ⟨h0, hf⟩
      · exact h.all hf)
    (fun _ _ h => by
      rcases h.1 with ⟨rfl, rfl⟩ | h
      · exact hf
      · exact (h.all hf).2) hfs

theorem CShape.srcs {sh th f fs r0 o} (h : CShape sh th f fs r0 o) (S : Reg → Prop) (hf : ∀ x ∈ f.rest, S x)
    (hfs : ∀ g ∈ fs, ∀ x ∈ g.rest, S x) :
    (∀ g ∈ o.th.frames, ∀ x ∈ g.rest, S x) ∧ (∀ r, o.th.pc = .filter r → S r) ∧
    (o.sh.executed = sh.executed ∨ ∃ r, S r ∧ r.once = true ∧ o.sh.executed = r.rid :: sh.executed) :=
  Shape.srcs h S (fun _ _ h => h.all hf) (fun _ _ h => h.all hf)
    (fun _ _ h => by
      rcases h with ⟨rfl, rfl⟩ | h
      · exact hf
      · exact (h.1.all hf).2) hfs

/-- one step: every registration the thread still works on (in the rest of an activation's snapshot, or the one whose
filter it is in) satisfies `S` again, where new activations take their registrations from the registry; and only such a
registration, and only a Once one, is ever claimed -/
theorem StepR.srcs {sh th o} (h : StepR sh th o) (S : Reg → Prop) (hregs : ∀ r ∈ sh.regs, S r)
    (hfr : ∀ g ∈ th.frames, ∀ x ∈ g.rest, S x) (hpc : ∀ r, th.pc = .filter r → S r) :
    (∀ g ∈ o.th.frames, ∀ x ∈ g.rest, S x) ∧ (∀ r, o.th.pc = .filter r → S r) ∧
    (o.sh.executed = sh.executed ∨ ∃ r, S r ∧ r.once = true ∧ o.sh.executed = r.rid :: sh.executed) := by
  have hnew : ∀ ty v ctx, ∀ x ∈ (newFrame sh ty v ctx).rest, S x := by
    intro ty v ctx x hx
    simp [newFrame] at hx
    exact hregs x hx.1
  cases h
  case snap f fs hpc' hfr' hsh =>
    rw [hfr'] at hfr
    exact hsh.srcs S (hfr f (by simp)) (fun g hg => hfr g (by simp [hg]))
  case filterAcc r f fs hpc' hfr' hacc hsh =>
    rw [hfr'] at hfr
    exact hsh.srcs S (hfr f (by simp)) (hpc r hpc') (fun g hg => hfr g (by simp [hg]))
  case filterRej r f fs hpc' hfr' hacc hsh =>
    rw [hfr'] at hfr
    exact hsh.srcs S (hfr f (by simp)) (fun g hg => hfr g (by simp [hg]))
  case claimed r f fs hpc' hfr' hsh =>
    rw [hfr'] at hfr
    exact hsh.srcs S (hfr f (by simp)) (fun g hg => hfr g (by simp [hg]))
  case spawn r n t f fs o hpc' hfr' hsh =>
    rw [hfr'] at hfr
    exact hsh.srcs S (hfr f (by simp)) (fun g hg => hfr g (by simp [hg]))
  case exit r f fs hpc' hfr' hj hsh =>
    rw [hfr'] at hfr
    exact hsh.srcs S (hfr f (by simp)) (fun g hg => hfr g (by simp [hg]))
  case bodyPub f fs ty v more hpc' hfr' hb =>
    rw [hfr'] at hfr
    refine ⟨?_, by simp, .inl rfl⟩
    simp only [List.forall_mem_cons]
    exact ⟨hnew _ _ _, hfr f (by simp), fun g hg => hfr g (by simp [hg])⟩
  case enterPub r f fs ty v more hpc' hfr' hb =>
    rw [hfr'] at hfr
    refine ⟨?_, by simp, .inl rfl⟩
    simp only [List.forall_mem_cons]
    exact ⟨hnew _ _ _, hfr f (by simp), fun g hg => hfr g (by simp [hg])⟩
  case publish ty v ctx prog hpc' hfr' hp =>
    refine ⟨?_, by simp, .inl rfl⟩
    simp only [List.forall_mem_cons]
    exact ⟨hnew _ _ _, by simp⟩
  case lockDeadSync r a f fs hpc' hfr' hj hfree hl hsh =>
    rw [hfr'] at hfr
    exact hsh.srcs S (hfr f (by simp)) (fun g hg => hfr g (by simp [hg]))
  case lockDeadJob r a j f hpc' hj hfr' hfree hl =>
    exact ⟨by simp, by simp, .inl rfl⟩
  case lock r a f fs hpc' hfr' hfree hl =>
    rw [hfr'] at hfr
    refine ⟨?_, by simp, .inl (by simp)⟩
    simp only [List.forall_mem_cons]
    exact ⟨hfr f (by simp), fun g hg => hfr g (by simp [hg])⟩
  case retire f fs hpc' hfr' =>
    rw [hfr'] at hfr
    refine ⟨?_, by simp, .inl rfl⟩
    simp only [List.forall_mem_cons]
    exact ⟨hfr f (by simp), fun g hg => hfr g (by simp [hg])⟩
  case retired f fs hpc' hfr' =>
    rw [hfr'] at hfr
    exact ⟨fun g hg => hfr g (by simp [hg]), by simp, .inl rfl⟩
  case astartRun j hpc' hj hs hl =>
    exact ⟨by simp [jobFrame], by simp, .inl (by simp)⟩
  case turnRun j hpc' hj hturn hl =>
    exact ⟨by simp [jobFrame], by simp, .inl rfl⟩
  case exitJob r j f hpc' hj hfr' =>
    exact ⟨by simp, by simp, .inl rfl⟩
  all_goals exact ⟨hfr, by simp_all, .inl rfl⟩

/-- the registry knows `r` under its identity: the identity has been handed out, and whatever is registered under it is `r` -/
def Known (n : Nat) (regs : List Reg) (r : Reg) : Prop := r.rid < n ∧ ∀ r' ∈ regs, r'.rid = r.rid → r' = r

theorem Known.step {sh sh' : Shared} {r : Reg} (h : Known sh.nextRid sh.regs r) (hs : RegStep sh sh') :
    Known sh'.nextRid sh'.regs r := by
  obtain ⟨h1, h2⟩ := h
  cases hs with
  | same e1 _ e3 => rw [e1, e3]; exact ⟨h1, h2⟩
  | add r1 e1 hr _ e3 =>
    rw [e1, e3]
    refine ⟨by omega, ?_⟩
    intro r' hr' he
    simp only [List.mem_append, List.mem_singleton] at hr'
    rcases hr' with hr' | rfl
    · exact h2 r' hr' he
    · omega
  | del e1 _ e3 => rw [e3]; exact ⟨h1, fun r' hr' he => h2 r' (e1.subset hr') he⟩

theorem rid_inj {l : List Reg} (hn : (l.map (·.rid)).Nodup) : ∀ a ∈ l, ∀ b ∈ l, a.rid = b.rid → a = b := by
  induction l with
  | nil => intro a ha; cases ha
  | cons x xs ih =>
    simp only [List.map_cons, List.nodup_cons, List.mem_map, not_exists, not_and] at hn
    intro a ha b hb hab
    simp only [List.mem_cons] at ha hb
    rcases ha with rfl | ha <;> rcases hb with rfl | hb
    · rfl
    · exact absurd hab.symm (hn.1 b hb)
    · exact absurd hab (hn.1 a ha)
    · exact ih hn.2 a ha b hb hab

theorem known_of_mem {sh : Shared} (hi : RegInv sh) {r : Reg} (hr : r ∈ sh.regs) : Known sh.nextRid sh.regs r :=
  ⟨hi.2.2 r hr, fun r' hr' he => rid_inj hi.2.1 r' hr' r hr he⟩

/-- provenance of what the publishes work on, and of what has been claimed -/
structure Prov (s : Sys) : Prop where
  rest : ∀ th ∈ s.ths, ∀ g ∈ th.frames, ∀ x ∈ g.rest, Known s.sh.nextRid s.sh.regs x
  filt : ∀ th ∈ s.ths, ∀ r, th.pc = .filter r → Known s.sh.nextRid s.sh.regs r
  lt : ∀ rid ∈ s.sh.executed, rid < s.sh.nextRid
  once : ∀ rid ∈ s.sh.executed, ∀ r ∈ s.sh.regs, r.rid = rid → r.once = true

theorem StepR.new_cases {sh th o} (h : StepR sh th o) : o.new = [] ∨ ∃ j, o.new = [{ pc := .astart, job := some j }] := by
  cases h
  case snap hsh => exact .inl hsh.new_nil
  case filterAcc hsh => exact .inl hsh.new_nil
  case filterRej hsh => exact .inl hsh.new_nil
  case claimed hsh => exact .inl hsh.new_nil
  case exit hsh => exact .inl hsh.new_nil
  case lockDeadSync hsh => exact .inl hsh.new_nil
  case spawn => exact .inr ⟨_, rfl⟩
  all_goals exact .inl rfl

theorem prov_reachable {progs : List (List Op)} : ∀ s, Reachable progs s → Prov s := by
  apply reach_ind
  · refine ⟨?_, ?_, by simp [initSys], by simp [initSys]⟩
    · intro th hth
      simp [initSys] at hth
      obtain ⟨p, _, rfl⟩ := hth
      simp
    · intro th hth
      simp [initSys] at hth
      obtain ⟨p, _, rfl⟩ := hth
      simp
  · intro s i th o hr hi hth hR
    have hinv := regInv_reachable s hr
    have hmem := List.mem_of_getElem? hth
    have hstep := hR.regStep
    obtain ⟨k1, k2, k3⟩ := hR.srcs (Known s.sh.nextRid s.sh.regs) (fun r hr => known_of_mem hinv hr)
      (hi.rest th hmem) (hi.filt th hmem)
    have hle := hstep.nextRid_le
    refine ⟨?_, ?_, ?_, ?_⟩
    · intro t ht g hg x hx
      rcases mem_step_cases ht with ht | rfl | ht
      · exact (hi.rest t ht g hg x hx).step hstep
      · exact (k1 g hg x hx).step hstep
      · rcases hR.new_cases with h | ⟨j, h⟩ <;> rw [h] at ht <;> simp at ht
        subst ht; simp at hg
    · intro t ht r hpc
      rcases mem_step_cases ht with ht | rfl | ht
      · exact (hi.filt t ht r hpc).step hstep
      · exact (k2 r hpc).step hstep
      · rcases hR.new_cases with h | ⟨j, h⟩ <;> rw [h] at ht <;> simp at ht
        subst ht; simp at hpc
    · intro rid hrid
      simp only at hrid ⊢
      rcases k3 with e | ⟨r, hk, _, e⟩
      · rw [e] at hrid; have := hi.lt rid hrid; omega
      · rw [e] at hrid
        simp only [List.mem_cons] at hrid
        rcases hrid with rfl | hrid
        · have := hk.1; omega
        · have := hi.lt rid hrid; omega
    · intro rid hrid r' hr' he
      simp only at hrid hr'
      -- the registration `r'` was registered before the step, unless it is brand new
      have hold : r' ∈ s.sh.regs ∨ r'.rid = s.sh.nextRid := by
        cases hstep with
        | same e1 _ _ => rw [e1] at hr'; exact .inl hr'
        | add r1 e1 hr1 _ _ =>
          rw [e1] at hr'
          simp only [List.mem_append, List.mem_singleton] at hr'
          rcases hr' with hr' | rfl
          · exact .inl hr'
          · exact .inr hr1
        | del e1 _ _ => exact .inl (e1.subset hr')
      rcases k3 with e | ⟨r, hk, ho, e⟩
      · rw [e] at hrid
        rcases hold with hold | hold
        · exact hi.once rid hrid r' hold he
        · have := hi.lt rid hrid; omega
      · rw [e] at hrid
        simp only [List.mem_cons] at hrid
        rcases hrid with rfl | hrid
        · rcases hold with hold | hold
          · rw [hk.2 r' hold he]; exact ho
          · have := hk.1; omega
        · rcases hold with hold | hold
          · exact hi.once rid hrid r' hold he
          · have := hi.lt rid hrid; omega

/-! #### pending retirements -/

/-- the bottom activation (of an async goroutine: the one its handler runs in) has claimed nothing -/
def BotOK (fr : List Frame) : Prop := ∀ g, fr.getLast? = some g → g.claimed = []

theorem BotOK.push {a f : Frame} {fs : List Frame} (h : BotOK (f :: fs)) : BotOK (a :: f :: fs) := by
  intro g hg; rw [List.getLast?_cons_cons] at hg; exact h g hg

theorem BotOK.pop {f : Frame} {fs : List Frame} (h : BotOK (f :: fs)) : BotOK fs := by
  cases fs with
  | nil => intro g hg; simp at hg
  | cons a l => intro g hg; exact h g (by rw [List.getLast?_cons_cons]; exact hg)

theorem BotOK.head {f f' : Frame} {fs : List Frame} (h : BotOK (f :: fs)) (hc : f'.claimed = f.claimed ∨ f'.claimed = []) :
    BotOK (f' :: fs) := by
  cases fs with
  | nil =>
    intro g hg
    simp at hg; subst hg
    rcases hc with hc | hc
    · rw [hc]; exact h f (by simp)
    · exact hc
  | cons a l => intro g hg; rw [List.getLast?_cons_cons] at hg; exact h g (by rw [List.getLast?_cons_cons]; exact hg)

theorem BotOK.head_ne {f f' : Frame} {fs : List Frame} (h : BotOK (f :: fs)) (hne : fs ≠ []) : BotOK (f' :: fs) := by
  cases fs with
  | nil => exact absurd rfl hne
  | cons a l => intro g hg; rw [List.getLast?_cons_cons] at hg; exact h g (by rw [List.getLast?_cons_cons]; exact hg)

/-- what the program counter says about the claims of the thread's activations -/
structure ThP (th : Thread) : Prop where
  retired : th.pc = .retired → ∀ f fs, th.frames = f :: fs → f.claimed = []
  bot : th.job.isSome → BotOK th.frames

theorem Shape.thP {sh th f fs PF PC PG o} (h : Shape sh th f fs PF PC PG o) (hb : th.job.isSome → BotOK (f :: fs))
    (hne : th.job.isSome → fs ≠ []) : ThP o.th := by
  cases h
  case ret => exact ⟨by simp, fun hj => (hb hj).pop⟩
  all_goals exact ⟨by simp, fun hj => (hb hj).head_ne (hne hj)⟩

theorem StepR.thP {sh th o} (h : StepR sh th o) (hok : ThOK th) (hi : ThP th) : ThP o.th ∧ ∀ t ∈ o.new, ThP t := by
  have len2 : ∀ (f : Frame) (fs : List Frame), 2 ≤ (f :: fs).length → fs ≠ [] := by
    intro f fs h; cases fs <;> simp at h ⊢
  obtain ⟨hret, hbot⟩ := hi
  cases h
  case snap f fs hpc hfr hsh =>
    simp only [ThOK, hpc, hfr] at hok
    rw [hfr] at hbot
    exact ⟨hsh.thP hbot (fun hj => len2 _ _ (hok.2 hj)), by simp [hsh.new_nil]⟩
  case filterAcc r f fs hpc hfr hacc hsh =>
    simp only [ThOK, hpc, hfr] at hok
    rw [hfr] at hbot
    exact ⟨hsh.thP hbot (fun hj => len2 _ _ (hok.2 hj)), by simp [hsh.new_nil]⟩
  case filterRej r f fs hpc hfr hacc hsh =>
    simp only [ThOK, hpc, hfr] at hok
    rw [hfr] at hbot
    exact ⟨hsh.thP hbot (fun hj => len2 _ _ (hok.2 hj)), by simp [hsh.new_nil]⟩
  case claimed r f fs hpc hfr hsh =>
    simp only [ThOK, hpc, hfr] at hok
    rw [hfr] at hbot
    exact ⟨hsh.thP hbot (fun hj => len2 _ _ (hok.2 hj)), by simp [hsh.new_nil]⟩
  case spawn r n t f fs o hpc hfr hsh =>
    simp only [ThOK, hpc, hfr] at hok
    rw [hfr] at hbot
    refine ⟨(hsh.thP hbot (fun hj => len2 _ _ (hok.2 hj)) : ThP o.th), ?_⟩
    intro t ht
    simp at ht; subst ht
    exact ⟨by simp, fun _ g hg => by simp at hg⟩
  case exit r f fs hpc hfr hj hsh =>
    rw [hfr] at hbot
    refine ⟨hsh.thP (fun hj' => (hbot hj').head (.inl rfl)) ?_, by simp [hsh.new_nil]⟩
    intro hj'
    rcases hj with hj | hj
    · simp [hj] at hj'
    · exact hj
  case bodyPub f fs ty v more hpc hfr hb =>
    rw [hfr] at hbot
    exact ⟨⟨by simp, fun hj => (BotOK.head (f' := { f with body := more }) (hbot hj) (.inl rfl)).push⟩, by simp⟩
  case enterPub r f fs ty v more hpc hfr hb =>
    rw [hfr] at hbot
    exact ⟨⟨by simp, fun hj => (BotOK.head (f' := { f with body := more }) (hbot hj) (.inl rfl)).push⟩, by simp⟩
  case lock r a f fs hpc hfr hfree hl =>
    rw [hfr] at hbot
    exact ⟨⟨by simp, fun hj => (hbot hj).head (.inl rfl)⟩, by simp⟩
  case lockDeadSync r a f fs hpc hfr hj hfree hl hsh =>
    rw [hfr] at hbot
    refine ⟨hsh.thP hbot ?_, by simp [hsh.new_nil]⟩
    intro hj'
    rcases hj with hj | hj
    · simp [hj] at hj'
    · exact hj
  case lockDeadJob r a j f hpc hj hfr hfree hl =>
    exact ⟨⟨by simp, fun _ g hg => by simp at hg⟩, by simp⟩
  case retire f fs hpc hfr =>
    rw [hfr] at hbot
    refine ⟨⟨?_, fun hj => (hbot hj).head (.inr rfl)⟩, by simp⟩
    intro _ f' fs' he
    simp at he
    rw [← he.1]
  case retired f fs hpc hfr =>
    rw [hfr] at hbot
    exact ⟨⟨by simp, fun hj => (hbot hj).pop⟩, by simp⟩
  case astartRun j hpc hj hs hl =>
    refine ⟨⟨by simp, fun _ g hg => ?_⟩, by simp⟩
    simp at hg; subst hg; simp [jobFrame]
  case turnRun j hpc hj hturn hl =>
    refine ⟨⟨by simp, fun _ g hg => ?_⟩, by simp⟩
    simp at hg; subst hg; simp [jobFrame]
  case exitJob r j f hpc hj hfr =>
    exact ⟨⟨by simp, fun _ g hg => by simp at hg⟩, by simp⟩
  case publish ty v ctx prog hpc hfr hp =>
    refine ⟨⟨by simp, fun _ g hg => ?_⟩, by simp⟩
    simp at hg; subst hg; simp [newFrame]
  all_goals exact ⟨⟨by simp_all, hbot⟩, by simp⟩

theorem thP_reachable {progs : List (List Op)} : ∀ s, Reachable progs s → ∀ th ∈ s.ths, ThP th := by
  apply reach_ind
  · intro th hth
    simp [initSys] at hth
    obtain ⟨p, _, rfl⟩ := hth
    exact ⟨by simp, by simp⟩
  · intro s i th o hr hi hth hR t ht
    have hmem := List.mem_of_getElem? hth
    have h := hR.thP (thOK_reachable s hr th hmem) (hi th hmem)
    rcases mem_step_cases ht with ht | rfl | ht
    · exact hi t ht
    · exact h.1
    · exact h.2 t ht

/-- how often activation `f` has claimed `rid` and not yet retired it -/
def clm (rid : Nat) (f : Frame) : Nat := f.claimed.count rid

/-- the retirements of `rid` the thread still has to perform -/
def pend (rid : Nat) (th : Thread) : Nat := (th.frames.map (clm rid)).sum

theorem Shape.pendEff {sh th f fs PF PC PG o} (h : Shape sh th f fs PF PC PG o) (rid : Nat) :
    clm rid f + (fs.map (clm rid)).sum ≤ pend rid o.th ∧
    (rid ∈ o.sh.executed → rid ∉ sh.executed → 1 ≤ pend rid o.th) := by
  cases h
  case ret obs hc => exact ⟨by simp [pend, clm, hc], fun h1 h2 => absurd h1 h2⟩
  case claimed obs r l hp ho hne hl =>
    refine ⟨by simp [pend, clm, List.count_append], ?_⟩
    intro h1 h2
    simp only [List.mem_cons] at h1
    rcases h1 with rfl | h1
    · simp [pend, clm, List.count_append]; omega
    · exact absurd h1 h2
  all_goals
    refine ⟨by simp [pend, clm], ?_⟩
    intro h1 h2
    simp at h1
    exact absurd h1 h2

theorem StepR.pendEff {sh th o} (h : StepR sh th o) (hok : ThOK th) (hp : ThP th) (rid : Nat) :
    (pend rid th ≤ pend rid o.th ∨
      ∃ f fs, th.frames = f :: fs ∧ rid ∈ f.claimed ∧
        o.sh.regs = f.claimed.foldl (fun regs c => eraseFirst (fun h => h.rid == c) regs) sh.regs) ∧
    (rid ∈ o.sh.executed → rid ∉ sh.executed → 1 ≤ pend rid o.th) := by
  have e0 : ∀ f fs, th.frames = f :: fs → pend rid th = clm rid f + (fs.map (clm rid)).sum := by
    intro f fs h; simp [pend, h]
  cases h
  case snap f fs hpc hfr hsh => rw [e0 f fs hfr]; exact ⟨.inl (hsh.pendEff rid).1, (hsh.pendEff rid).2⟩
  case filterAcc r f fs hpc hfr hacc hsh => rw [e0 f fs hfr]; exact ⟨.inl (hsh.pendEff rid).1, (hsh.pendEff rid).2⟩
  case filterRej r f fs hpc hfr hacc hsh => rw [e0 f fs hfr]; exact ⟨.inl (hsh.pendEff rid).1, (hsh.pendEff rid).2⟩
  case claimed r f fs hpc hfr hsh => rw [e0 f fs hfr]; exact ⟨.inl (hsh.pendEff rid).1, (hsh.pendEff rid).2⟩
  case spawn r n t f fs o hpc hfr hsh => rw [e0 f fs hfr]; exact ⟨.inl (hsh.pendEff rid).1, (hsh.pendEff rid).2⟩
  case exit r f fs hpc hfr hj hsh => rw [e0 f fs hfr]; exact ⟨.inl (hsh.pendEff rid).1, (hsh.pendEff rid).2⟩
  case retire f fs hpc hfr =>
    refine ⟨?_, fun h1 h2 => absurd h1 h2⟩
    by_cases hm : rid ∈ f.claimed
    · exact .inr ⟨f, fs, hfr, hm, rfl⟩
    · refine .inl ?_
      rw [e0 f fs hfr]
      simp [pend, clm, List.count_eq_zero.2 hm]
  case retired f fs hpc hfr =>
    refine ⟨.inl ?_, fun h1 h2 => absurd h1 h2⟩
    rw [e0 f fs hfr]
    simp [pend, clm, hp.retired hpc f fs hfr]
  case exitJob r j f hpc hj hfr =>
    refine ⟨.inl ?_, fun h1 h2 => absurd h1 h2⟩
    have : f.claimed = [] := hp.bot (by simp [hj]) f (by simp [hfr])
    rw [e0 f [] hfr]
    simp [pend, clm, this]
  case astartRun j hpc hj hs hl =>
    simp only [ThOK, hpc] at hok
    refine ⟨.inl ?_, fun h1 h2 => absurd (by simpa using h1) h2⟩
    simp [pend, hok.2]
  case turnRun j hpc hj hturn hl =>
    simp only [ThOK, hpc] at hok
    refine ⟨.inl ?_, fun h1 h2 => absurd h1 h2⟩
    simp [pend, hok.2]
  case bodyPub f fs ty v more hpc hfr hb =>
    refine ⟨.inl ?_, fun h1 h2 => absurd h1 h2⟩
    rw [e0 f fs hfr]
    simp [pend, clm]
  case enterPub r f fs ty v more hpc hfr hb =>
    refine ⟨.inl ?_, fun h1 h2 => absurd h1 h2⟩
    rw [e0 f fs hfr]
    simp [pend, clm]
  case lockDeadSync r a f fs hpc hfr hj hfree hl hsh => rw [e0 f fs hfr]; exact ⟨.inl (hsh.pendEff rid).1, (hsh.pendEff rid).2⟩
  case lockDeadJob r a j f hpc hj hfr hfree hl =>
    refine ⟨.inl ?_, fun h1 h2 => absurd h1 h2⟩
    have : f.claimed = [] := hp.bot (by simp [hj]) f (by simp [hfr])
    rw [e0 f [] hfr]
    simp [pend, clm, this]
  case lock r a f fs hpc hfr hfree hl =>
    refine ⟨.inl ?_, fun h1 h2 => absurd (by simpa using h1) h2⟩
    rw [e0 f fs hfr]
    simp [pend, clm]
  case publish ty v ctx prog hpc hfr hp' =>
    refine ⟨.inl ?_, fun h1 h2 => absurd h1 h2⟩
    simp [pend, hfr]
  all_goals exact ⟨.inl (by simp [pend]), fun h1 h2 => absurd h1 h2⟩

theorem eraseFirst_gone {c : Nat} {l : List Reg} (hn : (l.map (·.rid)).Nodup) :
    ∀ r ∈ eraseFirst (fun h => h.rid == c) l, r.rid ≠ c := by
  induction l with
  | nil => intro r hr; simp [eraseFirst] at hr
  | cons x xs ih =>
    simp only [List.map_cons, List.nodup_cons, List.mem_map, not_exists, not_and] at hn
    intro r hr
    unfold eraseFirst at hr
    split at hr
    · rename_i hx
      simp at hx
      intro he
      exact hn.1 r hr (by omega)
    · rename_i hx
      simp at hx
      simp only [List.mem_cons] at hr
      rcases hr with rfl | hr
      · exact hx
      · exact ih hn.2 r hr

/-- retirement removes every registration it was asked to remove -/
theorem retire_gone {c : Nat} (cl : List Nat) (hc : c ∈ cl) (l : List Reg) (hn : (l.map (·.rid)).Nodup) :
    ∀ r ∈ cl.foldl (fun regs c => eraseFirst (fun h => h.rid == c) regs) l, r.rid ≠ c := by
  induction cl generalizing l with
  | nil => cases hc
  | cons c' cl ih =>
    intro r hr
    simp only [List.foldl_cons] at hr
    have hn' : ((eraseFirst (fun h => h.rid == c') l).map (·.rid)).Nodup := ((eraseFirst_sublist _ l).map _).nodup hn
    simp only [List.mem_cons] at hc
    rcases hc with rfl | hc
    · exact eraseFirst_gone hn r ((retire_sublist cl _).subset hr)
    · exact ih hc _ hn' r hr

/-- a registration that is still registered although it was claimed has its retirement pending in some activation -/
theorem pend_reachable {progs : List (List Op)} :
    ∀ s, Reachable progs s → ∀ r ∈ s.sh.regs, r.rid ∈ s.sh.executed → 1 ≤ wsum (pend r.rid) s.ths := by
  apply reach_ind
  · intro r hr; simp [initSys] at hr
  · intro s i th o hr hi hth hR r hreg hex
    simp only at hreg hex ⊢
    have hmem := List.mem_of_getElem? hth
    have hinv := regInv_reachable s hr
    have hprov := prov_reachable s hr
    obtain ⟨h1, h2⟩ := hR.pendEff (thOK_reachable s hr th hmem) (thP_reachable s hr th hmem) r.rid
    have hw := wsum_step (pend r.rid) o.th o.new hth
    have hge := wsum_ge (pend r.rid) hth
    by_cases hold : r.rid ∈ s.sh.executed
    · -- claimed before: `r` was registered before, too
      have hr' : r ∈ s.sh.regs := by
        cases hR.regStep with
        | same e1 _ _ => rw [e1] at hreg; exact hreg
        | add r1 e1 hr1 _ _ =>
          rw [e1] at hreg
          simp only [List.mem_append, List.mem_singleton] at hreg
          rcases hreg with hreg | rfl
          · exact hreg
          · have := hprov.lt _ hold; omega
        | del e1 _ _ => exact e1.subset hreg
      have := hi r hr' hold
      rcases h1 with h1 | ⟨f, fs, _, hm, he⟩
      · omega
      · rw [he] at hreg
        exact absurd rfl (retire_gone f.claimed hm _ hinv.2.1 r hreg)
    · have := h2 hex hold
      omega

/-! #### a claimed Once registration is on its way to its handler until it is entered (no context cancelled) -/

theorem Shape.onceLB {sh th f fs PF PC PG o} (h : Shape sh th f fs PF PC PG o) (rid : Nat) :
    sh.enteredOnce.count rid + exBit o.sh rid ≤ o.sh.enteredOnce.count rid + carry rid o.th + exBit sh rid := by
  cases h
  case claimed obs r l hp ho hne hl =>
    by_cases hr : r.rid = rid
    · subst hr; simp [carry, exBit, onceBit, ho, hne]
    · have : ¬ rid = r.rid := fun h => hr h.symm
      simp [carry, exBit, onceBit, hr, this]
  case enter obs r l hp ha hs hl =>
    simp only [carry, exBit, noteEnter_enteredOnce, noteEnter_executed]
    by_cases ho : r.once = true <;> by_cases hr : r.rid = rid <;> simp [ho, hr]
  all_goals simp [carry, exBit]

/-- with the context alive, the claimed registration is dispatched: spawned, parked at its mutex, or entered -/
theorem afterClaim_live {sh : Shared} {th : Thread} {f : Frame} {fs : List Frame} {r : Reg} {obs : List Obs}
    (hl : sh.live f.ctx = true) (fuel rid : Nat) :
    sh.enteredOnce.count rid + onceBit r rid ≤
        (afterClaim sh th f fs r obs (fuel + 1)).sh.enteredOnce.count rid + carry rid (afterClaim sh th f fs r obs (fuel + 1)).th ∧
      (afterClaim sh th f fs r obs (fuel + 1)).sh.executed = sh.executed := by
  rw [afterClaim]
  by_cases ha : r.async = true
  · simp [ha, carry]
  · by_cases hs : r.seq = true
    · simp [ha, hs, hl, carry]
    · by_cases ho : r.once = true <;> by_cases hr : r.rid = rid <;>
        simp [ha, hs, hl, carry, noteEnter_enteredOnce, onceBit, ho, hr]

theorem StepR.onceLB {sh th o} (h : StepR sh th o) (hs : step sh th = some o) (hc : sh.cancelled = []) (rid : Nat) :
    sh.enteredOnce.count rid + carry rid th + exBit o.sh rid ≤
      o.sh.enteredOnce.count rid + carry rid o.th + wsum (carry rid) o.new + exBit sh rid := by
  cases h
  case snap f fs hpc hfr hsh =>
    have := hsh.onceLB rid
    have hc : carry rid th = 0 := by simp [carry, hpc]
    simp only [hsh.new_nil, wsum_nil, hc]; omega
  case filterAcc r f fs hpc hfr hacc hsh =>
    have := hsh.onceLB rid
    have hc : carry rid th = 0 := by simp [carry, hpc]
    simp only [hsh.new_nil, wsum_nil, hc]; omega
  case filterRej r f fs hpc hfr hacc hsh =>
    have := hsh.onceLB rid
    have hc : carry rid th = 0 := by simp [carry, hpc]
    simp only [hsh.new_nil, wsum_nil, hc]; omega
  case exit r f fs hpc hfr hj hsh =>
    have := hsh.onceLB rid
    have hc : carry rid th = 0 := by simp [carry, hpc]
    simp only [hsh.new_nil, wsum_nil, hc]
    simp only [exBit] at this ⊢; omega
  case spawn r0 n t f fs o hpc hfr hsh =>
    have := hsh.onceLB rid
    have hc : carry rid th = onceBit r0 rid := by simp [carry, hpc]
    have hg : ∀ j : Job, carry rid { pc := .astart, job := some j } = onceBit j.reg rid := fun j => rfl
    rw [hc]; simp only [wsum_cons, wsum_nil, hg]; omega
  case claimed r0 f fs hpc hfr hsh =>
    have hc' : carry rid th = onceBit r0 rid := by simp [carry, hpc]
    simp only [step, enabled, hpc, hfr] at hs
    simp at hs
    subst hs
    have hf : fuelFor f = (3 * f.rest.length + 3) + 1 := rfl
    rw [hf]
    obtain ⟨h1, h2⟩ := afterClaim_live (th := th) (fs := fs) (r := r0) (obs := []) (live_of_nil hc f.ctx) (3 * f.rest.length + 3) rid
    simp only [afterClaim_new, wsum_nil, hc', exBit, h2]
    omega
  case lockDeadSync r a f fs hpc hfr hj hfree hl hsh => rw [live_of_nil hc] at hl; cases hl
  case lockDeadJob r a j f hpc hj hfr hfree hl => rw [live_of_nil hc] at hl; cases hl
  case lock r a f fs hpc hfr hfree hl =>
    have hc : carry rid th = onceBit r rid := by simp [carry, hpc]
    rw [hc]; simp only [wsum_nil, carry, exBit, noteEnter_enteredOnce, noteEnter_executed]
    unfold onceBit
    by_cases ho : r.once = true <;> by_cases hr : r.rid = rid <;> simp [ho, hr]
  case astartRun j hpc hj hs' hl =>
    have hc : carry rid th = onceBit j.reg rid := by simp [carry, hpc, hj]
    rw [hc]; simp only [wsum_nil, carry, exBit, noteEnter_enteredOnce, noteEnter_executed]
    unfold onceBit
    by_cases ho : j.reg.once = true <;> by_cases hr : j.reg.rid = rid <;> simp [ho, hr]
  case astartDead j hpc hj hs' hl => rw [live_of_nil hc] at hl; cases hl
  case turnDead j hpc hj hturn hl => rw [live_of_nil hc] at hl; cases hl
  all_goals simp [carry, exBit, *]

theorem onceLB_reachable {progs : List (List Op)} :
    ∀ s, Reachable progs s → s.sh.cancelled = [] →
      ∀ rid, exBit s.sh rid ≤ s.sh.enteredOnce.count rid + wsum (carry rid) s.ths := by
  apply reach_ind2
  · intro _ rid; simp [initSys, exBit]
  · intro s i th o _ hi hth hs hR hc rid
    simp only at hc ⊢
    obtain ⟨ks, hk⟩ := hR.cancelled
    have hc0 : s.sh.cancelled = [] := by
      rw [hc] at hk
      exact (List.append_eq_nil_iff.1 hk.symm).2
    have h1 := hR.onceLB hs hc0 rid
    have h2 := wsum_step (carry rid) o.th o.new hth
    have h3 := hi hc0 rid
    omega

end Inv

open Ebu.Conc.Inv

/-! ### C04 — Once registrations at quiescence -/

/-- a Once registration whose compare-and-swap succeeded is no longer registered once every publish has returned:
"no longer counted as subscribed afterwards" -/
theorem once_fired_is_retired (progs : List (List Op)) (s : Sys) (h : Reachable progs s) (hd : s.allDone) :
    ∀ r ∈ s.sh.regs, r.rid ∉ s.sh.executed := by
  intro r hr hex
  have h1 := pend_reachable s h r hr hex
  have h0 : wsum (pend r.rid) s.ths = 0 := by
    apply wsum_zero
    intro t ht
    have := (thS_reachable s h t ht).doneF (hd t ht)
    simp [pend, this]
  omega

/-- … and, when no context was ever cancelled, it was entered exactly once: "invoked exactly once when eligible" -/
theorem once_claimed_was_entered (progs : List (List Op)) (s : Sys) (h : Reachable progs s) (hd : s.allDone)
    (hc : s.sh.cancelled = []) :
    ∀ rid ∈ s.sh.executed, s.sh.enteredOnce.count rid = 1 := by
  intro rid hex
  have h1 := onceLB_reachable s h hc rid
  have h2 := once_at_most_once progs s h rid
  have h0 : wsum (carry rid) s.ths = 0 := by
    apply wsum_zero
    intro t ht
    simp [carry, hd t ht]
  have h3 : exBit s.sh rid = 1 := by simp [exBit, hex]
  omega

/-- only Once registrations are ever claimed -/
theorem executed_are_once (progs : List (List Op)) (s : Sys) (h : Reachable progs s) :
    ∀ rid ∈ s.sh.executed, ∀ r ∈ s.sh.regs, r.rid = rid → r.once = true :=
  (prov_reachable s h).once

/-! ### the hypotheses are satisfiable: a run to quiescence in which two publishers race for two Once registrations -/

namespace OnceExample
open ProgressExample

/-- thread 0 subscribes a synchronous and an asynchronous Once handler to type 0 and publishes; thread 1 publishes too -/
def oxProgs : List (List Op) :=
  [ [ .subscribe 0 0 true false false none [],
      .subscribe 0 1 true true false none [],
      .publish 0 1 .bg, .wait ],
    [ .publish 0 2 .bg ] ]

/-- thread 0 claims registration 0, thread 1 finds it claimed and claims registration 1; goroutine 2 runs its handler -/
def oxSched : List Nat := [0, 0, 0, 0, 1, 1, 0, 0, 0, 0, 0, 0, 0, 1, 1, 1, 1, 1, 2, 2, 2, 2]

theorem oxRuns : (run (initSys oxProgs) oxSched).isSome = true := by decide +kernel

def oxState : Sys := (run (initSys oxProgs) oxSched).get oxRuns

theorem oxReachable : Reachable oxProgs oxState := run_reachable .init (Option.some_get oxRuns).symm

/-- both registrations were claimed (by different publishers), everything has finished, nothing was cancelled: the
theorems above apply, and say that both handlers were entered exactly once and both registrations are gone -/
theorem once_hypotheses_satisfiable :
    Reachable oxProgs oxState ∧ oxState.allDone ∧ oxState.sh.cancelled = [] ∧ oxState.sh.executed = [1, 0] ∧
    oxState.sh.enteredOnce = [1, 0] ∧ oxState.sh.regs = [] :=
  ⟨oxReachable, by unfold Sys.allDone; decide +kernel, by decide +kernel, by decide +kernel, by decide +kernel, by decide +kernel⟩

end OnceExample

end Ebu.Conc

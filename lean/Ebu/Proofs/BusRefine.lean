import Ebu.Spec.Bus
/-!
Refinement of the sharded registry to the flat specification, and the algebra of the
registry operations (C01, first half).
-/
namespace Ebu.Bus

theorem flat_lawful : flatImpl.Lawful := by
  constructor
  · intro t; rfl
  · intro r t l t'; rfl
  · intro r t; rfl

theorem sharded_lawful (shardOf : Nat → Nat) : (shardedImpl shardOf).Lawful := by
  constructor
  · intro t; rfl
  · intro r t l t'
    simp only [shardedImpl]
    by_cases h : t' = t
    · subst h; simp
    · simp [h]
  · intro r t; rfl

/-! ### refinement helpers (kept in their own namespace: all the Proofs files are imported together) -/

namespace Refine
section refine
variable {R : Type} (I : RegImpl R) (cfg : Config)
variable (rec : Frame → St R → Action → St R) (rec' : Frame → St (Nat → List Reg) → Action → St (Nat → List Reg))

theorem absSt_c (s : St R) : (absSt I s).c = s.c := rfl

theorem absSt_withc (s : St R) (c : Core) : absSt I { s with c := c } = { absSt I s with c := c } := rfl

theorem absSt_set (hI : I.Lawful) (s : St R) (ty : Nat) (l : List Reg) (c : Core) :
    absSt I { reg := I.set s.reg ty l, c := c } =
      { reg := flatImpl.set (absSt I s).reg ty l, c := c } := by
  simp only [absSt, flatImpl, hI.get_set]

theorem absSt_clearAll (hI : I.Lawful) (s : St R) (c : Core) :
    absSt I { reg := I.clearAll s.reg, c := c } =
      { reg := flatImpl.clearAll (absSt I s).reg, c := c } := by
  simp only [absSt, flatImpl, hI.get_clearAll]

def RecRel : Prop := ∀ fr s a, absSt I (rec fr s a) = rec' fr (absSt I s) a

theorem runBody_refines (h : RecRel I rec rec') (fr : Frame) (acts : List Action) :
    ∀ s : St R, absSt I (runBody rec fr s acts) = runBody rec' fr (absSt I s) acts := by
  induction acts with
  | nil => intro s; rfl
  | cons a as ih =>
    intro s
    simp only [runBody, List.foldl_cons] at ih ⊢
    rw [ih]
    congr 1
    by_cases hp : s.c.panicking.isSome = true
    · simp only [absSt_c, hp, if_true]
    · simp only [absSt_c, hp]
      exact h fr s a

theorem enterHandler_refines (r : Reg) (ty v root obsParent d : Nat) (async : Bool) (s : St R) :
    enterHandler cfg r ty v root obsParent d async (absSt I s) =
      (absSt I (enterHandler cfg r ty v root obsParent d async s).1,
        (enterHandler cfg r ty v root obsParent d async s).2) := by
  simp only [enterHandler]
  cases cfg.obs <;> rfl

theorem bodyResult_refines (h : RecRel I rec rec') (r : Reg) (ty v root obsParent d : Nat)
    (async : Bool) (s : St R) :
    absSt I (bodyResult cfg rec r ty v root obsParent d async s) =
      bodyResult cfg rec' r ty v root obsParent d async (absSt I s) := by
  simp only [bodyResult, enterHandler_refines, runBody_refines I rec rec' h]

theorem callHandler_refines (h : RecRel I rec rec') (r : Reg) (ty v root obsParent d : Nat)
    (async : Bool) (s : St R) :
    absSt I (callHandler cfg rec r ty v root obsParent d async s) =
      callHandler cfg rec' r ty v root obsParent d async (absSt I s) := by
  simp only [callHandler, ← bodyResult_refines I cfg rec rec' h, absSt_c]
  split <;> rfl

def absP (p : St R × List Reg) : St (Nat → List Reg) × List Reg := (absSt I p.1, p.2)

theorem deliver_refines (h : RecRel I rec rec') (ty v root obs d : Nat)
    (acc : St R × List Reg) (r : Reg) :
    absP I (deliver cfg rec ty v root obs d acc r) =
      deliver cfg rec' ty v root obs d (absP I acc) r := by
  obtain ⟨s, cl⟩ := acc
  by_cases h0 : root = 0 <;>
  cases hf : r.filt <;> cases hfc : r.filtCancels <;> cases ho : r.once <;> cases ha : r.async <;>
    cases hacc : r.accepts v <;>
    simp only [deliver, absP, cancelRoot, h0, hf, hfc, ho, ha, hacc, absSt_c, Bool.not_true, Bool.not_false,
      Bool.false_and, Bool.true_and, Bool.and_true, Bool.and_false, Option.isSome_none, Option.isSome_some,
      if_true, if_false, Bool.false_eq_true] <;>
    (repeat' split) <;>
    first
      | rfl
      | exact Prod.ext (callHandler_refines I cfg rec rec' h ..) rfl
      | trace_state

theorem deliverLoop_refines (h : RecRel I rec rec') (ty v root obs d : Nat) (l : List Reg) :
    ∀ acc : St R × List Reg,
      absP I (l.foldl (deliver cfg rec ty v root obs d) acc) =
        l.foldl (deliver cfg rec' ty v root obs d) (absP I acc) := by
  induction l with
  | nil => intro acc; rfl
  | cons r rs ih =>
    intro acc
    simp only [List.foldl_cons]
    rw [ih, deliver_refines I cfg rec rec' h]

theorem runPending_refines (h : RecRel I rec rec') (p : Pending) (s : St R) :
    absSt I (runPending cfg rec p s) = runPending cfg rec' p (absSt I s) := by
  by_cases hl : (!s.c.live p.root) = true
  · simp only [runPending, absSt_c, hl, if_true]
  · simp only [runPending, absSt_c, hl]
    exact callHandler_refines I cfg rec rec' h ..

/-- the part of `publish` before the dispatch loop: (root, obs, pid, state) -/
def pubHead {R : Type} (cfg : Config) (fr : Frame) (ty v : Nat) (bad : Bool) (sel : CtxSel) (s : St R) :
    Nat × Nat × Nat × St R :=
  let d := fr.depth
  let (root, obs0, s) : Nat × Nat × St R := match sel with
    | .bg => (0, 0, s)
    | .fresh => (s.c.nextCtx, 0, { s with c := { s.c with nextCtx := s.c.nextCtx + 1 } })
    | .dead => (s.c.nextCtx, 0, { s with c := { s.c with nextCtx := s.c.nextCtx + 1, cancelled := s.c.nextCtx :: s.c.cancelled } })
    | .inherit => if fr.ctxAware then (fr.root, fr.obs, s) else (0, 0, s)
  let pid := s.c.nextObs
  let s := if cfg.obs then { s with c := { s.c.emit (.obs d .ps pid obs0 ty false) with nextObs := pid + 1 } } else s
  let obs := if cfg.obs then pid else obs0
  let s := { s with c := emitIf cfg.hookBL s.c (.hook d .bl ty v) }
  let s := { s with c := emitIf cfg.hookBC s.c (.hook d .bc ty v) }
  let s := { s with c := persist cfg d ty v bad obs s.c }
  (root, obs, pid, s)

/-- the part of `publish` after the dispatch loop -/
def pubTail {R : Type} (I : RegImpl R) (cfg : Config) (d ty v pid : Nat) (p : St R × List Reg) : St R :=
  let (s, claimed) := p
  let s := if claimed.isEmpty then s else { s with reg := I.set s.reg ty (retire claimed (I.get s.reg ty)) }
  let s := { s with c := emitIf cfg.hookAL s.c (.hook d .al ty v) }
  let s := { s with c := emitIf cfg.hookAC s.c (.hook d .ac ty v) }
  { s with c := emitIf cfg.obs s.c (.obs d .pc pid 0 ty false) }

theorem publish_eq (fr : Frame) (ty v : Nat) (bad : Bool) (sel : CtxSel) (s : St R) :
    publish I cfg rec fr ty v bad sel s =
      pubTail I cfg fr.depth ty v (pubHead cfg fr ty v bad sel s).2.2.1
        ((I.get (pubHead cfg fr ty v bad sel s).2.2.2.reg ty).foldl
          (deliver cfg rec ty v (pubHead cfg fr ty v bad sel s).1 (pubHead cfg fr ty v bad sel s).2.1 fr.depth)
          ((pubHead cfg fr ty v bad sel s).2.2.2, [])) := by
  rfl

theorem pubHead_refines (fr : Frame) (ty v : Nat) (bad : Bool) (sel : CtxSel) (s : St R) :
    pubHead cfg fr ty v bad sel (absSt I s) =
      ((pubHead cfg fr ty v bad sel s).1, (pubHead cfg fr ty v bad sel s).2.1,
        (pubHead cfg fr ty v bad sel s).2.2.1, absSt I (pubHead cfg fr ty v bad sel s).2.2.2) := by
  cases sel <;> cases hc : fr.ctxAware <;> cases ho : cfg.obs <;> simp only [pubHead, hc, ho] <;> rfl

theorem pubTail_refines (hI : I.Lawful) (d ty v pid : Nat) (p : St R × List Reg) :
    absSt I (pubTail I cfg d ty v pid p) = pubTail flatImpl cfg d ty v pid (absP I p) := by
  obtain ⟨s, cl⟩ := p
  cases he : cl.isEmpty
  · simp only [pubTail, absP, he, Bool.false_eq_true, if_false]
    rw [absSt_withc, absSt_withc, absSt_withc, absSt_set I hI]
    rfl
  · simp only [pubTail, absP, he, if_true]
    rfl

theorem publish_refines (hI : I.Lawful) (h : RecRel I rec rec') (fr : Frame) (ty v : Nat)
    (bad : Bool) (sel : CtxSel) (s : St R) :
    absSt I (publish I cfg rec fr ty v bad sel s) =
      publish flatImpl cfg rec' fr ty v bad sel (absSt I s) := by
  rw [publish_eq, publish_eq, pubTail_refines I cfg hI, deliverLoop_refines I cfg rec rec' h,
    pubHead_refines]
  rfl

theorem step_refines (hI : I.Lawful) (h : RecRel I rec rec') :
    RecRel I (step I cfg rec) (step flatImpl cfg rec') := by
  intro fr s a
  cases a with
  | subscribe ty hid once async seq filt body =>
    simp only [step, absSt_set I hI]; rfl
  | unsubscribe ty hid =>
    simp only [step]
    by_cases hany : (I.get s.reg ty).any (fun h => h.hid == hid) = true
    · rw [if_pos hany, if_pos (by exact hany), absSt_set I hI]; rfl
    · rw [if_neg hany, if_neg (by exact hany)]; rfl
  | clear ty =>
    simp only [step, absSt_set I hI]; rfl
  | clearAll =>
    simp only [step, absSt_clearAll I hI]; rfl
  | publish ty v bad sel =>
    by_cases hc : cfg.maxDepth ≤ fr.depth ∨ cfg.maxCalls ≤ s.c.calls
    · simp only [step, absSt_c, hc, if_true]; rfl
    · simp only [step, absSt_c, hc, if_false]
      exact publish_refines I cfg rec rec' hI h ..
  | cancel =>
    by_cases hc : fr.root = 0
    · simp only [step, hc, if_true]
    · simp only [step, hc, if_false]; rfl
  | cancelId k =>
    by_cases hc : k = 0 ∨ s.c.nextCtx ≤ k
    · simp only [step, absSt_c, hc, if_true]
    · simp only [step, absSt_c, hc, if_false]; rfl
  | panic val =>
    by_cases hc : fr.depth = 0
    · simp only [step, hc, if_true]
    · simp only [step, hc, if_false]; rfl
  | has ty => rfl
  | count ty => rfl
  | readLog => rfl
  | drain =>
    by_cases hc : fr.depth = 0
    · cases hp : s.c.pending with
      | nil => simp only [step, absSt_c, hc, hp, ne_eq, not_true, if_false]
      | cons p ps =>
        simp only [step, absSt_c, hc, hp, ne_eq, not_true, if_false]
        rw [h, runPending_refines I cfg rec rec' h]; rfl
    · simp only [step, hc, ne_eq, not_false_eq_true, if_true]

end refine
end Refine

open Refine in
/-- one step of the machine commutes with the abstraction, for every lawful registry -/
theorem exec_refines {R : Type} (I : RegImpl R) (hI : I.Lawful) (cfg : Config) (n : Nat)
    (fr : Frame) (s : St R) (a : Action) :
    absSt I (exec I cfg n fr s a) = exec flatImpl cfg n fr (absSt I s) a := by
  have key : ∀ n, RecRel I (exec I cfg n) (exec flatImpl cfg n) := by
    intro n
    induction n with
    | zero => intro fr s a; rfl
    | succ n ih =>
      intro fr s a
      exact step_refines I cfg _ _ hI ih fr s a
  exact key n fr s a

open Refine in
theorem run_refines {R : Type} (I : RegImpl R) (hI : I.Lawful) (cfg : Config) (fuel : Nat)
    (faults : List Bool) (prog : List Action) :
    absSt I (run I cfg fuel faults prog) = run flatImpl cfg fuel faults prog := by
  have hinit : absSt I (initSt I faults) = initSt flatImpl faults := by
    simp only [absSt, initSt, hI.get_empty]; rfl
  have key : ∀ (prog : List Action) (s : St R),
      absSt I (prog.foldl (fun s a => exec I cfg fuel {} s a) s) =
        prog.foldl (fun s a => exec flatImpl cfg fuel {} s a) (absSt I s) := by
    intro prog
    induction prog with
    | nil => intro s; rfl
    | cons a as ih =>
      intro s
      simp only [List.foldl_cons]
      rw [ih, exec_refines I hI]
  simp only [run]
  rw [key, hinit]

/-! registry algebra: what each registry call does, for any lawful implementation and any
behaviour `rec` of nested calls -/

theorem subscribe_spec {R : Type} (I : RegImpl R) (hI : I.Lawful) (cfg : Config)
    (rec : Frame → St R → Action → St R) (fr : Frame) (s : St R)
    (ty hid : Nat) (once async seq : Bool) (filt : Option (Nat × Nat)) (body : Nat) (fcancel : Bool) :
    let s' := step I cfg rec fr s (.subscribe ty hid once async seq filt body fcancel)
    I.get s'.reg ty = I.get s.reg ty ++ [⟨s.c.nextRid, ty, hid, once, async, seq, filt, body, fcancel⟩] ∧
    (∀ t, t ≠ ty → I.get s'.reg t = I.get s.reg t) ∧ s'.c.trace = s.c.trace := by
  intro s'
  refine ⟨?_, ?_, rfl⟩
  · simp [s', step, hI.get_set]
  · intro t ht
    simp [s', step, hI.get_set, ht]

theorem Refine.eraseFirst_split (p : Reg → Bool) : ∀ (l : List Reg), l.any p = true →
    ∃ pre h post, l = pre ++ h :: post ∧ p h = true ∧ (∀ x ∈ pre, p x = false) ∧
      eraseFirst p l = pre ++ post
  | [], h => by simp at h
  | r :: rs, h => by
    by_cases hr : p r = true
    · exact ⟨[], r, rs, rfl, hr, by simp, by simp [eraseFirst, hr]⟩
    · have h' : rs.any p = true := by
        simp only [List.any_cons, Bool.or_eq_true] at h
        rcases h with h | h
        · exact absurd h hr
        · exact h
      obtain ⟨pre, x, post, h1, h2, h3, h4⟩ := Refine.eraseFirst_split p rs h'
      refine ⟨r :: pre, x, post, by simp [h1], h2, ?_, by simp [eraseFirst, hr, h4]⟩
      intro y hy
      rcases List.mem_cons.1 hy with rfl | hy
      · simpa using hr
      · exact h3 y hy


/-- `Unsubscribe` removes exactly one registration — the first one of type `ty` whose handler
has the given code pointer — and reports an error iff there is none -/
theorem unsubscribe_spec {R : Type} (I : RegImpl R) (hI : I.Lawful) (cfg : Config)
    (rec : Frame → St R → Action → St R) (fr : Frame) (s : St R) (ty hid : Nat) :
    let s' := step I cfg rec fr s (.unsubscribe ty hid)
    (∀ t, t ≠ ty → I.get s'.reg t = I.get s.reg t) ∧
    ((∃ pre h post, I.get s.reg ty = pre ++ h :: post ∧ h.hid = hid ∧ (∀ x ∈ pre, x.hid ≠ hid) ∧
        I.get s'.reg ty = pre ++ post ∧ s'.c.trace = s.c.trace ++ [.qUnsub fr.depth ty hid true]) ∨
     ((∀ x ∈ I.get s.reg ty, x.hid ≠ hid) ∧ I.get s'.reg ty = I.get s.reg ty ∧
        s'.c.trace = s.c.trace ++ [.qUnsub fr.depth ty hid false])) := by
  intro s'
  by_cases hany : (I.get s.reg ty).any (fun h => h.hid == hid) = true
  · have hs' : s' = { reg := I.set s.reg ty (eraseFirst (fun h => h.hid == hid) (I.get s.reg ty)),
                      c := s.c.emit (.qUnsub fr.depth ty hid true) } := by
      simp [s', step, hany]
    refine ⟨?_, Or.inl ?_⟩
    · intro t ht
      simp [hs', hI.get_set, ht]
    · obtain ⟨pre, h, post, h1, h2, h3, h4⟩ := Refine.eraseFirst_split _ _ hany
      refine ⟨pre, h, post, h1, by simpa using h2, ?_, ?_, ?_⟩
      · intro x hx
        simpa using h3 x hx
      · simp [hs', hI.get_set, h4]
      · simp [hs']
  · have hs' : s' = { s with c := s.c.emit (.qUnsub fr.depth ty hid false) } := by
      simp [s', step, hany]
    refine ⟨?_, Or.inr ⟨?_, ?_, ?_⟩⟩
    · intro t ht
      simp [hs']
    · intro x hx
      simp only [List.any_eq_true, not_exists, not_and] at hany
      simpa using hany x hx
    · simp [hs']
    · simp [hs']

theorem clear_spec {R : Type} (I : RegImpl R) (hI : I.Lawful) (cfg : Config)
    (rec : Frame → St R → Action → St R) (fr : Frame) (s : St R) (ty : Nat) :
    let s' := step I cfg rec fr s (.clear ty)
    I.get s'.reg ty = [] ∧ (∀ t, t ≠ ty → I.get s'.reg t = I.get s.reg t) := by
  intro s'
  refine ⟨?_, ?_⟩
  · simp [s', step, hI.get_set]
  · intro t ht
    simp [s', step, hI.get_set, ht]

theorem clearAll_spec {R : Type} (I : RegImpl R) (hI : I.Lawful) (cfg : Config)
    (rec : Frame → St R → Action → St R) (fr : Frame) (s : St R) :
    ∀ t, I.get (step I cfg rec fr s .clearAll).reg t = [] := by
  intro t
  simp [step, hI.get_clearAll]

/-- `HasHandlers` and `HandlerCount` report the registry: the emitted answers are
`length > 0` and `length` of the type's registration list, and they leave it unchanged -/
theorem queries_spec {R : Type} (I : RegImpl R) (cfg : Config)
    (rec : Frame → St R → Action → St R) (fr : Frame) (s : St R) (ty : Nat) :
    (step I cfg rec fr s (.has ty)).c.trace = s.c.trace ++ [.qHas fr.depth ty (decide (0 < (I.get s.reg ty).length))] ∧
    (step I cfg rec fr s (.count ty)).c.trace = s.c.trace ++ [.qCount fr.depth ty (I.get s.reg ty).length] ∧
    (step I cfg rec fr s (.has ty)).reg = s.reg ∧ (step I cfg rec fr s (.count ty)).reg = s.reg := by
  refine ⟨?_, ?_, rfl, rfl⟩
  · simp only [step, Core.trace_emit]
    congr 3
    cases I.get s.reg ty <;> simp
  · simp only [step, Core.trace_emit]

end Ebu.Bus

import Ebu.Spec.Bus
/-!
Frame properties of the bus machine and the structure of one publish (C01 second half,
C04 sequential part, C05, C08).
-/
namespace Ebu.Bus

/-- the trace only grows, and what a call at frame depth `d` appends is tagged `≥ d` -/
theorem trace_extends {R : Type} (I : RegImpl R) (cfg : Config) (n : Nat) (fr : Frame) (s : St R) (a : Action) :
    ∃ l, (exec I cfg n fr s a).c.trace = s.c.trace ++ l ∧ ∀ e ∈ l, fr.depth ≤ e.depth := by
  sorry

/-- the registry stays well-formed -/
theorem wf_exec {R : Type} (I : RegImpl R) (hI : I.Lawful) (cfg : Config) (n : Nat) (fr : Frame) (s : St R)
    (a : Action) (h : WF I s) : WF I (exec I cfg n fr s a) := by
  sorry

theorem wf_run {R : Type} (I : RegImpl R) (hI : I.Lawful) (cfg : Config) (fuel : Nat) (faults : List Bool)
    (prog : List Action) : WF I (run I cfg fuel faults prog) := by
  sorry

/-- a panic never escapes to the top level -/
theorem no_panic_escapes {R : Type} (I : RegImpl R) (cfg : Config) (fuel : Nat) (faults : List Bool)
    (prog : List Action) : (run I cfg fuel faults prog).c.panicking = none := by
  sorry

/-- DELIVERY, soundness: the handlers a publish enters directly are registrations of the
snapshot taken when it began (so: of the published type, never one subscribed during the
delivery), each at most once and in subscription order, with the published type and value
and — for context-aware handlers — the publish context; the async ones it parks likewise -/
theorem publish_sound {R : Type} (I : RegImpl R) (hI : I.Lawful) (cfg : Config) (n : Nat) (fr : Frame)
    (ty v : Nat) (bad : Bool) (sel : CtxSel) (s : St R) :
    let s' := publish I cfg (exec I cfg n) fr ty v bad sel s
    (∃ l, s'.c.trace = s.c.trace ++ l) ∧ (∃ p, s'.c.pending = s.c.pending ++ p) ∧
    List.Sublist ((directEnters fr.depth (newTrace s s')).map (·.1))
      (((I.get s.reg ty).filter (fun r => !r.async)).map (·.rid)) ∧
    (∀ x ∈ directEnters fr.depth (newTrace s s'), x.2.1 = ty ∧ x.2.2.1 = v) ∧
    List.Sublist (((newPending s s').filter (fun q => q.depth == fr.depth)).map (·.reg))
      ((I.get s.reg ty).filter (fun r => r.async)) ∧
    (∀ q ∈ newPending s s', q.depth = fr.depth → q.ty = ty ∧ q.v = v) := by
  sorry

/-- DELIVERY, completeness: with a context that cannot be cancelled, every registration of
the snapshot whose filter accepts the event is invoked (sync) or parked for invocation
(async) — whatever the other handlers do: unsubscribe it, clear, publish, panic -/
theorem publish_complete {R : Type} (I : RegImpl R) (hI : I.Lawful) (cfg : Config) (n : Nat) (fr : Frame)
    (ty v : Nat) (bad : Bool) (s : St R) (h0 : 0 ∉ s.c.cancelled) (hctx : 0 < s.c.nextCtx) :
    let s' := publish I cfg (exec I cfg n) fr ty v bad .bg s
    ∀ r ∈ I.get s.reg ty, r.accepts v = true →
      (r.once = false → r.async = false → ∃ ctx, (r.rid, ty, v, ctx) ∈ directEnters fr.depth (newTrace s s')) ∧
      (r.once = false → r.async = true → ∃ q ∈ newPending s s', q.reg = r ∧ q.depth = fr.depth ∧ q.v = v) ∧
      (r.once = true → r.rid ∈ s'.c.executed) := by
  sorry

/-- exactly once: in a well-formed registry the rids entered directly are pairwise distinct -/
theorem publish_at_most_once {R : Type} (I : RegImpl R) (hI : I.Lawful) (cfg : Config) (n : Nat) (fr : Frame)
    (ty v : Nat) (bad : Bool) (sel : CtxSel) (s : St R) (hwf : WF I s) :
    let s' := publish I cfg (exec I cfg n) fr ty v bad sel s
    ((directEnters fr.depth (newTrace s s')).map (·.1)).Nodup := by
  sorry

/-- C08/C04: a publish whose context is already cancelled runs no handler, parks none,
consumes no once handler and leaves the registry alone -/
theorem dead_publish_inert {R : Type} (I : RegImpl R) (hI : I.Lawful) (cfg : Config) (n : Nat) (fr : Frame)
    (ty v : Nat) (bad : Bool) (s : St R) :
    let s' := publish I cfg (exec I cfg n) fr ty v bad .dead s
    (∀ e ∈ newTrace s s', isEnter e = false) ∧ s'.c.pending = s.c.pending ∧
    s'.c.executed = s.c.executed ∧ (∀ t, I.get s'.reg t = I.get s.reg t) := by
  sorry

/-- C04: a registration whose filter rejects the event is not used up by that delivery step -/
theorem deliver_rejected_inert {R : Type} (cfg : Config) (rec : Frame → St R → Action → St R)
    (ty v root obs d : Nat) (s : St R) (claimed : List Reg) (r : Reg) (hrej : r.accepts v = false) :
    let out := deliver cfg rec ty v root obs d (s, claimed) r
    out.2 = claimed ∧ out.1.c.executed = s.c.executed ∧ out.1.reg = s.reg ∧ out.1.c.pending = s.c.pending ∧
    (∀ e ∈ newTrace s out.1, isEnter e = false) := by
  sorry

/-- C08: once the publish context is cancelled no further handler of that publish is started:
the rest of the dispatch loop enters nothing, parks nothing, claims nothing -/
theorem cancelled_loop_inert {R : Type} (cfg : Config) (rec : Frame → St R → Action → St R)
    (ty v root obs d : Nat) (s : St R) (claimed : List Reg) (rest : List Reg) (hdead : s.c.live root = false) :
    let out := rest.foldl (deliver cfg rec ty v root obs d) (s, claimed)
    out.2 = claimed ∧ out.1.c.executed = s.c.executed ∧ out.1.reg = s.reg ∧ out.1.c.pending = s.c.pending ∧
    (∀ e ∈ newTrace s out.1, isEnter e = false) := by
  sorry

/-- C08 hooks: the events a publish appends are `pre ++ mid ++ post` where `pre` holds the
before-hooks (each configured one exactly once, legacy first) and ends before the first
handler, `post` holds the after-hooks, and `mid` (the dispatch loop, where every handler of
this publish is entered and returns) contains no hook of this publish -/
theorem publish_hooks {R : Type} (I : RegImpl R) (hI : I.Lawful) (cfg : Config) (n : Nat) (fr : Frame)
    (ty v : Nat) (bad : Bool) (sel : CtxSel) (s : St R) :
    let s' := publish I cfg (exec I cfg n) fr ty v bad sel s
    ∃ pre mid post, newTrace s s' = pre ++ mid ++ post ∧
      pre.filter (isHookAt fr.depth) =
        (if cfg.hookBL then [Ev.hook fr.depth .bl ty v] else []) ++ (if cfg.hookBC then [Ev.hook fr.depth .bc ty v] else []) ∧
      post.filter (isHookAt fr.depth) =
        (if cfg.hookAL then [Ev.hook fr.depth .al ty v] else []) ++ (if cfg.hookAC then [Ev.hook fr.depth .ac ty v] else []) ∧
      mid.filter (isHookAt fr.depth) = [] ∧
      (∀ e ∈ pre, isEnter e = false) ∧ (∀ e ∈ post, isEnter e = false) ∧
      directEnters fr.depth (newTrace s s') = directEnters fr.depth mid := by
  sorry

/-- C05: the panic handler is called exactly once per panicking invocation — with the event,
the handler's kind and the panic value — and never otherwise; the invocation always returns
with the panic cleared -/
theorem callHandler_panic {R : Type} (I : RegImpl R) (cfg : Config) (n : Nat) (r : Reg)
    (ty v root obsParent d : Nat) (async : Bool) (s : St R) :
    let s' := callHandler cfg (exec I cfg n) r ty v root obsParent d async s
    s'.c.panicking = none ∧
    (newTrace s s').filter (isPanichAt d) =
      (match (bodyResult cfg (exec I cfg n) r ty v root obsParent d async s).c.panicking with
       | some val => if cfg.panicH then [Ev.panich d r.ctxAware ty v val] else []
       | none => []) := by
  sorry

/-- C04/C05: at the end of every top-level run no fired once-handler is still registered -/
theorem once_retired_after_run {R : Type} (I : RegImpl R) (hI : I.Lawful) (cfg : Config) (fuel : Nat)
    (faults : List Bool) (prog : List Action) :
    let s := run I cfg fuel faults prog
    ∀ t, ∀ r ∈ I.get s.reg t, r.once = true → r.rid ∉ s.c.executed := by
  sorry

end Ebu.Bus

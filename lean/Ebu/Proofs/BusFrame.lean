import Ebu.Spec.Bus
/-!
Frame properties of the bus machine and the structure of one publish (C01 second half,
C04 sequential part, C05, C08).
-/
namespace Ebu.Bus

namespace BF

/-! ### field lemmas for `emit` / `emitIf` / `persist` -/

@[local simp] theorem emit_nextRid (c : Core) (e : Ev) : (c.emit e).nextRid = c.nextRid := rfl
@[local simp] theorem emitIf_nextRid (b : Bool) (c : Core) (e : Ev) : (emitIf b c e).nextRid = c.nextRid := by cases b <;> rfl
@[local simp] theorem emit_executed (c : Core) (e : Ev) : (c.emit e).executed = c.executed := rfl
@[local simp] theorem emitIf_executed (b : Bool) (c : Core) (e : Ev) : (emitIf b c e).executed = c.executed := by cases b <;> rfl
@[local simp] theorem emit_cancelled (c : Core) (e : Ev) : (c.emit e).cancelled = c.cancelled := rfl
@[local simp] theorem emitIf_cancelled (b : Bool) (c : Core) (e : Ev) : (emitIf b c e).cancelled = c.cancelled := by cases b <;> rfl
@[local simp] theorem emit_nextCtx (c : Core) (e : Ev) : (c.emit e).nextCtx = c.nextCtx := rfl
@[local simp] theorem emitIf_nextCtx (b : Bool) (c : Core) (e : Ev) : (emitIf b c e).nextCtx = c.nextCtx := by cases b <;> rfl
@[local simp] theorem emit_log (c : Core) (e : Ev) : (c.emit e).log = c.log := rfl
@[local simp] theorem emitIf_log (b : Bool) (c : Core) (e : Ev) : (emitIf b c e).log = c.log := by cases b <;> rfl
@[local simp] theorem emit_lastOffset (c : Core) (e : Ev) : (c.emit e).lastOffset = c.lastOffset := rfl
@[local simp] theorem emitIf_lastOffset (b : Bool) (c : Core) (e : Ev) : (emitIf b c e).lastOffset = c.lastOffset := by cases b <;> rfl
@[local simp] theorem emit_appendFaults (c : Core) (e : Ev) : (c.emit e).appendFaults = c.appendFaults := rfl
@[local simp] theorem emitIf_appendFaults (b : Bool) (c : Core) (e : Ev) : (emitIf b c e).appendFaults = c.appendFaults := by cases b <;> rfl
@[local simp] theorem emit_pending (c : Core) (e : Ev) : (c.emit e).pending = c.pending := rfl
@[local simp] theorem emitIf_pending (b : Bool) (c : Core) (e : Ev) : (emitIf b c e).pending = c.pending := by cases b <;> rfl
@[local simp] theorem emit_panicking (c : Core) (e : Ev) : (c.emit e).panicking = c.panicking := rfl
@[local simp] theorem emitIf_panicking (b : Bool) (c : Core) (e : Ev) : (emitIf b c e).panicking = c.panicking := by cases b <;> rfl
@[local simp] theorem emit_nextObs (c : Core) (e : Ev) : (c.emit e).nextObs = c.nextObs := rfl
@[local simp] theorem emitIf_nextObs (b : Bool) (c : Core) (e : Ev) : (emitIf b c e).nextObs = c.nextObs := by cases b <;> rfl
@[local simp] theorem emit_calls (c : Core) (e : Ev) : (c.emit e).calls = c.calls := rfl
@[local simp] theorem emitIf_calls (b : Bool) (c : Core) (e : Ev) : (emitIf b c e).calls = c.calls := by cases b <;> rfl
@[local simp] theorem emit_outOfFuel (c : Core) (e : Ev) : (c.emit e).outOfFuel = c.outOfFuel := rfl
@[local simp] theorem emitIf_outOfFuel (b : Bool) (c : Core) (e : Ev) : (emitIf b c e).outOfFuel = c.outOfFuel := by cases b <;> rfl

@[local simp] theorem emit_rtrace (c : Core) (e : Ev) : (c.emit e).rtrace = e :: c.rtrace := rfl
@[local simp] theorem emit_live (c : Core) (e : Ev) (k : Nat) : (c.emit e).live k = c.live k := rfl
@[local simp] theorem emitIf_live (b : Bool) (c : Core) (e : Ev) (k : Nat) : (emitIf b c e).live k = c.live k := by
  cases b <;> rfl

@[local simp] theorem trace_mk (a1 : Nat) (a2 a3 : List Nat) (a4 : Nat) (a5 : List (Nat × Nat)) (a6 : Nat)
    (a7 : List Bool) (a8 : List Pending) (rt : List Ev) (a10 : Option Nat) (a11 a12 : Nat) (a13 : Bool) :
    (Core.mk a1 a2 a3 a4 a5 a6 a7 a8 rt a10 a11 a12 a13).trace = rt.reverse := rfl

@[local simp] theorem rtrace_reverse (c : Core) : c.rtrace.reverse = c.trace := rfl

@[local simp] theorem emitIf_trace (b : Bool) (c : Core) (e : Ev) :
    (emitIf b c e).trace = c.trace ++ (if b then [e] else []) := by
  cases b <;> simp [emitIf]

/-! ### event classes -/

def isExit : Ev → Bool
  | .exit .. => true
  | _ => false

/-- neither enter, exit, hook nor panich -/
def plain : Ev → Bool
  | .enter .. => false
  | .exit .. => false
  | .hook .. => false
  | .panich .. => false
  | _ => true

/-- what a call at depth `d` may append: tagged `≥ d`; enter/exit tagged `≥ d+1` -/
def TagOK (d : Nat) (e : Ev) : Prop :=
  d ≤ e.depth ∧ ((isEnter e = true ∨ isExit e = true) → d + 1 ≤ e.depth)

theorem TagOK.mono {d d' : Nat} {e : Ev} (h : d ≤ d') (ht : TagOK d' e) : TagOK d e :=
  ⟨by have := ht.1; omega, fun hh => by have := ht.2 hh; omega⟩

theorem TagOK.of_plain {d : Nat} {e : Ev} (hd : d ≤ e.depth) (hp : plain e = true) : TagOK d e := by
  refine ⟨hd, ?_⟩
  cases e <;> simp_all [plain, isEnter, isExit]

/-- the events `persist` appends -/
def persistEvs (cfg : Config) (d ty v : Nat) (bad : Bool) (obsParent : Nat) (c : Core) : List Ev :=
  match cfg.store with
  | none => []
  | some sid =>
    if bad then (if cfg.perrH then [.perr d ty v true] else [])
    else
      let fails := c.appendFaults.headD false
      (if cfg.obs then [Ev.obs d .rs c.nextObs obsParent ty false] else []) ++
      [if fails then Ev.append d sid ty v false 0 else Ev.append d sid ty v true (c.log.length + 1)] ++
      (if cfg.obs then [Ev.obs d .rc c.nextObs 0 ty fails] else []) ++
      (if fails && cfg.perrH then [Ev.perr d ty v false] else [])

theorem persist_trace (cfg : Config) (d ty v : Nat) (bad : Bool) (obsParent : Nat) (c : Core) :
    (persist cfg d ty v bad obsParent c).trace = c.trace ++ persistEvs cfg d ty v bad obsParent c := by
  cases hs : cfg.store <;> cases bad <;> cases ho : cfg.obs <;> cases hp : cfg.perrH <;>
    cases hf : c.appendFaults.head?.getD false <;> simp [persist, persistEvs, hs, ho, hp, hf]

theorem persistEvs_plain (cfg : Config) (d ty v : Nat) (bad : Bool) (obsParent : Nat) (c : Core) :
    ∀ e ∈ persistEvs cfg d ty v bad obsParent c, e.depth = d ∧ plain e = true := by
  cases hs : cfg.store <;> cases bad <;> cases ho : cfg.obs <;> cases hp : cfg.perrH <;>
    cases hf : c.appendFaults.head?.getD false <;> simp [persistEvs, hs, ho, hp, hf, Ev.depth, plain]

theorem persist_fields (cfg : Config) (d ty v : Nat) (bad : Bool) (obsParent : Nat) (c : Core) :
    let c' := persist cfg d ty v bad obsParent c
    c'.nextRid = c.nextRid ∧ c'.executed = c.executed ∧ c'.cancelled = c.cancelled ∧
    c'.nextCtx = c.nextCtx ∧ c'.pending = c.pending ∧ c'.panicking = c.panicking ∧ c'.calls = c.calls := by
  cases hs : cfg.store <;> cases bad <;> cases ho : cfg.obs <;> cases hp : cfg.perrH <;>
    cases hf : c.appendFaults.head?.getD false <;> simp [persist, hs, ho, hp, hf]

@[local simp] theorem persist_nextRid (cfg : Config) (d ty v : Nat) (bad : Bool) (o : Nat) (c : Core) :
    (persist cfg d ty v bad o c).nextRid = c.nextRid := (persist_fields cfg d ty v bad o c).1
@[local simp] theorem persist_executed (cfg : Config) (d ty v : Nat) (bad : Bool) (o : Nat) (c : Core) :
    (persist cfg d ty v bad o c).executed = c.executed := (persist_fields cfg d ty v bad o c).2.1
@[local simp] theorem persist_cancelled (cfg : Config) (d ty v : Nat) (bad : Bool) (o : Nat) (c : Core) :
    (persist cfg d ty v bad o c).cancelled = c.cancelled := (persist_fields cfg d ty v bad o c).2.2.1
@[local simp] theorem persist_nextCtx (cfg : Config) (d ty v : Nat) (bad : Bool) (o : Nat) (c : Core) :
    (persist cfg d ty v bad o c).nextCtx = c.nextCtx := (persist_fields cfg d ty v bad o c).2.2.2.1
@[local simp] theorem persist_pending (cfg : Config) (d ty v : Nat) (bad : Bool) (o : Nat) (c : Core) :
    (persist cfg d ty v bad o c).pending = c.pending := (persist_fields cfg d ty v bad o c).2.2.2.2.1
@[local simp] theorem persist_panicking (cfg : Config) (d ty v : Nat) (bad : Bool) (o : Nat) (c : Core) :
    (persist cfg d ty v bad o c).panicking = c.panicking := (persist_fields cfg d ty v bad o c).2.2.2.2.2.1
@[local simp] theorem persist_calls (cfg : Config) (d ty v : Nat) (bad : Bool) (o : Nat) (c : Core) :
    (persist cfg d ty v bad o c).calls = c.calls := (persist_fields cfg d ty v bad o c).2.2.2.2.2.2
@[local simp] theorem persist_live (cfg : Config) (d ty v : Nat) (bad : Bool) (o : Nat) (c : Core) (k : Nat) :
    (persist cfg d ty v bad o c).live k = c.live k := by simp [Core.live]

/-! ### the frame relation -/

section rel
variable {R : Type}

/-- registration identities are unique across event types -/
def WFG (I : RegImpl R) (s : St R) : Prop :=
  ∀ t t', ∀ r ∈ I.get s.reg t, ∀ r' ∈ I.get s.reg t', r.rid = r'.rid → t = t'

/-- every registered once-handler that has fired is one of `C` (claimed by a publish in progress) -/
def Q (I : RegImpl R) (s : St R) (C : List Nat) : Prop :=
  (∀ t, ∀ r ∈ I.get s.reg t, r.once = true → r.rid ∈ s.c.executed → r.rid ∈ C) ∧
  ∀ x ∈ s.c.executed, x < s.c.nextRid

def Inv0 (c : Core) : Prop := 0 ∉ c.cancelled ∧ 0 < c.nextCtx

structure Fr0 (I : RegImpl R) (b : Bool) (d : Nat) (s s' : St R) : Prop where
  tr : ∃ l, s'.c.trace = s.c.trace ++ l ∧ ∀ e ∈ l, TagOK d e
  pd : b = true → ∃ p, s'.c.pending = s.c.pending ++ p ∧ ∀ q ∈ p, d ≤ q.depth
  ex : ∀ x ∈ s.c.executed, x ∈ s'.c.executed
  inv0 : Inv0 s.c → Inv0 s'.c
  nr : s.c.nextRid ≤ s'.c.nextRid
  stab : I.Lawful → ∀ t, ∀ r ∈ I.get s'.reg t, r ∈ I.get s.reg t ∨ s.c.nextRid ≤ r.rid
  wf : I.Lawful → WF I s → WF I s'
  wfg : I.Lawful → WF I s → WFG I s → WFG I s'

structure Fr (I : RegImpl R) (b : Bool) (d : Nat) (s s' : St R) : Prop extends Fr0 I b d s s' where
  q : I.Lawful → WF I s → WFG I s → ∀ C, Q I s C → Q I s' C

variable {I : RegImpl R} {b : Bool} {d : Nat} {s s' s'' : St R}

theorem Fr0.refl : Fr0 I b d s s where
  tr := ⟨[], by simp, by simp⟩
  pd := fun _ => ⟨[], by simp, by simp⟩
  ex := fun _ h => h
  inv0 := fun h => h
  nr := Nat.le_refl _
  stab := fun _ _ _ h => Or.inl h
  wf := fun _ h => h
  wfg := fun _ _ h => h

theorem Fr.refl : Fr I b d s s := ⟨Fr0.refl, fun _ _ _ _ h => h⟩

theorem Fr0.trans (h1 : Fr0 I b d s s') (h2 : Fr0 I b d s' s'') : Fr0 I b d s s'' where
  tr := by
    obtain ⟨l1, e1, t1⟩ := h1.tr
    obtain ⟨l2, e2, t2⟩ := h2.tr
    refine ⟨l1 ++ l2, by rw [e2, e1, List.append_assoc], ?_⟩
    intro e he
    rcases List.mem_append.1 he with h | h
    · exact t1 e h
    · exact t2 e h
  pd := fun hb => by
    obtain ⟨l1, e1, t1⟩ := h1.pd hb
    obtain ⟨l2, e2, t2⟩ := h2.pd hb
    refine ⟨l1 ++ l2, by rw [e2, e1, List.append_assoc], ?_⟩
    intro e he
    rcases List.mem_append.1 he with h | h
    · exact t1 e h
    · exact t2 e h
  ex := fun x h => h2.ex x (h1.ex x h)
  inv0 := fun h => h2.inv0 (h1.inv0 h)
  nr := Nat.le_trans h1.nr h2.nr
  stab := fun hI t r hr => by
    rcases h2.stab hI t r hr with h | h
    · exact h1.stab hI t r h
    · exact Or.inr (Nat.le_trans h1.nr h)
  wf := fun hI h => h2.wf hI (h1.wf hI h)
  wfg := fun hI h hg => h2.wfg hI (h1.wf hI h) (h1.wfg hI h hg)

theorem Fr.trans (h1 : Fr I b d s s') (h2 : Fr I b d s' s'') : Fr I b d s s'' :=
  ⟨h1.toFr0.trans h2.toFr0, fun hI h hg C hq =>
    h2.q hI (h1.wf hI h) (h1.wfg hI h hg) C (h1.q hI h hg C hq)⟩

theorem Fr0.mono {b' : Bool} {d' : Nat} (hd : d ≤ d') (hb : b = true → b' = true) (h : Fr0 I b' d' s s') :
    Fr0 I b d s s' where
  tr := by
    obtain ⟨l, e, t⟩ := h.tr
    exact ⟨l, e, fun x hx => (t x hx).mono hd⟩
  pd := fun hb' => by
    obtain ⟨l, e, t⟩ := h.pd (hb hb')
    exact ⟨l, e, fun x hx => Nat.le_trans hd (t x hx)⟩
  ex := h.ex
  inv0 := h.inv0
  nr := h.nr
  stab := h.stab
  wf := h.wf
  wfg := h.wfg

theorem Fr.mono {b' : Bool} {d' : Nat} (hd : d ≤ d') (hb : b = true → b' = true) (h : Fr I b' d' s s') :
    Fr I b d s s' := ⟨h.toFr0.mono hd hb, h.q⟩

theorem WF_of_sub (hsub : ∀ t, (I.get s'.reg t).Sublist (I.get s.reg t)) (hnr : s.c.nextRid ≤ s'.c.nextRid)
    (h : WF I s) : WF I s' := by
  intro t
  refine ⟨((hsub t).map _).nodup (h t).1, fun r hr => ?_⟩
  have := (h t).2 r ((hsub t).mem hr)
  exact ⟨by omega, this.2⟩

theorem WFG_of_sub (hsub : ∀ t, (I.get s'.reg t).Sublist (I.get s.reg t)) (h : WFG I s) : WFG I s' :=
  fun t t' r hr r' hr' he => h t t' r ((hsub t).mem hr) r' ((hsub t').mem hr') he

/-- a change that only removes registrations -/
theorem Fr.of_sub (hsub : I.Lawful → ∀ t, (I.get s'.reg t).Sublist (I.get s.reg t))
    (hnr : s'.c.nextRid = s.c.nextRid) (hex : s'.c.executed = s.c.executed) (hinv : Inv0 s.c → Inv0 s'.c)
    (hpd : b = true → ∃ p, s'.c.pending = s.c.pending ++ p ∧ ∀ q ∈ p, d ≤ q.depth)
    (htr : ∃ l, s'.c.trace = s.c.trace ++ l ∧ ∀ e ∈ l, TagOK d e) : Fr I b d s s' where
  tr := htr
  pd := hpd
  ex := by simp [hex]
  inv0 := hinv
  nr := by omega
  stab := fun hI t r hr => Or.inl ((hsub hI t).mem hr)
  wf := fun hI h => WF_of_sub (hsub hI) (by omega) h
  wfg := fun hI _ h => WFG_of_sub (hsub hI) h
  q := fun hI _ _ C h => ⟨fun t r hr ho he => h.1 t r ((hsub hI t).mem hr) ho (hex ▸ he),
    fun x hx => by have := h.2 x (hex ▸ hx); omega⟩

/-- a change that leaves the registry and `nextRid` alone -/
theorem Fr0.of_core (hreg : s'.reg = s.reg) (hnr : s'.c.nextRid = s.c.nextRid)
    (hex : ∀ x ∈ s.c.executed, x ∈ s'.c.executed) (hinv : Inv0 s.c → Inv0 s'.c)
    (hpd : ∃ p, s'.c.pending = s.c.pending ++ p ∧ ∀ q ∈ p, d ≤ q.depth)
    (htr : ∃ l, s'.c.trace = s.c.trace ++ l ∧ ∀ e ∈ l, TagOK d e) : Fr0 I b d s s' where
  tr := htr
  pd := fun _ => hpd
  ex := hex
  inv0 := hinv
  nr := by omega
  stab := fun _ t r hr => Or.inl (hreg ▸ hr)
  wf := fun _ h => by simpa [WF, hreg, hnr] using h
  wfg := fun _ _ h => by simpa [WFG, hreg] using h

theorem Fr.quiet' (hreg : s'.reg = s.reg) (hnr : s'.c.nextRid = s.c.nextRid)
    (hex : s'.c.executed = s.c.executed) (hinv : Inv0 s.c → Inv0 s'.c) (hpd : s'.c.pending = s.c.pending)
    (htr : ∃ l, s'.c.trace = s.c.trace ++ l ∧ ∀ e ∈ l, TagOK d e) : Fr I b d s s' :=
  Fr.of_sub (fun _ t => by rw [hreg]; exact List.Sublist.refl _) hnr hex hinv
    (fun _ => ⟨[], by simp [hpd], by simp⟩) htr

/-- a change that only touches the trace and fields nothing here depends on -/
theorem Fr.quiet (hreg : s'.reg = s.reg) (hnr : s'.c.nextRid = s.c.nextRid)
    (hex : s'.c.executed = s.c.executed) (hcan : s'.c.cancelled = s.c.cancelled)
    (hctx : s'.c.nextCtx = s.c.nextCtx) (hpd : s'.c.pending = s.c.pending)
    (htr : ∃ l, s'.c.trace = s.c.trace ++ l ∧ ∀ e ∈ l, TagOK d e) : Fr I b d s s' :=
  Fr.quiet' hreg hnr hex (by simp [Inv0, hcan, hctx]) hpd htr

theorem trace_nil (s : St R) : ∃ l, s.c.trace = s.c.trace ++ l ∧ ∀ e ∈ l, TagOK d e := ⟨[], by simp, by simp⟩

end rel
/-! ### the chain: handler invocation -/

theorem all_ite {P : Ev → Prop} (b : Bool) (x : Ev) (h : P x) : ∀ e ∈ (if b then [x] else []), P e := by
  cases b <;> simp [h]

theorem all_append {α : Type} {P : α → Prop} {l1 l2 : List α} (h1 : ∀ e ∈ l1, P e) (h2 : ∀ e ∈ l2, P e) :
    ∀ e ∈ l1 ++ l2, P e := by
  intro e he
  rcases List.mem_append.1 he with h | h
  · exact h1 e h
  · exact h2 e h

theorem all_single {α : Type} {P : α → Prop} (x : α) (h : P x) : ∀ e ∈ [x], P e := by
  simp [h]

section chain
variable {R : Type} (I : RegImpl R) (cfg : Config) (rec : Frame → St R → Action → St R)

def RecOK : Prop := ∀ fr s a, Fr I (decide (1 ≤ fr.depth)) fr.depth s (rec fr s a)

theorem runBody_Fr (hrec : RecOK I rec) (fr : Frame) (acts : List Action) (s : St R) :
    Fr I (decide (1 ≤ fr.depth)) fr.depth s (runBody rec fr s acts) := by
  induction acts generalizing s with
  | nil => exact Fr.refl
  | cons a as ih =>
    simp only [runBody, List.foldl_cons]
    split
    · exact ih _
    · exact (hrec fr s a).trans (ih _)

theorem enterHandler_trace (r : Reg) (ty v root op d : Nat) (async : Bool) (s : St R) :
    (enterHandler cfg r ty v root op d async s).1.c.trace = s.c.trace ++
      ((if cfg.obs then [Ev.obs d .hs s.c.nextObs op ty async] else []) ++
        [Ev.enter (d + 1) r.rid ty v (if r.ctxAware then some root else none) async]) := by
  cases h : cfg.obs <;> simp [enterHandler, h]

theorem enterHandler_fields (r : Reg) (ty v root op d : Nat) (async : Bool) (s : St R) :
    let s1 := (enterHandler cfg r ty v root op d async s).1
    s1.reg = s.reg ∧ s1.c.nextRid = s.c.nextRid ∧ s1.c.executed = s.c.executed ∧
    s1.c.cancelled = s.c.cancelled ∧ s1.c.nextCtx = s.c.nextCtx ∧ s1.c.pending = s.c.pending ∧
    s1.c.panicking = s.c.panicking := by
  cases h : cfg.obs <;> simp [enterHandler, h]

theorem enterHandler_Fr (r : Reg) (ty v root op d : Nat) (async : Bool) (s : St R) :
    Fr I true d s (enterHandler cfg r ty v root op d async s).1 := by
  obtain ⟨h1, h2, h3, h4, h5, h6, _⟩ := enterHandler_fields cfg r ty v root op d async s
  refine Fr.quiet h1 h2 h3 h4 h5 h6 ⟨_, enterHandler_trace cfg r ty v root op d async s, ?_⟩
  refine all_append (all_ite _ _ ?_) (all_single _ ?_) <;> simp [TagOK, Ev.depth, isEnter, isExit]

/-- the events of the handler body -/
theorem bodyResult_body (hrec : RecOK I rec) (r : Reg) (ty v root op d : Nat) (async : Bool) (s : St R) :
    Fr I true (d + 1) (enterHandler cfg r ty v root op d async s).1
      (bodyResult cfg rec r ty v root op d async s) := by
  have := runBody_Fr I rec hrec
    { depth := d + 1, root := root, obs := (enterHandler cfg r ty v root op d async s).2, ctxAware := r.ctxAware }
    (cfg.bodies.getD r.body []) (enterHandler cfg r ty v root op d async s).1
  simpa [bodyResult] using this

theorem bodyResult_Fr (hrec : RecOK I rec) (r : Reg) (ty v root op d : Nat) (async : Bool) (s : St R) :
    Fr I true d s (bodyResult cfg rec r ty v root op d async s) :=
  (enterHandler_Fr I cfg r ty v root op d async s).trans
    ((bodyResult_body I cfg rec hrec r ty v root op d async s).mono (Nat.le_succ d) id)

/-- the events `callHandler` appends after the body -/
def chTail (cfg : Config) (r : Reg) (ty v d hid : Nat) (pv : Option Nat) : List Ev :=
  [Ev.exit (d + 1) r.rid] ++
  (match pv with
    | some val => if cfg.panicH then [Ev.panich d r.ctxAware ty v val] else []
    | none => []) ++
  (if cfg.obs then [Ev.obs d .hc hid 0 ty pv.isSome] else [])

theorem callHandler_spec (r : Reg) (ty v root op d : Nat) (async : Bool) (s : St R) :
    let sb := bodyResult cfg rec r ty v root op d async s
    let s' := callHandler cfg rec r ty v root op d async s
    s'.reg = sb.reg ∧ s'.c.nextRid = sb.c.nextRid ∧ s'.c.executed = sb.c.executed ∧
    s'.c.cancelled = sb.c.cancelled ∧ s'.c.nextCtx = sb.c.nextCtx ∧ s'.c.pending = sb.c.pending ∧
    s'.c.panicking = none ∧
    s'.c.trace = sb.c.trace ++ chTail cfg r ty v d s.c.nextObs sb.c.panicking := by
  intro sb s'
  simp only [s', callHandler]
  cases h : (bodyResult cfg rec r ty v root op d async s).c.panicking <;>
    simp [sb, chTail, h]

theorem chTail_tag (r : Reg) (ty v d hid : Nat) (pv : Option Nat) :
    ∀ e ∈ chTail cfg r ty v d hid pv, TagOK d e := by
  unfold chTail
  refine all_append (all_append (all_single _ ?_) ?_) (all_ite _ _ ?_)
  · simp [TagOK, Ev.depth, isEnter, isExit]
  · cases pv
    · simp
    · exact all_ite _ _ (by simp [TagOK, Ev.depth, isEnter, isExit])
  · simp [TagOK, Ev.depth, isEnter, isExit]

theorem callHandler_Fr (hrec : RecOK I rec) (r : Reg) (ty v root op d : Nat) (async : Bool) (s : St R) :
    Fr I true d s (callHandler cfg rec r ty v root op d async s) := by
  obtain ⟨h1, h2, h3, h4, h5, h6, _, h8⟩ := callHandler_spec cfg rec r ty v root op d async s
  exact (bodyResult_Fr I cfg rec hrec r ty v root op d async s).trans
    (Fr.quiet h1 h2 h3 h4 h5 h6 ⟨_, h8, chTail_tag cfg r ty v d _ _⟩)

/-- what an invocation parks was parked by the handler body, one level deeper -/
theorem callHandler_pending (hrec : RecOK I rec) (r : Reg) (ty v root op d : Nat) (async : Bool) (s : St R) :
    ∃ p, (callHandler cfg rec r ty v root op d async s).c.pending = s.c.pending ++ p ∧
      ∀ q ∈ p, d + 1 ≤ q.depth := by
  obtain ⟨_, _, _, _, _, h6, _, _⟩ := callHandler_spec cfg rec r ty v root op d async s
  obtain ⟨_, _, _, _, _, g6, _⟩ := enterHandler_fields cfg r ty v root op d async s
  obtain ⟨p, hp, hq⟩ := (bodyResult_body I cfg rec hrec r ty v root op d async s).pd rfl
  exact ⟨p, by rw [h6, hp, g6], hq⟩

end chain
/-! ### one iteration of the dispatch loop -/

section deliver
variable {R : Type} (I : RegImpl R) (cfg : Config) (rec : Frame → St R → Action → St R)

def filtEv (d v : Nat) (r : Reg) : List Ev :=
  match r.filt with
  | some _ => [Ev.filt d r.rid v (r.accepts v)]
  | none => []

/-- the filter of `r`, evaluated by a publish with context `root`, cancels that context -/
def cancelsAt (r : Reg) (root : Nat) : Bool := r.filt.isSome && r.filtCancels && root != 0

@[simp] theorem cancelsAt_zero (r : Reg) : cancelsAt r 0 = false := by simp [cancelsAt]

/-- the filter phase of `deliver`: the `filt` event, then the cancellation a filter may perform -/
def dFilt (d v root : Nat) (r : Reg) (s : St R) : St R :=
  let s1 : St R := match r.filt with
    | some _ => { s with c := s.c.emit (.filt d r.rid v (r.accepts v)) }
    | none => s
  if r.filt.isSome && r.filtCancels then cancelRoot root s1 else s1

def dClaim (r : Reg) (s : St R) : St R :=
  if r.once then { s with c := { s.c with executed := r.rid :: s.c.executed } } else s

def dClaimed (r : Reg) (claimed : List Reg) : List Reg := if r.once then claimed ++ [r] else claimed

def dPark (p : Pending) (s : St R) : St R := { s with c := { s.c with pending := s.c.pending ++ [p] } }

theorem dFilt_fields (d v root : Nat) (r : Reg) (s : St R) :
    (dFilt d v root r s).reg = s.reg ∧ (dFilt d v root r s).c.nextRid = s.c.nextRid ∧
    (dFilt d v root r s).c.executed = s.c.executed ∧
    (dFilt d v root r s).c.cancelled = (if cancelsAt r root then root :: s.c.cancelled else s.c.cancelled) ∧
    (dFilt d v root r s).c.nextCtx = s.c.nextCtx ∧ (dFilt d v root r s).c.pending = s.c.pending ∧
    (dFilt d v root r s).c.panicking = s.c.panicking ∧
    (dFilt d v root r s).c.trace = s.c.trace ++ filtEv d v r := by
  unfold dFilt filtEv cancelsAt cancelRoot
  cases hf : r.filt <;> cases hc : r.filtCancels <;> by_cases h0 : root = 0 <;> simp [h0]

/-- the filter phase keeps a dead context dead, and kills a live one iff the filter cancels it -/
theorem dFilt_live (d v root : Nat) (r : Reg) (s : St R) :
    (dFilt d v root r s).c.live root = (s.c.live root && !cancelsAt r root) := by
  rw [Core.live, (dFilt_fields d v root r s).2.2.2.1]
  cases cancelsAt r root <;> simp [Core.live]

theorem dFilt_inv0 (d v root : Nat) (r : Reg) (s : St R) (h : Inv0 s.c) : Inv0 (dFilt d v root r s).c := by
  obtain ⟨_, _, _, h4, h5, _⟩ := dFilt_fields d v root r s
  refine ⟨?_, by rw [h5]; exact h.2⟩
  rw [h4]
  cases hc : cancelsAt r root
  · simpa using h.1
  · have hr : root ≠ 0 := by
      intro h0; subst h0; simp at hc
    simp only [if_true, List.mem_cons, not_or]
    exact ⟨fun h0 => hr h0.symm, h.1⟩

theorem filtEv_plain (d v : Nat) (r : Reg) : ∀ e ∈ filtEv d v r, e.depth = d ∧ plain e = true := by
  unfold filtEv
  split <;> simp [Ev.depth, plain]

theorem dClaim_fields (r : Reg) (s : St R) :
    (dClaim r s).reg = s.reg ∧ (dClaim r s).c.nextRid = s.c.nextRid ∧
    (dClaim r s).c.executed = (if r.once then r.rid :: s.c.executed else s.c.executed) ∧
    (dClaim r s).c.cancelled = s.c.cancelled ∧
    (dClaim r s).c.nextCtx = s.c.nextCtx ∧ (dClaim r s).c.pending = s.c.pending ∧
    (dClaim r s).c.panicking = s.c.panicking ∧
    (dClaim r s).c.trace = s.c.trace := by
  unfold dClaim
  split <;> simp [*]

theorem deliver_cases' (ty v root obs d : Nat) (s : St R) (claimed : List Reg) (r : Reg) :
    let out := deliver cfg rec ty v root obs d (s, claimed) r
    ((r.accepts v = false ∨ (s.c.live root = false ∨ cancelsAt r root = true) ∨
        (r.once = true ∧ r.rid ∈ s.c.executed)) ∧
      out = (dFilt d v root r s, claimed)) ∨
    (r.accepts v = true ∧ (s.c.live root = true ∧ cancelsAt r root = false) ∧
      ¬ (r.once = true ∧ r.rid ∈ s.c.executed) ∧
      ((r.async = true ∧
        out = (dPark ⟨r, ty, v, root, obs, d⟩ (dClaim r (dFilt d v root r s)), dClaimed r claimed)) ∨
       (r.async = false ∧
        out = (callHandler cfg rec r ty v root obs d false (dClaim r (dFilt d v root r s)), dClaimed r claimed)))) := by
  intro out
  obtain ⟨_, _, hex, _, _, _, _, _⟩ := dFilt_fields d v root r s
  have hlive := dFilt_live d v root r s
  obtain ⟨_, _, _, hcan2, _, _, _, _⟩ := dClaim_fields r (dFilt d v root r s)
  have hlive2 : (dClaim r (dFilt d v root r s)).c.live root = (s.c.live root && !cancelsAt r root) := by
    rw [← hlive]; simp [Core.live, hcan2]
  have hout : out = deliver cfg rec ty v root obs d (s, claimed) r := rfl
  simp only [deliver] at hout
  change out = (if (!r.accepts v) = true then (dFilt d v root r s, claimed)
    else if (!(dFilt d v root r s).c.live root) = true then (dFilt d v root r s, claimed)
    else if (r.once && (dFilt d v root r s).c.executed.contains r.rid) = true then (dFilt d v root r s, claimed)
    else if r.async = true then (dPark ⟨r, ty, v, root, obs, d⟩ (dClaim r (dFilt d v root r s)), dClaimed r claimed)
    else if (!(dClaim r (dFilt d v root r s)).c.live root) = true then (dClaim r (dFilt d v root r s), dClaimed r claimed)
    else (callHandler cfg rec r ty v root obs d false (dClaim r (dFilt d v root r s)), dClaimed r claimed)) at hout
  rw [hlive, hlive2, hex] at hout
  cases ha : r.accepts v <;> cases hl : s.c.live root <;> cases hk : cancelsAt r root <;>
    simp [ha, hl, hk] at hout ⊢
  · exact hout
  · exact hout
  · exact hout
  · exact hout
  · exact hout
  · exact hout
  · by_cases hc : r.once = true ∧ r.rid ∈ s.c.executed
    · left
      simp [hc] at hout ⊢
      exact hout
    · right
      refine ⟨fun h1 h2 => hc ⟨h1, h2⟩, ?_⟩
      have hc' : ¬ (r.once = true ∧ r.rid ∈ s.c.executed) := hc
      simp only [hc', if_false] at hout
      cases hasy : r.async <;> simp [hasy] at hout ⊢ <;> exact hout
  · exact hout

theorem deliver_cases (ty v root obs d : Nat) (s : St R) (claimed : List Reg) (r : Reg) :
    ((r.accepts v = false ∨ (s.c.live root = false ∨ cancelsAt r root = true) ∨
        (r.once = true ∧ r.rid ∈ s.c.executed)) ∧
      deliver cfg rec ty v root obs d (s, claimed) r = (dFilt d v root r s, claimed)) ∨
    (r.accepts v = true ∧ (s.c.live root = true ∧ cancelsAt r root = false) ∧
      ¬ (r.once = true ∧ r.rid ∈ s.c.executed) ∧
      ((r.async = true ∧ deliver cfg rec ty v root obs d (s, claimed) r =
          (dPark ⟨r, ty, v, root, obs, d⟩ (dClaim r (dFilt d v root r s)), dClaimed r claimed)) ∨
       (r.async = false ∧ deliver cfg rec ty v root obs d (s, claimed) r =
          (callHandler cfg rec r ty v root obs d false (dClaim r (dFilt d v root r s)), dClaimed r claimed)))) :=
  deliver_cases' cfg rec ty v root obs d s claimed r

end deliver
section loop
variable {R : Type} (I : RegImpl R) (cfg : Config) (rec : Frame → St R → Action → St R)

theorem dFilt_Fr (d v root : Nat) (r : Reg) (s : St R) : Fr I true d s (dFilt d v root r s) := by
  obtain ⟨h1, h2, h3, _, _, h6, _, h8⟩ := dFilt_fields d v root r s
  exact Fr.quiet' h1 h2 h3 (dFilt_inv0 d v root r s) h6 ⟨_, h8, fun e he =>
    TagOK.of_plain (by rw [(filtEv_plain d v r e he).1]; exact Nat.le_refl _) (filtEv_plain d v r e he).2⟩

theorem dClaim_Fr0 (d : Nat) (r : Reg) (s : St R) : Fr0 I true d s (dClaim r s) := by
  obtain ⟨h1, h2, h3, h4, h5, h6, _, h8⟩ := dClaim_fields r s
  exact Fr0.of_core h1 h2 (by rw [h3]; split <;> simp_all) (by simp [Inv0, h4, h5])
    ⟨[], by simp [h6], by simp⟩ ⟨[], by simp [h8], by simp⟩

theorem dPark_Fr (d : Nat) (p : Pending) (hp : d ≤ p.depth) (s : St R) : Fr I true d s (dPark p s) :=
  Fr.of_sub (fun _ t => List.Sublist.refl _) rfl rfl (fun h => h) (fun _ => ⟨[p], rfl, by simp [hp]⟩)
    ⟨[], by simp [dPark], by simp⟩

theorem deliver_Fr0 (hrec : RecOK I rec) (ty v root obs d : Nat) (s : St R) (claimed : List Reg) (r : Reg) :
    Fr0 I true d s (deliver cfg rec ty v root obs d (s, claimed) r).1 := by
  rcases deliver_cases cfg rec ty v root obs d s claimed r with ⟨_, h⟩ | ⟨_, _, _, ⟨_, h⟩ | ⟨_, h⟩⟩ <;> rw [h]
  · exact (dFilt_Fr I d v root r s).toFr0
  · exact (dFilt_Fr I d v root r s).toFr0.trans ((dClaim_Fr0 I d r _).trans
      (dPark_Fr I d _ (Nat.le_refl _) _).toFr0)
  · exact (dFilt_Fr I d v root r s).toFr0.trans ((dClaim_Fr0 I d r _).trans
      (callHandler_Fr I cfg rec hrec r ty v root obs d false _).toFr0)

theorem loop_Fr0 (hrec : RecOK I rec) (ty v root obs d : Nat) (l : List Reg) (s : St R) (claimed : List Reg) :
    Fr0 I true d s (l.foldl (deliver cfg rec ty v root obs d) (s, claimed)).1 := by
  induction l generalizing s claimed with
  | nil => exact Fr0.refl
  | cons r l ih =>
    rw [List.foldl_cons]
    have h1 := deliver_Fr0 I cfg rec hrec ty v root obs d s claimed r
    generalize deliver cfg rec ty v root obs d (s, claimed) r = out at *
    obtain ⟨s1, c1⟩ := out
    exact h1.trans (ih s1 c1)

theorem dClaim_Q (C : List Nat) (claimed : List Reg) (r : Reg) (s : St R) (hr : r.rid < s.c.nextRid)
    (h : Q I s (C ++ claimed.map (·.rid))) : Q I (dClaim r s) (C ++ (dClaimed r claimed).map (·.rid)) := by
  unfold dClaim dClaimed
  cases ho : r.once
  · simpa using h
  · refine ⟨fun t r' hr' ho' he => ?_, fun x hx => ?_⟩
    · simp at he ⊢
      rcases he with he | he
      · exact Or.inr (Or.inr he)
      · have := h.1 t r' hr' ho' he
        simp at this
        rcases this with h | h
        · exact Or.inl h
        · exact Or.inr (Or.inl h)
    · simp at hx ⊢
      rcases hx with hx | hx
      · omega
      · exact h.2 x hx

theorem deliver_Q (hI : I.Lawful) (hrec : RecOK I rec) (ty v root obs d : Nat) (C : List Nat) (s : St R)
    (claimed : List Reg) (r : Reg) (hwf : WF I s) (hg : WFG I s) (hr : r.rid < s.c.nextRid)
    (h : Q I s (C ++ claimed.map (·.rid))) :
    Q I (deliver cfg rec ty v root obs d (s, claimed) r).1
      (C ++ (deliver cfg rec ty v root obs d (s, claimed) r).2.map (·.rid)) ∧
    ∀ c ∈ (deliver cfg rec ty v root obs d (s, claimed) r).2, c ∈ claimed ∨ c = r := by
  have hF := dFilt_Fr I d v root r s
  have hmem : ∀ c ∈ dClaimed r claimed, c ∈ claimed ∨ c = r := by
    unfold dClaimed; split
    · simp
    · exact fun c hc => Or.inl hc
  have hC := dClaim_Fr0 I d r (dFilt d v root r s)
  have hwf1 := hF.wf hI hwf
  have hg1 := hF.wfg hI hwf hg
  have hq2 := dClaim_Q I C claimed r (dFilt d v root r s) (by have := hF.nr; omega) (hF.q hI hwf hg _ h)
  rcases deliver_cases cfg rec ty v root obs d s claimed r with ⟨_, h'⟩ | ⟨_, _, _, ⟨_, h'⟩ | ⟨_, h'⟩⟩ <;> rw [h']
  · exact ⟨hF.q hI hwf hg _ h, fun c hc => Or.inl hc⟩
  · exact ⟨(dPark_Fr I d _ (Nat.le_refl _) _).q hI (hC.wf hI hwf1) (hC.wfg hI hwf1 hg1) _ hq2, hmem⟩
  · exact ⟨(callHandler_Fr I cfg rec hrec r ty v root obs d false _).q hI (hC.wf hI hwf1) (hC.wfg hI hwf1 hg1) _ hq2,
      hmem⟩

theorem loop_Q (hI : I.Lawful) (hrec : RecOK I rec) (ty v root obs d : Nat) (C : List Nat) (l : List Reg)
    (s : St R) (claimed : List Reg) (hwf : WF I s) (hg : WFG I s) (hl : ∀ r ∈ l, r.rid < s.c.nextRid)
    (h : Q I s (C ++ claimed.map (·.rid))) :
    Q I (l.foldl (deliver cfg rec ty v root obs d) (s, claimed)).1
      (C ++ (l.foldl (deliver cfg rec ty v root obs d) (s, claimed)).2.map (·.rid)) ∧
    ∀ c ∈ (l.foldl (deliver cfg rec ty v root obs d) (s, claimed)).2, c ∈ claimed ∨ c ∈ l := by
  induction l generalizing s claimed with
  | nil => exact ⟨h, fun c hc => Or.inl hc⟩
  | cons r l ih =>
    rw [List.foldl_cons]
    have h1 := deliver_Fr0 I cfg rec hrec ty v root obs d s claimed r
    have h2 := deliver_Q I cfg rec hI hrec ty v root obs d C s claimed r hwf hg (hl r (by simp)) h
    generalize deliver cfg rec ty v root obs d (s, claimed) r = out at *
    obtain ⟨s1, c1⟩ := out
    have := ih s1 c1 (h1.wf hI hwf) (h1.wfg hI hwf hg)
      (fun r' hr' => by have := hl r' (by simp [hr']); have hn : s.c.nextRid ≤ s1.c.nextRid := h1.nr; omega) h2.1
    refine ⟨this.1, fun c hc => ?_⟩
    rcases this.2 c hc with h | h
    · rcases h2.2 c h with h | h
      · exact Or.inl h
      · exact Or.inr (by simp [h])
    · exact Or.inr (by simp [h])

end loop
/-! ### `eraseFirst`, `retire` -/

theorem eraseFirst_sublist (p : Reg → Bool) (l : List Reg) : (eraseFirst p l).Sublist l := by
  induction l with
  | nil => exact List.Sublist.refl _
  | cons r rs ih =>
    simp only [eraseFirst]
    split
    · exact List.sublist_cons_self r rs
    · exact ih.cons_cons r

theorem retire_sublist (claimed hs : List Reg) : (retire claimed hs).Sublist hs := by
  induction claimed generalizing hs with
  | nil => exact List.Sublist.refl _
  | cons c cs ih =>
    simp only [retire, List.foldl_cons]
    exact (ih _).trans (eraseFirst_sublist _ _)

theorem eraseFirst_nodup (x : Nat) (l : List Reg) (hn : (l.map (·.rid)).Nodup) :
    ∀ r ∈ eraseFirst (fun h => h.rid == x) l, r.rid ≠ x := by
  induction l with
  | nil => simp [eraseFirst]
  | cons a as ih =>
    simp only [List.map_cons, List.nodup_cons] at hn
    simp only [eraseFirst]
    split
    · rename_i hax
      have hax : a.rid = x := by simpa using hax
      intro r hr heq
      exact hn.1 (List.mem_map.2 ⟨r, hr, by rw [heq, hax]⟩)
    · rename_i hax
      intro r hr
      rcases List.mem_cons.1 hr with h | h
      · subst h; simpa using hax
      · exact ih hn.2 r h

theorem retire_not_mem (claimed hs : List Reg) (hn : (hs.map (·.rid)).Nodup) (c : Reg) (hc : c ∈ claimed) :
    ∀ r ∈ retire claimed hs, r.rid ≠ c.rid := by
  induction claimed generalizing hs with
  | nil => simp at hc
  | cons a as ih =>
    simp only [retire, List.foldl_cons]
    have hsub := eraseFirst_sublist (fun h => h.rid == a.rid) hs
    have hn' := (hsub.map (·.rid)).nodup hn
    rcases List.mem_cons.1 hc with h | h
    · subst h
      intro r hr
      exact eraseFirst_nodup c.rid hs hn r ((retire_sublist as _).mem hr)
    · exact ih _ hn' h

/-! ### the parts of `publish` -/

section pub
variable {R : Type} (I : RegImpl R) (cfg : Config) (rec : Frame → St R → Action → St R)

/-- the context handed to PublishContext: (root, obs0, state) -/
def pubCtx (fr : Frame) (sel : CtxSel) (s : St R) : Nat × Nat × St R :=
  match sel with
  | .bg => (0, 0, s)
  | .fresh => (s.c.nextCtx, 0, { s with c := { s.c with nextCtx := s.c.nextCtx + 1 } })
  | .dead => (s.c.nextCtx, 0, { s with c := { s.c with nextCtx := s.c.nextCtx + 1, cancelled := s.c.nextCtx :: s.c.cancelled } })
  | .inherit => if fr.ctxAware then (fr.root, fr.obs, s) else (0, 0, s)

/-- OnPublishStart: (obs, state) -/
def pubStart (d ty obs0 : Nat) (s : St R) : Nat × St R :=
  (if cfg.obs then s.c.nextObs else obs0,
   if cfg.obs then { s with c := { s.c.emit (.obs d .ps s.c.nextObs obs0 ty false) with nextObs := s.c.nextObs + 1 } } else s)

/-- before hooks and persistence -/
def pubBefore (d ty v : Nat) (bad : Bool) (obs : Nat) (s : St R) : St R :=
  let s := { s with c := emitIf cfg.hookBL s.c (.hook d .bl ty v) }
  let s := { s with c := emitIf cfg.hookBC s.c (.hook d .bc ty v) }
  { s with c := persist cfg d ty v bad obs s.c }

def pubRoot (fr : Frame) (sel : CtxSel) (s : St R) : Nat := (pubCtx fr sel s).1
def pubObs (fr : Frame) (ty : Nat) (sel : CtxSel) (s : St R) : Nat :=
  (pubStart cfg fr.depth ty (pubCtx fr sel s).2.1 (pubCtx fr sel s).2.2).1
/-- the state at the snapshot -/
def pubS0 (fr : Frame) (ty v : Nat) (bad : Bool) (sel : CtxSel) (s : St R) : St R :=
  pubBefore cfg fr.depth ty v bad (pubObs cfg fr ty sel s)
    (pubStart cfg fr.depth ty (pubCtx fr sel s).2.1 (pubCtx fr sel s).2.2).2

/-- the part of `publish` after the dispatch loop -/
def pubTail (d ty v pid : Nat) (p : St R × List Reg) : St R :=
  let (s, claimed) := p
  let s := if claimed.isEmpty then s else { s with reg := I.set s.reg ty (retire claimed (I.get s.reg ty)) }
  let s := { s with c := emitIf cfg.hookAL s.c (.hook d .al ty v) }
  let s := { s with c := emitIf cfg.hookAC s.c (.hook d .ac ty v) }
  { s with c := emitIf cfg.obs s.c (.obs d .pc pid 0 ty false) }

theorem publish_eq (fr : Frame) (ty v : Nat) (bad : Bool) (sel : CtxSel) (s : St R) :
    publish I cfg rec fr ty v bad sel s =
      pubTail I cfg fr.depth ty v (pubCtx fr sel s).2.2.c.nextObs
        ((I.get (pubS0 cfg fr ty v bad sel s).reg ty).foldl
          (deliver cfg rec ty v (pubRoot fr sel s) (pubObs cfg fr ty sel s) fr.depth)
          (pubS0 cfg fr ty v bad sel s, [])) := by
  rfl

def hookL (b : Bool) (d : Nat) (k : HookKind) (ty v : Nat) : List Ev := if b then [Ev.hook d k ty v] else []

theorem pubCtx_spec (fr : Frame) (sel : CtxSel) (s : St R) :
    let s1 := (pubCtx fr sel s).2.2
    s1.reg = s.reg ∧ s1.c.nextRid = s.c.nextRid ∧ s1.c.executed = s.c.executed ∧ s1.c.pending = s.c.pending ∧
    s1.c.panicking = s.c.panicking ∧ s1.c.trace = s.c.trace ∧ (Inv0 s.c → Inv0 s1.c) ∧
    (sel = .dead → s1.c.live (pubCtx fr sel s).1 = false) ∧
    (sel = .bg → (pubCtx fr sel s).1 = 0) := by
  cases sel
  · simp [pubCtx]
  · simp [pubCtx, Inv0]
    intro h1 h2; omega
  · simp [pubCtx, Inv0, Core.live]
    intro h1 h2
    exact ⟨by omega, h1⟩
  · simp only [pubCtx]
    split <;> simp

theorem pubStart_spec (d ty obs0 : Nat) (s : St R) :
    let s1 := (pubStart cfg d ty obs0 s).2
    s1.reg = s.reg ∧ s1.c.nextRid = s.c.nextRid ∧ s1.c.executed = s.c.executed ∧ s1.c.pending = s.c.pending ∧
    s1.c.panicking = s.c.panicking ∧ s1.c.cancelled = s.c.cancelled ∧ s1.c.nextCtx = s.c.nextCtx ∧
    s1.c.trace = s.c.trace ++ (if cfg.obs then [Ev.obs d .ps s.c.nextObs obs0 ty false] else []) := by
  cases h : cfg.obs <;> simp [pubStart, h]

theorem pubBefore_spec (d ty v : Nat) (bad : Bool) (obs : Nat) (s : St R) :
    let s1 := pubBefore cfg d ty v bad obs s
    s1.reg = s.reg ∧ s1.c.nextRid = s.c.nextRid ∧ s1.c.executed = s.c.executed ∧ s1.c.pending = s.c.pending ∧
    s1.c.panicking = s.c.panicking ∧ s1.c.cancelled = s.c.cancelled ∧ s1.c.nextCtx = s.c.nextCtx ∧
    ∃ pe, s1.c.trace = s.c.trace ++ (hookL cfg.hookBL d .bl ty v ++ hookL cfg.hookBC d .bc ty v ++ pe) ∧
      ∀ e ∈ pe, e.depth = d ∧ plain e = true := by
  refine ⟨rfl, by simp [pubBefore], by simp [pubBefore], by simp [pubBefore], by simp [pubBefore],
    by simp [pubBefore], by simp [pubBefore],
    persistEvs cfg d ty v bad obs (emitIf cfg.hookBC (emitIf cfg.hookBL s.c (.hook d .bl ty v)) (.hook d .bc ty v)),
    ?_, persistEvs_plain cfg d ty v bad obs _⟩
  simp [pubBefore, persist_trace, hookL]

end pub
section pub2
variable {R : Type} (I : RegImpl R) (cfg : Config) (rec : Frame → St R → Action → St R)

theorem plain_all_tag {d : Nat} {l : List Ev} (h : ∀ e ∈ l, e.depth = d ∧ plain e = true) : ∀ e ∈ l, TagOK d e :=
  fun e he => TagOK.of_plain (by rw [(h e he).1]; exact Nat.le_refl _) (h e he).2

theorem hookL_tag (b : Bool) (d : Nat) (k : HookKind) (ty v : Nat) : ∀ e ∈ hookL b d k ty v, TagOK d e := by
  unfold hookL
  exact all_ite _ _ (by simp [TagOK, Ev.depth, isEnter, isExit])

theorem pubS0_spec (fr : Frame) (ty v : Nat) (bad : Bool) (sel : CtxSel) (s : St R) :
    let s0 := pubS0 cfg fr ty v bad sel s
    s0.reg = s.reg ∧ s0.c.nextRid = s.c.nextRid ∧ s0.c.executed = s.c.executed ∧ s0.c.pending = s.c.pending ∧
    s0.c.panicking = s.c.panicking ∧ (Inv0 s.c → Inv0 s0.c) ∧
    (sel = .dead → s0.c.live (pubRoot fr sel s) = false) ∧
    (sel = .bg → pubRoot fr sel s = 0) ∧
    ∃ o1 pe, s0.c.trace = s.c.trace ++
        (o1 ++ (hookL cfg.hookBL fr.depth .bl ty v ++ hookL cfg.hookBC fr.depth .bc ty v ++ pe)) ∧
      (∀ e ∈ o1, e.depth = fr.depth ∧ plain e = true) ∧ (∀ e ∈ pe, e.depth = fr.depth ∧ plain e = true) := by
  obtain ⟨a1, a2, a3, a4, a5, a6, a7, a8, a9⟩ := pubCtx_spec fr sel s
  obtain ⟨b1, b2, b3, b4, b5, b6, b7, b8⟩ :=
    pubStart_spec cfg fr.depth ty (pubCtx fr sel s).2.1 (pubCtx fr sel s).2.2
  obtain ⟨c1, c2, c3, c4, c5, c6, c7, pe, c8, c9⟩ := pubBefore_spec cfg fr.depth ty v bad (pubObs cfg fr ty sel s)
    (pubStart cfg fr.depth ty (pubCtx fr sel s).2.1 (pubCtx fr sel s).2.2).2
  refine ⟨c1.trans (b1.trans a1), c2.trans (b2.trans a2), c3.trans (b3.trans a3), c4.trans (b4.trans a4),
    c5.trans (b5.trans a5), ?_, ?_, a9,
    (if cfg.obs then [Ev.obs fr.depth .ps (pubCtx fr sel s).2.2.c.nextObs (pubCtx fr sel s).2.1 ty false] else []),
    pe, ?_, ?_, c9⟩
  · intro h
    have := a7 h
    simpa [Inv0, pubS0, c6, c7, b6, b7] using this
  · intro h
    have := a8 h
    simpa [Core.live, pubS0, pubRoot, c6, b6] using this
  · show (pubBefore _ _ _ _ _ _ _).c.trace = _
    rw [c8, b8, a6, List.append_assoc]
  · exact all_ite _ _ (by simp [Ev.depth, plain])

theorem pubS0_Fr (fr : Frame) (ty v : Nat) (bad : Bool) (sel : CtxSel) (s : St R) :
    Fr I true fr.depth s (pubS0 cfg fr ty v bad sel s) := by
  obtain ⟨h1, h2, h3, h4, _, h6, _, _, o1, pe, h7, h8, h9⟩ := pubS0_spec cfg fr ty v bad sel s
  exact Fr.quiet' h1 h2 h3 h6 h4 ⟨_, h7, all_append (plain_all_tag h8)
    (all_append (all_append (hookL_tag _ _ _ _ _) (hookL_tag _ _ _ _ _)) (plain_all_tag h9))⟩

def tailEvs (cfg : Config) (d ty v pid : Nat) : List Ev :=
  hookL cfg.hookAL d .al ty v ++ hookL cfg.hookAC d .ac ty v ++
    (if cfg.obs then [Ev.obs d .pc pid 0 ty false] else [])

theorem pubTail_spec (d ty v pid : Nat) (s1 : St R) (claimed : List Reg) :
    let s2 := pubTail I cfg d ty v pid (s1, claimed)
    s2.c.nextRid = s1.c.nextRid ∧ s2.c.executed = s1.c.executed ∧ s2.c.cancelled = s1.c.cancelled ∧
    s2.c.nextCtx = s1.c.nextCtx ∧ s2.c.pending = s1.c.pending ∧ s2.c.panicking = s1.c.panicking ∧
    s2.c.trace = s1.c.trace ++ tailEvs cfg d ty v pid ∧
    s2.reg = (if claimed.isEmpty then s1.reg else I.set s1.reg ty (retire claimed (I.get s1.reg ty))) := by
  cases h : claimed.isEmpty <;> simp [pubTail, h, tailEvs, hookL]

theorem tailEvs_tag (d ty v pid : Nat) : ∀ e ∈ tailEvs cfg d ty v pid, TagOK d e := by
  unfold tailEvs
  exact all_append (all_append (hookL_tag _ _ _ _ _) (hookL_tag _ _ _ _ _))
    (all_ite _ _ (by simp [TagOK, Ev.depth, isEnter, isExit]))

theorem pubTail_sub (hI : I.Lawful) (d ty v pid : Nat) (s1 : St R) (claimed : List Reg) (t : Nat) :
    (I.get (pubTail I cfg d ty v pid (s1, claimed)).reg t).Sublist (I.get s1.reg t) := by
  rw [(pubTail_spec I cfg d ty v pid s1 claimed).2.2.2.2.2.2.2]
  split
  · exact List.Sublist.refl _
  · rw [hI.get_set]
    split
    · rename_i h; subst h; exact retire_sublist _ _
    · exact List.Sublist.refl _

theorem pubTail_Fr (d ty v pid : Nat) (s1 : St R) (claimed : List Reg) :
    Fr I true d s1 (pubTail I cfg d ty v pid (s1, claimed)) := by
  obtain ⟨h1, h2, h3, h4, h5, _, h7, _⟩ := pubTail_spec I cfg d ty v pid s1 claimed
  exact Fr.of_sub (fun hI t => pubTail_sub I cfg hI d ty v pid s1 claimed t) h1 h2 (by simp [Inv0, h3, h4])
    (fun _ => ⟨[], by simp [h5], by simp⟩) ⟨_, h7, tailEvs_tag cfg d ty v pid⟩

theorem pubTail_Q (hI : I.Lawful) (d ty v pid : Nat) (C : List Nat) (s1 : St R) (claimed : List Reg)
    (hwf : WF I s1) (hst : ∀ c ∈ claimed, ∀ t, ∀ r ∈ I.get s1.reg t, r.rid = c.rid → t = ty)
    (h : Q I s1 (C ++ claimed.map (·.rid))) : Q I (pubTail I cfg d ty v pid (s1, claimed)) C := by
  obtain ⟨h1, h2, _, _, _, _, _, h8⟩ := pubTail_spec I cfg d ty v pid s1 claimed
  refine ⟨fun t r hr ho he => ?_, fun x hx => by rw [h1]; exact h.2 x (h2 ▸ hx)⟩
  have hr1 := (pubTail_sub I cfg hI d ty v pid s1 claimed t).mem hr
  have := h.1 t r hr1 ho (h2 ▸ he)
  rcases List.mem_append.1 this with hc | hc
  · exact hc
  · exfalso
    obtain ⟨c, hc, hcr⟩ := List.mem_map.1 hc
    have ht := hst c hc t r hr1 hcr.symm
    subst ht
    have hne : claimed.isEmpty = false := by cases claimed <;> simp_all
    rw [h8, hne] at hr
    simp only [Bool.false_eq_true, if_false, hI.get_set, if_true] at hr
    exact retire_not_mem claimed _ (hwf t).1 c hc r hr hcr.symm

theorem publish_Fr (hrec : RecOK I rec) (fr : Frame) (ty v : Nat) (bad : Bool) (sel : CtxSel) (s : St R) :
    Fr I true fr.depth s (publish I cfg rec fr ty v bad sel s) := by
  rw [publish_eq]
  have hS := pubS0_Fr I cfg fr ty v bad sel s
  have hL := loop_Fr0 I cfg rec hrec ty v (pubRoot fr sel s) (pubObs cfg fr ty sel s) fr.depth
    (I.get (pubS0 cfg fr ty v bad sel s).reg ty) (pubS0 cfg fr ty v bad sel s) []
  refine ⟨hS.toFr0.trans (hL.trans ?_), fun hI hwf hg C hq => ?_⟩
  · generalize List.foldl _ _ _ = out
    obtain ⟨s1, claimed⟩ := out
    exact (pubTail_Fr I cfg fr.depth ty v _ s1 claimed).toFr0
  · have hwf0 := hS.wf hI hwf
    have hg0 := hS.wfg hI hwf hg
    have hQ := loop_Q I cfg rec hI hrec ty v (pubRoot fr sel s) (pubObs cfg fr ty sel s) fr.depth C
      (I.get (pubS0 cfg fr ty v bad sel s).reg ty) (pubS0 cfg fr ty v bad sel s) [] hwf0 hg0
      (fun r hr => ((hwf0 ty).2 r hr).1) (by simpa using hS.q hI hwf hg C hq)
    have hwf1 := hL.wf hI hwf0
    have hstab := hL.stab hI
    generalize List.foldl _ _ _ = out at *
    obtain ⟨s1, claimed⟩ := out
    refine pubTail_Q I cfg hI fr.depth ty v _ C s1 claimed hwf1 (fun c hc t r hr heq => ?_) hQ.1
    have hc0 : c ∈ I.get (pubS0 cfg fr ty v bad sel s).reg ty := by
      rcases hQ.2 c hc with h | h
      · simp at h
      · exact h
    have hlt := ((hwf0 ty).2 c hc0).1
    rcases hstab t r hr with h | h
    · exact hg0 t ty r h c hc0 heq
    · omega

end pub2
/-! ### `step` and `exec` -/

section stepsec
variable {R : Type} (I : RegImpl R) (cfg : Config) (rec : Frame → St R → Action → St R)

theorem subscribe_Fr (b : Bool) (d : Nat) (s : St R) (rn : Reg) (ty : Nat) (hrid : rn.rid = s.c.nextRid)
    (hty : rn.ty = ty) :
    Fr I b d s { reg := I.set s.reg ty (I.get s.reg ty ++ [rn]), c := { s.c with nextRid := s.c.nextRid + 1 } } := by
  have hmem : I.Lawful → ∀ t, ∀ r ∈ I.get (I.set s.reg ty (I.get s.reg ty ++ [rn])) t,
      r ∈ I.get s.reg t ∨ (r = rn ∧ t = ty) := by
    intro hI t r hr
    rw [hI.get_set] at hr
    split at hr
    · rename_i h
      subst h
      rcases List.mem_append.1 hr with h | h
      · exact Or.inl h
      · exact Or.inr ⟨by simpa using h, rfl⟩
    · exact Or.inl hr
  refine ⟨⟨⟨[], by simp, by simp⟩, fun _ => ⟨[], by simp, by simp⟩, fun x h => h, fun h => h, by simp, ?_, ?_, ?_⟩, ?_⟩
  · intro hI t r hr
    rcases hmem hI t r hr with h | ⟨h, _⟩
    · exact Or.inl h
    · exact Or.inr (by rw [h, hrid]; exact Nat.le_refl _)
  · intro hI hwf t
    refine ⟨?_, fun r hr => ?_⟩
    · show (List.map (·.rid) (I.get (I.set s.reg ty (I.get s.reg ty ++ [rn])) t)).Nodup
      rw [hI.get_set]
      split
      · rename_i h
        subst h
        rw [List.map_append, List.nodup_append]
        refine ⟨(hwf t).1, by simp, fun a ha b hb => ?_⟩
        obtain ⟨r, hr, rfl⟩ := List.mem_map.1 ha
        have := ((hwf t).2 r hr).1
        simp at hb
        omega
      · exact (hwf t).1
    · rcases hmem hI t r hr with h | ⟨h, h'⟩
      · have := (hwf t).2 r h
        exact ⟨Nat.lt_succ_of_lt this.1, this.2⟩
      · subst h; subst h'
        exact ⟨by show r.rid < s.c.nextRid + 1; omega, hty⟩
  · intro hI hwf hg t t' r hr r' hr' heq
    rcases hmem hI t r hr with h | ⟨h, h2⟩ <;> rcases hmem hI t' r' hr' with h' | ⟨h', h2'⟩
    · exact hg t t' r h r' h' heq
    · have := ((hwf t).2 r h).1
      subst h'
      omega
    · have := ((hwf t').2 r' h').1
      subst h
      omega
    · rw [h2, h2']
  · intro hI hwf hg C hq
    refine ⟨fun t r hr ho he => ?_, fun x hx => Nat.lt_succ_of_lt (hq.2 x hx)⟩
    rcases hmem hI t r hr with h | ⟨h, _⟩
    · exact hq.1 t r h ho he
    · have := hq.2 _ he
      subst h
      omega

theorem emit_Fr (b : Bool) (d : Nat) (s : St R) (e : Ev) (he : TagOK d e) :
    Fr I b d s { s with c := s.c.emit e } :=
  Fr.quiet rfl rfl rfl rfl rfl rfl ⟨[e], by simp, by simp [he]⟩

theorem runPending_Fr (hrec : RecOK I rec) (p : Pending) (s : St R) :
    Fr I false 0 s (runPending cfg rec p s) := by
  unfold runPending
  split
  · exact Fr.refl
  · exact (callHandler_Fr I cfg rec hrec p.reg p.ty p.v p.root p.obs p.depth true s).mono (Nat.zero_le _) (by simp)

theorem step_Fr (hrec : RecOK I rec) : RecOK I (step I cfg rec) := by
  intro fr s a
  cases a with
  | subscribe ty hid once async seq filt body => exact subscribe_Fr I _ _ s _ ty rfl rfl
  | unsubscribe ty hid =>
    simp only [step]
    split
    · refine Fr.of_sub (fun hI t => ?_) rfl rfl (fun h => h) (fun _ => ⟨[], by simp, by simp⟩)
        ⟨[Ev.qUnsub fr.depth ty hid true], by simp, by simp [TagOK, Ev.depth, isEnter, isExit]⟩
      show (I.get (I.set s.reg ty _) t).Sublist _
      rw [hI.get_set]
      split
      · rename_i h; subst h; exact eraseFirst_sublist _ _
      · exact List.Sublist.refl _
    · exact emit_Fr I _ _ s _ (by simp [TagOK, Ev.depth, isEnter, isExit])
  | clear ty =>
    refine Fr.of_sub (fun hI t => ?_) rfl rfl (fun h => h) (fun _ => ⟨[], by simp [step], by simp⟩)
      ⟨[], by simp [step], by simp⟩
    show (I.get (I.set s.reg ty _) t).Sublist _
    rw [hI.get_set]
    split
    · exact List.nil_sublist _
    · exact List.Sublist.refl _
  | clearAll =>
    refine Fr.of_sub (fun hI t => ?_) rfl rfl (fun h => h) (fun _ => ⟨[], by simp [step], by simp⟩)
      ⟨[], by simp [step], by simp⟩
    show (I.get (I.clearAll s.reg) t).Sublist _
    rw [hI.get_clearAll]
    exact List.nil_sublist _
  | publish ty v bad sel =>
    simp only [step]
    split
    · exact emit_Fr I _ _ s _ (by simp [TagOK, Ev.depth, isEnter, isExit])
    · exact (publish_Fr I cfg rec hrec fr ty v bad sel s).mono (Nat.le_refl _) (fun _ => rfl)
  | cancel =>
    simp only [step]
    split
    · exact Fr.refl
    · rename_i h
      refine Fr.quiet' rfl rfl rfl ?_ rfl ⟨[], by simp, by simp⟩
      simp only [Inv0, List.mem_cons, not_or]
      exact fun h' => ⟨⟨fun h0 => h h0.symm, h'.1⟩, h'.2⟩
  | cancelId k =>
    simp only [step]
    split
    · exact Fr.refl
    · rename_i h
      refine Fr.quiet' rfl rfl rfl ?_ rfl ⟨[], by simp, by simp⟩
      simp only [Inv0, List.mem_cons, not_or]
      exact fun h' => ⟨⟨fun h0 => h (Or.inl h0.symm), h'.1⟩, h'.2⟩
  | panic val =>
    simp only [step]
    split
    · exact Fr.refl
    · exact Fr.quiet rfl rfl rfl rfl rfl rfl ⟨[], by simp, by simp⟩
  | has ty => exact emit_Fr I _ _ s _ (by simp [TagOK, Ev.depth, isEnter, isExit])
  | count ty => exact emit_Fr I _ _ s _ (by simp [TagOK, Ev.depth, isEnter, isExit])
  | readLog => exact emit_Fr I _ _ s _ (by simp [TagOK, Ev.depth, isEnter, isExit])
  | drain =>
    simp only [step]
    split
    · exact Fr.refl
    · rename_i hd
      have hd : fr.depth = 0 := by simpa using hd
      split
      · exact Fr.refl
      · rename_i p ps hp
        have hb : decide (1 ≤ fr.depth) = false := by simp [hd]
        rw [hb, hd]
        have h1 : Fr I false 0 s { s with c := { s.c with pending := ps } } :=
          Fr.of_sub (fun _ t => List.Sublist.refl _) rfl rfl (fun h => h) (by simp) ⟨[], by simp, by simp⟩
        have h3 := hrec fr (runPending cfg rec p { s with c := { s.c with pending := ps } }) .drain
        rw [hb, hd] at h3
        exact h1.trans ((runPending_Fr I cfg rec hrec p _).trans h3)

theorem exec_Fr (n : Nat) : RecOK I (exec I cfg n) := by
  induction n with
  | zero =>
    intro fr s a
    exact Fr.quiet rfl rfl rfl rfl rfl rfl ⟨[], by simp [exec], by simp⟩
  | succ n ih => exact step_Fr I cfg _ ih

end stepsec
/-! ### panics -/

section panics
variable {R : Type} (I : RegImpl R) (cfg : Config) (rec : Frame → St R → Action → St R)

theorem deliver_nopanic (ty v root obs d : Nat) (s : St R) (claimed : List Reg) (r : Reg)
    (h : s.c.panicking = none) : (deliver cfg rec ty v root obs d (s, claimed) r).1.c.panicking = none := by
  have h1 := (dFilt_fields d v root r s).2.2.2.2.2.2.1
  have h2 := (dClaim_fields r (dFilt d v root r s)).2.2.2.2.2.2.1
  rcases deliver_cases cfg rec ty v root obs d s claimed r with ⟨_, h'⟩ | ⟨_, _, _, ⟨_, h'⟩ | ⟨_, h'⟩⟩ <;> rw [h']
  · exact h1.trans h
  · exact h2.trans (h1.trans h)
  · exact (callHandler_spec cfg rec r ty v root obs d false _).2.2.2.2.2.2.1

theorem loop_nopanic (ty v root obs d : Nat) (l : List Reg) (s : St R) (claimed : List Reg)
    (h : s.c.panicking = none) :
    (l.foldl (deliver cfg rec ty v root obs d) (s, claimed)).1.c.panicking = none := by
  induction l generalizing s claimed with
  | nil => exact h
  | cons r l ih =>
    rw [List.foldl_cons]
    have h1 := deliver_nopanic cfg rec ty v root obs d s claimed r h
    generalize deliver cfg rec ty v root obs d (s, claimed) r = out at *
    obtain ⟨s1, c1⟩ := out
    exact ih s1 c1 h1

theorem publish_nopanic (fr : Frame) (ty v : Nat) (bad : Bool) (sel : CtxSel) (s : St R)
    (h : s.c.panicking = none) : (publish I cfg rec fr ty v bad sel s).c.panicking = none := by
  rw [publish_eq]
  have h0 := (pubS0_spec cfg fr ty v bad sel s).2.2.2.2.1
  have h1 := loop_nopanic cfg rec ty v (pubRoot fr sel s) (pubObs cfg fr ty sel s) fr.depth
    (I.get (pubS0 cfg fr ty v bad sel s).reg ty) (pubS0 cfg fr ty v bad sel s) [] (h0.trans h)
  generalize List.foldl _ _ _ = out at *
  obtain ⟨s1, claimed⟩ := out
  exact (pubTail_spec I cfg fr.depth ty v _ s1 claimed).2.2.2.2.2.1.trans h1

def RecNP : Prop := ∀ (fr : Frame) (s : St R) (a : Action), fr.depth = 0 → s.c.panicking = none →
  (rec fr s a).c.panicking = none

theorem step_nopanic (hrec : RecNP rec) : RecNP (step I cfg rec) := by
  intro fr s a hd h
  cases a with
  | subscribe ty hid once async seq filt body => exact h
  | unsubscribe ty hid => simp only [step]; split <;> exact h
  | clear ty => exact h
  | clearAll => exact h
  | publish ty v bad sel =>
    simp only [step]
    split
    · exact h
    · exact publish_nopanic I cfg rec fr ty v bad sel s h
  | cancel => simp only [step]; split <;> exact h
  | cancelId k => simp only [step]; split <;> exact h
  | panic val => simp [step, hd, h]
  | has ty => exact h
  | count ty => exact h
  | readLog => exact h
  | drain =>
    simp only [step]
    split
    · exact h
    · split
      · exact h
      · refine hrec fr _ _ hd ?_
        unfold runPending
        split
        · exact h
        · exact (callHandler_spec cfg rec _ _ _ _ _ _ true _).2.2.2.2.2.2.1

theorem exec_nopanic (n : Nat) : RecNP (exec I cfg n) := by
  induction n with
  | zero => intro fr s a _ h; exact h
  | succ n ih => exact step_nopanic I cfg _ ih

end panics
/-! ### projections of traces -/

theorem newTrace_eq {R : Type} {s s' : St R} {l : List Ev} (h : s'.c.trace = s.c.trace ++ l) : newTrace s s' = l := by
  simp [newTrace, h]

theorem newPending_eq {R : Type} {s s' : St R} {l : List Pending} (h : s'.c.pending = s.c.pending ++ l) :
    newPending s s' = l := by
  simp [newPending, h]

theorem plain_noenter {e : Ev} (h : plain e = true) : isEnter e = false := by
  cases e <;> simp_all [plain, isEnter]

theorem plain_nohook {e : Ev} (d : Nat) (h : plain e = true) : isHookAt d e = false := by
  cases e <;> simp_all [plain, isHookAt]

theorem plain_nopanich {e : Ev} (d : Nat) (h : plain e = true) : isPanichAt d e = false := by
  cases e <;> simp_all [plain, isPanichAt]

theorem hook_depth {e : Ev} {d : Nat} (h : isHookAt d e = true) : e.depth = d := by
  cases e <;> simp_all [isHookAt, Ev.depth]

theorem panich_depth {e : Ev} {d : Nat} (h : isPanichAt d e = true) : e.depth = d := by
  cases e <;> simp_all [isPanichAt, Ev.depth]

theorem filter_hook_deeper {d : Nat} {l : List Ev} (h : ∀ e ∈ l, TagOK (d + 1) e) : l.filter (isHookAt d) = [] := by
  rw [List.filter_eq_nil_iff]
  intro e he hh
  have := (h e he).1
  have := hook_depth hh
  omega

theorem filter_panich_deeper {d : Nat} {l : List Ev} (h : ∀ e ∈ l, TagOK (d + 1) e) :
    l.filter (isPanichAt d) = [] := by
  rw [List.filter_eq_nil_iff]
  intro e he hh
  have := (h e he).1
  have := panich_depth hh
  omega

theorem filter_hook_plain {d d' : Nat} {l : List Ev} (h : ∀ e ∈ l, e.depth = d' ∧ plain e = true) :
    l.filter (isHookAt d) = [] := by
  rw [List.filter_eq_nil_iff]
  intro e he hh
  have := plain_nohook d (h e he).2
  simp_all

theorem directEnters_append (d : Nat) (l1 l2 : List Ev) :
    directEnters d (l1 ++ l2) = directEnters d l1 ++ directEnters d l2 := by
  simp [directEnters, List.filterMap_append]

theorem directEnters_noenter {d : Nat} {l : List Ev} (h : ∀ e ∈ l, isEnter e = false) : directEnters d l = [] := by
  unfold directEnters
  rw [List.filterMap_eq_nil_iff]
  intro e he
  have := h e he
  cases e <;> simp_all [isEnter]

theorem directEnters_deeper {d : Nat} {l : List Ev} (h : ∀ e ∈ l, TagOK (d + 1) e) : directEnters d l = [] := by
  unfold directEnters
  rw [List.filterMap_eq_nil_iff]
  intro e he
  have := (h e he).2
  cases e <;> simp_all [isEnter, Ev.depth]
  omega

theorem all_noenter_plain {d : Nat} {l : List Ev} (h : ∀ e ∈ l, e.depth = d ∧ plain e = true) :
    ∀ e ∈ l, isEnter e = false := fun e he => plain_noenter (h e he).2

theorem hookL_noenter (b : Bool) (d : Nat) (k : HookKind) (ty v : Nat) : ∀ e ∈ hookL b d k ty v, isEnter e = false := by
  unfold hookL
  exact all_ite _ _ rfl

theorem tailEvs_noenter (cfg : Config) (d ty v pid : Nat) : ∀ e ∈ tailEvs cfg d ty v pid, isEnter e = false := by
  unfold tailEvs
  exact all_append (all_append (hookL_noenter _ _ _ _ _) (hookL_noenter _ _ _ _ _)) (all_ite _ _ rfl)

/-! ### inert deliveries -/

section inert
variable {R : Type} (I : RegImpl R) (cfg : Config) (rec : Frame → St R → Action → St R)

theorem deliver_skip (ty v root obs d : Nat) (s : St R) (claimed : List Reg) (r : Reg)
    (h : r.accepts v = false ∨ s.c.live root = false) :
    deliver cfg rec ty v root obs d (s, claimed) r = (dFilt d v root r s, claimed) := by
  rcases deliver_cases cfg rec ty v root obs d s claimed r with ⟨_, h'⟩ | ⟨h1, h2, _⟩
  · exact h'
  · rcases h with h | h <;> simp_all

theorem loop_dead (ty v root obs d : Nat) (rest : List Reg) (s : St R) (claimed : List Reg)
    (hdead : s.c.live root = false) :
    let out := rest.foldl (deliver cfg rec ty v root obs d) (s, claimed)
    out.2 = claimed ∧ out.1.c.executed = s.c.executed ∧ out.1.reg = s.reg ∧ out.1.c.pending = s.c.pending ∧
    out.1.c.live root = false ∧ out.1.c.nextRid = s.c.nextRid ∧ out.1.c.panicking = s.c.panicking ∧
    ∃ l, out.1.c.trace = s.c.trace ++ l ∧ ∀ e ∈ l, e.depth = d ∧ plain e = true := by
  induction rest generalizing s with
  | nil => exact ⟨rfl, rfl, rfl, rfl, hdead, rfl, rfl, [], by simp, by simp⟩
  | cons r rest ih =>
    simp only [List.foldl_cons]
    rw [deliver_skip cfg rec ty v root obs d s claimed r (Or.inr hdead)]
    obtain ⟨h1, h2, h3, h4, h5, h6, h7, h8⟩ := dFilt_fields d v root r s
    have hd' : (dFilt d v root r s).c.live root = false := by rw [dFilt_live, hdead]; rfl
    obtain ⟨g1, g2, g3, g4, g5, g6, g7, l, g8, g9⟩ := ih (dFilt d v root r s) hd'
    refine ⟨g1, g2.trans h3, g3.trans h1, g4.trans h6, g5, g6.trans h2, g7.trans h7,
      filtEv d v r ++ l, by rw [g8, h8, List.append_assoc], all_append (filtEv_plain d v r) g9⟩

/-- a registration whose filter cancels the publish context is itself skipped: only the filter phase happens -/
theorem deliver_filter_cancels (ty v root obs d : Nat) (s : St R) (claimed : List Reg) (r : Reg)
    (hk : cancelsAt r root = true) :
    deliver cfg rec ty v root obs d (s, claimed) r = (dFilt d v root r s, claimed) := by
  rcases deliver_cases cfg rec ty v root obs d s claimed r with ⟨_, h'⟩ | ⟨_, h2, _⟩
  · exact h'
  · rw [h2.2] at hk; cases hk

end inert
/-! ### the events of one invocation -/

section invoc
variable {R : Type} (I : RegImpl R) (cfg : Config) (rec : Frame → St R → Action → St R)

def enterEvs (cfg : Config) (r : Reg) (ty v root op d : Nat) (async : Bool) (hid : Nat) : List Ev :=
  (if cfg.obs then [Ev.obs d .hs hid op ty async] else []) ++
    [Ev.enter (d + 1) r.rid ty v (if r.ctxAware then some root else none) async]

theorem callHandler_trace (hrec : RecOK I rec) (r : Reg) (ty v root op d : Nat) (async : Bool) (s : St R) :
    ∃ body, (callHandler cfg rec r ty v root op d async s).c.trace = s.c.trace ++
        (enterEvs cfg r ty v root op d async s.c.nextObs ++ body ++
          chTail cfg r ty v d s.c.nextObs (bodyResult cfg rec r ty v root op d async s).c.panicking) ∧
      ∀ e ∈ body, TagOK (d + 1) e := by
  obtain ⟨body, hb, ht⟩ := (bodyResult_body I cfg rec hrec r ty v root op d async s).tr
  refine ⟨body, ?_, ht⟩
  rw [(callHandler_spec cfg rec r ty v root op d async s).2.2.2.2.2.2.2, hb,
    enterHandler_trace cfg r ty v root op d async s]
  simp only [enterEvs, List.append_assoc]

theorem enterEvs_direct (r : Reg) (ty v root op d : Nat) (async : Bool) (hid : Nat) :
    directEnters d (enterEvs cfg r ty v root op d async hid) =
      [(r.rid, ty, v, if r.ctxAware then some root else none)] := by
  cases h : cfg.obs <;> simp [enterEvs, directEnters, h]

theorem enterEvs_hook (r : Reg) (ty v root op d : Nat) (async : Bool) (hid : Nat) :
    (enterEvs cfg r ty v root op d async hid).filter (isHookAt d) = [] := by
  cases h : cfg.obs <;> simp [enterEvs, isHookAt, h]

theorem enterEvs_panich (r : Reg) (ty v root op d : Nat) (async : Bool) (hid : Nat) :
    (enterEvs cfg r ty v root op d async hid).filter (isPanichAt d) = [] := by
  cases h : cfg.obs <;> simp [enterEvs, isPanichAt, h]

theorem chTail_noenter (r : Reg) (ty v d hid : Nat) (pv : Option Nat) :
    ∀ e ∈ chTail cfg r ty v d hid pv, isEnter e = false := by
  unfold chTail
  refine all_append (all_append (all_single _ rfl) ?_) (all_ite _ _ rfl)
  cases pv
  · simp
  · exact all_ite _ _ rfl

theorem chTail_hook (r : Reg) (ty v d hid : Nat) (pv : Option Nat) :
    (chTail cfg r ty v d hid pv).filter (isHookAt d) = [] := by
  rw [List.filter_eq_nil_iff]
  unfold chTail
  refine all_append (all_append (all_single _ (by simp [isHookAt])) ?_) (all_ite _ _ (by simp [isHookAt]))
  cases pv
  · simp
  · exact all_ite _ _ (by simp [isHookAt])

theorem chTail_panich (r : Reg) (ty v d hid : Nat) (pv : Option Nat) :
    (chTail cfg r ty v d hid pv).filter (isPanichAt d) =
      (match pv with
       | some val => if cfg.panicH then [Ev.panich d r.ctxAware ty v val] else []
       | none => []) := by
  cases pv <;> cases h1 : cfg.panicH <;> cases h2 : cfg.obs <;> simp [chTail, isPanichAt, h1, h2]

end invoc
/-! ### the structure of the dispatch loop -/

section struct
variable {R : Type} (I : RegImpl R) (cfg : Config) (rec : Frame → St R → Action → St R)

theorem deliver_struct (hrec : RecOK I rec) (ty v root obs d : Nat) (s : St R) (claimed : List Reg) (r : Reg) :
    ∃ tl pl, (deliver cfg rec ty v root obs d (s, claimed) r).1.c.trace = s.c.trace ++ tl ∧
      (deliver cfg rec ty v root obs d (s, claimed) r).1.c.pending = s.c.pending ++ pl ∧
      tl.filter (isHookAt d) = [] ∧
      (((r.accepts v = false ∨ (s.c.live root = false ∨ cancelsAt r root = true) ∨
            (r.once = true ∧ r.rid ∈ s.c.executed)) ∧
          directEnters d tl = [] ∧ pl = []) ∨
       (r.accepts v = true ∧ r.async = true ∧ directEnters d tl = [] ∧ pl = [⟨r, ty, v, root, obs, d⟩] ∧
          (r.once = true → r.rid ∈ (deliver cfg rec ty v root obs d (s, claimed) r).1.c.executed)) ∨
       (r.accepts v = true ∧ r.async = false ∧
          directEnters d tl = [(r.rid, ty, v, if r.ctxAware then some root else none)] ∧
          (∀ q ∈ pl, d + 1 ≤ q.depth) ∧
          (r.once = true → r.rid ∈ (deliver cfg rec ty v root obs d (s, claimed) r).1.c.executed))) := by
  obtain ⟨_, _, _, _, _, f6, _, f8⟩ := dFilt_fields d v root r s
  obtain ⟨_, _, g3, _, _, g6, _, g8⟩ := dClaim_fields r (dFilt d v root r s)
  have hfh : (filtEv d v r).filter (isHookAt d) = [] := filter_hook_plain (filtEv_plain d v r)
  have hfd : directEnters d (filtEv d v r) = [] := directEnters_noenter (all_noenter_plain (filtEv_plain d v r))
  have hex : r.once = true → r.rid ∈ (dClaim r (dFilt d v root r s)).c.executed := by
    intro h; rw [g3]; simp [h]
  rcases deliver_cases cfg rec ty v root obs d s claimed r with ⟨hc, h⟩ | ⟨ha, _, _, ⟨hy, h⟩ | ⟨hy, h⟩⟩ <;> rw [h]
  · exact ⟨filtEv d v r, [], f8, by simp [f6], hfh, Or.inl ⟨hc, hfd, rfl⟩⟩
  · refine ⟨filtEv d v r, [⟨r, ty, v, root, obs, d⟩], ?_, ?_, hfh, Or.inr (Or.inl ⟨ha, hy, hfd, rfl, hex⟩)⟩
    · show (dClaim r (dFilt d v root r s)).c.trace = _
      rw [g8, f8]
    · show (dClaim r (dFilt d v root r s)).c.pending ++ _ = _
      rw [g6, f6]
  · obtain ⟨body, hb, ht⟩ := callHandler_trace I cfg rec hrec r ty v root obs d false (dClaim r (dFilt d v root r s))
    obtain ⟨p, hp, hq⟩ := callHandler_pending I cfg rec hrec r ty v root obs d false (dClaim r (dFilt d v root r s))
    refine ⟨filtEv d v r ++ (enterEvs cfg r ty v root obs d false (dClaim r (dFilt d v root r s)).c.nextObs ++ body ++
      chTail cfg r ty v d (dClaim r (dFilt d v root r s)).c.nextObs
        (bodyResult cfg rec r ty v root obs d false (dClaim r (dFilt d v root r s))).c.panicking), p, ?_, ?_, ?_,
      Or.inr (Or.inr ⟨ha, hy, ?_, hq, fun ho => ?_⟩)⟩
    · rw [hb, g8, f8, List.append_assoc]
    · rw [hp, g6, f6]
    · rw [List.filter_append, List.filter_append, List.filter_append, hfh, enterEvs_hook, filter_hook_deeper ht,
        chTail_hook]
      rfl
    · rw [directEnters_append, directEnters_append, directEnters_append, hfd, enterEvs_direct,
        directEnters_deeper ht, directEnters_noenter (chTail_noenter cfg r ty v d _ _)]
      rfl
    · exact (callHandler_Fr I cfg rec hrec r ty v root obs d false _).ex _ (hex ho)

end struct
section struct2
variable {R : Type} (I : RegImpl R) (cfg : Config) (rec : Frame → St R → Action → St R)

theorem loop_sound (hrec : RecOK I rec) (ty v root obs d : Nat) (l : List Reg) (s : St R) (claimed : List Reg) :
    ∃ tl pl, (l.foldl (deliver cfg rec ty v root obs d) (s, claimed)).1.c.trace = s.c.trace ++ tl ∧
      (l.foldl (deliver cfg rec ty v root obs d) (s, claimed)).1.c.pending = s.c.pending ++ pl ∧
      tl.filter (isHookAt d) = [] ∧
      List.Sublist ((directEnters d tl).map (·.1)) ((l.filter (fun r => !r.async)).map (·.rid)) ∧
      (∀ x ∈ directEnters d tl, x.2.1 = ty ∧ x.2.2.1 = v) ∧
      List.Sublist ((pl.filter (fun q => q.depth == d)).map (·.reg)) (l.filter (fun r => r.async)) ∧
      (∀ q ∈ pl, q.depth = d → q.ty = ty ∧ q.v = v) := by
  induction l generalizing s claimed with
  | nil => exact ⟨[], [], by simp, by simp, rfl, by simp [directEnters], by simp [directEnters], by simp, by simp⟩
  | cons r l ih =>
    rw [List.foldl_cons]
    obtain ⟨tl1, pl1, h1, h2, h3, h4⟩ := deliver_struct I cfg rec hrec ty v root obs d s claimed r
    generalize deliver cfg rec ty v root obs d (s, claimed) r = out at *
    obtain ⟨s1, c1⟩ := out
    obtain ⟨tl2, pl2, g1, g2, g3, g4, g5, g6, g7⟩ := ih s1 c1
    refine ⟨tl1 ++ tl2, pl1 ++ pl2, by rw [g1, h1, List.append_assoc], by rw [g2, h2, List.append_assoc],
      by rw [List.filter_append, h3, g3]; rfl, ?_⟩
    rw [directEnters_append, List.filter_append, List.map_append, List.map_append]
    rcases h4 with ⟨_, hd, hp⟩ | ⟨_, hy, hd, hp, _⟩ | ⟨_, hy, hd, hp, _⟩
    · rw [hd, hp]
      refine ⟨?_, by simpa using g5, ?_, by simpa using g7⟩
      · exact g4.trans (((List.sublist_cons_self r l).filter _).map _)
      · exact g6.trans ((List.sublist_cons_self r l).filter _)
    · rw [hd, hp]
      refine ⟨?_, by simpa using g5, ?_, ?_⟩
      · exact g4.trans (((List.sublist_cons_self r l).filter _).map _)
      · simp only [List.filter_cons, hy, beq_self_eq_true, if_true, List.map_cons, List.map_nil,
          List.filter_nil, List.cons_append, List.nil_append]
        exact g6.cons_cons r
      · intro q hq hqd
        rcases List.mem_append.1 hq with h | h
        · simp at h; subst h; exact ⟨rfl, rfl⟩
        · exact g7 q h hqd
    · rw [hd]
      have hpf : pl1.filter (fun q => q.depth == d) = [] := by
        rw [List.filter_eq_nil_iff]
        intro q hq hqd
        have := hp q hq
        simp at hqd
        omega
      rw [hpf]
      refine ⟨?_, ?_, ?_, ?_⟩
      · simp only [List.filter_cons, hy, Bool.not_false, if_true, List.map_cons, List.map_nil, List.cons_append,
          List.nil_append]
        exact g4.cons_cons _
      · intro x hx
        rcases List.mem_append.1 hx with h | h
        · simp at h; subst h; exact ⟨rfl, rfl⟩
        · exact g5 x h
      · exact g6.trans ((List.sublist_cons_self r l).filter _)
      · intro q hq hqd
        rcases List.mem_append.1 hq with h | h
        · have := hp q h; omega
        · exact g7 q h hqd

end struct2
section struct3
variable {R : Type} (I : RegImpl R) (cfg : Config) (rec : Frame → St R → Action → St R)

theorem hookL_filter (b : Bool) (d : Nat) (k : HookKind) (ty v : Nat) :
    (hookL b d k ty v).filter (isHookAt d) = hookL b d k ty v := by
  cases b <;> simp [hookL, isHookAt]

theorem tailEvs_hook (d ty v pid : Nat) :
    (tailEvs cfg d ty v pid).filter (isHookAt d) = hookL cfg.hookAL d .al ty v ++ hookL cfg.hookAC d .ac ty v := by
  unfold tailEvs
  rw [List.filter_append, List.filter_append, hookL_filter, hookL_filter]
  cases cfg.obs <;> simp [isHookAt]

theorem publish_struct (hrec : RecOK I rec) (fr : Frame) (ty v : Nat) (bad : Bool) (sel : CtxSel) (s : St R) :
    ∃ pre mid post pl,
      (publish I cfg rec fr ty v bad sel s).c.trace = s.c.trace ++ (pre ++ mid ++ post) ∧
      (publish I cfg rec fr ty v bad sel s).c.pending = s.c.pending ++ pl ∧
      pre.filter (isHookAt fr.depth) = hookL cfg.hookBL fr.depth .bl ty v ++ hookL cfg.hookBC fr.depth .bc ty v ∧
      post.filter (isHookAt fr.depth) = hookL cfg.hookAL fr.depth .al ty v ++ hookL cfg.hookAC fr.depth .ac ty v ∧
      mid.filter (isHookAt fr.depth) = [] ∧
      (∀ e ∈ pre, isEnter e = false) ∧ (∀ e ∈ post, isEnter e = false) ∧
      List.Sublist ((directEnters fr.depth mid).map (·.1))
        (((I.get s.reg ty).filter (fun r => !r.async)).map (·.rid)) ∧
      (∀ x ∈ directEnters fr.depth mid, x.2.1 = ty ∧ x.2.2.1 = v) ∧
      List.Sublist ((pl.filter (fun q => q.depth == fr.depth)).map (·.reg))
        ((I.get s.reg ty).filter (fun r => r.async)) ∧
      (∀ q ∈ pl, q.depth = fr.depth → q.ty = ty ∧ q.v = v) := by
  rw [publish_eq]
  obtain ⟨a1, _, _, a4, _, _, _, _, o1, pe, a9, a10, a11⟩ := pubS0_spec cfg fr ty v bad sel s
  obtain ⟨mid, pl, b1, b2, b3, b4, b5, b6, b7⟩ := loop_sound I cfg rec hrec ty v (pubRoot fr sel s)
    (pubObs cfg fr ty sel s) fr.depth (I.get (pubS0 cfg fr ty v bad sel s).reg ty) (pubS0 cfg fr ty v bad sel s) []
  generalize List.foldl _ _ _ = out at *
  obtain ⟨s1, claimed⟩ := out
  obtain ⟨_, _, _, _, c5, _, c7, _⟩ := pubTail_spec I cfg fr.depth ty v (pubCtx fr sel s).2.2.c.nextObs s1 claimed
  rw [a1] at b4 b6
  refine ⟨o1 ++ (hookL cfg.hookBL fr.depth .bl ty v ++ hookL cfg.hookBC fr.depth .bc ty v ++ pe), mid,
    tailEvs cfg fr.depth ty v (pubCtx fr sel s).2.2.c.nextObs, pl, ?_, ?_, ?_, tailEvs_hook cfg _ _ _ _, b3, ?_,
    tailEvs_noenter _ _ _ _ _, b4, b5, b6, b7⟩
  · rw [c7, b1, a9]; simp only [List.append_assoc]
  · rw [c5, b2, a4]
  · rw [List.filter_append, List.filter_append, List.filter_append, hookL_filter, hookL_filter,
      filter_hook_plain a10, filter_hook_plain a11]
    simp
  · exact all_append (all_noenter_plain a10) (all_append (all_append
      (hookL_noenter _ _ _ _ _) (hookL_noenter _ _ _ _ _)) (all_noenter_plain a11))

theorem directEnters_mid {d : Nat} {pre mid post : List Ev} (h1 : ∀ e ∈ pre, isEnter e = false)
    (h2 : ∀ e ∈ post, isEnter e = false) : directEnters d (pre ++ mid ++ post) = directEnters d mid := by
  rw [directEnters_append, directEnters_append, directEnters_noenter h1, directEnters_noenter h2]
  simp

end struct3
section complete
variable {R : Type} (I : RegImpl R) (cfg : Config) (rec : Frame → St R → Action → St R)

theorem loop_complete (hrec : RecOK I rec) (ty v obs d : Nat) (l : List Reg) (s : St R) (claimed : List Reg)
    (hinv : Inv0 s.c) :
    ∃ tl pl, (l.foldl (deliver cfg rec ty v 0 obs d) (s, claimed)).1.c.trace = s.c.trace ++ tl ∧
      (l.foldl (deliver cfg rec ty v 0 obs d) (s, claimed)).1.c.pending = s.c.pending ++ pl ∧
      ∀ r ∈ l, r.accepts v = true →
        (r.once = false → r.async = false → ∃ ctx, (r.rid, ty, v, ctx) ∈ directEnters d tl) ∧
        (r.once = false → r.async = true → ∃ q ∈ pl, q.reg = r ∧ q.depth = d ∧ q.v = v) ∧
        (r.once = true → r.rid ∈ (l.foldl (deliver cfg rec ty v 0 obs d) (s, claimed)).1.c.executed) := by
  induction l generalizing s claimed with
  | nil => exact ⟨[], [], by simp, by simp, by simp⟩
  | cons r l ih =>
    rw [List.foldl_cons]
    obtain ⟨tl1, pl1, h1, h2, _, h4⟩ := deliver_struct I cfg rec hrec ty v 0 obs d s claimed r
    have hF := deliver_Fr0 I cfg rec hrec ty v 0 obs d s claimed r
    have hlive : s.c.live 0 = true := by
      have := hinv.1
      simp [Core.live, this]
    generalize deliver cfg rec ty v 0 obs d (s, claimed) r = out at *
    obtain ⟨s1, c1⟩ := out
    obtain ⟨tl2, pl2, g1, g2, g3⟩ := ih s1 c1 (hF.inv0 hinv)
    have hL := loop_Fr0 I cfg rec hrec ty v 0 obs d l s1 c1
    refine ⟨tl1 ++ tl2, pl1 ++ pl2, by rw [g1, h1, List.append_assoc], by rw [g2, h2, List.append_assoc], ?_⟩
    intro r' hr' ha
    rcases List.mem_cons.1 hr' with h | h
    · subst h
      rcases h4 with ⟨hc, _, _⟩ | ⟨_, hy, _, hp, hex⟩ | ⟨_, hy, hd, _, hex⟩
      · rcases hc with hc | hc | ⟨ho, he⟩
        · simp_all
        · simp_all
        · refine ⟨fun h => by simp_all, fun h => by simp_all, fun _ => hL.ex _ (hF.ex _ he)⟩
      · refine ⟨fun _ h => by simp_all, fun _ _ => ⟨⟨r', ty, v, 0, obs, d⟩, by rw [hp]; simp, rfl, rfl, rfl⟩, fun ho => hL.ex _ (hex ho)⟩
      · refine ⟨fun _ _ => ⟨if r'.ctxAware then some 0 else none, ?_⟩, fun _ h => by simp_all,
          fun ho => hL.ex _ (hex ho)⟩
        rw [directEnters_append, hd]
        simp
    · obtain ⟨k1, k2, k3⟩ := g3 r' h ha
      refine ⟨fun a b => ?_, fun a b => ?_, k3⟩
      · obtain ⟨ctx, hc⟩ := k1 a b
        exact ⟨ctx, by rw [directEnters_append]; exact List.mem_append_right _ hc⟩
      · obtain ⟨q, hq, hq'⟩ := k2 a b
        exact ⟨q, List.mem_append_right _ hq, hq'⟩

end complete

end BF

open BF in
/-- the trace only grows, and what a call at frame depth `d` appends is tagged `≥ d` -/
theorem trace_extends {R : Type} (I : RegImpl R) (cfg : Config) (n : Nat) (fr : Frame) (s : St R) (a : Action) :
    ∃ l, (exec I cfg n fr s a).c.trace = s.c.trace ++ l ∧ ∀ e ∈ l, fr.depth ≤ e.depth := by
  obtain ⟨l, e, t⟩ := (exec_Fr I cfg n fr s a).tr
  exact ⟨l, e, fun x hx => (t x hx).1⟩

open BF in
/-- the registry stays well-formed -/
theorem wf_exec {R : Type} (I : RegImpl R) (hI : I.Lawful) (cfg : Config) (n : Nat) (fr : Frame) (s : St R)
    (a : Action) (h : WF I s) : WF I (exec I cfg n fr s a) :=
  (exec_Fr I cfg n fr s a).wf hI h

theorem BF.wf_init {R : Type} (I : RegImpl R) (hI : I.Lawful) (faults : List Bool) :
    WF I (initSt I faults) ∧ BF.WFG I (initSt I faults) ∧ BF.Q I (initSt I faults) [] := by
  simp [WF, BF.WFG, BF.Q, initSt, hI.get_empty]

theorem BF.run_inv {R : Type} (I : RegImpl R) (hI : I.Lawful) (cfg : Config) (fuel : Nat)
    (prog : List Action) (s : St R) (h : WF I s ∧ BF.WFG I s ∧ BF.Q I s []) :
    let s' := prog.foldl (fun s a => exec I cfg fuel {} s a) s
    WF I s' ∧ BF.WFG I s' ∧ BF.Q I s' [] := by
  induction prog generalizing s with
  | nil => exact h
  | cons a as ih =>
    have hF := BF.exec_Fr I cfg fuel {} s a
    exact ih _ ⟨hF.wf hI h.1, hF.wfg hI h.1 h.2.1, hF.q hI h.1 h.2.1 _ h.2.2⟩

theorem wf_run {R : Type} (I : RegImpl R) (hI : I.Lawful) (cfg : Config) (fuel : Nat) (faults : List Bool)
    (prog : List Action) : WF I (run I cfg fuel faults prog) :=
  (BF.run_inv I hI cfg fuel prog _ (BF.wf_init I hI faults)).1

/-- a panic never escapes to the top level -/
theorem no_panic_escapes {R : Type} (I : RegImpl R) (cfg : Config) (fuel : Nat) (faults : List Bool)
    (prog : List Action) : (run I cfg fuel faults prog).c.panicking = none := by
  have : ∀ (s : St R), s.c.panicking = none →
      (prog.foldl (fun s a => exec I cfg fuel {} s a) s).c.panicking = none := by
    induction prog with
    | nil => exact fun s h => h
    | cons a as ih => exact fun s h => ih _ (BF.exec_nopanic I cfg fuel {} s a rfl h)
  exact this _ rfl

open BF in
/-- DELIVERY, soundness: the handlers a publish enters directly are registrations of the
snapshot taken when it began (so: of the published type, never one subscribed during the
delivery), each at most once and in subscription order, with the published type and value
and — for context-aware handlers — the publish context; the async ones it parks likewise -/
theorem publish_sound {R : Type} (I : RegImpl R) (hI : I.Lawful) (cfg : Config) (n : Nat) (fr : Frame)
    (ty v : Nat) (bad : Bool) (sel : CtxSel) (s : St R) :
    let s' := publish I cfg (exec I cfg n) fr ty v bad sel s
    (∃ l, s'.c.trace = s.c.trace ++ l) ∧ (∃ p, s'.c.pending = s.c.pending ++ p) ∧
    List.Sublist ((directEnters fr.depth (newTrace s s')).map (·.1))
      (((I.get s.reg ty).filter (fun r => !r.async)).map (·.rid)) ∧
    (∀ x ∈ directEnters fr.depth (newTrace s s'), x.2.1 = ty ∧ x.2.2.1 = v) ∧
    List.Sublist (((newPending s s').filter (fun q => q.depth == fr.depth)).map (·.reg))
      ((I.get s.reg ty).filter (fun r => r.async)) ∧
    (∀ q ∈ newPending s s', q.depth = fr.depth → q.ty = ty ∧ q.v = v) := by
  intro s'
  have _ := hI
  obtain ⟨pre, mid, post, pl, h1, h2, _, _, _, h6, h7, h8, h9, h10, h11⟩ :=
    publish_struct I cfg (exec I cfg n) (exec_Fr I cfg n) fr ty v bad sel s
  rw [newTrace_eq h1, newPending_eq h2, directEnters_mid h6 h7]
  exact ⟨⟨_, h1⟩, ⟨_, h2⟩, h8, h9, h10, h11⟩

open BF in
/-- exactly once: in a well-formed registry the rids entered directly are pairwise distinct -/
theorem publish_at_most_once {R : Type} (I : RegImpl R) (hI : I.Lawful) (cfg : Config) (n : Nat) (fr : Frame)
    (ty v : Nat) (bad : Bool) (sel : CtxSel) (s : St R) (hwf : WF I s) :
    let s' := publish I cfg (exec I cfg n) fr ty v bad sel s
    ((directEnters fr.depth (newTrace s s')).map (·.1)).Nodup := by
  intro s'
  have h := (publish_sound I hI cfg n fr ty v bad sel s).2.2.1
  exact (h.trans (List.filter_sublist.map _)).nodup (hwf ty).1

open BF in
/-- C08 hooks: the events a publish appends are `pre ++ mid ++ post` where `pre` holds the
before-hooks (each configured one exactly once, legacy first) and ends before the first
handler, `post` holds the after-hooks, and `mid` (the dispatch loop, where every handler of
this publish is entered and returns) contains no hook of this publish -/
theorem publish_hooks {R : Type} (I : RegImpl R) (hI : I.Lawful) (cfg : Config) (n : Nat) (fr : Frame)
    (ty v : Nat) (bad : Bool) (sel : CtxSel) (s : St R) :
    let s' := publish I cfg (exec I cfg n) fr ty v bad sel s
    ∃ pre mid post, newTrace s s' = pre ++ mid ++ post ∧
      pre.filter (isHookAt fr.depth) =
        (if cfg.hookBL then [Ev.hook fr.depth .bl ty v] else []) ++ (if cfg.hookBC then [Ev.hook fr.depth .bc ty v] else []) ∧
      post.filter (isHookAt fr.depth) =
        (if cfg.hookAL then [Ev.hook fr.depth .al ty v] else []) ++ (if cfg.hookAC then [Ev.hook fr.depth .ac ty v] else []) ∧
      mid.filter (isHookAt fr.depth) = [] ∧
      (∀ e ∈ pre, isEnter e = false) ∧ (∀ e ∈ post, isEnter e = false) ∧
      directEnters fr.depth (newTrace s s') = directEnters fr.depth mid := by
  intro s'
  have _ := hI
  obtain ⟨pre, mid, post, pl, h1, _, h3, h4, h5, h6, h7, _⟩ :=
    publish_struct I cfg (exec I cfg n) (exec_Fr I cfg n) fr ty v bad sel s
  refine ⟨pre, mid, post, newTrace_eq h1, h3, h4, h5, h6, h7, ?_⟩
  rw [newTrace_eq h1, directEnters_mid h6 h7]

open BF in
/-- DELIVERY, completeness: with a context that cannot be cancelled, every registration of
the snapshot whose filter accepts the event is invoked (sync) or parked for invocation
(async) — whatever the other handlers do: unsubscribe it, clear, publish, panic -/
theorem publish_complete {R : Type} (I : RegImpl R) (hI : I.Lawful) (cfg : Config) (n : Nat) (fr : Frame)
    (ty v : Nat) (bad : Bool) (s : St R) (h0 : 0 ∉ s.c.cancelled) (hctx : 0 < s.c.nextCtx) :
    let s' := publish I cfg (exec I cfg n) fr ty v bad .bg s
    ∀ r ∈ I.get s.reg ty, r.accepts v = true →
      (r.once = false → r.async = false → ∃ ctx, (r.rid, ty, v, ctx) ∈ directEnters fr.depth (newTrace s s')) ∧
      (r.once = false → r.async = true → ∃ q ∈ newPending s s', q.reg = r ∧ q.depth = fr.depth ∧ q.v = v) ∧
      (r.once = true → r.rid ∈ s'.c.executed) := by
  intro s'
  have _ := hI
  have hs' : s' = publish I cfg (exec I cfg n) fr ty v bad .bg s := rfl
  rw [publish_eq] at hs'
  obtain ⟨a1, _, _, a4, _, a6, _, a8, o1, pe, a9, _, _⟩ := pubS0_spec cfg fr ty v bad .bg s
  have hroot := a8 rfl
  rw [hroot] at hs'
  obtain ⟨tl, pl, b1, b2, b3⟩ := loop_complete I cfg (exec I cfg n) (exec_Fr I cfg n) ty v
    (pubObs cfg fr ty .bg s) fr.depth (I.get (pubS0 cfg fr ty v bad .bg s).reg ty)
    (pubS0 cfg fr ty v bad .bg s) [] (a6 ⟨h0, hctx⟩)
  generalize List.foldl _ _ _ = out at *
  obtain ⟨s1, claimed⟩ := out
  obtain ⟨_, c2, _, _, c5, _, c7, _⟩ := pubTail_spec I cfg fr.depth ty v (pubCtx fr .bg s).2.2.c.nextObs s1 claimed
  rw [← hs'] at c2 c5 c7
  have ht : s'.c.trace = s.c.trace ++ ((o1 ++ (hookL cfg.hookBL fr.depth .bl ty v ++
      hookL cfg.hookBC fr.depth .bc ty v ++ pe)) ++ tl ++ tailEvs cfg fr.depth ty v (pubCtx fr .bg s).2.2.c.nextObs) := by
    rw [c7, b1, a9]; simp only [List.append_assoc]
  have hp : s'.c.pending = s.c.pending ++ pl := by rw [c5, b2, a4]
  rw [newTrace_eq ht, newPending_eq hp, c2]
  intro r hr ha
  rw [← a1] at hr
  obtain ⟨k1, k2, k3⟩ := b3 r hr ha
  refine ⟨fun x y => ?_, k2, k3⟩
  obtain ⟨ctx, hc⟩ := k1 x y
  refine ⟨ctx, ?_⟩
  rw [directEnters_append, directEnters_append]
  exact List.mem_append_left _ (List.mem_append_right _ hc)

open BF in
/-- C04: a registration whose filter rejects the event is not used up by that delivery step -/
theorem deliver_rejected_inert {R : Type} (cfg : Config) (rec : Frame → St R → Action → St R)
    (ty v root obs d : Nat) (s : St R) (claimed : List Reg) (r : Reg) (hrej : r.accepts v = false) :
    let out := deliver cfg rec ty v root obs d (s, claimed) r
    out.2 = claimed ∧ out.1.c.executed = s.c.executed ∧ out.1.reg = s.reg ∧ out.1.c.pending = s.c.pending ∧
    (∀ e ∈ newTrace s out.1, isEnter e = false) := by
  intro out
  have ho : out = (dFilt d v root r s, claimed) := deliver_skip cfg rec ty v root obs d s claimed r (Or.inl hrej)
  obtain ⟨h1, _, h3, _, _, h6, _, h8⟩ := dFilt_fields d v root r s
  rw [ho]
  refine ⟨rfl, h3, h1, h6, ?_⟩
  rw [newTrace_eq h8]
  exact all_noenter_plain (filtEv_plain d v r)

open BF in
/-- C08: once the publish context is cancelled no further handler of that publish is started:
the rest of the dispatch loop enters nothing, parks nothing, claims nothing -/
theorem cancelled_loop_inert {R : Type} (cfg : Config) (rec : Frame → St R → Action → St R)
    (ty v root obs d : Nat) (s : St R) (claimed : List Reg) (rest : List Reg) (hdead : s.c.live root = false) :
    let out := rest.foldl (deliver cfg rec ty v root obs d) (s, claimed)
    out.2 = claimed ∧ out.1.c.executed = s.c.executed ∧ out.1.reg = s.reg ∧ out.1.c.pending = s.c.pending ∧
    (∀ e ∈ newTrace s out.1, isEnter e = false) := by
  intro out
  obtain ⟨h1, h2, h3, h4, _, _, _, l, h8, h9⟩ := loop_dead cfg rec ty v root obs d rest s claimed hdead
  refine ⟨h1, h2, h3, h4, ?_⟩
  rw [newTrace_eq h8]
  exact all_noenter_plain h9

open BF in
/-- C08: a filter is user code that runs inside the dispatch loop and may cancel the context handed to
`PublishContext`.  If the filter of registration `r` does so (a real context: `root ≠ 0`), then this publish
starts no further handler: neither `r` itself nor any later registration `rest` of the snapshot is entered,
parked or claimed (whether or not the filter accepts the event), and the context stays cancelled -/
theorem filter_cancel_stops_dispatch {R : Type} (cfg : Config) (rec : Frame → St R → Action → St R)
    (ty v root obs d : Nat) (s : St R) (claimed : List Reg) (r : Reg) (rest : List Reg)
    (hfilt : r.filt.isSome = true) (hcan : r.filtCancels = true) (hroot : root ≠ 0) :
    let mid := deliver cfg rec ty v root obs d (s, claimed) r
    let out := (r :: rest).foldl (deliver cfg rec ty v root obs d) (s, claimed)
    mid.1.c.cancelled = root :: s.c.cancelled ∧ mid.1.c.live root = false ∧ out.1.c.live root = false ∧
    out.2 = claimed ∧ out.1.c.executed = s.c.executed ∧ out.1.reg = s.reg ∧ out.1.c.pending = s.c.pending ∧
    (∀ e ∈ newTrace s out.1, isEnter e = false) := by
  intro mid out
  have hk : cancelsAt r root = true := by simp [cancelsAt, hfilt, hcan, hroot]
  have hm : mid = (dFilt d v root r s, claimed) := deliver_filter_cancels cfg rec ty v root obs d s claimed r hk
  have ho : out = rest.foldl (deliver cfg rec ty v root obs d) (dFilt d v root r s, claimed) := by
    show List.foldl _ _ (r :: rest) = _
    rw [List.foldl_cons]
    exact congrArg (fun p => List.foldl (deliver cfg rec ty v root obs d) p rest) hm
  obtain ⟨h1, _, h3, h4, _, h6, _, h8⟩ := dFilt_fields d v root r s
  have hdead : (dFilt d v root r s).c.live root = false := by rw [dFilt_live, hk]; simp
  obtain ⟨g1, g2, g3, g4, g5, _, _, l, g8, g9⟩ :=
    loop_dead cfg rec ty v root obs d rest (dFilt d v root r s) claimed hdead
  rw [hm, ho]
  refine ⟨by rw [h4, hk]; rfl, hdead, g5, g1, g2.trans h3, g3.trans h1, g4.trans h6, ?_⟩
  have ht : (rest.foldl (deliver cfg rec ty v root obs d) (dFilt d v root r s, claimed)).1.c.trace =
      s.c.trace ++ (filtEv d v r ++ l) := by rw [g8, h8, List.append_assoc]
  rw [newTrace_eq ht]
  exact all_append (all_noenter_plain (filtEv_plain d v r)) (all_noenter_plain g9)

/-- non-vacuity of `filter_cancel_stops_dispatch`: two handlers on type 1, the first with an accepting filter
that cancels the publish context; a publish with a fresh context evaluates the filter and enters nobody … -/
example :
    (run flatImpl { bodies := [[]] } 3 []
      [.subscribe 1 0 false false false (some (1, 0)) 0 true, .subscribe 1 1 false false false none 0 false,
       .publish 1 5 false .fresh]).c.trace = [.filt 0 0 5 true] := by decide

/-- … whereas with the same filter not cancelling, both handlers run -/
example :
    (run flatImpl { bodies := [[]] } 3 []
      [.subscribe 1 0 false false false (some (1, 0)) 0 false, .subscribe 1 1 false false false none 0 false,
       .publish 1 5 false .fresh]).c.trace =
      [.filt 0 0 5 true, .enter 1 0 1 5 none false, .exit 1 0, .enter 1 1 1 5 none false, .exit 1 1] := by decide

/-- … and a background context cannot be cancelled by a filter -/
example :
    (run flatImpl { bodies := [[]] } 3 []
      [.subscribe 1 0 false false false (some (1, 0)) 0 true, .subscribe 1 1 false false false none 0 false,
       .publish 1 5 false .bg]).c.trace =
      [.filt 0 0 5 true, .enter 1 0 1 5 none false, .exit 1 0, .enter 1 1 1 5 none false, .exit 1 1] := by decide

open BF in
/-- C08/C04: a publish whose context is already cancelled runs no handler, parks none,
consumes no once handler and leaves the registry alone -/
theorem dead_publish_inert {R : Type} (I : RegImpl R) (hI : I.Lawful) (cfg : Config) (n : Nat) (fr : Frame)
    (ty v : Nat) (bad : Bool) (s : St R) :
    let s' := publish I cfg (exec I cfg n) fr ty v bad .dead s
    (∀ e ∈ newTrace s s', isEnter e = false) ∧ s'.c.pending = s.c.pending ∧
    s'.c.executed = s.c.executed ∧ (∀ t, I.get s'.reg t = I.get s.reg t) := by
  intro s'
  have _ := hI
  have hs' : s' = publish I cfg (exec I cfg n) fr ty v bad .dead s := rfl
  rw [publish_eq] at hs'
  obtain ⟨a1, _, a3, a4, _, _, a7, _, o1, pe, a9, a10, a11⟩ := pubS0_spec cfg fr ty v bad .dead s
  obtain ⟨b1, b2, b3, b4, _, _, _, l, b8, b9⟩ := loop_dead cfg (exec I cfg n) ty v (pubRoot fr .dead s)
    (pubObs cfg fr ty .dead s) fr.depth (I.get (pubS0 cfg fr ty v bad .dead s).reg ty)
    (pubS0 cfg fr ty v bad .dead s) [] (a7 rfl)
  generalize List.foldl _ _ _ = out at *
  obtain ⟨s1, claimed⟩ := out
  simp only at b1 b2 b3 b4 b8
  subst b1
  obtain ⟨_, c2, _, _, c5, _, c7, c8⟩ := pubTail_spec I cfg fr.depth ty v (pubCtx fr .dead s).2.2.c.nextObs s1 []
  rw [← hs'] at c2 c5 c7 c8
  refine ⟨?_, by rw [c5, b4, a4], by rw [c2, b2, a3], fun t => by rw [c8]; simp [b3, a1]⟩
  have ht : s'.c.trace = s.c.trace ++ ((o1 ++ (hookL cfg.hookBL fr.depth .bl ty v ++
      hookL cfg.hookBC fr.depth .bc ty v ++ pe)) ++ l ++ tailEvs cfg fr.depth ty v (pubCtx fr .dead s).2.2.c.nextObs) := by
    rw [c7, b8, a9]; simp only [List.append_assoc]
  rw [newTrace_eq ht]
  exact all_append (all_append (all_append (all_noenter_plain a10) (all_append (all_append
    (hookL_noenter _ _ _ _ _) (hookL_noenter _ _ _ _ _)) (all_noenter_plain a11))) (all_noenter_plain b9))
    (tailEvs_noenter _ _ _ _ _)

open BF in
/-- C05: the panic handler is called exactly once per panicking invocation — with the event,
the handler's kind and the panic value — and never otherwise; the invocation always returns
with the panic cleared -/
theorem callHandler_panic {R : Type} (I : RegImpl R) (cfg : Config) (n : Nat) (r : Reg)
    (ty v root obsParent d : Nat) (async : Bool) (s : St R) :
    let s' := callHandler cfg (exec I cfg n) r ty v root obsParent d async s
    s'.c.panicking = none ∧
    (newTrace s s').filter (isPanichAt d) =
      (match (bodyResult cfg (exec I cfg n) r ty v root obsParent d async s).c.panicking with
       | some val => if cfg.panicH then [Ev.panich d r.ctxAware ty v val] else []
       | none => []) := by
  intro s'
  refine ⟨(callHandler_spec cfg (exec I cfg n) r ty v root obsParent d async s).2.2.2.2.2.2.1, ?_⟩
  obtain ⟨body, hb, ht⟩ := callHandler_trace I cfg (exec I cfg n) (exec_Fr I cfg n) r ty v root obsParent d async s
  rw [newTrace_eq hb, List.filter_append, List.filter_append, enterEvs_panich, filter_panich_deeper ht,
    chTail_panich]
  rfl

/-- C04/C05: at the end of every top-level run no fired once-handler is still registered -/
theorem once_retired_after_run {R : Type} (I : RegImpl R) (hI : I.Lawful) (cfg : Config) (fuel : Nat)
    (faults : List Bool) (prog : List Action) :
    let s := run I cfg fuel faults prog
    ∀ t, ∀ r ∈ I.get s.reg t, r.once = true → r.rid ∉ s.c.executed := by
  intro s t r hr ho he
  have := (BF.run_inv I hI cfg fuel prog _ (BF.wf_init I hI faults)).2.2.1 t r hr ho he
  simp at this

end Ebu.Bus

import Ebu.Props.C03Facts
import Ebu.Proofs.ConcProgress
import Ebu.Proofs.ConcTermination
import Ebu.Spec.Flow
/-!
C03 — Concurrent use of the API is free of data races and deadlocks (second part).

`Ebu/Props/C03Facts.lean` holds the data-race half (RW-mutex theorems and the obligations on the lock facts of the current
source, which other properties reuse); this file holds the deadlock half: the deadlock-freedom theorem of the interleaving
model M2 and the obligations that tie M2's steps to the control flow of the current source.
-/
namespace Ebu.Props.C03

/-! ### no deadlock (M2, `Ebu/Model/Conc.lean`): every schedule, any number of goroutines -/

/-- DEADLOCK FREEDOM.  Under every schedule of every program – publishers, subscribers, unsubscribers, `Wait`ers,
async goroutines, Sequential mutexes, the ticket lock of Async+Sequential handlers, handlers that publish – as long
as some goroutine has not finished, some goroutine can take a step.  The only hypothesis is the one exception the
property names: there is a rank on event types along which handler bodies never publish upwards and synchronous
Sequential handlers publish strictly downwards, i.e. no synchronous Sequential handler publishes – directly or through
other synchronously dispatched handlers – an event that is delivered back to itself. -/
theorem deadlock_free (ρ : Nat → Nat) (progs : List (List Ebu.Conc.Op)) (hr : Ebu.Conc.Ranked ρ progs)
    (s : Ebu.Conc.Sys) (h : Ebu.Conc.Reachable progs s) (hu : s.unfinished) : s.canStep :=
  Ebu.Conc.deadlock_free ρ progs hr s h hu

/-- the hypothesis is satisfiable by a program with a Sequential handler publishing to other Sequential handlers, an
Async+Sequential handler that publishes its own type, a Once handler with a filter, cancellation and two `Wait`s … -/
theorem deadlock_free_applies : Ebu.Conc.Ranked Ebu.Conc.ProgressExample.exRank Ebu.Conc.ProgressExample.exProgs :=
  Ebu.Conc.ProgressExample.exProgs_ranked

/-- … and it cannot be dropped: two synchronous Sequential handlers that publish each other's type deadlock two
concurrent publishers (a reachable state in which nobody has finished and nobody can move), so that program has no rank -/
theorem deadlock_needs_the_exception :
    (Ebu.Conc.Reachable Ebu.Conc.ProgressExample.dlProgs Ebu.Conc.ProgressExample.dlState ∧
      Ebu.Conc.ProgressExample.dlState.unfinished ∧ ¬ Ebu.Conc.ProgressExample.dlState.canStep) ∧
    ¬ ∃ ρ, Ebu.Conc.Ranked ρ Ebu.Conc.ProgressExample.dlProgs :=
  ⟨Ebu.Conc.ProgressExample.dl_deadlock, Ebu.Conc.ProgressExample.dlProgs_not_ranked⟩

/-- TERMINATION.  When no handler publishes – directly or through other handlers – an event that is delivered back to
itself (a STRICT rank on event types: every handler body publishes only strictly lower types), every schedule is finite:
the number of steps any schedule of the program can take is bounded by a number that depends on the program alone
(number of subscriptions, body lengths, ranks).  No livelock, whatever the scheduler does. -/
theorem runs_terminate (ρ : Nat → Nat) (progs : List (List Ebu.Conc.Op)) (hr : Ebu.Conc.RankedStrict ρ progs) :
    ∃ bound : Nat, ∀ (sched : List Nat) (s : Ebu.Conc.Sys),
      Ebu.Conc.runSched (Ebu.Conc.initSys progs) sched = some s → sched.length ≤ bound :=
  Ebu.Conc.runs_terminate ρ progs hr

/-- … and every run can be continued to the end, where every goroutine has finished and nothing is in flight: together
with `deadlock_free` and `runs_terminate`, whatever the scheduler does every `Publish`, `Wait` and handler invocation
returns after finitely many steps -/
theorem every_run_completes (ρ : Nat → Nat) (progs : List (List Ebu.Conc.Op)) (hr : Ebu.Conc.RankedStrict ρ progs)
    (s : Ebu.Conc.Sys) (h : Ebu.Conc.Reachable progs s) :
    ∃ (sched : List Nat) (s' : Ebu.Conc.Sys), Ebu.Conc.runSched s sched = some s' ∧ s'.allDone ∧ s'.sh.inflight = 0 :=
  Ebu.Conc.every_run_completes ρ progs hr s h

/-- a strict rank is a rank in the sense of `deadlock_free` (the example program of `deadlock_free_applies`, whose
Async+Sequential handler re-publishes its own type, has a rank but no strict one: it is deadlock free, yet one of its
schedules is only finite because a goroutine's handler body is) -/
theorem strict_rank_is_rank (ρ : Nat → Nat) (progs : List (List Ebu.Conc.Op)) (hr : Ebu.Conc.RankedStrict ρ progs) :
    Ebu.Conc.Ranked ρ progs :=
  Ebu.Conc.rankedStrict_ranked ρ progs hr

/-! ### obligations on the control flow of the CURRENT source (`Ebu/Generated/Flow.lean`, regenerated on every run)

The steps of M2 are what `PublishContext` does in this order; each obligation names one modelling assumption. -/

/-- OBLIGATION: the snapshot is copied under the shard's read lock and the lock is released before the first
handler is looked at; hooks and persistence run before it, with no lock held -/
theorem flow_publish_prelude : Ebu.Flow.publishPrelude = true := by decide +kernel

/-- OBLIGATION: the in-flight count is taken by the publisher before the goroutine exists and given back by a
`defer` registered first thing in the goroutine (so `Wait` cannot miss a goroutine, and a panic or a cancelled
context cannot leak a count) -/
theorem flow_inflight_brackets_goroutine : Ebu.Flow.inflightBracketsGoroutine = true := by decide +kernel

/-- OBLIGATION: tickets are taken by the publisher, turns awaited in the goroutine and released by a `defer`
registered at once (a skipped or panicking invocation passes the turn on: no goroutine waits for a turn that never comes) -/
theorem flow_ticket_discipline : Ebu.Flow.ticketDiscipline = true := by decide +kernel

/-- OBLIGATION: the Sequential mutex is unlocked by a `defer` registered right after the lock, and the recovering
`defer` of a handler invocation is registered before anything else -/
theorem flow_handler_bracket : Ebu.Flow.handlerBracket = true := by decide +kernel

/-- OBLIGATION: both condition variables are used so that no wake-up is lost: the waiter re-checks in a loop, the
state change is followed by a `Broadcast` (`Bus.Wait`'s counter and the ticket lock of Async+Sequential handlers) -/
theorem flow_cond_vars : Ebu.Flow.condVarShape = true := by decide +kernel

end Ebu.Props.C03

import Ebu.Spec.Flow
import Ebu.Props.C03Facts
import Ebu.Spec.Bus
import Ebu.Proofs.BusFrame
import Ebu.Proofs.BusRefine
/-!
C01 — Publish reaches exactly the subscribed handlers, once each, in order

Model: M1 (`Ebu/Model/Bus.lean`). The theorems hold for every program, including handlers that subscribe, unsubscribe, clear, publish, cancel and panic re-entrantly, every fuel, and every routing function `shardOf`.
-/
namespace Ebu.Props.C01
open Ebu.Bus

theorem sharded_lawful (shardOf : Nat → Nat) : (shardedImpl shardOf).Lawful :=
  Ebu.Bus.sharded_lawful shardOf

/-- one step of the machine commutes with the abstraction, for every lawful registry -/
theorem step_refines_flat {R : Type} (I : RegImpl R) (hI : I.Lawful) (cfg : Config) (n : Nat)
    (fr : Frame) (s : St R) (a : Action) :
    absSt I (exec I cfg n fr s a) = exec flatImpl cfg n fr (absSt I s) a :=
  Ebu.Bus.exec_refines I hI cfg n fr s a

theorem sharded_refines_flat {R : Type} (I : RegImpl R) (hI : I.Lawful) (cfg : Config) (fuel : Nat)
    (faults : List Bool) (prog : List Action) :
    absSt I (run I cfg fuel faults prog) = run flatImpl cfg fuel faults prog :=
  Ebu.Bus.run_refines I hI cfg fuel faults prog

theorem subscribe_spec {R : Type} (I : RegImpl R) (hI : I.Lawful) (cfg : Config)
    (rec : Frame → St R → Action → St R) (fr : Frame) (s : St R)
    (ty hid : Nat) (once async seq : Bool) (filt : Option (Nat × Nat)) (body : Nat) (fcancel : Bool) :
    let s' := step I cfg rec fr s (.subscribe ty hid once async seq filt body fcancel)
    I.get s'.reg ty = I.get s.reg ty ++ [⟨s.c.nextRid, ty, hid, once, async, seq, filt, body, fcancel⟩] ∧
    (∀ t, t ≠ ty → I.get s'.reg t = I.get s.reg t) ∧ s'.c.trace = s.c.trace :=
  Ebu.Bus.subscribe_spec I hI cfg rec fr s ty hid once async seq filt body fcancel

/-- `Unsubscribe` removes exactly one registration — the first one of type `ty` whose handler
has the given code pointer — and reports an error iff there is none -/
theorem unsubscribe_spec {R : Type} (I : RegImpl R) (hI : I.Lawful) (cfg : Config)
    (rec : Frame → St R → Action → St R) (fr : Frame) (s : St R) (ty hid : Nat) :
    let s' := step I cfg rec fr s (.unsubscribe ty hid)
    (∀ t, t ≠ ty → I.get s'.reg t = I.get s.reg t) ∧
    ((∃ pre h post, I.get s.reg ty = pre ++ h :: post ∧ h.hid = hid ∧ (∀ x ∈ pre, x.hid ≠ hid) ∧
        I.get s'.reg ty = pre ++ post ∧ s'.c.trace = s.c.trace ++ [.qUnsub fr.depth ty hid true]) ∨
     ((∀ x ∈ I.get s.reg ty, x.hid ≠ hid) ∧ I.get s'.reg ty = I.get s.reg ty ∧
        s'.c.trace = s.c.trace ++ [.qUnsub fr.depth ty hid false])) :=
  Ebu.Bus.unsubscribe_spec I hI cfg rec fr s ty hid

theorem clear_spec {R : Type} (I : RegImpl R) (hI : I.Lawful) (cfg : Config)
    (rec : Frame → St R → Action → St R) (fr : Frame) (s : St R) (ty : Nat) :
    let s' := step I cfg rec fr s (.clear ty)
    I.get s'.reg ty = [] ∧ (∀ t, t ≠ ty → I.get s'.reg t = I.get s.reg t) :=
  Ebu.Bus.clear_spec I hI cfg rec fr s ty

theorem clearAll_spec {R : Type} (I : RegImpl R) (hI : I.Lawful) (cfg : Config)
    (rec : Frame → St R → Action → St R) (fr : Frame) (s : St R) :
    ∀ t, I.get (step I cfg rec fr s .clearAll).reg t = [] :=
  Ebu.Bus.clearAll_spec I hI cfg rec fr s

/-- `HasHandlers` and `HandlerCount` report the registry: the emitted answers are
`length > 0` and `length` of the type's registration list, and they leave it unchanged -/
theorem queries_spec {R : Type} (I : RegImpl R) (cfg : Config)
    (rec : Frame → St R → Action → St R) (fr : Frame) (s : St R) (ty : Nat) :
    (step I cfg rec fr s (.has ty)).c.trace = s.c.trace ++ [.qHas fr.depth ty (decide (0 < (I.get s.reg ty).length))] ∧
    (step I cfg rec fr s (.count ty)).c.trace = s.c.trace ++ [.qCount fr.depth ty (I.get s.reg ty).length] ∧
    (step I cfg rec fr s (.has ty)).reg = s.reg ∧ (step I cfg rec fr s (.count ty)).reg = s.reg :=
  Ebu.Bus.queries_spec I cfg rec fr s ty

theorem registry_wellformed {R : Type} (I : RegImpl R) (hI : I.Lawful) (cfg : Config) (fuel : Nat) (faults : List Bool)
    (prog : List Action) : WF I (run I cfg fuel faults prog) :=
  Ebu.Bus.wf_run I hI cfg fuel faults prog

/-- DELIVERY, soundness: the handlers a publish enters directly are registrations of the
snapshot taken when it began (so: of the published type, never one subscribed during the
delivery), each at most once and in subscription order, with the published type and value
and — for context-aware handlers — the publish context; the async ones it parks likewise -/
theorem publish_sound {R : Type} (I : RegImpl R) (hI : I.Lawful) (cfg : Config) (n : Nat) (fr : Frame)
    (ty v : Nat) (bad : Bool) (sel : CtxSel) (s : St R) :
    let s' := publish I cfg (exec I cfg n) fr ty v bad sel s
    (∃ l, s'.c.trace = s.c.trace ++ l) ∧ (∃ p, s'.c.pending = s.c.pending ++ p) ∧
    List.Sublist ((directEnters fr.depth (newTrace s s')).map (·.1))
      (((I.get s.reg ty).filter (fun r => !r.async)).map (·.rid)) ∧
    (∀ x ∈ directEnters fr.depth (newTrace s s'), x.2.1 = ty ∧ x.2.2.1 = v) ∧
    List.Sublist (((newPending s s').filter (fun q => q.depth == fr.depth)).map (·.reg))
      ((I.get s.reg ty).filter (fun r => r.async)) ∧
    (∀ q ∈ newPending s s', q.depth = fr.depth → q.ty = ty ∧ q.v = v) :=
  Ebu.Bus.publish_sound I hI cfg n fr ty v bad sel s

/-- DELIVERY, completeness: with a context that cannot be cancelled, every registration of
the snapshot whose filter accepts the event is invoked (sync) or parked for invocation
(async) — whatever the other handlers do: unsubscribe it, clear, publish, panic -/
theorem publish_complete {R : Type} (I : RegImpl R) (hI : I.Lawful) (cfg : Config) (n : Nat) (fr : Frame)
    (ty v : Nat) (bad : Bool) (s : St R) (h0 : 0 ∉ s.c.cancelled) (hctx : 0 < s.c.nextCtx) :
    let s' := publish I cfg (exec I cfg n) fr ty v bad .bg s
    ∀ r ∈ I.get s.reg ty, r.accepts v = true →
      (r.once = false → r.async = false → ∃ ctx, (r.rid, ty, v, ctx) ∈ directEnters fr.depth (newTrace s s')) ∧
      (r.once = false → r.async = true → ∃ q ∈ newPending s s', q.reg = r ∧ q.depth = fr.depth ∧ q.v = v) ∧
      (r.once = true → r.rid ∈ s'.c.executed) :=
  Ebu.Bus.publish_complete I hI cfg n fr ty v bad s h0 hctx

/-- exactly once: in a well-formed registry the rids entered directly are pairwise distinct -/
theorem publish_at_most_once {R : Type} (I : RegImpl R) (hI : I.Lawful) (cfg : Config) (n : Nat) (fr : Frame)
    (ty v : Nat) (bad : Bool) (sel : CtxSel) (s : St R) (hwf : WF I s) :
    let s' := publish I cfg (exec I cfg n) fr ty v bad sel s
    ((directEnters fr.depth (newTrace s s')).map (·.1)).Nodup :=
  Ebu.Bus.publish_at_most_once I hI cfg n fr ty v bad sel s hwf

/-- `Subscribe appends`, `Unsubscribe removes exactly the first registration …` describe whole API calls: every
registry mutator of the CURRENT source looks up and updates `shard.handlers` inside ONE write-locked critical section
(fact table regenerated on every run), so concurrent callers cannot lose or resurrect each other's registrations -/
theorem registry_calls_atomic : Ebu.Locks.RegistryOpsAtomic Ebu.Generated.accessFacts = true :=
  Ebu.Props.C03.facts_registry_ops_atomic

/-! ### obligations on the control flow of the CURRENT source (`Ebu/Generated/Flow.lean`, regenerated from /repo on every run) -/

/-- OBLIGATION: `PublishContext` copies the registrations of the type under the shard's read lock, releases it, and only then walks the copy (M1's `publish` takes its snapshot before any handler runs) -/
theorem flow_snapshot_then_dispatch : Ebu.Flow.publishPrelude = true := by decide +kernel

/-- OBLIGATION: one snapshot entry is handled in the order filter, once claim, dispatch – inside the loop over the snapshot -/
theorem flow_dispatch_order : Ebu.Flow.dispatchOrder = true := by decide +kernel

/-- OBLIGATION: fired once handlers are removed after the loop, under the write lock, by pointer identity of the registration, one entry each -/
theorem flow_retire_by_identity : Ebu.Flow.retireByIdentity = true := by decide +kernel

/-- OBLIGATION: `Subscribe` / `SubscribeContext` apply the options (refusing a nil one) before the registration becomes visible and append it – once – under the shard's write lock -/
theorem flow_subscribe_shape : Ebu.Flow.subscribeShape = true := by decide +kernel

/-- OBLIGATION: `Unsubscribe` removes, under the write lock, the FIRST registration with the given code pointer and returns at once (exactly one registration); `handler not found` only after the whole list was searched -/
theorem flow_unsubscribe_first_match : Ebu.Flow.unsubscribeShape = true := by decide +kernel

/-- OBLIGATION: `Clear` deletes the type's entry, `ClearAll` replaces every shard's map, each under the shard's write lock -/
theorem flow_clear_shape : Ebu.Flow.clearShape = true := by decide +kernel

end Ebu.Props.C01

import Ebu.Spec.Locks
import Ebu.Generated.Consts
import Ebu.Model.Inflight
import Ebu.Model.RegistrySteps
import Ebu.Proofs.Locks
/-!
C03 — Concurrent use of the API is free of data races and deadlocks.

Two layers.  (1) Generic theorems about RW-mutex semantics (M11): a reachable mutex never has
two goroutines holding it in conflicting modes, hence under the lock discipline no two
goroutines are positioned at conflicting accesses to one location.  (2) Obligations on the
CURRENT source: the access, callback and nesting tables in `Ebu/Generated/LockFacts.lean` are
regenerated from /repo on every run by /verif/go/extract, and the discipline predicates are
evaluated on them by the kernel (`decide`).  What is trusted: that the extractor reports every
access with the lock set that really is held there (syntactic analysis, see DESIGN.md), and the
Go memory model ("properly locked ⇒ race free").
-/
namespace Ebu.Props.C03
open Ebu.Locks Ebu.Generated

/-- a reachable mutex never has two goroutines holding it in conflicting modes -/
theorem no_conflicting_holders (l : RW) (h : RW.Reachable l) (t u : Nat) (htu : t ≠ u)
    (ht : l.mode t = 2) (hu : 1 ≤ l.mode u) : False :=
  Ebu.Locks.no_conflicting_holders l h t u htu ht hu

/-- lock discipline ⇒ no data race: two accesses of the table to one location, at least one of
them a write, neither atomic, cannot be performed by two different goroutines at the same time –
whatever state the location's guard mutex is in -/
theorem discipline_implies_no_race (facts : List AccessFact) (hd : Discipline facts = true)
    (a b : AccessFact) (ha : a ∈ facts) (hb : b ∈ facts) (hconf : a.write = true ∨ b.write = true)
    (hna : a.atomic = false) (hnb : b.atomic = false)
    (l : RW) (hl : RW.Reachable l) (t u : Nat) (htu : t ≠ u)
    (hta : l.mode t = a.guardMode) (hub : l.mode u = b.guardMode) : False := by
  have hA : accessOk a = true := List.all_eq_true.mp hd a ha
  have hB : accessOk b = true := List.all_eq_true.mp hd b hb
  simp only [accessOk, hna, hnb] at hA hB
  rcases hconf with hw | hw
  · simp [hw] at hA
    cases hbw : b.write <;> simp [hbw] at hB
    · exact Ebu.Locks.no_conflicting_holders l hl t u htu (by omega) (by omega)
    · exact Ebu.Locks.no_conflicting_holders l hl t u htu (by omega) (by omega)
  · simp [hw] at hB
    cases haw : a.write <;> simp [haw] at hA
    · exact Ebu.Locks.no_conflicting_holders l hl u t (Ne.symm htu) (by omega) (by omega)
    · exact Ebu.Locks.no_conflicting_holders l hl u t (Ne.symm htu) (by omega) (by omega)

/-- OBLIGATION on the current source: every access to shared state follows the discipline -/
theorem facts_discipline : Discipline accessFacts = true := by decide

/-- OBLIGATION: handlers, filters, hooks and error/panic handlers run with no bus lock held
(so they may call back into the bus without self-deadlock), and store appends are serialised -/
theorem facts_callbacks_lock_free : CallbacksOk callbackFacts = true := by decide

/-- OBLIGATION: upcaster validation and insertion are one write-locked critical section
(racing registrations are therefore sequentially consistent: C16's acyclicity carries over) -/
theorem facts_register_atomic : RegisterAtomic accessFacts = true := by decide

/-- OBLIGATION: Subscribe, SubscribeContext, Unsubscribe, Clear and ClearAll each look up and update the registry
inside ONE write-locked critical section (an `Unsubscribe` that finds its handler under one lock acquisition and
removes "the element at that index" under another removes somebody else's registration when two removals overlap);
this is what lets the interleaving model M2 treat them as single atomic steps -/
theorem facts_registry_ops_atomic : RegistryOpsAtomic accessFacts = true := by decide

/-- the obligation above is not decoration (M2r): removals done atomically touch nobody else's registration in
either lock order, while "find the index, release, re-lock, cut that index" lets two overlapping removals leave
an unsubscribed handler registered and delete one nobody unsubscribed -/
theorem two_phase_unsubscribe_is_wrong :
    (∀ (r : Ebu.RegistrySteps.Reg) (a b c : Nat), c ≠ a → c ≠ b →
      (Ebu.RegistrySteps.removeAtomic (Ebu.RegistrySteps.removeAtomic r a) b).count c = r.count c) ∧
    Ebu.RegistrySteps.removeAt (Ebu.RegistrySteps.removeAt [10, 20, 30] 0) 1 = [20] :=
  ⟨fun r a b c hca hcb => (Ebu.RegistrySteps.atomic_removals_exact r a b).2 c hca hcb, by decide⟩

/-- OBLIGATION + consequence: `inflight.done` in the current source broadcasts when the count reaches zero and
`inflight.wait` re-checks the count in a loop; hence (M2w, `Ebu/Model/Inflight.lean`) with any number of goroutines
in `Wait` and under every schedule nobody stays parked on the condition variable while nothing is in flight – `Wait`
cannot deadlock by a lost wake-up (with `Signal` it can: `Ebu.Inflight.signal_loses_wakeup`) -/
theorem wait_wakes_every_waiter (ops : List Ebu.Inflight.Op) :
    Ebu.Generated.Consts.inflightDoneWake = "Broadcast" ∧ Ebu.Generated.Consts.inflightWaitRechecks = true ∧
    Ebu.Inflight.NoLostWakeup (Ebu.Inflight.run .broadcast ops) :=
  ⟨by decide, by decide, Ebu.Inflight.broadcast_no_lost_wakeup ops⟩

/-- OBLIGATION: `MemoryStore.Append` takes the next offset and inserts the record inside one write-locked critical
section: concurrent appenders (two buses on one store, or direct use) cannot put a later offset into the log first -/
theorem facts_memstore_append_atomic : MemAppendAtomic accessFacts = true := by decide

/-- OBLIGATION: locks are nested only along one fixed order: no lock-order cycle -/
theorem facts_nesting_ordered : NestingOk nestingFacts = true := by decide

/-- the shard index computed by `getShard` is always a valid index, and uses every shard:
`h & (numShards-1)` equals `h mod numShards` for the constant in the source -/
theorem shard_index_in_range (h : Nat) :
    h &&& (numShards - 1) < numShards ∧ h &&& (numShards - 1) = h % numShards := by
  have : numShards = 2 ^ 5 := by decide
  rw [this]
  constructor
  · have := Nat.and_le_right (n := h) (m := 2 ^ 5 - 1); omega
  · exact Nat.and_two_pow_sub_one_eq_mod h 5

/-- OBLIGATION: `getShard` in the current source computes exactly that expression – FNV-1a (32 bit)
of the type's string, masked with `numShards - 1` – which is also what the model driver routes with -/
theorem shard_routing_matches_source :
    Ebu.Generated.Consts.shardIndexIsMask = true ∧ Ebu.Generated.Consts.shardHashIsFnv1a32 = true ∧
    Ebu.Generated.Consts.shardKeyIsTypeString = true := by decide

/-- non-vacuity: the tables are not empty and contain writes, reads and atomics -/
example : accessFacts.length > 40 ∧ accessFacts.any (·.write) = true ∧ accessFacts.any (·.atomic) = true ∧
    callbackFacts.length > 10 := by decide

end Ebu.Props.C03

import Ebu.Proofs.ConcCancelWitness
import Ebu.Proofs.ConcAsyncLive
import Ebu.Spec.Flow
import Ebu.Spec.Bus
import Ebu.Proofs.BusFrame
/-!
C08 — Cancellation, context propagation and publish hooks behave predictably


-/
namespace Ebu.Props.C08
open Ebu.Bus

/-- C08/C04: a publish whose context is already cancelled runs no handler, parks none,
consumes no once handler and leaves the registry alone -/
theorem cancelled_before_no_handler {R : Type} (I : RegImpl R) (hI : I.Lawful) (cfg : Config) (n : Nat) (fr : Frame)
    (ty v : Nat) (bad : Bool) (s : St R) :
    let s' := publish I cfg (exec I cfg n) fr ty v bad .dead s
    (∀ e ∈ newTrace s s', isEnter e = false) ∧ s'.c.pending = s.c.pending ∧
    s'.c.executed = s.c.executed ∧ (∀ t, I.get s'.reg t = I.get s.reg t) :=
  Ebu.Bus.dead_publish_inert I hI cfg n fr ty v bad s

/-- C08: once the publish context is cancelled no further handler of that publish is started:
the rest of the dispatch loop enters nothing, parks nothing, claims nothing -/
theorem cancel_stops_dispatch {R : Type} (cfg : Config) (rec : Frame → St R → Action → St R)
    (ty v root obs d : Nat) (s : St R) (claimed : List Reg) (rest : List Reg) (hdead : s.c.live root = false) :
    let out := rest.foldl (deliver cfg rec ty v root obs d) (s, claimed)
    out.2 = claimed ∧ out.1.c.executed = s.c.executed ∧ out.1.reg = s.reg ∧ out.1.c.pending = s.c.pending ∧
    (∀ e ∈ newTrace s out.1, isEnter e = false) :=
  Ebu.Bus.cancelled_loop_inert cfg rec ty v root obs d s claimed rest hdead

/-- C08: a filter is user code that runs inside the dispatch loop and may cancel the context handed to
`PublishContext`.  If the filter of registration `r` does so (a real context: `root ≠ 0`), then this publish
starts no further handler: neither `r` itself nor any later registration `rest` of the snapshot is entered,
parked or claimed (whether or not the filter accepts the event), and the context stays cancelled -/
theorem filter_cancel_stops_dispatch {R : Type} (cfg : Config) (rec : Frame → St R → Action → St R)
    (ty v root obs d : Nat) (s : St R) (claimed : List Reg) (r : Reg) (rest : List Reg)
    (hfilt : r.filt.isSome = true) (hcan : r.filtCancels = true) (hroot : root ≠ 0) :
    let mid := deliver cfg rec ty v root obs d (s, claimed) r
    let out := (r :: rest).foldl (deliver cfg rec ty v root obs d) (s, claimed)
    mid.1.c.cancelled = root :: s.c.cancelled ∧ mid.1.c.live root = false ∧ out.1.c.live root = false ∧
    out.2 = claimed ∧ out.1.c.executed = s.c.executed ∧ out.1.reg = s.reg ∧ out.1.c.pending = s.c.pending ∧
    (∀ e ∈ newTrace s out.1, isEnter e = false) :=
  Ebu.Bus.filter_cancel_stops_dispatch cfg rec ty v root obs d s claimed r rest hfilt hcan hroot

/-- C08 hooks: the events a publish appends are `pre ++ mid ++ post` where `pre` holds the
before-hooks (each configured one exactly once, legacy first) and ends before the first
handler, `post` holds the after-hooks, and `mid` (the dispatch loop, where every handler of
this publish is entered and returns) contains no hook of this publish -/
theorem hooks_exactly_once_ordered {R : Type} (I : RegImpl R) (hI : I.Lawful) (cfg : Config) (n : Nat) (fr : Frame)
    (ty v : Nat) (bad : Bool) (sel : CtxSel) (s : St R) :
    let s' := publish I cfg (exec I cfg n) fr ty v bad sel s
    ∃ pre mid post, newTrace s s' = pre ++ mid ++ post ∧
      pre.filter (isHookAt fr.depth) =
        (if cfg.hookBL then [Ev.hook fr.depth .bl ty v] else []) ++ (if cfg.hookBC then [Ev.hook fr.depth .bc ty v] else []) ∧
      post.filter (isHookAt fr.depth) =
        (if cfg.hookAL then [Ev.hook fr.depth .al ty v] else []) ++ (if cfg.hookAC then [Ev.hook fr.depth .ac ty v] else []) ∧
      mid.filter (isHookAt fr.depth) = [] ∧
      (∀ e ∈ pre, isEnter e = false) ∧ (∀ e ∈ post, isEnter e = false) ∧
      directEnters fr.depth (newTrace s s') = directEnters fr.depth mid :=
  Ebu.Bus.publish_hooks I hI cfg n fr ty v bad sel s

/-- DELIVERY, soundness: the handlers a publish enters directly are registrations of the
snapshot taken when it began (so: of the published type, never one subscribed during the
delivery), each at most once and in subscription order, with the published type and value
and — for context-aware handlers — the publish context; the async ones it parks likewise -/
theorem ctx_and_value_propagate {R : Type} (I : RegImpl R) (hI : I.Lawful) (cfg : Config) (n : Nat) (fr : Frame)
    (ty v : Nat) (bad : Bool) (sel : CtxSel) (s : St R) :
    let s' := publish I cfg (exec I cfg n) fr ty v bad sel s
    (∃ l, s'.c.trace = s.c.trace ++ l) ∧ (∃ p, s'.c.pending = s.c.pending ++ p) ∧
    List.Sublist ((directEnters fr.depth (newTrace s s')).map (·.1))
      (((I.get s.reg ty).filter (fun r => !r.async)).map (·.rid)) ∧
    (∀ x ∈ directEnters fr.depth (newTrace s s'), x.2.1 = ty ∧ x.2.2.1 = v) ∧
    List.Sublist (((newPending s s').filter (fun q => q.depth == fr.depth)).map (·.reg))
      ((I.get s.reg ty).filter (fun r => r.async)) ∧
    (∀ q ∈ newPending s s', q.depth = fr.depth → q.ty = ty ∧ q.v = v) :=
  Ebu.Bus.publish_sound I hI cfg n fr ty v bad sel s

/-- non-vacuity of `filter_cancel_stops_dispatch`: two handlers on type 1, the first with an accepting filter that
cancels the publish context; a publish with a fresh context evaluates the filter and enters nobody, whereas without
the cancellation both handlers run -/
example :
    (run flatImpl { bodies := [[]] } 3 []
      [.subscribe 1 0 false false false (some (1, 0)) 0 true, .subscribe 1 1 false false false none 0 false,
       .publish 1 5 false .fresh]).c.trace = [.filt 0 0 5 true] ∧
    (run flatImpl { bodies := [[]] } 3 []
      [.subscribe 1 0 false false false (some (1, 0)) 0 false, .subscribe 1 1 false false false none 0 false,
       .publish 1 5 false .fresh]).c.trace =
      [.filt 0 0 5 true, .enter 1 0 1 5 none false, .exit 1 0, .enter 1 1 1 5 none false, .exit 1 1] := by
  decide

/-! ### obligations on the control flow of the CURRENT source (`Ebu/Generated/Flow.lean`, regenerated from /repo on every run) -/

/-- OBLIGATION: publish-start callback, before-hooks (each once, outside every loop), persistence, snapshot – in this order, before the dispatch loop -/
theorem flow_hooks_before_dispatch : Ebu.Flow.publishPrelude = true := by decide +kernel

/-- OBLIGATION: after-hooks and the publish-complete callback come after the loop and the retirement, each once, outside every loop, and no path of `PublishContext` returns before them -/
theorem flow_hooks_after_dispatch : Ebu.Flow.publishEpilogue = true := by decide +kernel

/-- OBLIGATION: each of the two handler call sites sits in the `default` branch of a `select` on `ctx.Done()` (synchronous: `continue`; async goroutine: `return`) -/
theorem flow_calls_guarded_by_ctx : Ebu.Flow.callsGuardedByCtx = true := by decide +kernel

/-! ### cancellation under concurrency (M2): the wait for a Sequential handler's mutex -/

/-- C08 under concurrency: a SYNCHRONOUS handler is never entered for a publish whose context is cancelled – also when
its goroutine had to wait for the handler's Sequential mutex (the context is checked again once the mutex is held: the
`fix:` commit 1feea95): every step that emits a synchronous entry is taken by a goroutine whose innermost publish
context is live before the step -/
theorem sync_entry_only_if_live (sh : Ebu.Conc.Shared) (th : Ebu.Conc.Thread) (o : Ebu.Conc.Out)
    (h : Ebu.Conc.step sh th = some o) (rid ty v : Nat) (he : Ebu.Conc.Obs.enter rid ty v false ∈ o.obs) :
    ∃ f fs, th.frames = f :: fs ∧ sh.live f.ctx = true :=
  Ebu.Conc.CancelWitness.sync_entry_only_if_live sh th o h rid ty v he

/-- … and on the schedule of the former defect (goroutine 1 has passed its context check and waits for the handler's
mutex, context 1 is cancelled, goroutine 0 leaves the handler) goroutine 1's next step enters nothing: the handler is
skipped.  The same history is replayed on the real code by the `seqcancel` scenario of the `stress` domain. -/
theorem cancelled_waiter_is_skipped :
    Ebu.Conc.entriesOfReg 0 Ebu.Conc.CancelWitness.cwAfter.tr = Ebu.Conc.entriesOfReg 0 Ebu.Conc.CancelWitness.cwState.tr :=
  Ebu.Conc.CancelWitness.cancelled_waiter_is_skipped

/-- … and the asynchronous half: the goroutine of an Async handler enters the handler only while the context of the
publish it was started for is live – whether it checks right at its start (plain Async) or after it has waited for its
turn and for the handler's mutex (Async+Sequential) – and what it enters is exactly the delivery it was started for -/
theorem async_entry_only_if_live (progs : List (List Ebu.Conc.Op)) (x : Ebu.Conc.SysT) (h : Ebu.Conc.ReachableT progs x)
    (i : Nat) (th : Ebu.Conc.Thread) (o : Ebu.Conc.Out) (hi : x.s.ths[i]? = some th)
    (hstep : Ebu.Conc.step x.s.sh th = some o) (rid ty v : Nat) (he : Ebu.Conc.Obs.enter rid ty v true ∈ o.obs) :
    ∃ j, th.job = some j ∧ x.s.sh.live j.ctx = true ∧ rid = j.reg.rid ∧ ty = j.ty ∧ v = j.v :=
  Ebu.Conc.async_entry_only_if_live h i th o hi hstep rid ty v he

/-- a goroutine whose publish context is cancelled before it has entered its handler never enters it, however the run
goes on -/
theorem cancelled_job_never_enters_later (progs : List (List Ebu.Conc.Op)) (x x2 : Ebu.Conc.SysT)
    (h : Ebu.Conc.ReachableT progs x) (hs : Ebu.Conc.StepsT x x2) (i : Nat) (th : Ebu.Conc.Thread) (j : Ebu.Conc.Job)
    (hi : x.s.ths[i]? = some th) (hj : th.job = some j) (hdead : x.s.sh.live j.ctx = false)
    (hnot : Ebu.Conc.asyncEntersOf i x.tr = []) :
    Ebu.Conc.asyncEntersOf i x2.tr = [] ∧ x2.s.sh.live j.ctx = false ∧
    ∃ th2, x2.s.ths[i]? = some th2 ∧ th2.job = some j :=
  Ebu.Conc.cancelled_job_never_enters_later h hs i th j hi hj hdead hnot

end Ebu.Props.C08

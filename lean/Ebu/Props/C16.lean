import Ebu.Spec.Flow
import Ebu.Model.Upcast
import Ebu.Proofs.Upcast
import Ebu.Props.C03Facts
/-!
C16 — Upcaster registration can never create a cycle and upcasting always terminates.

Property theorems only (helper lemmas live in `Ebu/Proofs/Upcast.lean`).  All quantifiers
are unbounded: every graph, every sequence of operations, every choice of returned types.
-/
namespace Ebu.Props.C16
open Ebu.Upcast

/-- the search terminates within the fuel the model hands it: the Go recursion terminates -/
theorem dfs_fuel_sufficient (g : Graph) (src dst : Nat) : wouldCreateCycle g src dst ≠ none :=
  Ebu.Upcast.wouldCreateCycle_ne_none g src dst

/-- the cycle check decides reachability: it answers `true` exactly when the target
already reaches the source through registered (declared) edges -/
theorem dfs_iff_reach (g : Graph) (src dst : Nat) :
    wouldCreateCycle g src dst = some true ↔ Reach g dst src :=
  Ebu.Upcast.wouldCreateCycle_iff_reach g src dst

/-- a registration is accepted exactly when both names are non-empty, they differ, the
function is not nil and the target does not already reach the source -/
theorem register_accepts_iff (g : Graph) (u : Upcaster) (nilFn : Bool) :
    (∃ g', register g u nilFn = .ok g') ↔
      (u.src ≠ 0 ∧ u.dst ≠ 0 ∧ u.src ≠ u.dst ∧ nilFn = false ∧ ¬ Reach g u.dst u.src) :=
  Ebu.Upcast.register_accepts_iff g u nilFn

/-- an accepted registration appends exactly that upcaster; a rejected one changes nothing
(the model's `register` returns no graph on rejection, callers keep the old one) -/
theorem register_ok_appends (g g' : Graph) (u : Upcaster) (nilFn : Bool)
    (h : register g u nilFn = .ok g') : g' = g ++ [u] :=
  Ebu.Upcast.register_ok_appends g g' u nilFn h

/-- the registered graph is acyclic after every sequence of registrations and clears -/
theorem acyclic_invariant (ops : List Op) : Acyclic (ops.foldl applyOp []) :=
  Ebu.Upcast.acyclic_run ops

/-- applying upcasts terminates for EVERY registry (even one that is not acyclic) and every
choice of returned type names by raw upcasters: the fuel is never exhausted -/
theorem apply_terminates (g : Graph) (h : Bool) (d : List Nat) (t : Nat) :
    (apply g h d t).err ≠ some .fuel :=
  Ebu.Upcast.apply_no_fuel g h d t

/-- … and it calls at most one upcast function per registered upcaster, plus one -/
theorem apply_calls_bounded (g : Graph) (h : Bool) (d : List Nat) (t : Nat) :
    (apply g h d t).calls.length ≤ g.length + 1 :=
  Ebu.Upcast.apply_calls_le g h d t

/-- "also when registrations race": validation and insertion are one write-locked critical
section in the CURRENT source (fact table regenerated from upcast.go on every run), so racing
registrations are equivalent to some sequential order and `acyclic_invariant` applies -/
theorem racing_registrations_serialised :
    Ebu.Locks.RegisterAtomic Ebu.Generated.accessFacts = true :=
  Ebu.Props.C03.facts_register_atomic

/-- non-vacuity: a three-node registry built through `register`, where the closing edge is
rejected and a rogue upcaster (declared 1→2, returns 1) is stopped by `apply` -/
example :
    (register [] ⟨1, 2, 1, false, 7⟩ false = .ok [⟨1, 2, 1, false, 7⟩]) ∧
    (∃ g, register [⟨1, 2, 2, false, 7⟩, ⟨2, 3, 3, false, 8⟩] ⟨3, 4, 4, false, 9⟩ false = .ok g) ∧
    (register [⟨1, 2, 2, false, 7⟩, ⟨2, 3, 3, false, 8⟩] ⟨3, 1, 1, false, 9⟩ false = .error .cycle) ∧
    ((apply [⟨1, 2, 1, false, 7⟩] false [5] 1).err = some .loop) := by
  refine ⟨rfl, ⟨_, rfl⟩, rfl, by decide⟩


/-! ### obligations on the control flow of the CURRENT source (`Ebu/Generated/Flow.lean`, regenerated from /repo on every run) -/

/-- OBLIGATION: `register` validates its arguments, then – under the write lock, unlocked by a `defer` registered at
once – runs the cycle check and inserts the upcaster (M6's `register` is check-then-insert in one step) -/
theorem flow_register_shape : Ebu.Flow.registerShape = true := by decide +kernel

/-- OBLIGATION: `apply` marks the current type, refuses a declared target that was already seen, calls the upcaster,
and refuses a RETURNED type that was already seen before it advances – the two guards `apply_terminates` rests on -/
theorem flow_apply_shape : Ebu.Flow.applyShape = true := by decide +kernel

end Ebu.Props.C16

import Ebu.Spec.Flow
import Ebu.Generated.Consts
import Ebu.Props.C03Facts
import Ebu.Proofs.PersistConc
import Ebu.Generated.SqlFacts
import Ebu.Spec.Log
import Ebu.Proofs.Log
/-!
C10 — Every bundled store behaves as one append-only, resumable log

Models: M3 (`Ebu/Model/Log.lean`). `PagedSpec` is the contract of `EventStore.Read`; the memory and SQLite stores are proved to satisfy it (SQLite with offsets compared as numbers), and every store that satisfies it is proved to reproduce the log under any chain of reads. Known findings (see /verif/known_findings.json): SQLite offsets are not lexicographically ordered; the durable-streams store does not satisfy the contract when `limit` truncates a chunk — witness theorems below, plus the `_partial` statements that do hold.
-/
namespace Ebu.Props.C10
open Ebu.Log Ebu.Replay

/-- zero-padded offsets compare like the numbers they denote (this is why `%020d` makes the
memory store's string comparison correct; a Go int64 is below 10^20) -/
theorem memory_offsets_lexicographic (a b : Nat) (ha : a < 10 ^ 20) (hb : b < 10 ^ 20) :
    lexLt (fmt20 a) (fmt20 b) = decide (a < b) :=
  Ebu.Log.lexLt_fmt20 a b ha hb

theorem int64_fits_20_digits : maxInt64 < 10 ^ 20 :=
  Ebu.Log.maxInt64_lt 

theorem memory_log (rs : List Rec) :
    (memOf rs).events = logWith fmt20 rs ∧ (memOf rs).next = rs.length :=
  Ebu.Log.mem_log rs

theorem memory_satisfies_contract (rs : List Rec) (h : rs.length < 10 ^ 20) :
    PagedSpec (fun o l => some ((memOf rs).read o l)) fmt20 (logWith fmt20 rs) :=
  Ebu.Log.mem_paged rs h

theorem memory_stream_eq_read (rs : List Rec) (h : rs.length < 10 ^ 20) (j : Nat) (hj : j ≤ rs.length) :
    (memOf rs).stream (resumeAt fmt20 j) = ((memOf rs).read (resumeAt fmt20 j) 0).1 ∧
    (memOf rs).stream (resumeAt fmt20 j) = (logWith fmt20 rs).drop j :=
  Ebu.Log.mem_stream_eq_read rs h j hj

theorem memory_offsets_table (m : Mem) (id id' : String) (o : Off) :
    (m.save id o).load id = o ∧ (id' ≠ id → (m.save id o).load id' = m.load id') ∧
    (({} : Mem).load id = []) ∧ (m.save id o).events = m.events :=
  Ebu.Log.mem_offsets_table m id id' o

/-- SQLite offsets round-trip through ParseInt -/
theorem sqlite_offset_roundtrip (n : Nat) (h : n ≤ maxInt64) : sqlParse (decimal n) = some (n : Int) :=
  Ebu.Log.sqlParse_decimal n h

theorem sqlite_log (rs : List Rec) :
    (sqlOf rs).rows = ((List.range rs.length).zip rs).map (fun (i, r) => (i + 1, r)) ∧ (sqlOf rs).seq = rs.length :=
  Ebu.Log.sql_log rs

theorem sqlite_satisfies_contract_numeric (rs : List Rec) (h : rs.length ≤ maxInt64) :
    PagedSpec (sqlOf rs).read decimal (logWith decimal rs) :=
  Ebu.Log.sql_paged rs h

/-- a cursor that is not a number is rejected, never silently treated as "oldest" -/
theorem sqlite_garbage_rejected (s : Sql) (o : Off) (limit : Int) (h : sqlParse o = none) :
    s.read o limit = none ∧ s.save "x" o = none :=
  Ebu.Log.sql_garbage_rejected s o limit h

theorem sqlite_offsets_table (s s' : Sql) (id id' : String) (n : Nat) (hn : n ≤ maxInt64)
    (h : s.save id (decimal n) = some s') :
    s'.load id = decimal n ∧ (id' ≠ id → s'.load id' = s.load id') ∧ s'.rows = s.rows :=
  Ebu.Log.sql_offsets_table s s' id id' n hn h

/-- KNOWN FINDING (C10): unpadded decimal offsets do NOT increase under the documented
lexicographic comparison: offset "10" sorts before offset "9" -/
theorem sqlite_offsets_not_lex : lexLt (decimal 10) (decimal 9) = true :=
  Ebu.Log.sqlite_offsets_not_lex 

/-- any chain of reads with any limits, resumed from the returned next offsets, cuts the log
into consecutive pages: no gap and no repeat -/
theorem chain_reads_reproduce_log (read : Off → Int → Option (List (Off × Rec) × Off)) (off : Nat → Off)
    (all : List (Off × Rec)) (hs : PagedSpec read off all) (j : Nat) (hj : j ≤ all.length) (limits : List Int) :
    chainReads read (resumeAt off j) limits = some (pages (all.drop j) limits) :=
  Ebu.Log.chain_reads_reproduce_log read off all hs j hj limits

/-- … and the same holds when a read is resumed from the offset of ANY returned event:
the offset of event number `j` is the resume point `j` -/
theorem resume_from_event_offset (read : Off → Int → Option (List (Off × Rec) × Off)) (off : Nat → Off)
    (all : List (Off × Rec)) (hs : PagedSpec read off all) (j : Nat) (hj : j < all.length) (limit : Int) :
    read (all[j]).1 limit = some (sel (all.drop (j + 1)) limit, resumeAt off (j + 1 + (sel (all.drop (j + 1)) limit).length)) :=
  Ebu.Log.resume_from_event_offset read off all hs j hj limit

theorem ds_offsets_lexicographic (a b : Nat) (ha : a < 10 ^ 10) (hb : b < 10 ^ 10) :
    lexLt (fmt10 a) (fmt10 b) = decide (a < b) :=
  Ebu.Log.lexLt_fmt10 a b ha hb

/-- KNOWN FINDING (C10/C11/C12): `Read` truncates the chunk to `limit` but returns the
chunk's end as next offset: the rest of the chunk is lost for every chain of reads.
5 events, one chunk: Read(oldest, 2) returns 2 events, the next Read returns nothing. -/
theorem ds_limit_loses_events :
    ∃ evs next, (dsOf 5 [1, 2, 3, 4, 5]).read [] 2 = some (evs, next) ∧ evs.map (·.2) = [1, 2] ∧
      (dsOf 5 [1, 2, 3, 4, 5]).read next 2 = some ([], next) :=
  Ebu.Log.ds_limit_loses_events 

/-- KNOWN FINDING (C10/C12): the offset of a returned event is not a resume point: resuming
from the FIRST event's (synthetic) offset skips the whole chunk -/
theorem ds_event_offset_not_resumable :
    ∃ evs next, (dsOf 5 [1, 2, 3, 4, 5]).read [] 0 = some (evs, next) ∧ evs.length = 5 ∧
      ∃ o, evs.head? = some (o, 1) ∧ ((dsOf 5 [1, 2, 3, 4, 5]).read o 0).map (·.1.map (·.2)) = some [] :=
  Ebu.Log.ds_event_offset_not_resumable 

/-- what does hold: reads that do not truncate (`limit ≤ 0` or `limit ≥ chunk`), chained
through the returned next offsets, return consecutive chunks of the log -/
theorem ds_read_untruncated_partial (chunk : Nat) (hc : 0 < chunk) (rs : List Rec) (h : rs.length < 10 ^ 10)
    (j : Nat) (hj : j ≤ rs.length) (limit : Int) (hl : limit ≤ 0 ∨ (chunk : Int) ≤ limit) :
    ∃ evs, (dsOf chunk rs).read (if j = 0 then [] else fmt10 j) limit = some (evs, fmt10 (j + evs.length)) ∧
      evs.map (·.2) = (rs.drop j).take chunk :=
  Ebu.Log.ds_read_untruncated_partial chunk hc rs h j hj limit hl

/-- KNOWN FINDING (C10): offsets are opaque strings whose format the event store defines, but the SQLite store keeps
saved positions as integers: the memory store's offset of record 3 is accepted and comes back as `"3"` -/
theorem sqlite_saved_offset_not_verbatim :
    ((Sql.save {} "s" (fmt20 3)).map (fun s => s.load "s")) = some (decimal 3) ∧ decimal 3 ≠ fmt20 3 :=
  Ebu.Log.sqlite_saved_offset_not_verbatim 

/-- concurrent appenders, every schedule (M2p read as "threads calling MemoryStore.Append": reserve-and-insert is
one step because both happen under the store's write lock, see `memory_store_locked` below): offsets are handed out
1, 2, 3, … in log order, one record per append, and without the lock two appenders can get the same offset -/
theorem concurrent_appends_increasing (recs sched : List Nat) :
    let s := Ebu.PersistConc.run recs sched
    s.log.map (·.1) = List.range' 1 s.log.length ∧ (s.log.map (·.2)).Perm (Ebu.PersistConc.persistedRecs s) ∧
    (([0, 1, 0, 1].foldl Ebu.PersistConc.ustepAt { threads := [{ record := 7 }, { record := 8 }] }).log.map (·.1)) = [1, 1] :=
  ⟨(Ebu.PersistConc.offsets_ok recs sched).1, Ebu.PersistConc.log_ok recs sched, Ebu.PersistConc.unlocked_duplicates_offsets⟩

/-- … and `MemoryStore.Append` is that one step in the CURRENT source: offset reservation and insertion share one
write-locked critical section; the SQLite store leaves its connection pool unconstrained (an in-memory database lives as
long as one connection is open, and a reader must not starve a writer of connections) -/
theorem memory_append_one_step_sqlite_pool_free : Ebu.Locks.MemAppendAtomic Ebu.Generated.accessFacts = true ∧
    Ebu.Generated.Sql.poolCalls = [] :=
  ⟨Ebu.Props.C03.facts_memstore_append_atomic, by decide⟩

/-- the memory store's offset counter and event slice are only touched under its mutex (write
locked for Append) in the CURRENT source: concurrent appenders cannot interleave "reserve offset"
and "insert", so offsets increase in log order under every schedule -/
theorem memory_store_locked : Ebu.Locks.Discipline Ebu.Generated.accessFacts = true :=
  Ebu.Props.C03.facts_discipline

/-- the model's memory-store offsets (`fmt20` = 20 zero-padded digits) are what the CURRENT source
formats (`fmt.Sprintf` verb extracted from MemoryStore.Append on every run), the oldest-offset
literal is the empty string, and the SQLite store formats and parses positions in base 10 / 64 bits -/
theorem offset_formats_match_source :
    Ebu.Generated.Consts.memOffsetWidth = 20 ∧ Ebu.Generated.Consts.memOffsetZeroPadded = true ∧
    Ebu.Generated.Consts.offsetOldest = "" ∧ Ebu.Generated.Consts.sqliteFormatBase = 10 ∧
    Ebu.Generated.Consts.sqliteParseBase = 10 ∧ Ebu.Generated.Consts.sqliteParseBits = 64 ∧
    fmt20 = digitsW Ebu.Generated.Consts.memOffsetWidth := by
  refine ⟨by decide, by decide, by decide, by decide, by decide, by decide, rfl⟩

/-! ### obligations on the control flow of the CURRENT source (`Ebu/Generated/Flow.lean`, regenerated from /repo on every run) -/

/-- OBLIGATION: `MemoryStore`: Append reserves the offset (formatted from the counter) and inserts the record under the write lock; Read keeps the events with `offset > from` (all from the oldest offset) in log order and stops when the limit is reached; SaveOffset writes under the write lock – what M3's memory store transcribes -/
theorem flow_memory_store_shape : Ebu.Flow.memoryStoreShape = true := by decide +kernel

end Ebu.Props.C10

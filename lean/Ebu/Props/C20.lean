import Ebu.Spec.Flow
import Ebu.Spec.Bus
import Ebu.Proofs.BusObs
import Ebu.Proofs.BusOtel
/-!
C20 — Observability callbacks are balanced, nested and truthful


-/
namespace Ebu.Props.C20
open Ebu.Bus

/-- whatever one API call appends to the trace is balanced and properly nested: processed
against ANY stack of open spans it ends with the same stack — every start has its complete,
each complete carries the id its start returned, pairs nest -/
theorem obs_balanced_call {R : Type} (I : RegImpl R) (cfg : Config) (n : Nat) (fr : Frame) (s : St R)
    (a : Action) (st : List Nat) :
    obsStack (newTrace s (exec I cfg n fr s a)) st = some st :=
  Ebu.Bus.obs_balanced_exec I cfg n fr s a st

theorem obs_balanced_run {R : Type} (I : RegImpl R) (cfg : Config) (fuel : Nat) (faults : List Bool)
    (prog : List Action) :
    obsStack (run I cfg fuel faults prog).c.trace [] = some [] :=
  Ebu.Bus.obs_balanced_run I cfg fuel faults prog

/-- span ids are never reused: the ids started in a run are pairwise distinct -/
theorem span_ids_fresh {R : Type} (I : RegImpl R) (cfg : Config) (fuel : Nat) (faults : List Bool)
    (prog : List Action) :
    (obsStarts (run I cfg fuel faults prog).c.trace).Nodup :=
  Ebu.Bus.obs_ids_fresh I cfg fuel faults prog

/-- one handler invocation: OnHandlerStart first (child of the context it was given), then the
handler, OnHandlerComplete last with the same span and `err ≠ nil` exactly when it panicked -/
theorem handler_callbacks {R : Type} (I : RegImpl R) (cfg : Config) (n : Nat) (r : Reg)
    (ty v root obsParent d : Nat) (async : Bool) (s : St R) (hobs : cfg.obs = true) :
    let s' := callHandler cfg (exec I cfg n) r ty v root obsParent d async s
    ∃ mid, newTrace s s' =
      [Ev.obs d .hs s.c.nextObs obsParent ty async] ++ mid ++
      [Ev.obs d .hc s.c.nextObs 0 ty (bodyResult cfg (exec I cfg n) r ty v root obsParent d async s).c.panicking.isSome] :=
  Ebu.Bus.callHandler_obs I cfg n r ty v root obsParent d async s hobs

/-- one persist: OnPersistStart/Complete exactly around an append attempt (none for an
unencodable event), child of the publish span, `err ≠ nil` exactly when the append failed -/
theorem persist_callbacks (cfg : Config) (d ty v : Nat) (bad : Bool) (obsParent : Nat) (c : Core) (sid : Nat)
    (hobs : cfg.obs = true) (hstore : cfg.store = some sid) :
    let c' := persist cfg d ty v bad obsParent c
    (bad = true → ∀ e ∈ c'.trace.drop c.trace.length, (match e with | .obs .. => false | _ => true) = true) ∧
    (bad = false → ∃ ok off rest, c'.trace.drop c.trace.length =
        [Ev.obs d .rs c.nextObs obsParent ty false, Ev.append d sid ty v ok off,
         Ev.obs d .rc c.nextObs 0 ty (!ok)] ++ rest ∧ ∀ e ∈ rest, (match e with | .obs .. => false | _ => true) = true) :=
  Ebu.Bus.persist_obs cfg d ty v bad obsParent c sid hobs hstore

/-- one publish: OnPublishStart is the first event and OnPublishComplete the last one, with the
same span; the spans opened in between at this depth are children of the publish span -/
theorem publish_callbacks {R : Type} (I : RegImpl R) (cfg : Config) (n : Nat) (fr : Frame)
    (ty v : Nat) (bad : Bool) (sel : CtxSel) (s : St R) (hobs : cfg.obs = true) :
    let s' := publish I cfg (exec I cfg n) fr ty v bad sel s
    ∃ parent mid, newTrace s s' =
      [Ev.obs fr.depth .ps s.c.nextObs parent ty false] ++ mid ++ [Ev.obs fr.depth .pc s.c.nextObs 0 ty false] ∧
      (∀ e ∈ mid, match e with
        | .obs d' .hs _ p _ async => d' = fr.depth → async = false → p = s.c.nextObs
        | .obs d' .rs _ p _ _ => d' = fr.depth → p = s.c.nextObs
        | _ => True) :=
  Ebu.Bus.publish_obs I cfg n fr ty v bad sel s hobs

/-- without an Observability no callback event is ever produced -/
theorem no_observability_no_callbacks {R : Type} (I : RegImpl R) (cfg : Config) (fuel : Nat) (faults : List Bool)
    (prog : List Action) (hobs : cfg.obs = false) :
    ∀ e ∈ (run I cfg fuel faults prog).c.trace, (match e with | .obs .. => false | _ => true) = true :=
  Ebu.Bus.no_obs_no_events I cfg fuel faults prog hobs

/-- in every run each span that is started is ended exactly once -/
theorem spans_ended_exactly_once {R : Type} (I : RegImpl R) (cfg : Config) (fuel : Nat) (faults : List Bool)
    (prog : List Action) (id : Nat) :
    let tr := (run I cfg fuel faults prog).c.trace
    (obsCompletes tr).count id = (obsStarts tr).count id ∧ (obsStarts tr).count id ≤ 1 :=
  Ebu.Bus.spans_ended_exactly_once I cfg fuel faults prog id

/-- with an Observability installed the counters equal the true numbers: handler runs = handler
invocations, persist attempts = append attempts, persist failures = failed appends, and – when a
panic handler is installed, which makes panics visible in the trace – handler errors = panics;
started spans = ended spans -/
theorem counters_truthful {R : Type} (I : RegImpl R) (cfg : Config) (fuel : Nat) (faults : List Bool)
    (prog : List Action) (hobs : cfg.obs = true) :
    let tr := (run I cfg fuel faults prog).c.trace
    let s := otelSummary tr
    s.started = s.ended ∧ s.handlerRuns = (trueCounts tr).1 ∧ s.persistAttempts = (trueCounts tr).2.2.1 ∧
    s.persistErrors = (trueCounts tr).2.2.2 ∧ (cfg.panicH = true → s.handlerErrors = (trueCounts tr).2.1) ∧
    s.started = s.publishes + s.handlerRuns + s.persistAttempts :=
  Ebu.Bus.counters_truthful I cfg fuel faults prog hobs

/-! ### obligations on the control flow of the CURRENT source (`Ebu/Generated/Flow.lean`, regenerated from /repo on every run) -/

/-- OBLIGATION: `OnPublishStart` comes first (its context is the one hooks, persistence and handlers get) -/
theorem flow_publish_callbacks : Ebu.Flow.publishPrelude = true := by decide +kernel

/-- OBLIGATION: `OnPublishComplete` is the last thing `PublishContext` does, on every path -/
theorem flow_publish_complete_last : Ebu.Flow.publishEpilogue = true := by decide +kernel

/-- OBLIGATION: `OnHandlerStart` once before the call, `OnHandlerComplete` once inside the recovering `defer`, whether or not something was recovered -/
theorem flow_handler_callbacks : Ebu.Flow.handlerBracket = true := by decide +kernel

/-- OBLIGATION: `OnPersistStart` before and `OnPersistComplete` after the one append, once each -/
theorem flow_persist_callbacks : Ebu.Flow.persistShape = true := by decide +kernel

/-- OBLIGATION: the OpenTelemetry adapter: every start callback starts one span and increments its counter once, unconditionally, with no early return; every complete callback takes the span from the context and ends it exactly once as its last statement on every path; the error counters are incremented exactly under `err != nil` -/
theorem flow_otel_adapter : Ebu.Flow.otelShape = true := by decide +kernel

end Ebu.Props.C20

import Ebu.Spec.Flow
import Ebu.Spec.State
import Ebu.Proofs.State
/-!
C18 — Materialized state is the fold of the message log

Model: M7 (`Ebu/Model/State.lean`). `lastWrite` is the declarative meaning of a log for one (entity type, key).
-/
namespace Ebu.Props.C18
open Ebu.State Ebu.StateWire

/-- C18: after any sequence of messages each registered collection holds exactly the last
written value of every key that was not deleted or reset afterwards -/
theorem materialize_eq_fold (m : Mat) (log : List Ev) (ty key : Nat)
    (hnodup : (m.cols.map (·.1)).Nodup) :
    (applyAll m log).lookup ty key = lastWrite m.strict m.registered ty key log (m.lookup ty key) :=
  Ebu.State.materialize_eq_fold m log ty key hnodup

/-- snapshot markers, unknown operations, unknown control kinds and – in non-strict mode –
messages for unregistered entity types change no collection -/
theorem identities (m : Mat) (e : Ev)
    (h : (∃ k, e.msg = .control k ∧ k ≠ .reset) ∨ (∃ ty key val ok, e.msg = .change ty key .other val ok) ∨
         (∃ ty key op val ok, e.msg = .change ty key op val ok ∧ m.registered ty = false)) :
    (m.apply e).1.cols = m.cols :=
  Ebu.State.identities m e h

/-- reset empties every collection -/
theorem reset_empties_all (m : Mat) (off : Nat) (ty key : Nat) :
    ((m.apply ⟨off, .control .reset⟩).1).lookup ty key = none ∧ (m.apply ⟨off, .control .reset⟩).2 = false :=
  Ebu.State.reset_empties_all m off ty key

/-- LastOffset is the offset of the last successfully applied event -/
theorem lastOffset_spec (m : Mat) (log : List Ev) :
    (applyAll m log).lastOffset = lastApplied m.strict m.registered log m.lastOffset :=
  Ebu.State.lastOffset_spec m log

/-- registering collections does not depend on contents; the set of registered types and the
strict flag never change while applying -/
theorem configuration_constant (m : Mat) (e : Ev) :
    (m.apply e).1.strict = m.strict ∧ ∀ ty, (m.apply e).1.registered ty = m.registered ty :=
  Ebu.State.apply_config m e

/-- `Replay` = apply until the first failing event -/
theorem replay_spec (m : Mat) (log : List Ev) (h : ∀ e ∈ log, applies m.strict m.registered e = true) :
    m.replay log = (applyAll m log, false) :=
  Ebu.State.replay_spec m log h

/-- C18: applying a log in two sessions – the second resumed from LastOffset – gives the same
state as applying it in one (logs whose events all apply, with increasing offsets) -/
theorem resume_equiv (m : Mat) (l1 l2 : List Ev) (hinc : increasing (l1 ++ l2))
    (hstart : ∀ e ∈ l1 ++ l2, m.lastOffset < e.off)
    (hok : ∀ e ∈ l1 ++ l2, applies m.strict m.registered e = true) :
    ((m.replay l1).1.replay (after (m.replay l1).1.lastOffset (l1 ++ l2))).1 = (m.replay (l1 ++ l2)).1 :=
  Ebu.State.resume_equiv m l1 l2 hinc hstart hok

/-- keys containing the separator cannot collide inside a collection: for a fixed entity
type the composite key determines the key -/
theorem compositeKey_inj (ty k1 k2 : String) (h : compositeKey ty k1 = compositeKey ty k2) : k1 = k2 :=
  Ebu.State.compositeKey_inj ty k1 k2 h

/-! ### obligations on the control flow of the CURRENT source (`Ebu/Generated/Flow.lean`, regenerated from /repo on every run) -/

/-- OBLIGATION: `Materializer.Apply` writes `lastOffset` only after a control message or an error-free change was applied; a reset clears every collection under the lock and calls `onReset` afterwards; an unknown entity type is an error only in strict mode -/
theorem flow_materializer_shape : Ebu.Flow.materializerShape = true := by decide +kernel

end Ebu.Props.C18

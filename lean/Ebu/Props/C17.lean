import Ebu.Spec.Flow
import Ebu.Model.Upcast
import Ebu.Proofs.Upcast
/-!
C17 — Upcasting applies the whole chain or nothing.
-/
namespace Ebu.Props.C17
open Ebu.Upcast

/-- on success the result is the composition of the first-registered upcaster of each
successive type, up to a type that has no upcaster -/
theorem apply_is_first_chain (g : Graph) (h : Bool) (d : List Nat) (t : Nat)
    (hok : (apply g h d t).err = none) :
    Chain g (d, t) ((apply g h d t).data, (apply g h d t).ty) :=
  Ebu.Upcast.apply_ok_chain g h d t hok

/-- on any failure the original data and type come back: never a partly upcast event -/
theorem apply_all_or_nothing (g : Graph) (h : Bool) (d : List Nat) (t : Nat)
    (herr : (apply g h d t).err ≠ none) :
    (apply g h d t).data = d ∧ (apply g h d t).ty = t :=
  Ebu.Upcast.apply_err_original g h d t herr

/-- the upcast error handler is called exactly once for a failing upcast function (with the
failing step's type and input data), and never otherwise -/
theorem error_handler_once (g : Graph) (h : Bool) (d : List Nat) (t : Nat) :
    (∀ s x, (apply g h d t).err = some (.failed s x) →
        (apply g h d t).errCalls =
          if h then [(s, ((apply g h d t).calls.getLast?.map (·.2)).getD [])] else []) ∧
    ((∀ s x, (apply g h d t).err ≠ some (.failed s x)) → (apply g h d t).errCalls = []) :=
  Ebu.Upcast.apply_errCalls g h d t

/-- in a registry built through the API with honest upcasters (each returns its declared
target) none of which fails, upcasting always succeeds: the loop guard never misfires -/
theorem apply_complete (g : Graph) (h : Bool) (d : List Nat) (t : Nat)
    (hac : Acyclic g) (hhonest : ∀ u ∈ g, u.ret = u.dst) (hnofail : ∀ u ∈ g, u.fails = false) :
    (apply g h d t).err = none :=
  Ebu.Upcast.apply_complete g h d t hac hhonest hnofail

/-- an event whose type has no upcaster is untouched and no upcast function is called -/
theorem no_upcaster_untouched (g : Graph) (h : Bool) (e : Stored) (hn : ups g e.ty = []) :
    (upcastStored g h e).1 = e ∧ (upcastStored g h e).2.calls = [] :=
  Ebu.Upcast.upcastStored_none g h e hn

/-- what the replay callback sees: offset and timestamp unchanged; composed data and final
type on success; the stored event itself on failure -/
theorem replay_passthrough (g : Graph) (h : Bool) (e : Stored) :
    (upcastStored g h e).1.off = e.off ∧ (upcastStored g h e).1.ts = e.ts ∧
    ((upcastStored g h e).2.err ≠ none → (upcastStored g h e).1 = e) ∧
    ((upcastStored g h e).2.err = none →
        Chain g (e.data, e.ty) ((upcastStored g h e).1.data, (upcastStored g h e).1.ty)) :=
  Ebu.Upcast.upcastStored_spec g h e

/-- non-vacuity: a two-step chain succeeds; a failure at the second step gives back the original -/
example :
    (apply [⟨1, 2, 2, false, 7⟩, ⟨2, 3, 3, false, 8⟩] true [5] 1).data = [5, 7, 8] ∧
    (apply [⟨1, 2, 2, false, 7⟩, ⟨2, 3, 3, true, 8⟩] true [5] 1).data = [5] ∧
    (apply [⟨1, 2, 2, false, 7⟩, ⟨2, 3, 3, true, 8⟩] true [5] 1).errCalls = [(2, [5, 7])] := by
  decide


/-! ### obligations on the control flow of the CURRENT source (`Ebu/Generated/Flow.lean`, regenerated from /repo on every run) -/

/-- OBLIGATION: `apply` runs the whole chain under the registry's read lock (one registry state per chain), reports a
failing step to the error handler exactly there (once), and advances data and type together only after both guards -/
theorem flow_apply_shape : Ebu.Flow.applyShape = true := by decide +kernel

end Ebu.Props.C17

import Ebu.Spec.Flow
import Ebu.Proofs.Shutdown
import Ebu.Model.Inflight
import Ebu.Generated.Consts
import Ebu.Props.C03
import Ebu.Spec.Conc
import Ebu.Proofs.Conc
/-!
C06 — Wait and Shutdown return only after all asynchronous work has finished

Model: M2 (`Ebu/Model/Conc.lean`), the interleaving model: `Reachable progs s` ranges over every program, any number of threads and every schedule at yield-point granularity.
-/
namespace Ebu.Props.C06
open Ebu.Conc

/-- `bus.wg` counts exactly the async goroutines that exist and are not finished, plus those a
publisher has counted in and is about to start -/
theorem inflight_counts (progs : List (List Op)) (s : Sys) (h : Reachable progs s) :
    s.sh.inflight = liveJobs s + pendingSpawns s :=
  Ebu.Conc.inflight_counts progs s h

/-- `Wait` returns only when no async invocation is unfinished – whoever published it,
including handlers publishing from handlers -/
theorem wait_returns_only_when_idle (progs : List (List Op)) (s s' : Sys) (h : Reachable progs s) (i : Nat)
    (th : Thread) (prog : List Op) (hth : s.ths[i]? = some th) (hpc : th.pc = .op) (hfr : th.frames = [])
    (hprog : th.prog = .wait :: prog) (hstep : s.stepAt i = some s') :
    liveJobs s = 0 ∧ pendingSpawns s = 0 :=
  Ebu.Conc.wait_returns_only_when_idle progs s s' h i th prog hth hpc hfr hprog hstep

/-! ### the counter behind `Wait` (M2w) and what the CURRENT source does with its condition variable -/

/-- the wake-up discipline of the source, read off `inflight.done` on every run -/
def sourceWake : Ebu.Inflight.Wake :=
  if Ebu.Generated.Consts.inflightDoneWake == "Broadcast" then .broadcast
  else if Ebu.Generated.Consts.inflightDoneWake == "Signal" then .signal else .none

/-- OBLIGATION on the current source: `done` broadcasts when the count reaches zero and `wait` re-checks
the count in a loop -/
theorem source_broadcasts : sourceWake = .broadcast ∧ Ebu.Generated.Consts.inflightWaitRechecks = true := by decide

/-- hence, however many goroutines are in `Wait` at once and whatever the schedule, none of them stays parked
on the condition variable while nothing is in flight (no lost wake-up) … -/
theorem no_waiter_left_behind (ops : List Ebu.Inflight.Op) :
    Ebu.Inflight.NoLostWakeup (Ebu.Inflight.run sourceWake ops) := by
  rw [source_broadcasts.1]; exact Ebu.Inflight.broadcast_no_lost_wakeup ops

/-- … and a `Wait` returns only in a state with nothing in flight -/
theorem wait_returns_only_idle (s : Ebu.Inflight.St) (op : Ebu.Inflight.Op) (g : Nat)
    (hnew : g ∈ (Ebu.Inflight.step sourceWake s op).returned) (hold : g ∉ s.returned) : s.n = 0 :=
  Ebu.Inflight.returns_only_when_idle sourceWake s op g hnew hold

/-- the in-flight counter is only touched under its mutex in the CURRENT source: `add` and `done` cannot lose an update
(a lock-free `add` next to a locked `n--` would) -/
theorem inflight_counter_locked : Ebu.Locks.Discipline Ebu.Generated.accessFacts = true :=
  Ebu.Props.C03.facts_discipline

/-- the obligation is not decoration: with `Signal` two waiters and one finishing handler leave a waiter parked -/
theorem signal_would_lose_a_waiter :
    ¬ Ebu.Inflight.NoLostWakeup (Ebu.Inflight.run .signal [.add, .wait 1, .wait 2, .done]) :=
  Ebu.Inflight.signal_loses_wakeup

/-- Shutdown returns nil (or the store's close error) only when no asynchronous work is in
flight, and only then – exactly once – closes the store; when it returns the context's error it
has not closed it -/
theorem shutdown_spec (s s' : Ebu.Shutdown.S) (pick : Bool) (o : Ebu.Shutdown.Outcome)
    (h : Ebu.Shutdown.shutdown s pick = some (s', o)) :
    (o = .nil_ ∨ o = .closeError → s.inflight = 0 ∧ s'.closes = s.closes + (if s.hasCloser then 1 else 0)) ∧
    (o = .ctxError → s.cancelled = true ∧ s' = s) ∧ s'.inflight = s.inflight :=
  Ebu.Shutdown.shutdown_spec s s' pick o h

/-- … and it blocks exactly while work is in flight and the context is live -/
theorem shutdown_blocks_iff (s : Ebu.Shutdown.S) (pick : Bool) :
    Ebu.Shutdown.shutdown s pick = none ↔ (s.inflight ≠ 0 ∧ s.cancelled = false) :=
  Ebu.Shutdown.shutdown_blocks_iff s pick

/-! ### obligations on the control flow of the CURRENT source (`Ebu/Generated/Flow.lean`, regenerated from /repo on every run) -/

/-- OBLIGATION: M2's `inflight + 1` happens in the publisher before the `go` statement (outside the goroutine, once per async dispatch) and `inflight - 1` is deferred first thing inside the goroutine -/
theorem flow_inflight_brackets_goroutine : Ebu.Flow.inflightBracketsGoroutine = true := by decide +kernel

/-- OBLIGATION: `Shutdown` waits in a goroutine that then closes `done`; the store is closed only in the `<-done` branch – never in the `<-ctx.Done()` branch, never in the goroutine -/
theorem flow_shutdown_shape : Ebu.Flow.shutdownShape = true := by decide +kernel

/-- OBLIGATION: `inflight.wait` re-checks the count in a loop around `cond.Wait`, `inflight.done` broadcasts when the count reaches zero (M2w's `Wake.broadcast`) -/
theorem flow_wait_rechecks_and_done_broadcasts : Ebu.Flow.condVarShape = true := by decide +kernel

end Ebu.Props.C06

import Ebu.Spec.Conc
import Ebu.Proofs.Conc
/-!
C06 — Wait and Shutdown return only after all asynchronous work has finished

Model: M2 (`Ebu/Model/Conc.lean`), the interleaving model: `Reachable progs s` ranges over every program, any number of threads and every schedule at yield-point granularity.
-/
namespace Ebu.Props.C06
open Ebu.Conc

/-- `bus.wg` counts exactly the async goroutines that exist and are not finished, plus those a
publisher has counted in and is about to start -/
theorem inflight_counts (progs : List (List Op)) (s : Sys) (h : Reachable progs s) :
    s.sh.inflight = liveJobs s + pendingSpawns s :=
  Ebu.Conc.inflight_counts progs s h

/-- `Wait` returns only when no async invocation is unfinished – whoever published it,
including handlers publishing from handlers -/
theorem wait_returns_only_when_idle (progs : List (List Op)) (s s' : Sys) (h : Reachable progs s) (i : Nat)
    (th : Thread) (prog : List Op) (hth : s.ths[i]? = some th) (hpc : th.pc = .op) (hfr : th.frames = [])
    (hprog : th.prog = .wait :: prog) (hstep : s.stepAt i = some s') :
    liveJobs s = 0 ∧ pendingSpawns s = 0 :=
  Ebu.Conc.wait_returns_only_when_idle progs s s' h i th prog hth hpc hfr hprog hstep

end Ebu.Props.C06

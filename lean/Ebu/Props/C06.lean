import Ebu.Proofs.ConcTrace
import Ebu.Proofs.ConcTermination
import Ebu.Spec.Flow
import Ebu.Proofs.Shutdown
import Ebu.Model.Inflight
import Ebu.Generated.Consts
import Ebu.Props.C03Facts
import Ebu.Spec.Conc
import Ebu.Proofs.Conc
/-!
C06 — Wait and Shutdown return only after all asynchronous work has finished

Model: M2 (`Ebu/Model/Conc.lean`), the interleaving model: `Reachable progs s` ranges over every program, any number of threads and every schedule at yield-point granularity.
-/
namespace Ebu.Props.C06
open Ebu.Conc

/-- `bus.wg` counts exactly the async goroutines that exist and are not finished, plus those a
publisher has counted in and is about to start -/
theorem inflight_counts (progs : List (List Op)) (s : Sys) (h : Reachable progs s) :
    s.sh.inflight = liveJobs s + pendingSpawns s :=
  Ebu.Conc.inflight_counts progs s h

/-- `Wait` returns only when no async invocation is unfinished – whoever published it,
including handlers publishing from handlers -/
theorem wait_returns_only_when_idle (progs : List (List Op)) (s s' : Sys) (h : Reachable progs s) (i : Nat)
    (th : Thread) (prog : List Op) (hth : s.ths[i]? = some th) (hpc : th.pc = .op) (hfr : th.frames = [])
    (hprog : th.prog = .wait :: prog) (hstep : s.stepAt i = some s') :
    liveJobs s = 0 ∧ pendingSpawns s = 0 :=
  Ebu.Conc.wait_returns_only_when_idle progs s s' h i th prog hth hpc hfr hprog hstep

/-! ### the counter behind `Wait` (M2w) and what the CURRENT source does with its condition variable -/

/-- the wake-up discipline of the source, read off `inflight.done` on every run -/
def sourceWake : Ebu.Inflight.Wake :=
  if Ebu.Generated.Consts.inflightDoneWake == "Broadcast" then .broadcast
  else if Ebu.Generated.Consts.inflightDoneWake == "Signal" then .signal else .none

/-- OBLIGATION on the current source: `done` broadcasts when the count reaches zero and `wait` re-checks
the count in a loop -/
theorem source_broadcasts : sourceWake = .broadcast ∧ Ebu.Generated.Consts.inflightWaitRechecks = true := by decide

/-- hence, however many goroutines are in `Wait` at once and whatever the schedule, none of them stays parked
on the condition variable while nothing is in flight (no lost wake-up) … -/
theorem no_waiter_left_behind (ops : List Ebu.Inflight.Op) :
    Ebu.Inflight.NoLostWakeup (Ebu.Inflight.run sourceWake ops) := by
  rw [source_broadcasts.1]; exact Ebu.Inflight.broadcast_no_lost_wakeup ops

/-- … and a `Wait` returns only in a state with nothing in flight -/
theorem wait_returns_only_idle (s : Ebu.Inflight.St) (op : Ebu.Inflight.Op) (g : Nat)
    (hnew : g ∈ (Ebu.Inflight.step sourceWake s op).returned) (hold : g ∉ s.returned) : s.n = 0 :=
  Ebu.Inflight.returns_only_when_idle sourceWake s op g hnew hold

/-- the in-flight counter is only touched under its mutex in the CURRENT source: `add` and `done` cannot lose an update
(a lock-free `add` next to a locked `n--` would) -/
theorem inflight_counter_locked : Ebu.Locks.Discipline Ebu.Generated.accessFacts = true :=
  Ebu.Props.C03.facts_discipline

/-- the obligation is not decoration: with `Signal` two waiters and one finishing handler leave a waiter parked -/
theorem signal_would_lose_a_waiter :
    ¬ Ebu.Inflight.NoLostWakeup (Ebu.Inflight.run .signal [.add, .wait 1, .wait 2, .done]) :=
  Ebu.Inflight.signal_loses_wakeup

/-- Shutdown returns nil (or the store's close error) only when no asynchronous work is in
flight, and only then – exactly once – closes the store; when it returns the context's error it
has not closed it -/
theorem shutdown_spec (s s' : Ebu.Shutdown.S) (pick : Bool) (o : Ebu.Shutdown.Outcome)
    (h : Ebu.Shutdown.shutdown s pick = some (s', o)) :
    (o = .nil_ ∨ o = .closeError → s.inflight = 0 ∧ s'.closes = s.closes + (if s.hasCloser then 1 else 0)) ∧
    (o = .ctxError → s.cancelled = true ∧ s' = s) ∧ s'.inflight = s.inflight :=
  Ebu.Shutdown.shutdown_spec s s' pick o h

/-- … and it blocks exactly while work is in flight and the context is live -/
theorem shutdown_blocks_iff (s : Ebu.Shutdown.S) (pick : Bool) :
    Ebu.Shutdown.shutdown s pick = none ↔ (s.inflight ≠ 0 ∧ s.cancelled = false) :=
  Ebu.Shutdown.shutdown_blocks_iff s pick

/-! ### obligations on the control flow of the CURRENT source (`Ebu/Generated/Flow.lean`, regenerated from /repo on every run) -/

/-- OBLIGATION: M2's `inflight + 1` happens in the publisher before the `go` statement (outside the goroutine, once per async dispatch) and `inflight - 1` is deferred first thing inside the goroutine -/
theorem flow_inflight_brackets_goroutine : Ebu.Flow.inflightBracketsGoroutine = true := by decide +kernel

/-- OBLIGATION: `Shutdown` waits in a goroutine that then closes `done`; the store is closed only in the `<-done` branch – never in the `<-ctx.Done()` branch, never in the goroutine -/
theorem flow_shutdown_shape : Ebu.Flow.shutdownShape = true := by decide +kernel

/-- OBLIGATION: `inflight.wait` re-checks the count in a loop around `cond.Wait`, `inflight.done` broadcasts when the count reaches zero (M2w's `Wake.broadcast`) -/
theorem flow_wait_rechecks_and_done_broadcasts : Ebu.Flow.condVarShape = true := by decide +kernel

/-! ### every asynchronous delivery runs exactly once (M2 with its trace, `Ebu/Spec/ConcTrace.lean`) -/

/-- an async goroutine performs at most one asynchronous delivery – the one it was started for (right registration,
type and value) – under every schedule -/
theorem async_delivery_at_most_once (progs : List (List Ebu.Conc.Op)) (x : Ebu.Conc.SysT) (h : Ebu.Conc.ReachableT progs x)
    (i : Nat) (th : Ebu.Conc.Thread) (j : Ebu.Conc.Job) (hi : x.s.ths[i]? = some th) (hj : th.job = some j) :
    Ebu.Conc.asyncEntersOf i x.tr = [] ∨ Ebu.Conc.asyncEntersOf i x.tr = [Ebu.Conc.Obs.enter j.reg.rid j.ty j.v true] :=
  Ebu.Conc.async_at_most_once h i th j hi hj

/-- … and once the goroutine has finished it has performed it exactly once, provided the publish context is still live
(contexts are only ever cancelled, so "live now" means "live throughout") -/
theorem async_delivery_exactly_once (progs : List (List Ebu.Conc.Op)) (x : Ebu.Conc.SysT) (h : Ebu.Conc.ReachableT progs x)
    (i : Nat) (th : Ebu.Conc.Thread) (j : Ebu.Conc.Job) (hi : x.s.ths[i]? = some th) (hj : th.job = some j)
    (hd : th.pc = .done) (hl : x.s.sh.live j.ctx = true) :
    Ebu.Conc.asyncEntersOf i x.tr = [Ebu.Conc.Obs.enter j.reg.rid j.ty j.v true] :=
  Ebu.Conc.async_exactly_once_when_done h i th j hi hj hd hl

/-- every goroutine announced by the publisher exists, and the goroutines of the test program never perform an
asynchronous delivery themselves -/
theorem spawned_goroutines_exist (progs : List (List Ebu.Conc.Op)) (x : Ebu.Conc.SysT) (h : Ebu.Conc.ReachableT progs x) :
    (x.tr.filter (fun p => match p.2 with | .spawned _ => true | _ => false)).length =
      (x.s.ths.filter (fun th => th.job.isSome)).length :=
  Ebu.Conc.spawned_count h

/-- LIVENESS at the end of every maximal run: under the rank hypothesis (the one documented exception of C03) a state
from which no goroutine can step is quiescent – every goroutine has finished, nothing is in flight – and every
asynchronous delivery whose publish context is live has run exactly once; in particular a goroutine blocked in `Wait`
is never left behind -/
theorem maximal_run_delivers_everything (ρ : Nat → Nat) (progs : List (List Ebu.Conc.Op)) (hr : Ebu.Conc.Ranked ρ progs)
    (x : Ebu.Conc.SysT) (h : Ebu.Conc.ReachableT progs x) (hmax : ¬ x.s.canStep) :
    x.s.allDone ∧ x.s.sh.inflight = 0 ∧
    ∀ i th j, x.s.ths[i]? = some th → th.job = some j → x.s.sh.live j.ctx = true →
      Ebu.Conc.asyncEntersOf i x.tr = [Ebu.Conc.Obs.enter j.reg.rid j.ty j.v true] :=
  Ebu.Conc.maximal_run_delivers_everything ρ progs hr h hmax

/-- `Wait` returns, and every goroutine finishes, after finitely many steps whatever the scheduler does: under the strict
rank hypothesis every schedule is finite and can be continued to a quiescent end -/
theorem wait_eventually_returns (ρ : Nat → Nat) (progs : List (List Ebu.Conc.Op)) (hr : Ebu.Conc.RankedStrict ρ progs) :
    (∃ bound : Nat, ∀ (sched : List Nat) (s : Ebu.Conc.Sys),
      Ebu.Conc.runSched (Ebu.Conc.initSys progs) sched = some s → sched.length ≤ bound) ∧
    (∀ s, Ebu.Conc.Reachable progs s →
      ∃ (sched : List Nat) (s2 : Ebu.Conc.Sys), Ebu.Conc.runSched s sched = some s2 ∧ s2.allDone ∧ s2.sh.inflight = 0) :=
  ⟨Ebu.Conc.runs_terminate ρ progs hr, fun s h => Ebu.Conc.every_run_completes ρ progs hr s h⟩

/-- the traced system is the plain one with bookkeeping: the two reachability notions coincide -/
theorem trace_is_bookkeeping (progs : List (List Ebu.Conc.Op)) :
    (∀ x, Ebu.Conc.ReachableT progs x → Ebu.Conc.Reachable progs x.s) ∧
    (∀ s, Ebu.Conc.Reachable progs s → ∃ tr, Ebu.Conc.ReachableT progs ⟨s, tr⟩) :=
  ⟨fun _ h => Ebu.Conc.reachableT_reachable h, fun _ h => Ebu.Conc.reachable_has_trace h⟩

/-- why deliveries are counted with `asyncEntersOf`: the goroutine of an async handler also enters the synchronous
handlers of what that handler publishes -/
theorem nested_sync_entries_are_not_deliveries :
    ∃ progs x i th j, Ebu.Conc.ReachableT progs x ∧ x.s.ths[i]? = some th ∧ th.job = some j ∧ th.pc = .done ∧
      x.s.sh.live j.ctx = true ∧
      ¬(Ebu.Conc.entersOf i x.tr = [] ∨ Ebu.Conc.entersOf i x.tr = [Ebu.Conc.Obs.enter j.reg.rid j.ty j.v true]) ∧
      Ebu.Conc.asyncEntersOf i x.tr = [Ebu.Conc.Obs.enter j.reg.rid j.ty j.v true] :=
  Ebu.Conc.entersOf_counterexample

end Ebu.Props.C06

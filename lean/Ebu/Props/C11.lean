import Ebu.Spec.Flow
import Ebu.Generated.Consts
import Ebu.Generated.SqlFacts
import Ebu.Props.C03Facts
import Ebu.Spec.Log
import Ebu.Proofs.Log
/-!
C11 — Replay delivers every event after the offset, or says that it did not

Models: M4 (`Ebu/Model/Replay.lean`) over M3. Fault script: the callback fails at call k, the context is cancelled during call k, the j-th Read fails.
-/
namespace Ebu.Props.C11
open Ebu.Log Ebu.Replay

/-- streaming stores, no fault: every event, in order, exactly once, and nil -/
theorem stream_complete (evs : List (Off × Rec)) :
    replayStream {} evs = ⟨evs, none, []⟩ :=
  Ebu.Log.replayStream_complete evs

/-- streaming stores, any fault: a gap-free prefix; nil only if everything was delivered;
a failing callback or a cancellation before the end is reported -/
theorem stream_prefix_on_fault (f : Faults) (evs : List (Off × Rec)) :
    (replayStream f evs).delivered <+: evs ∧
    ((replayStream f evs).err = none → (replayStream f evs).delivered = evs) ∧
    (∀ k, f.cbFail = some k → k < evs.length → (f.cancelAt.all (fun c => k ≤ c)) = true → (replayStream f evs).err = some .callback) :=
  Ebu.Log.replayStream_prefix f evs

/-- SQLite batched streaming, no fault: complete for every batch size ≥ 1 -/
theorem sqlite_batched_complete (rs : List Rec) (h : rs.length ≤ maxInt64) (batch : Nat) (hb : 0 < batch)
    (j : Nat) (hj : j ≤ rs.length) (fuel : Nat) (hf : rs.length + 2 ≤ fuel) :
    replaySqlBatched (sqlOf rs) {} batch fuel (j : Int) [] = ⟨(logWith decimal rs).drop j, none, []⟩ :=
  Ebu.Log.replaySqlBatched_complete rs h batch hb j hj fuel hf

/-- SQLite batched streaming, any fault: gap-free prefix (also counting the rows the driver may
still hand out before it notices a cancellation), nil only after everything -/
theorem sqlite_batched_prefix_on_fault (rs : List Rec) (h : rs.length ≤ maxInt64) (f : Faults) (batch : Nat) (hb : 0 < batch)
    (j : Nat) (hj : j ≤ rs.length) (fuel : Nat) (hf : rs.length + 2 ≤ fuel) :
    let r := replaySqlBatched (sqlOf rs) f batch fuel (j : Int) []
    (r.delivered ++ r.may) <+: (logWith decimal rs).drop j ∧ r.err ≠ some .fuel ∧
    (r.err = none → r.delivered = (logWith decimal rs).drop j) :=
  Ebu.Log.replaySqlBatched_prefix rs h f batch hb j hj fuel hf

/-- the paging fallback over any store that satisfies the paging contract, no fault:
complete for every batch size ≥ 1 (and for `≤ 0`, which means 100) -/
theorem paged_complete (read : Off → Int → Option (List (Off × Rec) × Off)) (off : Nat → Off)
    (all : List (Off × Rec)) (hs : PagedSpec read off all) (j : Nat) (hj : j ≤ all.length) (batch : Int)
    (fuel : Nat) (hf : all.length + 2 ≤ fuel) :
    replayPaged read {} (effBatch batch) fuel 0 (resumeAt off j) [] = ⟨all.drop j, none, []⟩ :=
  Ebu.Log.replayPaged_complete read off all hs j hj batch fuel hf

/-- … any fault: gap-free prefix, nil only after everything -/
theorem paged_prefix_on_fault (read : Off → Int → Option (List (Off × Rec) × Off)) (off : Nat → Off)
    (all : List (Off × Rec)) (hs : PagedSpec read off all) (f : Faults) (j : Nat) (hj : j ≤ all.length) (batch : Int)
    (fuel : Nat) (hf : all.length + 2 ≤ fuel) :
    let r := replayPaged read f (effBatch batch) fuel 0 (resumeAt off j) []
    r.delivered <+: all.drop j ∧ r.err ≠ some .fuel ∧ (r.err = none → r.delivered = all.drop j) :=
  Ebu.Log.replayPaged_prefix read off all hs f j hj batch fuel hf

theorem memory_satisfies_contract (rs : List Rec) (h : rs.length < 10 ^ 20) :
    PagedSpec (fun o l => some ((memOf rs).read o l)) fmt20 (logWith fmt20 rs) :=
  Ebu.Log.mem_paged rs h

theorem sqlite_satisfies_contract (rs : List Rec) (h : rs.length ≤ maxInt64) :
    PagedSpec (sqlOf rs).read decimal (logWith decimal rs) :=
  Ebu.Log.sql_paged rs h

/-- KNOWN FINDING (C11): over the durable-streams store the paging fallback with a batch size
below the chunk size loses events and still returns nil: 5 events, batch 2 → 2 delivered, nil -/
theorem ds_replay_loses_events :
    (replayPaged (dsOf 5 [1, 2, 3, 4, 5]).read {} 2 20 0 [] []).err = none ∧
    ((replayPaged (dsOf 5 [1, 2, 3, 4, 5]).read {} 2 20 0 [] []).delivered.map (·.2)) = [1, 2] :=
  Ebu.Log.ds_replay_loses_events 

/-- what does hold for durable-streams: with a batch size not below the chunk size Replay
delivers every event -/
theorem ds_replay_untruncated_partial (chunk : Nat) (hc : 0 < chunk) (rs : List Rec) (h : rs.length < 10 ^ 10)
    (batch : Int) (hb : (chunk : Int) ≤ batch) (fuel : Nat) (hf : rs.length + 2 ≤ fuel) :
    (replayPaged (dsOf chunk rs).read {} batch fuel 0 [] []).err = none ∧
    (replayPaged (dsOf chunk rs).read {} batch fuel 0 [] []).delivered.map (·.2) = rs :=
  Ebu.Log.ds_replay_untruncated_partial chunk hc rs h batch hb fuel hf

/-- OBLIGATION on the current source: every SELECT over the events table (paged read, stream, batched stream) is a
position cursor – `WHERE position > ? ORDER BY position`, optionally `LIMIT ?` – as the models of `Read`, the stream and
`replaySqlBatched` assume; none pages with OFFSET (which counts rows instead of remembering where it was) -/
theorem sqlite_reads_are_position_cursors :
    Ebu.Generated.Sql.readSqls.length ≥ 3 ∧
    (Ebu.Generated.Sql.readSqls.all (fun st =>
      (st.drop 8).take 7 == ["FROM", "events", "WHERE", "position", ">", "?", "ORDER"] && !st.contains "OFFSET" &&
      (st.drop 15 == ["BY", "position"] || st.drop 15 == ["BY", "position", "LIMIT", "?"]))) = true := by decide

/-- replays select by `offset > from`: that is only right on a log whose offsets increase in log order, which for the
memory store rests on `Append` being one critical section in the CURRENT source -/
theorem memory_log_in_offset_order : Ebu.Locks.MemAppendAtomic Ebu.Generated.accessFacts = true :=
  Ebu.Props.C03.facts_memstore_append_atomic

/-- the model's default batch size is the one in the CURRENT source (extracted from Replay) -/
theorem default_batch_matches_source : effBatch 0 = Ebu.Generated.Consts.replayDefaultBatch ∧ effBatch (-5) = Ebu.Generated.Consts.replayDefaultBatch := by
  decide

/-! ### obligations on the control flow of the CURRENT source (`Ebu/Generated/Flow.lean`, regenerated from /repo on every run) -/

/-- OBLIGATION: `Replay` never appends, publishes or subscribes; the paged loop stops on an empty page, has the stuck-offset guard, and inspects every callback result -/
theorem flow_replay_shape : Ebu.Flow.replayShape = true := by decide +kernel

/-- OBLIGATION: the SQLite batched stream inspects `rows.Err()` after the row loop and yields it -/
theorem flow_sqlite_stream_checks_rows_err : Ebu.Flow.sqliteShape = true := by decide +kernel

end Ebu.Props.C11

import Ebu.Model.TypeName
/-!
C15 — One type name per event type, everywhere.

The quantifier is a finite table: every shape (value/pointer × no namer / value-receiver
namer / pointer-receiver namer, for any base and custom name) × every route that derives a
name.  The content of the property is that the routes, which the code implements by two
different mechanisms (dynamic type assertion vs. `reflect.Type.Implements` + a synthesised
value), agree; the model is validated against the Go compiler by the harness, which
instantiates every shape as a real type and observes the name each route actually uses.
-/
namespace Ebu.Props.C15
open Ebu.TypeName

/-- the persisted name is the one `EventType` reports for the published event – for EVERY shape, also when
`EventTypeName` computes the name from the event's fields – and a replay (with or without upcasters) leaves it so -/
theorem persisted_is_eventType (s : Shape) :
    routeName .persisted s = eventType s ∧ routeName .storedAfterReplay s = eventType s ∧
    routeName .eventTypeFn s = eventType s := by
  simp [routeName]

/-- every API route uses the name `EventType` reports, for every shape whose name does not depend on the
event's value (the routes that select by Go type have no value to ask: they use the zero value's name) -/
theorem names_agree (r : Route) (s : Shape) (hc : s.constName = true) : routeName r s = eventType s := by
  have : s.custom = s.customZero := by simpa [Shape.constName] using hc
  cases r <;> simp [routeName, typeNameOf, eventType, this]

/-- the hypothesis of `names_agree` is exactly what is needed: for a shape whose name depends on the value
and whose method is in the method set, the typed routes use another name than the persisted one -/
theorem names_agree_needs_constName (s : Shape) (hm : inMethodSet s = true) (hc : s.constName = false) :
    routeName .replaySub s ≠ routeName .persisted s := by
  have : s.custom ≠ s.customZero := by simpa [Shape.constName] using hc
  simp [routeName, typeNameOf, eventType, hm]; exact fun h => this h.symm

/-- consequently a persisted event is matched by its typed replay subscription and by typed
upcast registrations for it -/
theorem persisted_matched (s : Shape) (hc : s.constName = true) :
    routeName .persisted s = routeName .replaySub s ∧ routeName .persisted s = routeName .upcastFrom s ∧
    routeName .persisted s = routeName .upcastTo s := by
  simp [names_agree _ s hc]

/-- the method-set rule, spelled out: the custom name is used exactly for value-receiver
namers (value or pointer events) and for pointer-receiver namers on pointer events -/
theorem custom_name_iff (s : Shape) (hne : s.custom ≠ reflectName s) :
    eventType s = s.custom ↔ (s.recv = .value ∨ (s.recv = .pointer ∧ s.ptr = true)) := by
  obtain ⟨ptr, recv, base, custom, customZero⟩ := s
  cases recv <;> cases ptr <;> simp_all [eventType, inMethodSet, reflectName] <;> exact fun h => hne h.symm

/-- non-vacuity: the instantiated shapes include both outcomes, constant and value-dependent names -/
example : (shapes.map eventType) =
    ["main.NPlain", "*main.NPlain", "nval.v1", "nval.v1", "main.NPtr", "nptr.v1",
     "state.ChangeMessage", "state.ChangeMessage", "state.ControlMessage", "state.ControlMessage",
     "ndyn.v7", "ndyn.v7", "main.NDynP", "ndynp.v7", "nptr.v1", "0042", "*main.NPlain",
     "ntick.v1", "nbatch.v1", "nmap.v1"] := by
  decide
example : (shapes.map Shape.constName) =
    [true, true, true, true, true, true, true, true, true, true, false, false, false, false, true, true, true,
     true, true, true] := by decide

end Ebu.Props.C15

import Ebu.Model.TypeName
/-!
C15 — One type name per event type, everywhere.

The quantifier is a finite table: every shape (value/pointer × no namer / value-receiver
namer / pointer-receiver namer, for any base and custom name) × every route that derives a
name.  The content of the property is that the routes, which the code implements by two
different mechanisms (dynamic type assertion vs. `reflect.Type.Implements` + a synthesised
value), agree; the model is validated against the Go compiler by the harness, which
instantiates every shape as a real type and observes the name each route actually uses.
-/
namespace Ebu.Props.C15
open Ebu.TypeName

/-- every API route uses the name `EventType` reports, for every shape -/
theorem names_agree (r : Route) (s : Shape) : routeName r s = eventType s := by
  cases r <;> simp [routeName, typeNameOf, eventType]

/-- consequently a persisted event is matched by its typed replay subscription and by typed
upcast registrations for it -/
theorem persisted_matched (s : Shape) :
    routeName .persisted s = routeName .replaySub s ∧ routeName .persisted s = routeName .upcastFrom s ∧
    routeName .persisted s = routeName .upcastTo s := by
  simp [names_agree]

/-- the method-set rule, spelled out: the custom name is used exactly for value-receiver
namers (value or pointer events) and for pointer-receiver namers on pointer events -/
theorem custom_name_iff (s : Shape) (hne : s.custom ≠ reflectName s) :
    eventType s = s.custom ↔ (s.recv = .value ∨ (s.recv = .pointer ∧ s.ptr = true)) := by
  obtain ⟨ptr, recv, base, custom⟩ := s
  cases recv <;> cases ptr <;> simp_all [eventType, inMethodSet, reflectName] <;> exact fun h => hne h.symm

/-- non-vacuity: the instantiated shapes include both outcomes -/
example : (shapes.map eventType) =
    ["main.NPlain", "*main.NPlain", "nval.v1", "nval.v1", "main.NPtr", "nptr.v1",
     "state.ChangeMessage", "state.ChangeMessage", "state.ControlMessage", "state.ControlMessage"] := by
  decide

end Ebu.Props.C15

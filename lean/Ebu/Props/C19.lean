import Ebu.Spec.Flow
import Ebu.Spec.State
import Ebu.Proofs.State
/-!
C19 — State messages survive the round trip; bad input is rejected without damage

Models: M7b (`Ebu/Model/StateWire.lean`, wire format and the discrimination logic of Apply) and M7.
-/
namespace Ebu.Props.C19
open Ebu.State Ebu.StateWire

/-- C19: a change message built by the helpers decodes to the same entity type, key,
operation and value – for every option combination – and is never mistaken for a control message -/
theorem decode_encode_change (m : Change) :
    decode (encodeChange m) = .change m.ty m.key m.op (m.value.map Leaf.doc) :=
  Ebu.StateWire.decode_encode_change m

/-- C19: a control message built by the helpers is recognised as that control message
(helpers always set a non-empty control kind) -/
theorem decode_encode_control (m : Control) (h : m.control ≠ "") :
    decode (encodeControl m) = .control m.control :=
  Ebu.StateWire.decode_encode_control m h

/-- C19: the serialised form uses exactly the state-protocol field names, with `omitempty` -/
theorem wire_field_names (m : Change) :
    ∃ hs, encodeChange m = .obj ([("type", .leaf (.str m.ty)), ("key", .leaf (.str m.key))] ++
        (match m.value with | some v => [("value", Val.leaf (.doc v))] | none => []) ++
        (match m.old with | some v => [("old_value", Val.leaf (.doc v))] | none => []) ++ [("headers", .obj hs)]) ∧
      hs.map (·.1) = ["operation"] ++ (if m.txid.isEmpty then [] else ["txid"]) ++ (if m.ts.isEmpty then [] else ["timestamp"]) :=
  Ebu.StateWire.wire_field_names m

/-- anything that is not a JSON object (or null) is rejected -/
theorem non_object_rejected : decode .notObject = .error :=
  Ebu.StateWire.decode_notObject 

/-- C19: an event that cannot be applied leaves every collection and LastOffset unchanged -/
theorem apply_error_no_change (m : Mat) (e : Ev) (h : (m.apply e).2 = true) :
    (m.apply e).1.cols = m.cols ∧ (m.apply e).1.lastOffset = m.lastOffset :=
  Ebu.State.apply_error_no_change m e h

/-- whether `Apply` returns an error is exactly `¬ applies` -/
theorem apply_err_iff (m : Mat) (e : Ev) :
    (m.apply e).2 = !applies m.strict m.registered e :=
  Ebu.State.apply_err_iff m e

/-! ### obligations on the control flow of the CURRENT source (`Ebu/Generated/Flow.lean`, regenerated from /repo on every run) -/

/-- OBLIGATION: `Apply` decodes first; an error of `applyChange` returns before `lastOffset` is written; a collection decodes the value before it touches its store -/
theorem flow_decode_before_mutation : Ebu.Flow.materializerShape = true := by decide +kernel

end Ebu.Props.C19

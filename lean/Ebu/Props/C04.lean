import Ebu.Proofs.ConcOnce
import Ebu.Spec.Flow
import Ebu.Props.C03Facts
import Ebu.Spec.Conc
import Ebu.Proofs.Conc
/-!
C04 — A Once handler fires at most once, and exactly once when eligible

Model: M2 (`Ebu/Model/Conc.lean`), the interleaving model: `Reachable progs s` ranges over every program, any number of threads and every schedule at yield-point granularity.
-/
namespace Ebu.Props.C04
open Ebu.Conc

/-- however the threads interleave, the handler of a Once registration is entered at most once -/
theorem once_at_most_once (progs : List (List Op)) (s : Sys) (h : Reachable progs s) (rid : Nat) :
    s.sh.enteredOnce.count rid ≤ 1 :=
  Ebu.Conc.once_at_most_once progs s h rid

/-- … and only after its compare-and-swap succeeded -/
theorem once_entered_was_claimed (progs : List (List Op)) (s : Sys) (h : Reachable progs s) (rid : Nat)
    (he : rid ∈ s.sh.enteredOnce) : rid ∈ s.sh.executed :=
  Ebu.Conc.once_entered_was_claimed progs s h rid he

/-- a delivery step whose filter rejects the event does not use the registration up -/
theorem filter_reject_not_consumed (sh : Shared) (th : Thread) (r : Reg) (f : Frame) (fs : List Frame) (o : Out)
    (hpc : th.pc = .filter r) (hfr : th.frames = f :: fs) (hrej : r.accepts f.v = false)
    (hstep : step sh th = some o) (hfresh : r.rid ∉ f.rest.map (·.rid)) (hno : r.rid ∉ sh.executed) :
    r.rid ∉ o.sh.executed :=
  Ebu.Conc.filter_reject_not_consumed sh th r f fs o hpc hfr hrej hstep hfresh hno

/-- a delivery step that finds the publish context cancelled does not use the registration up -/
theorem cancelled_not_consumed (sh : Shared) (th : Thread) (r : Reg) (f : Frame) (fs : List Frame) (o : Out)
    (hpc : th.pc = .filter r) (hfr : th.frames = f :: fs) (hdead : sh.live f.ctx = false)
    (hstep : step sh th = some o) (hno : r.rid ∉ sh.executed) :
    o.sh.executed = sh.executed :=
  Ebu.Conc.cancelled_not_consumed sh th r f fs o hpc hfr hdead hstep hno

/-- the once claim is an atomic compare-and-swap on `executed` (the only location the CURRENT source accesses
atomically, and it does so everywhere), and the retirement of a fired once handler – like every other registry update –
happens inside ONE write-locked critical section, so a concurrent Unsubscribe cannot write a spent handler back -/
theorem once_claim_and_retirement_atomic : Ebu.Locks.Discipline Ebu.Generated.accessFacts = true ∧
    Ebu.Locks.RegistryOpsAtomic Ebu.Generated.accessFacts = true :=
  ⟨Ebu.Props.C03.facts_discipline, Ebu.Props.C03.facts_registry_ops_atomic⟩

/-! ### obligations on the control flow of the CURRENT source (`Ebu/Generated/Flow.lean`, regenerated from /repo on every run) -/

/-- OBLIGATION: between the filter and the once claim the loop checks the context and skips the entry with `continue` (a rejected or cancelled delivery never reaches the compare-and-swap) -/
theorem flow_filter_and_ctx_before_claim : Ebu.Flow.ctxCheckBeforeClaim = true := by decide +kernel

/-- OBLIGATION: filter, then compare-and-swap, then the note for retirement, then dispatch; one compare-and-swap per entry -/
theorem flow_claim_order : Ebu.Flow.dispatchOrder = true := by decide +kernel

/-- OBLIGATION: a claimed once handler is retired by pointer identity after the loop -/
theorem flow_retire_by_identity : Ebu.Flow.retireByIdentity = true := by decide +kernel

/-! ### exactly once when eligible, and gone afterwards (M2 at quiescence, `Proofs/ConcOnce.lean`) -/

/-- "… and is no longer counted as subscribed afterwards": once every publish has returned, no registration whose
compare-and-swap succeeded is still in the registry – under every schedule, whoever claimed it, synchronous or Async -/
theorem once_fired_is_retired (progs : List (List Ebu.Conc.Op)) (s : Ebu.Conc.Sys) (h : Ebu.Conc.Reachable progs s)
    (hd : s.allDone) : ∀ r ∈ s.sh.regs, r.rid ∉ s.sh.executed :=
  Ebu.Conc.once_fired_is_retired progs s h hd

/-- "… it is invoked exactly once": when no publish context was ever cancelled, every claimed Once registration has been
entered exactly once by the time everything has finished (a claim is never lost between the compare-and-swap and the call) -/
theorem once_claimed_was_entered (progs : List (List Ebu.Conc.Op)) (s : Ebu.Conc.Sys) (h : Ebu.Conc.Reachable progs s)
    (hd : s.allDone) (hc : s.sh.cancelled = []) : ∀ rid ∈ s.sh.executed, s.sh.enteredOnce.count rid = 1 :=
  Ebu.Conc.once_claimed_was_entered progs s h hd hc

/-- only Once registrations are ever claimed -/
theorem executed_are_once (progs : List (List Ebu.Conc.Op)) (s : Ebu.Conc.Sys) (h : Ebu.Conc.Reachable progs s) :
    ∀ rid ∈ s.sh.executed, ∀ r ∈ s.sh.regs, r.rid = rid → r.once = true :=
  Ebu.Conc.executed_are_once progs s h

/-- the hypotheses are satisfiable: two publishers racing for a synchronous and an Async Once registration reach a
quiescent state in which both were claimed, both entered exactly once, and the registry is empty -/
theorem once_quiescence_reachable :
    Ebu.Conc.Reachable Ebu.Conc.OnceExample.oxProgs Ebu.Conc.OnceExample.oxState ∧ Ebu.Conc.OnceExample.oxState.allDone ∧
    Ebu.Conc.OnceExample.oxState.sh.cancelled = [] ∧ Ebu.Conc.OnceExample.oxState.sh.executed = [1, 0] ∧
    Ebu.Conc.OnceExample.oxState.sh.enteredOnce = [1, 0] ∧ Ebu.Conc.OnceExample.oxState.sh.regs = [] :=
  Ebu.Conc.OnceExample.once_hypotheses_satisfiable

end Ebu.Props.C04

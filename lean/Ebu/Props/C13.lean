import Ebu.Spec.Flow
import Ebu.Spec.Bus
import Ebu.Proofs.BusFrame
import Ebu.Proofs.BusPersist
/-!
C13 — Persistence failures are contained, reported once and never corrupt the log


-/
namespace Ebu.Props.C13
open Ebu.Bus

/-- what `persistEvent` does, case by case -/
theorem failure_reported_once_no_retry (cfg : Config) (d ty v : Nat) (bad : Bool) (obsParent : Nat) (c : Core) :
    let c' := persist cfg d ty v bad obsParent c
    -- no store: nothing at all
    (cfg.store = none → c' = c) ∧
    -- unencodable event: no append attempt, the error handler (if set) is told once
    (∀ sid, cfg.store = some sid → bad = true →
        c'.log = c.log ∧ c'.lastOffset = c.lastOffset ∧ c'.appendFaults = c.appendFaults ∧
        c'.trace = c.trace ++ (if cfg.perrH then [Ev.perr d ty v true] else [])) ∧
    -- the store accepts: exactly one record with the event's type and data, next offset
    (∀ sid, cfg.store = some sid → bad = false → c.appendFaults.headD false = false →
        c'.log = c.log ++ [(ty, v)] ∧ c'.lastOffset = c.log.length + 1 ∧
        (c'.trace.drop c.trace.length).filter (fun e => isAppend e || (match e with | .perr .. => true | _ => false)) =
          [Ev.append d sid ty v true (c.log.length + 1)]) ∧
    -- the store rejects: no record, no retry, one report
    (∀ sid, cfg.store = some sid → bad = false → c.appendFaults.headD false = true →
        c'.log = c.log ∧ c'.lastOffset = c.lastOffset ∧
        (c'.trace.drop c.trace.length).filter (fun e => isAppend e || (match e with | .perr .. => true | _ => false)) =
          [Ev.append d sid ty v false 0] ++ (if cfg.perrH then [Ev.perr d ty v false] else [])) :=
  Ebu.Bus.persist_spec cfg d ty v bad obsParent c

/-- C13: which handlers run, in which order, with which events and results of registry
queries does not depend on whether appends fail: two runs that differ only in the fault
script have the same trace once the persistence events are removed -/
theorem delivery_independent_of_faults {R : Type} (I : RegImpl R) (cfg : Config) (fuel : Nat)
    (f1 f2 : List Bool) (prog : List Action) :
    (run I cfg fuel f1 prog).c.trace.filter (fun e => !isPersistEv e) =
    (run I cfg fuel f2 prog).c.trace.filter (fun e => !isPersistEv e) :=
  Ebu.Bus.delivery_independent_of_faults I cfg fuel f1 f2 prog

/-- C09/C13: in every run the log has exactly one record per successful append, and the
offsets handed out are 1, 2, 3, … in order (distinct, strictly increasing), also across
failed appends -/
theorem offsets_keep_increasing {R : Type} (I : RegImpl R) (cfg : Config) (fuel : Nat) (faults : List Bool)
    (prog : List Action) :
    let s := run I cfg fuel faults prog
    okOffsets s.c.trace = (List.range s.c.log.length).map (· + 1) ∧ s.c.lastOffset = s.c.log.length :=
  Ebu.Bus.offsets_increasing I cfg fuel faults prog

/-- a panic never escapes to the top level -/
theorem publish_does_not_panic {R : Type} (I : RegImpl R) (cfg : Config) (fuel : Nat) (faults : List Bool)
    (prog : List Action) : (run I cfg fuel faults prog).c.panicking = none :=
  Ebu.Bus.no_panic_escapes I cfg fuel faults prog

/-! ### obligations on the control flow of the CURRENT source (`Ebu/Generated/Flow.lean`, regenerated from /repo on every run) -/

/-- OBLIGATION: `persistEvent` reports a marshal failure and returns before any append; makes ONE append attempt in no loop (no retry); writes `lastOffset` only under `saveErr == nil`; reports an append failure once, after the lock is released; cancels the timeout context by `defer` -/
theorem flow_persist_shape : Ebu.Flow.persistShape = true := by decide +kernel

end Ebu.Props.C13

import Ebu.Spec.Flow
import Ebu.Generated.SqlFacts
import Ebu.Model.Durable
import Ebu.Proofs.Durable
/-!
C14 — What the SQLite store acknowledged survives reopening and a killed process

Model: M10 (`Ebu/Model/Durable.lean`). The theorems quantify over every sequence of appends, offset saves, kills (between or during operations, the in-flight statement committed or not), clean closes and reopenings; they rest on the assumptions stated at the top of the model file (statement atomicity, durability of committed statements across process death, AUTOINCREMENT), which the kill harness samples.
-/
namespace Ebu.Props.C14
open Ebu.Durable

/-- positions handed out are exactly 1,2,…,seq in order: the log is gap-free and ordered -/
theorem log_gap_free (ops : List Op) :
    (run ops).1.rows.map (·.1) = (List.range (run ops).1.rows.length).map (· + 1) ∧
    (run ops).1.seq = (run ops).1.rows.length :=
  Ebu.Durable.log_gap_free ops

/-- every acknowledged event is in the log, with the offset it was acknowledged with, in
acknowledgement order; the log holds nothing else except events that were in flight when the
process was killed -/
theorem acked_survive (ops : List Op) :
    List.Sublist ((run ops).2.appends.map (fun a => (a.2, a.1))) (run ops).1.rows :=
  Ebu.Durable.acked_survive ops

/-- an acknowledged SaveOffset is what LoadOffset returns afterwards, unless a later save of the
same id (acknowledged, or in flight when the process was killed) replaced it -/
theorem saved_offset_survives (ops : List Op) (id off : Nat) (more : List Op)
    (hnone : ∀ op ∈ more, (∀ o, op ≠ .save id o) ∧ (∀ o c, op ≠ .killSave id o c)) :
    subOf (run (ops ++ [.save id off] ++ more)).1 id = off :=
  Ebu.Durable.saved_offset_survives ops id off more hnone

/-- new appends always receive offsets larger than every offset handed out before, across any
number of kills and reopenings -/
theorem new_offsets_larger (ops : List Op) (r : Nat) :
    ∀ p ∈ (run ops).1.rows.map (·.1), p < (commitAppend (run ops).1 r).2 :=
  Ebu.Durable.new_offsets_larger ops r

/-- opening an existing database is idempotent and never touches the rows -/
theorem open_idempotent (s : Db × Acked) :
    step (step s .open) .open = step s .open ∧ (step s .open).1.rows = s.1.rows ∧ (step s .open).1.subs = s.1.subs :=
  Ebu.Durable.open_idempotent s

/-! ### obligations on the CURRENT source (SQL text regenerated from stores/sqlite on every run)

The model's assumptions name what the store must ask SQLite for; these are checked on the
extracted statements by the kernel. -/

open Ebu.Generated.Sql in
/-- the database is opened in WAL mode with synchronous = NORMAL (a committed transaction
survives the death of the process) -/
theorem journal_mode_wal : pragmas.contains ["PRAGMA", "journal_mode", "=", "WAL"] = true ∧
    pragmas.contains ["PRAGMA", "synchronous", "=", "NORMAL"] = true := by decide

open Ebu.Generated.Sql in
/-- positions come from an AUTOINCREMENT primary key: never reused, strictly increasing -/
theorem positions_autoincrement :
    (migrateInTx.any (fun st => st.take 6 == ["CREATE", "TABLE", "IF", "NOT", "EXISTS", "events"] &&
      (st.drop 6).take 6 == ["(", "position", "INTEGER", "PRIMARY", "KEY", "AUTOINCREMENT"])) = true := by decide

open Ebu.Generated.Sql in
/-- Append is exactly one INSERT and SaveOffset exactly one UPSERT (each a single atomic statement:
a kill can only land before or after it), neither makes any other database round trip, and the offset
Append acknowledges is the rowid reported for that very INSERT (not a value read on some pooled connection) -/
theorem append_and_save_are_single_statements :
    appendExecs = 1 ∧ saveOffsetExecs = 1 ∧ appendDbCalls = 1 ∧ saveOffsetDbCalls = 1 ∧
    appendOffsetFromInsertResult = true ∧ appendSql.take 3 == ["INSERT", "INTO", "events"] ∧
    (saveOffsetSql.take 3 == ["INSERT", "INTO", "subscription_positions"] && saveOffsetSql.contains "CONFLICT" &&
      saveOffsetSql.contains "UPDATE") = true := by decide

open Ebu.Generated.Sql in
/-- the schema and its version row are created in one transaction; opening again only re-runs
idempotent statements (`IF NOT EXISTS`) -/
theorem migrate_in_one_tx :
    migrateInTx.length = 4 ∧ (migrateInTx.getLast?.map (fun st => st.take 3)) = some ["INSERT", "INTO", "schema_version"] ∧
    (migrateOutsideTx.all (fun st => st.take 5 == ["CREATE", "TABLE", "IF", "NOT", "EXISTS"])) = true ∧
    ((migrateInTx.take 3).all (fun st => (st.drop 2).take 3 == ["IF", "NOT", "EXISTS"])) = true := by decide

/-! ### obligations on the control flow of the CURRENT source (`Ebu/Generated/Flow.lean`, regenerated from /repo on every run) -/

/-- OBLIGATION: SQLite `Append` makes one Exec and takes the offset from that Exec's result -/
theorem flow_sqlite_append_shape : Ebu.Flow.sqliteShape = true := by decide +kernel

/-- OBLIGATION: the schema is created inside one transaction with a deferred rollback that fires when an error is returned, every statement on the transaction, commit last; and only when the recorded version is below 1 -/
theorem flow_migration_is_transactional : Ebu.Flow.migrateShape = true := by decide +kernel

end Ebu.Props.C14

import Ebu.Proofs.ConcDead
import Ebu.Spec.Flow
import Ebu.Props.C03Facts
import Ebu.Spec.Conc
import Ebu.Proofs.Conc
/-!
C02 — Subscribe, unsubscribe and publish stay consistent under every interleaving

Model: M2 (`Ebu/Model/Conc.lean`), the interleaving model: `Reachable progs s` ranges over every program, any number of threads and every schedule at yield-point granularity.
-/
namespace Ebu.Props.C02
open Ebu.Conc

/-- no subscription is lost or duplicated: every registration ever created is either still
registered or was removed exactly once; registration identities are unique -/
theorem registry_accounting (progs : List (List Op)) (s : Sys) (h : Reachable progs s) :
    s.sh.regs.length + s.sh.removed = s.sh.nextRid ∧ (s.sh.regs.map (·.rid)).Nodup ∧
    ∀ r ∈ s.sh.regs, r.rid < s.sh.nextRid :=
  Ebu.Conc.registry_accounting progs s h

/-- a publish takes its snapshot from the registry as it is at that step: exactly the
registrations of the published type, in subscription order -/
theorem publish_takes_current_registry (sh : Shared) (th : Thread) (ty v : Nat) (ctx : Ctx) (prog : List Op)
    (hpc : th.pc = .op) (hfr : th.frames = []) (hprog : th.prog = .publish ty v ctx :: prog) :
    ∃ o f, step sh th = some o ∧ o.th.frames = [f] ∧ o.th.pc = .snap ∧ o.sh = sh ∧
      f.snapshot = sh.regs.filter (fun r => r.ty == ty) ∧ f.rest = f.snapshot ∧ f.v = v ∧ f.ty = ty :=
  Ebu.Conc.publish_takes_current_registry sh th ty v ctx prog hpc hfr hprog

/-- every activation only ever dispatches what is left of its own snapshot: the entries still
to be dispatched are a suffix of the snapshot (so each entry is dispatched at most once, in
order), and the snapshot holds registrations of the published type only -/
theorem dispatch_within_snapshot (progs : List (List Op)) (s : Sys) (h : Reachable progs s) :
    ∀ th ∈ s.ths, ∀ f ∈ th.frames, f.rest <:+ f.snapshot ∧ ∀ r ∈ f.snapshot, r.ty = f.ty ∧ r.rid < s.sh.nextRid :=
  Ebu.Conc.dispatch_within_snapshot progs s h

/-- however the threads interleave, the handler of a Once registration is entered at most once -/
theorem once_at_most_once (progs : List (List Op)) (s : Sys) (h : Reachable progs s) (rid : Nat) :
    s.sh.enteredOnce.count rid ≤ 1 :=
  Ebu.Conc.once_at_most_once progs s h rid

/-- invocations of a Sequential registration never overlap: at most one activation is inside it,
and exactly when its mutex is held -/
theorem seq_mutex (progs : List (List Op)) (s : Sys) (h : Reachable progs s) (rid : Nat) :
    sumNat (s.ths.map (inside rid)) = s.sh.held.count rid ∧ s.sh.held.count rid ≤ 1 :=
  Ebu.Conc.seq_mutex progs s h rid

/-- the atomic subscribe / removal steps of M2 are what the CURRENT source does: every registry mutator looks up
and updates `shard.handlers` inside one write-locked critical section (fact table regenerated on every run) -/
theorem registry_steps_atomic : Ebu.Locks.RegistryOpsAtomic Ebu.Generated.accessFacts = true :=
  Ebu.Props.C03.facts_registry_ops_atomic

/-! ### obligations on the control flow of the CURRENT source (`Ebu/Generated/Flow.lean`, regenerated from /repo on every run) -/

/-- OBLIGATION: the snapshot step of M2 is one read-locked copy, released before dispatch -/
theorem flow_snapshot_under_read_lock : Ebu.Flow.publishPrelude = true := by decide +kernel

/-- OBLIGATION: the retirement step of M2 removes exactly the claimed registrations (pointer identity) inside one write-locked section after the loop -/
theorem flow_retire_by_identity : Ebu.Flow.retireByIdentity = true := by decide +kernel

/-- OBLIGATION: M2's `subscribe` step: options first, then one append under the write lock -/
theorem flow_registry_calls : Ebu.Flow.subscribeShape = true := by decide +kernel

/-- OBLIGATION: M2's `unsubscribe` step (`eraseFirst`): the first registration with that code pointer, one entry, under the write lock -/
theorem flow_unsubscribe_first_match : Ebu.Flow.unsubscribeShape = true := by decide +kernel

/-- OBLIGATION: M2's `clear` step: one delete under the write lock -/
theorem flow_clear_shape : Ebu.Flow.clearShape = true := by decide +kernel

/-! ### a removed handler is never invoked again (M2 with its trace, `Proofs/ConcDead.lean`) -/

/-- "a handler whose removal returned before the publish was called … never receives it": once a registration is
neither in the registry nor carried by a publish in progress (in the rest of a snapshot, as running handler, at a
program counter, as the job of a goroutine), it stays that way and no step ever enters it – whatever is published
afterwards, under every schedule -/
theorem removed_registration_is_dead (progs : List (List Ebu.Conc.Op)) (x x2 : Ebu.Conc.SysT)
    (h : Ebu.Conc.ReachableT progs x) (hs : Ebu.Conc.StepsT x x2) (rid : Nat) (hrid : rid < x.s.sh.nextRid)
    (hgone : ∀ r ∈ x.s.sh.regs, r.rid ≠ rid) (hfree : ∀ th ∈ x.s.ths, Ebu.Conc.carriesReg rid th = false) :
    Ebu.Conc.entriesOfReg rid x2.tr = Ebu.Conc.entriesOfReg rid x.tr ∧
    (∀ r ∈ x2.s.sh.regs, r.rid ≠ rid) ∧ (∀ th ∈ x2.s.ths, Ebu.Conc.carriesReg rid th = false) :=
  Ebu.Conc.removed_registration_is_dead h hs rid hrid hgone hfree

/-- a registration is entered only by a goroutine that carried it before the step (it was in a snapshot taken while the
registration was registered): nothing is delivered to a handler out of thin air -/
theorem entered_only_if_carried (x x2 : Ebu.Conc.SysT) (i : Nat) (hstep : x.stepAt i = some x2) (rid : Nat)
    (hnew : Ebu.Conc.entriesOfReg rid x2.tr ≠ Ebu.Conc.entriesOfReg rid x.tr) :
    ∃ th, x.s.ths[i]? = some th ∧ Ebu.Conc.carriesReg rid th = true :=
  Ebu.Conc.entered_only_if_carried_strong hstep rid hnew

/-- non-vacuity: subscribe, publish, unsubscribe, publish – the handler ran once, then the hypotheses hold, and the
second publish does not reach it -/
theorem removed_registration_example :
    Ebu.Conc.ReachableT Ebu.Conc.DeadExample.dxProgs Ebu.Conc.DeadExample.dxState ∧
    Ebu.Conc.StepsT Ebu.Conc.DeadExample.dxState Ebu.Conc.DeadExample.dxFinal ∧
    0 < Ebu.Conc.DeadExample.dxState.s.sh.nextRid ∧
    (∀ r ∈ Ebu.Conc.DeadExample.dxState.s.sh.regs, r.rid ≠ 0) ∧
    (∀ th ∈ Ebu.Conc.DeadExample.dxState.s.ths, Ebu.Conc.carriesReg 0 th = false) ∧
    Ebu.Conc.entriesOfReg 0 Ebu.Conc.DeadExample.dxState.tr = [(0, Ebu.Conc.Obs.enter 0 0 1 false)] ∧
    Ebu.Conc.DeadExample.dxFinal.s.ths.map (·.pc) = [Ebu.Conc.Pc.done] ∧
    Ebu.Conc.entriesOfReg 0 Ebu.Conc.DeadExample.dxFinal.tr = [(0, Ebu.Conc.Obs.enter 0 0 1 false)] :=
  Ebu.Conc.dead_hypotheses_satisfiable

end Ebu.Props.C02

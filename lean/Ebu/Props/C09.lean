import Ebu.Spec.Flow
import Ebu.Props.C03Facts
import Ebu.Proofs.PersistConc
import Ebu.Spec.Bus
import Ebu.Proofs.BusPersist
/-!
C09 — Every publish on a persistent bus is recorded once, before it is delivered


-/
namespace Ebu.Props.C09
open Ebu.Bus

/-- the configuration produced by an option list does not depend on where `WithStore` stands:
the store is the last `WithStore` given (or the base one), every flag is "was it given" -/
theorem options_order_irrelevant (base : Config) (opts : List Opt) :
    let c := applyOptions base opts
    c.store = (match lastStore opts with | some sid => some sid | none => base.store) ∧
    c.hookBL = (base.hookBL || opts.contains .hookBL) ∧ c.hookBC = (base.hookBC || opts.contains .hookBC) ∧
    c.hookAL = (base.hookAL || opts.contains .hookAL) ∧ c.hookAC = (base.hookAC || opts.contains .hookAC) ∧
    c.panicH = (base.panicH || opts.contains .panicH) ∧ c.perrH = (base.perrH || opts.contains .perrH) ∧
    c.obs = (base.obs || opts.contains .obs) ∧ c.maxDepth = base.maxDepth ∧ c.maxCalls = base.maxCalls ∧
    c.bodies = base.bodies :=
  Ebu.Bus.applyOptions_spec base opts

/-- every permutation of an option list that names one store gives the same bus -/
theorem options_permutation (base : Config) (opts opts' : List Opt) (sid : Nat)
    (hperm : opts.Perm opts') (hone : ∀ o ∈ opts, ∀ k, o = .store k → k = sid) :
    applyOptions base opts = applyOptions base opts' :=
  Ebu.Bus.applyOptions_perm base opts opts' sid hperm hone

/-- what `persistEvent` does, case by case -/
theorem one_record_per_publish (cfg : Config) (d ty v : Nat) (bad : Bool) (obsParent : Nat) (c : Core) :
    let c' := persist cfg d ty v bad obsParent c
    -- no store: nothing at all
    (cfg.store = none → c' = c) ∧
    -- unencodable event: no append attempt, the error handler (if set) is told once
    (∀ sid, cfg.store = some sid → bad = true →
        c'.log = c.log ∧ c'.lastOffset = c.lastOffset ∧ c'.appendFaults = c.appendFaults ∧
        c'.trace = c.trace ++ (if cfg.perrH then [Ev.perr d ty v true] else [])) ∧
    -- the store accepts: exactly one record with the event's type and data, next offset
    (∀ sid, cfg.store = some sid → bad = false → c.appendFaults.headD false = false →
        c'.log = c.log ++ [(ty, v)] ∧ c'.lastOffset = c.log.length + 1 ∧
        (c'.trace.drop c.trace.length).filter (fun e => isAppend e || (match e with | .perr .. => true | _ => false)) =
          [Ev.append d sid ty v true (c.log.length + 1)]) ∧
    -- the store rejects: no record, no retry, one report
    (∀ sid, cfg.store = some sid → bad = false → c.appendFaults.headD false = true →
        c'.log = c.log ∧ c'.lastOffset = c.lastOffset ∧
        (c'.trace.drop c.trace.length).filter (fun e => isAppend e || (match e with | .perr .. => true | _ => false)) =
          [Ev.append d sid ty v false 0] ++ (if cfg.perrH then [Ev.perr d ty v false] else [])) :=
  Ebu.Bus.persist_spec cfg d ty v bad obsParent c

/-- C09: in the events of one publish, the append of its record (when there is a store and
the event is encodable) comes before every handler entry of that publish, and the log the
handlers see already contains it -/
theorem recorded_before_delivery {R : Type} (I : RegImpl R) (cfg : Config) (n : Nat) (fr : Frame)
    (ty v : Nat) (sel : CtxSel) (s : St R) (sid : Nat) (hstore : cfg.store = some sid)
    (hok : s.c.appendFaults.headD false = false) :
    let s' := publish I cfg (exec I cfg n) fr ty v false sel s
    ∃ pre post, newTrace s s' = pre ++ [Ev.append fr.depth sid ty v true (s.c.log.length + 1)] ++ post ∧
      (∀ e ∈ pre, isEnter e = false ∧ isAppend e = false) ∧
      (∃ l, s'.c.log = s.c.log ++ (ty, v) :: l) :=
  Ebu.Bus.publish_persists_first I cfg n fr ty v sel s sid hstore hok

/-- C09/C13: in every run the log has exactly one record per successful append, and the
offsets handed out are 1, 2, 3, … in order (distinct, strictly increasing), also across
failed appends -/
theorem offsets_increasing {R : Type} (I : RegImpl R) (cfg : Config) (fuel : Nat) (faults : List Bool)
    (prog : List Action) :
    let s := run I cfg fuel faults prog
    okOffsets s.c.trace = (List.range s.c.log.length).map (· + 1) ∧ s.c.lastOffset = s.c.log.length :=
  Ebu.Bus.offsets_increasing I cfg fuel faults prog

/-! ### N publishers, every schedule (M2p, `Ebu/Model/PersistConc.lean`) -/

/-- for any number of concurrent publishers and EVERY schedule: the offsets in the log are 1, 2, 3, … (distinct,
strictly increasing in log order) and `lastOffset` is the last one handed out -/
theorem concurrent_offsets_increasing (recs sched : List Nat) :
    let s := Ebu.PersistConc.run recs sched
    s.log.map (·.1) = List.range' 1 s.log.length ∧ s.lastOffset = s.log.length :=
  Ebu.PersistConc.offsets_ok recs sched

/-- … the log holds exactly one record per publish that has persisted (none lost, none twice), so N publishes that
have all got past `persistEvent` give exactly N records -/
theorem concurrent_one_record_per_publish (recs sched : List Nat) :
    let s := Ebu.PersistConc.run recs sched
    (s.log.map (·.2)).Perm (Ebu.PersistConc.persistedRecs s) ∧
    ((∀ t ∈ s.threads, 0 < t.pc) → s.log.length = recs.length) := by
  refine ⟨Ebu.PersistConc.log_ok recs sched, fun hall => ?_⟩
  rw [Ebu.PersistConc.all_persisted_length recs sched hall, Ebu.PersistConc.threads_length]

/-- … and the handlers of every publish run with that publish's record already readable from the log -/
theorem concurrent_recorded_before_delivery (recs sched : List Nat) :
    ∀ p ∈ (Ebu.PersistConc.run recs sched).seen, p.1 ∈ p.2.map (·.2) :=
  (Ebu.PersistConc.seen_ok recs sched).1

/-- the atomic persist step of M2p is what the CURRENT source does: `store.Append` and the update of `lastOffset`
sit inside one `storeMu` critical section (fact table regenerated from persist.go on every run); without it two
publishers can be handed the same offset (`Ebu.PersistConc.unlocked_duplicates_offsets`) -/
theorem appends_serialised : Ebu.Locks.CallbacksOk Ebu.Generated.callbackFacts = true ∧
    ((([0, 1, 0, 1].foldl Ebu.PersistConc.ustepAt { threads := [{ record := 7 }, { record := 8 }] }).log.map (·.1)) = [1, 1]) :=
  ⟨Ebu.Props.C03.facts_callbacks_lock_free, Ebu.PersistConc.unlocked_duplicates_offsets⟩

/-! ### obligations on the control flow of the CURRENT source (`Ebu/Generated/Flow.lean`, regenerated from /repo on every run) -/

/-- OBLIGATION: `persistEvent` is called exactly once per publish, unconditionally, after the before-hooks and before the snapshot is taken -/
theorem flow_persist_before_snapshot : Ebu.Flow.publishPrelude = true := by decide +kernel

/-- OBLIGATION: `persistEvent`: marshal, then ONE append (in no loop) inside the `storeMu` critical section together with the update of `lastOffset` (only on success) -/
theorem flow_persist_shape : Ebu.Flow.persistShape = true := by decide +kernel

end Ebu.Props.C09

import Ebu.Spec.Flow
import Ebu.Props.C03
import Ebu.Spec.Conc
import Ebu.Proofs.Conc
/-!
C07 — Sequential handlers never overlap and process events in publish order

Model: M2 (`Ebu/Model/Conc.lean`), the interleaving model: `Reachable progs s` ranges over every program, any number of threads and every schedule at yield-point granularity.
-/
namespace Ebu.Props.C07
open Ebu.Conc

/-- invocations of a Sequential registration never overlap: at most one activation is inside it,
and exactly when its mutex is held -/
theorem seq_mutex (progs : List (List Op)) (s : Sys) (h : Reachable progs s) (rid : Nat) :
    sumNat (s.ths.map (inside rid)) = s.sh.held.count rid ∧ s.sh.held.count rid ≤ 1 :=
  Ebu.Conc.seq_mutex progs s h rid

/-- Async+Sequential: tickets are handed out 0,1,2,… in dispatch order … -/
theorem tickets_in_dispatch_order (progs : List (List Op)) (s : Sys) (h : Reachable progs s) (rid : Nat) :
    ticketsOf rid s.sh.issued = List.range (ticketsOf rid s.sh.issued).length :=
  Ebu.Conc.tickets_in_dispatch_order progs s h rid

/-- … and turns are taken 0,1,2,… in that same order: the k-th event dispatched to the
registration is the k-th one processed (publish order is preserved) -/
theorem turns_in_ticket_order (progs : List (List Op)) (s : Sys) (h : Reachable progs s) (rid : Nat) :
    ticketsOf rid s.sh.turns = List.range (ticketsOf rid s.sh.turns).length ∧
    (ticketsOf rid s.sh.turns).length ≤ (ticketsOf rid s.sh.issued).length :=
  Ebu.Conc.turns_in_ticket_order progs s h rid

/-- the ticket counter, the serving counter and the in-flight counter are only touched under their mutexes in the
CURRENT source (fact table regenerated on every run): tickets are handed out without lost updates, which is what the
atomic `ticket` step of M2 assumes -/
theorem ticket_counters_locked : Ebu.Locks.Discipline Ebu.Generated.accessFacts = true :=
  Ebu.Props.C03.facts_discipline

/-! ### obligations on the control flow of the CURRENT source (`Ebu/Generated/Flow.lean`, regenerated from /repo on every run) -/

/-- OBLIGATION: the ticket is taken by the publisher (in dispatch order, before `go`), the turn is awaited inside the goroutine before the handler call, and released by a `defer` registered right after -/
theorem flow_ticket_discipline : Ebu.Flow.ticketDiscipline = true := by decide +kernel

/-- OBLIGATION: the Sequential mutex is taken in `callHandlerWithContext` and unlocked by a `defer` registered right after the lock -/
theorem flow_handler_mutex : Ebu.Flow.handlerBracket = true := by decide +kernel

/-- OBLIGATION: `awaitTurn` re-checks `seqServing` in a loop around `seqCond.Wait` and `releaseTurn` advances `seqServing` and BROADCASTS under `seqMu`: M2's turn step is enabled exactly when `serving = ticket`, which needs every waiting goroutine to be woken, not just one -/
theorem flow_turn_wakes_every_waiter : Ebu.Flow.condVarShape = true := by decide +kernel

end Ebu.Props.C07

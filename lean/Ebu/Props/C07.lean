import Ebu.Proofs.ConcTrace
import Ebu.Proofs.ConcOrder
import Ebu.Model.TurnLock
import Ebu.Spec.Flow
import Ebu.Props.C03Facts
import Ebu.Spec.Conc
import Ebu.Proofs.Conc
/-!
C07 — Sequential handlers never overlap and process events in publish order

Model: M2 (`Ebu/Model/Conc.lean`), the interleaving model: `Reachable progs s` ranges over every program, any number of threads and every schedule at yield-point granularity.
-/
namespace Ebu.Props.C07
open Ebu.Conc

/-- invocations of a Sequential registration never overlap: at most one activation is inside it,
and exactly when its mutex is held -/
theorem seq_mutex (progs : List (List Op)) (s : Sys) (h : Reachable progs s) (rid : Nat) :
    sumNat (s.ths.map (inside rid)) = s.sh.held.count rid ∧ s.sh.held.count rid ≤ 1 :=
  Ebu.Conc.seq_mutex progs s h rid

/-- Async+Sequential: tickets are handed out 0,1,2,… in dispatch order … -/
theorem tickets_in_dispatch_order (progs : List (List Op)) (s : Sys) (h : Reachable progs s) (rid : Nat) :
    ticketsOf rid s.sh.issued = List.range (ticketsOf rid s.sh.issued).length :=
  Ebu.Conc.tickets_in_dispatch_order progs s h rid

/-- … and turns are taken 0,1,2,… in that same order: the k-th event dispatched to the
registration is the k-th one processed (publish order is preserved) -/
theorem turns_in_ticket_order (progs : List (List Op)) (s : Sys) (h : Reachable progs s) (rid : Nat) :
    ticketsOf rid s.sh.turns = List.range (ticketsOf rid s.sh.turns).length ∧
    (ticketsOf rid s.sh.turns).length ≤ (ticketsOf rid s.sh.issued).length :=
  Ebu.Conc.turns_in_ticket_order progs s h rid

/-- the ticket counter, the serving counter and the in-flight counter are only touched under their mutexes in the
CURRENT source (fact table regenerated on every run): tickets are handed out without lost updates, which is what the
atomic `ticket` step of M2 assumes -/
theorem ticket_counters_locked : Ebu.Locks.Discipline Ebu.Generated.accessFacts = true :=
  Ebu.Props.C03.facts_discipline

/-! ### obligations on the control flow of the CURRENT source (`Ebu/Generated/Flow.lean`, regenerated from /repo on every run) -/

/-- OBLIGATION: the ticket is taken by the publisher (in dispatch order, before `go`), the turn is awaited inside the goroutine before the handler call, and released by a `defer` registered right after -/
theorem flow_ticket_discipline : Ebu.Flow.ticketDiscipline = true := by decide +kernel

/-- OBLIGATION: the Sequential mutex is taken first thing in `callHandlerWithContext` and unlocked by a `defer` registered right after the lock; the context is checked again once it is held -/
theorem flow_handler_mutex : Ebu.Flow.handlerBracket = true := by decide +kernel

/-- OBLIGATION: `awaitTurn` re-checks `seqServing` in a loop around `seqCond.Wait` and `releaseTurn` advances `seqServing` and BROADCASTS under `seqMu`: M2's turn step is enabled exactly when `serving = ticket`, which needs every waiting goroutine to be woken, not just one -/
theorem flow_turn_wakes_every_waiter : Ebu.Flow.condVarShape = true := by decide +kernel

/-! ### every event dispatched to an Async(+Sequential) handler is delivered exactly once (M2 with its trace) -/

/-- the goroutine started for one event of an Async (+Sequential) handler delivers exactly that event to exactly that
registration, at most once – and exactly once when it has finished and the publish context is live -/
theorem async_sequential_delivery_exactly_once (progs : List (List Ebu.Conc.Op)) (x : Ebu.Conc.SysT)
    (h : Ebu.Conc.ReachableT progs x) (i : Nat) (th : Ebu.Conc.Thread) (j : Ebu.Conc.Job)
    (hi : x.s.ths[i]? = some th) (hj : th.job = some j) :
    (Ebu.Conc.asyncEntersOf i x.tr = [] ∨ Ebu.Conc.asyncEntersOf i x.tr = [Ebu.Conc.Obs.enter j.reg.rid j.ty j.v true]) ∧
    (th.pc = .done → x.s.sh.live j.ctx = true →
      Ebu.Conc.asyncEntersOf i x.tr = [Ebu.Conc.Obs.enter j.reg.rid j.ty j.v true]) :=
  ⟨Ebu.Conc.async_at_most_once h i th j hi hj, fun hd hl => Ebu.Conc.async_exactly_once_when_done h i th j hi hj hd hl⟩

/-- no goroutine waits for a turn or a Sequential mutex for ever: under the rank hypothesis every maximal run ends with
every goroutine finished -/
theorem no_invocation_starves (ρ : Nat → Nat) (progs : List (List Ebu.Conc.Op)) (hr : Ebu.Conc.Ranked ρ progs)
    (x : Ebu.Conc.SysT) (h : Ebu.Conc.ReachableT progs x) (hmax : ¬ x.s.canStep) : x.s.allDone :=
  (Ebu.Conc.maximal_run_delivers_everything ρ progs hr h hmax).1

/-! ### processed in publish order (M2 with its trace, `Proofs/ConcOrder.lean`) -/

/-- the README's "preserves order", for every schedule: the tickets of the asynchronous entries of an Async+Sequential
registration, in the order in which its handler was entered, are strictly increasing – with `tickets_in_dispatch_order`
(tickets are handed out 0,1,2,… in dispatch order) events are processed in the order in which they were dispatched;
cancelled ones are skipped, none overtakes -/
theorem async_seq_entries_in_ticket_order (progs : List (List Ebu.Conc.Op)) (x : Ebu.Conc.SysT)
    (h : Ebu.Conc.ReachableT progs x) (rid : Nat) (hseq : Ebu.Conc.SeqJobs x.s rid) :
    (Ebu.Conc.asyncEntryTickets x rid).Pairwise (· < ·) :=
  Ebu.Conc.async_seq_entries_in_ticket_order h rid hseq

/-- … and whatever has been entered is below the ticket that is served next -/
theorem async_seq_entries_below_serving (progs : List (List Ebu.Conc.Op)) (x : Ebu.Conc.SysT)
    (h : Ebu.Conc.ReachableT progs x) (rid : Nat) (hseq : Ebu.Conc.SeqJobs x.s rid) :
    ∀ t ∈ Ebu.Conc.asyncEntryTickets x rid, t < Ebu.Conc.lookupD x.s.sh.serving rid + 1 :=
  Ebu.Conc.async_seq_entries_below_serving h rid hseq

/-- non-vacuity: an Async+Sequential handler, two publishes, the goroutine of the second event scheduled first: it has
to wait, and the handler is entered with tickets 0 then 1 -/
theorem entry_order_example :
    Ebu.Conc.ReachableT Ebu.Conc.OrderExample.ordProgs Ebu.Conc.OrderExample.ordState ∧
    Ebu.Conc.SeqJobs Ebu.Conc.OrderExample.ordState.s 0 ∧ Ebu.Conc.OrderExample.ordState.s.allDone ∧
    Ebu.Conc.asyncEntryTickets Ebu.Conc.OrderExample.ordState 0 = [0, 1] ∧
    Ebu.Conc.lookupD Ebu.Conc.OrderExample.ordState.s.sh.serving 0 = 2 :=
  Ebu.Conc.OrderExample.order_hypotheses_satisfiable

/-! ### the wake-up discipline of the ticket lock (M2t, `Ebu/Model/TurnLock.lean`) -/

/-- how `releaseTurn` wakes the goroutines waiting for their turn in the CURRENT source (read off its control-flow skeleton) -/
def sourceTurnWake : Ebu.Inflight.Wake :=
  if Ebu.Flow.occurs Ebu.Generated.Flow.turnBroadcast Ebu.Generated.Flow.releaseTurnFlow then .broadcast
  else if Ebu.Flow.occurs Ebu.Generated.Flow.turnSignal Ebu.Generated.Flow.releaseTurnFlow then .signal else .none

/-- OBLIGATION on the current source + consequence: `releaseTurn` broadcasts, hence – whatever the order in which
goroutines ask for their turn, park, are woken and resume – no goroutine is ever parked while its own ticket is being
served: the turn step of M2 ("enabled exactly when serving = ticket") abstracts the condition variable soundly -/
theorem turn_wakeups_never_lost (ops : List Ebu.TurnLock.Op) :
    sourceTurnWake = .broadcast ∧ Ebu.TurnLock.NoLostWakeup (Ebu.TurnLock.run sourceTurnWake ops) := by
  have h : sourceTurnWake = .broadcast := by decide +kernel
  exact ⟨h, h ▸ Ebu.TurnLock.broadcast_no_lost_wakeup ops⟩

/-- the obligation is not decoration: with `Signal` the wake-up can go to a goroutine whose turn it is not, and the one
whose turn it is sleeps on -/
theorem turn_signal_would_lose_a_wakeup :
    ¬ Ebu.TurnLock.NoLostWakeup (Ebu.TurnLock.run .signal [.await 0 0, .await 2 2, .await 1 1, .release, .resume 2]) :=
  Ebu.TurnLock.signal_loses_wakeup

end Ebu.Props.C07

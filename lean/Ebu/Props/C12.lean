import Ebu.Proofs.Log
import Ebu.Spec.Flow
import Ebu.Props.C03Facts
import Ebu.Proofs.SaveConc
import Ebu.Generated.Consts
import Ebu.Spec.Resume
import Ebu.Proofs.Resume
/-!
C12 — A resumable subscription sees each event of its type once across restarts

Model: M5 (`Ebu/Model/Resume.lean`) over a store that is an append-only log with resumable offsets (what C10 proves of the memory and SQLite stores). Known findings: events published while SubscribeWithReplay runs are lost (witness theorem `publish_during_replay_lost`); on the durable-streams store resumption inherits the C10 finding.
-/
namespace Ebu.Props.C12
open Ebu.Resume

/-- without crash or fault: what a subscription has been given is, at every moment, a prefix of
the persisted events of its type in log order – each exactly once – and everything once the
subscription is live (all its missed events were replayed, all later ones delivered live) -/
theorem resume_exactly_once (tyOf : Nat → Nat) (ops : List ROp) (hwf : wellFormed {} tyOf ops = true) (id : Nat) :
    let s := run {} ops
    deliveredTo s id <+: typed s.log (tyOf id) ∧ (isLive s id = true → deliveredTo s id = typed s.log (tyOf id)) :=
  Ebu.Resume.resume_exactly_once tyOf ops hwf id

/-- with a crash after ANY store operation and/or a failure of ANY single store operation:
nothing is lost and nothing is reordered – the persisted events of the subscription's type are,
in log order, a subsequence of what it was given once it is live again (what may be added are
re-deliveries of events whose position had not been saved, and live deliveries of events whose
append failed) -/
theorem resume_at_least_once (p : Plan) (tyOf : Nat → Nat) (ops : List ROp) (hwf : wellFormed p tyOf ops = true) (id : Nat) :
    let s := run p ops
    isLive s id = true → List.Sublist (typed s.log (tyOf id)) (deliveredTo s id) :=
  Ebu.Resume.resume_at_least_once p tyOf ops hwf id

/-- corrected statement -/
theorem saved_offset_monotone_of_freshSubs (p : Plan) (ops : List ROp) (hfresh : freshSubs p ops = true)
    (id : Nat) : List.Pairwise (· ≤ ·) (savesOf (run p ops) id) :=
  Ebu.Resume.saved_offset_monotone_of_freshSubs p ops hfresh id

/-- `saved_offset_monotone` as stated is false: -/
theorem saved_offset_monotone_counterexample :
    ¬ List.Pairwise (· ≤ ·) (savesOf (run {} [ROp.subscribe 7 2 none, .publish 1 1, .publish 1 2,
        .subscribe 7 1 (some (2, 9))]) 7) :=
  Ebu.Resume.saved_offset_monotone_counterexample 

/-- the saved offset is the last successfully saved one and never exceeds the log -/
theorem saved_within_log (p : Plan) (ops : List ROp) (id : Nat) :
    savedOf (run p ops) id ≤ (run p ops).log.length :=
  Ebu.Resume.saved_within_log p ops id

/-- different subscription ids progress independently: what `id` is given does not depend on
the other subscriptions of the history (fault-free, well-formed histories) -/
theorem ids_independent (tyOf : Nat → Nat) (ops : List ROp) (hwf : wellFormed {} tyOf ops = true) (id : Nat) :
    let ops' := ops.filter (fun op => match op with | .subscribe id' _ _ => id' == id | _ => true)
    deliveredTo (run {} ops) id = deliveredTo (run {} ops') id :=
  Ebu.Resume.ids_independent tyOf ops hwf id

/-- KNOWN FINDING (C12): an event published while SubscribeWithReplay is running – here by the
handler itself during the replay – is persisted but never delivered to that subscription, not
even after a restart: it is neither in the replay's snapshot nor seen by the live handler, and
the next live event moves the saved offset past it -/
theorem publish_during_replay_lost :
    let ops := [ROp.publish 1 1, .subscribe 7 1 (some (1, 9)), .publish 1 5, .restart, .subscribe 7 1 none]
    let s := run {} ops
    typed s.log 1 = [1, 9, 5] ∧ deliveredTo s 7 = [1, 5] ∧ isLive s 7 = true :=
  Ebu.Resume.publish_during_replay_lost 

/-! ### the saved offset under concurrent publishers (M5c, `Ebu/Model/SaveConc.lean`) -/

/-- under EVERY schedule of any number of concurrent publishes the values saved for a subscription never decrease
and the saved position is the last value saved – given that "read the bus offset" and "save it" are one step -/
theorem saved_offset_monotone_concurrent (n : Nat) (sched : List Nat) :
    let s := Ebu.SaveConc.runLocked n sched
    s.history.Pairwise (· ≤ ·) ∧ s.saved ≤ s.lastOffset ∧ (∀ x, s.history.getLast? = some x → s.saved = x) :=
  Ebu.SaveConc.saved_offset_monotone_concurrent n sched

/-- OBLIGATION on the current source: the live handler reads `bus.lastOffset` and calls `SaveOffset` inside one
critical section of its per-subscription mutex (extracted from persist.go on every run); without it the saved
offset regresses (`unlocked_saved_offset_regresses`: the history [2, 1]) -/
theorem live_save_is_one_step : Ebu.Generated.Consts.liveSaveSerialised = true ∧
    (Ebu.SaveConc.runUnlocked 2 [0, 0, 1, 1, 1, 0]).history = [2, 1] :=
  ⟨by decide, Ebu.SaveConc.unlocked_saved_offset_regresses.1⟩

/-- the bus offset a live handler saves is written inside the `storeMu` critical section that
also performs the append (CURRENT source), so it only ever increases; together with the
per-subscription save mutex (fix c3a4d4d) the saved offset is monotone under concurrent publishers -/
theorem bus_offset_serialised : Ebu.Locks.CallbacksOk Ebu.Generated.callbackFacts = true ∧
    Ebu.Locks.Discipline Ebu.Generated.accessFacts = true :=
  ⟨Ebu.Props.C03.facts_callbacks_lock_free, Ebu.Props.C03.facts_discipline⟩

/-! ### obligations on the control flow of the CURRENT source (`Ebu/Generated/Flow.lean`, regenerated from /repo on every run) -/

/-- OBLIGATION: `SubscribeWithReplay`: LoadOffset, then Replay, then – only after it has finished – the live registration; in the replay callback: upcast, select by name, decode, handler, THEN SaveOffset -/
theorem flow_resume_shape : Ebu.Flow.resumeShape = true := by decide +kernel

/-- OBLIGATION: the live handler: handler first, then inside one `saveMu` critical section read `bus.lastOffset` under `storeMu` and save it, unless nothing was persisted yet -/
theorem flow_resume_live_shape : Ebu.Flow.resumeLiveShape = true := by decide +kernel

/-! ### KNOWN FINDING: positions kept in the SQLite store for events kept in a MemoryStore (`WithSubscriptionStore`) -/

/-- KNOWN FINDING (C12-sqlite-subscription-store-rewrites-foreign-offsets): the SQLite store keeps saved positions as
integers, so the memory store's offset of record 3 comes back as "3"; the memory store compares offsets as strings and
finds nothing after "3" although records 4, 5 and 6 follow the saved offset – a resumed subscription never sees them -/
theorem sqlite_positions_lose_memory_events :
    ((Ebu.Log.Sql.save {} "s" (Ebu.Log.fmt20 3)).map (fun s => s.load "s")) = some (Ebu.Log.decimal 3) ∧
    (Ebu.Log.mem6.stream (Ebu.Log.fmt20 3)).map (·.2) = [4, 5, 6] ∧
    Ebu.Log.mem6.stream (Ebu.Log.decimal 3) = [] ∧ (Ebu.Log.mem6.read (Ebu.Log.decimal 3) 0).1 = [] :=
  ⟨Ebu.Log.sqlite_saved_offset_not_verbatim.1, Ebu.Log.sqlite_positions_lose_memory_events⟩

end Ebu.Props.C12

import Ebu.Spec.Flow
import Ebu.Spec.Bus
import Ebu.Proofs.BusFrame
/-!
C05 — A panicking handler never harms the publisher or the other handlers

`publish_complete` quantifies over arbitrary handler bodies, panicking ones included: the other handlers of the event still receive it.
-/
namespace Ebu.Props.C05
open Ebu.Bus

/-- a panic never escapes to the top level -/
theorem no_panic_escapes {R : Type} (I : RegImpl R) (cfg : Config) (fuel : Nat) (faults : List Bool)
    (prog : List Action) : (run I cfg fuel faults prog).c.panicking = none :=
  Ebu.Bus.no_panic_escapes I cfg fuel faults prog

/-- C05: the panic handler is called exactly once per panicking invocation — with the event,
the handler's kind and the panic value — and never otherwise; the invocation always returns
with the panic cleared -/
theorem panic_handler_exactly_once {R : Type} (I : RegImpl R) (cfg : Config) (n : Nat) (r : Reg)
    (ty v root obsParent d : Nat) (async : Bool) (s : St R) :
    let s' := callHandler cfg (exec I cfg n) r ty v root obsParent d async s
    s'.c.panicking = none ∧
    (newTrace s s').filter (isPanichAt d) =
      (match (bodyResult cfg (exec I cfg n) r ty v root obsParent d async s).c.panicking with
       | some val => if cfg.panicH then [Ev.panich d r.ctxAware ty v val] else []
       | none => []) :=
  Ebu.Bus.callHandler_panic I cfg n r ty v root obsParent d async s

/-- DELIVERY, completeness: with a context that cannot be cancelled, every registration of
the snapshot whose filter accepts the event is invoked (sync) or parked for invocation
(async) — whatever the other handlers do: unsubscribe it, clear, publish, panic -/
theorem others_still_receive {R : Type} (I : RegImpl R) (hI : I.Lawful) (cfg : Config) (n : Nat) (fr : Frame)
    (ty v : Nat) (bad : Bool) (s : St R) (h0 : 0 ∉ s.c.cancelled) (hctx : 0 < s.c.nextCtx) :
    let s' := publish I cfg (exec I cfg n) fr ty v bad .bg s
    ∀ r ∈ I.get s.reg ty, r.accepts v = true →
      (r.once = false → r.async = false → ∃ ctx, (r.rid, ty, v, ctx) ∈ directEnters fr.depth (newTrace s s')) ∧
      (r.once = false → r.async = true → ∃ q ∈ newPending s s', q.reg = r ∧ q.depth = fr.depth ∧ q.v = v) ∧
      (r.once = true → r.rid ∈ s'.c.executed) :=
  Ebu.Bus.publish_complete I hI cfg n fr ty v bad s h0 hctx

/-- C04/C05: at the end of every top-level run no fired once-handler is still registered -/
theorem panicking_once_stays_retired {R : Type} (I : RegImpl R) (hI : I.Lawful) (cfg : Config) (fuel : Nat)
    (faults : List Bool) (prog : List Action) :
    let s := run I cfg fuel faults prog
    ∀ t, ∀ r ∈ I.get s.reg t, r.once = true → r.rid ∉ s.c.executed :=
  Ebu.Bus.once_retired_after_run I hI cfg fuel faults prog

/-! ### obligations on the control flow of the CURRENT source (`Ebu/Generated/Flow.lean`, regenerated from /repo on every run) -/

/-- OBLIGATION: `callHandlerWithContext` takes the Sequential mutex first (unlock deferred right after the lock, then the context is checked again – the only early return), then registers the recovering `defer`; inside it `recover`, then the panic handler (only if something was recovered, once), then the handler-complete callback -/
theorem flow_handler_bracket : Ebu.Flow.handlerBracket = true := by decide +kernel

/-- OBLIGATION: an async goroutine gives its in-flight count back by a `defer` registered first (a panicking handler cannot leak it: `Wait` still returns) -/
theorem flow_async_cleanup_deferred : Ebu.Flow.inflightBracketsGoroutine = true := by decide +kernel

/-- OBLIGATION: the turn of an Async+Sequential invocation is released by a `defer` registered right after it was obtained -/
theorem flow_turn_release_deferred : Ebu.Flow.ticketDiscipline = true := by decide +kernel

end Ebu.Props.C05

import Ebu.Model.Bus
import Ebu.Spec.Bus
import Driver.Common
/- Line-protocol driver for M1 (sequential bus machine, sharded registry with the real FNV-1a routing). -/
namespace Driver.BusDrv
open Ebu.Bus Driver

/-- FNV-1a 32 bit over the bytes of the Go type name, as in `getShard` -/
def fnv1a (s : String) : Nat :=
  s.toUTF8.foldl (fun h b => ((h ^^^ b.toNat) * 16777619) % 4294967296) 2166136261

/-- reflect name of the harness event type number `t` -/
def goTypeName (t : Nat) : String :=
  if t == 40 then "json.RawMessage"       -- the event type that is a pre-encoded document
  else if t == 41 then "*main.T41"        -- the event type published as a pointer
  else if t == 46 then "main.G46[main.gItem]"   -- a generic event type
  else if t ≥ 42 then "main.U0" ++ toString (t - 40)   -- U02..U05: chosen so that all 32 shards are hit
  else "main.T" ++ (if t < 10 then "0" else "") ++ toString t

def numShards : Nat := 32

def shardOf (t : Nat) : Nat := fnv1a (goTypeName t) % numShards

def parseFilt (s : String) : Option (Nat × Nat) :=
  if s == "-" then none else
  match s.splitOn ":" with
  | [m, r] => some (nat! m, nat! r)
  | [m, r, _] => some (nat! m, nat! r)
  | _ => none

/-- "m:r:c": the filter cancels the publish context when it is evaluated -/
def parseFiltCancels (s : String) : Bool :=
  match s.splitOn ":" with
  | [_, _, c] => c == "c"
  | _ => false

def parseSel : String → CtxSel
  | "fresh" => .fresh | "dead" => .dead | "inherit" => .inherit | _ => .bg

def parseAction (ws : List String) : Option Action :=
  match ws with
  | ["sub", ty, hid, once, async, seq, filt, body] =>
    some (.subscribe (nat! ty) (nat! hid) (bool! once) (bool! async) (bool! seq) (parseFilt filt) (nat! body) (parseFiltCancels filt))
  | ["unsub", ty, hid] => some (.unsubscribe (nat! ty) (nat! hid))
  | ["clear", ty] => some (.clear (nat! ty))
  | ["clearall"] => some .clearAll
  | ["pub", ty, v, bad, sel] => some (.publish (nat! ty) (nat! v) (bool! bad) (parseSel sel))
  | ["cancel"] => some .cancel
  | ["cancelid", k] => some (.cancelId (nat! k))
  | ["panic", v] => some (.panic (nat! v))
  | ["has", ty] => some (.has (nat! ty))
  | ["count", ty] => some (.count (nat! ty))
  | ["drain"] => some .drain
  | ["wait"] => some .drain        -- `Wait` after the parked goroutines ran: returns at once (the harness times it)
  | ["readlog"] => some .readLog
  | _ => none

def parseOpt (w : String) : Option Opt :=
  match w with
  | "bl" => some .hookBL | "bc" => some .hookBC | "al" => some .hookAL | "ac" => some .hookAC
  | "panich" => some .panicH | "perrh" => some .perrH | "obs" => some .obs
  | _ => if w.startsWith "store" then some (.store (nat! (w.drop 5).toString)) else none

def showHook : HookKind → String
  | .bl => "bl" | .bc => "bc" | .al => "al" | .ac => "ac"

def showObs : ObsKind → String
  | .ps => "ps" | .pc => "pc" | .hs => "hs" | .hc => "hc" | .rs => "rs" | .rc => "rc"

def showEv : Ev → String
  | .filt d rid v ok => s!"filt {d} {rid} {v} {b01 ok}"
  | .enter d rid ty v ctx async => s!"enter {d} {rid} {ty} {v} {match ctx with | some c => toString c | none => "-"} {b01 async}"
  | .exit d rid => s!"exit {d} {rid}"
  | .panich d ca ty v val => s!"panich {d} {b01 ca} {ty} {v} {val}"
  | .hook d k ty v => s!"hook {d} {showHook k} {ty} {v}"
  | .append d sid ty v ok off => s!"append {d} {sid} {ty} {v} {b01 ok} {off}"
  | .log d recs => s!"log {d} " ++ (if recs.isEmpty then "-" else ",".intercalate (recs.map fun (t, v) => s!"{t}:{v}"))
  | .perr d ty v m => s!"perr {d} {ty} {v} {b01 m}"
  | .qHas d ty r => s!"has {d} {ty} {b01 r}"
  | .qCount d ty n => s!"count {d} {ty} {n}"
  | .qUnsub d ty hid ok => s!"unsub {d} {ty} {hid} {b01 ok}"
  | .obs d k id parent ty flag => s!"obs {d} {showObs k} {id} {parent} {ty} {b01 flag}"
  | .deep d => s!"deep {d}"

structure Parsed where
  otel : Bool := false
  unsampled : Bool := false      -- the OpenTelemetry adapter over a tracer that samples nothing: only the counters are visible
  cfg : Config := {}
  faults : List Bool := []
  bodies : Array (List Action) := #[]
  main : Array (Action ⊕ (String × Bool)) := #[]     -- an action, or a configuration setter called between actions
  bad : Array String := #[]

def splitOnSemi (ws : List String) : List (List String) :=
  let rec go (acc : List String) (out : List (List String)) : List String → List (List String)
    | [] => (if acc.isEmpty then out else out ++ [acc])
    | ";" :: rest => go [] (if acc.isEmpty then out else out ++ [acc]) rest
    | w :: rest => go (acc ++ [w]) out rest
  go [] [] ws

def parseCase (lines : Array String) : Parsed := Id.run do
  let mut p : Parsed := {}
  for l in lines do
    match words l with
    | "opts" :: ws =>
      -- `otel` installs the real OpenTelemetry implementation: callbacks happen, but are observed as spans/counters only
      let ws' := ws.map (fun w => if w == "otel" || w == "otelns" then "obs" else w)
      p := { p with cfg := applyOptions p.cfg (ws'.filterMap parseOpt), otel := p.otel || ws.contains "otel" || ws.contains "otelns",
                    unsampled := p.unsampled || ws.contains "otelns" }
    | ["maxdepth", n] => p := { p with cfg := { p.cfg with maxDepth := nat! n } }
    | "faults" :: ws => p := { p with faults := ws.map (fun w => w != "0") }
    | "body" :: idx :: "=" :: ws =>
      let acts := (splitOnSemi ws).filterMap parseAction
      let i := nat! idx
      let mut bs := p.bodies
      while bs.size ≤ i do bs := bs.push []
      p := { p with bodies := bs.set! i acts }
    | ["subnil", _, _] => pure ()     -- Subscribe with a nil option: refused, nothing changes (the harness checks the refusal)
    | ["setpanich", b] => p := { p with main := p.main.push (.inr ("panich", bool! b)) }
    | ["sethook", k, b] => p := { p with main := p.main.push (.inr (k, bool! b)) }
    | ["setperrh", b] => p := { p with main := p.main.push (.inr ("perrh", bool! b)) }
    | ws =>
      match parseAction ws with
      | some a => p := { p with main := p.main.push (.inl a) }
      | none => p := { p with bad := p.bad.push l }
  return p

def kindName : ObsKind → String
  | .ps => "ps" | .hs => "hs" | .rs => "rs" | _ => "?"

/-- M9: the summary an OpenTelemetry implementation accumulates from the callbacks of a trace -/
def otelLine (tr : List Ev) : String :=
  let sm := otelSummary tr
  let starts : List (Nat × ObsKind × Nat) := tr.filterMap fun e => match e with
    | .obs _ .ps id p _ _ => some (id, ObsKind.ps, p)
    | .obs _ .hs id p _ _ => some (id, ObsKind.hs, p)
    | .obs _ .rs id p _ _ => some (id, ObsKind.rs, p)
    | _ => none
  let kindOf (id : Nat) : String := if id = 0 then "root" else
    match starts.find? (fun x => x.1 == id) with
    | some x => kindName x.2.1
    | none => "foreign"
  let edges := starts.map fun x => kindName x.2.1 ++ "<-" ++ kindOf x.2.2
  let uniq := (edges.eraseDups.toArray.qsort (· < ·)).toList
  let es := if uniq.isEmpty then "-" else ",".intercalate (uniq.map fun e => s!"{e}:{edges.count e}")
  s!"otel started={sm.started} ended={sm.ended} notonce=0 publish={sm.publishes} handler={sm.handlerRuns} herr={sm.handlerErrors} herrspans={sm.handlerErrors} persist={sm.persistAttempts} perr={sm.persistErrors} edges={es}"

def otelCountersLine (tr : List Ev) : String :=
  let sm := otelSummary tr
  s!"otelns publish={sm.publishes} handler={sm.handlerRuns} herr={sm.handlerErrors} persist={sm.persistAttempts} perr={sm.persistErrors}"

def runCase (lines : Array String) : Array String :=
  let p := parseCase lines
  let cfg := { p.cfg with bodies := p.bodies.toList }
  -- `run`, with the configuration setter `SetPanicHandler` allowed between top-level actions
  let I := shardedImpl shardOf
  let (s, _) := p.main.toList.foldl (fun (sc : St _ × Config) item =>
    match item with
    | .inl a => (exec I sc.2 1000000 {} sc.1 a, sc.2)
    | .inr (k, b) =>
      (sc.1, if k == "panich" then { sc.2 with panicH := b } else if k == "bl" then { sc.2 with hookBL := b }
             else if k == "al" then { sc.2 with hookAL := b } else if k == "perrh" then { sc.2 with perrH := b } else sc.2))
    (initSt I p.faults, cfg)
  let isObs : Ev → Bool := fun e => match e with | .obs .. => true | _ => false
  let shown := if p.otel then s.c.trace.filter (fun e => !isObs e) else s.c.trace
  let out := (shown.map showEv).toArray
  let out := if s.c.outOfFuel then out.push "!OUT-OF-FUEL" else out
  let out := if s.c.pending.isEmpty then out else out.push s!"!pending {s.c.pending.length}"
  let out := if p.otel then out.push (if p.unsampled then otelCountersLine s.c.trace else otelLine s.c.trace) else out
  p.bad.map (fun l => "bad-op " ++ l) ++ out

end Driver.BusDrv

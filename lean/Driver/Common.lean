/- Shared helpers of the line-protocol driver (core Lean only). -/
namespace Driver

def words (line : String) : List String :=
  (line.trimAscii.toString.splitOn " ").filter (· ≠ "")

def nat! (s : String) : Nat := s.toNat?.getD 0

def bool! (s : String) : Bool := s == "1"

/-- "-" is the empty list; otherwise comma separated naturals -/
def natList (s : String) : List Nat :=
  if s == "-" || s == "" then [] else (s.splitOn ",").map nat!

def showNatList (l : List Nat) : String :=
  if l.isEmpty then "-" else ",".intercalate (l.map toString)

def b01 (b : Bool) : String := if b then "1" else "0"

/-- read all lines of stdin -/
partial def readLines (h : IO.FS.Stream) (acc : Array String) : IO (Array String) := do
  let line ← h.getLine
  if line.isEmpty then return acc
  readLines h (acc.push line)

/-- split the input into cases: a line `#case <id>` starts a new case -/
def splitCases (lines : Array String) : Array (String × Array String) := Id.run do
  let mut out : Array (String × Array String) := #[]
  let mut cur : Option (String × Array String) := none
  for l in lines do
    let t := l.trimAscii.toString
    if t.startsWith "#case" then
      if let some c := cur then out := out.push c
      cur := some (t, #[])
    else if t.isEmpty then continue
    else
      match cur with
      | some (h, ls) => cur := some (h, ls.push t)
      | none => cur := some ("#case -", #[t])
  if let some c := cur then out := out.push c
  return out

end Driver

import Ebu.Model.Shutdown
import Driver.Common
namespace Driver.ShutdownDrv
open Ebu.Shutdown Driver

structure DSt where
  s : S := {}
  pending : Bool := false      -- a Shutdown call is blocked

def showO : Outcome → String
  | .nil_ => "nil" | .closeError => "closeerr" | .ctxError => "ctxerr"

/-- after a state change: does the blocked Shutdown return now? -/
def settle (d : DSt) : DSt × List String :=
  if d.pending then
    match shutdown d.s true with
    | some (s', o) => ({ s := s', pending := false }, ["shutdown-> " ++ showO o])
    | none => (d, [])
  else (d, [])

def runCase (lines : Array String) : Array String := Id.run do
  let mut d : DSt := {}
  let mut out := #[]
  for l in lines do
    match words l with
    | ["closer", c, f] => d := { d with s := { d.s with hasCloser := bool! c, closeFails := bool! f } }
    | ["async", n] =>
      d := { d with s := { d.s with inflight := d.s.inflight + nat! n } }
      out := out.push "async"
    | ["release", k] =>
      d := { d with s := { d.s with inflight := d.s.inflight - nat! k } }
      out := out.push "release"
      let (d', ls) := settle d
      d := d'
      for x in ls do out := out.push x
    | ["cancel"] =>
      d := { d with s := { d.s with cancelled := true } }
      out := out.push "cancel"
      let (d', ls) := settle d
      d := d'
      for x in ls do out := out.push x
    | ["shutdown"] =>
      match shutdown d.s true with
      | some (s', o) =>
        d := { d with s := s' }
        out := out.push ("shutdown " ++ showO o)
      | none =>
        d := { d with pending := true }
        out := out.push "shutdown blocked"
    | ["shutdownc"] =>
      -- a call with its own context, cancelled while the call is in progress: it returns at once if nothing is in flight
      -- (and closes the store), otherwise the context's error (and touches nothing)
      match shutdown { d.s with cancelled := decide (d.s.inflight ≠ 0) } true with
      | some (s', o) =>
        d := { d with s := { s' with cancelled := d.s.cancelled } }
        out := out.push ("shutdownc " ++ showO o)
      | none => out := out.push "shutdownc ?"
    | ["final"] => out := out.push s!"final closes={d.s.closes}"
    | _ => out := out.push ("bad-op " ++ l)
  return out

end Driver.ShutdownDrv

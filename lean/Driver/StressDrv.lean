import Driver.Common
/- Domain "stress": implementation-side judges under real concurrency (go/harness/stress.go). What the model
requires of every round is what the theorems of `Ebu.Props.C02/C04/C06/C07` state for every schedule; the
judge is on the Go side, so the required output is simply "<scenario> ok". -/
namespace Driver.StressDrv
open Driver

def runCase (lines : Array String) : Array String :=
  lines.map fun l =>
    match words l with
    | [sc, _, _] => if ["regs", "once", "waiters", "seq", "hooks", "types", "obs", "seqcancel", "seqburst"].contains sc then sc ++ " ok" else "bad-op " ++ l
    | _ => "bad-op " ++ l

end Driver.StressDrv

import Driver.Common
import Driver.UpcastDrv
import Driver.BusDrv
import Driver.StoreDrv
import Driver.StateDrv
import Driver.NamesDrv
import Driver.ConcDrv
import Driver.ResumeDrv
import Driver.DurableDrv
import Driver.ShutdownDrv
import Driver.StressDrv
open Driver

def runDomain (dom : String) (lines : Array String) : Array String :=
  match dom with
  | "upcast" => UpcastDrv.runCase lines
  | "bus" => BusDrv.runCase lines
  | "store" => StoreDrv.runCase lines
  | "state" => StateDrv.runCase lines
  | "wirecheck" => StateDrv.runWire lines
  | "names" => NamesDrv.runCase lines
  | "conc" => ConcDrv.runCase lines
  | "resume" => ResumeDrv.runCase lines
  | "durable" => DurableDrv.runCase lines
  | "durablecheck" => DurableDrv.runJudge lines
  | "shutdown" => ShutdownDrv.runCase lines
  | "stress" => StressDrv.runCase lines
  | _ => #["unknown-domain " ++ dom]

def main (args : List String) : IO UInt32 := do
  match args with
  | [dom] =>
    let stdin ← IO.getStdin
    let stdout ← IO.getStdout
    let lines ← readLines stdin #[]
    for (hdr, body) in splitCases lines do
      stdout.putStrLn hdr
      for o in runDomain dom body do
        stdout.putStrLn o
    stdout.flush
    return 0
  | _ =>
    IO.eprintln "usage: ebudriver <domain> < cases"
    return 2
